"""Per-property configuration of /verif/check: scopes, case budgets, registered theorems."""

TB_COMMON = [
    "Lean 4.33.0 kernel; axioms per theorem as printed by '#print axioms' (allowed: propext, Classical.choice, Quot.sound)",
    "hand-written Lean model (lean/RSSched/Model) tied to /repo by the differential harness (harness/, feature rssched_verif) on every run",
    "Lean compiler for the rsmodel executable; harness generators, canonical dump code, ISO<->seconds conversion; this orchestrator",
]

PROPS = {
    "C17": {
        "level": "proof",
        "technique": "Lean 4 theorems over the network model (reachability rule, exact successor/predecessor enumeration incl. ties, capacity function) + per-run differential check of every public Network query against Instance.load",
        "level_text": "Kernel-checked theorems state that the model's can_reach is the documented timing rule and that successors/predecessors list exactly the reachable nodes of the type's index, ties included, for every network; the model's loader is compared field by field and query by query with the real loader on structured random instances on every run, so a change to the loader, the reachability rule or the range bounds shows as a concrete instance.",
        "level_note": "Trusted: Lean kernel, the hand-written model (tied by the differential run only), harness generators and dump code, serde/rapid_time parsing (exercised, not modelled). Faithfulness of load is checked by equality with the model on sampled instances, not proved about the Rust code.",
        "scopes": {"net": {"quick": 150, "thorough": 3000}},
        "theorems": [
            "RSSched.C17.C17_reach",
            "RSSched.C17.reach_end_le_start",
            "RSSched.C17.C17_succ_exact",
            "RSSched.C17.C17_pred_exact",
            "RSSched.C17.C17_capacity_le_total",
            "RSSched.C17.C17_capacity_unlisted",
            "RSSched.C17.C17_capacity_listed",
            "RSSched.C17.C17_capacity_unlimited",
            "RSSched.C17.C02_limit_fn",
            "RSSched.C17.F1_pinned_predecessors_miss_tie",
            "RSSched.C17.tieNet_depotTimes",
        ],
        "nontrivial_stats": ["net.ties"],
        "nontrivial_rule": "instances from the structured generator (1-3 types, 2-4 locations, depots given/omitted, 2-9 departures on a 10-minute grid, 0-3 slots, zero/positive shunting, metric/non-metric/extreme dead-head matrices); non-trivial = at least one ordered pair of activities whose arrival + turnaround equals the next start exactly (a tie); distinct by hash of the instance lines",
        "trusted_base": TB_COMMON + ["modelled rather than verified: serde field mapping and rapid_time calendar parsing (compared through the loader on every case)"],
        "assumptions": ["node indices fit the 16-bit Idx (hypothesis of C17_pred_exact)", "depot nodes carry Earliest/Latest (DepotTimes; holds for every loaded network, checked per case through the node dump)"],
    },
}
