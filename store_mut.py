#!/usr/bin/env python3
"""store_mut.py <prop> <name> <crate> <demo file> <change> | <needs> | <caught by ; separated> | <history>"""
import json, os, shutil, sys
pid, name, crate, demo = sys.argv[1:5]
ROOT = os.environ.get("MUTROOT", "/tmp/mut")
what, needs, caught, hist = [x.strip() for x in " ".join(sys.argv[5:]).split("|")]
d = f"/verif/seeded/{name}"
os.makedirs(d, exist_ok=True)
shutil.copy(f"{ROOT}/{pid}_out/patch.diff", d)
shutil.copy(f"{ROOT}/{pid}_out/{demo}", d)
shutil.copy(f"{ROOT}/{pid}_out/AGENT_README.md" if os.path.exists(f"{ROOT}/{pid}_out/AGENT_README.md") else f"{ROOT}/{pid}_out/README.md", os.path.join(d, "AGENT_README.md"))
meta = {"property": pid, "change": what, "needs_to_manifest": needs,
        "demonstration": {"file": demo, "where": f"{crate}/tests/{demo}", "run": f"cargo test -p {crate} --test {demo[:-3]} --offline"},
        "confirmed": f"scratch worktree {ROOT}/{pid}: cargo test --workspace --offline -> 53 passed with the change; demo fails with the change, passes with the change stashed (confirm_mut.sh)",
        "caught_by": [c.strip() for c in caught.split(";")], "history": hist,
        "how_checked": f"./evalmut.sh seeded/{name}/patch.diff {pid}  (git -C /repo apply; ./check <id>; git -C /repo checkout -- .)"}
json.dump(meta, open(os.path.join(d, "meta.json"), "w"), indent=1)
os.system(f"git -C /repo worktree remove --force {ROOT}/{pid}; rm -rf {ROOT}/{pid}_target {ROOT}/{pid}_out {ROOT}/{pid}_cur.diff")
print("stored", d)
