#!/usr/bin/env python3
"""Regenerates /verif/MANIFEST.json from props.py (single source of truth for the checks)."""
import json, os, subprocess, sys
sys.path.insert(0, os.path.dirname(os.path.abspath(__file__)))
from props import PROPS

ALL = ["C%02d" % i for i in range(1, 19)]
hooks = subprocess.run(["git", "-C", "/repo", "log", "--format=%H %s"], stdout=subprocess.PIPE, text=True).stdout
hook_commits = [l.split()[0] for l in hooks.splitlines() if "verif hooks" in l]

m = {
    "version": 1,
    "setup_cmd": "cd /verif/lean && lake build && cd /verif/harness && cp /repo/Cargo.lock Cargo.lock && CARGO_NET_OFFLINE=true cargo build --release --offline && CARGO_NET_OFFLINE=true cargo build --profile checked --offline",
    "hooks": {
        "guard": "rssched_verif",
        "enable": "cargo feature rssched_verif of the crates solution, solver, server; the harness (/verif/harness/Cargo.toml) depends on /repo/{model,solution,solver,server} by path with that feature on and is rebuilt by every check",
        "baseline_off_cmd": "cd /repo && cargo test --workspace --no-fail-fast --offline",
        "source_commits": hook_commits,
        "add_only": True,
    },
    "engines": [
        {"name": "lean-model", "path": "/verif/lean", "serves_properties": sorted(PROPS),
         "kind_free_text": "hand-written executable Lean 4 model + kernel-checked theorems (lake build), compiled driver rsmodel"},
        {"name": "rsv", "path": "/verif/harness", "serves_properties": sorted(PROPS),
         "kind_free_text": "Rust differential harness: structured generators, runs the real code in-process, canonical dumps"},
    ],
    "checks": [],
    "notes": "All checks: /verif/check <id> [--tier quick|thorough]; seed from VERIF_SEED; tier from --tier or VERIF_TIER. See DESIGN.md.",
    "not_applicable": [],
}
for p in ALL:
    if p in PROPS:
        s = PROPS[p]
        m["checks"].append({
            "property_id": p,
            "quick_cmd": "./check %s --tier quick" % p,
            "thorough_cmd": "./check %s --tier thorough" % p,
            "evidence_file": "/verif/evidence/%s.json" % p,
            "replay_cmd_template": "./check %s --replay {path}" % p,
            "engine": "lean-model",
            "level_claimed": {"category": s["level"], "text": s["level_text"], "design_ref": "DESIGN.md §6 " + p},
            "level_note": s["level_note"],
            "technique": s["technique"],
        })
    else:
        m["not_applicable"].append({"property_id": p, "reason": "not claimed yet: model and check under construction (DESIGN.md §10 order of work); the technique applies, see DESIGN.md §6 " + p})
json.dump(m, open(os.path.join(os.path.dirname(os.path.abspath(__file__)), "MANIFEST.json"), "w"), indent=1)
print("MANIFEST.json: %d checks, %d not claimed" % (len(m["checks"]), len(m["not_applicable"])))
