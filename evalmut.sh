#!/bin/bash
# evalmut.sh <patch.diff> <prop> [more props...] : apply a seeded change to /repo, run the quick
# checks of the given properties, undo the change. Prints the tail of each check.
set -u
patch="$1"; shift
git -C /repo diff --quiet || { echo "/repo has uncommitted changes"; exit 2; }
git -C /repo apply "$patch" || { echo "patch does not apply"; exit 2; }
for p in "$@"; do
  echo "=== $p (tier ${TIER:-quick})"
  /verif/check "$p" --tier "${TIER:-quick}" 2>&1 | grep -E "VIOLATION|detail|KNOWN|^check" | head -8
done
git -C /repo checkout -- .
rm -rf /verif/replays
