#!/usr/bin/env python3
"""
Concurrent client for the serve scope (C18). Starts the REAL server binary built from /repo's
working tree (harness bin `rsv_server` = /repo/server/src/main.rs), sends a seeded mix of valid,
malformed and semantically invalid solve requests and health probes from K concurrent clients,
and writes one case file per request: the instance of the request, what came back, and — for 200
answers — the returned JSON flattened against the instance of ITS OWN request, for the Lean
monitors.
usage: serve.py <seed> <n requests> <clients> <outdir>
"""
import http.client
import os
import random
import socket
import subprocess
import sys
import threading
import time

VERIF = os.path.dirname(os.path.abspath(__file__))
RSV = os.path.join(VERIF, "harness", "target", "release", "rsv")
SERVER = os.path.join(VERIF, "harness", "target", "release", "rsv_server")


def free_port():
    s = socket.socket()
    s.bind(("127.0.0.1", 0))
    p = s.getsockname()[1]
    s.close()
    return p


def request(port, method, path, body=None, timeout=60):
    """returns (status or 'closed'/'timeout', body text)"""
    try:
        c = http.client.HTTPConnection("127.0.0.1", port, timeout=timeout)
        headers = {"Content-Type": "application/json"} if body is not None else {}
        c.request(method, path, body=body, headers=headers)
        r = c.getresponse()
        data = r.read().decode("utf-8", "replace")
        c.close()
        return str(r.status), data
    except socket.timeout:
        return "timeout", ""
    except Exception as e:  # connection reset / closed without response
        return "closed", str(e)[:80]


def main():
    seed, n, clients, outdir = int(sys.argv[1]), int(sys.argv[2]), int(sys.argv[3]), sys.argv[4]
    os.makedirs(outdir, exist_ok=True)
    req = os.path.join(outdir, "req")
    subprocess.run([RSV, "genreq", "--seed", str(seed), "--n", str(n), "--out", req], check=True,
                   stdout=subprocess.DEVNULL)
    port = free_port()
    log = open(os.path.join(outdir, "server.log"), "w")
    srv = subprocess.Popen([SERVER, str(port)], stdout=log, stderr=subprocess.STDOUT)
    up = False
    for _ in range(200):
        st, body = request(port, "GET", "/health", timeout=2)
        if st == "200":
            up = True
            break
        time.sleep(0.05)
    results = {}
    health_during = []
    rnd = random.Random(seed)
    order = list(range(n))
    rnd.shuffle(order)
    delays = {k: rnd.random() * 0.05 for k in order}
    lock = threading.Lock()
    queue = list(order)

    def worker():
        while True:
            with lock:
                if not queue:
                    return
                k = queue.pop()
            time.sleep(delays[k])
            kind = open(os.path.join(req, "req_%d.kind" % k)).read()
            if kind == "health":
                st, body = request(port, "GET", "/health")
            else:
                st, body = request(port, "POST", "/solve", body=open(os.path.join(req, "req_%d.body" % k)).read().encode())
            with lock:
                results[k] = (kind, st, body)

    def prober():
        # health must answer while solves are in flight
        while True:
            with lock:
                if not queue:
                    return
            st, body = request(port, "GET", "/health", timeout=30)
            health_during.append((st, body))
            time.sleep(0.02)

    abandoned = [0]

    def abandoner():
        # clients that give up: a complete valid request over a keep-alive connection, closed after a
        # few milliseconds without reading the answer. A client failure must stay that client's own:
        # the requests of all other clients, and later ones, are still answered.
        arnd = random.Random(seed * 7919 + 1)
        bodies = []
        for k in range(n):
            if open(os.path.join(req, "req_%d.kind" % k)).read() == "valid":
                bodies.append(open(os.path.join(req, "req_%d.body" % k)).read().encode())
        if not bodies:
            return
        bodies.sort(key=len, reverse=True)
        bodies = bodies[:4]
        while True:
            with lock:
                if not queue:
                    return
            body = arnd.choice(bodies)
            try:
                sk = socket.create_connection(("127.0.0.1", port), timeout=5)
                hdr = "POST /solve HTTP/1.1\r\nHost: 127.0.0.1\r\nContent-Type: application/json\r\nContent-Length: %d\r\n\r\n" % len(body)
                sk.sendall(hdr.encode() + body)
                time.sleep(arnd.choice([0.001, 0.003, 0.01, 0.03]))
                sk.close()
                abandoned[0] += 1
            except Exception:
                pass
            time.sleep(0.01)

    reuse = {"sent": 0, "ok": 0, "detail": ""}

    def reuser():
        # one client that keeps ONE connection open and sends several requests over it, one after the
        # other (valid solve, health, invalid solve, valid solve): each must get its own complete answer
        import json as _json
        rrnd = random.Random(seed * 104729 + 7)
        valid = [k for k in range(n) if open(os.path.join(req, "req_%d.kind" % k)).read() == "valid"]
        invalid = [k for k in range(n) if open(os.path.join(req, "req_%d.kind" % k)).read() == "invalid"]
        if not valid:
            return
        plan = []
        for _ in range(3):
            plan.append(("valid", rrnd.choice(valid)))
            plan.append(("health", None))
            if invalid:
                plan.append(("invalid", rrnd.choice(invalid)))
        plan.append(("valid", rrnd.choice(valid)))
        try:
            c = http.client.HTTPConnection("127.0.0.1", port, timeout=60)
            for kind, k in plan:
                reuse["sent"] += 1
                try:
                    if kind == "health":
                        c.request("GET", "/health")
                    else:
                        c.request("POST", "/solve", body=open(os.path.join(req, "req_%d.body" % k)).read().encode(),
                                  headers={"Content-Type": "application/json"})
                    r = c.getresponse()
                    data = r.read().decode("utf-8", "replace")
                except Exception as e:
                    # an invalid body may cost the connection (closed without answer): open a new one
                    if kind == "invalid":
                        reuse["ok"] += 1
                        c.close()
                        c = http.client.HTTPConnection("127.0.0.1", port, timeout=60)
                        continue
                    reuse["detail"] = "%s request on a kept-alive connection: %s" % (kind, str(e)[:60])
                    c.close()
                    c = http.client.HTTPConnection("127.0.0.1", port, timeout=60)
                    continue
                if kind == "health":
                    good = r.status == 200 and data.strip() == "Healthy"
                elif kind == "invalid":
                    good = r.status != 200
                else:
                    good = False
                    if r.status == 200:
                        try:
                            j = _json.loads(data)
                            inst = _json.loads(open(os.path.join(req, "req_%d.body" % k)).read())
                            want = sorted(x["id"] for d in inst["departures"] for x in d["segments"])
                            got = sorted(x["departureSegment"] for x in j["schedule"]["departureSegments"])
                            good = want == got
                        except Exception:
                            good = False
                if good:
                    reuse["ok"] += 1
                elif not reuse["detail"]:
                    reuse["detail"] = "%s request on a kept-alive connection answered %s" % (kind, r.status)
            c.close()
        except Exception as e:
            reuse["detail"] = reuse["detail"] or ("client error %s" % str(e)[:60])

    if up:
        ts = [threading.Thread(target=worker) for _ in range(clients)] + [threading.Thread(target=prober), threading.Thread(target=abandoner), threading.Thread(target=reuser)]
        for t in ts:
            t.start()
        for t in ts:
            t.join()
    # hammer phase: several clients solve small valid instances back to back while several others poll
    # /health without pause, all over kept-alive connections. Every request must be answered (solves
    # with the departure segments of their own instance); a server that wedges (e.g. two handlers
    # waiting for each other) leaves requests unanswered here and fails the final health check.
    hammer = {"solves": 0, "solves_ok": 0, "health": 0, "health_ok": 0, "detail": ""}
    if up:
        import json as _json
        hbodies = []
        for k in range(n):
            if open(os.path.join(req, "req_%d.kind" % k)).read() == "valid":
                b = open(os.path.join(req, "req_%d.body" % k)).read()
                hbodies.append(b)
        hbodies.sort(key=len)
        hbodies = hbodies[:3]
        hwant = []
        for b in hbodies:
            inst = _json.loads(b)
            hwant.append(sorted(x["id"] for d in inst["departures"] for x in d["segments"]))
        hdur = float(os.environ.get("RSV_SERVE_HAMMER", "2.5" if n < 200 else "8"))
        stop_at = time.time() + hdur
        hlock = threading.Lock()

        def hsolver(i):
            c = http.client.HTTPConnection("127.0.0.1", port, timeout=15)
            j = i
            while time.time() < stop_at and not hammer["detail"]:
                j += 1
                b = hbodies[j % len(hbodies)]
                good = False
                why = ""
                try:
                    c.request("POST", "/solve", body=b.encode(), headers={"Content-Type": "application/json"})
                    r = c.getresponse()
                    data = r.read().decode("utf-8", "replace")
                    if r.status == 200:
                        got = sorted(x["departureSegment"] for x in _json.loads(data)["schedule"]["departureSegments"])
                        good = got == hwant[j % len(hbodies)]
                        why = "" if good else "solve answered with another instance's segments"
                    else:
                        why = "solve answered %s" % r.status
                except Exception as e:
                    why = "solve not answered: %s" % str(e)[:50]
                    c.close()
                    c = http.client.HTTPConnection("127.0.0.1", port, timeout=15)
                with hlock:
                    hammer["solves"] += 1
                    hammer["solves_ok"] += int(good)
                    if not good and not hammer["detail"]:
                        hammer["detail"] = why
            c.close()

        def hhealth():
            c = http.client.HTTPConnection("127.0.0.1", port, timeout=15)
            while time.time() < stop_at and not hammer["detail"]:
                good = False
                why = ""
                try:
                    c.request("GET", "/health")
                    r = c.getresponse()
                    data = r.read().decode("utf-8", "replace")
                    good = r.status == 200 and data.strip() == "Healthy"
                    why = "" if good else "health answered %s" % r.status
                except Exception as e:
                    why = "health not answered: %s" % str(e)[:50]
                    c.close()
                    c = http.client.HTTPConnection("127.0.0.1", port, timeout=15)
                with hlock:
                    hammer["health"] += 1
                    hammer["health_ok"] += int(good)
                    if not good and not hammer["detail"]:
                        hammer["detail"] = why
            c.close()

        if hbodies:
            hts = [threading.Thread(target=hsolver, args=(i,)) for i in range(4)] + [threading.Thread(target=hhealth) for _ in range(6)]
            for t in hts:
                t.start()
            for t in hts:
                t.join()
    alive = srv.poll() is None
    final_health = request(port, "GET", "/health", timeout=10) if up else ("closed", "")
    # a final valid request after all the faults
    final_valid = None
    for k in range(n):
        if open(os.path.join(req, "req_%d.kind" % k)).read() == "valid":
            final_valid = k
            break
    final_res = None
    if final_valid is not None and up:
        final_res = request(port, "POST", "/solve", body=open(os.path.join(req, "req_%d.body" % final_valid)).read().encode())
    # the same valid instance padded with unused locations to a body larger than 2 MiB: it is still
    # a valid request and must get a solution of its timetable (same departure segments, same count
    # of vehicles as the unpadded answer is not required: extra default depots may be used)
    big_res = None
    if final_valid is not None and up and final_res is not None and final_res[0] == "200":
        import json
        try:
            inst = json.loads(open(os.path.join(req, "req_%d.body" % final_valid)).read())
            dh = inst["deadHeadTrips"]
            n0 = len(dh["indices"])
            pad = 430
            ids = ["padloc%d" % i for i in range(pad)]
            for i in ids:
                inst["locations"].append({"id": i})
            dh["indices"] = dh["indices"] + ids
            for key, far in (("durations", 86400), ("distances", 900000)):
                m = dh[key]
                for row in m:
                    row.extend([far] * pad)
                for i in range(pad):
                    m.append([far] * (n0 + i) + [0] + [far] * (pad - i - 1))
            body = json.dumps(inst).encode()
            st, txt = request(port, "POST", "/solve", body=body, timeout=120)
            ok = 0
            if st == "200":
                try:
                    small = json.loads(final_res[1])
                    bigj = json.loads(txt)
                    seg = lambda j: sorted(x["departureSegment"] for x in j["schedule"]["departureSegments"])
                    ok = int(seg(small) == seg(bigj) and bigj["objectiveValue"]["unservedPassengers"] == small["objectiveValue"]["unservedPassengers"])
                except Exception:
                    ok = 0
            big_res = (st, ok, len(body))
        except Exception as e:
            big_res = ("clienterror", 0, 0)
    alive = alive and (srv.poll() is None)
    srv.kill()
    srv.wait()
    log.close()

    def write_case(name, k, kind, st, body, extra):
        inst_file = os.path.join(req, "req_%d.inst" % k)
        lines = ["CASE %s serve %d %d quick" % (name, seed, k)]
        flat = ""
        if kind == "valid" and st == "200":
            rf = os.path.join(outdir, name + ".resp.json")
            open(rf, "w").write(body)
            ff = os.path.join(outdir, name + ".flat")
            subprocess.run([RSV, "flatten", inst_file, rf, ff], stdout=subprocess.DEVNULL)
            flat = open(ff).read() if os.path.exists(ff) else ""
            for f in (rf, ff):
                if os.path.exists(f):
                    os.remove(f)
        else:
            flat = open(inst_file).read()
        lines.append(flat.rstrip("\n"))
        lines.append("V kind %s" % kind)
        lines.append("V status %s" % st)
        if kind == "health":
            lines.append("V healthbody %s" % body.strip().replace(" ", "_")[:40])
        for e in extra:
            lines.append(e)
        open(os.path.join(outdir, name + ".case"), "w").write("\n".join(lines) + "\n")

    common = ["V serverup %d" % int(up), "V alive %d" % int(alive),
              "V finalhealth %s %s" % (final_health[0], final_health[1].strip().replace(" ", "_")[:40]),
              "V healthprobes %d %d" % (len(health_during), sum(1 for s, b in health_during if s == "200" and b.strip() == "Healthy")),
              "V clients %d" % clients, "V abandoned %d" % abandoned[0],
              "V reuse %d %d %s" % (reuse["sent"], reuse["ok"], reuse["detail"].replace(" ", "_") or "-"),
              "V hammer %d %d %d %d %s" % (hammer["solves"], hammer["solves_ok"], hammer["health"], hammer["health_ok"],
                                          hammer["detail"].replace(" ", "_") or "-")]
    for k in range(n):
        kind, st, body = results.get(k, (open(os.path.join(req, "req_%d.kind" % k)).read(), "notsent", ""))
        write_case("serve_%d_%d" % (seed, k), k, kind, st, body, common)
    if final_res is not None:
        write_case("serve_%d_final" % seed, final_valid, "valid", final_res[0], final_res[1], common + ["V final 1"])
    if big_res is not None:
        lines = ["CASE serve_%d_big serve %d %d quick" % (seed, seed, final_valid), open(os.path.join(req, "req_%d.inst" % final_valid)).read().rstrip("\n"),
                 "V kind validbig", "V status %s" % big_res[0], "V bigok %d" % big_res[1], "V bytes %d" % big_res[2]] + common
        open(os.path.join(outdir, "serve_%d_big.case" % seed), "w").write("\n".join(lines) + "\n")
    # request material is no longer needed
    for f in os.listdir(req):
        os.remove(os.path.join(req, f))
    os.rmdir(req)


if __name__ == "__main__":
    main()
