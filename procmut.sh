#!/bin/bash
# procmut.sh <id> <crate> <demo file> [props...] : confirm a sub-agent's change in its scratch worktree
# (${MUTROOT}/<id>, deliverables in ${MUTROOT}/<id>_out) and run the quick checks of the given properties on it.
id=$1; crate=$2; demo=$3; shift 3
export MUTROOT=${MUTROOT:-/tmp/mut5}
/verif/confirm_mut.sh $id $crate $demo 2>&1 | tail -2
for p in "${@:-$id}"; do /verif/evalmut.sh $MUTROOT/${id}_out/patch.diff $p; done
