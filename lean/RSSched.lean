import RSSched.Model.Base
import RSSched.Model.Network
