import RSSched.Model.Base
import RSSched.Model.Network
import RSSched.Model.Tour
