/-
rsmodel: the model driver. `rsmodel <case files…>` replays each case on the Lean model, evaluates
the monitors on the implementation's dumped states and prints one verdict block per case.
-/
import RSSched.Driver.Net
import RSSched.Driver.Tour
import RSSched.Driver.Pipe
import RSSched.Driver.Trans
import RSSched.Driver.Sched
import RSSched.Driver.Swaps
import RSSched.Driver.Mcf
import RSSched.Driver.Serve
import RSSched.Driver.Search
open RSSched RSSched.Driver

def processCase (text : String) : Array String :=
  let c := parseCase text
  let act : VM Unit :=
    match c.scope with
    | "net" => checkNet c
    | "tour" => checkTour c
    | "tourx" => checkTour c
    | "pipe" => checkPipe c
    | "trans" => checkTrans c
    | "transx" => checkTrans c
    | "sched" => checkSched c
    | "swaps" => checkSwaps c
    | "mcf" => checkMcf c
    | "serve" => checkServe c
    | "search" => checkSearch c
    | s => vnote s!"unknown scope {s}"
  let (_, v) := act.run {}
  let status := if v.fails > 0 then "fail" else if v.diffs > 0 then "diff" else "ok"
  (#[s!"CASE {c.name} {c.scope}"] ++ v.lines).push s!"END {c.name} {status} fails={v.fails} diffs={v.diffs}"

def main (args : List String) : IO UInt32 := do
  for f in args do
    let text ← IO.FS.readFile f
    for l in processCase text do
      IO.println l
  return 0
