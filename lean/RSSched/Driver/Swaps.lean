/-
Driver/Swaps: scope `swaps` (C11). Every dumped candidate of the real neighbourhood is checked
with the structural and the cache-exactness monitors; enumeration must not panic and must leave
the base schedule observably unchanged.
-/
import RSSched.Driver.Sched
namespace RSSched.Driver
open RSSched Spec

def checkSwaps (c : Case) : VM Unit := do
  let nw := c.inst.load
  if c.lines.any (fun t => t.head? == some "X") then
    vfail "C17" "load-panic" ""
    return
  let mut nCands := 0
  let mut nDumped := 0
  let mut nSteps := 0
  let mut kinds : List String := []
  -- split into schedule dumps: lines between "T cand"/"O start" markers and "S endsched"
  let mut cur : List Toks := []
  let mut label := "start"
  for t in c.lines do
    match t with
    | ["T", "panic", site] => vfail "C11,C06" "neighbourhood-panic" s!"site={site} at {label}"
    | ["T", "baseunchanged", b] =>
      nSteps := nSteps + 1
      if b != "1" then vfail "C11" "base-changed-by-enumeration" label
    | ["T", "candidates", n] => nCands := nCands + nat! n
    | "T" :: "cand" :: k :: txt =>
      label := s!"candidate {k} {" ".intercalate txt}"
      let kind := ((txt.headD "").takeWhile (· != '_')).toString
      if !(kinds.contains kind) then kinds := kind :: kinds
      cur := []
    | "S" :: rest =>
      cur := cur ++ [rest]
      if rest == ["endsched"] then
        let o := parseSched cur
        nDumped := nDumped + 1
        for d in scheduleValidDiffs nw o.s do vfail "C11,C10" s!"candidate-{d}" label
        for d in scheduleCacheDiffs nw o.s do vfail "C11,C09" s!"candidate-cache-{d}" label
        for d in getterDiffs nw o do vfail "C11,C09" s!"candidate-{d}" label
        cur := []
    | _ => pure ()
  vstat "swaps.steps" nSteps
  vstat "swaps.candidates" nCands
  vstat "swaps.dumped" nDumped
  vstat "swaps.kinds" kinds.length

end RSSched.Driver
