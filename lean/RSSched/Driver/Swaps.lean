/-
Driver/Swaps: scope `swaps` (C11). Every dumped candidate of the real neighbourhood is checked
with the structural and the cache-exactness monitors; enumeration must not panic and must leave
the base schedule observably unchanged.
-/
import RSSched.Driver.Sched
import RSSched.Model.Swaps
namespace RSSched.Driver
open RSSched Spec

def checkSwaps (c : Case) : VM Unit := do
  let nw := c.inst.load
  if c.lines.any (fun t => t.head? == some "X") then
    vfail "C17" "load-panic" ""
    return
  let mut nCands := 0
  let mut nDumped := 0
  let mut nSteps := 0
  let mut kinds : List String := []
  -- split into schedule dumps: lines between "T cand"/"O start" markers and "S endsched"
  let mut cur : List Toks := []
  let mut limit : Option Nat := none
  let mut threshold : Option Nat := none
  let mut baseInfo : SwapInfo := .noSwap
  let mut modelCands : Option (List Swaps.Candidate) := none
  let mut nCompared := 0
  let mut candIdx := 0
  let mut label := "start"
  for t in c.lines do
    match t with
    | ["T", "panic", site] => vfail "C11,C06" "neighbourhood-panic" s!"site={site} at {label}"
    | ["T", "baseunchanged", b] =>
      nSteps := nSteps + 1
      if b != "1" then vfail "C11" "base-changed-by-enumeration" label
    | ["T", "nbparams", l, th] =>
      limit := optNat l
      threshold := optNat th
    | ["T", "baseinfo", kind, v] =>
      baseInfo := match kind with
        | "spawn" => .spawnForMaintenance (vehTok v)
        | "exchange" => .pathExchange (vehTok v)
        | "hitch" => .hitchHiking (vehTok v)
        | "remove" => .removeSingleNode (vehTok v)
        | _ => .noSwap
    | ["T", "candidates", n] =>
      nCands := nCands + nat! n
      -- correspondence: the model's neighbourhood of the implementation's base schedule
      if let some mc := modelCands then
        if mc.length != nat! n then
          vdiff "C11" "model-candidate-count" s!"{label} impl={n} model={mc.length}"
    | "T" :: "cand" :: k :: txt =>
      label := s!"candidate {k} {" ".intercalate txt}"
      candIdx := nat! k
      let kind := ((txt.headD "").takeWhile (· != '_')).toString
      if !(kinds.contains kind) then kinds := kind :: kinds
      cur := []
    | "S" :: rest =>
      cur := cur ++ [rest]
      if rest == ["endbase"] then
        -- the base schedule of this step: enumerate the model's neighbourhood on it
        let o := parseSched (cur.dropLast ++ [["endsched"]])
        modelCands := match Swaps.neighborsOf nw limit threshold o.s baseInfo with
          | .ok l => some l
          | .error _ => none
        if modelCands.isNone then vdiff "C11" "model-neighbourhood-faults" label
        cur := []
      else if rest == ["endsched"] then
        let o := parseSched cur
        if label.startsWith "candidate" then
          if let some mc := modelCands then
            match mc[candIdx]? with
            | some m =>
              nCompared := nCompared + 1
              let fs := Schedule.diffFields m.sched o.s
              if !fs.isEmpty then vdiff "C11" s!"model-candidate-{fs.headD ""}" s!"{label} model-swap={m.text} fields={fs}"
            | none => pure ()
        nDumped := nDumped + 1
        for d in scheduleValidDiffs nw o.s do vfail "C11,C10" s!"candidate-{d}" label
        for d in scheduleCacheDiffs nw o.s do vfail "C11,C09" s!"candidate-cache-{d}" label
        for d in getterDiffs nw o do vfail "C11,C09" s!"candidate-{d}" label
        cur := []
    | _ => pure ()
  vstat "swaps.steps" nSteps
  vstat "swaps.candidates" nCands
  vstat "swaps.dumped" nDumped
  vstat "swaps.kinds" kinds.length
  vstat "swaps.model-compared" nCompared

end RSSched.Driver
