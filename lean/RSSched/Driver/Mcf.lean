/-
Driver/Mcf: scope `mcf` (C14, start half of C07). For every hooked per-type flow network:
the arc set with bounds and costs equals the specification network built from the instance; the
computed flow passes the proved certificate checker for the solver's cost and for the vehicle
count (potentials come from the harness and are only checked); the decoded tours carry exactly
the flow; the start schedule consists of the decoded tours.
-/
import RSSched.Driver.Sched
import RSSched.Props.C14
import RSSched.Spec.Output
namespace RSSched.Driver
open RSSched Spec

structure FlowBlock where
  vt : Nat := 0
  arcs : List (LArc × Int) := []          -- with flow
  slots : List (Nat × Nat) := []
  tours : List (List Nat) := []
  pot1 : Option (List (String × Int)) := none
  pot2 : Option (List (String × Int)) := none
  neg1 : Bool := false
  neg2 : Bool := false

def arcKey (a : LArc) : String := s!"{a.src}>{a.dst}:{a.lb}:{a.ub}:{a.cost}"

def sortStr (l : List String) : List String := l.mergeSort (fun a b => a ≤ b)

def checkFlowBlock (nw : Network) (b : FlowBlock) : VM Unit := do
  let tag := s!"type={b.vt}"
  -- (1) arc set = specification network
  let exp := Flow.expectedArcs nw b.vt b.slots
  let implKeys := sortStr (b.arcs.map (fun p => arcKey p.1))
  let expKeys := sortStr (exp.map arcKey)
  if implKeys != expKeys then
    let missing := expKeys.filter (fun k => !(implKeys.contains k))
    let extra := implKeys.filter (fun k => !(expKeys.contains k))
    vfail "C14,C07" "flow-network-differs-from-specification" s!"{tag} missing={missing.take 4} extra={extra.take 4}"
  -- slot allotment within the track count
  for (m, c) in b.slots do
    if c > (nw.node m).tracks then vfail "C14,C02" "slot-allotment-exceeds-tracks" s!"{tag} node={m}"
  -- (2) certificates
  let names : List String := (b.arcs.flatMap (fun p => [p.1.src, p.1.dst])).eraseDups
  let idxOf (s : String) : Nat := (names.findIdx? (· == s)).getD 0
  let V := List.range names.length
  let A : List FlowCert.Arc := b.arcs.map (fun p => ⟨idxOf p.1.src, idxOf p.1.dst, p.1.lb, p.1.ub, p.1.cost⟩)
  let fl := b.arcs.map (·.2)
  let potOf (p : List (String × Int)) : List (Nat × Int) := p.map (fun (s, x) => (idxOf s, x))
  if b.neg1 then vfail "C14" "flow-not-cost-optimal" s!"{tag} negative residual cycle for the solver's costs"
  else match b.pot1 with
    | some p => if !(C14.checkB V A fl (potOf p)) then vfail "C14" "flow-not-cost-optimal" s!"{tag} certificate rejected"
    | none => vdiff "C14" "no-potentials" tag
  let vehIdx : List Bool := b.arcs.map (fun p => Flow.isDepotArc p.1)
  let A2 : List FlowCert.Arc := (A.zip vehIdx).map (fun (a, d) => { a with cost := if d then 1 else 0 })
  -- when every cost is zero the spawning cost is zero as well: then the solver's objective does
  -- not see the vehicle count at all
  if b.neg2 then vfail "C14" "flow-not-minimum-vehicles" s!"{tag} negative residual cycle for the vehicle count; spawning-cost={(Flow.spawningCost nw b.vt b.slots)}"
  else match b.pot2 with
    | some p => if !(C14.checkB V A2 fl (potOf p)) then vfail "C14" "flow-not-minimum-vehicles" s!"{tag} certificate rejected"
    | none => vdiff "C14" "no-potentials" tag
  -- (3) decoding: every flow unit in exactly one tour
  let count (key : String) : Int := ((b.tours.flatMap (fun t =>
      let acts := Spec.inner t
      let sd := nw.depotIdxOf (t.headD 0)
      let ed := nw.depotIdxOf (t.getLastD 0)
      let hops := match acts with
        | [] => []
        | a :: _ => [s!"{Flow.dR sd}>{Flow.nL a}"] ++ (pairs acts).map (fun (x, y) => s!"{Flow.nR x}>{Flow.nL y}") ++
                    [s!"{Flow.nR (acts.getLastD 0)}>{Flow.dL ed}"]
      hops ++ acts.map (fun a => s!"{Flow.nL a}>{Flow.nR a}") ++ [s!"{Flow.dL ed}>{Flow.dR ed}"])).filter (· == key)).length
  let tourShape := b.tours.all (fun t => t.length ≥ 3 && (nw.node (t.headD 0)).isStartDepot && (nw.node (t.getLastD 0)).isEndDepot
      && (Spec.inner t).all (fun n => Network.isActivity (nw.node n)))
  if !tourShape then vfail "C14" "decoded-tour-shape" tag
  let bad := b.arcs.filter (fun (a, f) => count s!"{a.src}>{a.dst}" != f)
  if !bad.isEmpty then
    let (a, f) := bad.headD default
    vfail "C14" "flow-not-decoded-into-tours" s!"{tag} arc={a.src}>{a.dst} flow={f} tours-use-it={count s!"{a.src}>{a.dst}"}"
  -- C07 (start): every trip carries at least its cover target
  for (a, f) in b.arcs do
    if a.src.startsWith "n" && a.dst == a.src.dropRight 1 ++ "R" then
      let n := nat! ((a.src.drop 1).dropRight 1).toString
      if (nw.node n).isService && f < (coverTarget nw n : Nat) && (nw.maxFormationFor n).isSome then
        vfail "C07,C14" "start-under-serves" s!"{tag} node={n} flow={f} target={coverTarget nw n}"
  vstat "mcf.arcs" b.arcs.length
  vstat "mcf.vehicles" b.tours.length

def checkMcf (c : Case) : VM Unit := do
  let nw := c.inst.load
  if c.lines.any (fun t => t.head? == some "X") then
    vfail "C17" "load-panic" ""
    return
  let mut cur : FlowBlock := {}
  let mut blocks : List FlowBlock := []
  for t in c.lines do
    match t with
    | ["F", "begin", vt, _] => cur := { vt := nat! vt }
    | ["F", "slot", n, k] => cur := { cur with slots := cur.slots ++ [(nat! n, nat! k)] }
    | ["F", "arc", s, d, lb, ub, cost, f] =>
      cur := { cur with arcs := cur.arcs ++ [({ src := s, dst := d, lb := intTok lb, ub := intTok ub, cost := intTok cost }, intTok f)] }
    | "F" :: "tour" :: ns => cur := { cur with tours := cur.tours ++ [natList ns] }
    | "F" :: "pot1" :: rest => cur := { cur with pot1 := some ((pairUp rest).map (fun (a, b) => (a, intTok b))) }
    | "F" :: "pot2" :: rest => cur := { cur with pot2 := some ((pairUp rest).map (fun (a, b) => (a, intTok b))) }
    | ["F", "negcycle1"] => cur := { cur with neg1 := true }
    | ["F", "negcycle2"] => cur := { cur with neg2 := true }
    | ["F", "end", _] => blocks := blocks ++ [cur]
    | ["T", "panic", site] => vfail "C14,C06" "mcf-panic" s!"site={site}"
    | _ => pure ()
  for b in blocks do checkFlowBlock nw b
  -- the tracks of a slot are shared between the types
  for m in nw.idxsWhere Node.isMaint do
    let total := sumNat (blocks.map (fun b => (assocGet? b.slots m).getD 0))
    if total > (nw.node m).tracks then vfail "C14,C02" "slot-allotment-exceeds-tracks" s!"node={m} allotted={total} tracks={(nw.node m).tracks}"
  -- the start schedule
  let sl := c.lines.filterMap (fun l => match l with | "S" :: rest => some rest | _ => none)
  if !sl.isEmpty then
    let o := parseSched sl
    monitorSched nw "start schedule of MinCostFlowSolver::solve" o
    -- without coupling between the types the start schedule consists of exactly the decoded tours
    let uncoupled := nw.nTypes == 1
    if uncoupled then
      for b in blocks do
        let impl := sortStr ((o.s.tours.filter (fun (v, _) => o.s.typeOf? v == some b.vt)).map (fun (_, t) => showList t.nodes))
        let dec := sortStr (b.tours.map showList)
        if impl != dec then vfail "C14" "start-schedule-is-not-the-decoded-tours" s!"type={b.vt}"
    vstat "mcf.uncoupled" (if uncoupled then 1 else 0)
  vstat "mcf.types" blocks.length

end RSSched.Driver
