/-
Driver/SchedDump: parsing the canonical schedule dump (`Ctx::dump_schedule`) into the model's
`Schedule`, plus the values of the public getters that are not part of the structure.
-/
import RSSched.Driver.Tour
import RSSched.Spec.Schedule
namespace RSSched.Driver
open RSSched Spec

structure SchedObs where
  s : Schedule := default
  nVehicles : Nat := 0
  nDummies : Nat := 0
  formTypes : List (Nat × List (Veh × Nat)) := []      -- node ↦ (vehicle, type) as the formation reports
  unservedAt : List (Nat × Nat × Nat) := []
  spawn : List (Nat × Nat × List (Nat × Int)) := []     -- depot, total, per type (count, balance)
  balanceViolation : Nat := 0
  complete : Bool := false

def intTok (s : String) : Int := s.toInt?.getD 0

def splitBar (ts : Toks) : Toks × Toks := (ts.takeWhile (· != "|"), (ts.dropWhile (· != "|")).drop 1)

def setTrans (l : List (Nat × Transition)) (vt : Nat) (f : Transition → Transition) : List (Nat × Transition) :=
  assocSet l vt (f ((assocGet? l vt).getD { cycles := [], totalViolation := 0, totalCounter := 0, lookup := [], empty := [] }))

/-- one dump line (prefix already removed) -/
def schedLine (o : SchedObs) (t : Toks) : SchedObs :=
  let s := o.s
  match t with
  | ["sched", nv, nd, cnt, u0, u1, viol, costs] =>
    { o with nVehicles := nat! nv, nDummies := nat! nd,
             s := { s with counter := nat! cnt, unserved := (nat! u0, nat! u1), violation := intTok viol, costs := nat! costs } }
  | "vehicles" :: vt :: ":" :: vs =>
    { o with s := { s with idsByType := s.idsByType ++ [(nat! vt, vs.map vehTok)] } }
  | "tour" :: v :: vt :: rest =>
    let veh := vehTok v
    let tour := parseTour rest
    if veh.dummy then { o with s := { s with dummyTours := s.dummyTours ++ [(veh, tour)] } }
    else { o with s := { s with tours := s.tours ++ [(veh, tour)], vehicles := s.vehicles ++ [(veh, nat! vt)] } }
  | "dummies" :: ":" :: vs => { o with s := { s with dummyIds := vs.map vehTok } }
  | "formation" :: n :: u0 :: u1 :: ":" :: vs =>
    let prs := (pairUp vs).map (fun (a, b) => (vehTok a, nat! b))
    { o with formTypes := o.formTypes ++ [(nat! n, prs)],
             unservedAt := o.unservedAt ++ [(nat! n, nat! u0, nat! u1)],
             s := { s with formations := s.formations ++ [(nat! n, prs.map (·.1))] } }
  | "usage" :: d :: vt :: ":" :: rest =>
    let (sp, de) := splitBar rest
    { o with s := { s with depotUsage := s.depotUsage ++ [((nat! d, nat! vt), (sp.map vehTok, de.map vehTok))] } }
  | "spawn" :: d :: total :: ":" :: rest =>
    { o with spawn := o.spawn ++ [(nat! d, nat! total, (pairUp rest).map (fun (a, b) => (nat! a, intTok b)))] }
  | ["balanceviolation", n] => { o with balanceViolation := nat! n }
  | ["trans", vt, _, viol, cnt] =>
    { o with s := { s with transitions := (setTrans s.transitions (nat! vt) (fun tr => { tr with totalViolation := intTok viol, totalCounter := intTok cnt })) } }
  | "cycle" :: vt :: _ :: cnt :: ":" :: vs =>
    { o with s := { s with transitions := (setTrans s.transitions (nat! vt) (fun tr => { tr with cycles := tr.cycles ++ [{ vehicles := vs.map vehTok, counter := intTok cnt }] })) } }
  | "lookup" :: vt :: ":" :: rest =>
    { o with s := { s with transitions := (setTrans s.transitions (nat! vt) (fun tr => { tr with lookup := (pairUp rest).map (fun (a, b) => (vehTok a, nat! b)) })) } }
  | "empty" :: vt :: ":" :: rest =>
    { o with s := { s with transitions := (setTrans s.transitions (nat! vt) (fun tr => { tr with empty := natList rest })) } }
  | ["endsched"] => { o with complete := true }
  | _ => o

def parseSched (lines : List Toks) : SchedObs := lines.foldl schedLine {}

/-- the public getters agree with the internals (counts, per-node shortfall, spawn counts, balances) -/
def getterDiffs (nw : Network) (o : SchedObs) : List String :=
  let s := o.s
  (if o.nVehicles == s.vehicles.length && o.nDummies == s.dummyTours.length then [] else ["getter-counts"]) ++
  (if o.formTypes.all (fun (_, prs) => prs.all (fun (v, t) => s.typeOf? v == some t)) then [] else ["formation-vehicle-types"]) ++
  (if o.unservedAt.all (fun (n, a, b) => !(nw.node n).isService ||
        Schedule.unservedAt nw n ((s.formationOf n).filterMap s.typeOf?) == (a, b)) then [] else ["unserved-at-node"]) ++
  (if o.spawn.all (fun (d, total, per) =>
        total == sumNat (nw.typeIdxs.map (fun vt => (s.usageOf d vt).1.length)) &&
        (nw.typeIdxs.zip per).all (fun (vt, (c, b)) =>
          c == (s.usageOf d vt).1.length && b == ((s.usageOf d vt).1.length : Int) - ((s.usageOf d vt).2.length : Int)))
   then [] else ["spawn-counts-balances"])

/-- all schedule monitors on one dumped implementation state -/
def monitorSched (nw : Network) (what : String) (o : SchedObs) : VM Unit := do
  for c in scheduleValidDiffs nw o.s do
    let props := if c.startsWith "transition-" then "C10,C15" else if c == "formation-limits" || c == "depot-limits" then "C10,C02"
      else if c == "vehicle-tours" then "C10,C01" else "C10"
    vfail props s!"sched-{c}" what
  for c in scheduleCacheDiffs nw o.s do
    vfail "C09,C04" s!"cache-{c}" what
  for c in getterDiffs nw o do
    vfail "C09" s!"cache-{c}" what

end RSSched.Driver
