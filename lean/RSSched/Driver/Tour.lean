/-
Driver/Tour: scope `tour` (C12, tour half of C09, tour clauses of C10). Registers hold the
IMPLEMENTATION's tours (parsed from the dump); every operation is applied by the model to the
implementation's pre-state, compared with the implementation's result (DIFF), and the reference
semantics / exactness monitors are evaluated on the implementation's result (FAIL).
-/
import RSSched.Driver.Net
import RSSched.Spec.Tour
namespace RSSched.Driver
open RSSched Spec

/-- `<isDummy> <visitsMaint> <usefulDur> <serviceDist> <dhDist> <costs> : nodes…` -/
def parseTour (t : Toks) : Tour :=
  match t with
  | d :: vm :: ud :: sd :: dh :: c :: ":" :: ns =>
    { nodes := natList ns, isDummy := d == "1", visitsMaint := vm == "1", usefulDur := durTok ud,
      serviceDist := distTok sd, dhDist := distTok dh, costs := nat! c }
  | _ => default

def showTour (t : Tour) : String :=
  s!"{if t.isDummy then 1 else 0} {if t.visitsMaint then 1 else 0} {showDur t.usefulDur} {showDist t.serviceDist} {showDist t.dhDist} {t.costs} : {showList t.nodes}"

def showOptList : Option (List Nat) → String
  | none => "-"
  | some l => showList l

/-- group the non-instance lines into (operation, result lines) -/
def groupOps (lines : List Toks) : List (Toks × List Toks) :=
  let rec go (ls : List Toks) (cur : Option (Toks × List Toks)) (acc : List (Toks × List Toks)) :=
    match ls with
    | [] => (match cur with | some c => (c.1, c.2.reverse) :: acc | none => acc).reverse
    | l :: rest =>
      match l with
      | "O" :: op => go rest (some (op, [])) (match cur with | some c => (c.1, c.2.reverse) :: acc | none => acc)
      | _ => match cur with
        | some c => go rest (some (c.1, l :: c.2)) acc
        | none => go rest none acc
  go lines none []

def dropAt (op : Toks) : Toks := op.filter (fun s => !s.startsWith "@")

/-- monitors that apply to every tour value the implementation hands out -/
def monitorTour (nw : Network) (what : String) (t : Tour) : VM Unit := do
  if !(tourValidB nw t) then vfail "C10,C01" "tour-valid" s!"{what} tour=[{showTour t}]"
  for f in tourCacheDiffs nw t do
    vfail "C09,C04" s!"tour-cache-{f}" s!"{what} impl=[{showTour t}] recomputed=[{showTour (Tour.computing nw t.nodes t.isDummy)}]"

def resClass : List Toks → String
  | ("T" :: "panic" :: _) :: _ => "panic"
  | ("T" :: "err" :: _) :: _ => "err"
  | ("T" :: "badpath" :: _) :: _ => "badpath"
  | _ => "ok"

def modelClass {α} : R α → String
  | .ok _ => "ok"
  | .error (.err _) => "err"
  | .error (.panic _) => "panic"

def checkTour (c : Case) : VM Unit := do
  let nw := c.inst.load
  if c.lines.any (fun t => t.head? == some "X") then
    vfail "C17" "load-panic" ""
    return
  let mut regs : List (Nat × Tour) := []
  let mut nOps := 0
  let mut nInsertTies := 0
  let mut nChanged := 0
  for (opRaw, res) in groupOps c.lines do
    let op := dropAt opRaw
    nOps := nOps + 1
    let cls := resClass res
    -- new register produced by this op (if any)
    let newReg : Option (Nat × Tour) := res.findSome? (fun l =>
      match l with
      | "T" :: "reg" :: id :: rest => some (nat! id, parseTour rest)
      | _ => none)
    let removedLine : Option (Option (List Nat)) := res.findSome? (fun l =>
      match l with
      | ["T", "removed", "-"] => some none
      | "T" :: "removed" :: ns => some (some (natList ns))
      | _ => none)
    let opStr := " ".intercalate op
    match op with
    | "spawn" :: _ =>
      match newReg with
      | some (_, t) => monitorTour nw s!"after [{opStr}]" t
      | none => if cls == "panic" then vfail "C06,C12" "spawn-panic" opStr else pure ()
    | ["mkdummy", _, r] =>
      match newReg, assocGet? regs (nat! r) with
      | some (_, t), some src =>
        monitorTour nw s!"after [{opStr}]" t
        let exp := src.nonDepotNodes.filter (fun n => (nw.node n).isService)
        if t.nodes != exp || !t.isDummy then vfail "C13" "dummy-nodes" s!"{opStr} impl=[{showList t.nodes}] spec=[{showList exp}]"
      | _, _ => pure ()
    | "insert" :: r :: ns =>
      let some t := assocGet? regs (nat! r) | pure ()
      let path := natList ns
      let pathOk := match Tour.pathNew nw path with | .ok (some _) => true | _ => false
      if cls == "badpath" then
        if pathOk then vdiff "C12" "insert-path-validity" opStr
      else
        let m := Tour.insertPath nw true t path
        match cls, newReg, removedLine with
        | "ok", some (_, t'), some rm =>
          nChanged := nChanged + 1
          monitorTour nw s!"after [{opStr}] on [{showList t.nodes}]" t'
          -- reference semantics (monitor on the implementation's result)
          if tourValidB nw t && pathOk then
            if !(insertSpecB nw t.isDummy t.nodes path t'.nodes rm) then
              let (exp, dropped) := insertRef nw t.isDummy t.nodes path
              vfail "C12,C13" "insert-spec" s!"tour=[{showList t.nodes}] path=[{showList path}] impl=[{showList t'.nodes}] removed=[{showOptList rm}] spec=[{showList exp}] dropped=[{showList dropped}]"
          -- tie statistics: the kept prefix ends exactly when the path starts
          let p := stripForDummy nw t.isDummy path
          let k := keepPrefixLen nw t.nodes (p.headD 0)
          if k > 0 && (nw.node (t.nodes.getD (k - 1) 0)).endT == (nw.node (p.headD 0)).startT then
            nInsertTies := nInsertTies + 1
          match m with
          | .ok (mt, mrm) =>
            if mt.nodes != t'.nodes || mrm != rm then
              vdiff "C12" "insert-nodes" s!"{opStr} impl=[{showList t'.nodes}|{showOptList rm}] model=[{showList mt.nodes}|{showOptList mrm}]"
            else if mt != t' then
              vdiff "C09" "insert-caches" s!"{opStr} impl=[{showTour t'}] model=[{showTour mt}]"
          | .error e => vdiff "C12" "insert-class" s!"{opStr} impl=ok model={repr e}"
        | "panic", _, _ =>
          if tourValidB nw t && pathOk && tourCachesExactB nw t then
            vfail "C12,C06" "insert-panic" s!"tour=[{showList t.nodes}] path=[{showList path}]"
          if modelClass m != "panic" then vdiff "C12" "insert-class" s!"{opStr} impl=panic model={modelClass m}"
        | _, _, _ => pure ()
    | ["remove", r, a, b] =>
      let some t := assocGet? regs (nat! r) | pure ()
      let m := Tour.remove nw t (nat! a) (nat! b)
      let ref := removeRef nw t.isDummy t.nodes (nat! a) (nat! b)
      let depotOnly := match subPathRef nw t.nodes (nat! a) (nat! b), posOf t.nodes (nat! a), posOf t.nodes (nat! b) with
        | none, some s, some e => s ≤ e
        | _, _, _ => false
      match cls with
      | "ok" =>
        let rm := (removedLine.getD none).getD []
        let rest : List Nat := match newReg with | some (_, t') => t'.nodes | none => []
        nChanged := nChanged + 1
        if let some (_, t') := newReg then monitorTour nw s!"after [{opStr}] on [{showList t.nodes}]" t'
        if tourValidB nw t then
          match ref with
          | .ok expRest expRm =>
            let gone := !(hasNonDepot nw expRest)
            if rm != expRm || (gone && newReg.isSome) || (!gone && rest != expRest) then
              vfail "C12,C13" "remove-spec" s!"tour=[{showList t.nodes}] seg={a}..{b} impl=[{showList rest}|{showList rm}] spec=[{showList expRest}|{showList expRm}]"
          | .refused => vfail "C12" "remove-not-refused" s!"tour=[{showList t.nodes}] seg={a}..{b} impl=[{showList rest}]"
        match m with
        | .ok (mt, mrm) =>
          if mt.map (·.nodes) != newReg.map (·.2.nodes) || mrm != rm then
            vdiff "C12" "remove-nodes" s!"{opStr}"
          else if mt != newReg.map (·.2) then
            vdiff "C09" "remove-caches" s!"{opStr} impl=[{(newReg.map (fun x => showTour x.2)).getD "-"}] model=[{(mt.map showTour).getD "-"}]"
        | .error e => vdiff "C12" "remove-class" s!"{opStr} impl=ok model={repr e}"
      | "err" =>
        if tourValidB nw t && !depotOnly then
          if let .ok _ _ := ref then
            vfail "C12" "remove-refused" s!"tour=[{showList t.nodes}] seg={a}..{b}"
        if modelClass m != "err" then vdiff "C12" "remove-class" s!"{opStr} impl=err model={modelClass m}"
      | _ =>
        if tourValidB nw t && !depotOnly && tourCachesExactB nw t then
          vfail "C12,C06" "remove-panic" s!"tour=[{showList t.nodes}] seg={a}..{b}"
        if modelClass m != "panic" then vdiff "C12" "remove-class" s!"{opStr} impl=panic model={modelClass m}"
    | ["subpath", r, a, b] =>
      let some t := assocGet? regs (nat! r) | pure ()
      let m := Tour.subPath nw t (nat! a) (nat! b)
      let ref := subPathRef nw t.nodes (nat! a) (nat! b)
      let implPath : Option (List Nat) := res.findSome? (fun l =>
        match l with | "T" :: "path" :: ns => some (natList ns) | _ => none)
      if tourValidB nw t then
        match ref with
        | some sl =>
          if implPath != some sl then
            vfail "C12" "subpath-spec" s!"tour=[{showList t.nodes}] seg={a}..{b} impl={cls}[{showOptList implPath}] spec=[{showList sl}]"
        | none => pure ()
      match m, cls with
      | .ok p, "ok" => if some p != implPath then vdiff "C12" "subpath-nodes" opStr
      | m, cls => if modelClass m != cls then vdiff "C12" "subpath-class" s!"{opStr} impl={cls} model={modelClass m}"
    | ["conflict", r, a, b] =>
      let some t := assocGet? regs (nat! r) | pure ()
      let m := Tour.conflict nw true t (nat! a) (nat! b)
      let implPath : Option (Option (List Nat)) := res.findSome? (fun l =>
        match l with
        | ["T", "path", "-"] => some none
        | "T" :: "path" :: ns => some (some (natList ns))
        | _ => none)
      match m, implPath with
      | .ok p, some ip => if p != ip then vdiff "C12" "conflict-nodes" s!"{opStr} impl=[{showOptList ip}] model=[{showOptList p}]"
      | m, _ => if modelClass m != cls then vdiff "C12" "conflict-class" s!"{opStr} impl={cls} model={modelClass m}"
    | ["removable", r, a, b] =>
      let some t := assocGet? regs (nat! r) | pure ()
      let m := Tour.checkRemovable nw t (nat! a) (nat! b)
      let implOk := res.any (fun l => l == ["T", "ok"])
      if modelClass m != (if implOk then "ok" else cls) then vdiff "C12" "removable-class" s!"{opStr} impl={cls} model={modelClass m}"
      if tourValidB nw t then
        match removeRef nw t.isDummy t.nodes (nat! a) (nat! b), implOk with
        | .ok _ _, false => if cls == "err" then vfail "C12" "removable-refused" s!"tour=[{showList t.nodes}] seg={a}..{b}"
        | .refused, true => vfail "C12" "removable-not-refused" s!"tour=[{showList t.nodes}] seg={a}..{b}"
        | _, _ => pure ()
    | ["lnr", r, x] =>
      let some t := assocGet? regs (nat! r) | pure ()
      let m := Tour.latestNotReachingNode nw true t (nat! x)
      let implPos : Option (Option Nat) := res.findSome? (fun l =>
        match l with | ["T", "pos", p] => some (optNat p) | _ => none)
      match m, implPos with
      | .ok p, some ip => if p != ip then vdiff "C12" "lnr-pos" s!"{opStr} tour=[{showList t.nodes}] impl={showOpt ip} model={showOpt p}"
      | m, _ => if modelClass m != cls then vdiff "C12" "lnr-class" opStr
    | [which, r, d] =>
      if which == "repstart" || which == "repend" then
        let some t := assocGet? regs (nat! r) | pure ()
        let m := if which == "repstart" then Tour.replaceStartDepot nw t (nat! d) else Tour.replaceEndDepot nw t (nat! d)
        match newReg with
        | some (_, t') =>
          nChanged := nChanged + 1
          monitorTour nw s!"after [{opStr}] on [{showTour t}]" t'
          let exp := if which == "repstart" then t.nodes.set 0 (nat! d) else t.nodes.set (t.nodes.length - 1) (nat! d)
          if t'.nodes != exp then vfail "C13" "replace-depot-nodes" s!"{opStr}"
          match m with
          | .ok mt => if mt != t' then vdiff "C09" "replace-depot-caches" s!"{opStr} impl=[{showTour t'}] model=[{showTour mt}]"
          | .error e => vdiff "C09" "replace-depot-class" s!"{opStr} impl=ok model={repr e}"
        | none =>
          if modelClass m != cls then vdiff "C09" "replace-depot-class" s!"{opStr} impl={cls} model={modelClass m}"
          if cls == "panic" && tourValidB nw t && tourCachesExactB nw t then vfail "C09,C06" "replace-depot-panic" opStr
      else if which == "overhead" then
        let some t := assocGet? regs (nat! r) | pure ()
        let f (x : R Dur) : String := match x with | .ok d => showDur d | .error (.err _) => "err" | .error (.panic _) => "panic"
        let exp := s!"{f (Tour.precedingOverhead nw t (nat! d))} {f (Tour.subsequentOverhead nw t (nat! d))}"
        match res with
        | ["T", "overhead", a, b] :: _ => if s!"{a} {b}" != exp then vdiff "C11" "overhead" s!"{opStr} impl=[{a} {b}] model=[{exp}]"
        | _ => pure ()
    | _ => pure ()
    if let some nr := newReg then regs := nr :: regs
  vstat "tour.ops" nOps
  vstat "c09.networks" 1
  vstat "c09.nethyps" (if netHypsB nw then 1 else 0)
  vstat "c10.networks" 1
  vstat "c10.tourhyps" (if tourHypsB nw then 1 else 0)
  vstat "c10.formhyps" (if formHypsB nw then 1 else 0)
  vstat "c10.limithyps" (if formHypsB nw && ovfNodeB nw then 1 else 0)
  vstat "tour.changed" nChanged
  vstat "tour.insert-ties" nInsertTies

end RSSched.Driver
