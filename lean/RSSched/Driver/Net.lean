/-
Driver/Net: scope `net` (C17, C01_reach, C02_limit_fn). The dumped network of the real loader is
compared, query by query, with `Instance.load` — which for C17 *is* the specification (theorems in
Props/C17.lean say that `load` is the faithful encoding and that its reachability and enumerations
are exact). Every mismatch is therefore a concrete failing input: the instance of the case.
Additionally, monitors that look only at the implementation's own answers (enumerations versus
its `can_reach`, overflow capacity versus its own demand figures) are evaluated.
-/
import RSSched.Driver.Parse
namespace RSSched.Driver
open RSSched

structure Verdict where
  lines : Array String := #[]
  fails : Nat := 0
  diffs : Nat := 0

abbrev VM := StateM Verdict

def vfail (prop clause detail : String) : VM Unit :=
  modify fun v => { v with lines := v.lines.push s!"FAIL {prop} {clause} {detail}", fails := v.fails + 1 }

def vdiff (prop what detail : String) : VM Unit :=
  modify fun v => { v with lines := v.lines.push s!"DIFF {prop} {what} {detail}", diffs := v.diffs + 1 }

def vstat (key : String) (n : Nat) : VM Unit :=
  modify fun v => { v with lines := v.lines.push s!"STAT {key} {n}" }

def vnote (s : String) : VM Unit :=
  modify fun v => { v with lines := v.lines.push s!"NOTE {s}" }

def expectEq (prop what : String) (impl model : String) : VM Unit :=
  if impl == model then pure () else vfail prop what s!"impl=[{impl}] spec=[{model}]"

def nodeLine (n : Node) : String :=
  let k := match n.kind with | .startDepot => "s" | .service => "t" | .maint => "m" | .endDepot => "e"
  s!"{n.idx} {k} {showTime n.startT} {showTime n.endT} {showLoc n.startLoc} {showLoc n.endLoc} {n.vt} {n.dist} {n.pax} {n.seated} {showOpt n.maxForm} {n.tracks} {n.depot}"

def sameSet (a b : List Nat) : Bool := a.all (b.contains ·) && b.all (a.contains ·)

/-- implementation answers collected from the dump, used by the impl-only monitors -/
structure NetObs where
  reach : List (Nat × Nat) := []                 -- pairs with can_reach = true
  succ : List (Nat × Nat × List Nat) := []
  pred : List (Nat × Nat × List Nat) := []
  typesorted : List (Nat × List Nat) := []
  required : List (Nat × Nat × Nat) := []        -- vt trip n
  maxform : List (Nat × Option Nat) := []
  tracks : List (Nat × Nat) := []
  ovfCaps : List Nat := []
  size : Nat := 0

def checkNet (c : Case) : VM Unit := do
  let i := c.inst
  let nw := i.load
  let mut obs : NetObs := {}
  let mut ties := 0
  if c.lines.any (fun t => t.head? == some "X") then
    -- the real loader panicked on an instance the generator considers valid
    vfail "C17" "load-panic" (" ".intercalate (c.lines.filter (fun t => t.head? == some "X")).flatten)
    return
  for t in c.lines do
    match t with
    | ["N", "size", n] =>
      obs := { obs with size := nat! n }
      expectEq "C17" "size" n (toString nw.size)
    | "N" :: "node" :: idx :: rest =>
      let impl := " ".intercalate (idx :: rest)
      expectEq "C17" s!"node-{idx}" impl (nodeLine (nw.node (nat! idx)))
      if rest.head? == some "m" then
        obs := { obs with tracks := (nat! idx, nat! (rest.getD 10 "0")) :: obs.tracks }
    | ["N", "planning", p] => expectEq "C17" "planning" p (toString nw.planning)
    | ["N", "nservice", n] => expectEq "C17" "nservice" n (toString nw.numberOfServiceNodes)
    | ["N", "ovf", d, s, e] =>
      expectEq "C17" "overflow-idxs" s!"{d} {s} {e}"
        s!"{nw.overflowDepot} {nw.startDepotNodeOf nw.overflowDepot} {nw.endDepotNodeOf nw.overflowDepot}"
    | "N" :: "depot" :: d :: loc :: total :: sn :: en :: ":" :: caps =>
      let dn := nat! d
      let dep := nw.depot dn
      let isOvf := dn == nw.overflowDepot
      -- the overflow capacity is checked by its own monitor below, not by equality
      let specTotal := if isOvf then total else toString dep.total
      let specCaps := if isOvf then caps else nw.typeIdxs.map (fun vt => toString (nw.capacityOf dn vt))
      expectEq "C17" s!"depot-{d}" s!"{loc} {total} {sn} {en} : {" ".intercalate caps}"
        s!"{showLoc dep.loc} {specTotal} {nw.startDepotNodeOf dn} {nw.endDepotNodeOf dn} : {" ".intercalate specCaps}"
      if isOvf then obs := { obs with ovfCaps := natList caps }
    | ["N", "vtype", vt, cap, seats, mf] =>
      let ty := nw.vtype (nat! vt)
      expectEq "C17" s!"vtype-{vt}" s!"{cap} {seats} {mf}" s!"{ty.capacity} {ty.seats} {showOpt ty.maxForm}"
    | "N" :: "servicenodes" :: vt :: ":" :: l =>
      expectEq "C17" s!"servicenodes-{vt}" (" ".intercalate l) (showList (nw.serviceNodes (nat! vt)))
    | "N" :: "typesorted" :: vt :: ":" :: l =>
      obs := { obs with typesorted := (nat! vt, natList l) :: obs.typesorted }
      expectEq "C17" s!"typesorted-{vt}" (" ".intercalate l) (showList (nw.typeNodesSortedByStart (nat! vt)))
    | "N" :: "maintnodes" :: ":" :: l => expectEq "C17" "maintnodes" (" ".intercalate l) (showList nw.maintNodes)
    | "N" :: "startdepots" :: ":" :: l => expectEq "C17" "startdepots" (" ".intercalate l) (showList nw.startDepotNodes)
    | "N" :: "enddepots" :: ":" :: l => expectEq "C17" "enddepots" (" ".intercalate l) (showList nw.endDepotNodes)
    | "N" :: "allservice" :: ":" :: l => expectEq "C17" "allservice" (" ".intercalate l) (showList nw.allServiceNodes)
    | "N" :: "coverable" :: ":" :: l => expectEq "C17" "coverable" (" ".intercalate l) (showList nw.coverableNodes)
    | "N" :: "allnodes" :: ":" :: l => expectEq "C17" "allnodes" (" ".intercalate l) (showList nw.sortedByStartAll)
    | "N" :: "sdsorted" :: loc :: ":" :: l =>
      expectEq "C17" s!"sdsorted-{loc}" (" ".intercalate l) (showList (nw.startDepotsSortedByDistanceTo (.station (nat! loc))))
    | "N" :: "edsorted" :: loc :: ":" :: l =>
      expectEq "C17" s!"edsorted-{loc}" (" ".intercalate l) (showList (nw.endDepotsSortedByDistanceFrom (.station (nat! loc))))
    | ["N", "maxform", trip, v] =>
      obs := { obs with maxform := (nat! trip, optNat v) :: obs.maxform }
      expectEq "C02" s!"maxform-{trip}" v (showOpt (nw.maxFormationFor (nat! trip)))
    | ["N", "required", vt, trip, n] =>
      obs := { obs with required := (nat! vt, nat! trip, nat! n) :: obs.required }
      expectEq "C17" s!"required-{trip}" n (toString (nw.requiredVehicles (nat! vt) (nat! trip)))
    | ["N", "compat", a, vt, b] =>
      expectEq "C17" s!"compat-{a}-{vt}" b (if nw.compatibleWithType (nat! a) (nat! vt) then "1" else "0")
    | "N" :: "succ" :: vt :: a :: ":" :: l =>
      obs := { obs with succ := (nat! vt, nat! a, natList l) :: obs.succ }
      expectEq "C17" s!"succ-{vt}-{a}" (" ".intercalate l) (showList (nw.successors (nat! vt) (nat! a)))
    | "N" :: "pred" :: vt :: b :: ":" :: l =>
      obs := { obs with pred := (nat! vt, nat! b, natList l) :: obs.pred }
      expectEq "C17" s!"pred-{vt}-{b}" (" ".intercalate l) (showList (nw.predecessors (nat! vt) (nat! b)))
    | ["N", "pair", a, b, r, dht, dhd, idle, md] =>
      let (x, y) := (nat! a, nat! b)
      if r == "1" then obs := { obs with reach := (x, y) :: obs.reach }
      let nx := nw.node x
      let ny := nw.node y
      if Network.isActivity nx && Network.isActivity ny &&
         ExtTime.add nx.endT (nw.minDur x y) == ny.startT then ties := ties + 1
      expectEq "C17" s!"reach-{a}-{b}" r (if nw.canReach x y then "1" else "0")
      expectEq "C17" s!"dhtime-{a}-{b}" dht (showDur (nw.deadHeadTimeBetween x y))
      expectEq "C17" s!"dhdist-{a}-{b}" dhd (showDist (nw.deadHeadDistanceBetween x y))
      expectEq "C17" s!"idle-{a}-{b}" idle (showDur (nw.idleTimeBetween x y))
      expectEq "C17" s!"mindur-{a}-{b}" md (showDur (nw.minDur x y))
    | _ => pure ()
  -- monitors on the implementation's own answers ------------------------------------------------
  -- (a) enumerations are exactly the reachable nodes of the type's index, ties included
  for (vt, a, l) in obs.succ do
    let index := (assocGet? obs.typesorted vt).getD []
    let expected := index.filter (fun b => obs.reach.contains (a, b))
    if !(sameSet l expected) then
      vfail "C17" "succ-exact" s!"vt={vt} node={a} impl=[{showList l}] reachable=[{showList expected}]"
  for (vt, b, l) in obs.pred do
    let index := (assocGet? obs.typesorted vt).getD []
    let expected := index.filter (fun a => obs.reach.contains (a, b))
    if !(sameSet l expected) then
      vfail "C17" "pred-exact" s!"vt={vt} node={b} impl=[{showList l}] reachable=[{showList expected}]"
  -- (b) the overflow depot can host every vehicle the start solution may need:
  --     Σ_trips min(required, limit or 100) + Σ_slots tracks, for every type
  let demand := sumNat (obs.required.map (fun (_, trip, n) =>
      Nat.min n (((assocGet? obs.maxform trip).getD none).getD 100)))
    + sumNat (obs.tracks.map (·.2))
  for cap in obs.ovfCaps do
    if cap < demand then
      vfail "C17" "overflow-capacity" s!"capacity={cap} demand={demand}"
  vstat "net.nodes" obs.size
  vstat "net.ties" ties
  vstat "net.reach-pairs" obs.reach.length
  vstat "net.defaultdepots" (if i.depots.isNone then 1 else 0)
  vstat "net.maint" i.maint.length

end RSSched.Driver
