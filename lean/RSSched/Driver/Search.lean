/-
Driver/Search: scope `search` (C08). The real local search is run in-process from the real start
solution; the objective tuples of the start, of every accepted step (hook), of the result, of a
second run on the result (fresh solver) and of every candidate of a fresh neighbourhood of the
result are checked against the property text: every accepted step strictly improves in the
documented lexicographic order, the result is the last accepted schedule and not worse than the
start, running the search again on its own result changes nothing, and no neighbour of the result
is strictly better.
-/
import RSSched.Driver.Pipe
namespace RSSched.Driver
open RSSched Spec

def tuple4 (t : Toks) : Int × Int × Int × Int :=
  (intTok (t.getD 0 "0"), intTok (t.getD 1 "0"), intTok (t.getD 2 "0"), intTok (t.getD 3 "0"))

def checkSearch (c : Case) : VM Unit := do
  let q : List Toks := c.lines.filterMap (fun t => if t.head? == some "Q" then some (t.drop 1) else none)
  for t in q do
    match t with
    | "panic" :: stage :: site => vfail "C08,C06" "search-panic" s!"stage={stage} site={" ".intercalate site}"
    | _ => pure ()
  let find (k : String) : Option Toks := (q.find? (fun t => t.head? == some k)).map (·.drop 1)
  match find "start", find "result" with
  | some st, some res =>
    let start := tuple4 st
    let result := tuple4 res
    let steps : List (Int × Int × Int × Int) := q.filterMap (fun t =>
      match t with
      | "step" :: _ :: rest => some (tuple4 rest)
      | _ => none)
    let mut prev := start
    for s in steps do
      if !(lexLt4 s prev) then vfail "C08" "step-not-improving" s!"prev={showObj prev} accepted={showObj s}"
      prev := s
    if result != prev then vfail "C08" "result-not-last-step" s!"last={showObj prev} result={showObj result}"
    if lexLt4 start result then vfail "C08" "result-worse-than-start" s!"start={showObj start} result={showObj result}"
    -- running the search again on its own result changes nothing
    match find "rerun-steps", find "rerun-result" with
    | some [n], some rr =>
      if n != "0" then vfail "C08" "rerun-accepts-steps" s!"steps={n} result={showObj result} after-rerun={showObj (tuple4 rr)}"
      else if tuple4 rr != result then vfail "C08" "rerun-changes-result" s!"result={showObj result} after-rerun={showObj (tuple4 rr)}"
      else if find "rerun-same-tours" != some ["1"] then vfail "C08" "rerun-changes-schedule" ""
    | _, _ => pure ()
    -- no candidate of a fresh neighbourhood of the result is strictly better
    let cands : List (Int × Int × Int × Int) := q.filterMap (fun t =>
      match t with
      | "cand" :: rest => some (tuple4 rest)
      | _ => none)
    match cands.find? (fun x => lexLt4 x result) with
    | some b => vfail "C08" "result-is-not-a-fixpoint" s!"result={showObj result} better-neighbour={showObj b}"
    | none => pure ()
    vstat "search.cases" 1
    vstat "search.steps" steps.length
    vstat "search.nontrivial" (if steps.length ≥ 1 then 1 else 0)
    vstat "search.candidates-of-result" cands.length
    vstat "search.multi-step" (if steps.length ≥ 3 then 1 else 0)
    -- trajectories longer than the network has nodes (a fleet several times larger than the network)
    vstat "search.steps-exceed-nodes" (if steps.length > c.inst.load.nodes.size then 1 else 0)
  | _, _ => pure ()

end RSSched.Driver
