/-
Driver/Pipe: scope `pipe`. Evaluates the output monitors (C01–C05, C07) on the JSON returned by
the real `solve_instance`, the termination/no-panic observation in both builds (C06), the
accepted local-search steps (C08), the stage snapshots against each other and the JSON (C16), and
the schedule monitors (C09, C10, C15) on every stage snapshot.
-/
import RSSched.Driver.SchedDump
import RSSched.Spec.Output
import RSSched.Model.Swaps
import RSSched.Model.Output
import RSSched.Model.TransitionSearch
import RSSched.Model.Solve
namespace RSSched.Driver
open RSSched Spec

def outLine (o : Output) (t : Toks) : Output :=
  match t with
  | ["obj", u, v, n, c] => { o with unserved := intTok u, violation := intTok v, vehicleCount := intTok n, costs := intTok c }
  | ["depotload", d, vt, k] => { o with depotLoads := o.depotLoads ++ [(nat! d, nat! vt, nat! k)] }
  | ["vehicle", id, vt, sd, ed] =>
    { o with vehicles := o.vehicles ++ [{ id := vehTok id, vt := nat! vt, startDepot := nat! sd, endDepot := nat! ed }] }
  | ["vact", _, kind, n, a, b, dep, arr] =>
    if kind == "dht" then
      { o with vehicles := modifyLast o.vehicles (fun v => { v with dhts := v.dhts ++
          [{ id := nat! n, origin := locTok a, dest := locTok b, dep := timeTok dep, arr := timeTok arr }] }) }
    else
      { o with vehicles := modifyLast o.vehicles (fun v => { v with acts := v.acts ++
          [{ isMaint := kind == "maint", node := nat! n, origin := locTok a, dest := locTok b, dep := timeTok dep, arr := timeTok arr }] }) }
  | "cycle" :: vt :: ":" :: vs => { o with cycles := o.cycles ++ [(nat! vt, vs.map vehTok)] }
  | "seg" :: n :: a :: b :: dep :: arr :: vt :: ":" :: vs =>
    { o with segs := o.segs ++ [{ node := nat! n, origin := locTok a, dest := locTok b, dep := timeTok dep, arr := timeTok arr, vt := nat! vt, formation := vs.map vehTok }] }
  | "slot" :: n :: l :: st :: en :: ":" :: vs =>
    { o with slots := o.slots ++ [{ node := nat! n, origin := locTok l, dest := locTok l, dep := timeTok st, arr := timeTok en, vt := 0, formation := vs.map vehTok }] }
  | "dht" :: id :: a :: b :: dep :: arr :: ":" :: vs =>
    { o with dhts := o.dhts ++ [{ id := nat! id, origin := locTok a, dest := locTok b, dep := timeTok dep, arr := timeTok arr, formation := vs.map vehTok }] }
  | _ => o

def lexLt4 (a b : Int × Int × Int × Int) : Bool :=
  a.1 < b.1 || (a.1 == b.1 && (a.2.1 < b.2.1 || (a.2.1 == b.2.1 && (a.2.2.1 < b.2.2.1 || (a.2.2.1 == b.2.2.1 && a.2.2.2 < b.2.2.2)))))

def objOf (o : SchedObs) : Int × Int × Int × Int :=
  (((o.s.unserved.1 + o.s.unserved.2 : Nat) : Int), o.s.violation, (o.s.vehicles.length : Int), (o.s.costs : Int))

def showObj (a : Int × Int × Int × Int) : String := s!"({a.1},{a.2.1},{a.2.2.1},{a.2.2.2})"

def innerOf (t : Tour) : List Nat := Spec.inner t.nodes

/-- cycles as cyclic orders: empty cycles dropped, each rotated to its smallest vehicle, sorted -/
def canonCycles (cs : List (List Veh)) : List (List Veh) :=
  let rot (c : List Veh) : List Veh :=
    match c with
    | [] => []
    | x :: xs =>
      let m := xs.foldl (fun a b => if Veh.lt b a then b else a) x
      match c.findIdx? (· == m) with
      | some k => c.drop k ++ c.take k
      | none => c
  let ne := (cs.filter (fun c => !c.isEmpty)).map rot
  ne.mergeSort (fun a b => match a.head?, b.head? with
    | some x, some y => !(Veh.lt y x)
    | _, _ => true)

def checkPipe (c : Case) : VM Unit := do
  let nw := c.inst.load
  -- split by build
  let mut build := "release"
  let mut relLines : List Toks := []
  let mut chkLines : List Toks := []
  for t in c.lines do
    match t with
    | ["B", b] => build := b
    | _ => if build == "release" then relLines := relLines ++ [t] else chkLines := chkLines ++ [t]
  -- C06: an answer in both builds
  let classOf (ls : List Toks) : String × String :=
    match ls.find? (fun t => t.head? == some "P" && (t.getD 1 "" == "ok" || t.getD 1 "" == "panic" || t.getD 1 "" == "timeout" || t.getD 1 "" == "died" || t.getD 1 "" == "spawnerror")) with
    | some t => (t.getD 1 "", t.getD 2 "")
    | none => if ls.any (fun t => t.head? == some "X") then ("panic", "load") else ("none", "")
  let (rc, rsite) := classOf relLines
  let (cc, csite) := classOf chkLines
  if rc != "ok" then vfail "C06" s!"pipeline-{rc}" s!"build=release site={rsite}"
  if !chkLines.isEmpty && cc != "ok" then vfail "C06" s!"pipeline-{cc}" s!"build=checked site={csite}"
  vstat "pipe.release-ok" (if rc == "ok" then 1 else 0)
  vstat "c05.networks" 1
  vstat "c10.networks" 1
  vstat "c10.tourhyps" (if tourHypsB nw then 1 else 0)
  vstat "c10.formhyps" (if formHypsB nw then 1 else 0)
  vstat "c10.limithyps" (if formHypsB nw && ovfNodeB nw then 1 else 0)
  vstat "c05.depotnodes" (if depotNodesB nw then 1 else 0)
  vstat "pipe.checked-ok" (if cc == "ok" then 1 else 0)
  -- stage snapshots
  let stageLines (name : String) : List Toks :=
    relLines.filterMap (fun t => if t.head? == some s!"S:{name}" then some (t.drop 1) else none)
  let stages := ["flow", "start", "local_search", "transitions", "final"]
  let mut snaps : List (String × SchedObs) := []
  for st in stages do
    let ls := stageLines st
    if !ls.isEmpty then
      let o := parseSched ls
      snaps := snaps ++ [(st, o)]
      monitorSched nw s!"stage={st}" o
  let snap (n : String) : Option SchedObs := assocGet? snaps n
  -- C08 along the pipeline: accepted steps strictly improve, in the documented order
  let steps : List (Int × Int × Int × Int) := relLines.filterMap (fun t =>
    match t with
    | ["P", "step", _, u, v, n, cst] => some (intTok u, intTok v, intTok n, intTok cst)
    | _ => none)
  if let some st := snap "start" then
    let mut prev := objOf st
    for s in steps do
      if !(lexLt4 s prev) then vfail "C08" "step-not-improving" s!"prev={showObj prev} accepted={showObj s}"
      prev := s
    if let some ls := snap "local_search" then
      if objOf ls != prev then vfail "C08,C16" "result-not-last-step" s!"last={showObj prev} result={showObj (objOf ls)}"
  -- the objective value the real search holds for each accepted step (hook StepObjective) must be
  -- the four components of that very schedule, exactly (no rounding, no other aggregate)
  let stepObjs : List (Nat × Toks) := relLines.filterMap (fun t =>
    match t with
    | "P" :: "stepobj" :: k :: rest => some (nat! k, rest)
    | _ => none)
  for (k, lv) in stepObjs do
    match steps[k]? with
    | some (u, v, n, cst) =>
      let expect := [toString u, toString v, toString n, toString cst]
      if lv != expect then
        vfail "C08,C04,C11" "search-objective-differs" s!"step={k} search=({" ".intercalate lv}) schedule=({" ".intercalate expect})"
    | none => pure ()
  vstat "pipe.steps" steps.length
  vstat "pipe.stepobjs" stepObjs.length
  -- correspondence of the stages with the model, each computed from the PREVIOUS OBSERVED snapshot
  let sameState (a b : Schedule) : List String := Schedule.diffFields a b
  -- (a) start schedule = from_tours(decoded tours): spawn every hooked tour, types in the order of
  --     their smallest vehicle id (from_tours iterates a hash map over the types)
  if let some fl := snap "flow" then
    let hooked : List (Nat × List (List Nat)) := Id.run do
      let mut res : List (Nat × List (List Nat)) := []
      let mut cur : Nat := 0
      for t in relLines do
        match t with
        | ["F", "begin", vt, _] => cur := nat! vt; res := res ++ [(cur, [])]
        | "F" :: "tour" :: ns => res := res.map (fun (v, l) => if v == cur then (v, l ++ [natList ns]) else (v, l))
        | _ => pure ()
      return res
    let firstId (vt : Nat) : Nat := ((fl.s.vehiclesOfType vt).map (·.idx)).foldl Nat.min 1000000
    let order := (hooked.map (·.1)).mergeSort (fun a b => firstId a ≤ firstId b)
    let byType := order.map (fun vt => (vt, (assocGet? hooked vt).getD []))
    let built : R Schedule := Solve.fromTours nw byType
    match built with
    | .ok m =>
      let fs := sameState m fl.s
      if !fs.isEmpty then vdiff "C16,C14" "model-from-tours" s!"fields={fs}"
    | .error e => vdiff "C16,C14" "model-from-tours-faults" s!"{repr e}"
    -- (b) start = improve_depots(None) of the flow schedule
    if let some st := snap "start" then
      match Schedule.improveDepots nw fl.s none with
      | .ok m =>
        let fs := sameState m st.s
        if !fs.isEmpty then vdiff "C16" "model-improve-depots" s!"fields={fs}"
      | .error e => vdiff "C16" "model-improve-depots-faults" s!"{repr e}"
    -- (b') the whole modelled pipeline `Solve.solve` (the function the pipeline theorems of
    --      Props/C16Pipeline are about) on the oracle values of this run: decoded tours, number of
    --      accepted steps, the optimiser's transitions. Without accepted steps nothing depends on
    --      rayon's choice among equal minima, so the returned schedule must be the model's.
    if steps.length ≤ 2 then
      match snap "transitions", snap "final" with
      | some trs, some fin =>
        let oracle : Solve.Oracle := { tours := byType, fuel := steps.length, optimise := fun _ => trs.s.transitions }
        match Solve.solve nw oracle with
        | .ok mt =>
          let fs := sameState mt.final fin.s
          if steps.isEmpty then
            if !fs.isEmpty then vdiff "C16" "model-solve-differs" s!"fields={fs}"
            vstat "pipe.solve-model-equal" (if fs.isEmpty then 1 else 0)
          else
            vstat "pipe.solve-model-equal-after-steps" (if fs.isEmpty then 1 else 0)
            vstat "pipe.solve-model-other-minimum" (if fs.isEmpty then 0 else 1)
        | .error e =>
          -- after accepted steps the model may sit in another minimum (other vehicle ids), where the
          -- observed transitions need not fit; without steps a fault is a divergence
          if steps.isEmpty then vdiff "C16" "model-solve-faults" s!"{repr e}"
          else vstat "pipe.solve-model-other-minimum" 1
      | _, _ => pure ()
  -- (c) local search trajectory: every accepted schedule is a candidate of its predecessor, no
  --     candidate is strictly better than it, and the result has no strictly better candidate
  if let some st := snap "start" then
    let stepSnaps : List SchedObs := (List.range steps.length).filterMap (fun k =>
      let ls := stageLines s!"step{k}"
      if ls.isEmpty then none else some (parseSched ls))
    let objS (x : Schedule) : Int × Int × Int × Int :=
      (((x.unserved.1 + x.unserved.2 : Nat) : Int), x.violation, (x.vehicles.length : Int), (x.costs : Int))
    let mut prevS := st.s
    let mut budget := 6    -- neighbourhood enumerations per case (cost control)
    for cur in stepSnaps do
      if budget > 0 then
        budget := budget - 1
        match Swaps.neighborsOf nw (some 10800) (some 600) prevS .noSwap with
        | .ok cands =>
          if !(cands.any (fun c => (Schedule.diffFields c.sched cur.s).isEmpty)) then
            vdiff "C08,C11" "accepted-step-not-a-model-candidate" s!"step objective={showObj (objS cur.s)}"
          if cands.any (fun c => lexLt4 (objS c.sched) (objS cur.s)) then
            vfail "C08" "accepted-step-not-minimal" s!"accepted={showObj (objS cur.s)}"
        | .error e => vdiff "C08,C11" "model-neighbourhood-faults" s!"{repr e}"
      prevS := cur.s
    if nw.maintNodes.length > 0 && budget > 0 then
      if let some ls := snap "local_search" then
        match Swaps.neighborsOf nw (some 10800) (some 600) ls.s .noSwap with
        | .ok cands =>
          if cands.any (fun c => lexLt4 (objS c.sched) (objS ls.s)) then
            vfail "C08" "result-is-not-a-fixpoint" s!"result={showObj (objS ls.s)}"
          vstat "pipe.fixpoint-candidates" cands.length
        | .error e => vdiff "C08,C11" "model-neighbourhood-faults" s!"{repr e}"
  -- (d) final = reassign_end_depots_consistent_with_transitions(transitions stage);
  --     transitions stage = set_next_day_transitions(local-search result, optimised transitions)
  match snap "local_search", snap "transitions", snap "final" with
  | some ls, some tr, some fin =>
    let fs1 := sameState (Schedule.setNextDayTransitions ls.s tr.s.transitions) tr.s
    if !fs1.isEmpty then vdiff "C16" "model-set-transitions" s!"fields={fs1}"
    match Schedule.reassignEndDepotsConsistent nw tr.s with
    | .ok m =>
      let fs := sameState m fin.s
      if !fs.isEmpty then vdiff "C16,C05" "model-align-end-depots" s!"fields={fs}"
    | .error e => vdiff "C16" "model-align-end-depots-faults" s!"{repr e}"
    vstat "pipe.types-with-2-cycles" (nw.typeIdxs.filter (fun vt => ((ls.s.transitionOf vt).cycles.filter (fun c => !c.vehicles.isEmpty)).length ≥ 2)).length
    vstat "pipe.optimiser-changed-types" (nw.typeIdxs.filter (fun vt => (ls.s.transitionOf vt).cycles.map (·.vehicles) != (tr.s.transitionOf vt).cycles.map (·.vehicles))).length
    -- C16: the transitions put into the schedule are exactly what the optimiser returned
    let optLines := stageLines "optimised"
    if !optLines.isEmpty then
      let opt := parseSched optLines
      for vt in nw.typeIdxs do
        let a := (opt.s.transitionOf vt).canon
        let b := (tr.s.transitionOf vt).canon
        if a != b then
          vfail "C16" "optimised-transition-not-carried" s!"type={vt} optimiser={(a.cycles.map (fun c => c.vehicles.map (·.idx)))} schedule={(b.cycles.map (fun c => c.vehicles.map (·.idx)))}"
      -- correspondence with the model of the transition search: the optimiser's result has no
      -- strictly better neighbour in the model's neighbourhood (same tours as the local-search result)
      for vt in nw.typeIdxs do
        let typeTours : Tours := ls.s.tours.filter (fun (v, _) => ls.s.typeOf? v == some vt)
        let res := opt.s.transitionOf vt
        if res.cycles.length ≤ 6 && typeTours.length ≤ 10 then
          match TransSearch.neighbors nw typeTours res with
          | .ok ns =>
            if ns.any (fun x => TransSearch.better x res) then
              vdiff "C15,C16" "optimised-transition-not-a-fixpoint" s!"type={vt} result=({res.totalViolation},{res.totalCounter})"
            vstat "pipe.transition-neighbours" ns.length
          | .error e => vdiff "C15" "model-transition-neighbourhood-faults" s!"type={vt} {repr e}"
    else vdiff "C16" "optimiser-output-missing" ""
    -- C15: the optimiser's result is not worse than what it was given: (violation, counter)
    for vt in nw.typeIdxs do
      let a := ls.s.transitionOf vt
      let b := tr.s.transitionOf vt
      if b.totalViolation > a.totalViolation || (b.totalViolation == a.totalViolation && b.totalCounter > a.totalCounter) then
        vfail "C15" "transition-optimisation-worsens" s!"type={vt} before=({a.totalViolation},{a.totalCounter}) after=({b.totalViolation},{b.totalCounter})"
      if !(sameVehSet (a.cycles.flatMap (·.vehicles)) (b.cycles.flatMap (·.vehicles))) then
        vfail "C15" "transition-optimisation-changes-vehicle-set" s!"type={vt}"
  | _, _, _ => pure ()
  if rc != "ok" then return
  -- the returned JSON
  let out : Output := (relLines.filterMap (fun t => if t.head? == some "J" then some (t.drop 1) else none)).foldl outLine {}
  for d in out1Diffs nw out do vfail "C01" (d.takeWhile (· != ' ')).toString d
  for d in out2Diffs nw out do vfail "C02" (d.takeWhile (· != ' ')).toString d
  for d in out3Diffs nw out do vfail "C03" (d.takeWhile (· != ' ')).toString d
  for d in out4Diffs nw out do vfail "C04" (d.takeWhile (· != ' ')).toString d
  for d in out5Diffs nw out do vfail "C05" (d.takeWhile (· != ' ')).toString d
  -- C07 quantifies over instances where the cap of 100 vehicles per trip does not bind
  let capBinds := (nw.idxsWhere Node.isService).any (fun n => (nw.maxFormationFor n).isNone && nw.requiredVehicles (nw.node n).vt n > 100)
  for d in out7Diffs nw out do
    vfail "C07" (if capBinds then "cap100-" else "" ++ (d.takeWhile (· != ' ')).toString) d
  vstat "pipe.vehicles" out.vehicles.length
  vstat "pipe.nontrivial" (if out.vehicles.length ≥ 2 then 1 else 0)
  vstat "pipe.maint-instances" (if c.inst.maint.isEmpty then 0 else 1)
  vstat "pipe.cycles" out.cycles.length
  vstat "pipe.short-cycles" (out.cycles.filter (fun c => c.2.length ≤ 1)).length
  vstat "pipe.long-cycles" (out.cycles.filter (fun c => c.2.length ≥ 3)).length
  vstat "pipe.overflow-vehicles" (out.vehicles.filter (fun v => v.startDepot == nw.overflowDepot)).length
  vstat "pipe.limit-binds" ((nw.idxsWhere Node.isService).filter (fun n =>
      match nw.maxFormationFor n with | some l => nw.requiredVehicles (nw.node n).vt n > l | none => false)).length
  -- C16: the answer is the product of all stages
  match snap "start", snap "local_search", snap "transitions", snap "final" with
  | some st, some ls, some tr, some fin =>
    if let some fl := snap "flow" then
      if !(fl.s.tours.all (fun (v, t) => (assocGet? st.s.tours v).map innerOf == some (innerOf t))) || fl.s.tours.length != st.s.tours.length then
        vfail "C16" "start-not-from-flow" ""
    -- transitions stage: same tours as the local-search result, other cycles allowed
    if tr.s.tours != ls.s.tours || tr.s.formations != ls.s.formations then
      vfail "C16" "transition-stage-changed-tours" ""
    -- final stage: activities and start depots of the local-search result, cycles of the optimiser
    if !(fin.s.tours.length == ls.s.tours.length && ls.s.tours.all (fun (v, t) =>
          match assocGet? fin.s.tours v with
          | some t' => innerOf t' == innerOf t && t'.nodes.head? == t.nodes.head?
          | none => false)) then
      vfail "C16" "final-activities-differ-from-local-search" ""
    for vt in nw.typeIdxs do
      let cf := canonCycles ((fin.s.transitionOf vt).cycles.map (·.vehicles))
      let ct := canonCycles ((tr.s.transitionOf vt).cycles.map (·.vehicles))
      if cf != ct then vfail "C16" "final-cycles-not-optimised-cycles" s!"type={vt} final={cf.map (·.map (·.idx))} optimised={ct.map (·.map (·.idx))}"
      let cj := canonCycles ((out.cycles.filter (·.1 == vt)).map (·.2))
      if cj != ct then vfail "C16" "reported-cycles-not-optimised-cycles" s!"type={vt} reported={cj.map (·.map (·.idx))} optimised={ct.map (·.map (·.idx))}"
      -- end depots aligned to the optimiser's cycles
      for cyc in ct do
        for (a, b) in cyclicPairs cyc do
          match assocGet? fin.s.tours a, assocGet? tr.s.tours b with
          | some ta, some tb =>
            if endDepotOf nw ta != startDepotOf nw tb then
              vfail "C16,C05" "end-depot-not-aligned" s!"{a.idx}->{b.idx}"
          | _, _ => vfail "C16" "cycle-member-without-tour" s!"{a.idx} {b.idx}"
    -- the JSON is the final stage
    if out.vehicles.length != fin.s.tours.length || !(out.vehicles.all (fun v =>
        match assocGet? fin.s.tours v.id with
        | some t => t.nodes == nodeSeq nw v
        | none => false)) then
      vfail "C16,C03" "json-not-final-stage" ""
    if (out.unserved, out.violation, out.vehicleCount, out.costs) != objOf fin then
      vfail "C16,C04" "objective-not-of-final-stage" s!"reported={showObj (out.unserved, out.violation, out.vehicleCount, out.costs)} final={showObj (objOf fin)}"
    -- correspondence: the returned JSON is the model's serialisation of the final stage
    match toOutput nw fin.s with
    | .ok m =>
      let fields : List String :=
        (if m.vehicles != out.vehicles then ["vehicles"] else []) ++
        (if m.cycles != out.cycles then ["vehicleCycles"] else []) ++
        (if m.segs != out.segs then ["departureSegments"] else []) ++
        (if m.slots != out.slots then ["maintenanceSlots"] else []) ++
        (if m.dhts != out.dhts then ["deadHeadTrips"] else []) ++
        (if !(m.depotLoads.all (out.depotLoads.contains ·) && out.depotLoads.all (m.depotLoads.contains ·)) then ["depotLoads"] else []) ++
        (if (m.unserved, m.violation, m.vehicleCount, m.costs) != (out.unserved, out.violation, out.vehicleCount, out.costs) then ["objectiveValue"] else [])
      if !fields.isEmpty then vdiff "C03,C16" s!"model-output-{fields.headD ""}" s!"fields={fields}"
    | .error e => vdiff "C03" "model-output-faults" s!"{repr e}"
    -- no stage gives up covered demand
    if (objOf fin).1 > (objOf st).1 then vfail "C07" "later-stage-gives-up-demand" ""
    vstat "pipe.stages" 1
  | _, _, _, _ => vdiff "C16" "stage-snapshots-missing" ""

end RSSched.Driver
