/-
Driver/Parse: reading case files (line protocol of DESIGN §4.2). Import-free apart from the model.
-/
import RSSched.Model.Network
namespace RSSched.Driver
open RSSched

abbrev Toks := List String

def toks (line : String) : Toks :=
  (line.splitOn " ").filter (fun s => s != "")

def nat! (s : String) : Nat := s.toNat?.getD 0

def optNat (s : String) : Option Nat := if s == "-" then none else s.toNat?

def natList (ts : Toks) : List Nat := ts.filterMap (·.toNat?)

/-- tokens after the first ":" -/
def afterColon (ts : Toks) : Toks := (ts.dropWhile (· != ":")).drop 1

def beforeColon (ts : Toks) : Toks := ts.takeWhile (· != ":")

def timeTok (s : String) : ExtTime :=
  if s == "E" then .earliest else if s == "L" then .latest else .point (nat! s)

def durTok (s : String) : Dur := if s == "I" then .inf else .len (nat! s)
def distTok (s : String) : Dist := if s == "I" then .inf else .d (nat! s)
def locTok (s : String) : Loc := if s == "N" then .nowhere else .station (nat! s)

def kindTok (s : String) : Kind :=
  if s == "s" then .startDepot else if s == "t" then .service else if s == "m" then .maint
  else .endDepot

def vehTok (s : String) : Veh :=
  let i := nat! ((s.drop 1).toString)
  if s.startsWith "u" then Veh.dum i else Veh.real i

def showVeh (v : Veh) : String := (if v.dummy then "u" else "v") ++ toString v.idx

def showTime : ExtTime → String
  | .earliest => "E" | .latest => "L" | .point s => toString s
def showDur : Dur → String
  | .inf => "I" | .len s => toString s
def showDist : Dist → String
  | .inf => "I" | .d s => toString s
def showLoc : Loc → String
  | .nowhere => "N" | .station s => toString s
def showOpt : Option Nat → String
  | none => "-" | some x => toString x
def showList (l : List Nat) : String := " ".intercalate (l.map toString)

/-- pairs `(a0,b0),(a1,b1),…` from a flat token list -/
def pairUp : Toks → List (String × String)
  | a :: b :: rest => (a, b) :: pairUp rest
  | _ => []

structure InstAcc where
  inst : Instance := { vtypes := [], nLocs := 0, depots := none, defaultOrder := [], routes := [],
                       departures := [], maint := [], dhIdx := [], dhDur := [], dhDist := [],
                       forbidDH := false, shuntMin := 0, shuntDH := 0, maxDist := 0, cStaff := 0,
                       cService := 0, cMaint := 0, cDH := 0, cIdle := 0 }

def modifyLast {α} (l : List α) (f : α → α) : List α :=
  match l.reverse with
  | [] => []
  | x :: xs => (f x :: xs).reverse

/-- one `I …` line -/
def instLine (i : Instance) (t : Toks) : Instance :=
  match t with
  | ["vt", c, s, m] => { i with vtypes := i.vtypes ++ [{ capacity := nat! c, seats := nat! s, maxForm := optNat m }] }
  | ["nlocs", n] => { i with nLocs := nat! n }
  | ["nodepots"] => { i with depots := none }
  | ["givendepots"] => { i with depots := some [] }
  | "defaultorder" :: rest => { i with defaultOrder := natList rest }
  | "depot" :: l :: c :: rest =>
    let d : InDepot := { loc := nat! l, capacity := nat! c,
                         allowed := (pairUp rest).map (fun (a, b) => (nat! a, optNat b)) }
    { i with depots := some ((i.depots.getD []) ++ [d]) }
  | ["route", vt] => { i with routes := i.routes ++ [{ vt := nat! vt, segs := [] }] }
  | ["rseg", o, d, dist, dur, m] =>
    let g : RSeg := { origin := nat! o, dest := nat! d, distance := nat! dist, duration := nat! dur,
                      maxForm := optNat m }
    { i with routes := modifyLast i.routes (fun r => { r with segs := r.segs ++ [g] }) }
  | ["departure", r] => { i with departures := i.departures ++ [{ route := nat! r, segs := [] }] }
  | ["dseg", rs, dep, p, s] =>
    let g : DSeg := { rseg := nat! rs, departure := nat! dep, passengers := nat! p, seated := nat! s }
    { i with departures := modifyLast i.departures (fun d => { d with segs := d.segs ++ [g] }) }
  | ["maint", l, s, e, tr] =>
    { i with maint := i.maint ++ [{ loc := nat! l, start := nat! s, stop := nat! e, tracks := nat! tr }] }
  | "dhidx" :: rest => { i with dhIdx := natList rest }
  | "dhdur" :: rest => { i with dhDur := i.dhDur ++ [natList rest] }
  | "dhdist" :: rest => { i with dhDist := i.dhDist ++ [natList rest] }
  | ["params", f, smin, sdh, md, a, b, c, d, e] =>
    { i with forbidDH := f == "1", shuntMin := nat! smin, shuntDH := nat! sdh, maxDist := nat! md,
             cStaff := nat! a, cService := nat! b, cMaint := nat! c, cDH := nat! d, cIdle := nat! e }
  | _ => i

/-- a parsed case: header tokens, instance, and the remaining lines by tag -/
structure Case where
  name : String
  scope : String
  inst : Instance
  lines : List Toks      -- all non-instance lines, tokenised, in order

def parseCase (text : String) : Case := Id.run do
  let mut name := "?"
  let mut scope := "?"
  let mut inst : Instance := ({} : InstAcc).inst
  let mut rest : Array Toks := #[]
  for line in text.splitOn "\n" do
    let t := toks line
    match t with
    | "CASE" :: n :: s :: _ => name := n; scope := s
    | "I" :: r => inst := instLine inst r
    | [] => pure ()
    | _ => rest := rest.push t
  return { name, scope, inst, lines := rest.toList }

end RSSched.Driver
