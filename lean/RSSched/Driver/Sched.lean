/-
Driver/Sched: scope `sched` (C10, C13, schedule half of C09). After every operation the
implementation's full state is parsed; the structural/cache/getter monitors run on it, and the
frame monitor compares it with the state before the operation.
-/
import RSSched.Driver.SchedDump
import RSSched.Spec.Frame
import RSSched.Model.Ops
namespace RSSched.Driver
open RSSched Spec

def parseSOp (op : Toks) : Option SOp :=
  match op with
  | ["init"] => some .init
  | "spawn" :: vt :: ns => some (.spawn (nat! vt) (natList ns))
  | ["dummyspawn", d, vt] => some (.dummySpawn (vehTok d) (nat! vt))
  | ["delete", v] => some (.delete (vehTok v))
  | "addpath" :: v :: ns => some (.addPath (vehTok v) (natList ns))
  | ["rmseg", v, a, b] => some (.rmSeg (vehTok v) (nat! a) (nat! b))
  | ["fit", p, r, a, b] => some (.fit (vehTok p) (vehTok r) (nat! a) (nat! b))
  | ["override", p, r, a, b] => some (.override (vehTok p) (vehTok r) (nat! a) (nat! b))
  | "improve" :: rest => some (.improve (if rest == ["all"] then none else some (rest.map vehTok)))
  | ["endgreedy"] => some .endGreedy
  | "recompute" :: rest => some (.recompute (if rest == ["all"] then none else some (natList rest)))
  | ["endconsistent"] => some .endConsistent
  | ["settrans", vt, v, ci] => some (.setTrans (nat! vt) (vehTok v) (nat! ci))
  | _ => none

def checkSched (c : Case) : VM Unit := do
  let nw := c.inst.load
  if c.lines.any (fun t => t.head? == some "X") then
    vfail "C17" "load-panic" ""
    return
  let mut pre : Option SchedObs := none
  let mut nOps := 0
  let mut nChanged := 0
  let mut kinds : List String := []
  for (opRaw, res) in groupOps c.lines do
    let op := dropAt opRaw
    let opStr := " ".intercalate op
    nOps := nOps + 1
    let cls := match res.find? (fun l => l.head? == some "T") with
      | some ("T" :: k :: _) => k
      | _ => "none"
    let post := parseSched (res.filterMap (fun l => match l with | "S" :: rest => some rest | _ => none))
    if !post.complete then
      vdiff "C10" "state-dump-missing" opStr
      continue
    monitorSched nw s!"after [{opStr}] ({cls})" post
    -- correspondence: the model's modification applied to the implementation's pre-state
    match pre, parseSOp op with
    | some p, some sop =>
      let m := applyOp nw p.s sop
      match m, cls with
      | .ok r, "ok" =>
        let fs := Schedule.diffFields r.sched post.s
        if !fs.isEmpty then vdiff "C10,C09,C13" s!"model-{op.headD ""}-{fs.headD ""}" s!"[{opStr}] fields={fs}"
      | m, cls => if modelClass m != cls then vdiff "C10,C13" s!"model-{op.headD ""}-class" s!"[{opStr}] impl={cls} model={modelClass m} {match m with | .error e => reprStr e | _ => ""}"
    | none, some .init =>
      match applyOp nw default .init with
      | .ok r =>
        let fs := Schedule.diffFields r.sched post.s
        if !fs.isEmpty then vdiff "C10" s!"model-init-{fs.headD ""}" s!"fields={fs}"
      | _ => pure ()
    | _, _ => pure ()
    match pre, parseSOp op with
    | some p, some sop =>
      if cls == "ok" then
        if p.s != post.s then nChanged := nChanged + 1
        if !(kinds.contains (op.headD "")) then kinds := (op.headD "") :: kinds
        let retLine := res.find? (fun l => l.take 2 == ["T", "ok"])
        let retPath : Option (List Nat) := match retLine with
          | some ("T" :: "ok" :: "removed" :: "-" :: _) => none
          | some ("T" :: "ok" :: "removed" :: ns) => some (natList ns)
          | _ => none
        let retDummy : Option Veh := match retLine with
          | some ["T", "ok", "newdummy", d] => if d == "-" then none else some (vehTok d)
          | _ => none
        -- frame conditions presuppose a consistent pre-state
        if (scheduleValidDiffs nw p.s).isEmpty then
          for d in frameDiffs nw sop p.s post.s retPath retDummy do
            vfail "C13" d s!"[{opStr}]"
      else if cls == "err" then
        -- a refused modification leaves the schedule untouched
        if p.s != post.s then vfail "C13" "refused-op-changed-state" s!"[{opStr}]"
      else
        -- a panic on arguments the API documents as valid
        if (scheduleValidDiffs nw p.s).isEmpty && (scheduleCacheDiffs nw p.s).isEmpty then
          vfail "C10,C11" "modification-panic" s!"[{opStr}] {" ".intercalate (res.headD [])}"
    | _, _ => pure ()
    pre := some post
  vstat "sched.ops" nOps
  vstat "c09.networks" 1
  vstat "c05.depotnodes" (if depotNodesB nw then 1 else 0)
  vstat "c09.nethyps" (if netHypsB nw then 1 else 0)
  vstat "c10.networks" 1
  vstat "c10.tourhyps" (if tourHypsB nw then 1 else 0)
  vstat "c10.formhyps" (if formHypsB nw then 1 else 0)
  vstat "c10.limithyps" (if formHypsB nw && ovfNodeB nw then 1 else 0)
  vstat "sched.changed" nChanged
  vstat "sched.op-kinds" kinds.length
  if let some p := pre then
    vstat "sched.final-vehicles" p.s.vehicles.length
    vstat "sched.final-dummies" p.s.dummyTours.length

end RSSched.Driver
