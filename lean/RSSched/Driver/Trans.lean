/-
Driver/Trans: scope `trans` (C15). Registers hold the IMPLEMENTATION's transitions; each operation
is replayed by the model on the implementation's pre-state (DIFF) and the consistency monitor of
Spec/Schedule.lean is evaluated on the implementation's result (FAIL).
-/
import RSSched.Driver.SchedDump
namespace RSSched.Driver
open RSSched Spec

def parseTransLines (vt : Nat) (ls : List Toks) : Transition :=
  let o := parseSched ls
  o.s.transitionOf vt

def showTrans (tr : Transition) : String :=
  let cyc := tr.cycles.map (fun c => s!"[{" ".intercalate (c.vehicles.map showVeh)}|{c.counter}]")
  s!"cycles={cyc} viol={tr.totalViolation} cnt={tr.totalCounter} lookup={(Transition.sortLookup tr.lookup).map (fun p => (showVeh p.1, p.2))} empty={tr.empty}"

def transEq (a b : Transition) : Bool :=
  a.cycles == b.cycles && a.totalViolation == b.totalViolation && a.totalCounter == b.totalCounter &&
  Transition.sortLookup a.lookup == Transition.sortLookup b.lookup && a.empty == b.empty

def checkTrans (c : Case) : VM Unit := do
  let nw := c.inst.load
  if c.lines.any (fun t => t.head? == some "X") then
    vfail "C17" "load-panic" ""
    return
  let mut vt := 0
  let mut tours : Tours := []
  let mut regs : List (Nat × Transition × List Veh) := []   -- transition, detached vehicles
  let mut nOps := 0
  let mut nChanged := 0
  let mut nEmptyReuse := 0
  for (opRaw, res) in groupOps c.lines do
    let op := dropAt opRaw
    let opStr := " ".intercalate op
    nOps := nOps + 1
    let cls := resClass res
    let newId : Option Nat := res.findSome? (fun l => match l with | ["T", "treg", id] => some (nat! id) | _ => none)
    let implTr := parseTransLines vt (res.filterMap (fun l => match l with | "T" :: rest => some rest | _ => none))
    -- tour lines update the current tours
    let tourLines := res.filterMap (fun l => match l with | "T" :: "tour" :: v :: rest => some (vehTok v, parseTour rest) | _ => none)
    let monitor (tr : Transition) (detached : List Veh) (curTours : Tours) : VM Unit := do
      let vehicles := (curTours.map (·.1)).filter (fun v => !(detached.contains v))
      for d in transitionDiffs nw curTours vehicles tr do
        vfail "C15,C10" s!"trans-{d}" s!"after [{opStr}] impl: {showTrans tr}"
    match op with
    | "tbase" :: v :: _ =>
      vt := nat! v
      tours := tourLines
      regs := []
    | ["tnew"] =>
      if let some id := newId then
        monitor implTr [] tours
        match Transition.newFast nw (sortVeh (tours.map (·.1))) tours with
        | .ok m => if !(transEq m implTr) then vdiff "C15" "new-fast" s!"impl: {showTrans implTr} model: {showTrans m}"
        | .error e => vdiff "C15" "new-fast-class" s!"impl=ok model={repr e}"
        regs := (id, implTr, []) :: regs
      else if cls == "panic" then vfail "C15,C06" "trans-panic" opStr
    | ["tsched"] =>
      if let some id := newId then
        monitor implTr [] tours
        regs := (id, implTr, []) :: regs
    | "tsucc" :: r :: v :: _ =>
      let some (tr, _) := assocGet? regs (nat! r) | pure ()
      let implSucc := res.findSome? (fun l => match l with | ["T", "succ", s] => some (vehTok s) | _ => none)
      match Transition.successorOf tr (vehTok v), implSucc with
      | .ok m, some i =>
        if m != i then vdiff "C15,C05" "successor" s!"{opStr} impl={showVeh i} model={showVeh m}"
        -- spec: the cyclic successor inside the vehicle's cycle
        let ok := tr.cycles.any (fun cy => (cyclicPairs cy.vehicles).contains (vehTok v, i))
        if !ok then vfail "C15,C05" "successor-not-cyclic-next" opStr
      | m, _ => if modelClass m != cls then vdiff "C15" "successor-class" opStr
    | kind :: r :: rest =>
      let some (tr, detached) := assocGet? regs (nat! r) | pure ()
      let v := vehTok (rest.getD 0 "v0")
      let tours' : Tours := tourLines.foldl (fun acc (x, t) => assocSet acc x t) tours
      let model : R Transition :=
        match kind with
        | "tmove" => Transition.moveVehicle nw false tr v (nat! (rest.getD 1 "0")) tours
        | "tremove" => Transition.removeVehicle nw tr v [] tours
        | "taddend" => Transition.addVehicleAtTheEnd nw false tr v (nat! (rest.getD 1 "0")) [] tours
        | "taddown" => match assocGet? tours v with
          | some t => Transition.addVehicleToOwnCycle nw tr v t
          | none => .error (.panic "no tour")
        | "tupdate2" =>
          let v2 := vehTok (rest.getD 2 "v0")
          match assocGet? tours' v, assocGet? tours' v2 with
          | some n1, some n2 => do
            let t1 ← Transition.updateVehicle nw tr v n1 [] tours
            Transition.updateVehicle nw t1 v2 n2 [(v, n1)] tours
          | _, _ => .error (.panic "no tour")
        | "tupdrm" =>
          -- one batch: v gets a new tour, then v2 is removed with the "updated tours first" overlay
          let v2 := vehTok (rest.getD 2 "v0")
          match assocGet? tours' v with
          | some n1 => do
            let t1 ← Transition.updateVehicle nw tr v n1 [] tours
            Transition.removeVehicle nw t1 v2 [(v, n1)] tours
          | none => .error (.panic "no tour")
        | "tupdate" => match assocGet? tours' v with
          | some nt => Transition.updateVehicle nw tr v nt [] tours
          | none => .error (.panic "no tour")
        | "t3opt" =>
          let ci := nat! (rest.getD 0 "0")
          match tr.cycles[ci]? with
          | some cy => do
            let c' ← Transition.threeOpt nw cy (nat! (rest.getD 1 "0")) (nat! (rest.getD 2 "0")) (nat! (rest.getD 3 "0")) tours
            Transition.replaceCycle tr ci c'
          | none => .error (.panic "cycle index")
        | _ => .error (.err "unknown")
      let detached' := match kind with
        | "tremove" => v :: detached
        | "tupdrm" => vehTok (rest.getD 2 "v0") :: detached
        | "taddend" | "taddown" => detached.filter (· != v)
        | _ => detached
      match newId with
      | some id =>
        nChanged := nChanged + 1
        if kind == "tmove" || kind == "taddend" then
          if (tr.cycles.getD (nat! (rest.getD 1 "0")) default).vehicles.isEmpty then nEmptyReuse := nEmptyReuse + 1
        monitor implTr detached' tours'
        match model with
        | .ok m => if !(transEq m implTr) then vdiff "C15" s!"{kind}" s!"{opStr} impl: {showTrans implTr} model: {showTrans m}"
        | .error e => vdiff "C15" s!"{kind}-class" s!"{opStr} impl=ok model={repr e}"
        if kind == "t3opt" then
          -- a 3-opt move permutes the cycle
          let ci := nat! (rest.getD 0 "0")
          if !(sameVehSet (tr.cycles.getD ci default).vehicles (implTr.cycles.getD ci default).vehicles) then
            vfail "C15" "three-opt-not-permutation" opStr
        tours := tours'
        regs := (id, implTr, detached') :: regs
      | none =>
        if cls == "panic" then
          vfail "C15,C06" "trans-panic" s!"{opStr} on {showTrans tr}"
          if modelClass model != "panic" then vdiff "C15" s!"{kind}-class" s!"{opStr} impl=panic model={modelClass model}"
    | _ => pure ()
  vstat "trans.ops" nOps
  vstat "trans.changed" nChanged
  vstat "trans.into-empty-cycle" nEmptyReuse

end RSSched.Driver
