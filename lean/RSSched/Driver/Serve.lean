/-
Driver/Serve: scope `serve` (C18). One case per request sent to the real server binary: health
probes must answer 200 "Healthy"; valid bodies must be answered 200 with a JSON that passes the
output monitors AGAINST THE INSTANCE OF ITS OWN REQUEST; malformed or semantically invalid bodies
must get an error status or a closed connection; the server must stay alive.
-/
import RSSched.Driver.Pipe
namespace RSSched.Driver
open RSSched Spec

def checkServe (c : Case) : VM Unit := do
  let nw := c.inst.load
  let get (k : String) : List String :=
    match c.lines.find? (fun t => t.take 2 == ["V", k]) with
    | some t => t.drop 2
    | none => []
  let kind := (get "kind").headD "?"
  let status := (get "status").headD "?"
  if (get "serverup").headD "0" != "1" then vfail "C18" "server-did-not-start" ""
  if (get "alive").headD "0" != "1" then vfail "C18" "server-died" s!"after request kind={kind}"
  match get "finalhealth" with
  | ["200", "Healthy"] => pure ()
  | other => vfail "C18" "health-after-faults" s!"{other}"
  -- several requests over one kept-alive connection: each gets its own complete answer
  match get "reuse" with
  | [sent, ok, detail] =>
    if sent != ok then vfail "C18" "keep-alive-request-not-answered" s!"sent={sent} answered-correctly={ok} {detail}"
    if (get "final").headD "0" == "1" then vstat "serve.keep-alive-requests" (nat! sent)
  | _ => pure ()
  -- hammer phase: back-to-back solves and health polls by concurrent clients, every one answered
  match get "hammer" with
  | [sv, svok, hl, hlok, detail] =>
    if sv != svok || hl != hlok then
      vfail "C18" "concurrent-request-not-answered" s!"solves={sv} ok={svok} health={hl} ok={hlok} {detail}"
    if (get "final").headD "0" == "1" then do
      vstat "serve.hammer-solves" (nat! sv)
      vstat "serve.hammer-health" (nat! hl)
  | _ => pure ()
  match get "healthprobes" with
  | [n, ok] => if n != ok then vfail "C18" "health-during-load" s!"probes={n} healthy={ok}"
  | _ => pure ()
  match kind with
  | "health" =>
    if status != "200" || get "healthbody" != ["Healthy"] then vfail "C18" "health-answer" s!"status={status} body={get "healthbody"}"
  | "malformed" | "invalid" =>
    -- must fail alone: an error status or a closed connection, never a solution
    if status == "200" then vfail "C18" "invalid-request-answered-200" s!"kind={kind}"
    if status == "timeout" || status == "notsent" then vfail "C18" "invalid-request-hangs" s!"kind={kind} status={status}"
  | "valid" =>
    if status != "200" then
      vfail "C18" "valid-request-not-answered" s!"status={status}"
    else if c.lines.any (fun t => t == ["V", "badjson"]) then
      vfail "C18" "answer-is-not-json" ""
    else
      -- the answer must be a solution of exactly the instance this request carried
      let out : Output := (c.lines.filterMap (fun t => if t.head? == some "J" then some (t.drop 1) else none)).foldl outLine {}
      for d in out1Diffs nw out do vfail "C18" s!"own-solution-C01-{(d.takeWhile (· != ' ')).toString}" d
      for d in out2Diffs nw out do vfail "C18" s!"own-solution-C02-{(d.takeWhile (· != ' ')).toString}" d
      for d in out3Diffs nw out do vfail "C18" s!"own-solution-C03-{(d.takeWhile (· != ' ')).toString}" d
      for d in out4Diffs nw out do vfail "C18" s!"own-solution-C04-{(d.takeWhile (· != ' ')).toString}" d
      for d in out5Diffs nw out do vfail "C18" s!"own-solution-C05-{(d.takeWhile (· != ' ')).toString}" d
      vstat "serve.valid-answered" 1
      vstat "serve.vehicles" out.vehicles.length
  | "validbig" =>
    -- a valid instance whose JSON body is larger than 2 MiB (same timetable, many unused locations)
    if status != "200" then
      vfail "C18" "valid-request-not-answered" s!"status={status} bytes={(get "bytes").headD "?"}"
    else if (get "bigok").headD "0" != "1" then
      vfail "C18" "large-request-answer-differs" s!"bytes={(get "bytes").headD "?"}"
    else vstat "serve.big-answered" 1
  | _ => pure ()
  if (get "final").headD "0" == "1" then vstat "serve.abandoned-requests" (nat! ((get "abandoned").headD "0"))
  vstat s!"serve.kind-{kind}" 1
  vstat "serve.requests" 1

end RSSched.Driver
