/-
Model/ScheduleBase: the `Schedule` structure (solution/src/schedule.rs) and its basic queries.
`im::HashMap`s are association lists; the two `HashSet`s of a depot-usage entry are lists kept
sorted by vehicle id. The modifications live in Model/Schedule.lean.
-/
import RSSched.Model.Transition
namespace RSSched
open Network

structure Schedule where
  vehicles : List (Veh × Nat)                    -- vehicle ↦ vehicle type
  tours : Tours
  transitions : List (Nat × Transition)          -- per vehicle type
  formations : List (Nat × List Veh)             -- node ↦ vehicles, front first
  depotUsage : List ((Nat × Nat) × (List Veh × List Veh))   -- (depot, type) ↦ (spawned, despawned)
  dummyTours : Tours
  counter : Nat
  idsByType : List (Nat × List Veh)              -- `vehicle_ids_grouped_and_sorted`
  dummyIds : List Veh                            -- `dummy_ids_sorted`
  unserved : Nat × Nat
  violation : Int
  costs : Nat
  deriving Repr, DecidableEq, Inhabited

namespace Schedule

def isVehicle (s : Schedule) (v : Veh) : Bool := (assocGet? s.vehicles v).isSome
def isDummy (s : Schedule) (v : Veh) : Bool := (assocGet? s.dummyTours v).isSome
def typeOf? (s : Schedule) (v : Veh) : Option Nat := assocGet? s.vehicles v

def tourOf? (s : Schedule) (v : Veh) : Option Tour :=
  match assocGet? s.tours v with
  | some t => some t
  | none => assocGet? s.dummyTours v

def vehiclesOfType (s : Schedule) (vt : Nat) : List Veh := (assocGet? s.idsByType vt).getD []

/-- `vehicles_iter_all`: types in index order, ids ascending inside a type -/
def vehiclesAll (nw : Network) (s : Schedule) : List Veh := nw.typeIdxs.flatMap s.vehiclesOfType

def formationOf (s : Schedule) (n : Nat) : List Veh := (assocGet? s.formations n).getD []

def transitionOf (s : Schedule) (vt : Nat) : Transition := (assocGet? s.transitions vt).getD default

def usageOf (s : Schedule) (d vt : Nat) : List Veh × List Veh := (assocGet? s.depotUsage (d, vt)).getD ([], [])

/-- `compute_unserved_passengers_at_node` for a formation given as vehicle types -/
def unservedAt (nw : Network) (node : Nat) (types : List Nat) : Nat × Nat :=
  let cap := sumNat (types.map (fun t => (nw.vtype t).capacity))
  let seats := sumNat (types.map (fun t => (nw.vtype t).seats))
  ((nw.node node).pax - cap, (nw.node node).seated - seats)

end Schedule
end RSSched
