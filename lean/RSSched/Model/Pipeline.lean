/-
Model/Pipeline: the stage wiring of `server::solve_instance` (server/src/lib.rs). The stages
themselves are parameters (min-cost-flow start, depot improvement, local search, transition
optimisation, `set_next_day_transitions`, end-depot alignment, evaluation/serialisation); what is
modelled is which value flows into which stage. `pinned = true` reproduces finding F6: the last
stage was fed the local-search result instead of the schedule carrying the optimised transitions.
-/
namespace RSSched

structure PipelineStages (I S T O : Type) where
  mcf : I → S                      -- MinCostFlowSolver::solve
  improveDepots : S → S            -- improve_depots(None)
  maintenance : I → Bool           -- network.maintenance_considered()
  localSearch : S → S              -- build_local_search_solver(..).solve
  optimise : S → T                 -- transition local search for every type
  setTransitions : S → T → S       -- set_next_day_transitions
  alignEndDepots : S → S           -- reassign_end_depots_consistent_with_transitions
  output : S → O                   -- objective.evaluate + create_output_json

structure PipelineTrace (S T O : Type) where
  start : S
  afterSearch : S
  optimised : T
  withTransitions : S
  final : S
  out : O

def solveTrace {I S T O} (p : PipelineStages I S T O) (pinned : Bool) (i : I) : PipelineTrace S T O :=
  let start := p.improveDepots (p.mcf i)
  let sol := if p.maintenance i then p.localSearch start else start
  let opt := p.optimise sol
  let withT := p.setTransitions sol opt
  let final := if pinned then p.alignEndDepots sol else p.alignEndDepots withT
  { start, afterSearch := sol, optimised := opt, withTransitions := withT, final, out := p.output final }

end RSSched
