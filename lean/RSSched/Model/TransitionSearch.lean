/-
Model/TransitionSearch: solver/src/transition_cycle_tsp (3-opt neighbourhood, objective = cycle
counter, sequential `LocalSearchSolver` whose `Minimizer` takes the FIRST minimal neighbour) and
solver/src/transition_local_search (neighbourhood: for every pair of cycles exchange / move one
vehicle each way or none, then re-optimise both cycles with the cycle TSP; objective = (violation,
counter), parallel minimiser).
-/
import RSSched.Model.Objective
namespace RSSched
namespace TransSearch

/-- one improvement step of the cycle TSP: the first minimal 3-opt neighbour, if strictly better -/
def tspImprove (nw : Network) (tours : Tours) (c : Cycle) : R (Option Cycle) := do
  let cands ← Tour.mapMR (fun (t : Nat × Nat × Nat) => Transition.threeOpt nw c t.1 t.2.1 t.2.2 tours)
    (threeOptTriples c.vehicles.length)
  match cands with
  | [] => pure none
  | x :: xs =>
    let best := xs.foldl (fun b y => if y.counter < b.counter then y else b) x
    pure (if best.counter < c.counter then some best else none)

/-- `LocalSearchSolver::solve` for one cycle (fuel bounds the number of accepted steps) -/
def tspSolve (nw : Network) (tours : Tours) : Nat → Cycle → R Cycle
  | 0, c => pure c
  | fuel + 1, c => do
    match ← tspImprove nw tours c with
    | none => pure c
    | some c' => tspSolve nw tours fuel c'

/-- re-optimise the two touched cycles -/
def reoptimise (nw : Network) (tours : Tours) (tr : Transition) (i j : Nat) : R Transition := do
  let ci ← unwrapO tr.cycles[i]? "get_cycle(first)"
  let ci' ← tspSolve nw tours 200 ci
  let t1 ← Transition.replaceCycle tr i ci'
  let cj ← unwrapO t1.cycles[j]? "get_cycle(second)"
  let cj' ← tspSolve nw tours 200 cj
  Transition.replaceCycle t1 j cj'

/-- `TransitionNeighborhood::neighbors_of` -/
def neighbors (nw : Network) (tours : Tours) (tr : Transition) : R (List Transition) := do
  let n := tr.cycles.length
  let pairsIJ := (List.range n).flatMap (fun i => ((List.range n).filter (fun j => i < j)).map (fun j => (i, j)))
  let cands ← Tour.mapMR (fun (ij : Nat × Nat) => do
      let (i, j) := ij
      let ci := (tr.cycles.getD i default).vehicles
      let cj := (tr.cycles.getD j default).vehicles
      let firsts : List (Option Veh) := ci.map some ++ [none]
      let seconds : List (Option Veh) := cj.map some ++ [none]
      Tour.mapMR (fun (ab : Option Veh × Option Veh) => do
          let moved ← match ab with
            | (some a, some b) => do
              let t1 ← Transition.moveVehicle nw false tr a j tours
              Transition.moveVehicle nw false t1 b i tours
            | (some a, none) => Transition.moveVehicle nw false tr a j tours
            | (none, some b) => Transition.moveVehicle nw false tr b i tours
            | (none, none) => pure tr
          reoptimise nw tours moved i j)
        (firsts.flatMap (fun a => seconds.map (fun b => (a, b))))) pairsIJ
  pure cands.flatten

def better (a b : Transition) : Bool :=
  a.totalViolation < b.totalViolation || (a.totalViolation == b.totalViolation && a.totalCounter < b.totalCounter)

end TransSearch
end RSSched
