/-
Model/Flow: the per-type covering circulation of solver/src/min_cost_flow_solver.rs
(`solve_for_vehicle_type`): split nodes, bounds, arc costs, spawning cost; and the decoding
relation between a flow and a set of tours. Endpoints are labelled `n<idx>L/R` (activity) and
`d<depot>L/R`.
-/
import RSSched.Model.Tour
namespace RSSched
open Network

structure LArc where
  src : String
  dst : String
  lb : Int
  ub : Int
  cost : Int
  deriving Repr, DecidableEq, Inhabited

namespace Flow

def nL (i : Nat) : String := s!"n{i}L"
def nR (i : Nat) : String := s!"n{i}R"
def dL (d : Nat) : String := s!"d{d}L"
def dR (d : Nat) : String := s!"d{d}R"

def tripUb (nw : Network) (trip : Nat) : Nat := (nw.maxFormationFor trip).getD 100
def tripLb (nw : Network) (vt trip : Nat) : Nat := Nat.min (nw.requiredVehicles vt trip) (tripUb nw trip)

def totalLb (nw : Network) (vt : Nat) (slots : List (Nat × Nat)) : Nat :=
  sumNat ((nw.serviceNodes vt).map (tripLb nw vt)) + sumNat (slots.map (·.2))

def totalUb (nw : Network) (vt : Nat) (slots : List (Nat × Nat)) : Nat :=
  sumNat ((nw.serviceNodes vt).map (tripUb nw)) + sumNat (slots.map (·.2))

/-- `spawning_cost = max(1, max cost per second) · 3 · planning seconds · total lower bound`
    (repaired, finding F16: the pinned code had no `max(1, ·)`, so all-zero cost rates made the
    objective blind to the vehicle count) -/
def spawningCost (nw : Network) (vt : Nat) (slots : List (Nat × Nat)) : Nat :=
  (Nat.max 1 ([nw.cStaff, nw.cService, nw.cMaint, nw.cDH, nw.cIdle].foldl Nat.max 0)) * 3 * nw.planning * totalLb nw vt slots

/-- cost of a connection `p → n` -/
def linkCostFlow (nw : Network) (p n : Nat) : Nat :=
  nw.secOrPlanning (nw.deadHeadTimeBetween p n) * nw.cDH +
  (if (nw.node p).isDepot || (nw.node n).isDepot then 0
   else nw.secOrPlanning (nw.idleTimeBetween p n) * nw.cIdle)

/-- the arcs of the network for vehicle type `vt` with the given allotment of maintenance tracks -/
def expectedArcs (nw : Network) (vt : Nat) (slots : List (Nat × Nat)) : List LArc :=
  let trips := nw.serviceNodes vt
  let maints := slots.map (·.1)
  let depots := List.range nw.depots.size
  let tub : Int := (totalUb nw vt slots : Nat)
  let tripArcs := trips.map (fun t =>
    { src := nL t, dst := nR t, lb := (tripLb nw vt t : Nat), ub := (tripUb nw t : Nat),
      cost := ((nw.secOrPlanning (nw.nodeDur t) * nw.cService : Nat) : Int) : LArc })
  let maintArcs := slots.map (fun (m, c) =>
    { src := nL m, dst := nR m, lb := (c : Int), ub := (c : Int),
      cost := ((nw.secOrPlanning (nw.nodeDur m) * nw.cMaint : Nat) : Int) : LArc })
  let depotArcs := depots.map (fun d =>
    { src := dL d, dst := dR d, lb := 0, ub := (nw.capacityOf d vt : Nat),
      cost := (spawningCost nw vt slots : Nat) : LArc })
  -- targets: activities and the end depot node of every depot; sources: activities of the type's
  -- index that are part of this network, and start depot nodes
  let targets : List (Nat × String) :=
    trips.map (fun t => (t, nL t)) ++ maints.map (fun m => (m, nL m)) ++ depots.map (fun d => (nw.endDepotNodeOf d, dL d))
  let sources : List (Nat × String) :=
    trips.map (fun t => (t, nR t)) ++ maints.map (fun m => (m, nR m)) ++ depots.map (fun d => (nw.startDepotNodeOf d, dR d))
  let conn := targets.flatMap (fun (n, nl) =>
    (sources.filter (fun (p, _) => nw.canReach p n)).map (fun (p, pr) =>
      { src := pr, dst := nl, lb := 0, ub := tub, cost := (linkCostFlow nw p n : Nat) : LArc }))
  tripArcs ++ maintArcs ++ depotArcs ++ conn

def isDepotArc (a : LArc) : Bool :=
  a.src.startsWith "d" && a.dst.startsWith "d" && a.src.endsWith "L" && a.dst.endsWith "R" &&
  a.src.dropRight 1 == a.dst.dropRight 1

end Flow
end RSSched
