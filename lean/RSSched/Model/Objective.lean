/-
Model/Objective: solver/src/objective.rs (four-level hierarchy), the lexicographic order of
`rapid_solve::objective::ObjectiveValue`, and the search loops of `rapid_solve`
(`LocalSearchSolver`/`ParallelLocalSearchSolver` with the `Minimizer` improver): take a minimal
neighbour, accept it iff it is strictly better, repeat.
-/
import RSSched.Model.ScheduleBase
namespace RSSched

/-- objective value: unserved passengers, maintenance violation, vehicle count, costs -/
structure Obj where
  unserved : Nat
  violation : Nat
  vehicles : Nat
  costs : Nat
  deriving Repr, DecidableEq, Inhabited

namespace Obj

/-- `ObjectiveValue::cmp`: lexicographic, first level first -/
def lt (a b : Obj) : Prop :=
  a.unserved < b.unserved ∨ (a.unserved = b.unserved ∧
    (a.violation < b.violation ∨ (a.violation = b.violation ∧
      (a.vehicles < b.vehicles ∨ (a.vehicles = b.vehicles ∧ a.costs < b.costs)))))

instance (a b : Obj) : Decidable (lt a b) := by unfold lt; infer_instance

def le (a b : Obj) : Prop := lt a b ∨ a = b

end Obj

/-- `objective::build` applied to a schedule (violation is never negative: a sum of `max 0`) -/
def Schedule.objective (s : Schedule) : Obj :=
  { unserved := s.unserved.1 + s.unserved.2, violation := s.violation.toNat,
    vehicles := s.vehicles.length, costs := s.costs }

/-- `Minimizer::improve`: a minimal neighbour (first minimal in enumeration order; rayon's choice
    among equal minima is arbitrary, the theorems do not depend on it) if strictly better -/
def improve {σ} (obj : σ → Obj) (nbrs : σ → List σ) (s : σ) : Option σ :=
  match nbrs s with
  | [] => none
  | c :: cs =>
    let best := cs.foldl (fun b x => if Obj.lt (obj x) (obj b) then x else b) c
    if Obj.lt (obj best) (obj s) then some best else none

/-- the `while let Some(new) = improve(current)` loop with fuel -/
def searchFuel {σ} (obj : σ → Obj) (nbrs : σ → List σ) : Nat → σ → σ × Bool
  | 0, s => (s, false)
  | fuel + 1, s =>
    match improve obj nbrs s with
    | none => (s, true)
    | some s' => searchFuel obj nbrs fuel s'

/-- `TransitionCycleNeighborhood::neighbors_of`: the index triples of the 3-opt moves
    (repaired: no triple for cycles shorter than three — finding F5) -/
def threeOptTriples (n : Nat) : List (Nat × Nat × Nat) :=
  if n < 3 then [] else
  (List.range (n - 2)).flatMap (fun i =>
    ((List.range (n - 1)).filter (fun j => i + 1 ≤ j)).flatMap (fun j =>
      ((List.range n).filter (fun k => j + 1 ≤ k)).map (fun k => (i, j, k))))

/-- the pinned range `0..cycle_length - 2` on `usize`: number of outer iterations in the build
    with wrapping arithmetic (`none` = panic in the build with overflow checks) -/
def pinnedOuterIterations (checked : Bool) (n : Nat) : Option Nat :=
  if n ≥ 2 then some (n - 2) else if checked then none else some (2 ^ 64 + n - 2)

end RSSched
