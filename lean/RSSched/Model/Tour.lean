/-
Model/Tour: solution/src/tour.rs, tour/modifications.rs, path.rs, segment.rs.
A tour is its node list plus the five cached aggregates. Every function mirrors the Rust function
of the same name, including index arithmetic and panics (`R`). `strict` selects the comparison of
the two binary searches: `true` is the repaired code (finding F2), `false` the pinned one.
-/
import RSSched.Model.Network
namespace RSSched
open Network

structure Tour where
  nodes : List Nat
  isDummy : Bool
  visitsMaint : Bool
  usefulDur : Dur
  serviceDist : Dist
  dhDist : Dist
  costs : Nat
  deriving Repr, DecidableEq, Inhabited

/-- `nodes[i]` with the Rust bounds check -/
def idxAt (l : List Nat) (i : Nat) : R Nat :=
  match l[i]? with
  | some x => .ok x
  | none => .error (.panic "index out of bounds")

namespace Network

/-- `Node::duration` for nodes with `start ≤ end` (guaranteed by `Instance.WF`, checked per case) -/
def nodeDur (nw : Network) (i : Nat) : Dur :=
  match (nw.node i).duration with
  | .ok d => d
  | .error _ => .len 0

def secOrPlanning (nw : Network) (d : Dur) : Nat := d.inSec?.getD nw.planning

/-- `service_and_maintenance_costs_by_id` -/
def nodeCost (nw : Network) (i : Nat) : Nat :=
  nw.secOrPlanning (nw.nodeDur i) *
    (match (nw.node i).kind with
     | .service => nw.cService
     | .maint => nw.cMaint
     | _ => 0)

/-- `dead_head_and_idle_costs_between_two_nodes` -/
def linkCost (nw : Network) (a b : Nat) : Nat :=
  nw.secOrPlanning (nw.deadHeadTimeBetween a b) * nw.cDH +
  nw.secOrPlanning (nw.idleTimeBetween a b) * nw.cIdle

def sumDur (l : List Dur) : Dur := l.foldl Dur.add Dur.zero
def sumDist (l : List Dist) : Dist := l.foldl Dist.add Dist.zero

def usefulDurOf (nw : Network) (nodes : List Nat) : Dur := sumDur (nodes.map nw.nodeDur)
def serviceDistOf (nw : Network) (nodes : List Nat) : Dist :=
  sumDist (nodes.map (fun i => Dist.d (nw.node i).dist))
def dhDistOf (nw : Network) (nodes : List Nat) : Dist :=
  sumDist ((pairs nodes).map (fun p => nw.deadHeadDistanceBetween p.1 p.2))
def costsOf (nw : Network) (nodes : List Nat) : Nat :=
  sumNat (nodes.map nw.nodeCost) + sumNat ((pairs nodes).map (fun p => nw.linkCost p.1 p.2))
def visitsMaintOf (nw : Network) (nodes : List Nat) : Bool := nodes.any (fun i => (nw.node i).isMaint)

end Network

namespace Tour

/-- `Tour::new_computing` -/
def computing (nw : Network) (nodes : List Nat) (isDummy : Bool) : Tour :=
  { nodes, isDummy,
    visitsMaint := nw.visitsMaintOf nodes,
    usefulDur := nw.usefulDurOf nodes,
    serviceDist := nw.serviceDistOf nodes,
    dhDist := nw.dhDistOf nodes,
    costs := nw.costsOf nodes }

def len (t : Tour) : Nat := t.nodes.length
def firstNode (t : Tour) : R Nat := idxAt t.nodes 0
def lastNode (t : Tour) : R Nat := idxAt t.nodes (t.nodes.length - 1)

/-- `all_non_depot_nodes_iter`: for real tours `nodes[1..len-1]` (panics when `len = 0`) -/
def nonDepotNodes (t : Tour) : List Nat :=
  if t.isDummy then t.nodes else (t.nodes.drop 1).take (t.nodes.length - 2)

def totalDistance (t : Tour) : Dist := Dist.add t.serviceDist t.dhDist

/-- `Tour::maintenance_counter` -/
def maintenanceCounter (nw : Network) (t : Tour) : Int :=
  if t.visitsMaint then (t.totalDistance.counter) - (nw.maxDist : Int) else t.totalDistance.counter

def startDepot (nw : Network) (t : Tour) : R Nat := do
  let f ← t.firstNode
  if (nw.node f).isStartDepot then pure f else .error (.err "tour does not have a start depot.")

def endDepot (nw : Network) (t : Tour) : R Nat := do
  let l ← t.lastNode
  if (nw.node l).isEndDepot then pure l else .error (.err "tour does not have an end depot.")

def lastNonDepot (nw : Network) (t : Tour) : Option Nat :=
  t.nodes.reverse.find? (fun n => !(nw.node n).isDepot)

def firstNonDepot (t : Tour) : Option Nat := t.nonDepotNodes.head?

/-- `Tour::new_allow_invalid`: the validations of the constructor; `none` = valid -/
def newErrors (nw : Network) (nodes : List Nat) : R Bool := do
  let f ← idxAt nodes 0
  let l ← idxAt nodes (nodes.length - 1)
  let e1 := !(nw.node f).isStartDepot
  let e2 := !(nw.node l).isEndDepot
  let e3 := nodes.length < 3
  let e4 := ((nodes.take (nodes.length - 1)).drop 1).any (fun n => (nw.node n).isDepot)
  let e5 := (pairs nodes).any (fun p => !(nw.canReach p.1 p.2))
  pure (e1 || e2 || e3 || e4 || e5)

/-- `Tour::new` -/
def new (nw : Network) (nodes : List Nat) : R Tour := do
  if ← newErrors nw nodes then .error (.err "invalid tour") else pure (computing nw nodes false)

/-- `Path::new_trusted`: `none` iff all nodes are depots -/
def pathTrusted (nw : Network) (nodes : List Nat) : Option (List Nat) :=
  if nodes.all (fun n => (nw.node n).isDepot) then none else some nodes

/-- consecutive nodes are connectable (the test of `Path::new`) -/
def isChain (nw : Network) (nodes : List Nat) : Bool := (pairs nodes).all (fun p => nw.canReach p.1 p.2)

/-- `Path::new` -/
def pathNew (nw : Network) (nodes : List Nat) : R (Option (List Nat)) :=
  if (pairs nodes).any (fun p => !(nw.canReach p.1 p.2)) then .error (.err "Not a valid Path")
  else pure (pathTrusted nw nodes)

/-- `Tour::new_dummy` -/
def newDummy (nw : Network) (path : List Nat) : R Tour :=
  let nodes := path.filter (fun n => (nw.node n).isService)
  if nodes.isEmpty then .error (.err "Dummy tour needs to have at least one service nodes.")
  else pure (computing nw nodes true)

/-- `position_of`: `binary_search_by(cmp_start_time)`. On the strictly start-time-sorted node
    lists of valid tours the standard library's binary search returns the index of the node or
    `Err`; that contract of `std` is assumed (trusted base), sortedness is part of `Tour.Valid`. -/
def positionOf (t : Tour) (node : Nat) : R Nat :=
  match t.nodes.findIdx? (· == node) with
  | some p => pure p
  | none => .error (.err "Node not part of tour.")

/-- `check_if_sequence_is_removable` -/
def checkSeqRemovable (nw : Network) (t : Tour) (s e : Nat) : R Unit := do
  let n := t.nodes.length
  if !t.isDummy && n < 3 then .error (.panic "usize underflow: nodes.len() - 3")
  else if !t.isDummy && s == 0 && e ≤ n - 3 then
    .error (.err "Start depot cannot be removed without removing all non-depots.")
  else if !t.isDummy && e == n - 1 && s ≥ 2 then
    .error (.err "End depot cannot be removed without removing all non-depots.")
  else if s > e then .error (.err "start_position comes after end_position.")
  else if s > 0 && e < n - 1 then do
    let a ← idxAt t.nodes (s - 1)
    let b ← idxAt t.nodes (e + 1)
    if !(nw.canReach a b) then .error (.err "Removing nodes makes the tour invalid.") else pure ()
  else pure ()

def checkRemovable (nw : Network) (t : Tour) (a b : Nat) : R Unit := do
  let s ← t.positionOf a
  let e ← t.positionOf b
  checkSeqRemovable nw t s e

/-- `latest_departure_before` (binary search on start times) -/
def latestDepartureBefore (nw : Network) (strict : Bool) (nodes : List Nat) (time : ExtTime)
    (left right : Nat) : R (Option Nat) :=
  let before (n : Nat) : Bool :=
    if strict then ExtTime.lt (nw.node n).startT time else ExtTime.le (nw.node n).startT time
  if left + 1 = right then do
    let n ← idxAt nodes left
    pure (if before n then some left else none)
  else if h : left + 1 < right then do
    let mid := left + (right - left) / 2
    let n ← idxAt nodes mid
    if before n then latestDepartureBefore nw strict nodes time mid right
    else latestDepartureBefore nw strict nodes time left mid
  else .error (.panic "binary search on an empty range")
termination_by right - left
decreasing_by all_goals omega

/-- `earliest_arrival_after` (binary search on end times) -/
def earliestArrivalAfter (nw : Network) (strict : Bool) (nodes : List Nat) (time : ExtTime)
    (left right : Nat) : R (Option Nat) :=
  let after (n : Nat) : Bool :=
    if strict then ExtTime.lt time (nw.node n).endT else ExtTime.le time (nw.node n).endT
  if left + 1 = right then do
    let n ← idxAt nodes left
    pure (if after n then some left else none)
  else if h : left + 1 < right then do
    let mid := left + (right - left) / 2
    let n ← idxAt nodes (mid - 1)
    if after n then earliestArrivalAfter nw strict nodes time left mid
    else earliestArrivalAfter nw strict nodes time mid right
  else .error (.panic "binary search on an empty range")
termination_by right - left
decreasing_by all_goals omega

/-- the `while pos > 0 && !can_reach(nodes[pos-1], node) { pos -= 1 }` loop -/
def walkDown (nw : Network) (nodes : List Nat) (node : Nat) : Nat → R Nat
  | 0 => pure 0
  | pos + 1 => do
    let p ← idxAt nodes pos
    if !(nw.canReach p node) then walkDown nw nodes node pos else pure (pos + 1)

/-- `latest_not_reaching_node` -/
def latestNotReachingNode (nw : Network) (strict : Bool) (t : Tour) (node : Nat) : R (Option Nat) := do
  let last ← t.lastNode
  if nw.canReach last node then pure none else
  let cand ← earliestArrivalAfter nw strict t.nodes (nw.node node).startT 0 t.nodes.length
  let pos ← walkDown nw t.nodes node (cand.getD (t.nodes.length - 1))
  pure (some pos)

/-- the `while pos < len-1 && !can_reach(node, nodes[pos+1]) { pos += 1 }` loop, with fuel = len -/
def walkUp (nw : Network) (nodes : List Nat) (node : Nat) : Nat → Nat → R Nat
  | 0, pos => pure pos
  | fuel + 1, pos =>
    if pos < nodes.length - 1 then do
      let n ← idxAt nodes (pos + 1)
      if !(nw.canReach node n) then walkUp nw nodes node fuel (pos + 1) else pure pos
    else pure pos

/-- `latest_not_reached_by_node` -/
def latestNotReachedByNode (nw : Network) (strict : Bool) (t : Tour) (node : Nat) : R (Option Nat) := do
  let first ← t.firstNode
  if nw.canReach node first then pure none else
  let cand ← latestDepartureBefore nw strict t.nodes (nw.node node).endT 0 t.nodes.length
  let pos ← walkUp nw t.nodes node t.nodes.length (cand.getD 0)
  pure (some pos)

/-- `get_insert_positions` -/
def getInsertPositions (nw : Network) (strict : Bool) (t : Tour) (first last : Nat) : R (Nat × Nat) := do
  let s ← if (nw.node first).isDepot then pure 0 else do
      let r ← latestNotReachingNode nw strict t first
      pure (r.getD t.nodes.length)
  let e ← if (nw.node last).isDepot then pure t.nodes.length else do
      let r ← latestNotReachedByNode nw strict t last
      pure (match r with | none => 0 | some p => p + 1)
  pure (s, e)

/-- `nodes[s..e]`; panics when `s > e` or `e > len` like the Rust slice -/
def slice (l : List Nat) (s e : Nat) : R (List Nat) :=
  if s ≤ e && e ≤ l.length then pure ((l.drop s).take (e - s))
  else .error (.panic "slice index out of range")

/-- `Tour::conflict` -/
def conflict (nw : Network) (strict : Bool) (t : Tour) (a b : Nat) : R (Option (List Nat)) := do
  let (s, e) ← getInsertPositions nw strict t a b
  let sl ← slice t.nodes s e
  pure (pathTrusted nw sl)

/-- `Tour::sub_path` (repaired, finding F13: the endpoints are located by `position_of`; the
    pinned code used `latest_not_reaching_node`, see `subPathPinned`) -/
def subPath (nw : Network) (t : Tour) (a b : Nat) : R (List Nat) := do
  let s ← match t.positionOf a with
    | .ok s => pure s
    | .error _ => .error (.err "segment.start() not part of Tour.")
  let e ← match t.positionOf b with
    | .ok e => pure e
    | .error _ => .error (.err "segment.end() not part of Tour.")
  if s > e then .error (.err "segment.start() is after segment.end().") else
  let sl ← slice t.nodes s (e + 1)
  match pathTrusted nw sl with
  | some p => pure p
  | none => .error (.panic "tour.rs: segment is empty path.")

/-- the pinned `Tour::sub_path` -/
def subPathPinned (nw : Network) (strict : Bool) (t : Tour) (a b : Nat) : R (List Nat) := do
  let some s ← latestNotReachingNode nw strict t a | .error (.err "segment.start() not part of Tour.")
  if a != (← idxAt t.nodes s) then .error (.err "segment.start() not part of Tour.") else
  let some e ← latestNotReachingNode nw strict t b | .error (.err "segment.end() not part of Tour.")
  if b != (← idxAt t.nodes e) then .error (.err "segment.end() not part of Tour.") else
  if s > e then .error (.err "segment.start() is after segment.end().") else
  let sl ← slice t.nodes s (e + 1)
  match pathTrusted nw sl with
  | some p => pure p
  | none => .error (.panic "tour.rs: segment is empty path.")

/-! #### delta helpers of tour/modifications.rs -/

def linkAfterUnchecked (nw : Network) (t : Tour) (pos : Nat) : R Nat := do
  let a ← idxAt t.nodes pos
  let b ← idxAt t.nodes (pos + 1)
  pure (nw.linkCost a b)

def linkAfter (nw : Network) (t : Tour) (pos : Nat) : R Nat :=
  if pos ≥ t.nodes.length - 1 then pure 0 else linkAfterUnchecked nw t pos

def linkBefore (nw : Network) (t : Tour) (pos : Nat) : R Nat :=
  if pos == 0 then pure 0 else linkAfter nw t (pos - 1)

def mapMR {α β} (f : α → R β) : List α → R (List β)
  | [] => pure []
  | x :: xs => do let y ← f x; let ys ← mapMR f xs; pure (y :: ys)

/-- `costs_of_segment` -/
def costsOfSegment (nw : Network) (t : Tour) (s e : Nat) : R Nat := do
  if s ≥ e then linkBefore nw t s else
  let before ← linkBefore nw t s
  let inner ← mapMR (linkAfterUnchecked nw t) ((List.range (e - 1 - s)).map (· + s))
  let after ← linkAfter nw t (e - 1)
  let ns ← mapMR (fun i => do let n ← idxAt t.nodes i; pure (nw.nodeCost n)) ((List.range (e - s)).map (· + s))
  pure (before + sumNat inner + after + sumNat ns)

def costBeforeNew (nw : Network) (nodes newNodes : List Nat) (s : Nat) : R Nat :=
  if s == 0 then pure 0 else do
    let a ← idxAt nodes (s - 1); let b ← idxAt newNodes 0; pure (nw.linkCost a b)

def costAfterNew (nw : Network) (nodes newNodes : List Nat) (e : Nat) : R Nat :=
  if e ≥ nodes.length then pure 0 else do
    let a ← idxAt newNodes (newNodes.length - 1); let b ← idxAt nodes e; pure (nw.linkCost a b)

/-- `costs_of_new_nodes` -/
def costsOfNewNodes (nw : Network) (t : Tour) (newNodes : List Nat) (s e : Nat) : R Nat := do
  let before ← costBeforeNew nw t.nodes newNodes s
  let inner := sumNat ((pairs newNodes).map (fun p => nw.linkCost p.1 p.2))
  let after ← costAfterNew nw t.nodes newNodes e
  pure (before + inner + after + sumNat (newNodes.map nw.nodeCost))

/-- the link in front of position `s` when nothing is removed (zero at both ends) -/
def dhEmptySeg (nw : Network) (nodes : List Nat) (s : Nat) : R Dist :=
  if s == 0 || s == nodes.length then pure Dist.zero else do
    let a ← idxAt nodes (s - 1); let b ← idxAt nodes s
    pure (nw.deadHeadDistanceBetween a b)

def dhBeforeSeg (nw : Network) (nodes : List Nat) (s : Nat) : R Dist :=
  if s == 0 then pure Dist.zero else do
    let a ← idxAt nodes (s - 1); let b ← idxAt nodes s
    pure (nw.deadHeadDistanceBetween a b)

def dhAfterSeg (nw : Network) (nodes : List Nat) (e : Nat) : R Dist :=
  if e == nodes.length then pure Dist.zero else do
    let a ← idxAt nodes (e - 1); let b ← idxAt nodes e
    pure (nw.deadHeadDistanceBetween a b)

/-- `dead_head_distance_of_segment` -/
def dhDistOfSegment (nw : Network) (t : Tour) (s e : Nat) : R Dist :=
  if s ≥ e then dhEmptySeg nw t.nodes s else do
  let before ← dhBeforeSeg nw t.nodes s
  let sl ← slice t.nodes s e
  let inner := sumDist ((pairs sl).map (fun p => nw.deadHeadDistanceBetween p.1 p.2))
  let after ← dhAfterSeg nw t.nodes e
  pure (Dist.add (Dist.add before inner) after)

def dhBeforeNew (nw : Network) (nodes newNodes : List Nat) (s : Nat) : R Dist :=
  if s == 0 then pure Dist.zero else do
    let a ← idxAt nodes (s - 1); let b ← idxAt newNodes 0
    pure (nw.deadHeadDistanceBetween a b)

def dhAfterNew (nw : Network) (nodes newNodes : List Nat) (e : Nat) : R Dist :=
  if e ≥ nodes.length then pure Dist.zero else do
    let a ← idxAt newNodes (newNodes.length - 1); let b ← idxAt nodes e
    pure (nw.deadHeadDistanceBetween a b)

/-- `dead_head_distance_of_new_nodes` -/
def dhDistOfNewNodes (nw : Network) (t : Tour) (newNodes : List Nat) (s e : Nat) : R Dist := do
  let before ← dhBeforeNew nw t.nodes newNodes s
  let inner := sumDist ((pairs newNodes).map (fun p => nw.deadHeadDistanceBetween p.1 p.2))
  let after ← dhAfterNew nw t.nodes newNodes e
  pure (Dist.add (Dist.add before inner) after)

def subNat (a b : Nat) (site : String) : R Nat :=
  if b ≤ a then pure (a - b) else .error (.panic site)

/-- `Tour::replace_start_depot` -/
def replaceStartDepot (nw : Network) (t : Tour) (d : Nat) : R Tour := do
  if t.isDummy then .error (.err "cannot replace start depot of dummy tour") else
  if !(nw.node d).isStartDepot then .error (.err "node has to be start depot") else
  let old ← idxAt t.nodes 0
  let nodes := t.nodes.set 0 d
  let fnd ← idxAt nodes 1
  let dh ← if t.dhDist == .inf then pure (nw.dhDistOf nodes) else do
      let x ← Dist.sub t.dhDist (nw.deadHeadDistanceBetween old fnd)
      pure (Dist.add x (nw.deadHeadDistanceBetween d fnd))
  let c ← subNat t.costs (nw.secOrPlanning (nw.deadHeadTimeBetween old fnd) * nw.cDH) "costs underflow"
  pure { t with nodes, dhDist := dh,
                costs := c + nw.secOrPlanning (nw.deadHeadTimeBetween d fnd) * nw.cDH }

/-- `Tour::replace_end_depot` -/
def replaceEndDepot (nw : Network) (t : Tour) (d : Nat) : R Tour := do
  if t.isDummy then .error (.err "cannot replace end depot of dummy tour") else
  if !(nw.node d).isEndDepot then .error (.err "node has to be end depot") else
  if t.nodes.length == 0 then .error (.panic "usize underflow: nodes.len() - 1") else
  let ei := t.nodes.length - 1
  let old ← idxAt t.nodes ei
  let nodes := t.nodes.set ei d
  if ei == 0 then .error (.panic "usize underflow: end_index - 1") else
  let lnd ← idxAt nodes (ei - 1)
  let dh ← if t.dhDist == .inf then pure (nw.dhDistOf nodes) else do
      let x ← Dist.sub t.dhDist (nw.deadHeadDistanceBetween lnd old)
      pure (Dist.add x (nw.deadHeadDistanceBetween lnd d))
  let c ← subNat t.costs (nw.secOrPlanning (nw.deadHeadTimeBetween lnd old) * nw.cDH) "costs underflow"
  pure { t with nodes, dhDist := dh,
                costs := c + nw.secOrPlanning (nw.deadHeadTimeBetween lnd d) * nw.cDH }

/-- dead-head distance of the new link closing the gap `[s, e]` (zero when the gap touches an end) -/
def gapDist (nw : Network) (nodes : List Nat) (s e : Nat) : R Dist :=
  if s == 0 || e == nodes.length - 1 then pure Dist.zero else do
    let x ← idxAt nodes (s - 1); let y ← idxAt nodes (e + 1)
    pure (nw.deadHeadDistanceBetween x y)

def gapCost (nw : Network) (nodes : List Nat) (s e : Nat) : R Nat :=
  if s == 0 || e == nodes.length - 1 then pure 0 else do
    let x ← idxAt nodes (s - 1); let y ← idxAt nodes (e + 1)
    pure (nw.linkCost x y)

/-- `Tour::remove`: `(shrunk tour or none, removed path)` -/
def remove (nw : Network) (t : Tour) (a b : Nat) : R (Option Tour × List Nat) := do
  let s ← t.positionOf a
  let e ← t.positionOf b
  checkSeqRemovable nw t s e
  let removed ← slice t.nodes s (e + 1)
  let ud ← Dur.sub t.usefulDur (nw.usefulDurOf removed)
  let sd ← Dist.sub t.serviceDist (nw.serviceDistOf removed)
  let seg ← dhDistOfSegment nw t s (e + 1)
  let dh0 ← Dist.sub t.dhDist seg
  let gapD ← gapDist nw t.nodes s e
  let dh1 := Dist.add dh0 gapD
  let cseg ← costsOfSegment nw t s (e + 1)
  let c0 ← subNat t.costs cseg "costs underflow"
  let gapC ← gapCost nw t.nodes s e
  let tourNodes := t.nodes.take s ++ t.nodes.drop (e + 1)
  -- repaired code (finding F8): recompute when the cached value is Infinity
  let dh := if t.dhDist == .inf then nw.dhDistOf tourNodes else dh1
  let some path := pathTrusted nw removed
    | .error (.panic "tour/modifications.rs: empty path should be impossible.")
  if tourNodes.isEmpty || (!t.isDummy && tourNodes.length ≤ 2) then pure (none, path) else
  let vm := t.visitsMaint &&
    (!(removed.any (fun n => (nw.node n).isMaint)) || tourNodes.any (fun n => (nw.node n).isMaint))
  pure (some { nodes := tourNodes, isDummy := t.isDummy, visitsMaint := vm, usefulDur := ud,
               serviceDist := sd, dhDist := dh, costs := c0 + gapC }, path)

/-- the node-level part of `Tour::insert_path`: the path after dropping depots for dummy tours,
    the replaced range `[s, e)`, the replaced nodes and the new node list -/
structure InsertPlan where
  newNodes : List Nat
  s : Nat
  e : Nat
  old : List Nat
  tourNodes : List Nat
  deriving Repr, DecidableEq

/-- dummy tours drop a leading depot of the path (`drop_first().unwrap()`) -/
def stripFirst (nw : Network) (isDummy : Bool) (path : List Nat) : R (List Nat) :=
  if isDummy then
    match idxAt path 0 with
    | .error e => .error e
    | .ok f =>
      if (nw.node f).isDepot then
        match pathTrusted nw (path.drop 1) with
        | some p => .ok p
        | none => .error (.panic "insert_path: drop_first().unwrap()")
      else .ok path
  else .ok path

/-- dummy tours drop a trailing depot of the path (`drop_last().unwrap()`) -/
def stripLast (nw : Network) (isDummy : Bool) (p1 : List Nat) : R (List Nat) :=
  if isDummy then
    match idxAt p1 (p1.length - 1) with
    | .error e => .error e
    | .ok l =>
      if (nw.node l).isDepot then
        match pathTrusted nw (p1.take (p1.length - 1)) with
        | some p => .ok p
        | none => .error (.panic "insert_path: drop_last().unwrap()")
      else .ok p1
  else .ok p1

def insertPlan (nw : Network) (strict : Bool) (t : Tour) (path : List Nat) : R InsertPlan :=
  stripFirst nw t.isDummy path >>= fun p1 =>
  stripLast nw t.isDummy p1 >>= fun p2 =>
  idxAt p2 0 >>= fun first =>
  idxAt p2 (p2.length - 1) >>= fun last =>
  getInsertPositions nw strict t first last >>= fun se =>
  slice t.nodes se.1 se.2 >>= fun old =>
  pure { newNodes := p2, s := se.1, e := se.2, old, tourNodes := t.nodes.take se.1 ++ p2 ++ t.nodes.drop se.2 }

/-- the cache part of `Tour::insert_path` (delta updates; repaired, finding F8: the dead-head
    distance is recomputed when the cached value is Infinity) -/
def insertCaches (nw : Network) (t : Tour) (pl : InsertPlan) : R (Bool × Dur × Dist × Dist × Nat) := do
  let newNodes := pl.newNodes
  let hasMaint := newNodes.any (fun n => (nw.node n).isMaint)
  let ud0 ← Dur.sub t.usefulDur (nw.usefulDurOf pl.old)
  let ud := Dur.add ud0 (nw.usefulDurOf newNodes)
  let sd0 ← Dist.sub t.serviceDist (nw.serviceDistOf pl.old)
  let sd := Dist.add sd0 (nw.serviceDistOf newNodes)
  let segD ← dhDistOfSegment nw t pl.s pl.e
  let dh0 ← Dist.sub t.dhDist segD
  let newD ← dhDistOfNewNodes nw t newNodes pl.s pl.e
  let dh1 := Dist.add dh0 newD
  let segC ← costsOfSegment nw t pl.s pl.e
  let c0 ← subNat t.costs segC "costs underflow"
  let newC ← costsOfNewNodes nw t newNodes pl.s pl.e
  let dh := if t.dhDist == .inf then nw.dhDistOf pl.tourNodes else dh1
  let vm := hasMaint || (t.visitsMaint &&
    (!(pl.old.any (fun n => (nw.node n).isMaint)) || pl.tourNodes.any (fun n => (nw.node n).isMaint)))
  pure (vm, ud, sd, dh, c0 + newC)

/-- `Tour::insert_path`: `(new tour, removed path or none)` -/
def insertPath (nw : Network) (strict : Bool) (t : Tour) (path : List Nat) : R (Tour × Option (List Nat)) := do
  let pl ← insertPlan nw strict t path
  let c ← insertCaches nw t pl
  pure ({ nodes := pl.tourNodes, isDummy := t.isDummy, visitsMaint := c.1, usefulDur := c.2.1,
          serviceDist := c.2.2.1, dhDist := c.2.2.2.1, costs := c.2.2.2.2 }, pathTrusted nw pl.old)

/-- `preceding_overhead` -/
def precedingOverhead (nw : Network) (t : Tour) (node : Nat) : R Dur := do
  if node == (← t.firstNode) then pure .inf else
  let pos ← t.positionOf node
  if pos == 0 then .error (.panic "usize underflow: pos - 1") else
  let pred ← idxAt t.nodes (pos - 1)
  ExtTime.diff (nw.node node).startT (nw.node pred).endT

/-- `subsequent_overhead` -/
def subsequentOverhead (nw : Network) (t : Tour) (node : Nat) : R Dur := do
  if node == (← t.lastNode) then pure .inf else
  let pos ← t.positionOf node
  match t.nodes[pos + 1]? with
  | none => .error (.err "invalid position")
  | some succ => ExtTime.diff (nw.node succ).startT (nw.node node).endT

end Tour
end RSSched
