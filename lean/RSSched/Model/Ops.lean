/-
Model/Ops: the public modifications as one `applyOp` over the operation type of Spec/Frame.lean,
and canonical forms for comparing a model state with a dumped implementation state (hash maps have
no order).
-/
import RSSched.Model.Schedule
import RSSched.Spec.Frame
namespace RSSched
open Spec

def sortByKey {α} (key : α → Nat) (l : List α) : List α := l.mergeSort (fun a b => key a ≤ key b)
def vehKey (v : Veh) : Nat := (if v.dummy then 1000000 else 0) + v.idx

def Transition.canon (t : Transition) : Transition := { t with lookup := Transition.sortLookup t.lookup }

/-- canonical form: every association list sorted by its key, sets sorted -/
def Schedule.canon (s : Schedule) : Schedule :=
  { s with
    vehicles := sortByKey (fun p => vehKey p.1) s.vehicles
    tours := sortByKey (fun p => vehKey p.1) s.tours
    transitions := (sortByKey (·.1) s.transitions).map (fun p => (p.1, p.2.canon))
    formations := sortByKey (·.1) s.formations
    depotUsage := (sortByKey (fun p => p.1.1 * 100000 + p.1.2) s.depotUsage).map
      (fun p => (p.1, (sortByKey vehKey p.2.1, sortByKey vehKey p.2.2)))
    dummyTours := sortByKey (fun p => vehKey p.1) s.dummyTours
    idsByType := sortByKey (·.1) s.idsByType }

/-- the names of the fields in which two canonical states differ -/
def Schedule.diffFields (a b : Schedule) : List String :=
  let a := a.canon
  let b := b.canon
  (if a.vehicles != b.vehicles then ["vehicles"] else []) ++
  (if a.tours != b.tours then ["tours"] else []) ++
  (if a.transitions != b.transitions then ["transitions"] else []) ++
  (if a.formations != b.formations then ["formations"] else []) ++
  (if a.depotUsage != b.depotUsage then ["depot_usage"] else []) ++
  (if a.dummyTours != b.dummyTours then ["dummy_tours"] else []) ++
  (if a.counter != b.counter then ["vehicle_counter"] else []) ++
  (if a.idsByType != b.idsByType then ["vehicle_ids_grouped_and_sorted"] else []) ++
  (if a.dummyIds != b.dummyIds then ["dummy_ids_sorted"] else []) ++
  (if a.unserved != b.unserved then ["unserved_passengers"] else []) ++
  (if a.violation != b.violation then ["maintenance_violation"] else []) ++
  (if a.costs != b.costs then ["costs"] else [])

structure OpResult where
  sched : Schedule
  retPath : Option (List Nat) := none
  retDummy : Option Veh := none
  retVeh : Option Veh := none

/-- the public modification named by `op` -/
def applyOp (nw : Network) (s : Schedule) (op : SOp) : R OpResult :=
  match op with
  | .init => pure { sched := Schedule.empty nw }
  | .spawn vt path => do
    let (s', v) ← Schedule.spawnVehicleForPath nw s vt path
    pure { sched := s', retVeh := some v }
  | .dummySpawn d vt => do
    let (s', v) ← Schedule.spawnToReplaceDummy nw s d vt
    pure { sched := s', retVeh := some v }
  | .delete v => do pure { sched := ← Schedule.replaceVehicleByDummy nw s v }
  | .addPath v path => do
    -- the harness builds the path with `Path::new`: refused unless it is a chain with an activity
    match Tour.pathNew nw path with
    | .ok (some p) =>
      let (s', rm) ← Schedule.addPathToVehicleTour nw s v p
      pure { sched := s', retPath := rm }
    | _ => .error (.err "badpath")
  | .rmSeg v a b => do pure { sched := ← Schedule.removeSegment nw s v a b }
  | .fit p r a b => do pure { sched := ← Schedule.fitReassign nw s p r a b }
  | .override p r a b => do
    let (s', d) ← Schedule.overrideReassign nw s p r a b
    pure { sched := s', retDummy := d }
  | .improve vs => do pure { sched := ← Schedule.improveDepots nw s vs }
  | .endGreedy => do pure { sched := ← Schedule.reassignEndDepotsGreedily nw s }
  | .recompute vts => do pure { sched := ← Schedule.recomputeTransitionsFor nw s vts }
  | .endConsistent => do pure { sched := ← Schedule.reassignEndDepotsConsistent nw s }
  | .setTrans vt v ci => do
    let tr ← unwrapO (assocGet? s.transitions vt) "next_day_transition_of(vt)"
    let moved ← Transition.moveVehicle nw false tr v ci s.tours
    pure { sched := Schedule.setNextDayTransitions s (assocSet s.transitions vt moved) }

end RSSched
