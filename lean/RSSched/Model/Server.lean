/-
Model/Server: the HTTP service of server/src/main.rs as a stateless request/response system.
Requests: `health`, `solve body`. The answer is a function of the request alone; the server state
is only the multiset of requests in flight. A handler panic closes the connection of that request.
-/
namespace RSSched.Server

inductive Req (B : Type) where
  | health
  | solve (body : B)
  deriving Repr, DecidableEq

inductive Resp (O : Type) where
  | ok200 (text : String)          -- "Healthy"
  | solution (out : O)             -- 200 with the JSON of the solution
  | clientError                    -- the JSON extractor rejects the body (4xx)
  | closed                         -- the handler panicked: connection closed, no response
  deriving Repr, DecidableEq

/-- what parsing + solving gives for a body: malformed, semantically invalid (handler panics), or
    a solution -/
inductive Outcome (O : Type) where
  | malformed
  | invalid
  | solved (out : O)

def respond {B O} (solve : B → Outcome O) : Req B → Resp O
  | .health => .ok200 "Healthy"
  | .solve b =>
    match solve b with
    | .malformed => .clientError
    | .invalid => .closed
    | .solved o => .solution o

/-- events of the server: a request arrives (gets an id), an in-flight request completes -/
inductive Event (B : Type) where
  | arrive (id : Nat) (r : Req B)
  | complete (id : Nat)

structure State (B O : Type) where
  inflight : List (Nat × Req B) := []
  answered : List (Nat × Req B × Resp O) := []

def step {B O} (solve : B → Outcome O) (s : State B O) : Event B → State B O
  | .arrive id r => { s with inflight := (id, r) :: s.inflight }
  | .complete id =>
    match s.inflight.find? (·.1 == id) with
    | none => s
    | some (_, r) =>
      { inflight := s.inflight.filter (·.1 != id),
        answered := (id, r, respond solve r) :: s.answered }

def run {B O} (solve : B → Outcome O) (evs : List (Event B)) : State B O :=
  evs.foldl (step solve) {}

end RSSched.Server
