/-
Model/Schedule: solution/src/schedule.rs (constructors, depot capacity checks) and
solution/src/schedule/modifications.rs — every public modification and the private helpers they
call, function by function, with the `Result::Err`s and the panics (`unwrap`, `expect`, index,
unsigned subtraction) of the Rust code as explicit faults. `self` is the schedule before the call.
-/
import RSSched.Model.ScheduleBase
import RSSched.Model.Formation
namespace RSSched
open Network

abbrev DepotUsage := List ((Nat × Nat) × (List Veh × List Veh))

namespace Schedule

def vehInsert (l : List Veh) (v : Veh) : List Veh :=
  if l.contains v then l else insertSorted Veh.lt v l

def usageGet (u : DepotUsage) (d vt : Nat) : List Veh × List Veh := (assocGet? u (d, vt)).getD ([], [])

def spawnedCount (u : DepotUsage) (d vt : Nat) : Nat := (usageGet u d vt).1.length

def spawnedTotal (nw : Network) (u : DepotUsage) (d : Nat) : Nat :=
  sumNat (nw.typeIdxs.map (fun vt => spawnedCount u d vt))

/-- `can_depot_spawn_vehicle_custom_usage` -/
def canDepotSpawn (nw : Network) (u : DepotUsage) (startDepotNode vt : Nat) : Bool :=
  let d := nw.depotIdxOf startDepotNode
  let cap := nw.capacityOf d vt
  if cap == 0 then false
  else if spawnedCount u d vt ≥ cap then false
  else if spawnedTotal nw u d ≥ nw.totalCapacityOf d then false
  else true

/-- `find_best_start_depot_for_spawning` -/
def findBestStartDepot (nw : Network) (u : DepotUsage) (vt firstNode : Nat) : R Nat :=
  match (nw.startDepotsSortedByDistanceTo (nw.node firstNode).startLoc).find? (fun d => canDepotSpawn nw u d vt) with
  | some d => pure d
  | none => .error (.panic "There should be at least the overflow depot available.")

/-- `find_best_end_depot_for_despawning` -/
def findBestEndDepot (nw : Network) (lastNode : Nat) : R Nat :=
  match (nw.endDepotsSortedByDistanceFrom (nw.node lastNode).endLoc).head? with
  | some d => pure d
  | none => .error (.err "No end_depot available.")

/-- `add_suitable_start_and_end_depot_to_path` (repaired, finding F15) -/
def addSuitableDepots (nw : Network) (s : Schedule) (vt : Nat) (nodes : List Nat) : R (List Nat) := do
  let first ← unwrapO nodes.head? "nodes.first().unwrap()"
  let last ← unwrapO nodes.getLast? "nodes.last().unwrap()"
  if (nw.node first).isDepot && !(canDepotSpawn nw s.depotUsage first vt) then
    let ovf := nw.overflowDepot
    let n1 := nodes.set 0 (nw.startDepotNodeOf ovf)
    if (nw.node last).isDepot then pure (n1.set (n1.length - 1) (nw.endDepotNodeOf ovf))
    else pure (n1 ++ [nw.endDepotNodeOf ovf])
  else
  let n1 ← if !(nw.node first).isDepot then do
      let d ← findBestStartDepot nw s.depotUsage vt first
      pure (d :: nodes)
    else pure nodes
  if !(nw.node last).isDepot then do
    let d ← findBestEndDepot nw last
    pure (n1 ++ [d])
  else pure n1

/-- type of a vehicle, looked up first in the new vehicle map then in the old one -/
def typeIn (vehicles : List (Veh × Nat)) (s : Schedule) (v : Veh) : Option Nat :=
  match assocGet? vehicles v with
  | some t => some t
  | none => s.typeOf? v

def unservedOf (nw : Network) (typeOf : Veh → Option Nat) (node : Nat) (f : List Veh) : Nat × Nat :=
  Schedule.unservedAt nw node (f.filterMap typeOf)

/-- `vehicle_replacement_in_train_formation` -/
def vehicleReplacement (nw : Network) (s : Schedule) (forms : List (Nat × List Veh))
    (provider receiver : Option Veh) (node : Nat) : R (List Veh) := do
  let old ← unwrapO (assocGet? forms node) "Node has no train formations."
  match receiver with
  | some r =>
    if !(s.isDummy r) then
      match provider with
      | some p =>
        if !(s.isDummy p) then Formation.replace old p r
        else addChecked old r
      | none => addChecked old r
    else removeOnly old
  | none => removeOnly old
where
  addChecked (old : List Veh) (r : Veh) : R (List Veh) :=
    if (nw.node node).isMaint && old.length ≥ (nw.node node).tracks then
      .error (.err "Maintenance slot is already full.")
    else if (nw.node node).isService &&
        (match nw.maxFormationFor node with | some l => old.length ≥ l | none => false) then
      .error (.err "Formation is full.")
    else pure (Formation.addAtTail old r)
  removeOnly (old : List Veh) : R (List Veh) :=
    match provider with
    | some p => if !(s.isDummy p) then Formation.remove old p else pure old
    | none => pure old

/-- `update_train_formation` -/
def updateTrainFormation (nw : Network) (s : Schedule) (typeOf : Veh → Option Nat)
    (forms : List (Nat × List Veh)) (unserved : Nat × Nat)
    (provider receiver : Option Veh) : List Nat → R (List (Nat × List Veh) × (Nat × Nat))
  | [] => pure (forms, unserved)
  | node :: rest =>
    if (nw.node node).isDepot then updateTrainFormation nw s typeOf forms unserved provider receiver rest else do
    let isSvc := (nw.node node).isService
    let u1 ← if isSvc then do
        let old ← unwrapO (assocGet? forms node) "train_formations.get(node).unwrap()"
        let b := unservedOf nw typeOf node old
        let a ← Tour.subNat unserved.1 b.1 "unserved_passengers underflow"
        let c ← Tour.subNat unserved.2 b.2 "unserved_passengers underflow"
        pure (a, c)
      else pure unserved
    let f' ← vehicleReplacement nw s forms provider receiver node
    let forms' := assocSet forms node f'
    let u2 := if isSvc then
        let a := unservedOf nw typeOf node f'
        (u1.1 + a.1, u1.2 + a.2)
      else u1
    updateTrainFormation nw s typeOf forms' u2 provider receiver rest

def usageModify (u : DepotUsage) (d vt : Nat) (f : List Veh × List Veh → List Veh × List Veh) : DepotUsage :=
  assocSet u (d, vt) (f (usageGet u d vt))

/-- `update_depot_usage_for_new_start_depot` / `…_end_depot` (`isStart` selects the set) -/
def updateUsageSide (nw : Network) (s : Schedule) (u : DepotUsage) (v : Veh) (vt : Nat)
    (isStart : Bool) (newDepotNode : Option Nat) : R DepotUsage := do
  let u1 ← if s.isVehicle v then do
      let t ← unwrapO (s.tourOf? v) "tour_of(vehicle).unwrap()"
      let dn ← if isStart then Transition.startDepotU nw t else Transition.endDepotU nw t
      let d := nw.depotIdxOf dn
      let cur := usageGet u d vt
      let set := if isStart then cur.1 else cur.2
      if !(set.contains v) then .error (.panic "depot_usage: remove(&vehicle_id).unwrap()") else
      pure (usageModify u d vt (fun p => if isStart then (p.1.filter (· != v), p.2) else (p.1, p.2.filter (· != v))))
    else pure u
  match newDepotNode with
  | some dn =>
    let d := nw.depotIdxOf dn
    pure (usageModify u1 d vt (fun p => if isStart then (vehInsert p.1 v, p.2) else (p.1, vehInsert p.2 v)))
  | none => pure u1

/-- `update_depot_usage` -/
def updateDepotUsage (nw : Network) (s : Schedule) (u : DepotUsage) (vehicles : List (Veh × Nat))
    (tours : Tours) (v : Veh) : R DepotUsage :=
  let go (vt : Nat) (newTour : Option Tour) : R DepotUsage := do
    let ns ← match newTour with
      | some t => do let d ← Transition.startDepotU nw t; pure (some d)
      | none => pure none
    let ne ← match newTour with
      | some t => do let d ← Transition.endDepotU nw t; pure (some d)
      | none => pure none
    let u1 ← updateUsageSide nw s u v vt true ns
    updateUsageSide nw s u1 v vt false ne
  match assocGet? vehicles v with
  | some vt => go vt (assocGet? tours v)
  | none =>
    match s.typeOf? v with
    | some vt => go vt none
    | none => pure u

/-- `update_transitions_and_violation_fast` -/
def updateTransitionsFast (nw : Network) (s : Schedule) (vehicles : List (Veh × Nat)) (tours : Tours) :
    List Veh → Tours → List (Nat × Transition) → Int → R (List (Nat × Transition) × Int)
  | [], _, trans, viol => pure (trans, viol)
  | v :: rest, updated, trans, viol =>
    if v.dummy then updateTransitionsFast nw s vehicles tours rest updated trans viol else do
    let vt ← unwrapO (typeIn vehicles s v) "vehicles.get(vehicle).unwrap()"
    let old ← unwrapO (assocGet? trans vt) "transitions.get(&vehicle_type).unwrap()"
    let inNew := (assocGet? vehicles v).isSome
    let (new, updated') ← match s.isVehicle v, inNew with
      | true, true => do
        let nt ← unwrapO (assocGet? tours v) "tours.get(vehicle).unwrap()"
        let tr ← Transition.updateVehicle nw old v nt updated s.tours
        pure (tr, assocSet updated v nt)
      | false, true => do
        let nt ← unwrapO (assocGet? tours v) "tours.get(vehicle).unwrap()"
        let tr ← Transition.addVehicleToOwnCycle nw old v nt
        pure (tr, assocSet updated v nt)
      | true, false => do
        let tr ← Transition.removeVehicle nw old v updated s.tours
        pure (tr, updated)
      | false, false => .error (.panic "unreachable!()")
    updateTransitionsFast nw s vehicles tours rest updated' (assocSet trans vt new)
      ((viol + new.totalViolation) - old.totalViolation)

/-- `recompute_transitions_and_violation_fast` -/
def recomputeTransitions (nw : Network) (idsByType : List (Nat × List Veh)) (tours : Tours) :
    List Nat → List (Nat × Transition) → Int → R (List (Nat × Transition) × Int)
  | [], trans, viol => pure (trans, viol)
  | vt :: rest, trans, viol => do
    let ids ← unwrapO (assocGet? idsByType vt) "vehicle_ids_grouped_by_type.get(vehicle_type).unwrap()"
    let new ← Transition.newFast nw ids tours
    let old ← unwrapO (assocGet? trans vt) "Each vehicle type must be a key in transitions."
    recomputeTransitions nw idsByType tours rest (assocSet trans vt new) (viol + new.totalViolation - old.totalViolation)

def idsInsert (ids : List (Nat × List Veh)) (vt : Nat) (v : Veh) : R (List (Nat × List Veh)) := do
  let l ← unwrapO (assocGet? ids vt) "vehicle_ids_grouped_and_sorted[&vehicle_type]"
  pure (assocSet ids vt (insertSorted Veh.lt v l))

def idsRemove (ids : List (Nat × List Veh)) (vt : Nat) (v : Veh) : R (List (Nat × List Veh)) := do
  let l ← unwrapO (assocGet? ids vt) "vehicle_ids_grouped_and_sorted[&vehicle_type]"
  if !(l.contains v) then .error (.panic "binary_search(&vehicle_idx).unwrap()") else
  pure (assocSet ids vt (l.filter (· != v)))

/-- `Schedule::empty` -/
def empty (nw : Network) : Schedule :=
  let forms := nw.coverableNodes.map (fun n => (n, ([] : List Veh)))
  let un := nw.allServiceNodes.map (fun n => Schedule.unservedAt nw n [])
  { vehicles := [], tours := []
    transitions := nw.typeIdxs.map (fun vt => (vt, { cycles := [], totalViolation := 0, totalCounter := 0, lookup := [], empty := [] }))
    formations := forms, depotUsage := [], dummyTours := [], counter := 0
    idsByType := nw.typeIdxs.map (fun vt => (vt, []))
    dummyIds := []
    unserved := (sumNat (un.map (·.1)), sumNat (un.map (·.2)))
    violation := 0
    costs := nw.numberOfServiceNodes * nw.cStaff }

/-- `spawn_vehicle_for_path` -/
def spawnVehicleForPath (nw : Network) (s : Schedule) (vt : Nat) (path : List Nat) : R (Schedule × Veh) := do
  if path.any (fun n => !(nw.compatibleWithType n vt)) then .error (.err "Nodes are not compatible with vehicle type.") else
  let nodes ← addSuitableDepots nw s vt path
  let v := Veh.real s.counter
  let tour ← Tour.new nw nodes
  let vehicles := assocSet s.vehicles v vt
  let ids ← idsInsert s.idsByType vt v
  let (forms, unserved) ← updateTrainFormation nw s (typeIn vehicles s) s.formations s.unserved none (some v) tour.nodes
  let costs := s.costs + tour.costs
  let tours := assocSet s.tours v tour
  let usage ← updateDepotUsage nw s s.depotUsage vehicles tours v
  let (trans, viol) ← updateTransitionsFast nw s vehicles tours [v] [] s.transitions s.violation
  pure ({ s with vehicles, tours, transitions := trans, formations := forms, depotUsage := usage,
                 counter := s.counter + 1, idsByType := ids, unserved, violation := viol, costs }, v)

/-- `delete_dummy` -/
def deleteDummy (s : Schedule) (d : Veh) : R Schedule :=
  if !(s.isDummy d) then .error (.err "It is not a dummy vehicle.") else
  if !(s.dummyIds.contains d) then .error (.panic "dummy_ids_sorted.binary_search(&dummy).unwrap()") else
  pure { s with dummyTours := assocErase s.dummyTours d, dummyIds := s.dummyIds.filter (· != d) }

/-- `spawn_vehicle_to_replace_dummy_tour` -/
def spawnToReplaceDummy (nw : Network) (s : Schedule) (d : Veh) (vt : Nat) : R (Schedule × Veh) := do
  let t ← match assocGet? s.dummyTours d with
    | some t => pure t
    | none => .error (.err "Dummy tour does not exist.")
  if t.nodes.any (fun n => !(nw.compatibleWithType n vt)) then .error (.err "Nodes are not compatible with vehicle type.") else
  let s1 ← deleteDummy s d
  spawnVehicleForPath nw s1 vt t.nodes

def addDummyTour (dummyTours : Tours) (dummyIds : List Veh) (d : Veh) (t : Tour) : Tours × List Veh :=
  (assocSet dummyTours d t, if dummyIds.contains d then dummyIds else insertSorted Veh.lt d dummyIds)

/-- `replace_vehicle_by_dummy` -/
def replaceVehicleByDummy (nw : Network) (s : Schedule) (v : Veh) : R Schedule := do
  if !(s.isVehicle v) then .error (.err "Cannot delete vehicle from schedule.") else
  let vt ← match s.typeOf? v with | some t => pure t | none => .error (.err "not a vehicle")
  let vehicles := assocErase s.vehicles v
  let ids ← idsRemove s.idsByType vt v
  let tour ← unwrapO (assocGet? s.tours v) "tours.get(&vehicle_idx).unwrap()"
  let (forms, unserved) ← updateTrainFormation nw s (typeIn vehicles s) s.formations s.unserved (some v) none tour.nodes
  let tours := assocErase s.tours v
  let usage ← updateDepotUsage nw s s.depotUsage vehicles tours v
  let costs ← Tour.subNat s.costs tour.costs "costs underflow"
  let f ← tour.firstNode
  let l ← tour.lastNode
  let sub ← match Tour.subPath nw tour f l with
    | .ok p => pure p
    | .error (.err m) => .error (.err m)
    | .error e => .error e
  let (dummyTours, dummyIds, counter) := match Tour.newDummy nw sub with
    | .ok dt =>
      let (a, b) := addDummyTour s.dummyTours s.dummyIds (Veh.dum s.counter) dt
      (a, b, s.counter + 1)
    | .error _ => (s.dummyTours, s.dummyIds, s.counter)
  let (trans, viol) ← updateTransitionsFast nw s vehicles tours [v] [] s.transitions s.violation
  pure { s with vehicles, tours, transitions := trans, formations := forms, depotUsage := usage,
                dummyTours, counter, idsByType := ids, dummyIds, unserved, violation := viol, costs }

/-- `add_path_to_vehicle_tour` (real receivers; a dummy receiver hits `vehicles.get(..).unwrap()`) -/
def addPathToVehicleTour (nw : Network) (s : Schedule) (v : Veh) (path : List Nat) : R (Schedule × Option (List Nat)) := do
  match s.typeOf? v with
  | some vt => if path.any (fun n => !(nw.compatibleWithType n vt)) then
      (.error (.err "Nodes are not compatible with vehicle type.") : R Unit) else pure ()
  | none => pure ()
  let first ← idxAt path 0
  if (nw.node first).isDepot then do
    let t ← unwrapO (s.tourOf? v) "tour_of(vehicle_idx).unwrap()"
    let oldStart ← Transition.startDepotU nw t
    if first != oldStart then
      let vt ← unwrapO (s.typeOf? v) "Vehicle must be real, as it starts with a depot"
      if !(canDepotSpawn nw s.depotUsage first vt) then
        (.error (.err "New start depot has no capacity available.") : R Unit) else pure ()
    else pure ()
  else pure ()
  if !(s.isVehicle v) then .error (.panic "self.vehicles.get(&vehicle_idx).cloned().unwrap()") else
  let (forms1, un1) ← updateTrainFormation nw s (typeIn s.vehicles s) s.formations s.unserved none (some v) path
  let old ← unwrapO (assocGet? s.tours v) "tours.get(&vehicle_idx).unwrap()"
  let (newTour, removed) ← Tour.insertPath nw true old path
  let (forms, unserved) ← match removed with
    | some rp => updateTrainFormation nw s (typeIn s.vehicles s) forms1 un1 (some v) none rp
    | none => pure (forms1, un1)
  let costs ← Tour.subNat (s.costs + newTour.costs) old.costs "costs underflow"
  let tours := assocSet s.tours v newTour
  let usage ← updateDepotUsage nw s s.depotUsage s.vehicles tours v
  let (trans, viol) ← updateTransitionsFast nw s s.vehicles tours [v] [] s.transitions s.violation
  pure ({ s with tours, transitions := trans, formations := forms, depotUsage := usage, unserved, violation := viol, costs }, removed)

/-- `update_tour_and_costs` -/
def updateTourAndCosts (s : Schedule) (tours dummyTours : Tours) (costs : Nat) (v : Veh) (t : Tour) :
    R (Tours × Tours × Nat) :=
  if s.isDummy v then pure (tours, assocSet dummyTours v t, costs) else do
    let old ← unwrapO (assocGet? tours v) "tours.get(&vehicle).unwrap()"
    let c ← Tour.subNat (costs + t.costs) old.costs "costs underflow"
    pure (assocSet tours v t, dummyTours, c)

/-- `remove_segment` -/
def removeSegment (nw : Network) (s : Schedule) (v : Veh) (a b : Nat) : R Schedule := do
  if !(s.isVehicle v) then .error (.err "Vehicle is not a real vehicle.") else
  let tour ← unwrapO (s.tourOf? v) "tour_of(vehicle_idx).unwrap()"
  let (shrunk, removed) ← Tour.remove nw tour a b
  match shrunk with
  | none => replaceVehicleByDummy nw s v
  | some newTour => do
    let (forms, unserved) ← updateTrainFormation nw s (typeIn s.vehicles s) s.formations s.unserved (some v) none removed
    let (tours, dummy0, costs) ← updateTourAndCosts s s.tours s.dummyTours s.costs v newTour
    let usage ← updateDepotUsage nw s s.depotUsage s.vehicles tours v
    let (dummyTours, dummyIds, counter) := match Tour.newDummy nw removed with
      | .ok dt =>
        let (x, y) := addDummyTour dummy0 s.dummyIds (Veh.dum s.counter) dt
        (x, y, s.counter + 1)
      | .error _ => (dummy0, s.dummyIds, s.counter)
    let (trans, viol) ← updateTransitionsFast nw s s.vehicles tours [v] [] s.transitions s.violation
    pure { s with tours, transitions := trans, formations := forms, depotUsage := usage, dummyTours,
                  counter, dummyIds, unserved, violation := viol, costs }

/-- `check_receiver_type_compatibility` (repaired, finding F10) -/
def checkReceiverTypeCompat (nw : Network) (s : Schedule) (p r : Veh) (a b : Nat) : R Bool := do
  match s.typeOf? r with
  | none => pure true
  | some rvt =>
    if s.typeOf? p == some rvt then pure true else do
    let pt ← unwrapO (s.tourOf? p) "tour_of(provider).unwrap()"
    let path ← match Tour.subPath nw pt a b with
      | .ok x => pure x
      | .error (.err _) => .error (.panic "sub_path(segment).unwrap()")
      | .error e => .error e
    if path.any (fun n => !(nw.compatibleWithType n rvt)) then pure false else
    let first ← idxAt path 0
    if (nw.node first).isStartDepot then do
      let rt ← unwrapO (s.tourOf? r) "tour_of(receiver).unwrap()"
      let same := match rt.startDepot nw with | .ok d => d == first | .error _ => false
      if !same then
        let d := nw.depotIdxOf first
        if spawnedCount s.depotUsage d rvt ≥ nw.capacityOf d rvt then pure false else pure true
      else pure true
    else pure true

structure Work where
  vehicles : List (Veh × Nat)
  tours : Tours
  forms : List (Nat × List Veh)
  usage : DepotUsage
  dummyTours : Tours
  ids : List (Nat × List Veh)
  dummyIds : List Veh
  unserved : Nat × Nat
  costs : Nat

def Work.ofSchedule (s : Schedule) : Work :=
  { vehicles := s.vehicles, tours := s.tours, forms := s.formations, usage := s.depotUsage,
    dummyTours := s.dummyTours, ids := s.idsByType, dummyIds := s.dummyIds, unserved := s.unserved, costs := s.costs }

/-- `update_tours` -/
def updateTours (nw : Network) (s : Schedule) (w : Work) (provider : Option Veh) (newProv : Option Tour)
    (receiver : Veh) (newRecv : Tour) (moved : List Nat) : R Work := do
  let w1 ← match provider with
    | none => pure w
    | some p => do
      let w' ← match newProv with
        | some t => do
          let (tours, dummyTours, costs) ← updateTourAndCosts s w.tours w.dummyTours w.costs p t
          pure { w with tours, dummyTours, costs }
        | none => do
          let costs ← if s.isVehicle p then do
              let t ← unwrapO (s.tourOf? p) "tour_of(provider_id).unwrap()"
              Tour.subNat w.costs t.costs "costs underflow"
            else pure w.costs
          if s.isDummy p then
            if !(w.dummyIds.contains p) then .error (.panic "dummy_ids_sorted.binary_search(&provider_id).unwrap()") else
            pure { w with costs, dummyTours := assocErase w.dummyTours p, dummyIds := w.dummyIds.filter (· != p) }
          else if s.isVehicle p then do
            let pvt ← unwrapO (s.typeOf? p) "vehicle_type_of(provider_id).unwrap()"
            let ids ← idsRemove w.ids pvt p
            pure { w with costs, vehicles := assocErase w.vehicles p, tours := assocErase w.tours p, ids }
          else pure { w with costs }
      let usage ← updateDepotUsage nw s w'.usage w'.vehicles w'.tours p
      pure { w' with usage }
  let (tours, dummyTours, costs) ← updateTourAndCosts s w1.tours w1.dummyTours w1.costs receiver newRecv
  let usage ← updateDepotUsage nw s w1.usage w1.vehicles tours receiver
  let recvVeh := if s.isVehicle receiver then some receiver else none
  let (forms, unserved) ← updateTrainFormation nw s (typeIn w1.vehicles s) w1.forms w1.unserved provider recvVeh moved
  pure { w1 with tours, dummyTours, costs, usage, forms, unserved }

/-- one round of the `while let Some(path) = remaining_path` loop of `fit_path_into_tour` -/
def fitLoop (nw : Network) (checkPath : Bool) : Nat → Option Tour → Tour → Option (List Nat) → List Nat → R (Option Tour × Tour × List Nat)
  | 0, prov, recv, _, moved => pure (prov, recv, moved)
  | fuel + 1, prov, recv, remaining, moved =>
    match remaining with
    | none => pure (prov, recv, moved)
    | some path => do
      let start ← idxAt path 0
      let (endPos, segEnd) ← match ← Tour.latestNotReachingNode nw true recv start with
        | none => do
          let l ← idxAt path (path.length - 1)
          pure (path.length - 1, l)
        | some pos => do
          let blocker ← unwrapO recv.nodes[pos]? "nth_node(pos).unwrap()"
          let cand := ((List.range path.length).zip path).takeWhile
            (fun (_, n) => !(ExtTime.lt (nw.node blocker).startT (nw.node n).endT))
          let p ← unwrapO prov "new_tour_provider.as_ref().unwrap()"
          let ok := cand.filter (fun (_, n) => nw.canReach n blocker &&
            (match Tour.checkRemovable nw p start n with | .ok _ => true | .error _ => false))
          pure (ok.getLast?.getD (0, start))
      let nodeSeq := path.take (endPos + 1)
      let rest := Tour.pathTrusted nw (path.drop (endPos + 1))
      let p ← unwrapO prov "new_tour_provider.as_ref().unwrap()"
      match Tour.remove nw p start segEnd with
      | .error (.err _) => fitLoop nw checkPath fuel prov recv rest moved
      | .error e => .error e
      | .ok (provCand, pathIns) =>
        -- (repaired, finding F18) a part of a dummy tour goes to a real vehicle only if it is a valid path
        if checkPath && !(Tour.isChain nw pathIns) then fitLoop nw checkPath fuel prov recv rest moved else do
        match ← Tour.conflict nw true recv start segEnd with
        | some _ => fitLoop nw checkPath fuel prov recv rest moved
        | none => do
          let (recv', _) ← Tour.insertPath nw true recv pathIns
          fitLoop nw checkPath fuel provCand recv' rest (moved ++ nodeSeq)

/-- `fit_reassign` -/
def fitReassign (nw : Network) (s : Schedule) (p r : Veh) (a b : Nat) : R Schedule := do
  if !(← checkReceiverTypeCompat nw s p r a b) then .error (.err "Vehicle types do not match.") else
  let pt ← unwrapO (s.tourOf? p) "tour_of(provider).unwrap()"
  let rt ← unwrapO (s.tourOf? r) "tour_of(receiver).unwrap()"
  let path ← Tour.subPath nw pt a b
  let (newProv, newRecv, moved) ← fitLoop nw (s.isDummy p && s.isVehicle r) (path.length + 1) (some pt) rt (some path) []
  let w ← updateTours nw s (Work.ofSchedule s) (some p) newProv r newRecv moved
  let (trans, viol) ← updateTransitionsFast nw s w.vehicles w.tours [p, r] [] s.transitions s.violation
  pure { s with vehicles := w.vehicles, tours := w.tours, transitions := trans, formations := w.forms,
                depotUsage := w.usage, dummyTours := w.dummyTours, idsByType := w.ids, dummyIds := w.dummyIds,
                unserved := w.unserved, violation := viol, costs := w.costs }

/-- `override_reassign` -/
def overrideReassign (nw : Network) (s : Schedule) (p r : Veh) (a b : Nat) : R (Schedule × Option Veh) := do
  if !(← checkReceiverTypeCompat nw s p r a b) then .error (.err "Vehicle types do not match.") else
  let pt ← unwrapO (s.tourOf? p) "tour_of(provider).unwrap()"
  let rt ← unwrapO (s.tourOf? r) "tour_of(receiver).unwrap()"
  let (shrunk, path) ← Tour.remove nw pt a b
  -- (repaired, finding F18) a slice of a dummy tour goes to a real vehicle only if it is a valid path
  if s.isDummy p && s.isVehicle r && !(Tour.isChain nw path) then .error (.err "Not a valid Path") else
  let (newRecv, replaced) ← Tour.insertPath nw true rt path
  let w ← updateTours nw s (Work.ofSchedule s) (some p) shrunk r newRecv path
  let (w2, counter, newDummy) ← match replaced with
    | none => pure (w, s.counter, (none : Option Veh))
    | some np => do
      let (forms, unserved) ← if s.isVehicle r then
          updateTrainFormation nw s (typeIn w.vehicles s) w.forms w.unserved (some r) none np
        else pure (w.forms, w.unserved)
      match Tour.newDummy nw np with
      | .ok dt =>
        let d := Veh.dum s.counter
        let (x, y) := addDummyTour w.dummyTours w.dummyIds d dt
        pure ({ w with forms, unserved, dummyTours := x, dummyIds := y }, s.counter + 1, some d)
      | .error _ => pure ({ w with forms, unserved }, s.counter, none)
  let (trans, viol) ← updateTransitionsFast nw s w2.vehicles w2.tours [p, r] [] s.transitions s.violation
  pure ({ s with vehicles := w2.vehicles, tours := w2.tours, transitions := trans, formations := w2.forms,
                 depotUsage := w2.usage, dummyTours := w2.dummyTours, counter, idsByType := w2.ids,
                 dummyIds := w2.dummyIds, unserved := w2.unserved, violation := viol, costs := w2.costs }, newDummy)

/-- `improve_depots_of_tour` -/
def improveDepotsOfTour (nw : Network) (t : Tour) (vt : Nat) (u : DepotUsage) : R Tour := do
  let fnd ← unwrapO t.firstNonDepot "first_non_depot().unwrap()"
  let ns ← findBestStartDepot nw u vt fnd
  let cur ← Transition.startDepotU nw t
  let t1 ← if ns != cur then unwrapR (t.replaceStartDepot nw ns) "replace_start_depot(..).unwrap()" else pure t
  let lnd ← unwrapO (t1.lastNonDepot nw) "last_non_depot().unwrap()"
  let ne ← unwrapR (findBestEndDepot nw lnd) "find_best_end_depot_for_despawning(..).unwrap()"
  let curE ← Transition.endDepotU nw t1
  if ne != curE then unwrapR (t1.replaceEndDepot nw ne) "replace_end_depot(..).unwrap()" else pure t1

/-- `improve_depots` -/
def improveDepots (nw : Network) (s : Schedule) (vs : Option (List Veh)) : R Schedule := do
  let all := vs.isNone
  let ids := vs.getD (s.vehiclesAll nw)
  -- first remove all considered vehicles from their depots
  let usage0 ← ids.foldlM (fun (u : DepotUsage) v => do
      let vt ← unwrapO (s.typeOf? v) "vehicle_type_of(vehicle_id).unwrap()"
      let t ← unwrapO (s.tourOf? v) "tour_of(vehicle_id).unwrap()"
      let sd ← Transition.startDepotU nw t
      let ed ← Transition.endDepotU nw t
      let d1 := nw.depotIdxOf sd
      let e1 ← unwrapO (assocGet? u (d1, vt)) "depot_usage.get_mut(..).unwrap()"
      if !(e1.1.contains v) then .error (.panic "depot_usage: remove(vehicle_id).unwrap()") else
      let u1 := assocSet u (d1, vt) (e1.1.filter (· != v), e1.2)
      let d2 := nw.depotIdxOf ed
      let e2 ← unwrapO (assocGet? u1 (d2, vt)) "depot_usage.get_mut(..).unwrap()"
      if !(e2.2.contains v) then .error (.panic "depot_usage: remove(vehicle_id).unwrap()") else
      pure (assocSet u1 (d2, vt) (e2.1, e2.2.filter (· != v)))) s.depotUsage
  let (tours, usage, costs) ← ids.foldlM (fun (acc : Tours × DepotUsage × Nat) v => do
      let (tours, u, costs) := acc
      let t ← unwrapO (s.tourOf? v) "tour_of(vehicle_id).unwrap()"
      let vt ← unwrapO (s.typeOf? v) "vehicle_type_of(vehicle_id).unwrap()"
      let nt ← improveDepotsOfTour nw t vt u
      let c ← Tour.subNat (costs + nt.costs) t.costs "costs underflow"
      let sd ← Transition.startDepotU nw nt
      let ed ← Transition.endDepotU nw nt
      let u1 := usageModify u (nw.depotIdxOf sd) vt (fun p => (vehInsert p.1 v, p.2))
      let u2 := usageModify u1 (nw.depotIdxOf ed) vt (fun p => (p.1, vehInsert p.2 v))
      pure (assocSet tours v nt, u2, c)) (s.tours, usage0, s.costs)
  let (trans, viol) ← if all then recomputeTransitions nw s.idsByType tours nw.typeIdxs s.transitions s.violation
    else updateTransitionsFast nw s s.vehicles tours ids [] s.transitions s.violation
  pure { s with tours, transitions := trans, depotUsage := usage, violation := viol, costs }

/-- `reassign_end_depots_greedily` -/
def reassignEndDepotsGreedily (nw : Network) (s : Schedule) : R Schedule := do
  let (tours, usage, costs) ← (s.vehiclesAll nw).foldlM (fun (acc : Tours × DepotUsage × Nat) v => do
      let (tours, u, costs) := acc
      let t ← unwrapO (s.tourOf? v) "tour_of(vehicle_id).unwrap()"
      let lnd ← unwrapO (t.lastNonDepot nw) "last_non_depot().unwrap()"
      let ne ← match (nw.endDepotsSortedByDistanceFrom (nw.node lnd).endLoc).head? with
        | some d => pure d
        | none => .error (.err "Cannot find end depot for vehicle.")
      let nt ← unwrapR (t.replaceEndDepot nw ne) "replace_end_depot(..).unwrap()"
      let c ← Tour.subNat (costs + nt.costs) t.costs "costs underflow"
      let tours' := assocSet tours v nt
      let u' ← updateDepotUsage nw s u s.vehicles tours' v
      pure (tours', u', c)) (s.tours, s.depotUsage, s.costs)
  let (trans, viol) ← recomputeTransitions nw s.idsByType tours nw.typeIdxs s.transitions s.violation
  pure { s with tours, transitions := trans, depotUsage := usage, violation := viol, costs }

/-- `recompute_transitions_for` -/
def recomputeTransitionsFor (nw : Network) (s : Schedule) (vts : Option (List Nat)) : R Schedule := do
  let (trans, viol) ← recomputeTransitions nw s.idsByType s.tours (vts.getD nw.typeIdxs) s.transitions s.violation
  pure { s with transitions := trans, violation := viol }

/-- `reassign_end_depots_consistent_with_transitions` -/
def reassignEndDepotsConsistent (nw : Network) (s : Schedule) : R Schedule := do
  let (tours, usage, costs) ← (s.vehiclesAll nw).foldlM (fun (acc : Tours × DepotUsage × Nat) v => do
      let (tours, u, costs) := acc
      let t ← unwrapO (s.tourOf? v) "tour_of(vehicle).unwrap()"
      let vt ← unwrapO (s.typeOf? v) "vehicle_type_of(vehicle).unwrap()"
      let tr ← unwrapO (assocGet? s.transitions vt) "next_period_transitions.get(&vehicle_type).unwrap()"
      let next ← Transition.successorOf tr v
      let ntour ← unwrapO (s.tourOf? next) "tour_of(next_vehicle).unwrap()"
      let sd ← Transition.startDepotU nw ntour
      let ne := nw.endDepotNodeOf (nw.depotIdxOf sd)
      let nt ← unwrapR (t.replaceEndDepot nw ne) "replace_end_depot(..).unwrap()"
      let c ← Tour.subNat (costs + nt.costs) t.costs "costs underflow"
      let tours' := assocSet tours v nt
      let u' ← updateDepotUsage nw s u s.vehicles tours' v
      pure (tours', u', c)) (s.tours, s.depotUsage, s.costs)
  let (trans, viol) ← updateTransitionsFast nw s s.vehicles tours (s.vehiclesAll nw) [] s.transitions s.violation
  pure { s with tours, transitions := trans, depotUsage := usage, violation := viol, costs }

/-- `set_next_day_transitions` (repaired, finding F12: the cached violation follows) -/
def setNextDayTransitions (s : Schedule) (trans : List (Nat × Transition)) : Schedule :=
  { s with transitions := trans, violation := sumInt (trans.map (fun p => p.2.totalViolation)) }

end Schedule
end RSSched
