/-
Model/Base: base types of the solver (model/src/base_types*.rs) and the operator tables of
`rapid_time` (DateTime with Earliest/Latest, Duration with Infinity) and `Distance`.
No imports beyond core. Panics of the Rust code are explicit faults.
-/
namespace RSSched

/-- `err` = a `Result::Err` of the documented API, `panic` = a Rust panic at the named site. -/
inductive Fault where
  | err (msg : String)
  | panic (site : String)
  deriving Repr, DecidableEq, Inhabited

abbrev R (α : Type) := Except Fault α

def R.isPanic {α} : R α → Bool
  | .error (.panic _) => true
  | _ => false

def R.isErr {α} : R α → Bool
  | .error (.err _) => true
  | _ => false

def R.isOk {α} : R α → Bool
  | .ok _ => true
  | _ => false

/-! ### Node kinds and indices (model/src/base_types.rs `NodeIdx`)
The derived `Ord` of the Rust enum orders by variant first (StartDepot < Service < Maintenance <
EndDepot) and then by the index. The index is a global counter (network.rs `Network::new`), so it
alone identifies a node; the kind is kept for the order. -/
inductive Kind where
  | startDepot | service | maint | endDepot
  deriving Repr, DecidableEq, Inhabited

def Kind.rank : Kind → Nat
  | .startDepot => 0
  | .service => 1
  | .maint => 2
  | .endDepot => 3

/-- key of the derived `Ord` on `NodeIdx` -/
def nodeKeyLt (k1 : Kind) (i1 : Nat) (k2 : Kind) (i2 : Nat) : Bool :=
  k1.rank < k2.rank || (k1.rank == k2.rank && i1 < i2)

/-! ### Vehicle ids (`VehicleIdx`): `Vehicle(i) < Dummy(j)` for all i j, then by index -/
structure Veh where
  dummy : Bool
  idx : Nat
  deriving Repr, DecidableEq, Inhabited

def Veh.lt (a b : Veh) : Bool :=
  (!a.dummy && b.dummy) || (a.dummy == b.dummy && a.idx < b.idx)

def Veh.real (i : Nat) : Veh := ⟨false, i⟩
def Veh.dum (i : Nat) : Veh := ⟨true, i⟩

/-! ### Time -/
inductive ExtTime where
  | earliest
  | point (s : Nat)
  | latest
  deriving Repr, DecidableEq, Inhabited

inductive Dur where
  | len (s : Nat)
  | inf
  deriving Repr, DecidableEq, Inhabited

namespace ExtTime

def rank : ExtTime → Nat
  | earliest => 0
  | point _ => 1
  | latest => 2

def le : ExtTime → ExtTime → Bool
  | earliest, _ => true
  | _, latest => true
  | point a, point b => a ≤ b
  | _, _ => false

def lt (a b : ExtTime) : Bool := le a b && a != b

/-- `DateTime + Duration` (total) -/
def add : ExtTime → Dur → ExtTime
  | _, .inf => latest
  | earliest, .len _ => earliest
  | point t, .len l => point (t + l)
  | latest, .len _ => latest

/-- `DateTime - Duration`; panics: `Latest - Infinity`, and a point before the epoch. -/
def subDur : ExtTime → Dur → R ExtTime
  | earliest, _ => .ok earliest
  | latest, .inf => .error (.panic "rapid_time: Latest - Infinity")
  | latest, .len _ => .ok latest
  | point _, .inf => .ok earliest
  | point t, .len d => if d ≤ t then .ok (point (t - d)) else .error (.panic "rapid_time: before epoch")

/-- `DateTime - DateTime`; panics when the subtrahend is later. -/
def diff (self other : ExtTime) : R Dur :=
  if !(le other self) then .error (.panic "rapid_time: negative duration") else
  match self, other with
  | earliest, _ => .ok (.len 0)
  | latest, latest => .ok (.len 0)
  | latest, _ => .ok .inf
  | point _, earliest => .ok .inf
  | point a, point b => .ok (.len (a - b))
  | point _, latest => .error (.panic "rapid_time: unreachable")

def min (a b : ExtTime) : ExtTime := if le a b then a else b
def max (a b : ExtTime) : ExtTime := if le a b then b else a

end ExtTime

namespace Dur

def add : Dur → Dur → Dur
  | len a, len b => len (a + b)
  | _, _ => inf

def le : Dur → Dur → Bool
  | _, inf => true
  | len a, len b => a ≤ b
  | inf, len _ => false

/-- `Duration - Duration`; panics when the subtrahend is longer, or is Infinity. -/
def sub (a b : Dur) : R Dur :=
  if !(le b a) then .error (.panic "rapid_time: duration underflow") else
  match a, b with
  | inf, _ => .ok inf
  | len _, inf => .error (.panic "rapid_time: subtract Infinity")
  | len x, len y => .ok (len (x - y))

def inSec? : Dur → Option Nat
  | len s => some s
  | inf => none

def zero : Dur := len 0

end Dur

/-! ### Distance (model/src/base_types/distance.rs) -/
inductive Dist where
  | d (m : Nat)
  | inf
  deriving Repr, DecidableEq, Inhabited

namespace Dist

def zero : Dist := d 0

def add : Dist → Dist → Dist
  | d a, d b => d (a + b)
  | _, _ => inf

/-- `Sub for Distance`: `Infinity - x = Infinity`; panics on `x - Infinity` and on underflow. -/
def sub : Dist → Dist → R Dist
  | inf, _ => .ok inf
  | d _, inf => .error (.panic "distance: subtract Infinity")
  | d a, d b => if b ≤ a then .ok (d (a - b)) else .error (.panic "distance: underflow")

def inMeter? : Dist → Option Nat
  | d m => some m
  | inf => none

def le : Dist → Dist → Bool
  | _, inf => true
  | d a, d b => a ≤ b
  | inf, d _ => false

def INF_DISTANCE : Nat := 10000000
def MAX_DISTANCE : Nat := 1000000

/-- `.in_meter().unwrap_or(INF_DISTANCE) as MaintenanceCounter` -/
def counter (x : Dist) : Int := (x.inMeter?.getD INF_DISTANCE : Nat)

end Dist

/-! ### Locations -/
inductive Loc where
  | station (i : Nat)
  | nowhere
  deriving Repr, DecidableEq, Inhabited

/-! ### small list helpers used by all model files -/
def sumNat (l : List Nat) : Nat := l.foldr (· + ·) 0
def sumInt (l : List Int) : Int := l.foldr (· + ·) 0

/-- consecutive pairs (`tuple_windows`) -/
def pairs {α} : List α → List (α × α)
  | a :: b :: rest => (a, b) :: pairs (b :: rest)
  | _ => []

/-- insert into a list sorted by `lt` at the position `binary_search(..).unwrap_or_else(|e| e)`
    would give for a key that is not present (first position whose element is not smaller). -/
def insertSorted {α} (lt : α → α → Bool) (x : α) : List α → List α
  | [] => [x]
  | y :: ys => if lt y x then y :: insertSorted lt x ys else x :: y :: ys

def assocGet? {κ ν} [DecidableEq κ] (l : List (κ × ν)) (k : κ) : Option ν :=
  (l.find? (·.1 = k)).map (·.2)

def assocSet {κ ν} [DecidableEq κ] (l : List (κ × ν)) (k : κ) (v : ν) : List (κ × ν) :=
  if l.any (·.1 = k) then l.map (fun p => if p.1 = k then (k, v) else p) else l ++ [(k, v)]

def assocErase {κ ν} [DecidableEq κ] (l : List (κ × ν)) (k : κ) : List (κ × ν) :=
  l.filter (fun p => !(p.1 = k))

end RSSched
