/-
Model/Swaps: solver/src/local_search/neighborhood/swaps*.rs (the four swaps and
`improve_depot_and_recompute_transitions`) and neighborhood/mod.rs (`neighbors_of`: which swaps are
tried, in which order, incl. `segments`). Each swap is a composition of the public modifications
of Model/Schedule.lean; a swap whose `apply` returns `Err` yields no candidate.
-/
import RSSched.Model.Ops
namespace RSSched
open Network

/-- `SwapInfo` -/
inductive SwapInfo where
  | spawnForMaintenance (v : Veh)
  | pathExchange (provider : Veh)
  | hitchHiking (v : Veh)
  | removeSingleNode (v : Veh)
  | noSwap
  deriving Repr, DecidableEq, Inhabited

namespace Swaps

/-- `improve_depot_and_recompute_transitions` -/
def improveDepotAndRecompute (nw : Network) (s : Schedule) (changed : List Veh) : R Schedule := do
  let types ← Tour.mapMR (fun v => unwrapO (s.typeOf? v) "vehicle_type_of(v).unwrap()") changed
  let s1 ← Schedule.improveDepots nw s (some changed)
  let pos := types.filter (fun vt => (s1.transitionOf vt).totalViolation > 0)
  let uniq := (pos.mergeSort (· ≤ ·)).eraseDups
  Schedule.recomputeTransitionsFor nw s1 (some uniq)

/-- `AddTripForHitchHiking::apply` -/
def hitchHiking (nw : Network) (s : Schedule) (node : Nat) (v : Veh) : R Schedule := do
  match nw.maxFormationFor node with
  | some l => if (s.formationOf node).length ≥ l then (.error (.err "node is already fully occupied") : R Unit) else pure ()
  | none => pure ()
  if (nw.node node).isDepot then .error (.panic "Path::new_from_single_node: assert!(!is_depot)") else
  let (s1, conflict) ← Schedule.addPathToVehicleTour nw s v [node]
  match conflict with
  | some _ => .error (.err "node causes conflict")
  | none => improveDepotAndRecompute nw s1 [v]

/-- `RemoveSingleNode::apply` -/
def removeSingleNode (nw : Network) (s : Schedule) (node : Nat) (v : Veh) : R Schedule :=
  Schedule.removeSegment nw s v node node

/-- `SpawnVehicleForMaintenance::apply` -/
def spawnForMaintenance (nw : Network) (s : Schedule) (slot : Nat) (v : Veh) : R Schedule := do
  let t ← unwrapO (s.tourOf? v) "tour_of(vehicle).unwrap()"
  if t.visitsMaint then .error (.err "Vehicle already visits maintenance slot") else
  let occupants := s.formationOf slot
  let vt ← unwrapO (s.typeOf? v) "vehicle_type_of(vehicle).unwrap()"
  let (s1, changed0) ← if occupants.length ≥ (nw.node slot).tracks then do
      let last ← unwrapO occupants.getLast? "occupants.last().unwrap()"
      let sc ← Schedule.removeSegment nw s last slot slot
      pure (sc, if sc.isVehicle last then [last] else [])
    else pure (s, [])
  if (nw.node slot).isDepot then .error (.panic "Path::new_from_single_node: assert!(!is_depot)") else
  let (s2, conflict) ← Schedule.addPathToVehicleTour nw s1 v [slot]
  let changed1 := changed0 ++ [v]
  let (s3, changed2) ← match conflict with
    | some path => do
      let (sc, nv) ← Schedule.spawnVehicleForPath nw s2 vt path
      pure (sc, changed1 ++ [nv])
    | none => pure (s2, changed1)
  improveDepotAndRecompute nw s3 changed2

/-- consecutive duplicates removed (`Vec::dedup`) -/
def dedup {α} [DecidableEq α] : List α → List α
  | a :: b :: rest => if a = b then dedup (b :: rest) else a :: dedup (b :: rest)
  | l => l

/-- `PathExchange::apply` -/
def pathExchange (nw : Network) (s : Schedule) (a b : Nat) (p r : Veh) : R Schedule := do
  let (s1, newDummy) ← Schedule.overrideReassign nw s p r a b
  let changed0 := if s.isVehicle r then [r] else []
  let (s2, changed1) ← match newDummy, s.isVehicle p, (s1.isVehicle p || s1.isDummy p) with
    | none, _, _ => pure (s1, changed0)
    | some _, false, false => pure (s1, changed0)
    | some d, true, false => do
      let pvt ← unwrapO (s.typeOf? p) "vehicle_type_of(provider).unwrap()"
      let (sc, nv) ← Schedule.spawnToReplaceDummy nw s1 d pvt
      pure (sc, changed0 ++ [nv])
    | some d, _, true => do
      let t ← unwrapO (s1.tourOf? d) "tour_of(new_dummy).unwrap()"
      let f ← t.firstNode
      let l ← t.lastNode
      let sc ← Schedule.fitReassign nw s1 d p f l
      pure (sc, changed0 ++ [p])
  let changed := dedup (changed1.filter (fun v => s2.isVehicle v))
  improveDepotAndRecompute nw s2 changed

/-- `RSSchedParallelNeighborhood::segments` -/
def segments (nw : Network) (limit threshold : Option Nat) (s : Schedule) (provider : Veh) : R (List (Nat × Nat)) := do
  let thr : Dur := match threshold with | none => .len 0 | some d => .len d
  let tour ← unwrapO (s.tourOf? provider) "provider not in schedule"
  let isDummy := s.isDummy provider
  let nd := tour.nonDepotNodes
  let okOverhead (d : R Dur) : R Bool :=
    match d with
    | .ok x => pure (Dur.le thr x)
    | .error _ => .error (.panic "overhead(..).unwrap()")
  let starts ← Tour.mapMR (fun (i, n) => do
      let keep ← if isDummy then pure true else okOverhead (tour.precedingOverhead nw n)
      pure (i, n, keep)) ((List.range nd.length).zip nd)
  let last ← tour.lastNode
  let segs ← Tour.mapMR (fun (i, segStart, keep) => do
      if !keep then pure [] else
      let cands := nd.drop i
      let filtered ← Tour.mapMR (fun n => do
          let k ← if isDummy then pure true else okOverhead (tour.subsequentOverhead nw n)
          pure (n, k)) cands
      let kept := (filtered.filter (·.2)).map (·.1)
      -- take_while on the length limit (time from the start of the first to the end of the last node)
      let lens ← Tour.mapMR (fun segEnd => do
          match limit with
          | none => pure (segEnd, true)
          | some l =>
            let d ← match ExtTime.diff (nw.node segEnd).endT (nw.node segStart).startT with
              | .ok d => pure d
              | .error e => .error e
            pure (segEnd, Dur.le d (.len l))) kept
      let taken := (lens.takeWhile (·.2)).map (·.1)
      let ends := taken ++ (if limit.isSome then [last] else [])
      pure (ends.map (fun e => (segStart, e)))) starts
  pure (segs.flatten.filter (fun (a, b) =>
    match Tour.checkRemovable nw tour a b with | .ok _ => true | .error _ => false))

structure Candidate where
  text : String
  info : SwapInfo
  sched : Schedule

def okOnly (r : R Schedule) (text : String) (info : SwapInfo) : R (List Candidate) :=
  match r with
  | .ok s => pure [{ text, info, sched := s }]
  | .error (.err _) => pure []
  | .error e => .error e

def rotateLeft {α} (l : List α) (k : Nat) : List α := l.drop k ++ l.take k

/-- `neighbors_of`: spawning for maintenance, segment exchanges, hitch-hiking, single-node removal -/
def neighborsOf (nw : Network) (limit threshold : Option Nat) (s : Schedule) (lastInfo : SwapInfo) : R (List Candidate) := do
  -- 1) spawn vehicle for maintenance
  let ms := nw.maintNodes.filter (fun m => (s.formationOf m).length < (nw.node m).tracks)
  let msSorted := ms.mergeSort (fun a b =>
    ((s.formationOf a).length * 10000) / (nw.node a).tracks ≤ ((s.formationOf b).length * 10000) / (nw.node b).tracks)
  let vehicles := s.vehiclesAll nw
  let c1 ← Tour.mapMR (fun m => Tour.mapMR (fun v =>
      okOnly (spawnForMaintenance nw s m v) "SpawnVehicleForMaintenance" (.spawnForMaintenance v)) vehicles) msSorted
  -- 2) path exchanges: providers dummies first, rotated to the last provider
  let providers0 := s.dummyIds ++ vehicles
  let providers := match lastInfo with
    | .pathExchange lp => match providers0.findIdx? (· == lp) with
      | some k => rotateLeft providers0 k
      | none => providers0
    | _ => providers0
  let receivers := vehicles ++ s.dummyIds
  let c2 ← Tour.mapMR (fun p => do
      let segs ← segments nw limit threshold s p
      Tour.mapMR (fun (a, b) => Tour.mapMR (fun r =>
        okOnly (pathExchange nw s a b p r) "PathExchange" (.pathExchange p)) (receivers.filter (· != p))) segs) providers
  -- 3) hitch-hiking
  let c3 ← Tour.mapMR (fun v => do
      let vt ← unwrapO (s.typeOf? v) "vehicle_type_of(vehicle).unwrap()"
      Tour.mapMR (fun n => okOnly (hitchHiking nw s n v) "AddTripForHitchHiking" (.hitchHiking v)) (nw.serviceNodes vt)) vehicles
  -- 4) remove single node
  let c4 ← Tour.mapMR (fun v => do
      let t ← unwrapO (s.tourOf? v) "tour_of(vehicle).unwrap()"
      Tour.mapMR (fun n => okOnly (removeSingleNode nw s n v) "RemoveSingleNode" (.removeSingleNode v)) t.nonDepotNodes) vehicles
  pure (c1.flatten.flatten ++ (c2.flatten.flatten).flatten ++ c3.flatten.flatten ++ c4.flatten.flatten)

end Swaps
end RSSched
