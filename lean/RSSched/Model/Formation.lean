/-
Model/Formation: solution/src/train_formation.rs on vehicle id lists (front first).
-/
import RSSched.Model.Base
namespace RSSched.Formation
open RSSched

/-- `TrainFormation::replace`: `push(new); swap_remove(pos)` — the new vehicle lands at `pos` -/
def replace (f : List Veh) (old new : Veh) : R (List Veh) :=
  match f.findIdx? (· == old) with
  | none => .error (.err "vehicle was not part of the TrainFormation and cannot be replaced")
  | some pos =>
    -- push, then swap_remove(pos): element at pos is replaced by the last one (= new), last is dropped
    .ok (((f ++ [new]).set pos new).dropLast)

/-- `TrainFormation::remove` -/
def remove (f : List Veh) (v : Veh) : R (List Veh) :=
  match f.findIdx? (· == v) with
  | none => .error (.err "vehicle was not part of the TrainFormation and cannot be removed")
  | some pos => .ok (f.eraseIdx pos)

/-- `TrainFormation::add_at_tail` -/
def addAtTail (f : List Veh) (v : Veh) : List Veh := f ++ [v]

end RSSched.Formation
