/-
Model/Transition: solution/src/transition.rs, transition/modifications.rs,
transition/transition_cycle.rs. Tours are looked up in association lists (`tours`), with the
"updated tours first, then old tours" overlay of the Rust code. `unwrap()`s are explicit faults.
-/
import RSSched.Model.Tour
namespace RSSched
open Network

structure Cycle where
  vehicles : List Veh
  counter : Int
  deriving Repr, DecidableEq, Inhabited

structure Transition where
  cycles : List Cycle
  totalViolation : Int
  totalCounter : Int
  lookup : List (Veh × Nat)      -- `cycle_lookup`, kept sorted by vehicle for comparison
  empty : List Nat               -- `empty_cycles`, in insertion order
  deriving Repr, DecidableEq, Inhabited

abbrev Tours := List (Veh × Tour)

def unwrapO {α} (o : Option α) (site : String) : R α :=
  match o with
  | some x => .ok x
  | none => .error (.panic site)

/-- `.unwrap()` on a `Result` -/
def unwrapR {α} (r : R α) (site : String) : R α :=
  match r with
  | .ok x => .ok x
  | .error _ => .error (.panic site)

def posMax0 (x : Int) : Int := if x > 0 then x else 0

namespace Transition

def tourOf (updated old : Tours) (v : Veh) : R Tour :=
  match assocGet? updated v with
  | some t => .ok t
  | none => unwrapO (assocGet? old v) "transition: tours.get(vehicle).unwrap()"

/-- distance between two depot nodes as a maintenance-counter summand -/
def depotDist (nw : Network) (endDepot startDepot : Nat) : Int :=
  (nw.deadHeadDistanceBetween endDepot startDepot).counter

def startDepotU (nw : Network) (t : Tour) : R Nat := unwrapR (t.startDepot nw) "start_depot().unwrap()"
def endDepotU (nw : Network) (t : Tour) : R Nat := unwrapR (t.endDepot nw) "end_depot().unwrap()"

/-- `maintenance_counter_of_tour_plus_dead_head_trips_before_and_after` -/
def counterWithLinks (nw : Network) (t : Tour) (endPred startSucc : Nat) : R Int := do
  let s ← startDepotU nw t
  let e ← endDepotU nw t
  pure (t.maintenanceCounter nw + depotDist nw endPred s + depotDist nw e startSucc)

/-- a one-vehicle cycle's counter -/
def selfLoopCounter (nw : Network) (t : Tour) : R Int := do
  let s ← startDepotU nw t
  let e ← endDepotU nw t
  pure (t.maintenanceCounter nw + depotDist nw e s)

def sortLookup (l : List (Veh × Nat)) : List (Veh × Nat) :=
  l.mergeSort (fun a b => !(Veh.lt b.1 a.1))

def lookupInsert (l : List (Veh × Nat)) (v : Veh) (c : Nat) : List (Veh × Nat) :=
  sortLookup (assocSet l v c)

/-- `end_depot_of_predecessor_and_start_depot_of_successor` -/
def predEndSuccStart (nw : Network) (tr : Transition) (v : Veh) (updated old : Tours) : R (Nat × Nat) := do
  let ci ← unwrapO (assocGet? tr.lookup v) "cycle_lookup.get(vehicle).unwrap()"
  let cyc ← unwrapO tr.cycles[ci]? "cycles[cycle_idx]"
  let pos ← unwrapO (cyc.vehicles.findIdx? (· == v)) "position(vehicle).unwrap()"
  let pred ← if pos == 0 then unwrapO cyc.vehicles.getLast? "cycle.last().unwrap()"
             else unwrapO cyc.vehicles[pos - 1]? "cycle.get(idx-1).unwrap()"
  let succ ← if pos == cyc.vehicles.length - 1 then unwrapO cyc.vehicles.head? "cycle.first().unwrap()"
             else unwrapO cyc.vehicles[pos + 1]? "cycle.get(idx+1).unwrap()"
  let pt ← tourOf updated old pred
  let st ← tourOf updated old succ
  let e ← endDepotU nw pt
  let s ← startDepotU nw st
  pure (e, s)

/-- `Transition::update_vehicle` -/
def updateVehicle (nw : Network) (tr : Transition) (v : Veh) (newTour : Tour) (updated old : Tours) : R Transition := do
  let oldTour ← unwrapO (assocGet? old v) "old_tours.get(vehicle).unwrap()"
  let ci ← unwrapO (assocGet? tr.lookup v) "cycle_lookup.get(vehicle).unwrap()"
  let oldCycle ← unwrapO tr.cycles[ci]? "cycles.get(cycle_idx).unwrap()"
  let newCounter ← if oldCycle.vehicles.length == 1 then selfLoopCounter nw newTour else do
      let (e, s) ← predEndSuccStart nw tr v updated old
      let rem ← counterWithLinks nw oldTour e s
      let add ← counterWithLinks nw newTour e s
      pure (oldCycle.counter - rem + add)
  pure { tr with
    cycles := tr.cycles.set ci { vehicles := oldCycle.vehicles, counter := newCounter }
    totalViolation := (tr.totalViolation + posMax0 newCounter) - posMax0 oldCycle.counter
    totalCounter := (tr.totalCounter + newCounter) - oldCycle.counter }

/-- `Transition::add_vehicle_to_own_cycle` -/
def addVehicleToOwnCycle (nw : Network) (tr : Transition) (v : Veh) (newTour : Tour) : R Transition := do
  let c ← selfLoopCounter nw newTour
  let newCycle : Cycle := { vehicles := [v], counter := c }
  let tv := tr.totalViolation + posMax0 c
  let tc := tr.totalCounter + c
  match tr.empty.getLast? with
  | none =>
    pure { cycles := tr.cycles ++ [newCycle], totalViolation := tv, totalCounter := tc,
           lookup := lookupInsert tr.lookup v tr.cycles.length, empty := tr.empty }
  | some ei =>
    if ei < tr.cycles.length then
      pure { cycles := tr.cycles.set ei newCycle, totalViolation := tv, totalCounter := tc,
             lookup := lookupInsert tr.lookup v ei, empty := tr.empty.dropLast }
    else .error (.panic "cycles[empty_cycle_idx]")

/-- `Transition::remove_vehicle` -/
def removeVehicle (nw : Network) (tr : Transition) (v : Veh) (updated old : Tours) : R Transition := do
  let ci ← unwrapO (assocGet? tr.lookup v) "cycle_lookup.get(vehicle).unwrap()"
  let oldCycle ← unwrapO tr.cycles[ci]? "cycles.get(cycle_idx).unwrap()"
  let newVec := oldCycle.vehicles.filter (· != v)
  let (newCounter, empty) ← if newVec.isEmpty then pure ((0 : Int), tr.empty ++ [ci]) else do
      let (e, s) ← predEndSuccStart nw tr v updated old
      let ot ← unwrapO (assocGet? old v) "old_tours.get(vehicle).unwrap()"
      let rem ← counterWithLinks nw ot e s
      pure (oldCycle.counter - rem + depotDist nw e s, tr.empty)
  pure { cycles := tr.cycles.set ci { vehicles := newVec, counter := newCounter }
         totalViolation := (tr.totalViolation + posMax0 newCounter) - posMax0 oldCycle.counter
         totalCounter := (tr.totalCounter + newCounter) - oldCycle.counter
         lookup := assocErase tr.lookup v
         empty := empty }

/-- `Transition::add_vehicle_at_the_end` (repaired: the updated list of empty cycles is returned;
    `pinned = true` reproduces finding F7, which returned the old list) -/
def addVehicleAtTheEnd (nw : Network) (pinned : Bool) (tr : Transition) (v : Veh) (ci : Nat)
    (updated old : Tours) : R Transition := do
  let oldCycle ← unwrapO tr.cycles[ci]? "cycles.get(new_cycle_idx).unwrap()"
  let newVec := oldCycle.vehicles ++ [v]
  let tv ← tourOf updated old v
  let (newCounter, empty) ← if newVec.length == 1 then do
      let c ← selfLoopCounter nw tv
      pure (c, tr.empty.filter (· != ci))
    else do
      let predV ← unwrapO newVec[newVec.length - 2]? "new_cycle_vec.get(len-2)"
      let pt ← tourOf updated old predV
      let e ← endDepotU nw pt
      let firstV ← unwrapO newVec.head? "new_cycle_vec.first()"
      let ft ← tourOf updated old firstV
      let s ← startDepotU nw ft
      let add ← counterWithLinks nw tv e s
      pure (oldCycle.counter - depotDist nw e s + add, tr.empty)
  pure { cycles := tr.cycles.set ci { vehicles := newVec, counter := newCounter }
         totalViolation := (tr.totalViolation + posMax0 newCounter) - posMax0 oldCycle.counter
         totalCounter := (tr.totalCounter + newCounter) - oldCycle.counter
         lookup := lookupInsert tr.lookup v ci
         empty := if pinned then tr.empty else empty }

/-- `Transition::move_vehicle` -/
def moveVehicle (nw : Network) (pinned : Bool) (tr : Transition) (v : Veh) (ci : Nat) (tours : Tours) : R Transition := do
  let t1 ← removeVehicle nw tr v [] tours
  addVehicleAtTheEnd nw pinned t1 v ci [] tours

/-- `Transition::replace_cycle` -/
def replaceCycle (tr : Transition) (ci : Nat) (c : Cycle) : R Transition := do
  let oldCycle ← unwrapO tr.cycles[ci]? "cycles.get(cycle_idx).unwrap()"
  pure { tr with
    cycles := tr.cycles.set ci c
    totalViolation := tr.totalViolation + posMax0 c.counter - posMax0 oldCycle.counter
    totalCounter := tr.totalCounter + c.counter - oldCycle.counter }

/-- the counter update of `TransitionCycle::three_opt` -/
def threeOptCounter (nw : Network) (c : Cycle) (i j k : Nat) (tours : Tours) : R Int := do
  let n := c.vehicles.length
  if n == 0 then .error (.panic "three_opt: % 0") else
  let tourAt (p : Nat) : R Tour := do
    let v ← unwrapO c.vehicles[p]? "cycle[i]"
    unwrapO (assocGet? tours v) "tours.get(cycle[i]).unwrap()"
  let ei ← endDepotU nw (← tourAt i)
  let si1 ← startDepotU nw (← tourAt ((i + 1) % n))
  let ej ← endDepotU nw (← tourAt j)
  let sj1 ← startDepotU nw (← tourAt ((j + 1) % n))
  let ek ← endDepotU nw (← tourAt k)
  let sk1 ← startDepotU nw (← tourAt ((k + 1) % n))
  pure (c.counter - depotDist nw ei si1 - depotDist nw ej sj1 - depotDist nw ek sk1
    + depotDist nw ei sj1 + depotDist nw ej sk1 + depotDist nw ek si1)

/-- the slices `[..i+1] ++ [j+1..k+1] ++ [i+1..j+1] ++ [k+1..]` -/
def threeOptOrder {α} (vs : List α) (i j k : Nat) : List α :=
  vs.take (i + 1) ++ (vs.drop (j + 1)).take (k - j) ++ (vs.drop (i + 1)).take (j - i) ++ vs.drop (k + 1)

/-- `TransitionCycle::three_opt` (the slice expressions carry the Rust bounds checks) -/
def threeOpt (nw : Network) (c : Cycle) (i j k : Nat) (tours : Tours) : R Cycle :=
  match threeOptCounter nw c i j k tours with
  | .error e => .error e
  | .ok counter =>
    if i + 1 ≤ j + 1 ∧ j + 1 ≤ k + 1 ∧ k + 1 ≤ c.vehicles.length then
      .ok { vehicles := threeOptOrder c.vehicles i j k, counter := counter }
    else .error (.panic "three_opt: slice bounds")

/-! #### `Transition::new_fast` = `one_cluster_per_maintenance` -/

abbrev Cluster := List Veh × Int

/-- stable sort by an integer key -/
def sortByInt {α} (key : α → Int) (l : List α) : List α := l.mergeSort (fun a b => key a ≤ key b)

def pushToCluster (nw : Network) (cl : Cluster) (v : Veh) (tours : Tours) : R Cluster := do
  let t ← unwrapO (assocGet? tours v) "tours.get(vehicle).unwrap()"
  let lastV ← unwrapO cl.1.getLast? "cluster.last().unwrap()"
  let lt ← unwrapO (assocGet? tours lastV) "tours.get(cluster.last()).unwrap()"
  let e ← endDepotU nw lt
  let s ← startDepotU nw t
  pure (cl.1 ++ [v], cl.2 + t.maintenanceCounter nw + depotDist nw e s)

def assignLoop (nw : Network) (tours : Tours) : List Veh → List Cluster → R (List Cluster)
  | [], cls => pure cls
  | v :: rest, cls => do
    let t ← unwrapO (assocGet? tours v) "tours.get(vehicle).unwrap()"
    let mc := t.maintenanceCounter nw
    let cls' ← match cls.findIdx? (fun c => c.2 + mc ≤ 0) with
      | some bi => do
        let c ← unwrapO cls[bi]? "clusters[best]"
        let c' ← pushToCluster nw c v tours
        pure (cls.set bi c')
      | none =>
        match cls.getLast? with
        | some c => do
          let c' ← pushToCluster nw c v tours
          pure (cls.set (cls.length - 1) c')
        | none => pure [([v], mc)]
    assignLoop nw tours rest (sortByInt (fun c => c.2) cls')

def newFast (nw : Network) (vehicles : List Veh) (tours : Tours) : R Transition := do
  let withMc ← Tour.mapMR (fun v => do
      let t ← unwrapO (assocGet? tours v) "tours.get(vehicle_id).unwrap()"
      pure (v, t.maintenanceCounter nw)) vehicles
  let clusters0 : List Cluster := (withMc.filter (fun p => p.2 < 0)).map (fun p => ([p.1], p.2))
  let unassigned := (withMc.filter (fun p => !(p.2 < 0)))
  -- vehicles by counter descending, clusters by counter descending (both stable)
  let unassignedSorted := (sortByInt (fun p => -p.2) unassigned).map (·.1)
  let clustersSorted := sortByInt (fun c => -c.2) clusters0
  let clusters ← assignLoop nw tours unassignedSorted clustersSorted
  let cycles ← Tour.mapMR (fun (c : Cluster) => do
      let lastV ← unwrapO c.1.getLast? "vehicles.last().unwrap()"
      let firstV ← unwrapO c.1.head? "vehicles.first().unwrap()"
      let lt ← unwrapO (assocGet? tours lastV) "tours.get(last).unwrap()"
      let ft ← unwrapO (assocGet? tours firstV) "tours.get(first).unwrap()"
      let e ← endDepotU nw lt
      let s ← startDepotU nw ft
      pure ({ vehicles := c.1, counter := c.2 + depotDist nw e s } : Cycle)) clusters
  let lookup := sortLookup ((List.range cycles.length).flatMap (fun i =>
      (cycles.getD i default).vehicles.map (fun v => (v, i))))
  pure { cycles
         totalViolation := sumInt (cycles.map (fun c => posMax0 c.counter))
         totalCounter := sumInt (cycles.map (·.counter))
         lookup
         empty := [] }

/-- `get_successor_of` -/
def successorOf (tr : Transition) (v : Veh) : R Veh := do
  let ci ← unwrapO (assocGet? tr.lookup v) "cycle_lookup.get(vehicle).unwrap()"
  let cyc ← unwrapO tr.cycles[ci]? "cycles.get(cycle_idx).unwrap()"
  let pos ← unwrapO (cyc.vehicles.findIdx? (· == v)) "position(vehicle).unwrap()"
  unwrapO cyc.vehicles[(pos + 1) % cyc.vehicles.length]? "cycle[successor_position]"

end Transition
end RSSched
