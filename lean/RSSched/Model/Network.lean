/-
Model/Network: the instance as parsed (model/src/json_serialisation/mod.rs `JsonInput` with ids
resolved to positions), `load` (create_locations, create_vehicle_types, create_config,
create_service_trips, create_depots, create_maintenance_slots, `Network::new`) and the queries of
model/src/network.rs, nodes.rs, depot.rs, locations.rs.
-/
import RSSched.Model.Base
namespace RSSched

/-! ### Instance -/
structure VType where
  capacity : Nat
  seats : Nat
  maxForm : Option Nat
  deriving Repr, DecidableEq, Inhabited

structure InDepot where
  loc : Nat
  capacity : Nat
  allowed : List (Nat × Option Nat)   -- (vehicle type, per-type capacity)
  deriving Repr, DecidableEq, Inhabited

structure RSeg where
  origin : Nat
  dest : Nat
  distance : Nat
  duration : Nat
  maxForm : Option Nat
  deriving Repr, DecidableEq, Inhabited

structure Route where
  vt : Nat
  segs : List RSeg
  deriving Repr, DecidableEq, Inhabited

structure DSeg where
  rseg : Nat          -- position of the route segment inside the route
  departure : Nat     -- seconds
  passengers : Nat
  seated : Nat
  deriving Repr, DecidableEq, Inhabited

structure Departure where
  route : Nat
  segs : List DSeg
  deriving Repr, DecidableEq, Inhabited

structure MaintIn where
  loc : Nat
  start : Nat
  stop : Nat
  tracks : Nat
  deriving Repr, DecidableEq, Inhabited

structure Instance where
  vtypes : List VType
  nLocs : Nat
  depots : Option (List InDepot)
  /-- realised order of the default depots (`loc.iter()` over a `HashMap`): depot `k` sits at
      location `defaultOrder[k]`. Only read when `depots = none`. -/
  defaultOrder : List Nat
  routes : List Route
  departures : List Departure
  maint : List MaintIn
  dhIdx : List Nat            -- `deadHeadTrips.indices` as location positions
  dhDur : List (List Nat)
  dhDist : List (List Nat)
  forbidDH : Bool
  shuntMin : Nat
  shuntDH : Nat
  maxDist : Nat
  cStaff : Nat
  cService : Nat
  cMaint : Nat
  cDH : Nat
  cIdle : Nat
  deriving Repr, Inhabited

/-! ### Network -/
structure Node where
  kind : Kind
  idx : Nat
  startT : ExtTime
  endT : ExtTime
  startLoc : Loc
  endLoc : Loc
  vt : Nat := 0
  dist : Nat := 0
  pax : Nat := 0
  seated : Nat := 0
  maxForm : Option Nat := none
  tracks : Nat := 0
  depot : Nat := 0
  deriving Repr, DecidableEq, Inhabited

structure Depot where
  loc : Loc
  total : Nat
  allowed : List (Nat × Option Nat)
  deriving Repr, DecidableEq, Inhabited

structure Network where
  nodes : Array Node
  vtypes : Array VType
  depots : Array Depot               -- last one is the overflow depot
  nLocs : Nat
  dhDur : List (Nat × List (Nat × Nat))   -- origin ↦ dest ↦ seconds (after capping)
  dhDist : List (Nat × List (Nat × Nat))  -- origin ↦ dest ↦ metres (after capping)
  forbidDH : Bool
  shuntMin : Nat
  shuntDH : Nat
  maxDist : Nat
  cStaff : Nat
  cService : Nat
  cMaint : Nat
  cDH : Nat
  cIdle : Nat
  planning : Nat
  deriving Repr, Inhabited

namespace Node
def isService (n : Node) : Bool := n.kind == .service
def isMaint (n : Node) : Bool := n.kind == .maint
def isStartDepot (n : Node) : Bool := n.kind == .startDepot
def isEndDepot (n : Node) : Bool := n.kind == .endDepot
def isDepot (n : Node) : Bool := n.isStartDepot || n.isEndDepot

/-- `Node::duration` -/
def duration (n : Node) : R Dur :=
  if n.isDepot then .ok Dur.zero else ExtTime.diff n.endT n.startT

/-- `Node::cmp_start_time` as a strict order: start, then end, then `NodeIdx` -/
def ltStart (a b : Node) : Bool :=
  ExtTime.lt a.startT b.startT ||
  (a.startT == b.startT &&
    (ExtTime.lt a.endT b.endT || (a.endT == b.endT && nodeKeyLt a.kind a.idx b.kind b.idx)))

def leStart (a b : Node) : Bool := !(ltStart b a)
end Node

namespace Network

def node (nw : Network) (i : Nat) : Node := nw.nodes.getD i default
def size (nw : Network) : Nat := nw.nodes.size
def allIdx (nw : Network) : List Nat := List.range nw.nodes.size

def vtype (nw : Network) (vt : Nat) : VType := nw.vtypes.getD vt default
def nTypes (nw : Network) : Nat := nw.vtypes.size
def typeIdxs (nw : Network) : List Nat := List.range nw.vtypes.size

def depot (nw : Network) (d : Nat) : Depot := nw.depots.getD d default
def overflowDepot (nw : Network) : Nat := nw.depots.size - 1

def matGet (m : List (Nat × List (Nat × Nat))) (a b : Nat) : Option Nat :=
  (assocGet? m a).bind (fun row => assocGet? row b)

/-- `Locations::travel_time`. `none` stands for the Rust `unwrap()` panic on a missing entry. -/
def travelTime? (nw : Network) (a b : Loc) : Option Dur :=
  match a, b with
  | .station x, .station y => (matGet nw.dhDur x y).map Dur.len
  | _, _ => some .inf

def distance? (nw : Network) (a b : Loc) : Option Dist :=
  match a, b with
  | .station x, .station y => (matGet nw.dhDist x y).map Dist.d
  | _, _ => some .inf

/-- totalised for instances whose matrix covers all used locations (`Instance.WF`); the partial
    version above is what the panic analysis uses. -/
def travelTime (nw : Network) (a b : Loc) : Dur := (nw.travelTime? a b).getD (.len 0)
def distance (nw : Network) (a b : Loc) : Dist := (nw.distance? a b).getD (.d 0)

def deadHeadTimeBetween (nw : Network) (a b : Nat) : Dur :=
  nw.travelTime (nw.node a).endLoc (nw.node b).startLoc

def deadHeadDistanceBetween (nw : Network) (a b : Nat) : Dist :=
  nw.distance (nw.node a).endLoc (nw.node b).startLoc

def isActivity (n : Node) : Bool := n.isService || n.isMaint

/-- `shunting_duration_between_activities_if_no_dead_head_trip` -/
def shuntNoDH (nw : Network) (n1 n2 : Node) : Dur :=
  if isActivity n1 && isActivity n2 then .len nw.shuntMin else .len 0

/-- `shunting_duration_between_activities_if_dead_head_trip` -/
def shuntWithDH (nw : Network) (n1 n2 : Node) : Dur :=
  Dur.add (if isActivity n1 then .len nw.shuntDH else .len 0)
          (if isActivity n2 then .len nw.shuntDH else .len 0)

/-- `minimal_duration_between_nodes_as_ref` -/
def minDurNodes (nw : Network) (n1 n2 : Node) : Dur :=
  if n1.endLoc = n2.startLoc then nw.shuntNoDH n1 n2
  else Dur.add (nw.travelTime n1.endLoc n2.startLoc) (nw.shuntWithDH n1 n2)

def minDur (nw : Network) (a b : Nat) : Dur := nw.minDurNodes (nw.node a) (nw.node b)

/-- `Network::can_reach` -/
def canReachNodes (nw : Network) (n1 n2 : Node) : Bool :=
  if n2.isStartDepot || n1.isEndDepot then false
  else if n1.isStartDepot || n2.isEndDepot then true
  else if nw.forbidDH && n1.endLoc != n2.startLoc then false
  else ExtTime.le (ExtTime.add n1.endT (nw.minDurNodes n1 n2)) n2.startT

def canReach (nw : Network) (a b : Nat) : Bool := nw.canReachNodes (nw.node a) (nw.node b)

/-- `Network::idle_time_between` (the "negative idle time" branch returns zero) -/
def idleTimeBetween (nw : Network) (a b : Nat) : Dur :=
  let n1 := nw.node a
  let n2 := nw.node b
  if n1.isStartDepot || n2.isEndDepot then .len 0 else
  let idleStart := ExtTime.add n1.endT (nw.deadHeadTimeBetween a b)
  if ExtTime.le idleStart n2.startT then
    match ExtTime.diff n2.startT idleStart with
    | .ok d => d
    | .error _ => .len 0
  else .len 0

/-! #### node lists -/
def idxsWhere (nw : Network) (p : Node → Bool) : List Nat :=
  nw.allIdx.filter (fun i => p (nw.node i))

def sortByStart (nw : Network) (l : List Nat) : List Nat :=
  l.mergeSort (fun a b => (nw.node a).leStart (nw.node b))

/-- `service_nodes[vt]`, sorted by `cmp_start_time` -/
def serviceNodes (nw : Network) (vt : Nat) : List Nat :=
  nw.sortByStart (nw.idxsWhere (fun n => n.isService && n.vt == vt))

def maintNodes (nw : Network) : List Nat := nw.sortByStart (nw.idxsWhere Node.isMaint)
def startDepotNodes (nw : Network) : List Nat := nw.sortByStart (nw.idxsWhere Node.isStartDepot)
def endDepotNodes (nw : Network) : List Nat := nw.sortByStart (nw.idxsWhere Node.isEndDepot)

/-- key order of `SortedNodes = BTreeMap<(DateTime, NodeIdx), _>` -/
def keyLt (t1 : ExtTime) (n1 : Node) (t2 : ExtTime) (n2 : Node) : Bool :=
  ExtTime.lt t1 t2 || (t1 == t2 && nodeKeyLt n1.kind n1.idx n2.kind n2.idx)

def sortedByStartAll (nw : Network) : List Nat :=
  nw.allIdx.mergeSort (fun a b => !(keyLt (nw.node b).startT (nw.node b) (nw.node a).startT (nw.node a)))

/-- `all_service_nodes`: services in `nodes_sorted_by_start` order -/
def allServiceNodes (nw : Network) : List Nat :=
  nw.sortedByStartAll.filter (fun i => (nw.node i).isService)

def coverableNodes (nw : Network) : List Nat := nw.allServiceNodes ++ nw.maintNodes

def numberOfServiceNodes (nw : Network) : Nat := (nw.idxsWhere Node.isService).length

/-- the node set of the per-type indices: services of the type, all slots, all depot nodes -/
def inTypeIndex (nw : Network) (vt : Nat) (i : Nat) : Bool :=
  let n := nw.node i
  (n.isService && n.vt == vt) || n.isMaint || n.isDepot

def typeIndex (nw : Network) (vt : Nat) : List Nat := nw.allIdx.filter (nw.inTypeIndex vt)

/-- `vehicle_type_nodes_sorted_by_start[vt].values()` -/
def typeNodesSortedByStart (nw : Network) (vt : Nat) : List Nat :=
  (nw.typeIndex vt).mergeSort
    (fun a b => !(keyLt (nw.node b).startT (nw.node b) (nw.node a).startT (nw.node a)))

def typeNodesSortedByEnd (nw : Network) (vt : Nat) : List Nat :=
  (nw.typeIndex vt).mergeSort
    (fun a b => !(keyLt (nw.node b).endT (nw.node b) (nw.node a).endT (nw.node a)))

/-- `NodeIdx::smallest()` = `StartDepot(0)` -/
def smallestNode : Node := { kind := .startDepot, idx := 0, startT := .earliest, endT := .earliest,
                             startLoc := .nowhere, endLoc := .nowhere }

/-- `NodeIdx::largest()` = `EndDepot(Idx::MAX)` -/
def largestNode : Node := { kind := .endDepot, idx := 65535, startT := .latest, endT := .latest,
                            startLoc := .nowhere, endLoc := .nowhere }

/-- `Network::successors`: `range((end_time(node), smallest)..)` then `can_reach` -/
def successors (nw : Network) (vt : Nat) (a : Nat) : List Nat :=
  ((nw.typeNodesSortedByStart vt).filter
      (fun i => !(keyLt (nw.node i).startT (nw.node i) (nw.node a).endT smallestNode))).filter
    (fun i => nw.canReach a i)

/-- `Network::predecessors`: `range(..=(start_time(node), largest))` then `can_reach`
    (the pinned tree had the exclusive bound `..(start_time(node), smallest)`, finding F1). -/
def predecessors (nw : Network) (vt : Nat) (b : Nat) : List Nat :=
  ((nw.typeNodesSortedByEnd vt).filter
      (fun i => !(keyLt (nw.node b).startT largestNode (nw.node i).endT (nw.node i)))).filter
    (fun i => nw.canReach i b)

/-- the pinned (pre-fix) variant, kept for the witness theorem of F1 -/
def predecessorsPinned (nw : Network) (vt : Nat) (b : Nat) : List Nat :=
  ((nw.typeNodesSortedByEnd vt).filter
      (fun i => keyLt (nw.node i).endT (nw.node i) (nw.node b).startT smallestNode)).filter
    (fun i => nw.canReach i b)

/-! #### capacities, demand -/
/-- `Depot::capacity_for` -/
def depotCapacityFor (d : Depot) (vt : Nat) : Nat :=
  match assocGet? d.allowed vt with
  | some (some c) => Nat.min c d.total
  | some none => d.total
  | none => 0

def capacityOf (nw : Network) (d vt : Nat) : Nat := depotCapacityFor (nw.depot d) vt
def totalCapacityOf (nw : Network) (d : Nat) : Nat := (nw.depot d).total

def divCeil (a b : Nat) : Nat := (a + b - 1) / b

/-- `number_of_vehicles_required_to_serve` -/
def requiredVehicles (nw : Network) (vt : Nat) (trip : Nat) : Nat :=
  let n := nw.node trip
  let t := nw.vtype vt
  Nat.max (divCeil n.pax t.capacity) (divCeil n.seated t.seats)

def optMin : Option Nat → Option Nat → Option Nat
  | some a, some b => some (Nat.min a b)
  | some a, none => some a
  | none, b => b

/-- `maximal_formation_count_for` (after the F3 repair: the `Option` minimum of both limits) -/
def maxFormationFor (nw : Network) (trip : Nat) : Option Nat :=
  optMin (nw.vtype (nw.node trip).vt).maxForm (nw.node trip).maxForm

/-- the pinned variant: `limit_of_type.map(|l| l.min(limit_of_node.unwrap_or(l)))` -/
def maxFormationForPinned (nw : Network) (trip : Nat) : Option Nat :=
  (nw.vtype (nw.node trip).vt).maxForm.map (fun l => Nat.min l ((nw.node trip).maxForm.getD l))

def compatibleWithType (nw : Network) (i vt : Nat) : Bool :=
  if (nw.node i).isService then (nw.node i).vt == vt else true

def startDepotNodeOf (_nw : Network) (d : Nat) : Nat := 2 * d
def endDepotNodeOf (_nw : Network) (d : Nat) : Nat := 2 * d + 1
def depotIdxOf (nw : Network) (i : Nat) : Nat := (nw.node i).depot

/-- stable insertion sort by a `Dist` key (`sort_by_key` is stable) -/
def sortByDist (key : Nat → Dist) (l : List Nat) : List Nat :=
  l.mergeSort (fun a b => Dist.le (key a) (key b))

def startDepotsSortedByDistanceTo (nw : Network) (loc : Loc) : List Nat :=
  sortByDist (fun d => nw.distance (nw.node d).startLoc loc) nw.startDepotNodes

def endDepotsSortedByDistanceFrom (nw : Network) (loc : Loc) : List Nat :=
  sortByDist (fun d => nw.distance loc (nw.node d).startLoc) nw.endDepotNodes

end Network

/-! ### load -/
namespace Instance

def route (i : Instance) (r : Nat) : Route := i.routes.getD r default

/-- all (departure, departure segment) pairs in input order with their route segment -/
def flatSegs (i : Instance) : List (Route × RSeg × DSeg) :=
  i.departures.flatMap (fun d =>
    d.segs.map (fun s => (i.route d.route, (i.route d.route).segs.getD s.rseg default, s)))

/-- `determine_planning_days`: ⌈(latest − earliest)/86400⌉·86400. `none` = the Rust panic when
    there is no activity at all (`Earliest − Latest`). -/
def planning? (i : Instance) : Option Nat :=
  let starts := i.maint.map (·.start) ++ i.flatSegs.map (fun x => x.2.2.departure)
  let ends := i.maint.map (·.stop) ++ i.flatSegs.map (fun x => x.2.2.departure + x.2.1.duration)
  match starts, ends with
  | s :: ss, e :: es =>
    let lo := ss.foldl Nat.min s
    let hi := es.foldl Nat.max e
    some (Network.divCeil (hi - lo) 86400 * 86400)
  | _, _ => none

def planning (i : Instance) : Nat := i.planning?.getD 0

/-- `create_locations`: capped matrices -/
def loadMatrix (idx : List Nat) (rows : List (List Nat)) (cap : Nat) :
    List (Nat × List (Nat × Nat)) :=
  (idx.zip rows).map (fun (o, row) => (o, (idx.zip row).map (fun (d, v) => (d, Nat.min v cap))))

/-- `create_depots` + the overflow depot of `Network::new`. -/
def loadDepots (i : Instance) (nService : Nat) (overflowCap : Nat) : List Depot :=
  let given : List Depot :=
    match i.depots with
    | some ds => ds.map (fun d => { loc := .station d.loc, total := d.capacity, allowed := d.allowed })
    | none => i.defaultOrder.map (fun l =>
        { loc := .station l, total := nService,
          allowed := (List.range i.vtypes.length).map (fun vt => (vt, none)) })
  given ++ [{ loc := .nowhere, total := overflowCap,
              allowed := (List.range i.vtypes.length).map (fun vt => (vt, none)) }]

/-- overflow capacity after the F4 repair: `Idx::MAX` (no more vehicles than ids can exist) -/
def overflowCap (_i : Instance) : Nat := 65535

/-- the pinned formula: `#service trips · max over types of (limit or 1)` -/
def overflowCapPinned (i : Instance) : Nat :=
  i.flatSegs.length * ((i.vtypes.map (fun t => t.maxForm.getD 1)).foldl Nat.max 0 |> fun m =>
    if i.vtypes.isEmpty then 1 else m)

def depotNodes (ds : List Depot) : List Node :=
  (List.range ds.length).flatMap (fun k =>
    let d := ds.getD k default
    [ { kind := .startDepot, idx := 2 * k, startT := .earliest, endT := .earliest,
        startLoc := d.loc, endLoc := d.loc, depot := k },
      { kind := .endDepot, idx := 2 * k + 1, startT := .latest, endT := .latest,
        startLoc := d.loc, endLoc := d.loc, depot := k } ])

/-- service trips grouped by vehicle type in type order, input order inside a type
    (`create_service_trips`, then the `for vehicle_type in vehicle_types.iter()` loop). -/
def serviceNodesFrom (i : Instance) (first : Nat) : List Node :=
  let grouped := (List.range i.vtypes.length).flatMap (fun vt =>
    i.flatSegs.filter (fun x => x.1.vt == vt))
  (List.range grouped.length).map (fun k =>
    let (r, rs, ds) := grouped.getD k default
    { kind := .service, idx := first + k,
      startT := .point ds.departure, endT := .point (ds.departure + rs.duration),
      startLoc := .station rs.origin, endLoc := .station rs.dest,
      vt := r.vt, dist := rs.distance,
      pax := if ds.passengers = 0 then 1 else ds.passengers,
      seated := ds.seated, maxForm := rs.maxForm })

def maintNodesFrom (i : Instance) (first : Nat) : List Node :=
  (List.range i.maint.length).map (fun k =>
    let m := i.maint.getD k default
    { kind := .maint, idx := first + k, startT := .point m.start, endT := .point m.stop,
      startLoc := .station m.loc, endLoc := .station m.loc, tracks := m.tracks })

def loadWith (i : Instance) (ovCap : Nat) : Network :=
  let nService := i.flatSegs.length
  let ds := i.loadDepots nService ovCap
  let dn := depotNodes ds
  let sn := i.serviceNodesFrom dn.length
  let mn := i.maintNodesFrom (dn.length + sn.length)
  { nodes := (dn ++ sn ++ mn).toArray
    vtypes := i.vtypes.toArray
    depots := ds.toArray
    nLocs := i.nLocs
    dhDur := loadMatrix i.dhIdx i.dhDur i.planning
    dhDist := loadMatrix i.dhIdx i.dhDist Dist.MAX_DISTANCE
    forbidDH := i.forbidDH, shuntMin := i.shuntMin, shuntDH := i.shuntDH, maxDist := i.maxDist
    cStaff := i.cStaff, cService := i.cService, cMaint := i.cMaint, cDH := i.cDH, cIdle := i.cIdle
    planning := i.planning }

def load (i : Instance) : Network := i.loadWith i.overflowCap

end Instance
end RSSched
