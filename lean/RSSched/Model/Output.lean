/-
Model/Output: solution/src/json_serialisation.rs (`schedule_to_json` and helpers) and the
objective part of `create_output_json`, producing the abstract `Output` record of Spec/Output.lean
(ids resolved to positions, times as `ExtTime`).
-/
import RSSched.Model.Objective
import RSSched.Spec.Output
namespace RSSched
open Network Spec

/-- `schedule_dead_head_trip`: where the dead-head trip between two consecutive tour nodes is put -/
def placeDeadHead (nw : Network) (a b : Nat) : R (ExtTime × ExtTime) :=
  let n1 := nw.node a
  let n2 := nw.node b
  if n1.isDepot then do
    let dep ← ExtTime.subDur n2.startT (nw.minDur a b)
    pure (dep, n2.startT)
  else pure (n1.endT, ExtTime.add n1.endT (nw.minDur a b))

/-- `vehicle_to_json` -/
def vehicleToOutput (nw : Network) (s : Schedule) (v : Veh) : R OVehicle := do
  let t ← unwrapO (s.tourOf? v) "tour_of(vehicle_idx).unwrap()"
  let vt ← unwrapO (s.typeOf? v) "vehicle type"
  let f ← t.firstNode
  let l ← t.lastNode
  let ps := pairs t.nodes
  let moves := ps.filter (fun (a, b) => (nw.node a).endLoc != (nw.node b).startLoc)
  let dhts ← Tour.mapMR (fun (k, (a, b)) => do
      let (dep, arr) ← placeDeadHead nw a b
      pure ({ id := k, origin := (nw.node a).endLoc, dest := (nw.node b).startLoc, dep, arr } : ODht))
    ((List.range moves.length).zip moves)
  let act (n : Nat) : OAct :=
    { isMaint := (nw.node n).isMaint, node := n, origin := (nw.node n).startLoc, dest := (nw.node n).endLoc,
      dep := (nw.node n).startT, arr := (nw.node n).endT }
  let seconds := ps.map (·.2)
  let segs := (seconds.filter (fun n => (nw.node n).isService)).map act
  let maints := (seconds.filter (fun n => (nw.node n).isMaint)).map act
  pure { id := v, vt, startDepot := nw.depotIdxOf f, endDepot := nw.depotIdxOf l, acts := segs ++ maints, dhts }

/-- `schedule_to_json` + the objective of `create_output_json` -/
def toOutput (nw : Network) (s : Schedule) : R Output := do
  let vehicles ← Tour.mapMR (vehicleToOutput nw s) (s.vehiclesAll nw)
  let loads := (List.range nw.depots.size).flatMap (fun d => nw.typeIdxs.filterMap (fun vt =>
    let k := (s.usageOf d vt).1.length
    if k > 0 then some (d, vt, k) else none))
  let cycles := nw.typeIdxs.flatMap (fun vt => (s.transitionOf vt).cycles.map (fun c => (vt, c.vehicles)))
  let segs := nw.typeIdxs.flatMap (fun vt => (nw.serviceNodes vt).map (fun n =>
    ({ node := n, origin := (nw.node n).startLoc, dest := (nw.node n).endLoc, dep := (nw.node n).startT,
       arr := (nw.node n).endT, vt := vt, formation := s.formationOf n } : OSeg)))
  let slots := nw.maintNodes.map (fun n =>
    ({ node := n, origin := (nw.node n).startLoc, dest := (nw.node n).startLoc, dep := (nw.node n).startT,
       arr := (nw.node n).endT, vt := 0, formation := s.formationOf n } : OSeg))
  let dhts := vehicles.flatMap (fun v => v.dhts.map (fun d => { d with formation := [v.id] }))
  pure { unserved := ((s.unserved.1 + s.unserved.2 : Nat) : Int), violation := s.violation,
         vehicleCount := (s.vehicles.length : Int), costs := (s.costs : Int),
         depotLoads := loads, vehicles, cycles, segs, slots, dhts }

end RSSched
