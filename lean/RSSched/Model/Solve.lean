/-
Model/Solve: `server::solve_instance` (server/src/lib.rs) as one function over the stage models.
What the external solvers return is an input: the tours decoded from the min-cost flow per vehicle
type (in the order `Schedule::from_tours` visits the types), the fuel of the local search (any
number of accepted steps) and the transitions chosen by the transition optimiser. Everything else
— `from_tours`, `improve_depots(None)`, the local search over the modelled neighbourhood,
`set_next_day_transitions`, `reassign_end_depots_consistent_with_transitions` — is the model.
-/
import RSSched.Model.Swaps
import RSSched.Model.Objective
namespace RSSched
namespace Solve
open Schedule

/-- `Schedule::from_tours`: one `spawn_vehicle_for_path` per tour, type by type -/
def fromTours (nw : Network) (byType : List (Nat × List (List Nat))) : R Schedule :=
  byType.foldlM (fun (sch : Schedule) (p : Nat × List (List Nat)) =>
    p.2.foldlM (fun (sc : Schedule) tour => do
      let (s', _) ← spawnVehicleForPath nw sc p.1 tour
      pure s') sch) (Schedule.empty nw)

/-- candidate schedules of `neighbors_of` (a faulting enumeration yields no candidate) -/
def nbrs (nw : Network) (limit threshold : Option Nat) (s : Schedule) : List Schedule :=
  match Swaps.neighborsOf nw limit threshold s .noSwap with
  | .ok cs => cs.map (·.sched)
  | .error _ => []

structure Oracle where
  tours : List (Nat × List (List Nat))          -- decoded flow, per type
  fuel : Nat                                    -- accepted local-search steps at most
  limit : Option Nat := some 10800              -- segment length limit of the neighbourhood
  threshold : Option Nat := some 600            -- overhead threshold of the neighbourhood
  optimise : Schedule → List (Nat × Transition) -- transition optimiser

structure Trace where
  flow : Schedule
  start : Schedule
  afterSearch : Schedule
  withTransitions : Schedule
  final : Schedule

/-- the stage wiring of `solve_instance` (repaired: the last stage gets the schedule carrying the
    optimised transitions, finding F6) -/
def solve (nw : Network) (o : Oracle) : R Trace := do
  let flow ← fromTours nw o.tours
  let start ← improveDepots nw flow none
  let sol := if nw.maintNodes.isEmpty then start
    else (searchFuel Schedule.objective (nbrs nw o.limit o.threshold) o.fuel start).1
  let withT := setNextDayTransitions sol (o.optimise sol)
  let final ← reassignEndDepotsConsistent nw withT
  pure { flow, start, afterSearch := sol, withTransitions := withT, final }

end Solve
end RSSched
