/-
Spec/Output: the properties of the RETURNED JSON (C01–C05, C07), stated on the output record and
the instance only. `nw` below is always `Instance.load i` — the specification-side encoding of the
instance (Props/C17) — never the implementation's network.
-/
import RSSched.Spec.Schedule
namespace RSSched.Spec
open RSSched Network

structure OAct where
  isMaint : Bool
  node : Nat
  origin : Loc
  dest : Loc
  dep : ExtTime
  arr : ExtTime
  deriving Repr, DecidableEq, Inhabited

structure ODht where
  id : Nat
  origin : Loc
  dest : Loc
  dep : ExtTime
  arr : ExtTime
  formation : List Veh := []
  deriving Repr, DecidableEq, Inhabited

structure OVehicle where
  id : Veh
  vt : Nat
  startDepot : Nat
  endDepot : Nat
  acts : List OAct := []       -- departure segments then maintenance slots, as listed
  dhts : List ODht := []
  deriving Repr, DecidableEq, Inhabited

structure OSeg where
  node : Nat
  origin : Loc
  dest : Loc
  dep : ExtTime
  arr : ExtTime
  vt : Nat                     -- unused for slots
  formation : List Veh
  deriving Repr, DecidableEq, Inhabited

structure Output where
  unserved : Int := 0
  violation : Int := 0
  vehicleCount : Int := 0
  costs : Int := 0
  depotLoads : List (Nat × Nat × Nat) := []
  vehicles : List OVehicle := []
  cycles : List (Nat × List Veh) := []
  segs : List OSeg := []
  slots : List OSeg := []
  dhts : List ODht := []
  deriving Repr, Inhabited

/-- the itinerary of a vehicle in chronological order (stable merge of the two listings) -/
def itinerary (v : OVehicle) : List OAct := v.acts.mergeSort (fun a b => ExtTime.le a.dep b.dep)

/-- the node sequence start depot – activities – end depot -/
def nodeSeq (nw : Network) (v : OVehicle) : List Nat :=
  [nw.startDepotNodeOf v.startDepot] ++ (itinerary v).map (·.node) ++ [nw.endDepotNodeOf v.endDepot]

/-- C01: itineraries are time-, place- and type-feasible -/
def out1Diffs (nw : Network) (o : Output) : List String :=
  o.vehicles.flatMap (fun v =>
    let it := itinerary v
    (if v.startDepot < nw.depots.size && v.endDepot < nw.depots.size then [] else [s!"depot-exists {v.id.idx}"]) ++
    (if it.isEmpty then [s!"no-activity {v.id.idx}"] else []) ++
    (if chainB nw (nodeSeq nw v) then [] else [s!"not-connectable {v.id.idx} [{(nodeSeq nw v)}]"]) ++
    (if it.all (fun a => if a.isMaint then (nw.node a.node).isMaint
                         else (nw.node a.node).isService && (nw.node a.node).vt == v.vt)
     then [] else [s!"vehicle-type {v.id.idx}"]))

/-- C02: formation, track and depot limits -/
def out2Diffs (nw : Network) (o : Output) : List String :=
  (o.segs.filterMap (fun s =>
    match nw.maxFormationFor s.node with
    | some l => if s.formation.length ≤ l then none else some s!"formation-limit node={s.node} size={s.formation.length} limit={l}"
    | none => none)) ++
  (o.slots.filterMap (fun s =>
    if s.formation.length ≤ (nw.node s.node).tracks then none
    else some s!"track-limit node={s.node} size={s.formation.length} tracks={(nw.node s.node).tracks}")) ++
  ((List.range (nw.depots.size - 1)).flatMap (fun d =>
    let per := nw.typeIdxs.map (fun vt => (o.vehicles.filter (fun v => v.startDepot == d && v.vt == vt)).length)
    ((nw.typeIdxs.zip per).filterMap (fun (vt, k) =>
      if k ≤ nw.capacityOf d vt then none else some s!"depot-type-capacity depot={d} type={vt} count={k} cap={nw.capacityOf d vt}")) ++
    (if sumNat per ≤ nw.totalCapacityOf d then [] else [s!"depot-total-capacity depot={d} count={sumNat per} cap={nw.totalCapacityOf d}"])))

def sortNat (l : List Nat) : List Nat := l.mergeSort (· ≤ ·)

/-- expected dead-head trips of a node sequence: the location changes, in order -/
def expectedDhts (nw : Network) (ns : List Nat) : List (Nat × Nat) :=
  (pairs ns).filter (fun (x, y) => (nw.node x).endLoc != (nw.node y).startLoc)

/-- C03: complete, vehicle view = trip view, depot loads, dead-head trips -/
def out3Diffs (nw : Network) (o : Output) : List String :=
  let svc := nw.idxsWhere Node.isService
  let mnt := nw.idxsWhere Node.isMaint
  let segOk (s : OSeg) : Bool :=
    let n := nw.node s.node
    n.isService && s.origin == n.startLoc && s.dest == n.endLoc && s.dep == n.startT && s.arr == n.endT && s.vt == n.vt
  let slotOk (s : OSeg) : Bool :=
    let n := nw.node s.node
    n.isMaint && s.origin == n.startLoc && s.dep == n.startT && s.arr == n.endT
  let actOk (a : OAct) : Bool :=
    let n := nw.node a.node
    a.origin == n.startLoc && a.dest == n.endLoc && a.dep == n.startT && a.arr == n.endT
  let vids := o.vehicles.map (·.id)
  let membership (s : OSeg) : Bool :=
    nodupB s.formation && s.formation.all (vids.contains ·) &&
    o.vehicles.all (fun v => (s.formation.contains v.id) == ((v.acts.map (·.node)).contains s.node))
  let loadsExp := (List.range nw.depots.size).flatMap (fun d => nw.typeIdxs.filterMap (fun vt =>
    let k := (o.vehicles.filter (fun v => v.startDepot == d && v.vt == vt)).length
    if k > 0 then some (d, vt, k) else none))
  let dhtOk (v : OVehicle) : Bool :=
    let exp := expectedDhts nw (nodeSeq nw v)
    v.dhts.length == exp.length &&
    ((List.range exp.length).zip (exp.zip v.dhts)).all (fun (k, ((x, y), d)) =>
      d.id == k && d.origin == (nw.node x).endLoc && d.dest == (nw.node y).startLoc &&
      ExtTime.le (nw.node x).endT d.dep && ExtTime.le d.dep d.arr && ExtTime.le d.arr (nw.node y).startT)
  let allDhts := o.vehicles.flatMap (fun v => v.dhts.map (fun d => { d with formation := [v.id] }))
  (if sortNat (o.segs.map (·.node)) == sortNat svc then [] else ["segments-listed-once"]) ++
  (if sortNat (o.slots.map (·.node)) == sortNat mnt then [] else ["slots-listed-once"]) ++
  (if o.segs.all segOk then [] else ["segment-fields"]) ++
  (if o.slots.all slotOk then [] else ["slot-fields"]) ++
  (if o.vehicles.all (fun v => v.acts.all actOk && nodupB (v.acts.map (·.node))) then [] else ["vehicle-activity-fields"]) ++
  (if nodupB vids then [] else ["vehicle-ids-unique"]) ++
  (if (o.segs ++ o.slots).all membership then [] else ["formation-vs-itinerary"]) ++
  -- listed in hash-map order by the implementation: compared as a set
  (if o.depotLoads.all (loadsExp.contains ·) && loadsExp.all (o.depotLoads.contains ·) && o.depotLoads.length == loadsExp.length then [] else ["depot-loads"]) ++
  (if o.vehicles.all dhtOk then [] else ["dead-head-trips"]) ++
  (if o.dhts == allDhts then [] else ["dead-head-trip-list"])

/-- the tour value of a vehicle recomputed from the output -/
def tourOfOutput (nw : Network) (v : OVehicle) : Tour := Tour.computing nw (nodeSeq nw v) false

/-- C04: independent evaluation of the four objective components -/
def evalRef (nw : Network) (o : Output) : Int × Int × Int × Int :=
  let typeOf (id : Veh) : Option Nat := (o.vehicles.find? (·.id == id)).map (·.vt)
  let un := o.segs.map (fun s => Schedule.unservedAt nw s.node (s.formation.filterMap typeOf))
  let tours : Tours := o.vehicles.map (fun v => (v.id, tourOfOutput nw v))
  let viol := o.cycles.map (fun (_, c) => posMax0 ((cycleCounterRef nw tours c).getD 0))
  let costs := sumNat (tours.map (fun p => p.2.costs)) + nw.numberOfServiceNodes * nw.cStaff
  (((sumNat (un.map (·.1)) + sumNat (un.map (·.2)) : Nat) : Int), sumInt viol, (o.vehicles.length : Int), (costs : Int))

def out4Diffs (nw : Network) (o : Output) : List String :=
  let (u, v, n, c) := evalRef nw o
  (if o.unserved == u then [] else [s!"unserved reported={o.unserved} recomputed={u}"]) ++
  (if o.violation == v then [] else [s!"maintenance-violation reported={o.violation} recomputed={v}"]) ++
  (if o.vehicleCount == n then [] else [s!"vehicle-count reported={o.vehicleCount} recomputed={n}"]) ++
  (if o.costs == c then [] else [s!"costs reported={o.costs} recomputed={c}"])

/-- C05: the cycles of a type partition its vehicles; every vehicle ends where its successor starts -/
def out5Diffs (nw : Network) (o : Output) : List String :=
  nw.typeIdxs.flatMap (fun vt =>
    let cyc := (o.cycles.filter (·.1 == vt)).map (·.2)
    let flat := cyc.flatMap id
    let vs := (o.vehicles.filter (·.vt == vt)).map (·.id)
    let dep (id : Veh) : Option (Nat × Nat) := (o.vehicles.find? (·.id == id)).map (fun v => (v.startDepot, v.endDepot))
    (if nodupB flat && sameVehSet flat vs then [] else [s!"cycles-partition type={vt}"]) ++
    (cyc.flatMap (fun c => (cyclicPairs c).filterMap (fun (a, b) =>
      match dep a, dep b with
      | some (_, ea), some (sb, _) => if ea == sb then none else some s!"end-depot-vs-successor {a.idx}->{b.idx} end={ea} start={sb}"
      | _, _ => some s!"cycle-member-unknown {a.idx} {b.idx}"))) ++
    ((List.range nw.depots.size).filterMap (fun d =>
      let ends := (o.vehicles.filter (fun v => v.vt == vt && v.endDepot == d)).length
      let starts := (o.vehicles.filter (fun v => v.vt == vt && v.startDepot == d)).length
      if ends == starts then none else some s!"depot-balance depot={d} type={vt} starts={starts} ends={ends}")))

/-- vehicles needed for a trip, capped by the applicable formation limit -/
def coverTarget (nw : Network) (trip : Nat) : Nat :=
  let req := nw.requiredVehicles (nw.node trip).vt trip
  match nw.maxFormationFor trip with
  | some l => Nat.min req l
  | none => req

/-- C07: the instance's lower bound on unserved passengers -/
def lowerBound (nw : Network) : Nat :=
  sumNat ((nw.idxsWhere Node.isService).map (fun n =>
    let k := coverTarget nw n
    let u := Schedule.unservedAt nw n (List.replicate k (nw.node n).vt)
    u.1 + u.2))

def out7Diffs (nw : Network) (o : Output) : List String :=
  (if o.unserved == (lowerBound nw : Int) then [] else [s!"unserved={o.unserved} lower-bound={lowerBound nw}"]) ++
  (o.segs.filterMap (fun s =>
    if s.formation.length ≥ coverTarget nw s.node then none
    else some s!"under-served node={s.node} vehicles={s.formation.length} target={coverTarget nw s.node}"))

end RSSched.Spec
