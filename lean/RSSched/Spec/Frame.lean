/-
Spec/Frame: C13 — each public schedule modification has its documented effect and nothing else.
Written from the doc comments of solution/src/schedule/modifications.rs and the property text, in
terms of the pre-state and the post-state only (no model step is involved).
-/
import RSSched.Spec.Schedule
namespace RSSched.Spec
open RSSched Network

inductive SOp where
  | spawn (vt : Nat) (path : List Nat)
  | dummySpawn (d : Veh) (vt : Nat)
  | delete (v : Veh)
  | addPath (v : Veh) (path : List Nat)
  | rmSeg (v : Veh) (a b : Nat)
  | fit (p r : Veh) (a b : Nat)
  | override (p r : Veh) (a b : Nat)
  | improve (vs : Option (List Veh))
  | endGreedy
  | recompute (vts : Option (List Nat))
  | endConsistent
  | setTrans (vt : Nat) (v : Veh) (ci : Nat)
  | init
  deriving Repr, DecidableEq, Inhabited

def nodesOf (s : Schedule) (v : Veh) : Option (List Nat) := (s.tourOf? v).map (·.nodes)
def activitiesOf (nw : Network) (l : List Nat) : List Nat := l.filter (fun n => !(nw.node n).isDepot)
def servicesOf (nw : Network) (l : List Nat) : List Nat := l.filter (fun n => (nw.node n).isService)

/-- all tours (real and dummy) except those of the listed vehicles are identical -/
def othersUntouched (pre post : Schedule) (except : List Veh) : Bool :=
  (pre.tours ++ pre.dummyTours).all (fun (v, t) => except.contains v || post.tourOf? v == some t) &&
  (post.tours ++ post.dummyTours).all (fun (v, _) => except.contains v || (pre.tourOf? v).isSome)

/-- formations of all nodes outside `touched` are identical -/
def formationsUntouched (nw : Network) (pre post : Schedule) (touched : List Nat) : Bool :=
  nw.coverableNodes.all (fun n => touched.contains n || pre.formationOf n == post.formationOf n)

/-- the formation rule: a replacing vehicle takes the replaced one's position, additions go to the
    tail, removals keep the order -/
def formationStepOk (f f' : List Veh) : Bool :=
  let removed := f.filter (fun v => !(f'.contains v))
  let added := f'.filter (fun v => !(f.contains v))
  match removed, added with
  | [], [] =>
    -- unchanged, or the receiver already served the node: re-added at the tail, old entry removed
    f' == f || f.any (fun x => f' == f.erase x ++ [x])
  | [], [a] => f' == f ++ [a]
  | [r], [] =>
    f' == f.filter (· != r) ||
    -- the receiver was already on the node: it takes the provider's position and its own old
    -- entry is removed (override of a node the receiver already serves)
    f.any (fun x => x != r && f' == (f.map (fun v => if v == r then x else v)).erase x)
  | [r], [a] => f' == f.map (fun v => if v == r then a else v)
  | _, _ => false

def formationRule (nw : Network) (pre post : Schedule) : Bool :=
  nw.coverableNodes.all (fun n => formationStepOk (pre.formationOf n) (post.formationOf n))

def slice? (nodes : List Nat) (a b : Nat) : Option (List Nat) :=
  match posOf nodes a, posOf nodes b with
  | some s, some e => if s ≤ e then some ((nodes.drop s).take (e + 1 - s)) else none
  | _, _ => none

/-- depot-only operations: vehicle sets, activities of every tour, dummy tours and all
    formations unchanged -/
def depotOnly (nw : Network) (pre post : Schedule) : Bool :=
  pre.vehicles == post.vehicles && pre.dummyTours == post.dummyTours && pre.formations == post.formations &&
  pre.idsByType == post.idsByType && pre.dummyIds == post.dummyIds && pre.counter == post.counter &&
  pre.tours.all (fun (v, t) => (post.tourOf? v).map (fun t' => inner t'.nodes) == some (inner t.nodes)) &&
  pre.tours.length == post.tours.length

def newDummyOf (pre post : Schedule) : List Veh :=
  (post.dummyTours.map (·.1)).filter (fun d => !(pre.isDummy d))

/-- C13 monitor for a successful operation; `extra` is what the call returned besides the schedule
    (removed path / new dummy id) -/
def frameDiffs (nw : Network) (op : SOp) (pre post : Schedule) (retPath : Option (List Nat)) (retDummy : Option Veh) : List String :=
  let chk (b : Bool) (name : String) : List String := if b then [] else [name]
  match op with
  | .init => []
  | .spawn vt path =>
    let v := Veh.real pre.counter
    let acts := activitiesOf nw path
    chk (post.typeOf? v == some vt && !(pre.isVehicle v)) "spawn-new-vehicle" ++
    chk ((nodesOf post v).map inner == some acts) "spawn-activities" ++
    chk (othersUntouched pre post [v]) "spawn-others-untouched" ++
    chk (formationsUntouched nw pre post acts && acts.all (fun n => post.formationOf n == pre.formationOf n ++ [v])) "spawn-formations" ++
    chk (post.counter == pre.counter + 1 && pre.dummyTours == post.dummyTours) "spawn-counter-dummies"
  | .dummySpawn d vt =>
    let v := Veh.real pre.counter
    let dn := (nodesOf pre d).getD []
    chk (post.typeOf? v == some vt && !(post.isDummy d)) "dummyspawn-replaced" ++
    chk ((nodesOf post v).map inner == some dn) "dummyspawn-activities" ++
    chk (othersUntouched pre post [v, d]) "dummyspawn-others-untouched" ++
    chk (formationsUntouched nw pre post dn && formationRule nw pre post) "dummyspawn-formations"
  | .delete v =>
    let old := (nodesOf pre v).getD []
    let svc := servicesOf nw old
    let nd := newDummyOf pre post
    chk (!(post.isVehicle v) && (post.tourOf? v).isNone) "delete-vehicle-gone" ++
    chk (if svc.isEmpty then nd.isEmpty else nd == [Veh.dum pre.counter] && nodesOf post (Veh.dum pre.counter) == some svc) "delete-dummy-holds-service-trips" ++
    chk (othersUntouched pre post (v :: nd)) "delete-others-untouched" ++
    chk (formationsUntouched nw pre post old && formationRule nw pre post && nw.coverableNodes.all (fun n => !((post.formationOf n).contains v))) "delete-formations"
  | .addPath v path =>
    let old := (nodesOf pre v).getD []
    let (exp, dropped) := insertRef nw false old path
    chk (nodesOf post v == some exp) "addpath-receiver-tour" ++
    chk (retPath == (if hasNonDepot nw dropped then some dropped else none)) "addpath-returned-conflict" ++
    chk (othersUntouched pre post [v]) "addpath-others-untouched" ++
    chk (formationsUntouched nw pre post (path ++ dropped) &&
         nw.coverableNodes.all (fun n => ((post.formationOf n).contains v) == exp.contains n) &&
         nw.coverableNodes.all (fun n => (post.formationOf n).filter (· != v) == (pre.formationOf n).filter (· != v))) "addpath-formations" ++
    chk (pre.dummyTours == post.dummyTours && pre.counter == post.counter) "addpath-no-dummy"
  | .rmSeg v a b =>
    let old := (nodesOf pre v).getD []
    match slice? old a b with
    | none => ["rmseg-segment-not-on-tour"]
    | some sl =>
      let rest := old.filter (fun n => !(sl.contains n))
      let svc := servicesOf nw sl
      let nd := newDummyOf pre post
      chk (if hasNonDepot nw rest then nodesOf post v == some rest else !(post.isVehicle v)) "rmseg-provider-tour" ++
      chk (if svc.isEmpty then nd.isEmpty else nd == [Veh.dum pre.counter] && nodesOf post (Veh.dum pre.counter) == some svc) "rmseg-dummy-holds-service-trips" ++
      chk (othersUntouched pre post (v :: nd)) "rmseg-others-untouched" ++
      chk (formationsUntouched nw pre post sl && formationRule nw pre post &&
           (activitiesOf nw sl).all (fun n => !((post.formationOf n).contains v))) "rmseg-formations"
  | .override p r a b =>
    let pn := (nodesOf pre p).getD []
    let rn := (nodesOf pre r).getD []
    match slice? pn a b with
    | none => ["override-segment-not-on-tour"]
    | some sl =>
      let rest := pn.filter (fun n => !(sl.contains n))
      let rDummy := pre.isDummy r
      let (exp, dropped) := insertRef nw rDummy rn sl
      let displaced := servicesOf nw dropped
      let nd := newDummyOf pre post
      chk (if hasNonDepot nw rest then nodesOf post p == some rest else (post.tourOf? p).isNone) "override-provider-loses-moved-nodes" ++
      chk (nodesOf post r == some exp) "override-receiver-gains-moved-nodes" ++
      chk (if displaced.isEmpty then nd.isEmpty && retDummy.isNone
           else nd == [Veh.dum pre.counter] && retDummy == some (Veh.dum pre.counter) && nodesOf post (Veh.dum pre.counter) == some displaced) "override-displaced-trips-in-new-dummy" ++
      chk (othersUntouched pre post (p :: r :: nd)) "override-others-untouched" ++
      chk (formationsUntouched nw pre post (sl ++ dropped) && formationRule nw pre post &&
           -- on every moved activity the (real) receiver is listed and the (real) provider is not;
           -- on every displaced activity that was not moved the receiver is no longer listed
           (activitiesOf nw sl).all (fun n =>
             (!(pre.isVehicle r) || (post.formationOf n).contains r) &&
             (p == r || !(pre.isVehicle p) || !((post.formationOf n).contains p))) &&
           (activitiesOf nw dropped).all (fun n => sl.contains n || !((post.formationOf n).contains r))) "override-formations"
  | .fit p r a b =>
    let pn := (nodesOf pre p).getD []
    let rn := (nodesOf pre r).getD []
    match slice? pn a b with
    | none => ["fit-segment-not-on-tour"]
    | some sl =>
      let rn' := (nodesOf post r).getD []
      let rDummy := pre.isDummy r
      let slEff := if rDummy then activitiesOf nw sl else sl
      let moved := rn'.filter (fun n => !(rn.contains n))
      let restP := pn.filter (fun n => !(moved.contains n))
      chk (rn.all (fun n => rn'.contains n || (nw.node n).isDepot)) "fit-receiver-keeps-own-nodes" ++
      chk (moved.all (slEff.contains ·)) "fit-moved-nodes-from-segment" ++
      chk (if hasNonDepot nw restP then (nodesOf post p).map (activitiesOf nw) == some (activitiesOf nw restP)
           else (post.tourOf? p).isNone) "fit-provider-loses-exactly-moved-nodes" ++
      chk ((newDummyOf pre post).isEmpty && pre.counter == post.counter) "fit-no-new-dummy" ++
      chk (othersUntouched pre post [p, r]) "fit-others-untouched" ++
      chk (formationsUntouched nw pre post sl && formationRule nw pre post &&
           -- on every moved activity the (real) receiver is listed and the (real) provider is not
           (activitiesOf nw moved).all (fun n =>
             (!(pre.isVehicle r) || (post.formationOf n).contains r) &&
             (p == r || !(pre.isVehicle p) || !((post.formationOf n).contains p)))) "fit-formations"
  | .improve _ => chk (depotOnly nw pre post) "improve-depot-only"
  | .endGreedy =>
    chk (depotOnly nw pre post && pre.tours.all (fun (v, t) => (post.tourOf? v).map (·.nodes.head?) == some t.nodes.head?)) "endgreedy-end-depot-only"
  | .endConsistent =>
    chk (depotOnly nw pre post && pre.tours.all (fun (v, t) => (post.tourOf? v).map (·.nodes.head?) == some t.nodes.head?)) "endconsistent-end-depot-only" ++
    chk (nw.typeIdxs.all (fun vt => (pre.transitionOf vt).cycles.map (·.vehicles) == (post.transitionOf vt).cycles.map (·.vehicles))) "endconsistent-keeps-cycles" ++
    chk (nw.typeIdxs.all (fun vt => (post.transitionOf vt).cycles.all (fun c =>
          (cyclicPairs c.vehicles).all (fun (x, y) =>
            match post.tourOf? x, pre.tourOf? y with
            | some tx, some ty => endDepotOf nw tx == startDepotOf nw ty
            | _, _ => false)))) "endconsistent-end-depot-is-successors-start"
  | .recompute vts =>
    chk (depotOnly nw pre post && pre.tours == post.tours && pre.depotUsage == post.depotUsage) "recompute-tours-untouched" ++
    chk (nw.typeIdxs.all (fun vt => (vts.map (·.contains vt)).getD true || pre.transitionOf vt == post.transitionOf vt)) "recompute-other-types-untouched"
  | .setTrans _ _ _ =>
    chk (depotOnly nw pre post && pre.tours == post.tours && pre.depotUsage == post.depotUsage && pre.costs == post.costs && pre.unserved == post.unserved) "settrans-only-transitions"

end RSSched.Spec
