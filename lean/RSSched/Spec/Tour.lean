/-
Spec/Tour: what the properties demand of tours, written from the property texts (C09, C10, C12),
not from the code: no binary search, no deltas. Each predicate is a `Bool` function so that the
driver can evaluate it on the implementation's dumped states; Props/*.lean relate them to `Prop`s
and prove that the model's operations establish them.
-/
import RSSched.Model.Tour
namespace RSSched.Spec
open RSSched Network

/-- consecutive nodes are connectable -/
def chainB (nw : Network) (nodes : List Nat) : Bool :=
  (pairs nodes).all (fun p => nw.canReach p.1 p.2)

/-- strictly increasing in the order of `Node::cmp_start_time` -/
def sortedB (nw : Network) (nodes : List Nat) : Bool :=
  (pairs nodes).all (fun p => (nw.node p.1).ltStart (nw.node p.2))

/-- every node ends no later than its successor starts (what the position searches rely on; for
    real tours it follows from connectability, for dummy tours it is inherited from the paths they
    were built from) -/
def timeChainB (nw : Network) (nodes : List Nat) : Bool :=
  (pairs nodes).all (fun p => ExtTime.le (nw.node p.1).endT (nw.node p.2).startT)

def inner (nodes : List Nat) : List Nat := (nodes.drop 1).take (nodes.length - 2)

/-- C10: a real tour starts at a start depot, ends at an end depot, has at least one activity and
    only activities in between, and is a chronological path of connectable nodes. A dummy tour is
    a non-empty chronological sequence without depots: `Tour::new_dummy` keeps only the service
    trips of a path, so its consecutive nodes need not be directly connectable (reachability is
    not transitive: a→m→b does not imply a→b), and the public API can add maintenance slots to a
    dummy through `add_path_to_vehicle_tour`. -/
def tourValidB (nw : Network) (t : Tour) : Bool :=
  if t.isDummy then
    !t.nodes.isEmpty && t.nodes.all (fun n => isActivity (nw.node n)) && sortedB nw t.nodes
      && timeChainB nw t.nodes
  else
    t.nodes.length ≥ 3
      && (nw.node (t.nodes.headD 0)).isStartDepot
      && (nw.node (t.nodes.getLastD 0)).isEndDepot
      && (inner t.nodes).all (fun n => isActivity (nw.node n))
      && chainB nw t.nodes && sortedB nw t.nodes

/-- C09: every cached figure of a tour equals its from-scratch value. Returns the names of the
    fields that differ. -/
def tourCacheDiffs (nw : Network) (t : Tour) : List String :=
  let r := Tour.computing nw t.nodes t.isDummy
  (if t.visitsMaint != r.visitsMaint then ["visits_maintenance"] else []) ++
  (if t.usefulDur != r.usefulDur then ["useful_duration"] else []) ++
  (if t.serviceDist != r.serviceDist then ["service_distance"] else []) ++
  (if t.dhDist != r.dhDist then ["dead_head_distance"] else []) ++
  (if t.costs != r.costs then ["costs"] else [])

def tourCachesExactB (nw : Network) (t : Tour) : Bool := (tourCacheDiffs nw t).isEmpty

/-! ### C12 reference semantics of insertion -/

/-- `lastTrueLen p n`: one more than the largest `i < n` with `p i`, or 0 if there is none -/
def lastTrueLen (p : Nat → Bool) : Nat → Nat
  | 0 => 0
  | n + 1 => if p n then n + 1 else lastTrueLen p n

/-- `firstTrueFrom p fuel i`: the smallest `j` with `i ≤ j < i + fuel` and `p j`, or `i + fuel` -/
def firstTrueFrom (p : Nat → Bool) : Nat → Nat → Nat
  | 0, i => i
  | fuel + 1, i => if p i then i else firstTrueFrom p fuel (i + 1)

/-- the node at position `i` can reach `x` -/
def reachesAt (nw : Network) (nodes : List Nat) (x : Nat) (i : Nat) : Bool := nw.canReach (nodes.getD i 0) x
/-- `x` can reach the node at position `i` -/
def reachedAt (nw : Network) (nodes : List Nat) (x : Nat) (i : Nat) : Bool := nw.canReach x (nodes.getD i 0)

/-- number of nodes of the longest prefix whose last node can reach `x` (0 = empty prefix) -/
def keepPrefixLen (nw : Network) (nodes : List Nat) (x : Nat) : Nat :=
  lastTrueLen (reachesAt nw nodes x) nodes.length

/-- start index of the longest suffix whose first node `x` can reach (`length` = empty suffix) -/
def keepSuffixStart (nw : Network) (nodes : List Nat) (x : Nat) : Nat :=
  firstTrueFrom (reachedAt nw nodes x) nodes.length 0

/-- the depots of a path are dropped when it is inserted into a dummy tour -/
def stripForDummy (nw : Network) (isDummy : Bool) (path : List Nat) : List Nat :=
  if !isDummy then path else
  let p1 := if (nw.node (path.headD 0)).isDepot then path.drop 1 else path
  if (nw.node (p1.getLastD 0)).isDepot then p1.dropLast else p1

/-- reference result of inserting `path` into `nodes`: kept prefix, the whole path, kept suffix;
    and the dropped middle -/
def insertRef (nw : Network) (isDummy : Bool) (nodes path : List Nat) : List Nat × List Nat :=
  let p := stripForDummy nw isDummy path
  let first := p.headD 0
  let last := p.getLastD 0
  let k := if (nw.node first).isDepot then 0 else keepPrefixLen nw nodes first
  let m := if (nw.node last).isDepot then nodes.length else keepSuffixStart nw nodes last
  (nodes.take k ++ p ++ nodes.drop m, (nodes.drop k).take (m - k))

def hasNonDepot (nw : Network) (l : List Nat) : Bool := l.any (fun n => !(nw.node n).isDepot)

/-- C12 insert monitor: result nodes and reported dropped nodes agree with the reference -/
def insertSpecB (nw : Network) (isDummy : Bool) (old path new : List Nat) (removed : Option (List Nat)) : Bool :=
  let (exp, dropped) := insertRef nw isDummy old path
  new == exp && removed == (if hasNonDepot nw dropped then some dropped else none)

/-! ### C12 reference semantics of removal and sub-path -/

def posOf (nodes : List Nat) (x : Nat) : Option Nat := nodes.findIdx? (· == x)

inductive RemoveRef where
  | refused
  | ok (rest : List Nat) (removed : List Nat)
  deriving Repr, DecidableEq

/-- removal of the slice `a..b` (inclusive): refused when an endpoint is not on the tour, when
    the endpoints are out of order, when exactly one depot would go while activities stay, or
    when the neighbours of the slice are not connectable -/
def removeRef (nw : Network) (isDummy : Bool) (nodes : List Nat) (a b : Nat) : RemoveRef :=
  match posOf nodes a, posOf nodes b with
  | some s, some e =>
    if s > e then .refused else
    let n := nodes.length
    let rest := nodes.take s ++ nodes.drop (e + 1)
    let removed := (nodes.drop s).take (e + 1 - s)
    -- a stranded depot: a real tour keeps activities but loses a depot
    let strands := !isDummy && hasNonDepot nw rest && (s == 0 || e == n - 1)
    let gapBad := s > 0 && e < n - 1 && !(nw.canReach (nodes.getD (s - 1) 0) (nodes.getD (e + 1) 0))
    if strands || gapBad then .refused else .ok rest removed
  | _, _ => .refused

/-- sub-path of an existing segment: the slice, whenever both endpoints are on the tour in order
    and the slice contains an activity -/
def subPathRef (nw : Network) (nodes : List Nat) (a b : Nat) : Option (List Nat) :=
  match posOf nodes a, posOf nodes b with
  | some s, some e =>
    if s ≤ e then
      let sl := (nodes.drop s).take (e + 1 - s)
      if hasNonDepot nw sl then some sl else none
    else none
  | _, _ => none

/-- the two network-level hypotheses of the C09 tour theorems, as a check on a loaded network:
    depot nodes carry no distance and every node has a finite duration -/
def netHypsB (nw : Network) : Bool :=
  nw.allIdx.all (fun i =>
    (!(nw.node i).isDepot || (nw.node i).dist == 0) &&
    (match nw.nodeDur i with | .len _ => true | .inf => false))

/-- hypothesis of `C05_end_is_successors_start`, as a check on a loaded network: the end-depot node
    that belongs to the depot of a start-depot node is a node of that same depot (the second conjunct
    covers indices outside the node table, which read the default node) -/
def depotNodesB (nw : Network) : Bool :=
  nw.allIdx.all (fun n => !(nw.node n).isStartDepot ||
    nw.depotIdxOf (nw.endDepotNodeOf (nw.depotIdxOf n)) == nw.depotIdxOf n) &&
  ((nw.node (nw.endDepotNodeOf (default : Node).depot)).depot == (default : Node).depot)

/-- the two network-level hypotheses of the C10/C01 tour theorems (`C17.DepotTimes`, `NodesWF'`), as
    a check on a loaded network: depot nodes carry the artificial earliest/latest times and no node
    ends before it starts -/
def tourHypsB (nw : Network) : Bool :=
  nw.allIdx.all (fun i =>
    ((nw.node i).kind != .startDepot || (nw.node i).endT == .earliest) &&
    ((nw.node i).kind != .endDepot || (nw.node i).startT == .latest) &&
    ExtTime.le (nw.node i).startT (nw.node i).endT)

/-- hypothesis `ActPos` of the formation-membership theorems (C10Forms/C10Fit), as a check on a loaded
    network: every activity (service trip or maintenance slot) has a positive duration -/
def actPosB (nw : Network) : Bool :=
  nw.allIdx.all (fun i => !(isActivity (nw.node i)) || ExtTime.lt (nw.node i).startT (nw.node i).endT) &&
  !(isActivity (default : Node))

/-- all network-level hypotheses of the formation-membership theorems -/
def formHypsB (nw : Network) : Bool := tourHypsB nw && actPosB nw

/-- hypothesis of the depot-limits theorems: the start node of the overflow depot belongs to it -/
def ovfNodeB (nw : Network) : Bool :=
  nw.depotIdxOf (nw.startDepotNodeOf nw.overflowDepot) == nw.overflowDepot

end RSSched.Spec
