/-
Spec/Schedule: the structural invariants (C10), exactness of all cached figures (C09, C04) and
consistency of the rotation cycles (C15), written from the property texts. Each monitor returns
the list of violated clauses (empty = holds) so that a failure names what broke.
-/
import RSSched.Model.ScheduleBase
import RSSched.Spec.Tour
namespace RSSched.Spec
open RSSched Network

def vehLe (a b : Veh) : Bool := !(Veh.lt b a)
def sortVeh (l : List Veh) : List Veh := l.mergeSort vehLe
def strictlySorted (l : List Veh) : Bool := (pairs l).all (fun p => Veh.lt p.1 p.2)
def sameVehSet (a b : List Veh) : Bool := a.all (b.contains ·) && b.all (a.contains ·)

def nodupB {α} [BEq α] : List α → Bool
  | [] => true
  | x :: xs => !(xs.contains x) && nodupB xs

/-- consecutive pairs of a cycle, cyclically: length 0 ↦ none, length 1 ↦ the self loop -/
def cyclicPairs {α} : List α → List (α × α)
  | [] => []
  | x :: xs => pairs (x :: xs) ++ [((x :: xs).getLast?.getD x, x)]

/-- recomputed counter of one cycle: Σ maintenance counters of the tours + Σ cyclic depot links;
    `none` when a vehicle has no tour or a tour has no depots -/
def cycleCounterRef (nw : Network) (tours : Tours) (vs : List Veh) : Option Int := do
  let ts ← vs.mapM (fun v => assocGet? tours v)
  let mcs := ts.map (fun t => t.maintenanceCounter nw)
  let links ← (cyclicPairs ts).mapM (fun (a, b) =>
    match a.endDepot nw, b.startDepot nw with
    | .ok e, .ok s => some (Transition.depotDist nw e s)
    | _, _ => none)
  pure (sumInt mcs + sumInt links)

/-- C15: the cycles of a type contain each of its vehicles exactly once; lookup and the list of
    reusable empty cycles match the cycles; counters and totals equal recomputation -/
def transitionDiffs (nw : Network) (tours : Tours) (vehicles : List Veh) (tr : Transition) : List String :=
  let flat := tr.cycles.flatMap (·.vehicles)
  let expLookup := Transition.sortLookup ((List.range tr.cycles.length).flatMap (fun i =>
    (tr.cycles.getD i default).vehicles.map (fun v => (v, i))))
  let emptyIdx := (List.range tr.cycles.length).filter (fun i => (tr.cycles.getD i default).vehicles.isEmpty)
  let counters := tr.cycles.map (fun c => cycleCounterRef nw tours c.vehicles)
  (if nodupB flat && sameVehSet flat vehicles then [] else ["cycles-partition"]) ++
  (if Transition.sortLookup tr.lookup == expLookup then [] else ["cycle-lookup"]) ++
  (if nodupB tr.empty && tr.empty.all (emptyIdx.contains ·) && emptyIdx.all (tr.empty.contains ·) then [] else ["empty-cycles"]) ++
  (if (tr.cycles.zip counters).all (fun (c, r) => r == some c.counter) then [] else ["cycle-counter"]) ++
  (if tr.totalViolation == sumInt (tr.cycles.map (fun c => posMax0 c.counter)) then [] else ["total-violation"]) ++
  (if tr.totalCounter == sumInt (tr.cycles.map (·.counter)) then [] else ["total-counter"])

def startDepotOf (nw : Network) (t : Tour) : Option Nat :=
  match t.startDepot nw with | .ok n => some (nw.depotIdxOf n) | .error _ => none
def endDepotOf (nw : Network) (t : Tour) : Option Nat :=
  match t.endDepot nw with | .ok n => some (nw.depotIdxOf n) | .error _ => none

/-- C10: structural invariants of a schedule -/
def scheduleValidDiffs (nw : Network) (s : Schedule) : List String :=
  let vkeys := s.vehicles.map (·.1)
  let tkeys := s.tours.map (·.1)
  let listed := nw.typeIdxs.flatMap s.vehiclesOfType
  let c1 := nodupB vkeys && sameVehSet vkeys tkeys && sameVehSet vkeys listed && nodupB listed
    && vkeys.all (fun v => !v.dummy)
    && nw.typeIdxs.all (fun vt =>
        strictlySorted (s.vehiclesOfType vt) && (s.vehiclesOfType vt).all (fun v => s.typeOf? v == some vt))
    && s.idsByType.all (fun p => p.1 < nw.nTypes)
  let c2 := strictlySorted s.dummyIds && sameVehSet s.dummyIds (s.dummyTours.map (·.1))
    && nodupB (s.dummyTours.map (·.1)) && s.dummyIds.all (·.dummy)
  let c3 := s.tours.all (fun (v, t) =>
    tourValidB nw t && !t.isDummy &&
    (inner t.nodes).all (fun n => !(nw.node n).isService || some (nw.node n).vt == s.typeOf? v))
  let c4 := s.dummyTours.all (fun (_, t) => tourValidB nw t && t.isDummy)
  let cov := nw.coverableNodes
  let c5 := cov.all (fun n =>
    let f := s.formationOf n
    nodupB f && f.all (fun v => s.isVehicle v && ((s.tourOf? v).map (·.nodes.contains n)).getD false)
      && s.tours.all (fun (v, t) => !(t.nodes.contains n) || f.contains v))
    && s.formations.all (fun p => cov.contains p.1) && nodupB (s.formations.map (·.1))
    && cov.all (fun n => (assocGet? s.formations n).isSome)
  let c6 := cov.all (fun n =>
    let k := (s.formationOf n).length
    if (nw.node n).isService then (match nw.maxFormationFor n with | some l => k ≤ l | none => true)
    else k ≤ (nw.node n).tracks)
  let c7 := (List.range nw.depots.size).all (fun d => nw.typeIdxs.all (fun vt =>
    let (sp, de) := s.usageOf d vt
    let expSp := sortVeh ((s.tours.filter (fun (v, t) => s.typeOf? v == some vt && startDepotOf nw t == some d)).map (·.1))
    let expDe := sortVeh ((s.tours.filter (fun (v, t) => s.typeOf? v == some vt && endDepotOf nw t == some d)).map (·.1))
    sortVeh sp == expSp && sortVeh de == expDe && nodupB sp && nodupB de))
    && s.depotUsage.all (fun p => p.1.1 < nw.depots.size && p.1.2 < nw.nTypes) && nodupB (s.depotUsage.map (·.1))
  let c8 := (List.range nw.depots.size).all (fun d =>
    nw.typeIdxs.all (fun vt => (s.usageOf d vt).1.length ≤ nw.capacityOf d vt)
    && sumNat (nw.typeIdxs.map (fun vt => (s.usageOf d vt).1.length)) ≤ nw.totalCapacityOf d)
  let c9 := nw.typeIdxs.flatMap (fun vt =>
    (transitionDiffs nw s.tours (s.vehiclesOfType vt) (s.transitionOf vt)).map (fun c => s!"transition-{c}"))
  (if c1 then [] else ["vehicle-listing"]) ++ (if c2 then [] else ["dummy-listing"]) ++
  (if c3 then [] else ["vehicle-tours"]) ++ (if c4 then [] else ["dummy-tours"]) ++
  (if c5 then [] else ["formation-membership"]) ++ (if c6 then [] else ["formation-limits"]) ++
  (if c7 then [] else ["depot-usage"]) ++ (if c8 then [] else ["depot-limits"]) ++ c9

/-- C09/C04: every cached figure of a schedule equals its from-scratch value -/
def scheduleCacheDiffs (nw : Network) (s : Schedule) : List String :=
  let tourDiffs := (s.tours ++ s.dummyTours).flatMap (fun (_, t) => (tourCacheDiffs nw t).map (fun f => s!"tour-{f}"))
  let costs := sumNat (s.tours.map (fun p => p.2.costs)) + nw.numberOfServiceNodes * nw.cStaff
  let un := nw.allServiceNodes.map (fun n =>
    Schedule.unservedAt nw n ((s.formationOf n).filterMap s.typeOf?))
  -- from scratch: per cycle the positive part of the counter recomputed from the tours
  let viol := sumInt (nw.typeIdxs.map (fun vt => sumInt ((s.transitionOf vt).cycles.map (fun c =>
    posMax0 ((cycleCounterRef nw s.tours c.vehicles).getD 0)))))
  tourDiffs ++
  (if s.costs == costs then [] else ["schedule-costs"]) ++
  (if s.unserved == (sumNat (un.map (·.1)), sumNat (un.map (·.2))) then [] else ["unserved-passengers"]) ++
  (if s.violation == viol then [] else ["maintenance-violation"])

end RSSched.Spec
