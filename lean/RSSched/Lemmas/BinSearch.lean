/-
Lemmas/BinSearch: the two binary searches of `Tour` return the boundary of a monotone predicate,
and never fault on a non-empty in-range interval.
-/
import RSSched.Model.Tour
namespace RSSched
open Network Tour

theorem idxAt_ok (l : List Nat) (i : Nat) (h : i < l.length) : idxAt l i = .ok (l.getD i 0) := by
  unfold idxAt
  simp [List.getElem?_eq_getElem h, List.getD_eq_getElem?_getD]

theorem ExtTime.le_refl' (t : ExtTime) : ExtTime.le t t = true := by
  cases t <;> simp [ExtTime.le]

theorem ExtTime.le_trans' {a b c : ExtTime} (h1 : ExtTime.le a b = true) (h2 : ExtTime.le b c = true) :
    ExtTime.le a c = true := by
  cases a <;> cases b <;> cases c <;> simp_all [ExtTime.le] <;> omega

theorem ExtTime.lt_of_lt_of_le {a b c : ExtTime} (h1 : ExtTime.lt a b = true) (h2 : ExtTime.le b c = true) :
    ExtTime.lt a c = true := by
  cases a <;> cases b <;> cases c <;> simp_all [ExtTime.le, ExtTime.lt] <;> omega

theorem ExtTime.lt_of_le_of_lt {a b c : ExtTime} (h1 : ExtTime.le a b = true) (h2 : ExtTime.lt b c = true) :
    ExtTime.lt a c = true := by
  cases a <;> cases b <;> cases c <;> simp_all [ExtTime.le, ExtTime.lt] <;> omega

theorem ExtTime.not_lt_of_le {a b : ExtTime} (h : ExtTime.le a b = true) : ExtTime.lt b a = false := by
  cases a <;> cases b <;> simp_all [ExtTime.le, ExtTime.lt] <;> omega

theorem ExtTime.lt_iff_not_le {a b : ExtTime} : ExtTime.lt a b = true ↔ ExtTime.le b a = false := by
  cases a <;> cases b <;> simp [ExtTime.le, ExtTime.lt] <;> omega

/-- end times are non-decreasing along the node list -/
def MonoEnd (nw : Network) (nodes : List Nat) : Prop :=
  ∀ i j, i ≤ j → j < nodes.length →
    ExtTime.le (nw.node (nodes.getD i 0)).endT (nw.node (nodes.getD j 0)).endT = true

/-- start times are non-decreasing along the node list -/
def MonoStart (nw : Network) (nodes : List Nat) : Prop :=
  ∀ i j, i ≤ j → j < nodes.length →
    ExtTime.le (nw.node (nodes.getD i 0)).startT (nw.node (nodes.getD j 0)).startT = true

/-- `earliest_arrival_after` (repaired, strict): returns the first position in `[l, r)` whose node
    ends strictly after `time`, or `none` when there is none; it never faults. -/
theorem earliestArrivalAfter_spec (nw : Network) (nodes : List Nat) (time : ExtTime)
    (hm : MonoEnd nw nodes) (l r : Nat) (hlr : l < r) (hr : r ≤ nodes.length) :
    ∃ res, earliestArrivalAfter nw true nodes time l r = .ok res ∧
      (∀ p, res = some p → l ≤ p ∧ p < r ∧
          ExtTime.lt time (nw.node (nodes.getD p 0)).endT = true ∧
          ∀ q, l ≤ q → q < p → ExtTime.lt time (nw.node (nodes.getD q 0)).endT = false) ∧
      (res = none → ∀ q, l ≤ q → q < r → ExtTime.lt time (nw.node (nodes.getD q 0)).endT = false) := by
  induction h : r - l using Nat.strongRecOn generalizing l r with
  | _ n ih =>
    unfold earliestArrivalAfter
    by_cases h1 : l + 1 = r
    · simp only [h1, ↓reduceIte]
      rw [idxAt_ok nodes l (by omega)]
      simp only [bind, Except.bind, pure, Except.pure]
      by_cases ha : ExtTime.lt time (nw.node (nodes.getD l 0)).endT = true
      · refine ⟨some l, by simpa [List.getD_eq_getElem?_getD] using ha, ?_, by simp⟩
        intro p hp; cases hp
        exact ⟨Nat.le_refl _, by omega, ha, fun q h2 h3 => by omega⟩
      · refine ⟨none, by simpa [List.getD_eq_getElem?_getD] using ha, by simp, ?_⟩
        intro _ q h2 h3
        have : q = l := by omega
        subst this; simpa using ha
    · have h2 : l + 1 < r := by omega
      simp only [h1, ↓reduceIte, h2, ↓reduceDIte]
      have hmid : l < l + (r - l) / 2 ∧ l + (r - l) / 2 < r := by omega
      rw [idxAt_ok nodes (l + (r - l) / 2 - 1) (by omega)]
      simp only [bind, Except.bind]
      by_cases ha : ExtTime.lt time (nw.node (nodes.getD (l + (r - l) / 2 - 1) 0)).endT = true
      · simp only [ha, ↓reduceIte]
        obtain ⟨res, he, hs, hn⟩ := ih (l + (r - l) / 2 - l) (by omega) l (l + (r - l) / 2) hmid.1 (by omega) rfl
        refine ⟨res, he, ?_, ?_⟩
        · intro p hp
          obtain ⟨a, b, c, d⟩ := hs p hp
          exact ⟨a, by omega, c, d⟩
        · intro hnone
          have := hn hnone (l + (r - l) / 2 - 1) (by omega) (by omega)
          rw [this] at ha; cases ha
      · simp only [ha, Bool.false_eq_true, ↓reduceIte]
        obtain ⟨res, he, hs, hn⟩ := ih (r - (l + (r - l) / 2)) (by omega) (l + (r - l) / 2) r hmid.2 hr rfl
        have hlow : ∀ q, l ≤ q → q < l + (r - l) / 2 →
            ExtTime.lt time (nw.node (nodes.getD q 0)).endT = false := by
          intro q hq1 hq2
          have hle := hm q (l + (r - l) / 2 - 1) (by omega) (by omega)
          cases hb : ExtTime.lt time (nw.node (nodes.getD q 0)).endT
          · rfl
          · exact absurd (ExtTime.lt_of_lt_of_le hb hle) ha
        refine ⟨res, he, ?_, ?_⟩
        · intro p hp
          obtain ⟨a, b, c, d⟩ := hs p hp
          refine ⟨by omega, b, c, fun q hq1 hq2 => ?_⟩
          by_cases hq : l + (r - l) / 2 ≤ q
          · exact d q hq hq2
          · exact hlow q hq1 (by omega)
        · intro hnone q hq1 hq2
          by_cases hq : l + (r - l) / 2 ≤ q
          · exact hn hnone q hq hq2
          · exact hlow q hq1 (by omega)

/-- `latest_departure_before` (repaired, strict): returns the last position in `[l, r)` whose node
    starts strictly before `time`, or `none` when there is none; it never faults. -/
theorem latestDepartureBefore_spec (nw : Network) (nodes : List Nat) (time : ExtTime)
    (hm : MonoStart nw nodes) (l r : Nat) (hlr : l < r) (hr : r ≤ nodes.length) :
    ∃ res, latestDepartureBefore nw true nodes time l r = .ok res ∧
      (∀ p, res = some p → l ≤ p ∧ p < r ∧
          ExtTime.lt (nw.node (nodes.getD p 0)).startT time = true ∧
          ∀ q, p < q → q < r → ExtTime.lt (nw.node (nodes.getD q 0)).startT time = false) ∧
      (res = none → ∀ q, l ≤ q → q < r → ExtTime.lt (nw.node (nodes.getD q 0)).startT time = false) := by
  induction h : r - l using Nat.strongRecOn generalizing l r with
  | _ n ih =>
    unfold latestDepartureBefore
    by_cases h1 : l + 1 = r
    · simp only [h1, ↓reduceIte]
      rw [idxAt_ok nodes l (by omega)]
      simp only [bind, Except.bind, pure, Except.pure]
      by_cases ha : ExtTime.lt (nw.node (nodes.getD l 0)).startT time = true
      · refine ⟨some l, by simpa [List.getD_eq_getElem?_getD] using ha, ?_, by simp⟩
        intro p hp; cases hp
        exact ⟨Nat.le_refl _, by omega, ha, fun q h2 h3 => by omega⟩
      · refine ⟨none, by simpa [List.getD_eq_getElem?_getD] using ha, by simp, ?_⟩
        intro _ q h2 h3
        have : q = l := by omega
        subst this; simpa using ha
    · have h2 : l + 1 < r := by omega
      simp only [h1, ↓reduceIte, h2, ↓reduceDIte]
      have hmid : l < l + (r - l) / 2 ∧ l + (r - l) / 2 < r := by omega
      rw [idxAt_ok nodes (l + (r - l) / 2) (by omega)]
      simp only [bind, Except.bind]
      by_cases ha : ExtTime.lt (nw.node (nodes.getD (l + (r - l) / 2) 0)).startT time = true
      · simp only [ha, ↓reduceIte]
        obtain ⟨res, he, hs, hn⟩ := ih (r - (l + (r - l) / 2)) (by omega) (l + (r - l) / 2) r hmid.2 hr rfl
        refine ⟨res, he, ?_, ?_⟩
        · intro p hp
          obtain ⟨a, b, c, d⟩ := hs p hp
          exact ⟨by omega, b, c, d⟩
        · intro hnone
          have := hn hnone (l + (r - l) / 2) (Nat.le_refl _) hmid.2
          rw [this] at ha; cases ha
      · simp only [ha, Bool.false_eq_true, ↓reduceIte]
        obtain ⟨res, he, hs, hn⟩ := ih (l + (r - l) / 2 - l) (by omega) l (l + (r - l) / 2) hmid.1 (by omega) rfl
        have hhigh : ∀ q, l + (r - l) / 2 ≤ q → q < r →
            ExtTime.lt (nw.node (nodes.getD q 0)).startT time = false := by
          intro q hq1 hq2
          have hle := hm (l + (r - l) / 2) q hq1 (by omega)
          cases hb : ExtTime.lt (nw.node (nodes.getD q 0)).startT time
          · rfl
          · exact absurd (ExtTime.lt_of_le_of_lt hle hb) ha
        refine ⟨res, he, ?_, ?_⟩
        · intro p hp
          obtain ⟨a, b, c, d⟩ := hs p hp
          refine ⟨a, by omega, c, fun q hq1 hq2 => ?_⟩
          by_cases hq : q < l + (r - l) / 2
          · exact d q hq1 hq
          · exact hhigh q (by omega) hq2
        · intro hnone q hq1 hq2
          by_cases hq : q < l + (r - l) / 2
          · exact hn hnone q hq1 hq
          · exact hhigh q (by omega) hq2

end RSSched
