/-
Lemmas/Splice: adjacent-pair sums under splicing. `segTerm` is what `Tour::costs_of_segment` /
`dead_head_distance_of_segment` compute (links on both sides plus the inside, or the single link
when nothing is removed), so `delta_exact` is the statement that
`new = old − segment(old) + segment(new)` recomputes the sum, in truncated `Nat` arithmetic.
-/
namespace RSSched.Splice
variable {α : Type}

def pairSum (g : α → α → Nat) : List α → Nat
  | a :: b :: rest => g a b + pairSum g (b :: rest)
  | _ => 0

def conn (g : α → α → Nat) : Option α → Option α → Nat
  | some x, some y => g x y
  | _, _ => 0

theorem pairSum_append (g : α → α → Nat) (l1 l2 : List α) :
    pairSum g (l1 ++ l2) = pairSum g l1 + conn g l1.getLast? l2.head? + pairSum g l2 := by
  induction l1 with
  | nil => simp [pairSum, conn]
  | cons a as ih =>
    cases as with
    | nil =>
      cases l2 with
      | nil => simp [pairSum, conn]
      | cons b bs => simp [pairSum, conn]
    | cons a2 as2 =>
      have : (a :: a2 :: as2 ++ l2) = a :: (a2 :: (as2 ++ l2)) := rfl
      rw [this, pairSum]
      have ih' := ih
      simp only [List.cons_append] at ih'
      rw [ih']
      simp [pairSum, List.getLast?_cons_cons]
      omega

/-- the "segment" term the Rust code subtracts/adds: links on both sides plus the inside -/
def segTerm (g : α → α → Nat) (pre mid suf : List α) : Nat :=
  match mid with
  | [] => conn g pre.getLast? suf.head?
  | _ => conn g pre.getLast? mid.head? + pairSum g mid + conn g mid.getLast? suf.head?

theorem pairSum_splice (g : α → α → Nat) (pre mid suf : List α) :
    pairSum g (pre ++ mid ++ suf) = pairSum g pre + segTerm g pre mid suf + pairSum g suf := by
  cases mid with
  | nil => simp [segTerm, pairSum_append]
  | cons m ms =>
    rw [List.append_assoc, pairSum_append, pairSum_append g (m :: ms) suf]
    simp [segTerm]
    omega

/-- the delta update of an adjacent-pair sum is exact in truncated `Nat` arithmetic -/
theorem delta_exact (g : α → α → Nat) (pre old new suf : List α) :
    pairSum g (pre ++ new ++ suf)
      = pairSum g (pre ++ old ++ suf) - segTerm g pre old suf + segTerm g pre new suf := by
  rw [pairSum_splice, pairSum_splice]; omega

/-- node sums: the delta update `total − Σ old + Σ new` is exact -/
def nodeSum (f : α → Nat) (l : List α) : Nat := (l.map f).foldr (· + ·) 0

theorem nodeSum_append (f : α → Nat) (l1 l2 : List α) :
    nodeSum f (l1 ++ l2) = nodeSum f l1 + nodeSum f l2 := by
  induction l1 with
  | nil => simp [nodeSum]
  | cons a as ih => simp [nodeSum] at ih ⊢; omega

theorem nodeSum_delta_exact (f : α → Nat) (pre old new suf : List α) :
    nodeSum f (pre ++ new ++ suf) = nodeSum f (pre ++ old ++ suf) - nodeSum f old + nodeSum f new := by
  simp only [nodeSum_append]; omega

end RSSched.Splice
