/-
Lemmas/FlowCert: optimality certificate for a min-cost circulation with lower and upper bounds.
`cert_sound`: a feasible circulation that satisfies the reduced-cost optimality conditions for some
node potentials costs no more than any other feasible circulation. Core Lean only (the double-sum
exchange is proved by induction).
-/
namespace RSSched.FlowCert

structure Arc where
  src : Nat
  dst : Nat
  lb : Int
  ub : Int
  cost : Int
deriving Repr, DecidableEq

/-- indexed sum over an arc list; `k` is the index of the head -/
def sumFrom : List Arc → Nat → (Nat → Arc → Int) → Int
  | [], _, _ => 0
  | a :: as, k, g => g k a + sumFrom as (k+1) g

theorem sumFrom_add (A : List Arc) (k : Nat) (g h : Nat → Arc → Int) :
    sumFrom A k (fun i a => g i a + h i a) = sumFrom A k g + sumFrom A k h := by
  induction A generalizing k with
  | nil => simp [sumFrom]
  | cons a as ih => simp [sumFrom, ih]; omega

theorem sumFrom_sub (A : List Arc) (k : Nat) (g h : Nat → Arc → Int) :
    sumFrom A k (fun i a => g i a - h i a) = sumFrom A k g - sumFrom A k h := by
  induction A generalizing k with
  | nil => simp [sumFrom]
  | cons a as ih => simp [sumFrom, ih]; omega

theorem sumFrom_nonneg (A : List Arc) (k : Nat) (g : Nat → Arc → Int)
    (h : ∀ i a, a ∈ A → 0 ≤ g i a) : 0 ≤ sumFrom A k g := by
  induction A generalizing k with
  | nil => simp [sumFrom]
  | cons a as ih =>
    simp only [sumFrom]
    have h1 := h k a (by simp)
    have h2 := ih (k+1) (fun i b hb => h i b (by simp [hb]))
    omega

theorem sumFrom_congr (A : List Arc) (k : Nat) (g h : Nat → Arc → Int)
    (e : ∀ i a, a ∈ A → g i a = h i a) : sumFrom A k g = sumFrom A k h := by
  induction A generalizing k with
  | nil => simp [sumFrom]
  | cons a as ih =>
    simp only [sumFrom]
    rw [e k a (by simp), ih (k+1) (fun i b hb => e i b (by simp [hb]))]

/-- sum over a node list -/
def sumV : List Nat → (Nat → Int) → Int
  | [], _ => 0
  | v :: vs, g => g v + sumV vs g

theorem sumV_add (V : List Nat) (g h : Nat → Int) :
    sumV V (fun v => g v + h v) = sumV V g + sumV V h := by
  induction V with
  | nil => simp [sumV]
  | cons v vs ih => simp [sumV, ih]; omega

theorem sumV_zero (V : List Nat) : sumV V (fun _ => 0) = 0 := by
  induction V with
  | nil => rfl
  | cons v vs ih => simp [sumV, ih]

/-- exchange of summation -/
theorem sum_swap (A : List Arc) (k : Nat) (V : List Nat) (g : Nat → Arc → Nat → Int) :
    sumFrom A k (fun i a => sumV V (fun v => g i a v)) =
    sumV V (fun v => sumFrom A k (fun i a => g i a v)) := by
  induction A generalizing k with
  | nil => simp [sumFrom, sumV_zero]
  | cons a as ih =>
    simp only [sumFrom]
    rw [ih (k+1), ← sumV_add]

theorem sumV_indicator (V : List Nat) (hV : V.Nodup) (u : Nat) (hu : u ∈ V) (c : Int) :
    sumV V (fun v => if u = v then c else 0) = c := by
  induction V with
  | nil => cases hu
  | cons w ws ih =>
    simp only [sumV]
    have hnd := List.nodup_cons.mp hV
    by_cases e : u = w
    · subst e
      have : sumV ws (fun v => if u = v then c else 0) = 0 := by
        have : ∀ (l : List Nat), u ∉ l → sumV l (fun v => if u = v then c else 0) = 0 := by
          intro l hl
          induction l with
          | nil => rfl
          | cons x xs ihx =>
            simp only [sumV]
            have hx : u ≠ x := fun h => hl (by simp [h])
            simp [hx, ihx (fun h => hl (by simp [h]))]
        exact this ws hnd.1
      simp [this]
    · have : u ∈ ws := by
        cases hu with
        | head => exact absurd rfl e
        | tail _ h => exact h
      simp [e, ih hnd.2 this]

def outflow (A : List Arc) (f : Nat → Int) (v : Nat) : Int :=
  sumFrom A 0 (fun i a => if a.src = v then f i else 0)
def inflow (A : List Arc) (f : Nat → Int) (v : Nat) : Int :=
  sumFrom A 0 (fun i a => if a.dst = v then f i else 0)

structure Feasible (V : List Nat) (A : List Arc) (f : Nat → Int) : Prop where
  bounds : ∀ i a, A[i]? = some a → a.lb ≤ f i ∧ f i ≤ a.ub
  conserve : ∀ v, v ∈ V → outflow A f v = inflow A f v

def cost (A : List Arc) (f : Nat → Int) : Int := sumFrom A 0 (fun i a => a.cost * f i)

def redCost (π : Nat → Int) (a : Arc) : Int := a.cost + π a.src - π a.dst

/-- Σ_e π(src e) f_e = Σ_v π(v) out(v) -/
theorem potential_out (V : List Nat) (hV : V.Nodup) (A : List Arc)
    (hA : ∀ a ∈ A, a.src ∈ V ∧ a.dst ∈ V) (π : Nat → Int) (f : Nat → Int) :
    sumFrom A 0 (fun i a => π a.src * f i) = sumV V (fun v => π v * outflow A f v) := by
  have h1 : sumFrom A 0 (fun i a => π a.src * f i)
      = sumFrom A 0 (fun i a => sumV V (fun v => if a.src = v then π v * f i else 0)) := by
    apply sumFrom_congr
    intro i a ha
    have := sumV_indicator V hV a.src (hA a ha).1 (π a.src * f i)
    rw [← this]
    congr 1; funext v
    by_cases e : a.src = v <;> simp [e]
  rw [h1, sum_swap]
  congr 1; funext v
  unfold outflow
  -- π v * Σ [src=v] f i = Σ [src=v] π v * f i
  have : ∀ (B : List Arc) (k : Nat),
      sumFrom B k (fun i a => if a.src = v then π v * f i else 0)
        = π v * sumFrom B k (fun i a => if a.src = v then f i else 0) := by
    intro B
    induction B with
    | nil => intro k; simp [sumFrom]
    | cons b bs ih =>
      intro k
      simp only [sumFrom, ih (k+1)]
      by_cases e : b.src = v <;> simp [e, Int.mul_add]
  exact this A 0

theorem potential_in (V : List Nat) (hV : V.Nodup) (A : List Arc)
    (hA : ∀ a ∈ A, a.src ∈ V ∧ a.dst ∈ V) (π : Nat → Int) (f : Nat → Int) :
    sumFrom A 0 (fun i a => π a.dst * f i) = sumV V (fun v => π v * inflow A f v) := by
  have h1 : sumFrom A 0 (fun i a => π a.dst * f i)
      = sumFrom A 0 (fun i a => sumV V (fun v => if a.dst = v then π v * f i else 0)) := by
    apply sumFrom_congr
    intro i a ha
    have := sumV_indicator V hV a.dst (hA a ha).2 (π a.dst * f i)
    rw [← this]
    congr 1; funext v
    by_cases e : a.dst = v <;> simp [e]
  rw [h1, sum_swap]
  congr 1; funext v
  unfold inflow
  have : ∀ (B : List Arc) (k : Nat),
      sumFrom B k (fun i a => if a.dst = v then π v * f i else 0)
        = π v * sumFrom B k (fun i a => if a.dst = v then f i else 0) := by
    intro B
    induction B with
    | nil => intro k; simp [sumFrom]
    | cons b bs ih =>
      intro k
      simp only [sumFrom, ih (k+1)]
      by_cases e : b.dst = v <;> simp [e, Int.mul_add]
  exact this A 0

theorem sumV_congr (V : List Nat) (g h : Nat → Int) (e : ∀ v ∈ V, g v = h v) :
    sumV V g = sumV V h := by
  induction V with
  | nil => rfl
  | cons v vs ih =>
    simp only [sumV]
    rw [e v (by simp), ih (fun w hw => e w (by simp [hw]))]

/-- for a conserved flow the reduced-cost total equals the cost -/
theorem redCost_total (V : List Nat) (hV : V.Nodup) (A : List Arc)
    (hA : ∀ a ∈ A, a.src ∈ V ∧ a.dst ∈ V) (π : Nat → Int) (f : Nat → Int)
    (hc : ∀ v, v ∈ V → outflow A f v = inflow A f v) :
    sumFrom A 0 (fun i a => redCost π a * f i) = cost A f := by
  have e : sumFrom A 0 (fun i a => redCost π a * f i)
      = sumFrom A 0 (fun i a => (a.cost * f i + π a.src * f i) - π a.dst * f i) := by
    apply sumFrom_congr; intro i a _
    simp only [redCost, Int.sub_mul, Int.add_mul]
  rw [e, sumFrom_sub, sumFrom_add, potential_out V hV A hA, potential_in V hV A hA]
  have : sumV V (fun v => π v * outflow A f v) = sumV V (fun v => π v * inflow A f v) :=
    sumV_congr V _ _ (fun v hv => by rw [hc v hv])
  unfold cost
  omega

/-- the checkable optimality conditions -/
def OptCond (A : List Arc) (π : Nat → Int) (f : Nat → Int) : Prop :=
  ∀ i a, A[i]? = some a →
    (0 < redCost π a → f i = a.lb) ∧ (redCost π a < 0 → f i = a.ub)

theorem sumFrom_nonneg_idx (A : List Arc) (k : Nat) (g : Nat → Arc → Int)
    (h : ∀ j a, A[j]? = some a → 0 ≤ g (k + j) a) : 0 ≤ sumFrom A k g := by
  induction A generalizing k with
  | nil => simp [sumFrom]
  | cons a as ih =>
    simp only [sumFrom]
    have h1 := h 0 a (by simp)
    have h2 := ih (k+1) (fun j b hb => by
      have := h (j+1) b (by simpa using hb)
      have e : k + 1 + j = k + (j + 1) := by omega
      rw [e]; exact this)
    simp at h1
    omega

theorem cert_sound (V : List Nat) (hV : V.Nodup) (A : List Arc)
    (hA : ∀ a ∈ A, a.src ∈ V ∧ a.dst ∈ V) (π : Nat → Int) (f f' : Nat → Int)
    (hf : Feasible V A f) (hf' : Feasible V A f') (hopt : OptCond A π f) :
    cost A f ≤ cost A f' := by
  rw [← redCost_total V hV A hA π f hf.conserve, ← redCost_total V hV A hA π f' hf'.conserve]
  have : 0 ≤ sumFrom A 0 (fun i a => redCost π a * f' i - redCost π a * f i) := by
    apply sumFrom_nonneg_idx
    intro j a hj
    simp only [Nat.zero_add]
    obtain ⟨hlb, hub⟩ := hf'.bounds j a hj
    obtain ⟨o1, o2⟩ := hopt j a hj
    rw [← Int.mul_sub]
    rcases Int.lt_trichotomy (redCost π a) 0 with hneg | hz | hpos
    · have := o2 hneg
      apply Int.mul_nonneg_of_nonpos_of_nonpos (Int.le_of_lt hneg); omega
    · rw [hz]; simp
    · have := o1 hpos
      apply Int.mul_nonneg (Int.le_of_lt hpos); omega
  rw [sumFrom_sub] at this
  omega


end RSSched.FlowCert
