/-
Lemmas/SegIndex: the index-based delta helpers of tour/modifications.rs
(`dead_head_distance_of_segment`, `dead_head_distance_of_new_nodes`, `costs_of_segment`,
`costs_of_new_nodes`) evaluated on a tour whose node list is `pre ++ mid ++ suf` with
`s = |pre|`, `e = |pre| + |mid|`: they never fault and return exactly the list-level segment terms
`segD` / `segC` of Lemmas/TourSeg.
-/
import RSSched.Lemmas.TourSeg
namespace RSSched
open Network Tour

theorem idxAt_get_ok {l : List Nat} {i x : Nat} (h : l[i]? = some x) : idxAt l i = .ok x := by
  simp [idxAt, h]

theorem bindR_ok {α β} (x : R α) (a : α) (f : α → R β) (h : x = .ok a) : (x >>= f) = f a := by
  subst h; rfl

/-- index facts for `pre ++ mid ++ suf` -/
theorem get_last_pre (pre mid suf : List Nat) (h : pre ≠ []) :
    (pre ++ mid ++ suf)[pre.length - 1]? = pre.getLast? := by
  have hl := List.length_pos_iff.mpr h
  rw [List.append_assoc, List.getElem?_append_left (by omega), List.getLast?_eq_getElem?]

theorem get_head_mid (pre mid suf : List Nat) (h : mid ≠ []) :
    (pre ++ mid ++ suf)[pre.length]? = mid.head? := by
  rw [List.append_assoc, List.getElem?_append_right (by omega)]
  cases mid with
  | nil => exact absurd rfl h
  | cons m ms => simp

theorem get_last_mid (pre mid suf : List Nat) (h : mid ≠ []) :
    (pre ++ mid ++ suf)[pre.length + mid.length - 1]? = mid.getLast? := by
  have hl := List.length_pos_iff.mpr h
  rw [List.append_assoc, List.getElem?_append_right (by omega), List.getElem?_append_left (by omega),
    List.getLast?_eq_getElem?]
  congr 1; omega

theorem get_head_suf (pre mid suf : List Nat) :
    (pre ++ mid ++ suf)[pre.length + mid.length]? = suf.head? := by
  rw [List.getElem?_append_right (by simp)]
  simp [List.head?_eq_getElem?]

theorem slice_mid (pre mid suf : List Nat) :
    slice (pre ++ mid ++ suf) pre.length (pre.length + mid.length) = .ok mid := by
  unfold slice
  have h1 : (decide (pre.length ≤ pre.length + mid.length) && decide (pre.length + mid.length ≤ (pre ++ mid ++ suf).length)) = true := by
    simp
  rw [if_pos h1]
  simp [pure, Except.pure, List.append_assoc]

namespace Network

theorem connD_none_left (nw : Network) (b : Option Nat) : nw.connD none b = Dist.zero := by cases b <;> rfl
theorem connD_none_right (nw : Network) (a : Option Nat) : nw.connD a none = Dist.zero := by cases a <;> rfl
theorem connC_none_left (nw : Network) (b : Option Nat) : nw.connC none b = 0 := by cases b <;> rfl
theorem connC_none_right (nw : Network) (a : Option Nat) : nw.connC a none = 0 := by cases a <;> rfl

end Network

/-- a generic "look up two positions and combine" step -/
theorem two_idx {β} (l : List Nat) (i j a b : Nat) (g : Nat → Nat → β) (hi : l[i]? = some a) (hj : l[j]? = some b) :
    (do let x ← idxAt l i; let y ← idxAt l j; pure (g x y) : R β) = .ok (g a b) := by
  simp [idxAt, hi, hj, bind, Except.bind, pure, Except.pure]

theorem exists_getLast {l : List Nat} (h : l ≠ []) : ∃ a, l.getLast? = some a := by
  cases hh : l.getLast? with
  | none => simp [List.getLast?_eq_none_iff] at hh; exact absurd hh h
  | some a => exact ⟨a, rfl⟩

theorem exists_head {l : List Nat} (h : l ≠ []) : ∃ a, l.head? = some a := by
  cases l with
  | nil => exact absurd rfl h
  | cons b bs => exact ⟨b, rfl⟩

/-- the link between the last node of `pre` and the first of `mid ++ suf`… at position `|pre|` -/
theorem dhBeforeSeg_eq (nw : Network) (pre rest : List Nat) (hr : rest ≠ []) :
    dhBeforeSeg nw (pre ++ rest) pre.length = .ok (nw.connD pre.getLast? rest.head?) := by
  unfold dhBeforeSeg
  by_cases h0 : pre = []
  · subst h0; simp [connD_none_left, pure, Except.pure]
  · have hp := List.length_pos_iff.mpr h0
    rw [if_neg (by simp; omega)]
    obtain ⟨a, ha⟩ := exists_getLast h0
    obtain ⟨b, hb⟩ := exists_head hr
    have g1 : (pre ++ rest)[pre.length - 1]? = some a := by
      rw [List.getElem?_append_left (by omega), ← ha, List.getLast?_eq_getElem?]
    have g2 : (pre ++ rest)[pre.length]? = some b := by
      rw [List.getElem?_append_right (by omega), ← hb, List.head?_eq_getElem?]; simp
    rw [two_idx _ _ _ a b _ g1 g2, ha, hb]; rfl

theorem dhAfterSeg_eq (nw : Network) (front suf : List Nat) (hf : front ≠ []) :
    dhAfterSeg nw (front ++ suf) front.length = .ok (nw.connD front.getLast? suf.head?) := by
  unfold dhAfterSeg
  by_cases h1 : suf = []
  · subst h1; simp [connD_none_right, pure, Except.pure]
  · have hs := List.length_pos_iff.mpr h1
    have hp := List.length_pos_iff.mpr hf
    rw [if_neg (by simp; omega)]
    obtain ⟨a, ha⟩ := exists_getLast hf
    obtain ⟨b, hb⟩ := exists_head h1
    have g1 : (front ++ suf)[front.length - 1]? = some a := by
      rw [List.getElem?_append_left (by omega), ← ha, List.getLast?_eq_getElem?]
    have g2 : (front ++ suf)[front.length]? = some b := by
      rw [List.getElem?_append_right (by omega), ← hb, List.head?_eq_getElem?]; simp
    rw [two_idx _ _ _ a b _ g1 g2, ha, hb]; rfl

theorem dhEmptySeg_eq (nw : Network) (pre suf : List Nat) :
    dhEmptySeg nw (pre ++ suf) pre.length = .ok (nw.connD pre.getLast? suf.head?) := by
  unfold dhEmptySeg
  by_cases h0 : pre = []
  · subst h0; simp [connD_none_left, pure, Except.pure]
  · by_cases h1 : suf = []
    · subst h1; simp [connD_none_right, pure, Except.pure]
    · have hp := List.length_pos_iff.mpr h0
      have hs := List.length_pos_iff.mpr h1
      have c1 : ¬ ((pre.length == 0 || pre.length == (pre ++ suf).length) = true) := by
        simp only [List.length_append, Bool.or_eq_true, beq_iff_eq]; omega
      rw [if_neg c1]
      obtain ⟨a, ha⟩ := exists_getLast h0
      obtain ⟨b, hb⟩ := exists_head h1
      have g1 : (pre ++ suf)[pre.length - 1]? = some a := by
        rw [List.getElem?_append_left (by omega), ← ha, List.getLast?_eq_getElem?]
      have g2 : (pre ++ suf)[pre.length]? = some b := by
        rw [List.getElem?_append_right (by omega), ← hb, List.head?_eq_getElem?]; simp
      rw [two_idx _ _ _ a b _ g1 g2, ha, hb]; rfl

/-- `dead_head_distance_of_segment` on `pre ++ mid ++ suf` -/
theorem dhDistOfSegment_eq (nw : Network) (t : Tour) (pre mid suf : List Nat) (ht : t.nodes = pre ++ mid ++ suf) :
    dhDistOfSegment nw t pre.length (pre.length + mid.length) = .ok (nw.segD pre mid suf) := by
  unfold dhDistOfSegment
  rw [ht]
  cases mid with
  | nil =>
    simp only [List.length_nil, Nat.add_zero, ge_iff_le, Nat.le_refl, ↓reduceIte, List.append_nil, segD]
    exact dhEmptySeg_eq nw pre suf
  | cons m ms =>
    have hmid : (m :: ms) ≠ [] := by simp
    rw [if_neg (by simp)]
    have hb := dhBeforeSeg_eq nw pre ((m :: ms) ++ suf) (by simp)
    rw [← List.append_assoc] at hb
    have ha := dhAfterSeg_eq nw (pre ++ (m :: ms)) suf (by simp)
    rw [List.length_append] at ha
    rw [bindR_ok _ _ _ hb, bindR_ok _ _ _ (slice_mid pre (m :: ms) suf), bindR_ok _ _ _ ha]
    have e1 : (m :: ms ++ suf).head? = (m :: ms).head? := rfl
    have e2 : (pre ++ m :: ms).getLast? = (m :: ms).getLast? := by
      rw [List.getLast?_append]; simp [List.getLast?_cons]
    simp only [segD, pure, Except.pure, e1, e2]
    rfl

theorem dhBeforeNew_eq (nw : Network) (pre rest newNodes : List Nat) (hn : newNodes ≠ []) :
    dhBeforeNew nw (pre ++ rest) newNodes pre.length = .ok (nw.connD pre.getLast? newNodes.head?) := by
  unfold dhBeforeNew
  by_cases h0 : pre = []
  · subst h0; simp [connD_none_left, pure, Except.pure]
  · have hp := List.length_pos_iff.mpr h0
    rw [if_neg (by simp; omega)]
    obtain ⟨a, ha⟩ := exists_getLast h0
    obtain ⟨b, hb⟩ := exists_head hn
    have g1 : (pre ++ rest)[pre.length - 1]? = some a := by
      rw [List.getElem?_append_left (by omega), ← ha, List.getLast?_eq_getElem?]
    have g2 : newNodes[0]? = some b := by rw [← hb, List.head?_eq_getElem?]
    have : (do let a ← idxAt (pre ++ rest) (pre.length - 1); let b ← idxAt newNodes 0
               pure (nw.deadHeadDistanceBetween a b) : R Dist) = .ok (nw.deadHeadDistanceBetween a b) := by
      simp [idxAt, g1, g2, bind, Except.bind, pure, Except.pure]
    rw [this, ha, hb]; rfl

theorem dhAfterNew_eq (nw : Network) (front suf newNodes : List Nat) (hn : newNodes ≠ []) :
    dhAfterNew nw (front ++ suf) newNodes front.length = .ok (nw.connD newNodes.getLast? suf.head?) := by
  unfold dhAfterNew
  by_cases h1 : suf = []
  · subst h1; simp [connD_none_right, pure, Except.pure]
  · have hs := List.length_pos_iff.mpr h1
    rw [if_neg (by simp; omega)]
    obtain ⟨a, ha⟩ := exists_getLast hn
    obtain ⟨b, hb⟩ := exists_head h1
    have g1 : newNodes[newNodes.length - 1]? = some a := by rw [← ha, List.getLast?_eq_getElem?]
    have g2 : (front ++ suf)[front.length]? = some b := by
      rw [List.getElem?_append_right (by omega), ← hb, List.head?_eq_getElem?]; simp
    have : (do let a ← idxAt newNodes (newNodes.length - 1); let b ← idxAt (front ++ suf) front.length
               pure (nw.deadHeadDistanceBetween a b) : R Dist) = .ok (nw.deadHeadDistanceBetween a b) := by
      simp [idxAt, g1, g2, bind, Except.bind, pure, Except.pure]
    rw [this, ha, hb]; rfl

/-- `dead_head_distance_of_new_nodes` for a non-empty `newNodes` put between `pre` and `suf` -/
theorem dhDistOfNewNodes_eq (nw : Network) (t : Tour) (pre mid suf newNodes : List Nat)
    (ht : t.nodes = pre ++ mid ++ suf) (hn : newNodes ≠ []) :
    dhDistOfNewNodes nw t newNodes pre.length (pre.length + mid.length) = .ok (nw.segD pre newNodes suf) := by
  unfold dhDistOfNewNodes
  rw [ht]
  have hb := dhBeforeNew_eq nw pre (mid ++ suf) newNodes hn
  rw [← List.append_assoc] at hb
  have ha := dhAfterNew_eq nw (pre ++ mid) suf newNodes hn
  rw [List.length_append] at ha
  rw [bindR_ok _ _ _ hb, bindR_ok _ _ _ ha]
  cases newNodes with
  | nil => exact absurd rfl hn
  | cons n ns => rfl

theorem costBeforeNew_eq (nw : Network) (pre rest newNodes : List Nat) (hn : newNodes ≠ []) :
    costBeforeNew nw (pre ++ rest) newNodes pre.length = .ok (nw.connC pre.getLast? newNodes.head?) := by
  unfold costBeforeNew
  by_cases h0 : pre = []
  · subst h0; simp [connC_none_left, pure, Except.pure]
  · have hp := List.length_pos_iff.mpr h0
    rw [if_neg (by simp; omega)]
    obtain ⟨a, ha⟩ := exists_getLast h0
    obtain ⟨b, hb⟩ := exists_head hn
    have g1 : (pre ++ rest)[pre.length - 1]? = some a := by
      rw [List.getElem?_append_left (by omega), ← ha, List.getLast?_eq_getElem?]
    have g2 : newNodes[0]? = some b := by rw [← hb, List.head?_eq_getElem?]
    have : (do let a ← idxAt (pre ++ rest) (pre.length - 1); let b ← idxAt newNodes 0
               pure (nw.linkCost a b) : R Nat) = .ok (nw.linkCost a b) := by
      simp [idxAt, g1, g2, bind, Except.bind, pure, Except.pure]
    rw [this, ha, hb]; rfl

theorem costAfterNew_eq (nw : Network) (front suf newNodes : List Nat) (hn : newNodes ≠ []) :
    costAfterNew nw (front ++ suf) newNodes front.length = .ok (nw.connC newNodes.getLast? suf.head?) := by
  unfold costAfterNew
  by_cases h1 : suf = []
  · subst h1; simp [connC_none_right, pure, Except.pure]
  · have hs := List.length_pos_iff.mpr h1
    rw [if_neg (by simp; omega)]
    obtain ⟨a, ha⟩ := exists_getLast hn
    obtain ⟨b, hb⟩ := exists_head h1
    have g1 : newNodes[newNodes.length - 1]? = some a := by rw [← ha, List.getLast?_eq_getElem?]
    have g2 : (front ++ suf)[front.length]? = some b := by
      rw [List.getElem?_append_right (by omega), ← hb, List.head?_eq_getElem?]; simp
    have : (do let a ← idxAt newNodes (newNodes.length - 1); let b ← idxAt (front ++ suf) front.length
               pure (nw.linkCost a b) : R Nat) = .ok (nw.linkCost a b) := by
      simp [idxAt, g1, g2, bind, Except.bind, pure, Except.pure]
    rw [this, ha, hb]; rfl

/-- `costs_of_new_nodes` -/
theorem costsOfNewNodes_eq (nw : Network) (t : Tour) (pre mid suf newNodes : List Nat)
    (ht : t.nodes = pre ++ mid ++ suf) (hn : newNodes ≠ []) :
    costsOfNewNodes nw t newNodes pre.length (pre.length + mid.length) = .ok (nw.segC pre newNodes suf) := by
  unfold costsOfNewNodes
  rw [ht]
  have hb := costBeforeNew_eq nw pre (mid ++ suf) newNodes hn
  rw [← List.append_assoc] at hb
  have ha := costAfterNew_eq nw (pre ++ mid) suf newNodes hn
  rw [List.length_append] at ha
  rw [bindR_ok _ _ _ hb, bindR_ok _ _ _ ha]
  cases newNodes with
  | nil => exact absurd rfl hn
  | cons n ns => rfl

theorem linkAfterUnchecked_eq (nw : Network) (t : Tour) (i a b : Nat)
    (ha : t.nodes[i]? = some a) (hb : t.nodes[i + 1]? = some b) :
    linkAfterUnchecked nw t i = .ok (nw.linkCost a b) := by
  unfold linkAfterUnchecked
  exact two_idx _ _ _ a b _ ha hb

/-- the link after the last node of `front` -/
theorem linkAfter_eq (nw : Network) (t : Tour) (front suf : List Nat) (ht : t.nodes = front ++ suf) (hf : front ≠ []) :
    linkAfter nw t (front.length - 1) = .ok (nw.connC front.getLast? suf.head?) := by
  unfold linkAfter
  have hp := List.length_pos_iff.mpr hf
  by_cases h1 : suf = []
  · subst h1
    rw [if_pos (by simp [ht])]
    simp [connC_none_right, pure, Except.pure]
  · have hs := List.length_pos_iff.mpr h1
    rw [if_neg (by simp [ht]; omega)]
    obtain ⟨a, ha⟩ := exists_getLast hf
    obtain ⟨b, hb⟩ := exists_head h1
    have g1 : t.nodes[front.length - 1]? = some a := by
      rw [ht, List.getElem?_append_left (by omega), ← ha, List.getLast?_eq_getElem?]
    have g2 : t.nodes[front.length - 1 + 1]? = some b := by
      have : front.length - 1 + 1 = front.length := by omega
      rw [this, ht, List.getElem?_append_right (by omega), ← hb, List.head?_eq_getElem?]; simp
    rw [linkAfterUnchecked_eq nw t _ a b g1 g2, ha, hb]; rfl

/-- the link in front of position `|pre|` -/
theorem linkBefore_eq (nw : Network) (t : Tour) (pre rest : List Nat) (ht : t.nodes = pre ++ rest) :
    linkBefore nw t pre.length = .ok (nw.connC pre.getLast? rest.head?) := by
  unfold linkBefore
  by_cases h0 : pre = []
  · subst h0; simp [connC_none_left, pure, Except.pure]
  · have hp := List.length_pos_iff.mpr h0
    rw [if_neg (by simp; omega)]
    exact linkAfter_eq nw t pre rest ht h0

/-- the inner links of `mid`, read through positions -/
theorem mapMR_links (nw : Network) (t : Tour) : ∀ (mid pre suf : List Nat), t.nodes = pre ++ mid ++ suf →
    mapMR (linkAfterUnchecked nw t) ((List.range (mid.length - 1)).map (· + pre.length))
      = .ok ((pairs mid).map (fun p => nw.linkCost p.1 p.2))
  | [], _, _, _ => rfl
  | [_], _, _, _ => rfl
  | m1 :: m2 :: r, pre, suf, ht => by
    have hlen : (m1 :: m2 :: r).length - 1 = (m2 :: r).length - 1 + 1 := by simp
    rw [hlen, List.range_succ_eq_map, List.map_cons, List.map_map]
    unfold mapMR
    have g1 : t.nodes[0 + pre.length]? = some m1 := by
      rw [ht, List.append_assoc, List.getElem?_append_right (by omega)]; simp
    have g2 : t.nodes[0 + pre.length + 1]? = some m2 := by
      rw [ht, List.append_assoc, List.getElem?_append_right (by omega)]
      have : 0 + pre.length + 1 - pre.length = 1 := by omega
      rw [this]; simp
    rw [bindR_ok _ _ _ (linkAfterUnchecked_eq nw t _ m1 m2 g1 g2)]
    have ht' : t.nodes = (pre ++ [m1]) ++ (m2 :: r) ++ suf := by rw [ht]; simp
    have ih := mapMR_links nw t (m2 :: r) (pre ++ [m1]) suf ht'
    have hfun : ((fun x => x + pre.length) ∘ Nat.succ) = (fun x => x + (pre ++ [m1]).length) := by
      funext x; simp [Function.comp]; omega
    rw [hfun, bindR_ok _ _ _ ih]
    rfl

theorem mapMR_nodeCosts (nw : Network) (t : Tour) : ∀ (mid pre suf : List Nat), t.nodes = pre ++ mid ++ suf →
    mapMR (fun i => do let n ← idxAt t.nodes i; pure (nw.nodeCost n)) ((List.range mid.length).map (· + pre.length))
      = .ok (mid.map nw.nodeCost)
  | [], _, _, _ => rfl
  | m1 :: r, pre, suf, ht => by
    rw [List.length_cons, List.range_succ_eq_map, List.map_cons, List.map_map]
    unfold mapMR
    have g1 : t.nodes[0 + pre.length]? = some m1 := by
      rw [ht, List.append_assoc, List.getElem?_append_right (by omega)]; simp
    have e1 : (do let n ← idxAt t.nodes (0 + pre.length); pure (nw.nodeCost n) : R Nat) = .ok (nw.nodeCost m1) := by
      rw [Nat.zero_add] at g1 ⊢
      simp [idxAt, g1, bind, Except.bind, pure, Except.pure]
    rw [bindR_ok _ _ _ e1]
    have ht' : t.nodes = (pre ++ [m1]) ++ r ++ suf := by rw [ht]; simp
    have ih := mapMR_nodeCosts nw t r (pre ++ [m1]) suf ht'
    have hfun : ((fun x => x + pre.length) ∘ Nat.succ) = (fun x => x + (pre ++ [m1]).length) := by
      funext x; simp [Function.comp]; omega
    rw [hfun, bindR_ok _ _ _ ih]
    rfl

/-- `costs_of_segment` on `pre ++ mid ++ suf` -/
theorem costsOfSegment_eq (nw : Network) (t : Tour) (pre mid suf : List Nat) (ht : t.nodes = pre ++ mid ++ suf) :
    costsOfSegment nw t pre.length (pre.length + mid.length) = .ok (nw.segC pre mid suf) := by
  unfold costsOfSegment
  cases mid with
  | nil =>
    simp only [List.length_nil, Nat.add_zero, ge_iff_le, Nat.le_refl, ↓reduceIte, segC]
    exact linkBefore_eq nw t pre suf (by simpa using ht)
  | cons m ms =>
    have hmid : (m :: ms) ≠ [] := by simp
    rw [if_neg (by simp)]
    have hb := linkBefore_eq nw t pre ((m :: ms) ++ suf) (by rw [ht]; simp)
    have ha := linkAfter_eq nw t (pre ++ (m :: ms)) suf ht (by simp)
    have e1 : pre.length + (m :: ms).length - 1 - pre.length = (m :: ms).length - 1 := by omega
    have e2 : pre.length + (m :: ms).length - pre.length = (m :: ms).length := by omega
    have e3 : (pre ++ m :: ms).length - 1 = pre.length + (m :: ms).length - 1 := by simp
    rw [e3] at ha
    rw [bindR_ok _ _ _ hb, e1, bindR_ok _ _ _ (mapMR_links nw t (m :: ms) pre suf ht),
      bindR_ok _ _ _ ha, e2, bindR_ok _ _ _ (mapMR_nodeCosts nw t (m :: ms) pre suf ht)]
    have h1 : (m :: ms ++ suf).head? = (m :: ms).head? := rfl
    have h2 : (pre ++ m :: ms).getLast? = (m :: ms).getLast? := by
      rw [List.getLast?_append]; simp [List.getLast?_cons]
    simp only [segC, pure, Except.pure, h1, h2]
    rfl

/-- the new link that closes the gap when `mid` is removed -/
theorem gapDist_eq (nw : Network) (pre mid suf : List Nat) (hm : mid ≠ []) :
    gapDist nw (pre ++ mid ++ suf) pre.length (pre.length + mid.length - 1) = .ok (nw.connD pre.getLast? suf.head?) := by
  unfold gapDist
  have hml := List.length_pos_iff.mpr hm
  by_cases h0 : pre = []
  · subst h0; simp [connD_none_left, pure, Except.pure]
  · by_cases h1 : suf = []
    · subst h1
      rw [if_pos (by simp)]
      simp [connD_none_right, pure, Except.pure]
    · have hp := List.length_pos_iff.mpr h0
      have hs := List.length_pos_iff.mpr h1
      have c : ¬ ((pre.length == 0 || pre.length + mid.length - 1 == (pre ++ mid ++ suf).length - 1) = true) := by
        simp only [List.length_append, Bool.or_eq_true, beq_iff_eq]; omega
      rw [if_neg c]
      obtain ⟨a, ha⟩ := exists_getLast h0
      obtain ⟨b, hb⟩ := exists_head h1
      have g1 := get_last_pre pre mid suf h0
      have g2 := get_head_suf pre mid suf
      have e : pre.length + mid.length - 1 + 1 = pre.length + mid.length := by omega
      rw [ha] at g1; rw [hb] at g2
      rw [e, two_idx _ _ _ a b _ g1 g2, ha, hb]; rfl

theorem gapCost_eq (nw : Network) (pre mid suf : List Nat) (hm : mid ≠ []) :
    gapCost nw (pre ++ mid ++ suf) pre.length (pre.length + mid.length - 1) = .ok (nw.connC pre.getLast? suf.head?) := by
  unfold gapCost
  have hml := List.length_pos_iff.mpr hm
  by_cases h0 : pre = []
  · subst h0; simp [connC_none_left, pure, Except.pure]
  · by_cases h1 : suf = []
    · subst h1
      rw [if_pos (by simp)]
      simp [connC_none_right, pure, Except.pure]
    · have hp := List.length_pos_iff.mpr h0
      have hs := List.length_pos_iff.mpr h1
      have c : ¬ ((pre.length == 0 || pre.length + mid.length - 1 == (pre ++ mid ++ suf).length - 1) = true) := by
        simp only [List.length_append, Bool.or_eq_true, beq_iff_eq]; omega
      rw [if_neg c]
      obtain ⟨a, ha⟩ := exists_getLast h0
      obtain ⟨b, hb⟩ := exists_head h1
      have g1 := get_last_pre pre mid suf h0
      have g2 := get_head_suf pre mid suf
      have e : pre.length + mid.length - 1 + 1 = pre.length + mid.length := by omega
      rw [ha] at g1; rw [hb] at g2
      rw [e, two_idx _ _ _ a b _ g1 g2, ha, hb]; rfl

end RSSched
