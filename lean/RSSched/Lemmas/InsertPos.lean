/-
Lemmas/InsertPos: the position searches of `Tour::insert_path` (binary search + linear walk) return
the reference positions of Spec/Tour.lean — for every node list whose nodes end no later than
their successors start (valid real tours and dummy tours alike).
-/
import RSSched.Lemmas.BinSearch
import RSSched.Spec.Tour
import RSSched.Props.C17
namespace RSSched
open Network Tour Spec

/-! ### the reference functions -/

theorem lastTrueLen_le (p : Nat → Bool) (n : Nat) : lastTrueLen p n ≤ n := by
  induction n with
  | zero => simp [lastTrueLen]
  | succ k ih => unfold lastTrueLen; split <;> omega

theorem lastTrueLen_true (p : Nat → Bool) (n : Nat) (h : 0 < lastTrueLen p n) :
    p (lastTrueLen p n - 1) = true := by
  induction n with
  | zero => simp [lastTrueLen] at h
  | succ k ih =>
    unfold lastTrueLen at h ⊢
    split
    · simpa
    · rename_i hp; simp only [hp, Bool.false_eq_true, ↓reduceIte] at h; exact ih h

theorem lastTrueLen_false_after (p : Nat → Bool) (n : Nat) :
    ∀ j, lastTrueLen p n ≤ j → j < n → p j = false := by
  induction n with
  | zero => intro j _ h; omega
  | succ k ih =>
    intro j h1 h2
    unfold lastTrueLen at h1
    split at h1
    · omega
    · rename_i hp
      by_cases hj : j = k
      · subst hj; simpa using hp
      · exact ih j h1 (by omega)

theorem lastTrueLen_ext (p : Nat → Bool) (k n : Nat) (h : k ≤ n)
    (hf : ∀ j, k ≤ j → j < n → p j = false) : lastTrueLen p n = lastTrueLen p k := by
  induction n with
  | zero => have : k = 0 := by omega
            subst this; rfl
  | succ m ih =>
    by_cases hk : k = m + 1
    · subst hk; rfl
    · have hm := hf m (by omega) (by omega)
      have e : lastTrueLen p (m + 1) = lastTrueLen p m := by
        conv => lhs; unfold lastTrueLen
        rw [if_neg (by rw [hm]; exact Bool.false_ne_true)]
      rw [e]
      exact ih (by omega) (fun j h1 h2 => hf j h1 (by omega))

theorem lastTrueLen_full (p : Nat → Bool) (n : Nat) (hn : 0 < n) (h : p (n - 1) = true) :
    lastTrueLen p n = n := by
  cases n with
  | zero => omega
  | succ k => unfold lastTrueLen; simp at h; simp [h]

theorem firstTrueFrom_succ (p : Nat → Bool) (f i : Nat) :
    firstTrueFrom p (f + 1) i = if p i then i else firstTrueFrom p f (i + 1) := rfl

theorem firstTrueFrom_ge (p : Nat → Bool) (fuel i : Nat) : i ≤ firstTrueFrom p fuel i ∧ firstTrueFrom p fuel i ≤ i + fuel := by
  induction fuel generalizing i with
  | zero => simp [firstTrueFrom]
  | succ f ih =>
    unfold firstTrueFrom
    split
    · omega
    · have := ih (i + 1); omega

theorem firstTrueFrom_false_before (p : Nat → Bool) (fuel i : Nat) :
    ∀ j, i ≤ j → j < firstTrueFrom p fuel i → p j = false := by
  induction fuel generalizing i with
  | zero => intro j h1 h2; simp [firstTrueFrom] at h2; omega
  | succ f ih =>
    intro j h1 h2
    unfold firstTrueFrom at h2
    split at h2
    · omega
    · rename_i hp
      by_cases hj : j = i
      · subst hj; simpa using hp
      · exact ih (i + 1) j (by omega) h2

theorem firstTrueFrom_true (p : Nat → Bool) (fuel i : Nat) (h : firstTrueFrom p fuel i < i + fuel) :
    p (firstTrueFrom p fuel i) = true := by
  induction fuel generalizing i with
  | zero => simp [firstTrueFrom] at h
  | succ f ih =>
    unfold firstTrueFrom at h ⊢
    split
    · assumption
    · rename_i hp
      simp only [hp, Bool.false_eq_true, ↓reduceIte] at h
      exact ih (i + 1) (by omega)

/-- skipping a prefix on which the predicate is false does not change the result -/
theorem firstTrueFrom_skip (p : Nat → Bool) (n k : Nat) (hk : k ≤ n) (hf : ∀ j, j < k → p j = false) :
    firstTrueFrom p n 0 = firstTrueFrom p (n - k) k := by
  induction k with
  | zero => simp
  | succ m ih =>
    rw [ih (by omega) (fun j hj => hf j (by omega))]
    have hm := hf m (by omega)
    have e : n - m = (n - (m + 1)) + 1 := by omega
    rw [e, firstTrueFrom_succ, if_neg (by rw [hm]; exact Bool.false_ne_true)]

/-! ### the linear walks -/

theorem walkDown_eq (nw : Network) (nodes : List Nat) (x : Nat) (k : Nat) (hk : k ≤ nodes.length) :
    walkDown nw nodes x k = .ok (lastTrueLen (reachesAt nw nodes x) k) := by
  induction k with
  | zero => rfl
  | succ m ih =>
    unfold walkDown
    conv => rhs; unfold lastTrueLen
    rw [idxAt_ok nodes m (by omega)]
    simp only [bind, Except.bind]
    cases h : reachesAt nw nodes x m
    · have h' : nw.canReach (nodes.getD m 0) x = false := h
      rw [h']
      simp only [Bool.not_false, ↓reduceIte, Bool.false_eq_true]
      exact ih (by omega)
    · have h' : nw.canReach (nodes.getD m 0) x = true := h
      rw [h']
      simp only [Bool.not_true, Bool.false_eq_true, ↓reduceIte, pure, Except.pure]

/-- `walkUp` from `pos` (everything up to `pos` unreachable) ends one before the first reachable
    index -/
theorem walkUp_eq (nw : Network) (nodes : List Nat) (x : Nat) (fuel pos : Nat)
    (hpos : pos < nodes.length) (hfuel : nodes.length - 1 - pos ≤ fuel) :
    ∃ q, walkUp nw nodes x fuel pos = .ok q ∧
      q + 1 = firstTrueFrom (reachedAt nw nodes x) (nodes.length - (pos + 1)) (pos + 1) := by
  induction fuel generalizing pos with
  | zero =>
    have : pos = nodes.length - 1 := by omega
    refine ⟨pos, rfl, ?_⟩
    have e : nodes.length - (pos + 1) = 0 := by omega
    rw [e]; rfl
  | succ f ih =>
    unfold walkUp
    by_cases hlt : pos < nodes.length - 1
    · simp only [hlt, ↓reduceIte]
      rw [idxAt_ok nodes (pos + 1) (by omega)]
      simp only [bind, Except.bind]
      have e : nodes.length - (pos + 1) = (nodes.length - (pos + 2)) + 1 := by omega
      cases h : reachedAt nw nodes x (pos + 1)
      · have h' : nw.canReach x (nodes.getD (pos + 1) 0) = false := h
        rw [h']
        simp only [Bool.not_false, ↓reduceIte]
        obtain ⟨q, hq1, hq2⟩ := ih (pos + 1) (by omega) (by omega)
        refine ⟨q, hq1, ?_⟩
        rw [hq2, e, firstTrueFrom_succ, if_neg (by rw [h]; exact Bool.false_ne_true)]
      · have h' : nw.canReach x (nodes.getD (pos + 1) 0) = true := h
        rw [h']
        refine ⟨pos, by simp only [Bool.not_true, Bool.false_eq_true, ↓reduceIte, pure, Except.pure], ?_⟩
        rw [e, firstTrueFrom_succ, if_pos h]
    · simp only [hlt, ↓reduceIte]
      refine ⟨pos, rfl, ?_⟩
      have e : nodes.length - (pos + 1) = 0 := by omega
      rw [e]; rfl

/-! ### `latest_not_reaching_node` / `latest_not_reached_by_node` = reference positions -/

/-- nodes end no later than their successors start -/
def TimeChain (nw : Network) (nodes : List Nat) : Prop :=
  ∀ i, i + 1 < nodes.length →
    ExtTime.le (nw.node (nodes.getD i 0)).endT (nw.node (nodes.getD (i + 1) 0)).startT = true

/-- every node has start ≤ end -/
def NodesWF' (nw : Network) : Prop := ∀ i, ExtTime.le (nw.node i).startT (nw.node i).endT = true

theorem monoEnd_of_timeChain (nw : Network) (hw : NodesWF' nw) (nodes : List Nat) (hc : TimeChain nw nodes) :
    MonoEnd nw nodes := by
  intro i j hij hj
  induction j with
  | zero => have : i = 0 := by omega
            subst this; exact ExtTime.le_refl' _
  | succ k ih =>
    by_cases h : i = k + 1
    · subst h; exact ExtTime.le_refl' _
    · exact ExtTime.le_trans' (ih (by omega) (by omega)) (ExtTime.le_trans' (hc k hj) (hw _))

theorem monoStart_of_timeChain (nw : Network) (hw : NodesWF' nw) (nodes : List Nat) (hc : TimeChain nw nodes) :
    MonoStart nw nodes := by
  intro i j hij hj
  induction j with
  | zero => have : i = 0 := by omega
            subst this; exact ExtTime.le_refl' _
  | succ k ih =>
    by_cases h : i = k + 1
    · subst h; exact ExtTime.le_refl' _
    · exact ExtTime.le_trans' (ih (by omega) (by omega)) (ExtTime.le_trans' (hw _) (hc k hj))

theorem late_cannot_reach (nw : Network) (hd : C17.DepotTimes nw) (a x : Nat)
    (h : ExtTime.lt (nw.node x).startT (nw.node a).endT = true) : nw.canReach a x = false := by
  cases hr : nw.canReach a x
  · rfl
  · have := C17.reach_end_le_start nw hd a x hr
    rw [ExtTime.not_lt_of_le this] at h; cases h

theorem early_cannot_be_reached (nw : Network) (hd : C17.DepotTimes nw) (x b : Nat)
    (h : ExtTime.lt (nw.node b).startT (nw.node x).endT = true) : nw.canReach x b = false := by
  cases hr : nw.canReach x b
  · rfl
  · have := C17.reach_end_le_start nw hd x b hr
    rw [ExtTime.not_lt_of_le this] at h; cases h

/-- **insertion start**: `latest_not_reaching_node` never faults and (with `None ↦ len`) equals the
    length of the longest prefix whose last node can reach `x` -/
theorem lnr_spec (nw : Network) (hd : C17.DepotTimes nw) (hw : NodesWF' nw) (t : Tour)
    (hc : TimeChain nw t.nodes) (hne : 0 < t.nodes.length) (x : Nat) :
    ∃ r, latestNotReachingNode nw true t x = .ok r ∧ r.getD t.nodes.length = keepPrefixLen nw t.nodes x := by
  unfold latestNotReachingNode Tour.lastNode keepPrefixLen
  rw [idxAt_ok t.nodes (t.nodes.length - 1) (by omega)]
  simp only [bind, Except.bind]
  cases hlast : nw.canReach (t.nodes.getD (t.nodes.length - 1) 0) x
  · simp only [Bool.false_eq_true, ↓reduceIte]
    obtain ⟨res, he, hs, hn⟩ := earliestArrivalAfter_spec nw t.nodes (nw.node x).startT
      (monoEnd_of_timeChain nw hw t.nodes hc) 0 t.nodes.length hne (Nat.le_refl _)
    rw [he]
    simp only
    have hk : res.getD (t.nodes.length - 1) ≤ t.nodes.length := by
      cases res with
      | none => simp
      | some p => have := (hs p rfl).2.1; simp; omega
    rw [walkDown_eq nw t.nodes x _ hk]
    refine ⟨_, rfl, ?_⟩
    simp only [Option.getD_some]
    symm
    apply lastTrueLen_ext _ _ _ hk
    intro j h1 h2
    cases res with
    | none =>
      simp only [Option.getD_none] at h1
      have : j = t.nodes.length - 1 := by omega
      subst this; exact hlast
    | some p =>
      simp only [Option.getD_some] at h1
      obtain ⟨_, _, hp, _⟩ := hs p rfl
      have hmono := monoEnd_of_timeChain nw hw t.nodes hc p j h1 h2
      exact late_cannot_reach nw hd _ _ (ExtTime.lt_of_lt_of_le hp hmono)
  · simp only [↓reduceIte, pure, Except.pure]
    refine ⟨none, rfl, ?_⟩
    simp only [Option.getD_none]
    exact (lastTrueLen_full _ _ hne hlast).symm

/-- **insertion end**: `latest_not_reached_by_node` never faults and (`None ↦ 0`, `Some p ↦ p+1`)
    equals the start of the longest suffix whose first node `x` can reach -/
theorem lnrb_spec (nw : Network) (hd : C17.DepotTimes nw) (hw : NodesWF' nw) (t : Tour)
    (hc : TimeChain nw t.nodes) (hne : 0 < t.nodes.length) (x : Nat) :
    ∃ r, latestNotReachedByNode nw true t x = .ok r ∧
      (match r with | none => 0 | some p => p + 1) = keepSuffixStart nw t.nodes x := by
  unfold latestNotReachedByNode Tour.firstNode keepSuffixStart
  rw [idxAt_ok t.nodes 0 hne]
  simp only [bind, Except.bind]
  cases hfirst : nw.canReach x (t.nodes.getD 0 0)
  · simp only [Bool.false_eq_true, ↓reduceIte]
    obtain ⟨res, he, hs, hn⟩ := latestDepartureBefore_spec nw t.nodes (nw.node x).endT
      (monoStart_of_timeChain nw hw t.nodes hc) 0 t.nodes.length hne (Nat.le_refl _)
    rw [he]
    simp only
    have hpos : res.getD 0 < t.nodes.length := by
      cases res with
      | none => simpa using hne
      | some p => have := (hs p rfl).2.1; simpa using this
    obtain ⟨q, hq1, hq2⟩ := walkUp_eq nw t.nodes x t.nodes.length (res.getD 0) hpos (by omega)
    rw [hq1]
    refine ⟨some q, rfl, ?_⟩
    simp only
    rw [hq2]
    symm
    apply firstTrueFrom_skip _ _ _ (by omega)
    intro j hj
    cases res with
    | none =>
      simp only [Option.getD_none] at hj
      have : j = 0 := by omega
      subst this; exact hfirst
    | some p =>
      simp only [Option.getD_some] at hj
      obtain ⟨_, hplt, hp, _⟩ := hs p rfl
      have hmono := monoStart_of_timeChain nw hw t.nodes hc j p (by omega) hplt
      exact early_cannot_be_reached nw hd _ _ (ExtTime.lt_of_le_of_lt hmono hp)
  · simp only [↓reduceIte, pure, Except.pure]
    refine ⟨none, rfl, ?_⟩
    simp only
    cases hl : t.nodes.length with
    | zero => omega
    | succ n =>
      have h' : reachedAt nw t.nodes x 0 = true := hfirst
      rw [firstTrueFrom_succ, if_pos h']

end RSSched
