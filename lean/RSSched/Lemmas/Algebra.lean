/-
Lemmas/Algebra: `Dist` and `Dur` are commutative monoids with an absorbing `inf`; subtraction
undoes addition on finite values. Sums over node lists and adjacent pairs under splicing.
-/
import RSSched.Model.Tour
namespace RSSched
open Network

namespace Dist
@[simp] theorem add_inf_left (x : Dist) : add inf x = inf := by cases x <;> rfl
@[simp] theorem add_inf_right (x : Dist) : add x inf = inf := by cases x <;> rfl
@[simp] theorem add_zero_left (x : Dist) : add zero x = x := by cases x <;> simp [add, zero]
@[simp] theorem add_zero_right (x : Dist) : add x zero = x := by cases x <;> simp [add, zero]
theorem add_comm (x y : Dist) : add x y = add y x := by
  cases x <;> cases y <;> simp [add, Nat.add_comm]
theorem add_assoc (x y z : Dist) : add (add x y) z = add x (add y z) := by
  cases x <;> cases y <;> cases z <;> simp [add, Nat.add_assoc]
/-- a finite sum has finite parts -/
theorem add_eq_d {x y : Dist} {n : Nat} (h : add x y = d n) : ∃ a b, x = d a ∧ y = d b ∧ n = a + b := by
  cases x <;> cases y <;> simp [add] at h
  exact ⟨_, _, rfl, rfl, h.symm⟩
/-- `(s + x) − s = x` on finite values, without fault -/
theorem sub_add_cancel (a b : Nat) : sub (d (a + b)) (d a) = .ok (d b) := by
  simp [sub]
end Dist

namespace Dur
@[simp] theorem add_inf_left (x : Dur) : add inf x = inf := by cases x <;> rfl
@[simp] theorem add_inf_right (x : Dur) : add x inf = inf := by cases x <;> rfl
@[simp] theorem add_zero_left (x : Dur) : add zero x = x := by cases x <;> simp [add, zero]
@[simp] theorem add_zero_right (x : Dur) : add x zero = x := by cases x <;> simp [add, zero]
theorem add_comm (x y : Dur) : add x y = add y x := by
  cases x <;> cases y <;> simp [add, Nat.add_comm]
theorem add_assoc (x y z : Dur) : add (add x y) z = add x (add y z) := by
  cases x <;> cases y <;> cases z <;> simp [add, Nat.add_assoc]
theorem add_eq_len {x y : Dur} {n : Nat} (h : add x y = len n) : ∃ a b, x = len a ∧ y = len b ∧ n = a + b := by
  cases x <;> cases y <;> simp [add] at h
  exact ⟨_, _, rfl, rfl, h.symm⟩
theorem sub_add_cancel (a b : Nat) : sub (len (a + b)) (len a) = .ok (len b) := by
  simp [sub, le]
end Dur

namespace Network

theorem foldl_dist (a : Dist) (l : List Dist) : l.foldl Dist.add a = Dist.add a (l.foldl Dist.add Dist.zero) := by
  induction l generalizing a with
  | nil => simp
  | cons x xs ih => simp only [List.foldl_cons]; rw [ih, ih (Dist.add Dist.zero x)]; simp [Dist.add_assoc]

@[simp] theorem sumDist_nil : sumDist [] = Dist.zero := rfl
theorem sumDist_cons (x : Dist) (xs : List Dist) : sumDist (x :: xs) = Dist.add x (sumDist xs) := by
  unfold sumDist; simp only [List.foldl_cons]; rw [foldl_dist]; simp
theorem sumDist_append (l1 l2 : List Dist) : sumDist (l1 ++ l2) = Dist.add (sumDist l1) (sumDist l2) := by
  induction l1 with
  | nil => simp
  | cons x xs ih => simp [sumDist_cons, ih, Dist.add_assoc]

theorem foldl_dur (a : Dur) (l : List Dur) : l.foldl Dur.add a = Dur.add a (l.foldl Dur.add Dur.zero) := by
  induction l generalizing a with
  | nil => simp
  | cons x xs ih => simp only [List.foldl_cons]; rw [ih, ih (Dur.add Dur.zero x)]; simp [Dur.add_assoc]

@[simp] theorem sumDur_nil : sumDur [] = Dur.zero := rfl
theorem sumDur_cons (x : Dur) (xs : List Dur) : sumDur (x :: xs) = Dur.add x (sumDur xs) := by
  unfold sumDur; simp only [List.foldl_cons]; rw [foldl_dur]; simp
theorem sumDur_append (l1 l2 : List Dur) : sumDur (l1 ++ l2) = Dur.add (sumDur l1) (sumDur l2) := by
  induction l1 with
  | nil => simp
  | cons x xs ih => simp [sumDur_cons, ih, Dur.add_assoc]

theorem sumNat_cons (x : Nat) (xs : List Nat) : sumNat (x :: xs) = x + sumNat xs := rfl
theorem sumNat_append (l1 l2 : List Nat) : sumNat (l1 ++ l2) = sumNat l1 + sumNat l2 := by
  induction l1 with
  | nil => simp [sumNat]
  | cons x xs ih => simp only [List.cons_append, sumNat_cons, ih]; omega

end Network
end RSSched
