/-
Lemmas/Cyclic: integer sums over the adjacent pairs of a list and over its *cyclic* pairs
(last → first closes the cycle; a one-element list has its self loop, the empty list sums to 0).
These are the sums a rotation cycle's maintenance counter consists of. Rotation invariance and
the insert / delete / re-link formulas are what `Transition::{update_vehicle, remove_vehicle,
add_vehicle_at_the_end}` and `TransitionCycle::three_opt` compute incrementally.
-/
namespace RSSched.Cyclic
variable {α : Type}

def pairSumI (g : α → α → Int) : List α → Int
  | a :: b :: rest => g a b + pairSumI g (b :: rest)
  | _ => 0

def connI (g : α → α → Int) : Option α → Option α → Int
  | some x, some y => g x y
  | _, _ => 0

/-- sum of `g` over the cyclic pairs of `l` -/
def cyc (g : α → α → Int) (l : List α) : Int := pairSumI g l + connI g l.getLast? l.head?

@[simp] theorem pairSumI_nil (g : α → α → Int) : pairSumI g [] = 0 := rfl
@[simp] theorem pairSumI_single (g : α → α → Int) (a : α) : pairSumI g [a] = 0 := rfl
@[simp] theorem pairSumI_cons_cons (g : α → α → Int) (a b : α) (r : List α) :
    pairSumI g (a :: b :: r) = g a b + pairSumI g (b :: r) := rfl

theorem pairSumI_append (g : α → α → Int) (l1 l2 : List α) :
    pairSumI g (l1 ++ l2) = pairSumI g l1 + connI g l1.getLast? l2.head? + pairSumI g l2 := by
  induction l1 with
  | nil => simp [connI]
  | cons a as ih =>
    cases as with
    | nil =>
      cases l2 with
      | nil => simp [connI]
      | cons b bs => simp [connI]
    | cons a2 as2 =>
      have : (a :: a2 :: as2 ++ l2) = a :: (a2 :: (as2 ++ l2)) := rfl
      rw [this, pairSumI_cons_cons]
      have ih' := ih
      simp only [List.cons_append] at ih'
      rw [ih']
      simp [List.getLast?_cons_cons]
      omega

@[simp] theorem cyc_nil (g : α → α → Int) : cyc g [] = 0 := rfl
@[simp] theorem cyc_single (g : α → α → Int) (a : α) : cyc g [a] = g a a := by simp [cyc, connI]

theorem getLast?_append_ne {l1 l2 : List α} (h : l2 ≠ []) : (l1 ++ l2).getLast? = l2.getLast? := by
  cases l2 with
  | nil => exact absurd rfl h
  | cons b bs => simp [List.getLast?_append, List.getLast?_cons]

theorem head?_append_ne {l1 l2 : List α} (h : l1 ≠ []) : (l1 ++ l2).head? = l1.head? := by
  cases l1 with
  | nil => exact absurd rfl h
  | cons b bs => simp

/-- rotation invariance of a cyclic sum -/
theorem cyc_rotate (g : α → α → Int) (l1 l2 : List α) : cyc g (l1 ++ l2) = cyc g (l2 ++ l1) := by
  cases l1 with
  | nil => simp
  | cons a as =>
    cases l2 with
    | nil => simp
    | cons b bs =>
      unfold cyc
      rw [pairSumI_append, pairSumI_append]
      rw [getLast?_append_ne (by simp), head?_append_ne (by simp)]
      rw [getLast?_append_ne (by simp), head?_append_ne (by simp)]
      omega

/-- a cycle seen from one of its members: link out, the open chain of the others, link in -/
theorem cyc_cons (g : α → α → Int) (v : α) (rest : List α) (h : rest ≠ []) :
    cyc g (v :: rest) = connI g (some v) rest.head? + pairSumI g rest + connI g rest.getLast? (some v) := by
  cases rest with
  | nil => exact absurd rfl h
  | cons b bs =>
    unfold cyc
    simp only [pairSumI_cons_cons, List.head?_cons, List.getLast?_cons_cons, connI]

/-- a cycle of at least one element, closed -/
theorem cyc_ne (g : α → α → Int) (l : List α) :
    cyc g l = pairSumI g l + connI g l.getLast? l.head? := rfl

/-- appending at the end: the closing link is replaced by two links -/
theorem cyc_append_single (g : α → α → Int) (l : List α) (v : α) (h : l ≠ []) :
    cyc g (l ++ [v]) = cyc g l - connI g l.getLast? l.head?
      + connI g l.getLast? (some v) + connI g (some v) l.head? := by
  unfold cyc
  rw [pairSumI_append, getLast?_append_ne (by simp), head?_append_ne h]
  simp

/-- removing a member `v` from `pre ++ v :: suf` (seen cyclically) -/
theorem cyc_remove (g : α → α → Int) (pre suf : List α) (v : α) (h : suf ++ pre ≠ []) :
    cyc g (pre ++ suf) = cyc g (pre ++ v :: suf)
      - connI g (suf ++ pre).getLast? (some v) - connI g (some v) (suf ++ pre).head?
      + connI g (suf ++ pre).getLast? (suf ++ pre).head? := by
  have e1 : cyc g (pre ++ v :: suf) = cyc g (v :: (suf ++ pre)) := by
    rw [cyc_rotate]; rfl
  rw [e1, cyc_cons g v _ h, cyc_rotate g pre suf, cyc_ne]
  omega

/-- only the two links at `v` depend on how `v` is valued: replacing the link function by one
    that agrees away from `v` changes exactly those two links -/
theorem pairSumI_congr (g g' : α → α → Int) (l : List α)
    (h : ∀ a b, a ∈ l → b ∈ l → g a b = g' a b) : pairSumI g l = pairSumI g' l := by
  induction l with
  | nil => rfl
  | cons a as ih =>
    cases as with
    | nil => rfl
    | cons b bs =>
      simp only [pairSumI_cons_cons]
      rw [h a b (by simp) (by simp), ih (fun x y hx hy => h x y (by simp [hx]) (by simp [hy]))]

theorem cyc_update (g g' : α → α → Int) (pre suf : List α) (v : α) (h : suf ++ pre ≠ [])
    (hag : ∀ a b, a ∈ suf ++ pre → b ∈ suf ++ pre → g a b = g' a b) :
    cyc g' (pre ++ v :: suf) = cyc g (pre ++ v :: suf)
      - connI g (suf ++ pre).getLast? (some v) - connI g (some v) (suf ++ pre).head?
      + connI g' (suf ++ pre).getLast? (some v) + connI g' (some v) (suf ++ pre).head? := by
  have e1 : ∀ f : α → α → Int, cyc f (pre ++ v :: suf) = cyc f (v :: (suf ++ pre)) := by
    intro f; rw [cyc_rotate]; rfl
  rw [e1 g, e1 g', cyc_cons g v _ h, cyc_cons g' v _ h, pairSumI_congr g g' _ hag]
  omega

theorem sumInt_append (l1 l2 : List Int) :
    (l1 ++ l2).foldr (· + ·) 0 = l1.foldr (· + ·) 0 + l2.foldr (· + ·) 0 := by
  induction l1 with
  | nil => simp
  | cons a as ih => simp only [List.cons_append, List.foldr_cons, ih]; omega

/-- a cycle cut into three non-empty consecutive blocks -/
theorem cyc3 (g : α → α → Int) (X B C : List α) (hX : X ≠ []) (hB : B ≠ []) (hC : C ≠ []) :
    cyc g (X ++ B ++ C) = pairSumI g X + connI g X.getLast? B.head? + pairSumI g B
      + connI g B.getLast? C.head? + pairSumI g C + connI g C.getLast? X.head? := by
  unfold cyc
  rw [pairSumI_append, pairSumI_append, getLast?_append_ne hB, getLast?_append_ne hC,
    head?_append_ne (by simp [hX]), head?_append_ne hX]

/-- exchanging two adjacent blocks of a cycle re-links three places -/
theorem cyc_swap_blocks (g : α → α → Int) (X B C : List α) (hX : X ≠ []) (hB : B ≠ []) (hC : C ≠ []) :
    cyc g (X ++ C ++ B) = cyc g (X ++ B ++ C)
      - connI g X.getLast? B.head? - connI g B.getLast? C.head? - connI g C.getLast? X.head?
      + connI g X.getLast? C.head? + connI g C.getLast? B.head? + connI g B.getLast? X.head? := by
  rw [cyc3 g X B C hX hB hC, cyc3 g X C B hX hC hB]; omega

theorem foldr_add_perm4 (A B C D : List Int) :
    (A ++ C ++ B ++ D).foldr (· + ·) 0 = (A ++ B ++ C ++ D).foldr (· + ·) 0 := by
  simp only [sumInt_append]; omega

/-- the four blocks of a 3-opt move and their boundary elements -/
theorem threeOpt_blocks (vs : List α) (i j k : Nat) (h1 : i < j) (h2 : j < k) (h3 : k < vs.length) :
    vs = vs.take (i + 1) ++ (vs.drop (i + 1)).take (j - i) ++ (vs.drop (j + 1)).take (k - j) ++ vs.drop (k + 1) ∧
    vs.take (i + 1) ≠ [] ∧ (vs.drop (i + 1)).take (j - i) ≠ [] ∧ (vs.drop (j + 1)).take (k - j) ≠ [] ∧
    (vs.take (i + 1)).getLast? = vs[i]? ∧ ((vs.drop (i + 1)).take (j - i)).head? = vs[i + 1]? ∧
    ((vs.drop (i + 1)).take (j - i)).getLast? = vs[j]? ∧ ((vs.drop (j + 1)).take (k - j)).head? = vs[j + 1]? ∧
    ((vs.drop (j + 1)).take (k - j)).getLast? = vs[k]? ∧
    (vs.drop (k + 1) ++ vs.take (i + 1)).head? = vs[(k + 1) % vs.length]? := by
  have e1 : vs = vs.take (i + 1) ++ vs.drop (i + 1) := (List.take_append_drop _ _).symm
  have e2 : vs.drop (i + 1) = (vs.drop (i + 1)).take (j - i) ++ vs.drop (j + 1) := by
    have := (List.take_append_drop (j - i) (vs.drop (i + 1))).symm
    rw [List.drop_drop] at this
    have hj : i + 1 + (j - i) = j + 1 := by omega
    rw [hj] at this; exact this
  have e3 : vs.drop (j + 1) = (vs.drop (j + 1)).take (k - j) ++ vs.drop (k + 1) := by
    have := (List.take_append_drop (k - j) (vs.drop (j + 1))).symm
    rw [List.drop_drop] at this
    have hk : j + 1 + (k - j) = k + 1 := by omega
    rw [hk] at this; exact this
  have ne_of_len : ∀ l : List α, 0 < l.length → l ≠ [] := fun l h e => by simp [e] at h
  refine ⟨?_, ?_, ?_, ?_, ?_, ?_, ?_, ?_, ?_, ?_⟩
  · conv => lhs; rw [e1, e2, e3]
    simp only [List.append_assoc]
  · apply ne_of_len; simp; omega
  · apply ne_of_len; simp; omega
  · apply ne_of_len; simp; omega
  · rw [List.getLast?_eq_getElem?, List.getElem?_take]
    simp only [List.length_take]
    have : min (i + 1) vs.length - 1 = i := by omega
    rw [this]; simp
  · rw [List.head?_eq_getElem?, List.getElem?_take, List.getElem?_drop]
    have : 0 < j - i := by omega
    simp [this]
  · rw [List.getLast?_eq_getElem?, List.getElem?_take, List.getElem?_drop]
    simp only [List.length_take, List.length_drop]
    have : min (j - i) (vs.length - (i + 1)) - 1 = j - i - 1 := by omega
    rw [this]
    have h4 : j - i - 1 < j - i := by omega
    have h5 : i + 1 + (j - i - 1) = j := by omega
    simp [h4, h5]
  · rw [List.head?_eq_getElem?, List.getElem?_take, List.getElem?_drop]
    have : 0 < k - j := by omega
    simp [this]
  · rw [List.getLast?_eq_getElem?, List.getElem?_take, List.getElem?_drop]
    simp only [List.length_take, List.length_drop]
    have : min (k - j) (vs.length - (j + 1)) - 1 = k - j - 1 := by omega
    rw [this]
    have h4 : k - j - 1 < k - j := by omega
    have h5 : j + 1 + (k - j - 1) = k := by omega
    simp [h4, h5]
  · by_cases hD : k + 1 = vs.length
    · have : vs.drop (k + 1) = [] := by rw [hD]; simp
      rw [this, hD]; simp
      rw [List.head?_eq_getElem?, List.getElem?_take]; simp
    · have hlt : k + 1 < vs.length := by omega
      have hne : vs.drop (k + 1) ≠ [] := by apply ne_of_len; simp; omega
      rw [head?_append_ne hne, Nat.mod_eq_of_lt hlt, List.head?_eq_getElem?, List.getElem?_drop]

end RSSched.Cyclic
