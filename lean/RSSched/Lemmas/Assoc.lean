/-
Lemmas/Assoc: association lists with duplicate-free keys behave like finite maps
(`assocGet?` after `assocSet` / `assocErase`, and invariance under permutation, which is what the
sorted `cycle_lookup` dump relies on), plus `List.set` / position lemmas used by the
rotation-cycle proofs.
-/
import RSSched.Model.Base
namespace RSSched
variable {κ ν : Type} [DecidableEq κ]

theorem assocGet?_nil (k : κ) : assocGet? ([] : List (κ × ν)) k = none := rfl

theorem assocGet?_cons (p : κ × ν) (l : List (κ × ν)) (k : κ) :
    assocGet? (p :: l) k = if p.1 = k then some p.2 else assocGet? l k := by
  unfold assocGet?
  by_cases h : p.1 = k <;> simp [h]

theorem assocGet?_eq_none_iff (l : List (κ × ν)) (k : κ) :
    assocGet? l k = none ↔ k ∉ l.map (·.1) := by
  induction l with
  | nil => simp [assocGet?_nil]
  | cons p ps ih =>
    rw [assocGet?_cons]
    by_cases h : p.1 = k
    · simp [h]
    · simp only [h, ↓reduceIte, ih, List.map_cons, List.mem_cons]
      constructor
      · intro h1 h2; cases h2 with
        | inl e => exact h e.symm
        | inr e => exact h1 e
      · intro h1 h2; exact h1 (Or.inr h2)

theorem assocGet?_mem {l : List (κ × ν)} {k : κ} {x : ν} (h : assocGet? l k = some x) : (k, x) ∈ l := by
  induction l with
  | nil => simp [assocGet?_nil] at h
  | cons p ps ih =>
    rw [assocGet?_cons] at h
    by_cases e : p.1 = k
    · simp only [e, ↓reduceIte, Option.some.injEq] at h
      have : p = (k, x) := by cases p; simp_all
      simp [this]
    · simp only [e, ↓reduceIte] at h
      exact List.mem_cons_of_mem _ (ih h)

theorem assocGet?_of_mem {l : List (κ × ν)} {k : κ} {x : ν} (hnd : (l.map (·.1)).Nodup)
    (h : (k, x) ∈ l) : assocGet? l k = some x := by
  induction l with
  | nil => cases h
  | cons p ps ih =>
    rw [assocGet?_cons]
    have hnd' : p.1 ∉ ps.map (·.1) ∧ (ps.map (·.1)).Nodup := by
      rw [List.map_cons] at hnd; exact List.nodup_cons.mp hnd
    cases h with
    | head => simp
    | tail _ hm =>
      have hk : k ∈ ps.map (·.1) := List.mem_map.mpr ⟨(k, x), hm, rfl⟩
      have hne : p.1 ≠ k := fun e => hnd'.1 (e ▸ hk)
      simp only [hne, ↓reduceIte]
      exact ih hnd'.2 hm

/-- a permutation of an association list with duplicate-free keys is the same map -/
theorem assocGet?_perm {l1 l2 : List (κ × ν)} (hp : l1.Perm l2) (hnd : (l1.map (·.1)).Nodup) (k : κ) :
    assocGet? l1 k = assocGet? l2 k := by
  have hnd2 : (l2.map (·.1)).Nodup := (hp.map _).nodup_iff.mp hnd
  cases h1 : assocGet? l1 k with
  | none =>
    have := (assocGet?_eq_none_iff l1 k).mp h1
    have h2 : k ∉ l2.map (·.1) := fun hm => this ((hp.map _).mem_iff.mpr hm)
    exact ((assocGet?_eq_none_iff l2 k).mpr h2).symm
  | some x =>
    have := assocGet?_mem h1
    exact (assocGet?_of_mem hnd2 (hp.mem_iff.mp this)).symm

theorem assocSet_keys_nodup (l : List (κ × ν)) (k : κ) (v : ν) (hnd : (l.map (·.1)).Nodup) :
    ((assocSet l k v).map (·.1)).Nodup := by
  unfold assocSet
  split
  · have : (l.map (fun p => if p.1 = k then (k, v) else p)).map (·.1) = l.map (·.1) := by
      rw [List.map_map]; apply List.map_congr_left; intro p _
      by_cases e : p.1 = k <;> simp [e]
    rw [this]; exact hnd
  · rename_i hany
    rw [List.map_append, List.nodup_append]
    refine ⟨hnd, by simp, ?_⟩
    intro a ha b hb
    simp at hb; subst hb
    intro e; subst e
    apply hany
    obtain ⟨p, hp, hpk⟩ := List.mem_map.mp ha
    exact List.any_eq_true.mpr ⟨p, hp, by simp [hpk]⟩

theorem assocGet?_assocSet (l : List (κ × ν)) (k : κ) (v : ν) (k' : κ) :
    assocGet? (assocSet l k v) k' = if k' = k then some v else assocGet? l k' := by
  unfold assocSet
  split
  · rename_i hany
    induction l with
    | nil => simp at hany
    | cons p ps ih =>
      simp only [List.map_cons]
      rw [assocGet?_cons, assocGet?_cons]
      by_cases e : p.1 = k
      · simp only [e, ↓reduceIte]
        by_cases e' : k = k'
        · simp [e']
        · have e'' : ¬ k' = k := fun h => e' h.symm
          simp only [e', ↓reduceIte, e'']
          by_cases hany' : ps.any (·.1 = k) = true
          · rw [ih hany']; simp [e'']
          · -- no further key k: the map is the identity on ps
            have : ps.map (fun p => if p.1 = k then (k, v) else p) = ps := by
              conv => rhs; rw [← List.map_id ps]
              apply List.map_congr_left; intro q hq
              have : ¬ q.1 = k := fun h => hany' (List.any_eq_true.mpr ⟨q, hq, by simp [h]⟩)
              simp [this]
            rw [this]
      · simp only [e, ↓reduceIte]
        have hany' : ps.any (·.1 = k) = true := by
          simp only [List.any_cons, Bool.or_eq_true, decide_eq_true_eq] at hany
          cases hany with
          | inl h => exact absurd h e
          | inr h => exact h
        by_cases e' : p.1 = k'
        · have : ¬ k' = k := fun h => e (e'.trans h)
          simp [e', this]
        · simp only [e', ↓reduceIte]; exact ih hany'
  · rename_i hany
    have hnone : assocGet? l k = none := by
      rw [assocGet?_eq_none_iff]; intro hm
      obtain ⟨p, hp, hpk⟩ := List.mem_map.mp hm
      exact hany (List.any_eq_true.mpr ⟨p, hp, by simp [hpk]⟩)
    induction l with
    | nil =>
      simp only [List.nil_append]; rw [assocGet?_cons, assocGet?_nil]
      by_cases e : k = k' <;> simp [e, eq_comm]
    | cons p ps ih =>
      simp only [List.cons_append]
      rw [assocGet?_cons, assocGet?_cons]
      rw [assocGet?_cons] at hnone
      by_cases e : p.1 = k
      · simp [e] at hnone
      · simp only [e, ↓reduceIte] at hnone
        have hany' : ¬ ps.any (·.1 = k) = true := by
          intro h; apply hany; simp only [List.any_cons, Bool.or_eq_true]; exact Or.inr h
        by_cases e' : p.1 = k'
        · have : ¬ k' = k := fun h => e (e'.trans h)
          simp [e', this]
        · simp only [e', ↓reduceIte]; exact ih hany' hnone

theorem assocErase_keys_nodup (l : List (κ × ν)) (k : κ) (hnd : (l.map (·.1)).Nodup) :
    ((assocErase l k).map (·.1)).Nodup := by
  unfold assocErase
  exact (List.filter_sublist.map _).nodup hnd

theorem assocGet?_assocErase (l : List (κ × ν)) (k k' : κ) :
    assocGet? (assocErase l k) k' = if k' = k then none else assocGet? l k' := by
  unfold assocErase
  induction l with
  | nil => simp [assocGet?_nil]
  | cons p ps ih =>
    by_cases e : p.1 = k
    · simp only [List.filter_cons, e, decide_true, Bool.not_true, Bool.false_eq_true, ↓reduceIte]
      rw [ih, assocGet?_cons]
      by_cases e' : k' = k
      · simp [e']
      · have : ¬ p.1 = k' := fun h => e' (h.symm.trans e)
        simp [e', this]
    · simp only [List.filter_cons, e, decide_false, Bool.not_false, ↓reduceIte]
      rw [assocGet?_cons, assocGet?_cons, ih]
      by_cases e' : p.1 = k'
      · have : ¬ k' = k := fun h => e (e'.trans h)
        simp [e', this]
      · simp [e']

/-! ### `List.set` as a point update -/
theorem getElem?_set' {α} (l : List α) (i j : Nat) (x : α) (h : i < l.length) :
    (l.set i x)[j]? = if j = i then some x else l[j]? := by
  by_cases e : j = i
  · subst e; simp [h]
  · simp only [e, ↓reduceIte]
    rw [List.getElem?_set_ne (fun h => e h.symm)]

/-- a duplicate-free list splits uniquely at a member -/
theorem split_at_mem {α} [DecidableEq α] (l : List α) (v : α) (hnd : l.Nodup) (hv : v ∈ l) :
    ∃ pre suf, l = pre ++ v :: suf ∧ v ∉ pre ∧ v ∉ suf ∧
      l.filter (fun x => x != v) = pre ++ suf ∧ l.findIdx? (fun x => x == v) = some pre.length := by
  induction l with
  | nil => cases hv
  | cons a as ih =>
    have hnd' := List.nodup_cons.mp hnd
    by_cases e : a = v
    · subst e
      refine ⟨[], as, rfl, by simp, hnd'.1, ?_, by simp [List.findIdx?_cons]⟩
      simp only [List.filter_cons, bne_self_eq_false, Bool.false_eq_true, ↓reduceIte, List.nil_append]
      rw [List.filter_eq_self]; intro x hx
      simp only [bne_iff_ne, ne_eq]; intro h; subst h; exact hnd'.1 hx
    · have hv' : v ∈ as := by
        cases hv with
        | head => exact absurd rfl e
        | tail _ h => exact h
      obtain ⟨pre, suf, h1, h2, h3, h4, h5⟩ := ih hnd'.2 hv'
      refine ⟨a :: pre, suf, by simp [h1], ?_, h3, ?_, ?_⟩
      · simp only [List.mem_cons, not_or]; exact ⟨fun h => e h.symm, h2⟩
      · have : (a != v) = true := by simp [e]
        simp only [List.filter_cons, this, ↓reduceIte, List.cons_append, h4]
      · have : (a == v) = false := by simp [e]
        simp [List.findIdx?_cons, this, h5]

end RSSched
