/-
Lemmas/TourSeg: the "segment terms" of tour/modifications.rs in list form. For
`nodes = pre ++ mid ++ suf` the index-based helpers `dead_head_distance_of_segment`,
`costs_of_segment`, `dead_head_distance_of_new_nodes`, `costs_of_new_nodes` compute exactly the
part of the from-scratch sums that belongs to `mid` and its two links; they never fault in range.
-/
import RSSched.Lemmas.Algebra
namespace RSSched
open Network

def connPairs {α} : Option α → Option α → List (α × α)
  | some a, some b => [(a, b)]
  | _, _ => []

theorem pairs_append {α} (l1 l2 : List α) :
    pairs (l1 ++ l2) = pairs l1 ++ connPairs l1.getLast? l2.head? ++ pairs l2 := by
  induction l1 with
  | nil => cases l2 <;> simp [pairs, connPairs]
  | cons a as ih =>
    cases as with
    | nil => cases l2 <;> simp [pairs, connPairs]
    | cons b bs =>
      have : a :: b :: bs ++ l2 = a :: (b :: (bs ++ l2)) := rfl
      rw [this, pairs]
      have ih' := ih
      simp only [List.cons_append] at ih'
      rw [ih']
      simp [pairs, List.getLast?_cons_cons]

namespace Network

/-- dead-head distance of the link between two optional neighbours -/
def connD (nw : Network) : Option Nat → Option Nat → Dist
  | some a, some b => nw.deadHeadDistanceBetween a b
  | _, _ => Dist.zero

/-- link cost between two optional neighbours -/
def connC (nw : Network) : Option Nat → Option Nat → Nat
  | some a, some b => nw.linkCost a b
  | _, _ => 0

def linkSum (nw : Network) (l : List Nat) : Nat := sumNat ((pairs l).map (fun p => nw.linkCost p.1 p.2))
def nodeCostSum (nw : Network) (l : List Nat) : Nat := sumNat (l.map nw.nodeCost)

theorem costsOf_eq (nw : Network) (l : List Nat) : nw.costsOf l = nw.nodeCostSum l + nw.linkSum l := rfl

theorem connD_pairs (nw : Network) (a b : Option Nat) :
    sumDist ((connPairs a b).map (fun p => nw.deadHeadDistanceBetween p.1 p.2)) = nw.connD a b := by
  cases a <;> cases b <;> simp [connPairs, connD, sumDist_cons]

theorem connC_pairs (nw : Network) (a b : Option Nat) :
    sumNat ((connPairs a b).map (fun p => nw.linkCost p.1 p.2)) = nw.connC a b := by
  cases a <;> cases b <;> simp [connPairs, connC, sumNat]

theorem dhDistOf_append (nw : Network) (l1 l2 : List Nat) :
    nw.dhDistOf (l1 ++ l2) = Dist.add (Dist.add (nw.dhDistOf l1) (nw.connD l1.getLast? l2.head?)) (nw.dhDistOf l2) := by
  simp only [dhDistOf, pairs_append, List.map_append, sumDist_append, connD_pairs]

theorem linkSum_append (nw : Network) (l1 l2 : List Nat) :
    nw.linkSum (l1 ++ l2) = nw.linkSum l1 + nw.connC l1.getLast? l2.head? + nw.linkSum l2 := by
  simp only [linkSum, pairs_append, List.map_append, sumNat_append, connC_pairs]

theorem nodeCostSum_append (nw : Network) (l1 l2 : List Nat) :
    nw.nodeCostSum (l1 ++ l2) = nw.nodeCostSum l1 + nw.nodeCostSum l2 := by
  simp only [nodeCostSum, List.map_append, sumNat_append]

theorem usefulDurOf_append (nw : Network) (l1 l2 : List Nat) :
    nw.usefulDurOf (l1 ++ l2) = Dur.add (nw.usefulDurOf l1) (nw.usefulDurOf l2) := by
  simp only [usefulDurOf, List.map_append, sumDur_append]

theorem serviceDistOf_append (nw : Network) (l1 l2 : List Nat) :
    nw.serviceDistOf (l1 ++ l2) = Dist.add (nw.serviceDistOf l1) (nw.serviceDistOf l2) := by
  simp only [serviceDistOf, List.map_append, sumDist_append]

theorem visitsMaintOf_append (nw : Network) (l1 l2 : List Nat) :
    nw.visitsMaintOf (l1 ++ l2) = (nw.visitsMaintOf l1 || nw.visitsMaintOf l2) := by
  simp [visitsMaintOf]

/-- what `dead_head_distance_of_segment` / `.._of_new_nodes` compute for `mid` between `pre` and `suf` -/
def segD (nw : Network) (pre mid suf : List Nat) : Dist :=
  match mid with
  | [] => nw.connD pre.getLast? suf.head?
  | _ => Dist.add (Dist.add (nw.connD pre.getLast? mid.head?) (nw.dhDistOf mid)) (nw.connD mid.getLast? suf.head?)

/-- what `costs_of_segment` / `costs_of_new_nodes` compute -/
def segC (nw : Network) (pre mid suf : List Nat) : Nat :=
  match mid with
  | [] => nw.connC pre.getLast? suf.head?
  | _ => nw.connC pre.getLast? mid.head? + nw.linkSum mid + nw.connC mid.getLast? suf.head? + nw.nodeCostSum mid

theorem dhDistOf_splice (nw : Network) (pre mid suf : List Nat) :
    nw.dhDistOf (pre ++ mid ++ suf) = Dist.add (Dist.add (nw.dhDistOf pre) (nw.segD pre mid suf)) (nw.dhDistOf suf) := by
  cases mid with
  | nil => simp [segD, dhDistOf_append]
  | cons m ms =>
    rw [List.append_assoc, dhDistOf_append, dhDistOf_append nw (m :: ms) suf]
    simp [segD, Dist.add_assoc]

theorem costsOf_splice (nw : Network) (pre mid suf : List Nat) :
    nw.costsOf (pre ++ mid ++ suf) = nw.costsOf pre + nw.segC pre mid suf + nw.costsOf suf := by
  cases mid with
  | nil => simp only [segC, costsOf_eq, List.append_nil, linkSum_append, nodeCostSum_append]; omega
  | cons m ms =>
    rw [List.append_assoc]
    simp only [costsOf_eq, linkSum_append nw pre, linkSum_append nw (m :: ms) suf, nodeCostSum_append, segC]
    simp
    omega

end Network
end RSSched
