def hello := "world"
