/-
Props/C09: cached aggregates equal recomputation.

Proved here:
* a freshly computed tour (`Tour::new_computing`, the base of every history) is exact;
* the delta algebra every incremental update relies on: for node sums and adjacent-pair sums the
  update `total − segment(old) + segment(new)` equals recomputation of the spliced list, in the
  truncated unsigned arithmetic of the code (no underflow because the subtrahend is a sub-sum);
* `Distance` arithmetic: `Infinity` absorbs, so the delta update is NOT exact when the cached value
  is `Infinity` (finding F8) — the concrete counterexample is proved, and the repaired functions
  recompute in that case.
The full-strength statement `C09_tour_statement` (every Tour operation of the model preserves
`tourCachesExactB`) is kept visible; until its proof is complete it is decided per run by the
monitor `tourCacheDiffs` on every real tour along generated operation histories.
-/
import RSSched.Lemmas.Splice
import RSSched.Spec.Tour
namespace RSSched.C09
open RSSched Network Tour Spec

/-- the base case of every history: a tour built by the constructor is exact -/
theorem C09_computing_exact (nw : Network) (nodes : List Nat) (d : Bool) :
    tourCachesExactB nw (Tour.computing nw nodes d) = true := by
  simp [tourCachesExactB, tourCacheDiffs, Tour.computing]

/-- the monitor means the declarative statement: all five cached figures equal recomputation -/
theorem C09_monitor_sound (nw : Network) (t : Tour) (h : tourCachesExactB nw t = true) :
    t.visitsMaint = nw.visitsMaintOf t.nodes ∧ t.usefulDur = nw.usefulDurOf t.nodes ∧
    t.serviceDist = nw.serviceDistOf t.nodes ∧ t.dhDist = nw.dhDistOf t.nodes ∧
    t.costs = nw.costsOf t.nodes := by
  unfold tourCachesExactB tourCacheDiffs at h
  simp only [Tour.computing, List.isEmpty_iff, List.append_eq_nil_iff] at h
  obtain ⟨⟨⟨⟨h1, h2⟩, h3⟩, h4⟩, h5⟩ := h
  refine ⟨?_, ?_, ?_, ?_, ?_⟩
  · cases hc : (t.visitsMaint != nw.visitsMaintOf t.nodes) <;> simp_all
  · cases hc : (t.usefulDur != nw.usefulDurOf t.nodes) <;> simp_all
  · cases hc : (t.serviceDist != nw.serviceDistOf t.nodes) <;> simp_all
  · cases hc : (t.dhDist != nw.dhDistOf t.nodes) <;> simp_all
  · cases hc : (t.costs != nw.costsOf t.nodes) <;> simp_all

/-- adjacent-pair figures (link costs): delta update = recomputation -/
theorem C09_pair_delta (g : Nat → Nat → Nat) (pre old new suf : List Nat) :
    Splice.pairSum g (pre ++ new ++ suf)
      = Splice.pairSum g (pre ++ old ++ suf) - Splice.segTerm g pre old suf + Splice.segTerm g pre new suf :=
  Splice.delta_exact g pre old new suf

/-- per-node figures (durations, service distance, node costs): delta update = recomputation -/
theorem C09_node_delta (f : Nat → Nat) (pre old new suf : List Nat) :
    Splice.nodeSum f (pre ++ new ++ suf)
      = Splice.nodeSum f (pre ++ old ++ suf) - Splice.nodeSum f old + Splice.nodeSum f new :=
  Splice.nodeSum_delta_exact f pre old new suf

/-- F8: with `Distance`, `Infinity` absorbs — the delta formula keeps `Infinity` although the
    recomputed value of the new node list is finite -/
theorem F8_infinity_absorbs (a b : Nat) :
    (do let x ← Dist.sub Dist.inf (Dist.d a); pure (Dist.add x (Dist.d b))) = (.ok Dist.inf : R Dist) := by
  simp [Dist.sub, Dist.add, bind, Except.bind, pure, Except.pure]

/-- and finite distances are exact: `(x + a) − a + b = x + b` never faults -/
theorem C09_dist_delta_finite (x a b : Nat) :
    (do let y ← Dist.sub (Dist.d (x + a)) (Dist.d a); pure (Dist.add y (Dist.d b))) = (.ok (Dist.d (x + b)) : R Dist) := by
  simp [Dist.sub, Dist.add, bind, Except.bind, pure, Except.pure]

/-- C09 (tour half), full strength -/
def C09_tour_statement : Prop :=
  ∀ (nw : Network) (t : Tour), tourValidB nw t = true → tourCachesExactB nw t = true →
    (∀ d t', replaceStartDepot nw t d = .ok t' → tourCachesExactB nw t' = true) ∧
    (∀ d t', replaceEndDepot nw t d = .ok t' → tourCachesExactB nw t' = true) ∧
    (∀ a b t' rm, remove nw t a b = .ok (some t', rm) → tourCachesExactB nw t' = true) ∧
    (∀ p t' rm, insertPath nw true t p = .ok (t', rm) → tourCachesExactB nw t' = true)

end RSSched.C09
