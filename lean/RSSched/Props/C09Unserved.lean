/-
Props/C09Unserved: the cached unserved-passengers pair of the schedule equals its recomputation from
the formations (C09 / C04 / C07), for the model, every history: `update_train_formation` keeps
"cache = Σ over service trips of the shortfall of the trip's formation" (it subtracts the old term
of the node and adds the new one), and the vehicle types the shortfalls are computed with do not
change for vehicles that stay listed (formation membership, Props/C10Fit).
-/
import RSSched.Props.C11Args
namespace RSSched.C09U
open RSSched Schedule Network Tour Spec C15 C02 C13 C10T C10L C09C C10S C10F C10D C10Fit

/-- the shortfall pair summed over all service trips, for a type function and a formation map -/
def sumU (nw : Network) (typeOf : Veh → Option Nat) (forms : List (Nat × List Veh)) : Nat × Nat :=
  (sumNat (nw.allServiceNodes.map (fun n => (unservedOf nw typeOf n (formOf forms n)).1)),
   sumNat (nw.allServiceNodes.map (fun n => (unservedOf nw typeOf n (formOf forms n)).2)))

/-- **the unserved cache is exact** -/
def UExact (nw : Network) (s : Schedule) : Prop := s.unserved = sumU nw s.typeOf? s.formations

theorem allService_nodup (nw : Network) : nw.allServiceNodes.Nodup := by
  unfold Network.allServiceNodes
  apply List.Nodup.sublist List.filter_sublist
  unfold Network.sortedByStartAll
  exact ((List.mergeSort_perm _ _).nodup_iff).mpr (by unfold Network.allIdx; exact List.nodup_range)

theorem mem_allService {nw : Network} {n : Nat} (hs : (nw.node n).isService = true) (hn : n < nw.nodes.size) :
    n ∈ nw.allServiceNodes := by
  unfold Network.allServiceNodes
  rw [List.mem_filter]
  refine ⟨?_, hs⟩
  unfold Network.sortedByStartAll
  exact ((List.mergeSort_perm _ _).mem_iff).mpr (by unfold Network.allIdx; simp [hn])

/-- sum over a duplicate-free list when the summand changes at one point -/
theorem sumNat_update (L : List Nat) (hL : L.Nodup) (g g' : Nat → Nat) (x : Nat) (hx : x ∈ L)
    (hsame : ∀ n, n ≠ x → g' n = g n) : sumNat (L.map g') + g x = sumNat (L.map g) + g' x := by
  induction L with
  | nil => cases hx
  | cons a as ih =>
    simp only [List.map_cons, sumNat, List.foldr_cons]
    have hnd := List.nodup_cons.mp hL
    by_cases e : a = x
    · subst e
      have : as.map g' = as.map g := by
        apply List.map_congr_left
        intro n hn
        exact hsame n (fun e => hnd.1 (e ▸ hn))
      rw [this]
      have : sumNat (as.map g) = List.foldr (· + ·) 0 (as.map g) := rfl
      omega
    · have hxa : x ∈ as := by
        rcases List.mem_cons.mp hx with h | h
        · exact absurd h.symm e
        · exact h
      have := ih hnd.2 hxa
      rw [hsame a e]
      simp only [sumNat] at this
      omega

theorem sumU_congr {nw : Network} {f g : Veh → Option Nat} {forms : List (Nat × List Veh)}
    (h : ∀ n v, v ∈ formOf forms n → f v = g v) : sumU nw f forms = sumU nw g forms := by
  unfold sumU unservedOf
  have : ∀ n, (formOf forms n).filterMap f = (formOf forms n).filterMap g := by
    intro n
    have hh : ∀ v, v ∈ formOf forms n → f v = g v := h n
    generalize formOf forms n = l at hh
    induction l with
    | nil => rfl
    | cons a as ih =>
      simp only [List.filterMap_cons]
      rw [hh a (by simp), ih (fun v hv => hh v (by simp [hv]))]
  simp only [this]

theorem service_inrange {nw : Network} {n : Nat} (h : (nw.node n).isService = true) : n < nw.nodes.size := by
  by_cases hn : n < nw.nodes.size
  · exact hn
  · have : nw.node n = default := by unfold Network.node; simp [Array.getD, hn]
    have hd : (default : Node).isService = false := by decide
    rw [this, hd] at h; cases h

theorem mem_allService_iff {nw : Network} {n : Nat} : n ∈ nw.allServiceNodes ↔ (nw.node n).isService = true := by
  constructor
  · intro h; unfold Network.allServiceNodes at h; exact (List.mem_filter.mp h).2
  · intro h; exact mem_allService h (service_inrange h)

theorem formOf_set (forms : List (Nat × List Veh)) (node : Nat) (f' : List Veh) (n : Nat) :
    formOf (assocSet forms node f') n = if n = node then f' else formOf forms n := by
  unfold formOf; rw [assocGet?_assocSet]
  by_cases e : n = node <;> simp [e]

/-- `update_train_formation` keeps "cache = Σ shortfalls" for a fixed type function -/
theorem utf_sumU (nw : Network) (s : Schedule) (typeOf : Veh → Option Nat) (provider receiver : Option Veh) :
    ∀ (nodes : List Nat) (forms forms' : List (Nat × List Veh)) (u u' : Nat × Nat),
    updateTrainFormation nw s typeOf forms u provider receiver nodes = .ok (forms', u') →
    u = sumU nw typeOf forms → u' = sumU nw typeOf forms'
  | [], forms, forms', u, u', h, hu => by
    simp only [updateTrainFormation, pure, Except.pure, Except.ok.injEq, Prod.mk.injEq] at h
    rw [← h.1, ← h.2]; exact hu
  | node :: rest, forms, forms', u, u', h, hu => by
    unfold updateTrainFormation at h
    split at h
    · exact utf_sumU nw s typeOf provider receiver rest forms forms' u u' h hu
    · dsimp only at h
      split at h
      · rename_i hsvc
        obtain ⟨old, hold, h⟩ := bind_ok h
        obtain ⟨a, ha, h⟩ := bind_ok h
        obtain ⟨c, hc, h⟩ := bind_ok h
        obtain ⟨u1, hu1, h⟩ := bind_ok h
        obtain ⟨f', hf', h⟩ := bind_ok h
        simp only [pure, Except.pure, Except.ok.injEq] at hu1
        subst hu1
        refine utf_sumU nw s typeOf provider receiver rest _ forms' _ u' h ?_
        have hof : formOf forms node = old := by unfold formOf; rw [unwrapO_ok hold]; rfl
        have hmem : node ∈ nw.allServiceNodes := mem_allService_iff.mpr hsvc
        obtain ⟨hle1, ha'⟩ := subNat_ok ha
        obtain ⟨hle2, hc'⟩ := subNat_ok hc
        have key : ∀ (proj : Nat × Nat → Nat),
            sumNat (nw.allServiceNodes.map (fun n => proj (unservedOf nw typeOf n (formOf (assocSet forms node f') n))))
              + proj (unservedOf nw typeOf node old)
            = sumNat (nw.allServiceNodes.map (fun n => proj (unservedOf nw typeOf n (formOf forms n))))
              + proj (unservedOf nw typeOf node f') := by
          intro proj
          have := sumNat_update nw.allServiceNodes (allService_nodup nw)
            (fun n => proj (unservedOf nw typeOf n (formOf forms n)))
            (fun n => proj (unservedOf nw typeOf n (formOf (assocSet forms node f') n))) node hmem
            (fun n hne => by simp only [formOf_set, hne, ↓reduceIte])
          simp only [formOf_set, ↓reduceIte, hof] at this ⊢
          exact this
        have k1 := key Prod.fst
        have k2 := key Prod.snd
        rw [hu] at ha' hc' hle1 hle2
        unfold sumU at ha' hc' hle1 hle2 ⊢
        dsimp only at ha' hc' hle1 hle2 ⊢
        rw [Prod.mk.injEq]
        constructor <;> omega
      · rename_i hsvc
        obtain ⟨u1, hu1, h⟩ := bind_ok h
        obtain ⟨f', hf', h⟩ := bind_ok h
        simp only [pure, Except.pure, Except.ok.injEq] at hu1
        subst hu1
        refine utf_sumU nw s typeOf provider receiver rest _ forms' _ u' h ?_
        rw [hu]
        unfold sumU
        have : ∀ n ∈ nw.allServiceNodes, formOf (assocSet forms node f') n = formOf forms n := by
          intro n hn
          rw [formOf_set]
          have hns : (nw.node n).isService = true := mem_allService_iff.mp hn
          have : n ≠ node := by intro e; rw [e] at hns; exact hsvc hns
          simp [this]
        congr 1
        · congr 1; apply List.map_congr_left; intro n hn; rw [this n hn]
        · congr 1; apply List.map_congr_left; intro n hn; rw [this n hn]

/-! ### who is listed in a formation is a vehicle -/

theorem member_has_tour {nw : Network} {T : Tours} {forms : List (Nat × List Veh)} (hf : FormCount nw T forms)
    {n : Nat} {v : Veh} (hv : v ∈ formOf forms n) : (assocGet? T v).isSome = true := by
  have hc : 0 < (formOf forms n).count v := List.count_pos_iff.mpr hv
  rw [hf n v] at hc
  unfold tourOcc at hc
  cases hg : assocGet? T v with
  | none => rw [hg] at hc; simp at hc
  | some t => rfl

theorem member_typed {nw : Network} {s : Schedule} (hi : ListInv s) (hf : FormCount nw s.tours s.formations)
    {n : Nat} {v : Veh} (hv : v ∈ formOf s.formations n) : (assocGet? s.vehicles v).isSome = true := by
  have := member_has_tour hf hv
  have hs : (assocGet? s.vehicles v).isSome = (assocGet? s.tours v).isSome := hi.same v
  rw [hs]; exact this

/-- the type function `typeIn V' s` agrees with `assocGet? V'` where `V'` is defined -/
theorem typeIn_of_some {s : Schedule} {V' : List (Veh × Nat)} {v : Veh} (h : (assocGet? V' v).isSome = true) :
    typeIn V' s v = assocGet? V' v := by
  unfold typeIn
  cases hg : assocGet? V' v with
  | none => rw [hg] at h; cases h
  | some t => rfl

/-- one-step principle: if the op runs its formation updates with the type function `typeIn V' s`,
    that function agrees with the old types on old members and with the new types on new members,
    and the updates turn (old formations, old cache) into (new formations, new cache) -/
theorem uexact_switch {nw : Network} {s : Schedule} {V' : List (Veh × Nat)} {F : List (Nat × List Veh)}
    {U : Nat × Nat}
    (hu : UExact nw s)
    (hpre : ∀ n v, v ∈ formOf s.formations n → typeIn V' s v = s.typeOf? v)
    (hpost : ∀ n v, v ∈ formOf F n → (assocGet? V' v).isSome = true)
    (hchain : s.unserved = sumU nw (typeIn V' s) s.formations → U = sumU nw (typeIn V' s) F) :
    U = sumU nw (fun v => assocGet? V' v) F := by
  have h1 : s.unserved = sumU nw (typeIn V' s) s.formations := by
    rw [hu]; exact (sumU_congr hpre).symm
  rw [hchain h1]
  exact sumU_congr (fun n v hv => typeIn_of_some (hpost n v hv))

theorem typeIn_same (s : Schedule) (v : Veh) : typeIn s.vehicles s v = s.typeOf? v := by
  unfold typeIn Schedule.typeOf?
  cases assocGet? s.vehicles v <;> rfl

theorem typeIn_erase (s : Schedule) (k v : Veh) : typeIn (assocErase s.vehicles k) s v = s.typeOf? v := by
  unfold typeIn Schedule.typeOf?
  rw [assocGet?_assocErase]
  by_cases e : v = k
  · simp [e]
  · simp only [e, ↓reduceIte]; cases assocGet? s.vehicles v <;> rfl

theorem typeIn_set_other (s : Schedule) (k : Veh) (vt : Nat) (v : Veh) (hne : v ≠ k) :
    typeIn (assocSet s.vehicles k vt) s v = s.typeOf? v := by
  unfold typeIn Schedule.typeOf?
  rw [assocGet?_assocSet]
  simp only [hne, ↓reduceIte]; cases assocGet? s.vehicles v <;> rfl

/-! ### the public modifications -/

theorem uexact_leaf1 {nw : Network} {s s' : Schedule} {V' : List (Veh × Nat)} {prov recv : Option Veh}
    {nodes : List Nat} {F : List (Nat × List Veh)} {U : Nat × Nat}
    (hu : UExact nw s) (hi : ListInv s) (hf : FormCount nw s.tours s.formations)
    (hi' : ListInv s') (hf' : FormCount nw s'.tours s'.formations)
    (hV : s'.vehicles = V') (hF : s'.formations = F) (hU : s'.unserved = U)
    (hpre : ∀ v, (assocGet? s.vehicles v).isSome = true → typeIn V' s v = s.typeOf? v)
    (hutf : updateTrainFormation nw s (typeIn V' s) s.formations s.unserved prov recv nodes = .ok (F, U)) :
    UExact nw s' := by
  unfold UExact
  rw [hU]
  have := uexact_switch (V' := V') (F := F) (U := U) hu
    (fun n v hv => hpre v (member_typed hi hf hv))
    (fun n v hv => by rw [← hV]; exact member_typed hi' hf' (by rw [hF]; exact hv))
    (fun h1 => utf_sumU nw s _ prov recv nodes _ _ _ _ hutf h1)
  rw [this, hF]
  unfold sumU unservedOf Schedule.typeOf?
  rw [hV]

theorem uexact_leaf2 {nw : Network} {s s' : Schedule} {V' : List (Veh × Nat)} {prov1 recv1 prov2 recv2 : Option Veh}
    {nodes1 nodes2 : List Nat} {F1 F : List (Nat × List Veh)} {U1 U : Nat × Nat}
    (hu : UExact nw s) (hi : ListInv s) (hf : FormCount nw s.tours s.formations)
    (hi' : ListInv s') (hf' : FormCount nw s'.tours s'.formations)
    (hV : s'.vehicles = V') (hF : s'.formations = F) (hU : s'.unserved = U)
    (hpre : ∀ v, (assocGet? s.vehicles v).isSome = true → typeIn V' s v = s.typeOf? v)
    (hutf1 : updateTrainFormation nw s (typeIn V' s) s.formations s.unserved prov1 recv1 nodes1 = .ok (F1, U1))
    (hutf2 : updateTrainFormation nw s (typeIn V' s) F1 U1 prov2 recv2 nodes2 = .ok (F, U)) :
    UExact nw s' := by
  unfold UExact
  rw [hU]
  have := uexact_switch (V' := V') (F := F) (U := U) hu
    (fun n v hv => hpre v (member_typed hi hf hv))
    (fun n v hv => by rw [← hV]; exact member_typed hi' hf' (by rw [hF]; exact hv))
    (fun h1 => utf_sumU nw s _ prov2 recv2 nodes2 _ _ _ _ hutf2 (utf_sumU nw s _ prov1 recv1 nodes1 _ _ _ _ hutf1 h1))
  rw [this, hF]
  unfold sumU unservedOf Schedule.typeOf?
  rw [hV]

theorem fresh_not_vehicle {s : Schedule} (hi : ListInv s) : (assocGet? s.vehicles (Veh.real s.counter)).isSome = false := by
  have hs : (assocGet? s.vehicles (Veh.real s.counter)).isSome = (assocGet? s.tours (Veh.real s.counter)).isSome :=
    hi.same _
  rw [hs, fresh_no_tour hi]; rfl

theorem spawn_uexact {nw : Network} {s s' : Schedule} {vt : Nat} {path : List Nat} {v : Veh}
    (hu : UExact nw s) (hi : ListInv s) (hf : FormCount nw s.tours s.formations)
    (hi' : ListInv s') (hf' : FormCount nw s'.tours s'.formations)
    (h : spawnVehicleForPath nw s vt path = .ok (s', v)) : UExact nw s' := by
  unfold spawnVehicleForPath at h
  inv_do h
  all_goals (try contradiction)
  all_goals (try (cases h))
  all_goals (try (simp only [pure, Except.pure, Except.ok.injEq] at *))
  all_goals (try subst_vars)
  all_goals (
    refine uexact_leaf1 (V' := assocSet s.vehicles (Veh.real s.counter) vt) hu hi hf hi' hf' rfl rfl rfl ?_ (by assumption)
    intro w hw
    apply typeIn_set_other
    intro e; rw [e, fresh_not_vehicle hi] at hw; cases hw)

theorem delete_uexact {nw : Network} {s s' : Schedule} {v : Veh}
    (hu : UExact nw s) (hi : ListInv s) (hf : FormCount nw s.tours s.formations)
    (hi' : ListInv s') (hf' : FormCount nw s'.tours s'.formations)
    (h : replaceVehicleByDummy nw s v = .ok s') : UExact nw s' := by
  unfold replaceVehicleByDummy at h
  inv_do h
  all_goals (try contradiction)
  all_goals (try (cases h))
  all_goals (try (simp only [pure, Except.pure, Except.ok.injEq] at *))
  all_goals (try subst_vars)
  all_goals (
    exact uexact_leaf1 (V' := assocErase s.vehicles v) hu hi hf hi' hf' rfl rfl rfl
      (fun w _ => typeIn_erase s v w) (by assumption))

theorem addPath_uexact {nw : Network} {s s' : Schedule} {v : Veh} {path : List Nat} {rm : Option (List Nat)}
    (hu : UExact nw s) (hi : ListInv s) (hf : FormCount nw s.tours s.formations)
    (hi' : ListInv s') (hf' : FormCount nw s'.tours s'.formations)
    (h : addPathToVehicleTour nw s v path = .ok (s', rm)) : UExact nw s' := by
  unfold addPathToVehicleTour at h
  inv_do h
  all_goals (try contradiction)
  all_goals (try (cases h))
  all_goals (try (simp only [pure, Except.pure, Except.ok.injEq] at *))
  all_goals (try subst_vars)
  all_goals (first
    | exact uexact_leaf2 (V' := s.vehicles) hu hi hf hi' hf' rfl rfl rfl (fun w _ => typeIn_same s w)
        (by assumption) (by assumption)
    | exact uexact_leaf1 (V' := s.vehicles) hu hi hf hi' hf' rfl rfl rfl (fun w _ => typeIn_same s w)
        (by assumption))

theorem rmSeg_uexact {nw : Network} {s s' : Schedule} {v : Veh} {a b : Nat}
    (hu : UExact nw s) (hi : ListInv s) (hf : FormCount nw s.tours s.formations)
    (hi' : ListInv s') (hf' : FormCount nw s'.tours s'.formations)
    (h : removeSegment nw s v a b = .ok s') : UExact nw s' := by
  unfold removeSegment at h
  inv_do h
  all_goals (try contradiction)
  all_goals (try (cases h))
  all_goals (first
    | exact delete_uexact hu hi hf hi' hf' (by assumption)
    | (simp only [pure, Except.pure, Except.ok.injEq] at *
       subst_vars
       exact uexact_leaf1 (V' := s.vehicles) hu hi hf hi' hf' rfl rfl rfl (fun w _ => typeIn_same s w)
         (by assumption)))

/-- `update_tours`: one formation update from the schedule's formations and cache, with the type
    function of the vehicle map it leaves behind (the old one, or the old one without the provider) -/
theorem updateTours_utf {nw : Network} {s : Schedule} {w' : Work} {p r : Veh} {newProv : Option Tour}
    {newRecv : Tour} {moved : List Nat}
    (h : updateTours nw s (Work.ofSchedule s) (some p) newProv r newRecv moved = .ok w') :
    (w'.vehicles = s.vehicles ∨ w'.vehicles = assocErase s.vehicles p) ∧
    updateTrainFormation nw s (typeIn w'.vehicles s) s.formations s.unserved (some p)
      (if s.isVehicle r then some r else none) moved = .ok (w'.forms, w'.unserved) := by
  unfold updateTours at h
  dsimp only at h
  inv_do h
  all_goals (try contradiction)
  all_goals (try (cases h))
  all_goals (try (simp only [pure, Except.pure, Except.ok.injEq] at *))
  all_goals (try subst_vars)
  all_goals (
    refine ⟨?_, by assumption⟩
    first
    | exact Or.inl rfl
    | exact Or.inr rfl)

theorem typeIn_pre_of_or {s : Schedule} {V' : List (Veh × Nat)} {p : Veh}
    (h : V' = s.vehicles ∨ V' = assocErase s.vehicles p) (v : Veh) : typeIn V' s v = s.typeOf? v := by
  rcases h with e | e
  · rw [e]; exact typeIn_same s v
  · rw [e]; exact typeIn_erase s p v

theorem fit_uexact {nw : Network} {s s' : Schedule} {p r : Veh} {a b : Nat}
    (hu : UExact nw s) (hi : ListInv s) (hf : FormCount nw s.tours s.formations)
    (hi' : ListInv s') (hf' : FormCount nw s'.tours s'.formations)
    (h : fitReassign nw s p r a b = .ok s') : UExact nw s' := by
  unfold fitReassign at h
  inv_do h
  all_goals (try contradiction)
  all_goals (try (cases h))
  all_goals (try (simp only [pure, Except.pure, Except.ok.injEq] at *))
  all_goals (try subst_vars)
  all_goals (
    obtain ⟨hor, hutf⟩ := updateTours_utf (p := p) (r := r) (by assumption)
    exact uexact_leaf1 hu hi hf hi' hf' rfl rfl rfl (fun w _ => typeIn_pre_of_or hor w) hutf)

theorem override_uexact {nw : Network} {s s' : Schedule} {p r : Veh} {a b : Nat} {d : Option Veh}
    (hu : UExact nw s) (hi : ListInv s) (hf : FormCount nw s.tours s.formations)
    (hi' : ListInv s') (hf' : FormCount nw s'.tours s'.formations)
    (h : overrideReassign nw s p r a b = .ok (s', d)) : UExact nw s' := by
  unfold overrideReassign at h
  inv_do h
  all_goals (try contradiction)
  all_goals (try (cases h))
  all_goals (try (simp only [pure, Except.pure, Except.ok.injEq] at *))
  all_goals (try subst_vars)
  all_goals (
    obtain ⟨hor, hutf⟩ := updateTours_utf (p := p) (r := r) (by assumption)
    first
    | exact uexact_leaf2 hu hi hf hi' hf' rfl rfl rfl (fun w _ => typeIn_pre_of_or hor w) hutf (by assumption)
    | exact uexact_leaf1 hu hi hf hi' hf' rfl rfl rfl (fun w _ => typeIn_pre_of_or hor w) hutf)

/-! ### modifications that leave formations, cache and vehicle types alone -/

theorem uexact_same {nw : Network} {s s' : Schedule} (hu : UExact nw s) (h1 : s'.unserved = s.unserved)
    (h2 : s'.formations = s.formations) (h3 : s'.vehicles = s.vehicles) : UExact nw s' := by
  unfold UExact Schedule.typeOf? at *
  rw [h1, h2, h3]; exact hu

syntax "same3 " ident : tactic
macro_rules
  | `(tactic| same3 $h:ident) => `(tactic|
    (inv_do $h
     all_goals (try contradiction)
     all_goals (try (cases $h:ident))
     all_goals exact ⟨rfl, rfl, rfl⟩))

theorem improve_same {nw : Network} {s s' : Schedule} {vs : Option (List Veh)}
    (h : improveDepots nw s vs = .ok s') :
    s'.unserved = s.unserved ∧ s'.formations = s.formations ∧ s'.vehicles = s.vehicles := by
  unfold improveDepots at h
  dsimp only at h
  obtain ⟨_, _, h⟩ := bind_ok h
  obtain ⟨_, _, h⟩ := bind_ok h
  same3 h

theorem endGreedy_same {nw : Network} {s s' : Schedule} (h : reassignEndDepotsGreedily nw s = .ok s') :
    s'.unserved = s.unserved ∧ s'.formations = s.formations ∧ s'.vehicles = s.vehicles := by
  unfold reassignEndDepotsGreedily at h
  obtain ⟨_, _, h⟩ := bind_ok h
  same3 h

theorem recompute_same {nw : Network} {s s' : Schedule} {vts : Option (List Nat)}
    (h : recomputeTransitionsFor nw s vts = .ok s') :
    s'.unserved = s.unserved ∧ s'.formations = s.formations ∧ s'.vehicles = s.vehicles := by
  unfold recomputeTransitionsFor at h
  same3 h

theorem deleteDummy_same {s s1 : Schedule} {d : Veh} (h : deleteDummy s d = .ok s1) :
    s1.unserved = s.unserved ∧ s1.formations = s.formations ∧ s1.vehicles = s.vehicles := by
  unfold deleteDummy at h
  same3 h

theorem dummySpawn_uexact {nw : Network} {s s' : Schedule} {d : Veh} {vt : Nat} {v : Veh}
    (hu : UExact nw s) (hi : ListInv s) (hf : FormCount nw s.tours s.formations)
    (hi' : ListInv s') (hf' : FormCount nw s'.tours s'.formations)
    (h : spawnToReplaceDummy nw s d vt = .ok (s', v)) : UExact nw s' := by
  unfold spawnToReplaceDummy at h
  inv_do h
  all_goals (try contradiction)
  all_goals (try (cases h))
  all_goals (
    rename_i s1 hdel
    obtain ⟨e1, e2, e3⟩ := deleteDummy_same hdel
    have hcore := deleteDummy_core hdel
    have htours : s1.tours = s.tours := congrArg Core.tours hcore
    exact spawn_uexact (uexact_same hu e1 e2 e3) (deleteDummy_listInv hi hdel)
      (by rw [htours, e2]; exact hf) hi' hf' h)

/-! ### every public modification, every history -/

/-- **C09 (unserved cache), one step** -/
theorem C09_unserved_step (nw : Network) (hn : NetHyp nw) (s : Schedule) (op : SOp) (r : OpResult)
    (hinv : C10Fit.Inv nw s) (hu : UExact nw s) (hargs : ArgsOKF op) (h : applyOp nw s op = .ok r) :
    UExact nw r.sched := by
  have hinv' := C10_forms_step nw hn s op r hinv hargs h
  have hi := hinv.tinv.listing
  have hf := hinv.forms
  have hi' := hinv'.tinv.listing
  have hf' := hinv'.forms
  unfold applyOp at h
  cases op with
  | init =>
    simp only [pure, Except.pure, Except.ok.injEq] at h
    rw [← h]
    unfold UExact sumU unservedOf Schedule.empty
    have hform : ∀ n, formOf ((nw.coverableNodes.map (fun n => (n, ([] : List Veh))))) n = [] := by
      intro n
      unfold formOf
      cases hg : assocGet? (nw.coverableNodes.map (fun n => (n, ([] : List Veh)))) n with
      | none => rfl
      | some f =>
        have hm := assocGet?_mem hg
        simp only [List.mem_map, Prod.mk.injEq] at hm
        obtain ⟨_, _, _, rfl⟩ := hm; rfl
    simp only [hform, List.filterMap_nil, List.map_map]
    rfl
  | spawn vt path =>
    obtain ⟨⟨s', v⟩, hs, h⟩ := bind_ok h
    simp only [pure, Except.pure, Except.ok.injEq] at h
    subst h; exact spawn_uexact hu hi hf hi' hf' hs
  | dummySpawn d vt =>
    obtain ⟨⟨s', v⟩, hs, h⟩ := bind_ok h
    simp only [pure, Except.pure, Except.ok.injEq] at h
    subst h; exact dummySpawn_uexact hu hi hf hi' hf' hs
  | delete v =>
    obtain ⟨s', hs, h⟩ := bind_ok h
    simp only [pure, Except.pure, Except.ok.injEq] at h
    subst h; exact delete_uexact hu hi hf hi' hf' hs
  | addPath v path =>
    dsimp only at h
    split at h
    · obtain ⟨⟨s', rm⟩, hs, h⟩ := bind_ok h
      simp only [pure, Except.pure, Except.ok.injEq] at h
      subst h; exact addPath_uexact hu hi hf hi' hf' hs
    · cases h
  | rmSeg v a b =>
    obtain ⟨s', hs, h⟩ := bind_ok h
    simp only [pure, Except.pure, Except.ok.injEq] at h
    subst h; exact rmSeg_uexact hu hi hf hi' hf' hs
  | fit p q a b =>
    obtain ⟨s', hs, h⟩ := bind_ok h
    simp only [pure, Except.pure, Except.ok.injEq] at h
    subst h; exact fit_uexact hu hi hf hi' hf' hs
  | override p q a b =>
    obtain ⟨⟨s', d⟩, hs, h⟩ := bind_ok h
    simp only [pure, Except.pure, Except.ok.injEq] at h
    subst h; exact override_uexact hu hi hf hi' hf' hs
  | improve vs =>
    obtain ⟨s', hs, h⟩ := bind_ok h
    simp only [pure, Except.pure, Except.ok.injEq] at h
    subst h
    obtain ⟨e1, e2, e3⟩ := improve_same hs
    exact uexact_same hu e1 e2 e3
  | endGreedy =>
    obtain ⟨s', hs, h⟩ := bind_ok h
    simp only [pure, Except.pure, Except.ok.injEq] at h
    subst h
    obtain ⟨e1, e2, e3⟩ := endGreedy_same hs
    exact uexact_same hu e1 e2 e3
  | recompute vts =>
    obtain ⟨s', hs, h⟩ := bind_ok h
    simp only [pure, Except.pure, Except.ok.injEq] at h
    subst h
    obtain ⟨e1, e2, e3⟩ := recompute_same hs
    exact uexact_same hu e1 e2 e3
  | endConsistent =>
    obtain ⟨s', hs, h⟩ := bind_ok h
    simp only [pure, Except.pure, Except.ok.injEq] at h
    subst h
    have hc := C05.C05_reassign nw s s' hs
    exact uexact_same hu hc.2.2.2.2.2.2.2.1 hc.2.2.2.1 hc.2.2.1
  | setTrans vt v ci =>
    obtain ⟨tr, _, h⟩ := bind_ok h
    obtain ⟨moved, _, h⟩ := bind_ok h
    simp only [pure, Except.pure, Except.ok.injEq] at h
    subst h; exact hu

/-- the bundle: formation membership etc. (Props/C11Args) and the exact unserved cache -/
structure InvFU (nw : Network) (s : Schedule) : Prop where
  invF : C11A.InvF nw s
  uexact : UExact nw s

theorem stepInv_invFU {nw : Network} (hn : NetHyp nw) : C11A.StepInv nw (InvFU nw) where
  step := fun s op r hinv hargs h =>
    ⟨C11A.invF_step nw hn s op r hinv.invF hargs h, C09_unserved_step nw hn s op r hinv.invF.inv hinv.uexact hargs h⟩
  fresh := fun _ _ _ hinv hpt => C11A.tour_ne_fresh hinv.invF hpt
  setT := fun s trans hnd h => ⟨(C11A.stepInv_invF hn).setT s trans hnd h.invF, h.uexact⟩
  empty := by
    refine ⟨(C11A.stepInv_invF hn).empty, ?_⟩
    have h0 : applyOp nw (Schedule.empty nw) .init = .ok { sched := Schedule.empty nw } := rfl
    -- the `init` case of the step theorem does not use its hypotheses on the source schedule
    unfold UExact sumU unservedOf Schedule.empty
    have hform : ∀ n, formOf ((nw.coverableNodes.map (fun n => (n, ([] : List Veh))))) n = [] := by
      intro n
      unfold formOf
      cases hg : assocGet? (nw.coverableNodes.map (fun n => (n, ([] : List Veh)))) n with
      | none => rfl
      | some f =>
        have hm := assocGet?_mem hg
        simp only [List.mem_map, Prod.mk.injEq] at hm
        obtain ⟨_, _, _, rfl⟩ := hm; rfl
    simp only [hform, List.filterMap_nil, List.map_map]
    rfl

theorem C09_unserved_reachable (nw : Network) (hn : NetHyp nw) : ∀ (ops : List SOp) (s s' : Schedule),
    InvFU nw s → (∀ op ∈ ops, ArgsOKF op) → runOps nw s ops = some s' → InvFU nw s'
  | [], s, s', hinv, _, h => by simp only [runOps, Option.some.injEq] at h; rw [← h]; exact hinv
  | op :: rest, s, s', hinv, hargs, h => by
    unfold runOps at h
    split at h
    · rename_i r hr
      exact C09_unserved_reachable nw hn rest r.sched s'
        ((stepInv_invFU hn).step s op r hinv (hargs op (by simp)) hr) (fun o ho => hargs o (by simp [ho])) h
    · cases h

/-- **C09 / C04 / C07 (unserved cache), every history**: in every schedule the model reaches from the
    empty schedule by public modifications (provider ≠ receiver in reassignments) the cached
    unserved-passengers pair equals the sum, over all service trips, of the passenger and seat
    shortfall of the vehicles listed in the trip's formation -/
theorem C09_unserved_from_empty (nw : Network) (hn : NetHyp nw) (ops : List SOp) (s' : Schedule)
    (hargs : ∀ op ∈ ops, ArgsOKF op) (h : runOps nw (Schedule.empty nw) ops = some s') :
    s'.unserved = sumU nw s'.typeOf? s'.formations :=
  (C09_unserved_reachable nw hn ops _ s' (stepInv_invFU hn).empty hargs h).uexact

/-- … and the same for every candidate of every neighbourhood, the search result and every stage
    of the modelled pipeline -/
theorem C09_unserved_pipeline (nw : Network) (hn : NetHyp nw) (o : Solve.Oracle)
    (hopt : ∀ s, ((o.optimise s).map (·.1)).Nodup) (tr : Solve.Trace) (h : Solve.solve nw o = .ok tr) :
    UExact nw tr.start ∧ UExact nw tr.afterSearch ∧ UExact nw tr.final := by
  obtain ⟨i2, i3, i5⟩ := C11A.solve_inv (stepInv_invFU hn) o hopt tr h
  exact ⟨i2.uexact, i3.uexact, i5.uexact⟩

theorem C09_unserved_candidates (nw : Network) (hn : NetHyp nw) {limit threshold : Option Nat} {s : Schedule}
    {last : SwapInfo} {cands : List Swaps.Candidate} (hinv : InvFU nw s)
    (h : Swaps.neighborsOf nw limit threshold s last = .ok cands) : ∀ c ∈ cands, UExact nw c.sched :=
  fun c hc => (C11A.neighbors_invF (stepInv_invFU hn).toStepInv0 hinv h c hc).uexact

end RSSched.C09U
