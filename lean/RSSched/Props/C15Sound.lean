/-
Props/C15Sound: the executable monitor `transitionDiffs` (what the driver evaluates on the real
transitions) is sound for the declarative invariant `Consistent` of Props/C15Ops: a silent monitor
on a dumped state means the state satisfies the hypothesis (and conclusion) of the per-operation
theorems.
-/
import RSSched.Props.C15Ops
import RSSched.Props.C10
namespace RSSched.C15
open RSSched Spec Cyclic

/-! ### `mapM` in `Option` -/
theorem mapM_opt_cons {α β} (f : α → Option β) (a : α) (l : List α) (r : List β) :
    (a :: l).mapM f = some r ↔ ∃ b r', f a = some b ∧ l.mapM f = some r' ∧ r = b :: r' := by
  rw [List.mapM_cons]
  cases hfa : f a with
  | none => simp
  | some b =>
    cases hl : l.mapM f with
    | none => simp
    | some r' => simp [eq_comm]

theorem mapM_opt_some {α β} [Inhabited β] (f : α → Option β) (l : List α) (r : List β)
    (h : l.mapM f = some r) :
    (∀ x ∈ l, f x = some ((f x).getD default)) ∧ r = l.map (fun x => (f x).getD default) := by
  induction l generalizing r with
  | nil => simp at h; simp [h]
  | cons a as ih =>
    obtain ⟨b, r', h1, h2, h3⟩ := (mapM_opt_cons f a as r).mp h
    obtain ⟨ih1, ih2⟩ := ih r' h2
    subst h3
    constructor
    · intro x hx
      cases hx with
      | head => simp [h1]
      | tail _ hm => exact ih1 x hm
    · simp [h1, ih2]

/-! ### cyclic pairs and cyclic sums -/
theorem pairs_map {α β} (f : α → β) : ∀ l : List α, pairs (l.map f) = (pairs l).map (fun p => (f p.1, f p.2))
  | [] => rfl
  | [_] => rfl
  | a :: b :: r => by
    simp only [List.map_cons, pairs, List.cons.injEq, true_and]
    have := pairs_map f (b :: r)
    simpa using this

theorem sum_pairs {α} (g : α → α → Int) : ∀ l : List α, sumInt ((pairs l).map (fun p => g p.1 p.2)) = pairSumI g l
  | [] => rfl
  | [_] => rfl
  | a :: b :: r => by
    simp only [pairs, List.map_cons, sumInt, List.foldr_cons, pairSumI_cons_cons]
    have := sum_pairs g (b :: r)
    simp only [sumInt] at this
    rw [this]

theorem sum_cyclicPairs {α} (g : α → α → Int) (l : List α) :
    sumInt ((cyclicPairs l).map (fun p => g p.1 p.2)) = cyc g l := by
  cases l with
  | nil => rfl
  | cons x xs =>
    unfold cyclicPairs cyc
    rw [List.map_append]
    have h1 := sum_pairs g (x :: xs)
    simp only [sumInt] at h1 ⊢
    rw [sumInt_append, h1]
    simp only [List.map_cons, List.map_nil, List.foldr_cons, List.foldr_nil, List.head?_cons]
    cases hl : (x :: xs).getLast? with
    | none => simp at hl
    | some y => simp [connI]

theorem cyclicPairs_map {α β} (f : α → β) (l : List α) :
    cyclicPairs (l.map f) = (cyclicPairs l).map (fun p => (f p.1, f p.2)) := by
  cases l with
  | nil => rfl
  | cons x xs =>
    simp only [List.map_cons, cyclicPairs]
    have := pairs_map f (x :: xs)
    simp only [List.map_cons] at this
    rw [this, List.map_append]
    congr 1
    simp only [List.map_cons, List.map_nil, List.cons.injEq, Prod.mk.injEq, and_true]
    have : (f x :: xs.map f).getLast? = ((x :: xs).getLast?).map f := by
      rw [← List.map_cons, List.getLast?_map]
    rw [this]
    cases (x :: xs).getLast? <;> simp

theorem mem_pairs_of_split {α} (pre suf : List α) (a b : α) : (a, b) ∈ pairs (pre ++ a :: b :: suf) := by
  induction pre with
  | nil => simp [pairs]
  | cons p ps ih =>
    cases ps with
    | nil => simp only [List.cons_append, List.nil_append, pairs, List.mem_cons]; right; simp [pairs] 
    | cons q qs =>
      simp only [List.cons_append, pairs, List.mem_cons]
      right; simpa using ih

/-- every member of a list is the first component of some cyclic pair and the second of another -/
theorem mem_cyclicPairs {α} (l : List α) (x : α) (hx : x ∈ l) :
    (∃ y, (x, y) ∈ cyclicPairs l) ∧ (∃ z, (z, x) ∈ cyclicPairs l) := by
  obtain ⟨pre, suf, rfl⟩ := List.append_of_mem hx
  cases pre with
  | nil =>
    simp only [List.nil_append, cyclicPairs]
    constructor
    · cases suf with
      | nil => exact ⟨x, by simp [pairs]⟩
      | cons b bs => exact ⟨b, List.mem_append_left _ (by simp [pairs])⟩
    · exact ⟨(x :: suf).getLast?.getD x, List.mem_append_right _ (by simp)⟩
  | cons p ps =>
    simp only [List.cons_append, cyclicPairs]
    constructor
    · cases suf with
      | nil =>
        refine ⟨p, List.mem_append_right _ ?_⟩
        have : (p :: (ps ++ [x])).getLast? = some x := by
          rw [← List.cons_append, List.getLast?_append]; simp
        simp [this]
      | cons b bs =>
        refine ⟨b, List.mem_append_left _ ?_⟩
        have := mem_pairs_of_split (p :: ps) bs x b
        simpa using this
    · rcases List.eq_nil_or_concat (p :: ps) with hp | ⟨pre', z, hp⟩
      · cases hp
      · refine ⟨z, List.mem_append_left _ ?_⟩
        have := mem_pairs_of_split pre' suf z x
        rw [← List.cons_append, hp]
        simpa using this

theorem cyc_congr {α} (g g' : α → α → Int) (l : List α) (h : ∀ a b, a ∈ l → b ∈ l → g a b = g' a b) :
    cyc g l = cyc g' l := by
  unfold cyc
  rw [pairSumI_congr _ _ l h]
  congr 1
  cases hl : l.getLast? with
  | none => simp [connI]
  | some x =>
    cases hh : l.head? with
    | none => simp [connI]
    | some y => simp only [connI]; exact h x y (List.mem_of_getLast? hl) (List.mem_of_head? hh)

theorem overlay_nil (tours : Tours) (v : Veh) : overlay [] tours v = assocGet? tours v := by
  simp [overlay, assocGet?_nil]

/-- the link term of the monitor -/
def linkRef (nw : Network) : Tour × Tour → Option Int
  | (a, b) =>
    match a.endDepot nw, b.startDepot nw with
    | .ok e, .ok s => some (Transition.depotDist nw e s)
    | _, _ => none

theorem cycleCounterRef_eq (nw : Network) (tours : Tours) (vs : List Veh) :
    cycleCounterRef nw tours vs = (vs.mapM (fun v => assocGet? tours v)).bind (fun ts =>
      ((cyclicPairs ts).mapM (linkRef nw)).bind (fun links =>
        some (sumInt (ts.map (fun t => t.maintenanceCounter nw)) + sumInt links))) := rfl

theorem linkRef_some {nw : Network} {a b : Tour} {y : Int} (h : linkRef nw (a, b) = some y) :
    ∃ e s, a.endDepot nw = .ok e ∧ b.startDepot nw = .ok s ∧ y = Transition.depotDist nw e s := by
  unfold linkRef at h
  cases he : a.endDepot nw with
  | error x => simp [he] at h
  | ok e =>
    cases hs : b.startDepot nw with
    | error x => simp [he, hs] at h
    | ok s => simp only [he, hs, Option.some.injEq] at h; exact ⟨e, s, rfl, rfl, h.symm⟩

/-- the monitor's recomputed counter, when defined, is the declarative `counterSpec`, and it is
    defined only if every vehicle of the cycle has a tour with both depots -/
theorem cycleCounterRef_some (nw : Network) (tours : Tours) (vs : List Veh) (x : Int)
    (h : cycleCounterRef nw tours vs = some x) :
    (∀ v ∈ vs, Toured nw (overlay [] tours) v) ∧ x = counterSpec nw (overlay [] tours) vs := by
  rw [cycleCounterRef_eq] at h
  cases hts : vs.mapM (fun v => assocGet? tours v) with
  | none => simp [hts] at h
  | some ts =>
    have hlk : ∃ links, (cyclicPairs ts).mapM (linkRef nw) = some links ∧
        x = sumInt (ts.map (fun t => t.maintenanceCounter nw)) + sumInt links := by
      simp only [hts, Option.bind_some] at h
      cases hl : (cyclicPairs ts).mapM (linkRef nw) with
      | none => simp [hl] at h
      | some links =>
        simp only [hl, Option.bind_some, Option.some.injEq] at h
        exact ⟨links, rfl, h.symm⟩
    obtain ⟨links, hl, hx⟩ := hlk
    obtain ⟨hget, hts'⟩ := mapM_opt_some _ vs ts hts
    obtain ⟨hlget, hlinks⟩ := mapM_opt_some _ (cyclicPairs ts) links hl
    let gv : Veh → Tour := fun v => (assocGet? tours v).getD default
    have hT : ∀ v ∈ vs, overlay [] tours v = some (gv v) := fun v hv => by rw [overlay_nil]; exact hget v hv
    have htoured : ∀ v ∈ vs, Toured nw (overlay [] tours) v := by
      intro v hv
      have hmem : gv v ∈ ts := by rw [hts']; exact List.mem_map.mpr ⟨v, hv, rfl⟩
      obtain ⟨⟨y, hy⟩, ⟨z, hz⟩⟩ := mem_cyclicPairs ts (gv v) hmem
      obtain ⟨e, _, he, _, _⟩ := linkRef_some (hlget _ hy)
      obtain ⟨_, s, _, hs, _⟩ := linkRef_some (hlget _ hz)
      exact ⟨gv v, s, e, hT v hv, hs, he⟩
    refine ⟨htoured, ?_⟩
    rw [hx, hlinks, hts']
    unfold counterSpec
    congr 1
    · rw [List.map_map]
      congr 1
      apply List.map_congr_left
      intro v hv
      simp only [Function.comp]; rw [mcOf_eq (hT v hv)]
    · rw [cyclicPairs_map, List.map_map]
      refine Eq.trans (sum_cyclicPairs (fun a b => (linkRef nw (gv a, gv b)).getD default) vs) ?_
      apply cyc_congr
      intro a b ha hb
      obtain ⟨ta, sa, ea, h1, h2, h3⟩ := htoured a ha
      obtain ⟨tb, sb, eb, h4, h5, h6⟩ := htoured b hb
      rw [hT a ha] at h1; cases h1
      rw [hT b hb] at h4; cases h4
      rw [linkOf_eq (hT a ha) (hT b hb) h3 h5]
      simp [linkRef, h3, h5]

/-! ### soundness of the monitor -/
theorem nodupB_sound {α} [BEq α] [LawfulBEq α] : ∀ l : List α, nodupB l = true → l.Nodup
  | [], _ => List.nodup_nil
  | x :: xs, h => by
    simp only [nodupB, Bool.and_eq_true, Bool.not_eq_eq_eq_not, Bool.not_true] at h
    refine List.nodup_cons.mpr ⟨?_, nodupB_sound xs h.2⟩
    intro hm
    have := List.contains_iff_mem.mpr hm
    rw [h.1] at this; cases this

theorem sameVehSet_sound (a b : List Veh) (h : sameVehSet a b = true) : ∀ v, v ∈ a ↔ v ∈ b := by
  unfold sameVehSet at h
  simp only [Bool.and_eq_true, List.all_eq_true, List.contains_iff_mem] at h
  exact fun v => ⟨h.1 v, h.2 v⟩

/-- the expected lookup list of the monitor -/
def expLookupList (cycles : List Cycle) : List (Veh × Nat) :=
  (List.range cycles.length).flatMap (fun i => (cycles.getD i default).vehicles.map (fun v => (v, i)))

theorem mem_expLookupList (cycles : List Cycle) (v : Veh) (i : Nat) :
    (v, i) ∈ expLookupList cycles ↔ ∃ c : Cycle, cycles[i]? = some c ∧ v ∈ c.vehicles := by
  unfold expLookupList
  simp only [List.mem_flatMap, List.mem_range, List.mem_map, Prod.mk.injEq]
  constructor
  · rintro ⟨j, hj, w, hw, rfl, rfl⟩
    refine ⟨cycles[j], by simp [hj], ?_⟩
    simpa [List.getD_eq_getElem?_getD, hj] using hw
  · rintro ⟨c, hc, hv⟩
    obtain ⟨hlt, hget⟩ := List.getElem?_eq_some_iff.mp hc
    refine ⟨i, hlt, v, ?_, rfl, rfl⟩
    simpa [List.getD_eq_getElem?_getD, hlt, hget] using hv

theorem flatMap_congr' {α β} {f g : α → List β} : ∀ {l : List α}, (∀ x ∈ l, f x = g x) → l.flatMap f = l.flatMap g
  | [], _ => rfl
  | a :: as, h => by
    rw [List.flatMap_cons, List.flatMap_cons, h a (by simp), flatMap_congr' (fun x hx => h x (by simp [hx]))]

theorem range_flatMap_getD {α β} (d : α) (f : α → List β) : ∀ l : List α,
    (List.range l.length).flatMap (fun i => f (l.getD i d)) = l.flatMap f
  | [] => rfl
  | a :: as => by
    rw [List.length_cons, List.range_succ_eq_map, List.flatMap_cons, List.flatMap_cons]
    congr 1
    rw [List.flatMap_map]
    have := range_flatMap_getD d f as
    simpa using this

theorem expLookupList_keys (cycles : List Cycle) :
    (expLookupList cycles).map (·.1) = cycles.flatMap (·.vehicles) := by
  unfold expLookupList
  rw [List.map_flatMap]
  have : ∀ i ∈ List.range cycles.length,
      ((cycles.getD i default).vehicles.map (fun v => (v, i))).map (·.1) = (cycles.getD i default).vehicles := by
    intro i _; rw [List.map_map]
    have : ((fun x : Veh × Nat => x.fst) ∘ fun v => (v, i)) = id := rfl
    rw [this, List.map_id]
  rw [flatMap_congr' this]
  exact range_flatMap_getD default (·.vehicles) cycles

/-- a silent monitor means the declarative invariant holds, with exactly the listed vehicles -/
theorem C15_monitor_sound (nw : Network) (tours : Tours) (vehicles : List Veh) (tr : Transition)
    (h : transitionDiffs nw tours vehicles tr = []) :
    Consistent nw (overlay [] tours) tr ∧ ∀ v, v ∈ members tr ↔ v ∈ vehicles := by
  unfold transitionDiffs at h
  simp only [C10.append_nil_iff] at h
  obtain ⟨⟨⟨⟨⟨h1, h2⟩, h3⟩, h4⟩, h5⟩, h6⟩ := h
  have h1 := (C10.ite_nil_iff (by simp)).mp h1
  have h2 := (C10.ite_nil_iff (by simp)).mp h2
  have h3 := (C10.ite_nil_iff (by simp)).mp h3
  have h4 := (C10.ite_nil_iff (by simp)).mp h4
  have h5 := (C10.ite_nil_iff (by simp)).mp h5
  have h6 := (C10.ite_nil_iff (by simp)).mp h6
  simp only [Bool.and_eq_true] at h1 h3
  have hflat : (tr.cycles.flatMap (·.vehicles)).Nodup := nodupB_sound _ h1.1
  have hsame := sameVehSet_sound _ _ h1.2
  -- lookup: equal after sorting, so a permutation of the expected list
  have hperm : tr.lookup.Perm (expLookupList tr.cycles) := by
    have e : Transition.sortLookup tr.lookup = Transition.sortLookup (expLookupList tr.cycles) := by
      simpa [expLookupList] using h2
    unfold Transition.sortLookup at e
    have p1 := List.mergeSort_perm tr.lookup (fun a b => !(Veh.lt b.1 a.1))
    have p2 := List.mergeSort_perm (expLookupList tr.cycles) (fun a b => !(Veh.lt b.1 a.1))
    rw [e] at p1
    exact p1.symm.trans p2
  have hkeysE : ((expLookupList tr.cycles).map (·.1)).Nodup := by rw [expLookupList_keys]; exact hflat
  have hkeys : (tr.lookup.map (·.1)).Nodup := (hperm.map _).nodup_iff.mpr hkeysE
  have hcyc : ∀ (i : Nat) (c : Cycle), tr.cycles[i]? = some c → c.vehicles.Sublist (tr.cycles.flatMap (·.vehicles)) := by
    intro i c hc
    have hm := List.mem_of_getElem? hc
    obtain ⟨l1, l2, hl⟩ := List.append_of_mem hm
    rw [hl, List.flatMap_append, List.flatMap_cons]
    exact (List.sublist_append_left _ _).trans (List.sublist_append_right _ _)
  have hcounter : ∀ (i : Nat) (c : Cycle), tr.cycles[i]? = some c →
      cycleCounterRef nw tours c.vehicles = some c.counter := by
    intro i c hc
    obtain ⟨hlt, hget⟩ := List.getElem?_eq_some_iff.mp hc
    have := List.all_eq_true.mp h4 (c, cycleCounterRef nw tours c.vehicles) (by
      rw [List.mem_iff_getElem]
      refine ⟨i, by simp [hlt], ?_⟩
      simp [hget])
    simpa using this
  refine ⟨⟨?_, ?_, hkeys, ?_, nodupB_sound _ h3.1.1, ?_, ?_, by simpa [sumViolations] using h5,
    by simpa [sumCounters] using h6⟩, ?_⟩
  · intro i c hc; exact hflat.sublist (hcyc i c hc)
  · intro i c hc v hv; exact (cycleCounterRef_some nw tours c.vehicles c.counter (hcounter i c hc)).1 v hv
  · intro v i
    rw [assocGet?_perm hperm hkeys]
    constructor
    · intro hg; exact (mem_expLookupList tr.cycles v i).mp (assocGet?_mem hg)
    · intro hm; exact assocGet?_of_mem hkeysE ((mem_expLookupList tr.cycles v i).mpr hm)
  · intro i
    have hA := List.all_eq_true.mp h3.1.2
    have hB := List.all_eq_true.mp h3.2
    constructor
    · intro hi
      have := hA i hi
      simp only [List.contains_iff_mem, List.mem_filter, List.mem_range, List.isEmpty_iff] at this
      refine ⟨tr.cycles[i], by simp [this.1], ?_⟩
      simpa [List.getD_eq_getElem?_getD, this.1] using this.2
    · rintro ⟨c, hc, hv⟩
      obtain ⟨hlt, hget⟩ := List.getElem?_eq_some_iff.mp hc
      have := hB i (by
        simp only [List.mem_filter, List.mem_range, List.isEmpty_iff]
        exact ⟨hlt, by simp [List.getD_eq_getElem?_getD, hlt, hget, hv]⟩)
      simpa using this
  · intro i c hc; exact (cycleCounterRef_some nw tours c.vehicles c.counter (hcounter i c hc)).2
  · intro v; exact hsame v

end RSSched.C15
