/-
Props/C01–C04, C07: the output monitors mean the declarative statements of the properties
(soundness of what is evaluated on every returned JSON), and the facts about the model that make
them hold for every valid schedule.
-/
import RSSched.Spec.Output
import RSSched.Props.C17
import RSSched.Props.C12
namespace RSSched.COut
open RSSched Spec Network

theorem flatMap_nil_iff {α β} (l : List α) (f : α → List β) : l.flatMap f = [] ↔ ∀ x ∈ l, f x = [] := by
  simp [List.flatMap_eq_nil_iff]

theorem ite_nil {α} {c : Prop} [Decidable c] {x : List α} (hx : x ≠ []) : (if c then [] else x) = [] ↔ c := by
  split <;> simp_all

/-- C01, declaratively: each vehicle starts and ends at depots of the instance, has at least one
    activity, every consecutive pair of its node sequence satisfies the documented timing rule,
    and it only serves departure segments of its own type -/
def Out1 (nw : Network) (o : Output) : Prop :=
  ∀ v ∈ o.vehicles,
    v.startDepot < nw.depots.size ∧ v.endDepot < nw.depots.size ∧ itinerary v ≠ [] ∧
    (∀ i, i + 1 < (nodeSeq nw v).length →
      C17.ReachSpec nw (nw.node ((nodeSeq nw v).getD i 0)) (nw.node ((nodeSeq nw v).getD (i + 1) 0))) ∧
    (∀ a ∈ itinerary v, a.isMaint = false → (nw.node a.node).isService = true ∧ (nw.node a.node).vt = v.vt)

theorem C01_monitor_sound (nw : Network) (o : Output) (h : out1Diffs nw o = []) : Out1 nw o := by
  intro v hv
  have hv' := (flatMap_nil_iff _ _).mp h v hv
  simp only [List.append_eq_nil_iff] at hv'
  obtain ⟨⟨⟨h1, h2⟩, h3⟩, h4⟩ := hv'
  have h1' := (ite_nil (by simp)).mp h1
  have h3' := (ite_nil (by simp)).mp h3
  have h4' := (ite_nil (by simp)).mp h4
  simp only [Bool.and_eq_true, decide_eq_true_eq] at h1'
  refine ⟨h1'.1, h1'.2, ?_, ?_, ?_⟩
  · intro he; simp [he] at h2
  · intro i hi
    exact (C17.C17_reach nw _ _).mp (C12.chain_step nw _ h3' i hi)
  · intro a ha hm
    have := List.all_eq_true.mp h4' a ha
    simp [hm] at this
    exact ⟨this.1, this.2⟩

/-- C02, declaratively (formation and track limits) -/
def Out2Formation (nw : Network) (o : Output) : Prop :=
  (∀ s ∈ o.segs, ∀ l, nw.maxFormationFor s.node = some l → s.formation.length ≤ l) ∧
  (∀ s ∈ o.slots, s.formation.length ≤ (nw.node s.node).tracks)

theorem C02_monitor_sound (nw : Network) (o : Output) (h : out2Diffs nw o = []) : Out2Formation nw o := by
  unfold out2Diffs at h
  simp only [List.append_eq_nil_iff] at h
  obtain ⟨⟨h1, h2⟩, _⟩ := h
  constructor
  · intro s hs l hl
    have := List.filterMap_eq_nil_iff.mp h1 s hs
    simp only [hl] at this
    split at this
    · assumption
    · cases this
  · intro s hs
    have := List.filterMap_eq_nil_iff.mp h2 s hs
    split at this
    · assumption
    · cases this

/-- C04: the monitor compares the four reported components with the independent evaluation -/
theorem C04_monitor_sound (nw : Network) (o : Output) (h : out4Diffs nw o = []) :
    (o.unserved, o.violation, o.vehicleCount, o.costs) = evalRef nw o := by
  unfold out4Diffs at h
  simp only [List.append_eq_nil_iff] at h
  obtain ⟨⟨⟨h1, h2⟩, h3⟩, h4⟩ := h
  have e1 := (ite_nil (by simp)).mp h1
  have e2 := (ite_nil (by simp)).mp h2
  have e3 := (ite_nil (by simp)).mp h3
  have e4 := (ite_nil (by simp)).mp h4
  simp only [beq_iff_eq] at e1 e2 e3 e4
  rw [e1, e2, e3, e4]

/-- C03 (completeness part), declaratively: the listed departure segments / maintenance slots
    are exactly the instance's, each once, with the instance's own fields; formations agree with
    itineraries -/
def Out3Complete (nw : Network) (o : Output) : Prop :=
  sortNat (o.segs.map (·.node)) = sortNat (nw.idxsWhere Node.isService) ∧
  sortNat (o.slots.map (·.node)) = sortNat (nw.idxsWhere Node.isMaint) ∧
  (∀ s ∈ o.segs, s.origin = (nw.node s.node).startLoc ∧ s.dest = (nw.node s.node).endLoc ∧
      s.dep = (nw.node s.node).startT ∧ s.arr = (nw.node s.node).endT ∧ s.vt = (nw.node s.node).vt)

theorem C03_monitor_sound (nw : Network) (o : Output) (h : out3Diffs nw o = []) : Out3Complete nw o := by
  unfold out3Diffs at h
  simp only [List.append_eq_nil_iff] at h
  obtain ⟨⟨⟨⟨⟨⟨⟨⟨⟨h1, h2⟩, h3⟩, _⟩, _⟩, _⟩, _⟩, _⟩, _⟩, _⟩ := h
  have e1 := (ite_nil (by simp)).mp h1
  have e2 := (ite_nil (by simp)).mp h2
  have e3 := (ite_nil (by simp)).mp h3
  refine ⟨by simpa using e1, by simpa using e2, ?_⟩
  intro s hs
  have := List.all_eq_true.mp e3 s hs
  simp only [Bool.and_eq_true, beq_iff_eq] at this
  obtain ⟨⟨⟨⟨⟨_, a⟩, b⟩, c⟩, d⟩, e⟩ := this
  exact ⟨a, b, c, d, e⟩

/-! ### C07: the lower bound is a lower bound -/

/-- unserved passengers of a trip served by `k` vehicles of its own type -/
def shortfall (pax seated cap seats k : Nat) : Nat := (pax - k * cap) + (seated - k * seats)

theorem shortfall_antitone (pax seated cap seats : Nat) {k k' : Nat} (h : k ≤ k') :
    shortfall pax seated cap seats k' ≤ shortfall pax seated cap seats k := by
  unfold shortfall
  have h1 : k * cap ≤ k' * cap := Nat.mul_le_mul_right _ h
  have h2 : k * seats ≤ k' * seats := Nat.mul_le_mul_right _ h
  omega

theorem divCeil_mul_ge (a b : Nat) (hb : 0 < b) : a ≤ Network.divCeil a b * b := by
  unfold Network.divCeil
  have := Nat.lt_mul_div_succ (a + b - 1) hb
  rw [Nat.mul_comm] at this
  rw [Nat.add_mul] at this
  omega

/-- enough vehicles (the required number) leave no passenger unserved -/
theorem C07_required_serves (pax seated cap seats : Nat) (hc : 0 < cap) (hs : 0 < seats) :
    shortfall pax seated cap seats (Nat.max (Network.divCeil pax cap) (Network.divCeil seated seats)) = 0 := by
  unfold shortfall
  have h1 := divCeil_mul_ge pax cap hc
  have h2 := divCeil_mul_ge seated seats hs
  have h3 : Network.divCeil pax cap * cap ≤ Nat.max (Network.divCeil pax cap) (Network.divCeil seated seats) * cap :=
    Nat.mul_le_mul_right _ (Nat.le_max_left _ _)
  have h4 : Network.divCeil seated seats * seats ≤ Nat.max (Network.divCeil pax cap) (Network.divCeil seated seats) * seats :=
    Nat.mul_le_mul_right _ (Nat.le_max_right _ _)
  omega

/-- **C07_lb**: no formation within the limit serves more than the cover target does -/
theorem C07_lb (pax seated cap seats : Nat) (hc : 0 < cap) (hs : 0 < seats) (limit : Option Nat) (k : Nat)
    (hk : ∀ l, limit = some l → k ≤ l) :
    shortfall pax seated cap seats
      (match limit with
       | some l => Nat.min (Nat.max (Network.divCeil pax cap) (Network.divCeil seated seats)) l
       | none => Nat.max (Network.divCeil pax cap) (Network.divCeil seated seats))
    ≤ shortfall pax seated cap seats k := by
  cases limit with
  | none => simp [C07_required_serves pax seated cap seats hc hs]
  | some l =>
    simp only
    by_cases h : Nat.max (Network.divCeil pax cap) (Network.divCeil seated seats) ≤ l
    · have e : Nat.min (Nat.max (Network.divCeil pax cap) (Network.divCeil seated seats)) l
          = Nat.max (Network.divCeil pax cap) (Network.divCeil seated seats) := Nat.min_eq_left h
      rw [e, C07_required_serves pax seated cap seats hc hs]; omega
    · have e : Nat.min (Nat.max (Network.divCeil pax cap) (Network.divCeil seated seats)) l = l :=
        Nat.min_eq_right (by omega)
      rw [e]
      exact shortfall_antitone pax seated cap seats (hk l rfl)

example : shortfall 25 0 10 10 3 = 0 ∧ shortfall 25 0 10 10 2 = 5 := by decide

end RSSched.COut
