/-
Props/C13Formation: the effect of `update_train_formation` on the train formations, for the model and
all arguments, in counting form: for every non-depot node `n` and every vehicle `v`

   #v in formation'(n) + [provider is a real vehicle = v] · occ(n)
     = #v in formation(n) + [receiver is a real vehicle = v] · occ(n)

where `occ(n)` is the number of times `n` occurs among the non-depot nodes handed in. In words: on
each listed node the (real) provider leaves, the (real) receiver enters — replacing the provider in
place when both are real, joining at the tail otherwise — and no other formation and no other vehicle
is touched. This is the formation half of the frame-and-effect statements of C13.
-/
import RSSched.Props.C13
import RSSched.Props.C02Limits
namespace RSSched.C13
open RSSched Schedule C15 Formation

def ind (b : Prop) [Decidable b] : Nat := if b then 1 else 0

theorem count_cons' (a v : Veh) (l : List Veh) : (a :: l).count v = l.count v + ind (a = v) := by
  rw [List.count_cons]; unfold ind
  by_cases e : a = v <;> simp [e]

theorem count_set_eq (f : List Veh) (pos : Nat) (p r v : Veh) (hp : f[pos]? = some p) :
    (f.set pos r).count v + ind (p = v) = f.count v + ind (r = v) := by
  induction f generalizing pos with
  | nil => simp at hp
  | cons a as ih =>
    cases pos with
    | zero =>
      simp only [List.getElem?_cons_zero, Option.some.injEq] at hp
      subst hp
      simp only [List.set_cons_zero, count_cons']
      omega
    | succ k =>
      simp only [List.getElem?_cons_succ] at hp
      have := ih k hp
      simp only [List.set_cons_succ, count_cons']
      omega

theorem count_erase_eq (f : List Veh) (p v : Veh) (hp : p ∈ f) :
    (f.erase p).count v + ind (p = v) = f.count v := by
  induction f with
  | nil => cases hp
  | cons a as ih =>
    by_cases e : a = p
    · subst e
      rw [List.erase_cons_head, count_cons']
    · have hp' : p ∈ as := by
        cases hp with
        | head => exact absurd rfl e
        | tail _ h => exact h
      have hne : (a == p) = false := by simpa using e
      rw [List.erase_cons_tail (by simp [hne]), count_cons', count_cons']
      have := ih hp'
      omega

theorem count_addAtTail (f : List Veh) (r v : Veh) : (addAtTail f r).count v = f.count v + ind (r = v) := by
  unfold addAtTail
  rw [List.count_append, count_cons']
  simp

/-- the vehicle behind an optional id, if it is a real vehicle (dummies are not listed in formations) -/
def realOf (s : Schedule) : Option Veh → Option Veh
  | some x => if s.isDummy x then none else some x
  | none => none

def indO (o : Option Veh) (v : Veh) : Nat :=
  match o with
  | some x => ind (x = v)
  | none => 0

theorem addChecked_eq {nw : Network} {node : Nat} {old f' : List Veh} {r : Veh}
    (h : vehicleReplacement.addChecked nw node old r = .ok f') : f' = addAtTail old r := by
  unfold vehicleReplacement.addChecked at h
  by_cases h1 : ((nw.node node).isMaint && decide (old.length ≥ (nw.node node).tracks)) = true
  · rw [if_pos h1] at h; cases h
  · rw [if_neg h1] at h
    cases hmf : nw.maxFormationFor node with
    | none =>
      simp only [hmf, Bool.and_false, Bool.false_eq_true, ↓reduceIte, pure, Except.pure, Except.ok.injEq] at h
      exact h.symm
    | some lim =>
      simp only [hmf] at h
      split at h
      · cases h
      · simp only [pure, Except.pure, Except.ok.injEq] at h; exact h.symm

theorem removeOnly_count {s : Schedule} {old f' : List Veh} {provider : Option Veh}
    (h : vehicleReplacement.removeOnly s provider old = .ok f') (v : Veh) :
    f'.count v + indO (realOf s provider) v = old.count v := by
  unfold vehicleReplacement.removeOnly at h
  cases provider with
  | none =>
    simp only [pure, Except.pure, Except.ok.injEq] at h
    rw [← h]; simp [realOf, indO]
  | some p =>
    simp only at h
    by_cases hd : s.isDummy p = true
    · simp only [hd, Bool.not_true, Bool.false_eq_true, ↓reduceIte, pure, Except.pure, Except.ok.injEq] at h
      rw [← h]; simp [realOf, indO, hd]
    · have hd' : s.isDummy p = false := by simpa using hd
      simp only [hd', Bool.not_false, ↓reduceIte] at h
      have he := C13_remove old p f' h
      have hmem : p ∈ old := by
        unfold Formation.remove at h
        cases hp : old.findIdx? (· == p) with
        | none => simp [hp] at h
        | some pos =>
          obtain ⟨hlt, hx, _⟩ := List.findIdx?_eq_some_iff_getElem.mp hp
          have : old[pos] = p := by simpa using hx
          rw [← this]; exact List.getElem_mem hlt
      rw [he]
      simp only [realOf, hd', Bool.false_eq_true, ↓reduceIte, indO]
      exact count_erase_eq old p v hmem

/-- one node: the real provider leaves, the real receiver enters -/
theorem vehicleReplacement_count {nw : Network} {s : Schedule} {forms : List (Nat × List Veh)}
    {provider receiver : Option Veh} {node : Nat} {f' : List Veh}
    (h : vehicleReplacement nw s forms provider receiver node = .ok f') :
    ∃ old, assocGet? forms node = some old ∧
      ∀ v, f'.count v + indO (realOf s provider) v = old.count v + indO (realOf s receiver) v := by
  unfold vehicleReplacement at h
  obtain ⟨old, hold, h⟩ := bind_ok h
  refine ⟨old, unwrapO_ok hold, ?_⟩
  intro v
  cases receiver with
  | none =>
    simp only at h
    have := removeOnly_count h v
    have e : indO (realOf s none) v = 0 := rfl
    rw [e]; omega
  | some r =>
    simp only at h
    by_cases hdr : s.isDummy r = true
    · simp only [hdr, Bool.not_true, Bool.false_eq_true, ↓reduceIte] at h
      have := removeOnly_count h v
      have e : indO (realOf s (some r)) v = 0 := by simp [realOf, hdr, indO]
      rw [e]; omega
    · have hdr' : s.isDummy r = false := by simpa using hdr
      simp only [hdr', Bool.not_false, ↓reduceIte] at h
      cases provider with
      | none =>
        simp only at h
        rw [addChecked_eq h, count_addAtTail]
        simp [realOf, hdr', indO]
      | some p =>
        simp only at h
        by_cases hdp : s.isDummy p = true
        · simp only [hdp, Bool.not_true, Bool.false_eq_true, ↓reduceIte] at h
          rw [addChecked_eq h, count_addAtTail]
          simp [realOf, hdr', hdp, indO]
        · have hdp' : s.isDummy p = false := by simpa using hdp
          simp only [hdp', Bool.not_false, ↓reduceIte] at h
          obtain ⟨pos, hpos, rfl⟩ := C13_replace old p r f' h
          obtain ⟨hlt, hx, _⟩ := List.findIdx?_eq_some_iff_getElem.mp hpos
          have hget : old[pos]? = some p := by
            rw [List.getElem?_eq_getElem hlt]; simp at hx; rw [hx]
          simp only [realOf, hdr', hdp', Bool.false_eq_true, ↓reduceIte, indO]
          exact count_set_eq old pos p r v hget

def formOf (forms : List (Nat × List Veh)) (n : Nat) : List Veh := (assocGet? forms n).getD []

/-- how often `n` occurs among the non-depot nodes of a node list -/
def occ (nw : Network) (nodes : List Nat) (n : Nat) : Nat :=
  (nodes.filter (fun x => !(nw.node x).isDepot)).count n

theorem occ_cons_depot (nw : Network) (x : Nat) (rest : List Nat) (n : Nat) (h : (nw.node x).isDepot = true) :
    occ nw (x :: rest) n = occ nw rest n := by
  unfold occ; simp [List.filter_cons, h]

theorem occ_cons_act (nw : Network) (x : Nat) (rest : List Nat) (n : Nat) (h : (nw.node x).isDepot = false) :
    occ nw (x :: rest) n = occ nw rest n + (if x = n then 1 else 0) := by
  unfold occ
  simp only [List.filter_cons, h, Bool.not_false, ↓reduceIte, List.count_cons]
  by_cases e : x = n <;> simp [e]

/-- **effect of `update_train_formation`** in counting form -/
theorem updateTrainFormation_count (nw : Network) (s : Schedule) (typeOf : Veh → Option Nat)
    (provider receiver : Option Veh) : ∀ (nodes : List Nat) (forms forms' : List (Nat × List Veh)) (u u' : Nat × Nat),
    updateTrainFormation nw s typeOf forms u provider receiver nodes = .ok (forms', u') →
    ∀ n v, (formOf forms' n).count v + indO (realOf s provider) v * occ nw nodes n
      = (formOf forms n).count v + indO (realOf s receiver) v * occ nw nodes n
  | [], forms, forms', u, u', h, n, v => by
    simp only [updateTrainFormation, pure, Except.pure, Except.ok.injEq, Prod.mk.injEq] at h
    rw [← h.1]; simp [occ]
  | node :: rest, forms, forms', u, u', h, n, v => by
    unfold updateTrainFormation at h
    split at h
    · rename_i hdep
      rw [occ_cons_depot nw node rest n hdep]
      exact updateTrainFormation_count nw s typeOf provider receiver rest forms forms' u u' h n v
    · rename_i hdep
      have hdep' : (nw.node node).isDepot = false := by simpa using hdep
      rw [occ_cons_act nw node rest n hdep']
      dsimp only at h
      have key : ∃ f' u1, vehicleReplacement nw s forms provider receiver node = .ok f' ∧
          updateTrainFormation nw s typeOf (assocSet forms node f') u1 provider receiver rest = .ok (forms', u') := by
        split at h
        · obtain ⟨old, _, h⟩ := bind_ok h
          obtain ⟨a, _, h⟩ := bind_ok h
          obtain ⟨c, _, h⟩ := bind_ok h
          obtain ⟨u1, _, h⟩ := bind_ok h
          obtain ⟨f', hf', h⟩ := bind_ok h
          exact ⟨f', _, hf', h⟩
        · obtain ⟨u1, _, h⟩ := bind_ok h
          obtain ⟨f', hf', h⟩ := bind_ok h
          exact ⟨f', _, hf', h⟩
      obtain ⟨f', u1, hvr, hrest⟩ := key
      have ih := updateTrainFormation_count nw s typeOf provider receiver rest _ forms' u1 u' hrest n v
      obtain ⟨old, hold, hcnt⟩ := vehicleReplacement_count hvr
      have hform : formOf (assocSet forms node f') n = if n = node then f' else formOf forms n := by
        unfold formOf; rw [assocGet?_assocSet]
        by_cases e : n = node <;> simp [e]
      rw [hform] at ih
      by_cases e : node = n
      · subst e
        simp only [↓reduceIte] at ih ⊢
        have h1 := hcnt v
        have hof : formOf forms node = old := by unfold formOf; rw [hold]; rfl
        rw [hof]
        rw [Nat.mul_add, Nat.mul_add, Nat.mul_one, Nat.mul_one]
        omega
      · have e' : ¬ n = node := fun h => e h.symm
        simp only [e', ↓reduceIte, e] at ih ⊢
        simpa using ih

end RSSched.C13
