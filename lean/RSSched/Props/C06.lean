/-
Props/C06: solving terminates with an answer — the logic half.
* the lexicographic objective order is well-founded: no infinite sequence of accepted steps, for
  any neighbourhood (schedule search, transition search, cycle TSP);
* every 3-opt index enumeration is finite and in range for EVERY cycle length (repaired code);
  the pinned range `0..cycle_length - 2` is not: for length 0/1 it panics with arithmetic checks
  and makes 2^64−1 / 2^64−2 outer iterations without (finding F5);
* the binary searches of Tour never fault on valid tours (Props/C12), the overflow depot can host
  every vehicle (Props/C17).
What a model cannot exhibit — termination of rs_graph's network simplex, rayon scheduling, memory —
is exercised per run by the `pipe` scope in both builds under a wall-clock limit.
-/
import RSSched.Props.C08
namespace RSSched.C06
open RSSched

def m4 (o : Obj) : Nat × Nat × Nat × Nat := (o.unserved, o.violation, o.vehicles, o.costs)

abbrev Lex4 : (Nat × Nat × Nat × Nat) → (Nat × Nat × Nat × Nat) → Prop :=
  Prod.Lex (· < ·) (Prod.Lex (· < ·) (Prod.Lex (· < ·) (· < ·)))

theorem lex4_wf : WellFounded Lex4 :=
  (Prod.lex ⟨_, Nat.lt_wfRel.wf⟩ (Prod.lex ⟨_, Nat.lt_wfRel.wf⟩ (Prod.lex ⟨_, Nat.lt_wfRel.wf⟩ ⟨_, Nat.lt_wfRel.wf⟩))).wf

theorem lt_lex4 {a b : Obj} (h : Obj.lt a b) : Lex4 (m4 a) (m4 b) := by
  unfold Obj.lt at h
  unfold m4
  rcases h with h | ⟨h1, h⟩
  · exact Prod.Lex.left _ _ h
  · rw [h1]
    apply Prod.Lex.right
    rcases h with h | ⟨h2, h⟩
    · exact Prod.Lex.left _ _ h
    · rw [h2]
      apply Prod.Lex.right
      rcases h with h | ⟨h3, h⟩
      · exact Prod.Lex.left _ _ h
      · rw [h3]; exact Prod.Lex.right _ h

/-- the objective order is well-founded -/
theorem C06_wf : WellFounded (fun a b : Obj => Obj.lt a b) :=
  Subrelation.wf (fun h => lt_lex4 h) (InvImage.wf m4 lex4_wf)

/-- there is no infinite sequence of accepted (strictly improving) steps -/
theorem C06_no_infinite_descent : ¬ ∃ f : Nat → Obj, ∀ k, Obj.lt (f (k + 1)) (f k) := by
  rintro ⟨f, hf⟩
  have : ∀ x : Obj, ∀ k, f k = x → False := by
    intro x
    induction x using C06_wf.induction with
    | _ x ih =>
      intro k hk
      exact ih (f (k + 1)) (hk ▸ hf k) (k + 1) rfl
  exact this (f 0) 0 rfl

/-- every search run ends by itself for a suitable fuel: the loop of the model returns with the
    "ended by itself" flag set -/
theorem C06_search_terminates {σ} (obj : σ → Obj) (nbrs : σ → List σ) (s : σ) :
    ∃ fuel, (searchFuel obj nbrs fuel s).2 = true := by
  have : ∀ o : Obj, ∀ s : σ, obj s = o → ∃ fuel, (searchFuel obj nbrs fuel s).2 = true := by
    intro o
    induction o using C06_wf.induction with
    | _ o ih =>
      intro s hs
      cases h : improve obj nbrs s with
      | none => exact ⟨1, by simp [searchFuel, h]⟩
      | some s' =>
        have hlt := (C08.C08_step obj nbrs s s' h).2.1
        obtain ⟨fuel, hf⟩ := ih (obj s') (hs ▸ hlt) s' rfl
        exact ⟨fuel + 1, by simp [searchFuel, h, hf]⟩
  exact this (obj s) s rfl

/-- the 3-opt moves of the repaired neighbourhood: finite, and all triples satisfy i<j<k<n -/
theorem C06_nbhd_finite (n : Nat) : ∀ t ∈ threeOptTriples n, t.1 < t.2.1 ∧ t.2.1 < t.2.2 ∧ t.2.2 < n := by
  intro t ht
  unfold threeOptTriples at ht
  split at ht
  · cases ht
  · simp only [List.mem_flatMap, List.mem_range, List.mem_filter, List.mem_map, decide_eq_true_eq] at ht
    obtain ⟨i, _, j, ⟨hj, hij⟩, k, ⟨hk, hjk⟩, rfl⟩ := ht
    simp; omega

theorem C06_nbhd_short (n : Nat) (h : n < 3) : threeOptTriples n = [] := by
  simp [threeOptTriples, h]

/-- F5: the pinned range underflows for cycles of length 0 and 1 — panic with arithmetic checks,
    2^64−2 / 2^64−1 outer iterations without -/
theorem F5_pinned_range :
    pinnedOuterIterations true 1 = none ∧ pinnedOuterIterations true 0 = none ∧
    pinnedOuterIterations false 1 = some (2 ^ 64 - 1) ∧ pinnedOuterIterations false 0 = some (2 ^ 64 - 2) ∧
    pinnedOuterIterations true 3 = some 1 := by
  decide

example : (3, 4, 6) ∈ threeOptTriples 7 := by decide

end RSSched.C06
