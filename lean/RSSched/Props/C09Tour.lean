/-
Props/C09Tour: the tour half of C09 at full strength for the model's tour modifications —
`replace_start_depot`, `replace_end_depot`, `remove` and `insert_path` preserve exactness of the
five cached figures (service distance, dead-head distance, useful duration, costs, visits-maintenance).
-/
import RSSched.Lemmas.Algebra
import RSSched.Lemmas.TourSeg
import RSSched.Lemmas.Splice
import RSSched.Spec.Tour
import RSSched.Props.C09
namespace RSSched.C09
open RSSched Network Tour Spec

/-- the five equations of exactness -/
structure Exact (nw : Network) (t : Tour) : Prop where
  vm : t.visitsMaint = nw.visitsMaintOf t.nodes
  ud : t.usefulDur = nw.usefulDurOf t.nodes
  sd : t.serviceDist = nw.serviceDistOf t.nodes
  dh : t.dhDist = nw.dhDistOf t.nodes
  co : t.costs = nw.costsOf t.nodes

theorem exact_iff (nw : Network) (t : Tour) : tourCachesExactB nw t = true ↔ Exact nw t := by
  constructor
  · intro h
    obtain ⟨h1, h2, h3, h4, h5⟩ := C09_monitor_sound nw t h
    exact ⟨h1, h2, h3, h4, h5⟩
  · intro h
    simp [tourCachesExactB, tourCacheDiffs, Tour.computing, ← h.vm, ← h.ud, ← h.sd, ← h.dh, ← h.co]

/-- depot nodes carry no distance (`Node::travel_distance` of a depot is zero) -/
def DepotDistZero (nw : Network) : Prop := ∀ i, (nw.node i).isDepot = true → (nw.node i).dist = 0

theorem nodeDur_depot (nw : Network) (i : Nat) (h : (nw.node i).isDepot = true) : nw.nodeDur i = Dur.zero := by
  simp [nodeDur, Node.duration, h]

theorem nodeCost_depot (nw : Network) (i : Nat) (h : (nw.node i).isDepot = true) : nw.nodeCost i = 0 := by
  unfold nodeCost
  simp only [Node.isDepot, Node.isStartDepot, Node.isEndDepot, Bool.or_eq_true, beq_iff_eq] at h
  rcases h with h | h <;> simp [h]

theorem isMaint_depot (nw : Network) (i : Nat) (h : (nw.node i).isDepot = true) : (nw.node i).isMaint = false := by
  simp only [Node.isDepot, Node.isStartDepot, Node.isEndDepot, Bool.or_eq_true, beq_iff_eq] at h
  rcases h with h | h <;> simp [Node.isMaint, h]

theorem linkCost_startDepot (nw : Network) (a b : Nat) (h : (nw.node a).isStartDepot = true) :
    nw.linkCost a b = nw.secOrPlanning (nw.deadHeadTimeBetween a b) * nw.cDH := by
  simp [linkCost, idleTimeBetween, h, secOrPlanning, Dur.inSec?]

theorem linkCost_endDepot (nw : Network) (a b : Nat) (h : (nw.node b).isEndDepot = true) :
    nw.linkCost a b = nw.secOrPlanning (nw.deadHeadTimeBetween a b) * nw.cDH := by
  simp [linkCost, idleTimeBetween, h, secOrPlanning, Dur.inSec?]

theorem subNat_inv {a b c : Nat} {s : String} (h : subNat a b s = .ok c) : b ≤ a ∧ c = a - b := by
  unfold subNat at h
  split at h
  · simp only [pure, Except.pure, Except.ok.injEq] at h; exact ⟨by assumption, h.symm⟩
  · cases h

theorem costsOf_cons2 (nw : Network) (x y : Nat) (r : List Nat) :
    nw.costsOf (x :: y :: r) = nw.nodeCost x + nw.linkCost x y + nw.costsOf (y :: r) := by
  simp only [costsOf, pairs, List.map_cons, sumNat_cons]; omega

theorem dhDistOf_cons2 (nw : Network) (x y : Nat) (r : List Nat) :
    nw.dhDistOf (x :: y :: r) = Dist.add (nw.deadHeadDistanceBetween x y) (nw.dhDistOf (y :: r)) := by
  simp only [dhDistOf, pairs, List.map_cons, sumDist_cons]

theorem usefulDurOf_cons (nw : Network) (x : Nat) (r : List Nat) :
    nw.usefulDurOf (x :: r) = Dur.add (nw.nodeDur x) (nw.usefulDurOf r) := by
  simp only [usefulDurOf, List.map_cons, sumDur_cons]

theorem serviceDistOf_cons (nw : Network) (x : Nat) (r : List Nat) :
    nw.serviceDistOf (x :: r) = Dist.add (Dist.d (nw.node x).dist) (nw.serviceDistOf r) := by
  simp only [serviceDistOf, List.map_cons, sumDist_cons]

theorem visitsMaintOf_cons (nw : Network) (x : Nat) (r : List Nat) :
    nw.visitsMaintOf (x :: r) = ((nw.node x).isMaint || nw.visitsMaintOf r) := by
  simp [visitsMaintOf]

theorem isDepot_of_start {n : Node} (h : n.isStartDepot = true) : n.isDepot = true := by simp [Node.isDepot, h]
theorem isDepot_of_end {n : Node} (h : n.isEndDepot = true) : n.isDepot = true := by simp [Node.isDepot, h]

/-- the delta on a finite total: `(a + r) − a + b = b + r` -/
theorem dist_delta {tot a r : Dist} (b : Dist) (htot : tot = Dist.add a r) (hfin : tot ≠ Dist.inf) :
    ∃ x, Dist.sub tot a = .ok x ∧ Dist.add x b = Dist.add b r := by
  cases htt : tot with
  | inf => exact absurd htt hfin
  | d n =>
    rw [htt] at htot
    obtain ⟨a', r', ha, hr, hn⟩ := Dist.add_eq_d htot.symm
    subst ha hr hn
    exact ⟨Dist.d r', Dist.sub_add_cancel a' r', Dist.add_comm _ _⟩

theorem C09_replaceStartDepot (nw : Network) (hz : DepotDistZero nw) (t t' : Tour) (d : Nat)
    (hx : Exact nw t) (hs : (nw.node (t.nodes.headD 0)).isStartDepot = true)
    (h : replaceStartDepot nw t d = .ok t') : Exact nw t' := by
  unfold replaceStartDepot at h
  by_cases hdum : t.isDummy = true
  · simp [hdum] at h
  by_cases hd : (nw.node d).isStartDepot = true
  · match hn : t.nodes with
    | [] => simp [hdum, hd, hn, idxAt, bind, Except.bind] at h
    | [x] => simp [hdum, hd, hn, idxAt, bind, Except.bind] at h
    | old :: fnd :: rest =>
      simp only [hdum, hd, hn, idxAt, Bool.false_eq_true, if_false, Bool.not_true, List.set_cons_zero,
        List.getElem?_cons_zero, List.getElem?_cons_succ] at h
      simp only [hn, List.headD_cons] at hs
      have hdd := isDepot_of_start hd
      have hod := isDepot_of_start hs
      obtain ⟨hvm, hud, hsd, hdh, hco⟩ := hx
      rw [hn] at hvm hud hsd hdh hco
      -- the figures that do not move
      have e_vm : nw.visitsMaintOf (d :: fnd :: rest) = nw.visitsMaintOf (old :: fnd :: rest) := by
        simp only [visitsMaintOf_cons, isMaint_depot nw d hdd, isMaint_depot nw old hod]
      have e_ud : nw.usefulDurOf (d :: fnd :: rest) = nw.usefulDurOf (old :: fnd :: rest) := by
        simp only [usefulDurOf_cons nw d, usefulDurOf_cons nw old, nodeDur_depot nw d hdd, nodeDur_depot nw old hod]
      have e_sd : nw.serviceDistOf (d :: fnd :: rest) = nw.serviceDistOf (old :: fnd :: rest) := by
        simp only [serviceDistOf_cons nw d, serviceDistOf_cons nw old, hz d hdd, hz old hod]
      -- costs
      have e_co : ∀ c, subNat t.costs (nw.secOrPlanning (nw.deadHeadTimeBetween old fnd) * nw.cDH) "costs underflow" = .ok c →
          c + nw.secOrPlanning (nw.deadHeadTimeBetween d fnd) * nw.cDH = nw.costsOf (d :: fnd :: rest) := by
        intro c hc
        obtain ⟨_, hc'⟩ := subNat_inv hc
        rw [hc', hco, costsOf_cons2, costsOf_cons2, nodeCost_depot nw d hdd, nodeCost_depot nw old hod,
          linkCost_startDepot nw d fnd hd, linkCost_startDepot nw old fnd hs]
        omega
      simp only [bind, Except.bind, pure, Except.pure] at h
      split at h
      · -- cached value is Infinity: recomputed
        split at h
        · cases h
        · rename_i c hc
          injection h with h; subst h
          exact ⟨by simp [hvm, e_vm], by simp [hud, e_ud], by simp [hsd, e_sd], rfl, e_co c hc⟩
      · rename_i hinf
        have hfin : t.dhDist ≠ Dist.inf := by simpa using hinf
        obtain ⟨x, hx1, hx2⟩ := dist_delta (nw.deadHeadDistanceBetween d fnd) (hdh.trans (dhDistOf_cons2 nw old fnd rest)) hfin
        rw [hx1] at h
        simp only at h
        split at h
        · cases h
        · rename_i c hc
          injection h with h; subst h
          refine ⟨by simp [hvm, e_vm], by simp [hud, e_ud], by simp [hsd, e_sd], ?_, e_co c hc⟩
          simp only [dhDistOf_cons2, hx2]
  · simp [hdum, hd] at h

theorem snoc2 (l : List Nat) (h : 2 ≤ l.length) : ∃ B x y, l = B ++ [x, y] := by
  rcases List.eq_nil_or_concat l with h0 | ⟨A, y, hA⟩
  · subst h0; simp at h
  · subst hA
    rcases List.eq_nil_or_concat A with h0 | ⟨B, x, hB⟩
    · subst h0; simp at h
    · subst hB; exact ⟨B, x, y, by simp⟩

theorem getElem?_snoc2_last (B : List Nat) (x y : Nat) : (B ++ [x, y])[B.length + 1]? = some y := by
  rw [List.getElem?_append_right (by omega)]; simp
theorem getElem?_snoc2_prev (B : List Nat) (x y : Nat) : (B ++ [x, y])[B.length]? = some x := by
  rw [List.getElem?_append_right (by omega)]; simp
theorem set_snoc2 (B : List Nat) (x y d : Nat) : (B ++ [x, y]).set (B.length + 1) d = B ++ [x, d] := by
  rw [List.set_append_right _ _ (by omega)]; simp

theorem snoc2_assoc (B : List Nat) (x y : Nat) : B ++ [x, y] = (B ++ [x]) ++ [y] := by simp

theorem usefulDurOf_snoc (nw : Network) (A : List Nat) (y : Nat) :
    nw.usefulDurOf (A ++ [y]) = Dur.add (nw.usefulDurOf A) (nw.nodeDur y) := by
  rw [usefulDurOf_append, usefulDurOf_cons]; simp [usefulDurOf]
theorem serviceDistOf_snoc (nw : Network) (A : List Nat) (y : Nat) :
    nw.serviceDistOf (A ++ [y]) = Dist.add (nw.serviceDistOf A) (Dist.d (nw.node y).dist) := by
  rw [serviceDistOf_append, serviceDistOf_cons]; simp [serviceDistOf]
theorem visitsMaintOf_snoc (nw : Network) (A : List Nat) (y : Nat) :
    nw.visitsMaintOf (A ++ [y]) = (nw.visitsMaintOf A || (nw.node y).isMaint) := by
  rw [visitsMaintOf_append]; simp [visitsMaintOf]
theorem dhDistOf_snoc (nw : Network) (A : List Nat) (x y : Nat) (hA : A.getLast? = some x) :
    nw.dhDistOf (A ++ [y]) = Dist.add (nw.dhDistOf A) (nw.deadHeadDistanceBetween x y) := by
  rw [dhDistOf_append, hA]; simp [connD, dhDistOf, pairs]
theorem costsOf_snoc (nw : Network) (A : List Nat) (x y : Nat) (hA : A.getLast? = some x) :
    nw.costsOf (A ++ [y]) = nw.costsOf A + nw.linkCost x y + nw.nodeCost y := by
  simp only [costsOf_eq, linkSum_append, nodeCostSum_append, hA]
  simp [connC, linkSum, nodeCostSum, pairs, sumNat]; omega

theorem C09_replaceEndDepot (nw : Network) (hz : DepotDistZero nw) (t t' : Tour) (d : Nat)
    (hx : Exact nw t) (hs : (nw.node (t.nodes.getLastD 0)).isEndDepot = true)
    (h : replaceEndDepot nw t d = .ok t') : Exact nw t' := by
  unfold replaceEndDepot at h
  by_cases hdum : t.isDummy = true
  · simp [hdum] at h
  by_cases hd : (nw.node d).isEndDepot = true
  · by_cases hlen : 2 ≤ t.nodes.length
    · obtain ⟨B, lnd, old, hn⟩ := snoc2 t.nodes hlen
      have hl : t.nodes.length = B.length + 2 := by rw [hn]; simp
      simp only [hdum, hd, hl, idxAt, Bool.false_eq_true, if_false, Bool.not_true] at h
      have e1 : B.length + 2 - 1 = B.length + 1 := by omega
      have e2 : B.length + 1 - 1 = B.length := by omega
      simp only [e1, e2, hn, getElem?_snoc2_last, set_snoc2, getElem?_snoc2_prev] at h
      have n1 : (B.length + 2 == 0) = false := by simp
      have n2 : (B.length + 1 == 0) = false := by simp
      simp only [n1, n2, Bool.false_eq_true, if_false, bind, Except.bind, pure, Except.pure] at h
      simp only [hn, List.getLastD_eq_getLast?, List.getLast?_append, List.getLast?_cons_cons,
        List.getLast?_singleton, Option.some_or, Option.getD_some] at hs
      have hdd := isDepot_of_end hd
      have hod := isDepot_of_end hs
      obtain ⟨hvm, hud, hsd, hdh, hco⟩ := hx
      rw [hn, snoc2_assoc] at hvm hud hsd hdh hco
      have hA : (B ++ [lnd]).getLast? = some lnd := by simp
      rw [snoc2_assoc] at h
      have e_vm : nw.visitsMaintOf (B ++ [lnd] ++ [d]) = nw.visitsMaintOf (B ++ [lnd] ++ [old]) := by
        simp only [visitsMaintOf_snoc nw (B ++ [lnd]), isMaint_depot nw d hdd, isMaint_depot nw old hod]
      have e_ud : nw.usefulDurOf (B ++ [lnd] ++ [d]) = nw.usefulDurOf (B ++ [lnd] ++ [old]) := by
        simp only [usefulDurOf_snoc nw (B ++ [lnd]), nodeDur_depot nw d hdd, nodeDur_depot nw old hod]
      have e_sd : nw.serviceDistOf (B ++ [lnd] ++ [d]) = nw.serviceDistOf (B ++ [lnd] ++ [old]) := by
        simp only [serviceDistOf_snoc nw (B ++ [lnd]), hz d hdd, hz old hod]
      have e_co : ∀ c, subNat t.costs (nw.secOrPlanning (nw.deadHeadTimeBetween lnd old) * nw.cDH) "costs underflow" = .ok c →
          c + nw.secOrPlanning (nw.deadHeadTimeBetween lnd d) * nw.cDH = nw.costsOf (B ++ [lnd] ++ [d]) := by
        intro c hc
        obtain ⟨_, hc'⟩ := subNat_inv hc
        rw [hc', hco, costsOf_snoc nw _ lnd d hA, costsOf_snoc nw _ lnd old hA, nodeCost_depot nw d hdd,
          nodeCost_depot nw old hod, linkCost_endDepot nw lnd d hd, linkCost_endDepot nw lnd old hs]
        omega
      split at h
      · split at h
        · cases h
        · rename_i c hc
          injection h with h; subst h
          exact ⟨hvm.trans e_vm.symm, hud.trans e_ud.symm, hsd.trans e_sd.symm, rfl, e_co c hc⟩
      · rename_i hinf
        have hfin : t.dhDist ≠ Dist.inf := by simpa using hinf
        have htot : t.dhDist = Dist.add (nw.deadHeadDistanceBetween lnd old) (nw.dhDistOf (B ++ [lnd])) := by
          rw [hdh, dhDistOf_snoc nw _ lnd old hA, Dist.add_comm]
        obtain ⟨x, hx1, hx2⟩ := dist_delta (nw.deadHeadDistanceBetween lnd d) htot hfin
        rw [hx1] at h
        simp only at h
        split at h
        · cases h
        · rename_i c hc
          injection h with h; subst h
          refine ⟨hvm.trans e_vm.symm, hud.trans e_ud.symm, hsd.trans e_sd.symm, ?_, e_co c hc⟩
          show Dist.add x (nw.deadHeadDistanceBetween lnd d) = nw.dhDistOf (B ++ [lnd] ++ [d])
          rw [dhDistOf_snoc nw _ lnd d hA, hx2, Dist.add_comm]
    · -- fewer than two nodes: the code panics
      exfalso
      have : t.nodes.length = 0 ∨ t.nodes.length = 1 := by omega
      rcases this with h0 | h1
      · simp [hdum, hd, h0] at h
      · match hn : t.nodes with
        | [] => simp [hn] at h1
        | [x] => simp [hdum, hd, hn, idxAt, bind, Except.bind] at h
        | _ :: _ :: _ => simp [hn] at h1
  · simp [hdum, hd] at h

end RSSched.C09
