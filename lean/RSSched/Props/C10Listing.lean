/-
Props/C10Listing: the listing clause of C10 for the model, every history. In every schedule reachable
by public modifications: vehicle and tour maps have the same duplicate-free keys, all of them real
vehicle ids below the id counter; the per-type id lists are duplicate-free, contain only vehicles of
that type, and contain every vehicle. (`ListInv`; preserved by three primitive transformations —
add a fresh vehicle, delete a vehicle, replace a present tour — of which every public modification is
a composition.)
-/
import RSSched.Model.Ops
import RSSched.Props.C15Ops
import RSSched.Props.C02Limits
import RSSched.Props.C09Sched
import RSSched.Props.C05Reassign
namespace RSSched.C10L
open RSSched Schedule C15 C02

/-- the part of a schedule the listing invariant speaks about -/
structure Core where
  vehicles : List (Veh × Nat)
  tours : Tours
  ids : List (Nat × List Veh)
  counter : Nat

def coreOf (s : Schedule) : Core := ⟨s.vehicles, s.tours, s.idsByType, s.counter⟩

structure ListInvC (c : Core) : Prop where
  tourKeys : (c.tours.map (·.1)).Nodup
  vehKeys : (c.vehicles.map (·.1)).Nodup
  idKeys : (c.ids.map (·.1)).Nodup
  same : ∀ v, (assocGet? c.vehicles v).isSome = (assocGet? c.tours v).isSome
  fresh : ∀ v, (assocGet? c.tours v).isSome = true → v.dummy = false ∧ v.idx < c.counter
  typed : ∀ vt l, assocGet? c.ids vt = some l → ∀ v ∈ l, assocGet? c.vehicles v = some vt
  idsNodup : ∀ vt l, assocGet? c.ids vt = some l → l.Nodup
  complete : ∀ v vt, assocGet? c.vehicles v = some vt → ∃ l, assocGet? c.ids vt = some l ∧ v ∈ l

def ListInv (s : Schedule) : Prop := ListInvC (coreOf s)

/-! ### list helpers -/
theorem mem_insertSorted {α} (lt : α → α → Bool) (x y : α) : ∀ l : List α, y ∈ insertSorted lt x l ↔ y = x ∨ y ∈ l
  | [] => by simp [insertSorted]
  | a :: as => by
    unfold insertSorted
    split
    · simp only [List.mem_cons, mem_insertSorted lt x y as]
      constructor
      · rintro (h | h | h)
        · exact Or.inr (Or.inl h)
        · exact Or.inl h
        · exact Or.inr (Or.inr h)
      · rintro (h | h | h)
        · exact Or.inr (Or.inl h)
        · exact Or.inl h
        · exact Or.inr (Or.inr h)
    · simp

theorem insertSorted_perm {α} (lt : α → α → Bool) (x : α) : ∀ l : List α, (insertSorted lt x l).Perm (x :: l)
  | [] => List.Perm.refl _
  | a :: as => by
    unfold insertSorted
    split
    · exact ((insertSorted_perm lt x as).cons a).trans (List.Perm.swap x a as)
    · exact List.Perm.refl _

theorem keys_assocSet_absent {κ ν : Type} [DecidableEq κ] (l : List (κ × ν)) (k : κ) (v : ν)
    (h : assocGet? l k = none) : (assocSet l k v).map (·.1) = l.map (·.1) ++ [k] := by
  have hany : ¬ (l.any (fun q => decide (q.1 = k)) = true) := by
    intro ha
    obtain ⟨q, hq, hk⟩ := List.any_eq_true.mp ha
    have := (assocGet?_eq_none_iff l k).mp h
    exact this (List.mem_map.mpr ⟨q, hq, by simpa using hk⟩)
  unfold assocSet
  rw [if_neg hany]; simp

theorem isSome_assocSet {κ ν : Type} [DecidableEq κ] (l : List (κ × ν)) (k k' : κ) (v : ν) :
    (assocGet? (assocSet l k v) k').isSome = (decide (k' = k) || (assocGet? l k').isSome) := by
  rw [assocGet?_assocSet]
  by_cases e : k' = k <;> simp [e]

theorem isSome_assocErase {κ ν : Type} [DecidableEq κ] (l : List (κ × ν)) (k k' : κ) :
    (assocGet? (assocErase l k) k').isSome = (!decide (k' = k) && (assocGet? l k').isSome) := by
  rw [assocGet?_assocErase]
  by_cases e : k' = k <;> simp [e]

/-! ### the three primitive transformations -/

/-- replace the tour of a vehicle that has one -/
theorem lic_setTour {c : Core} (h : ListInvC c) (v : Veh) (t : Tour) (hv : (assocGet? c.tours v).isSome = true) :
    ListInvC { c with tours := assocSet c.tours v t } := by
  obtain ⟨old, hold⟩ := Option.isSome_iff_exists.mp hv
  refine ⟨?_, h.vehKeys, h.idKeys, ?_, ?_, h.typed, h.idsNodup, h.complete⟩
  · show ((assocSet c.tours v t).map (·.1)).Nodup
    rw [C09S.assocSet_keys_present _ _ old _ hold]; exact h.tourKeys
  · intro w; show (assocGet? c.vehicles w).isSome = (assocGet? (assocSet c.tours v t) w).isSome
    rw [isSome_assocSet, h.same w]
    by_cases e : w = v
    · subst e; simp [hv]
    · simp [e]
  · intro w hw
    have : (assocGet? (assocSet c.tours v t) w).isSome = true := hw
    rw [isSome_assocSet] at this
    by_cases e : w = v
    · subst e; exact h.fresh w hv
    · simp only [e, decide_false, Bool.false_or] at this; exact h.fresh w this

/-- the id counter may grow -/
theorem lic_counter {c : Core} (h : ListInvC c) (n : Nat) (hn : c.counter ≤ n) : ListInvC { c with counter := n } :=
  ⟨h.tourKeys, h.vehKeys, h.idKeys, h.same, fun v hv => ⟨(h.fresh v hv).1, Nat.lt_of_lt_of_le (h.fresh v hv).2 hn⟩,
   h.typed, h.idsNodup, h.complete⟩

/-- add a vehicle with the next free id -/
theorem lic_spawn {c : Core} (h : ListInvC c) (vt : Nat) (t : Tour) (l : List Veh)
    (hI : assocGet? c.ids vt = some l) :
    ListInvC { vehicles := assocSet c.vehicles (Veh.real c.counter) vt
               tours := assocSet c.tours (Veh.real c.counter) t
               ids := assocSet c.ids vt (insertSorted Veh.lt (Veh.real c.counter) l)
               counter := c.counter + 1 } := by
  have hTn : assocGet? c.tours (Veh.real c.counter) = none := by
    cases hg : assocGet? c.tours (Veh.real c.counter) with
    | none => rfl
    | some x =>
      have := (h.fresh (Veh.real c.counter) (by simp [hg])).2
      simp [Veh.real] at this
  have hVn : assocGet? c.vehicles (Veh.real c.counter) = none := by
    have := h.same (Veh.real c.counter)
    rw [hTn] at this
    cases hg : assocGet? c.vehicles (Veh.real c.counter) with
    | none => rfl
    | some x => rw [hg] at this; cases this
  have hvl : Veh.real c.counter ∉ l := by
    intro hm
    have := h.typed vt l hI _ hm
    rw [hVn] at this; cases this
  constructor
  · show ((assocSet c.tours (Veh.real c.counter) t).map (·.1)).Nodup
    rw [keys_assocSet_absent _ _ _ hTn, List.nodup_append]
    refine ⟨h.tourKeys, by simp, ?_⟩
    intro a ha b hb; simp at hb; subst hb
    intro e; subst e
    exact (assocGet?_eq_none_iff _ _).mp hTn ha
  · show ((assocSet c.vehicles (Veh.real c.counter) vt).map (·.1)).Nodup
    rw [keys_assocSet_absent _ _ _ hVn, List.nodup_append]
    refine ⟨h.vehKeys, by simp, ?_⟩
    intro a ha b hb; simp at hb; subst hb
    intro e; subst e
    exact (assocGet?_eq_none_iff _ _).mp hVn ha
  · show ((assocSet c.ids vt _).map (·.1)).Nodup
    rw [C09S.assocSet_keys_present _ _ l _ hI]; exact h.idKeys
  · intro w
    show (assocGet? (assocSet c.vehicles _ vt) w).isSome = (assocGet? (assocSet c.tours _ t) w).isSome
    rw [isSome_assocSet, isSome_assocSet, h.same w]
  · intro w hw
    have hw' : (assocGet? (assocSet c.tours (Veh.real c.counter) t) w).isSome = true := hw
    rw [isSome_assocSet] at hw'
    by_cases e : w = Veh.real c.counter
    · subst e; exact ⟨rfl, Nat.lt_succ_self _⟩
    · simp only [e, decide_false, Bool.false_or] at hw'
      exact ⟨(h.fresh w hw').1, Nat.lt_succ_of_lt (h.fresh w hw').2⟩
  · intro vt' l' hl' w hw
    have hl'' : assocGet? (assocSet c.ids vt (insertSorted Veh.lt (Veh.real c.counter) l)) vt' = some l' := hl'
    rw [assocGet?_assocSet] at hl''
    show assocGet? (assocSet c.vehicles (Veh.real c.counter) vt) w = some vt'
    rw [assocGet?_assocSet]
    by_cases e : vt' = vt
    · subst e
      simp only [↓reduceIte, Option.some.injEq] at hl''
      subst hl''
      rcases (mem_insertSorted _ _ _ _).mp hw with hwv | hwl
      · simp [hwv]
      · have := h.typed vt' l hI w hwl
        have hne : w ≠ Veh.real c.counter := fun e => by rw [e, hVn] at this; cases this
        simp [hne, this]
    · simp only [e, ↓reduceIte] at hl''
      have := h.typed vt' l' hl'' w hw
      have hne : w ≠ Veh.real c.counter := fun e => by rw [e, hVn] at this; cases this
      simp [hne, this]
  · intro vt' l' hl'
    have hl'' : assocGet? (assocSet c.ids vt (insertSorted Veh.lt (Veh.real c.counter) l)) vt' = some l' := hl'
    rw [assocGet?_assocSet] at hl''
    by_cases e : vt' = vt
    · subst e
      simp only [↓reduceIte, Option.some.injEq] at hl''
      subst hl''
      exact (insertSorted_perm _ _ _).nodup_iff.mpr (List.nodup_cons.mpr ⟨hvl, h.idsNodup vt' l hI⟩)
    · simp only [e, ↓reduceIte] at hl''; exact h.idsNodup vt' l' hl''
  · intro w vt' hw
    have hw' : assocGet? (assocSet c.vehicles (Veh.real c.counter) vt) w = some vt' := hw
    rw [assocGet?_assocSet] at hw'
    show ∃ l', assocGet? (assocSet c.ids vt (insertSorted Veh.lt (Veh.real c.counter) l)) vt' = some l' ∧ w ∈ l'
    by_cases e : w = Veh.real c.counter
    · subst e
      simp only [↓reduceIte, Option.some.injEq] at hw'
      subst hw'
      exact ⟨insertSorted Veh.lt (Veh.real c.counter) l, by rw [assocGet?_assocSet]; simp, (mem_insertSorted _ _ _ _).mpr (Or.inl rfl)⟩
    · simp only [e, ↓reduceIte] at hw'
      obtain ⟨l', hl', hm⟩ := h.complete w vt' hw'
      by_cases e2 : vt' = vt
      · subst e2
        rw [hI] at hl'; cases hl'
        exact ⟨insertSorted Veh.lt (Veh.real c.counter) l, by rw [assocGet?_assocSet]; simp, (mem_insertSorted _ _ _ _).mpr (Or.inr hm)⟩
      · exact ⟨l', by rw [assocGet?_assocSet]; simp [e2, hl'], hm⟩

/-- delete a vehicle (the counter is left alone; see `lic_counter`) -/
theorem lic_delete {c : Core} (h : ListInvC c) (v : Veh) (vt : Nat) (l : List Veh)
    (hV : assocGet? c.vehicles v = some vt) (hI : assocGet? c.ids vt = some l) :
    ListInvC { c with vehicles := assocErase c.vehicles v
                      tours := assocErase c.tours v
                      ids := assocSet c.ids vt (l.filter (· != v)) } := by
  constructor
  · exact assocErase_keys_nodup _ _ h.tourKeys
  · exact assocErase_keys_nodup _ _ h.vehKeys
  · show ((assocSet c.ids vt _).map (·.1)).Nodup
    rw [C09S.assocSet_keys_present _ _ l _ hI]; exact h.idKeys
  · intro w
    show (assocGet? (assocErase c.vehicles v) w).isSome = (assocGet? (assocErase c.tours v) w).isSome
    rw [isSome_assocErase, isSome_assocErase, h.same w]
  · intro w hw
    have hw' : (assocGet? (assocErase c.tours v) w).isSome = true := hw
    rw [isSome_assocErase] at hw'
    simp only [Bool.and_eq_true] at hw'
    exact h.fresh w hw'.2
  · intro vt' l' hl' w hw
    have hl'' : assocGet? (assocSet c.ids vt (l.filter (· != v))) vt' = some l' := hl'
    rw [assocGet?_assocSet] at hl''
    show assocGet? (assocErase c.vehicles v) w = some vt'
    rw [assocGet?_assocErase]
    by_cases e : vt' = vt
    · subst e
      simp only [↓reduceIte, Option.some.injEq] at hl''
      subst hl''
      simp only [List.mem_filter, bne_iff_ne, ne_eq] at hw
      simp [hw.2, h.typed vt' l hI w hw.1]
    · simp only [e, ↓reduceIte] at hl''
      have := h.typed vt' l' hl'' w hw
      have hne : w ≠ v := by
        intro e2; subst e2; rw [hV] at this; cases this; exact e rfl
      simp [hne, this]
  · intro vt' l' hl'
    have hl'' : assocGet? (assocSet c.ids vt (l.filter (· != v))) vt' = some l' := hl'
    rw [assocGet?_assocSet] at hl''
    by_cases e : vt' = vt
    · subst e
      simp only [↓reduceIte, Option.some.injEq] at hl''
      subst hl''
      exact (h.idsNodup vt' l hI).sublist List.filter_sublist
    · simp only [e, ↓reduceIte] at hl''; exact h.idsNodup vt' l' hl''
  · intro w vt' hw
    have hw' : assocGet? (assocErase c.vehicles v) w = some vt' := hw
    rw [assocGet?_assocErase] at hw'
    by_cases e : w = v
    · simp [e] at hw'
    · simp only [e, ↓reduceIte] at hw'
      obtain ⟨l', hl', hm⟩ := h.complete w vt' hw'
      show ∃ l'', assocGet? (assocSet c.ids vt (l.filter (· != v))) vt' = some l'' ∧ w ∈ l''
      by_cases e2 : vt' = vt
      · subst e2
        rw [hI] at hl'; cases hl'
        exact ⟨l.filter (· != v), by rw [assocGet?_assocSet]; simp, by simp [hm, e]⟩
      · exact ⟨l', by rw [assocGet?_assocSet]; simp [e2, hl'], hm⟩

/-! ### the public modifications -/
theorem idsInsert_ok {ids ids' : List (Nat × List Veh)} {vt : Nat} {v : Veh} (h : idsInsert ids vt v = .ok ids') :
    ∃ l, assocGet? ids vt = some l ∧ ids' = assocSet ids vt (insertSorted Veh.lt v l) := by
  unfold idsInsert at h
  obtain ⟨l, hl, h⟩ := bind_ok h
  simp only [pure, Except.pure, Except.ok.injEq] at h
  exact ⟨l, unwrapO_ok hl, h.symm⟩

theorem idsRemove_ok {ids ids' : List (Nat × List Veh)} {vt : Nat} {v : Veh} (h : idsRemove ids vt v = .ok ids') :
    ∃ l, assocGet? ids vt = some l ∧ ids' = assocSet ids vt (l.filter (· != v)) := by
  unfold idsRemove at h
  obtain ⟨l, hl, h⟩ := bind_ok h
  split at h
  · cases h
  · simp only [pure, Except.pure, Except.ok.injEq] at h
    exact ⟨l, unwrapO_ok hl, h.symm⟩

theorem empty_listInv (nw : Network) : ListInv (Schedule.empty nw) := by
  unfold ListInv coreOf Schedule.empty
  refine ⟨by simp, by simp, ?_, by intro v; rfl, ?_, ?_, ?_, ?_⟩
  · simp only [List.map_map]
    have : ((fun p : Nat × List Veh => p.1) ∘ fun vt => (vt, ([] : List Veh))) = id := rfl
    rw [this, List.map_id]; exact List.nodup_range
  · intro v hv; simp [assocGet?_nil] at hv
  · intro vt l hl v hv
    have := assocGet?_mem hl
    simp only [List.mem_map, Prod.mk.injEq] at this
    obtain ⟨_, _, _, rfl⟩ := this
    cases hv
  · intro vt l hl
    have := assocGet?_mem hl
    simp only [List.mem_map, Prod.mk.injEq] at this
    obtain ⟨_, _, _, rfl⟩ := this
    exact List.nodup_nil
  · intro v vt hv; simp [assocGet?_nil] at hv

theorem spawn_listInv {nw : Network} {s s' : Schedule} {vt : Nat} {path : List Nat} {v : Veh}
    (hi : ListInv s) (h : spawnVehicleForPath nw s vt path = .ok (s', v)) : ListInv s' := by
  unfold spawnVehicleForPath at h
  split at h
  · cases h
  · obtain ⟨nodes, _, h⟩ := bind_ok h
    dsimp only at h
    obtain ⟨tour, _, h⟩ := bind_ok h
    obtain ⟨ids, hids, h⟩ := bind_ok h
    obtain ⟨⟨forms, unserved⟩, _, h⟩ := bind_ok h
    dsimp only at h
    obtain ⟨usage, _, h⟩ := bind_ok h
    obtain ⟨⟨trans, viol⟩, _, h⟩ := bind_ok h
    simp only [pure, Except.pure, Except.ok.injEq, Prod.mk.injEq] at h
    obtain ⟨l, hl, rfl⟩ := idsInsert_ok hids
    rw [← h.1]
    exact lic_spawn hi vt tour l hl

theorem delete_listInv {nw : Network} {s s' : Schedule} {v : Veh}
    (hi : ListInv s) (h : replaceVehicleByDummy nw s v = .ok s') : ListInv s' := by
  unfold replaceVehicleByDummy at h
  inv_do h
  all_goals (try contradiction)
  all_goals (try (cases h))
  all_goals (try (simp only [pure, Except.pure, Except.ok.injEq] at *))
  all_goals (try subst_vars)
  all_goals (
    obtain ⟨l, hl, rfl⟩ := idsRemove_ok (by assumption)
    refine lic_counter (lic_delete hi v _ l (by assumption) hl) _ ?_
    dsimp only [coreOf]
    first | exact Nat.le_refl _ | exact Nat.le_succ _ | (split <;> first | exact Nat.le_refl _ | exact Nat.le_succ _))

theorem isSome_of_unwrapO {α} {o : Option α} {site : String} {a : α} (h : unwrapO o site = .ok a) : o.isSome = true := by
  rw [unwrapO_ok h]; rfl

def workCore (w : Work) (c : Nat) : Core := ⟨w.vehicles, w.tours, w.ids, c⟩

theorem updateTourAndCosts_core {s : Schedule} {c : Core} {dummyTours : Tours} {costs : Nat} {v : Veh} {t : Tour}
    {r : Tours × Tours × Nat} (hi : ListInvC c)
    (h : updateTourAndCosts s c.tours dummyTours costs v t = .ok r) : ListInvC { c with tours := r.1 } := by
  unfold updateTourAndCosts at h
  split at h
  · simp only [pure, Except.pure, Except.ok.injEq] at h; rw [← h]; exact hi
  · obtain ⟨old, hold, h⟩ := bind_ok h
    obtain ⟨c', _, h⟩ := bind_ok h
    simp only [pure, Except.pure, Except.ok.injEq] at h; rw [← h]
    exact lic_setTour hi v t (isSome_of_unwrapO hold)

theorem updateTours_listInv {nw : Network} {s : Schedule} {w' : Work} {provider : Option Veh} {newProv : Option Tour}
    {receiver : Veh} {newRecv : Tour} {moved : List Nat} (hi : ListInv s)
    (h : updateTours nw s (Work.ofSchedule s) provider newProv receiver newRecv moved = .ok w') :
    ListInvC (workCore w' s.counter) := by
  unfold updateTours at h
  inv_do h
  all_goals (try contradiction)
  all_goals (try (cases h))
  all_goals (try (simp only [pure, Except.pure, Except.ok.injEq] at *))
  all_goals (try subst_vars)
  all_goals (first
    | exact updateTourAndCosts_core (c := coreOf s) hi (by assumption)
    | exact updateTourAndCosts_core (c := { coreOf s with tours := _ })
        (updateTourAndCosts_core (c := coreOf s) hi (by assumption)) (by assumption)
    | (obtain ⟨l, hl, rfl⟩ := idsRemove_ok (by assumption)
       exact updateTourAndCosts_core (c := { coreOf s with vehicles := _, tours := _, ids := _ })
        (lic_delete (c := coreOf s) hi _ _ l (unwrapO_ok (by assumption)) hl) (by assumption))
    | trace_state)

theorem listInv_of_core {s' : Schedule} {c : Core} (h : ListInvC c) (e : coreOf s' = c) : ListInv s' := by
  unfold ListInv; rw [e]; exact h

theorem fit_listInv {nw : Network} {s s' : Schedule} {p r : Veh} {a b : Nat}
    (hi : ListInv s) (h : fitReassign nw s p r a b = .ok s') : ListInv s' := by
  unfold fitReassign at h
  inv_do h
  all_goals (try contradiction)
  all_goals (try (cases h))
  all_goals (first
    | exact listInv_of_core (updateTours_listInv hi (by assumption)) rfl
    | trace_state)

theorem override_listInv {nw : Network} {s s' : Schedule} {p r : Veh} {a b : Nat} {d : Option Veh}
    (hi : ListInv s) (h : overrideReassign nw s p r a b = .ok (s', d)) : ListInv s' := by
  unfold overrideReassign at h
  inv_do h
  all_goals (try contradiction)
  all_goals (try (cases h))
  all_goals (try (simp only [pure, Except.pure, Except.ok.injEq] at *))
  all_goals (try subst_vars)
  all_goals (try (exact listInv_of_core (updateTours_listInv hi (by assumption)) rfl))
  all_goals (
    have hw := updateTours_listInv hi (by assumption)
    exact listInv_of_core (lic_counter hw (s.counter + 1) (Nat.le_succ _)) rfl)

theorem deleteDummy_core {s s1 : Schedule} {d : Veh} (h : deleteDummy s d = .ok s1) : coreOf s1 = coreOf s := by
  unfold deleteDummy at h
  inv_do h
  all_goals (try (cases h))
  all_goals rfl

theorem dummySpawn_listInv {nw : Network} {s s' : Schedule} {d : Veh} {vt : Nat} {v : Veh}
    (hi : ListInv s) (h : spawnToReplaceDummy nw s d vt = .ok (s', v)) : ListInv s' := by
  unfold spawnToReplaceDummy at h
  inv_do h
  all_goals (try contradiction)
  all_goals (try (cases h))
  all_goals (first
    | exact spawn_listInv (by unfold ListInv; rw [deleteDummy_core (by assumption)]; exact hi) (by assumption)
    | trace_state)

theorem addPath_listInv {nw : Network} {s s' : Schedule} {v : Veh} {path : List Nat} {rm : Option (List Nat)}
    (hi : ListInv s) (h : addPathToVehicleTour nw s v path = .ok (s', rm)) : ListInv s' := by
  unfold addPathToVehicleTour at h
  inv_do h
  all_goals (try contradiction)
  all_goals (try (cases h))
  all_goals (first
    | exact listInv_of_core (lic_setTour (c := coreOf s) hi _ _ (isSome_of_unwrapO (by assumption))) rfl
    | trace_state)

theorem rmSeg_listInv {nw : Network} {s s' : Schedule} {v : Veh} {a b : Nat}
    (hi : ListInv s) (h : removeSegment nw s v a b = .ok s') : ListInv s' := by
  unfold removeSegment at h
  inv_do h
  all_goals (try contradiction)
  all_goals (try (cases h))
  all_goals (try (simp only [pure, Except.pure, Except.ok.injEq] at *))
  all_goals (try subst_vars)
  all_goals (first
    | exact delete_listInv hi (by assumption)
    | exact listInv_of_core (lic_counter (updateTourAndCosts_core (c := coreOf s) hi (by assumption)) s.counter (Nat.le_refl _)) rfl
    | exact listInv_of_core (lic_counter (updateTourAndCosts_core (c := coreOf s) hi (by assumption)) (s.counter + 1) (Nat.le_succ _)) rfl
    | trace_state)

/-! ### the three folds that re-choose depots -/
abbrev Acc := Tours × DepotUsage × Nat

theorem fold_setTours (s : Schedule) (c0 : Core) (F : Acc → Veh → R Acc) (L0 : List Veh)
    (hF : ∀ acc v acc', v ∈ L0 → F acc v = .ok acc' →
      ∃ nt, acc'.1 = assocSet acc.1 v nt ∧ (assocGet? s.tours v).isSome = true) :
    ∀ (L : List Veh) (acc acc' : Acc), (∀ v ∈ L, v ∈ L0) → ListInvC { c0 with tours := acc.1 } →
      (∀ w, (assocGet? acc.1 w).isSome = (assocGet? s.tours w).isSome) → L.foldlM F acc = .ok acc' →
      ListInvC { c0 with tours := acc'.1 }
  | [], acc, acc', _, hi, _, h => by
    simp only [List.foldlM_nil, pure, Except.pure, Except.ok.injEq] at h
    rw [← h]; exact hi
  | x :: xs, acc, acc', hL, hi, hk, h => by
    rw [List.foldlM_cons] at h
    obtain ⟨a1, h1, h⟩ := bind_ok h
    obtain ⟨nt, hset, hsome⟩ := hF acc x a1 (hL x (by simp)) h1
    have hx : (assocGet? acc.1 x).isSome = true := by rw [hk x]; exact hsome
    refine fold_setTours s c0 F L0 hF xs a1 acc' (fun v hv => hL v (by simp [hv])) ?_ ?_ h
    · rw [hset]; exact lic_setTour (c := { c0 with tours := acc.1 }) hi x nt hx
    · intro w; rw [hset, isSome_assocSet, hk w]
      by_cases e : w = x
      · subst e; simp [hsome]
      · simp [e]

theorem listed_hasTour {nw : Network} {s : Schedule} (hi : ListInv s) {v : Veh} (hv : v ∈ s.vehiclesAll nw) :
    (assocGet? s.tours v).isSome = true := by
  unfold Schedule.vehiclesAll at hv
  obtain ⟨vt, _, hm⟩ := List.mem_flatMap.mp hv
  unfold Schedule.vehiclesOfType at hm
  cases hg : assocGet? s.idsByType vt with
  | none => rw [hg] at hm; cases hm
  | some l =>
    rw [hg] at hm
    have := hi.typed vt l hg v hm
    have hs : (assocGet? s.vehicles v).isSome = (assocGet? s.tours v).isSome := hi.same v
    rw [← hs]
    have h2 : assocGet? s.vehicles v = some vt := this
    rw [h2]; rfl

theorem typed_hasTour {s : Schedule} (hi : ListInv s) {v : Veh} {vt : Nat} (h : s.typeOf? v = some vt) :
    (assocGet? s.tours v).isSome = true := by
  have hs : (assocGet? s.vehicles v).isSome = (assocGet? s.tours v).isSome := hi.same v
  rw [← hs]
  have : assocGet? s.vehicles v = some vt := h
  rw [this]; rfl

theorem endConsistent_listInv {nw : Network} {s s' : Schedule}
    (hi : ListInv s) (h : reassignEndDepotsConsistent nw s = .ok s') : ListInv s' := by
  have hunf : reassignEndDepotsConsistent nw s = (do
      let (tours, usage, costs) ← (s.vehiclesAll nw).foldlM (C05.endStep nw s) (s.tours, s.depotUsage, s.costs)
      let (trans, viol) ← updateTransitionsFast nw s s.vehicles tours (s.vehiclesAll nw) [] s.transitions s.violation
      pure { s with tours, transitions := trans, depotUsage := usage, violation := viol, costs }) := rfl
  rw [hunf] at h
  obtain ⟨⟨tours, usage, costs⟩, hfold, h⟩ := bind_ok h
  dsimp only at h
  obtain ⟨⟨trans, viol⟩, _, h⟩ := bind_ok h
  simp only [pure, Except.pure, Except.ok.injEq] at h
  rw [← h]
  have := fold_setTours s (coreOf s) (C05.endStep nw s) (s.vehiclesAll nw)
    (fun acc v acc' hv hstep => by
      obtain ⟨nt, _, hset⟩ := C05.endStep_ok hstep
      exact ⟨nt, hset, listed_hasTour hi hv⟩)
    (s.vehiclesAll nw) (s.tours, s.depotUsage, s.costs) (tours, usage, costs) (fun _ h => h) hi (fun _ => rfl) hfold
  exact listInv_of_core this rfl

theorem subNat_ok {a b c : Nat} {site : String} (h : Tour.subNat a b site = .ok c) : b ≤ a ∧ c = a - b := by
  unfold Tour.subNat at h
  split at h
  · simp only [pure, Except.pure, Except.ok.injEq] at h; exact ⟨by assumption, h.symm⟩
  · cases h

/-- the body of the second fold of `improve_depots` -/
def improveStep (nw : Network) (s : Schedule) (acc : Acc) (v : Veh) : R Acc := do
  let (tours, u, costs) := acc
  let t ← unwrapO (s.tourOf? v) "tour_of(vehicle_id).unwrap()"
  let vt ← unwrapO (s.typeOf? v) "vehicle_type_of(vehicle_id).unwrap()"
  let nt ← improveDepotsOfTour nw t vt u
  let c ← Tour.subNat (costs + nt.costs) t.costs "costs underflow"
  let sd ← Transition.startDepotU nw nt
  let ed ← Transition.endDepotU nw nt
  let u1 := usageModify u (nw.depotIdxOf sd) vt (fun p => (vehInsert p.1 v, p.2))
  let u2 := usageModify u1 (nw.depotIdxOf ed) vt (fun p => (p.1, vehInsert p.2 v))
  pure (assocSet tours v nt, u2, c)

theorem improveStep_ok {nw : Network} {s : Schedule} {acc acc' : Acc} {v : Veh}
    (h : improveStep nw s acc v = .ok acc') :
    ∃ nt t vt, acc'.1 = assocSet acc.1 v nt ∧ s.tourOf? v = some t ∧ s.typeOf? v = some vt ∧
      acc'.2.2 + t.costs = acc.2.2 + nt.costs := by
  obtain ⟨tours, u, costs⟩ := acc
  unfold improveStep at h
  dsimp only at h
  obtain ⟨t, ht, h⟩ := bind_ok h
  obtain ⟨vt, hvt, h⟩ := bind_ok h
  obtain ⟨nt, _, h⟩ := bind_ok h
  obtain ⟨c, hc, h⟩ := bind_ok h
  obtain ⟨sd, _, h⟩ := bind_ok h
  obtain ⟨ed, _, h⟩ := bind_ok h
  simp only [pure, Except.pure, Except.ok.injEq] at h
  subst h
  obtain ⟨hle, hceq⟩ := subNat_ok hc
  exact ⟨nt, t, vt, rfl, unwrapO_ok ht, unwrapO_ok hvt, by simp only; omega⟩

/-- the body of the fold of `reassign_end_depots_greedily` -/
def greedyStep (nw : Network) (s : Schedule) (acc : Acc) (v : Veh) : R Acc := do
  let (tours, u, costs) := acc
  let t ← unwrapO (s.tourOf? v) "tour_of(vehicle_id).unwrap()"
  let lnd ← unwrapO (t.lastNonDepot nw) "last_non_depot().unwrap()"
  let ne ← match (nw.endDepotsSortedByDistanceFrom (nw.node lnd).endLoc).head? with
    | some d => pure d
    | none => .error (.err "Cannot find end depot for vehicle.")
  let nt ← unwrapR (t.replaceEndDepot nw ne) "replace_end_depot(..).unwrap()"
  let c ← Tour.subNat (costs + nt.costs) t.costs "costs underflow"
  let tours' := assocSet tours v nt
  let u' ← updateDepotUsage nw s u s.vehicles tours' v
  pure (tours', u', c)

theorem greedyStep_ok {nw : Network} {s : Schedule} {acc acc' : Acc} {v : Veh}
    (h : greedyStep nw s acc v = .ok acc') :
    ∃ nt t, acc'.1 = assocSet acc.1 v nt ∧ s.tourOf? v = some t ∧ acc'.2.2 + t.costs = acc.2.2 + nt.costs := by
  obtain ⟨tours, u, costs⟩ := acc
  unfold greedyStep at h
  dsimp only at h
  obtain ⟨t, ht, h⟩ := bind_ok h
  obtain ⟨lnd, _, h⟩ := bind_ok h
  split at h
  · obtain ⟨ne, _, h⟩ := bind_ok h
    obtain ⟨nt, _, h⟩ := bind_ok h
    obtain ⟨c, hc, h⟩ := bind_ok h
    obtain ⟨u', _, h⟩ := bind_ok h
    simp only [pure, Except.pure, Except.ok.injEq] at h
    subst h
    obtain ⟨hle, hceq⟩ := subNat_ok hc
    exact ⟨nt, t, rfl, unwrapO_ok ht, by simp only; omega⟩
  · simp [bind, Except.bind] at h

theorem endGreedy_listInv {nw : Network} {s s' : Schedule}
    (hi : ListInv s) (h : reassignEndDepotsGreedily nw s = .ok s') : ListInv s' := by
  have hunf : reassignEndDepotsGreedily nw s = (do
      let (tours, usage, costs) ← (s.vehiclesAll nw).foldlM (greedyStep nw s) (s.tours, s.depotUsage, s.costs)
      let (trans, viol) ← recomputeTransitions nw s.idsByType tours nw.typeIdxs s.transitions s.violation
      pure { s with tours, transitions := trans, depotUsage := usage, violation := viol, costs }) := rfl
  rw [hunf] at h
  obtain ⟨⟨tours, usage, costs⟩, hfold, h⟩ := bind_ok h
  dsimp only at h
  obtain ⟨⟨trans, viol⟩, _, h⟩ := bind_ok h
  simp only [pure, Except.pure, Except.ok.injEq] at h
  rw [← h]
  have := fold_setTours s (coreOf s) (greedyStep nw s) (s.vehiclesAll nw)
    (fun acc v acc' hv hstep => by
      obtain ⟨nt, _, hset, _, _⟩ := greedyStep_ok hstep
      exact ⟨nt, hset, listed_hasTour hi hv⟩)
    (s.vehiclesAll nw) (s.tours, s.depotUsage, s.costs) (tours, usage, costs) (fun _ h => h) hi (fun _ => rfl) hfold
  exact listInv_of_core this rfl

theorem improve_listInv {nw : Network} {s s' : Schedule} {vs : Option (List Veh)}
    (hi : ListInv s) (h : improveDepots nw s vs = .ok s') : ListInv s' := by
  unfold improveDepots at h
  dsimp only at h
  obtain ⟨usage0, _, h⟩ := bind_ok h
  have hstep : ∀ (u0 : DepotUsage) (r : Acc),
      (vs.getD (s.vehiclesAll nw)).foldlM (improveStep nw s) (s.tours, u0, s.costs) = .ok r →
      ListInvC { coreOf s with tours := r.1 } := by
    intro u0 r hfold
    exact fold_setTours s (coreOf s) (improveStep nw s) (vs.getD (s.vehiclesAll nw))
      (fun acc v acc' _ hst => by
        obtain ⟨nt, t, vt, hset, _, hvt, _⟩ := improveStep_ok hst
        exact ⟨nt, hset, typed_hasTour hi hvt⟩)
      _ (s.tours, u0, s.costs) r (fun _ h => h) hi (fun _ => rfl) hfold
  obtain ⟨⟨tours, usage, costs⟩, hfold, h⟩ := bind_ok h
  have hc := hstep usage0 (tours, usage, costs) hfold
  inv_do h
  all_goals (try contradiction)
  all_goals (try (cases h))
  all_goals exact listInv_of_core hc rfl

theorem recompute_listInv {nw : Network} {s s' : Schedule} {vts : Option (List Nat)}
    (hi : ListInv s) (h : recomputeTransitionsFor nw s vts = .ok s') : ListInv s' := by
  unfold recomputeTransitionsFor at h
  inv_do h
  all_goals (try contradiction)
  all_goals (try (cases h))
  all_goals exact hi

/-- **C10 (listing clause), one step** -/
theorem C10_listing_step (nw : Network) (s : Schedule) (op : Spec.SOp) (r : OpResult)
    (hi : ListInv s) (h : applyOp nw s op = .ok r) : ListInv r.sched := by
  unfold applyOp at h
  cases op with
  | init =>
    simp only [pure, Except.pure, Except.ok.injEq] at h
    rw [← h]; exact empty_listInv nw
  | spawn vt path =>
    obtain ⟨⟨s', v⟩, hs, h⟩ := bind_ok h
    simp only [pure, Except.pure, Except.ok.injEq] at h
    rw [← h]; exact spawn_listInv hi hs
  | dummySpawn d vt =>
    obtain ⟨⟨s', v⟩, hs, h⟩ := bind_ok h
    simp only [pure, Except.pure, Except.ok.injEq] at h
    rw [← h]; exact dummySpawn_listInv hi hs
  | delete v =>
    obtain ⟨s', hs, h⟩ := bind_ok h
    simp only [pure, Except.pure, Except.ok.injEq] at h
    rw [← h]; exact delete_listInv hi hs
  | addPath v path =>
    dsimp only at h
    split at h
    · obtain ⟨⟨s', rm⟩, hs, h⟩ := bind_ok h
      simp only [pure, Except.pure, Except.ok.injEq] at h
      rw [← h]; exact addPath_listInv hi hs
    · cases h
  | rmSeg v a b =>
    obtain ⟨s', hs, h⟩ := bind_ok h
    simp only [pure, Except.pure, Except.ok.injEq] at h
    rw [← h]; exact rmSeg_listInv hi hs
  | fit p r a b =>
    obtain ⟨s', hs, h⟩ := bind_ok h
    simp only [pure, Except.pure, Except.ok.injEq] at h
    rw [← h]; exact fit_listInv hi hs
  | override p r a b =>
    obtain ⟨⟨s', d⟩, hs, h⟩ := bind_ok h
    simp only [pure, Except.pure, Except.ok.injEq] at h
    rw [← h]; exact override_listInv hi hs
  | improve vs =>
    obtain ⟨s', hs, h⟩ := bind_ok h
    simp only [pure, Except.pure, Except.ok.injEq] at h
    rw [← h]; exact improve_listInv hi hs
  | endGreedy =>
    obtain ⟨s', hs, h⟩ := bind_ok h
    simp only [pure, Except.pure, Except.ok.injEq] at h
    rw [← h]; exact endGreedy_listInv hi hs
  | recompute vts =>
    obtain ⟨s', hs, h⟩ := bind_ok h
    simp only [pure, Except.pure, Except.ok.injEq] at h
    rw [← h]; exact recompute_listInv hi hs
  | endConsistent =>
    obtain ⟨s', hs, h⟩ := bind_ok h
    simp only [pure, Except.pure, Except.ok.injEq] at h
    rw [← h]; exact endConsistent_listInv hi hs
  | setTrans vt v ci =>
    obtain ⟨tr, _, h⟩ := bind_ok h
    obtain ⟨moved, _, h⟩ := bind_ok h
    simp only [pure, Except.pure, Except.ok.injEq] at h
    rw [← h]; exact hi

/-- **C10 (listing clause), every history**: in every schedule the model reaches from the empty
    schedule by public modifications, vehicles and tours have the same duplicate-free keys (real ids
    below the counter) and the per-type id lists are duplicate-free, correctly typed and complete -/
theorem C10_listing_reachable (nw : Network) : ∀ (ops : List Spec.SOp) (s s' : Schedule),
    ListInv s → runOps nw s ops = some s' → ListInv s'
  | [], s, s', hi, h => by simp only [runOps, Option.some.injEq] at h; rw [← h]; exact hi
  | op :: rest, s, s', hi, h => by
    unfold runOps at h
    split at h
    · rename_i r hr
      exact C10_listing_reachable nw rest r.sched s' (C10_listing_step nw s op r hi hr) h
    · cases h

theorem C10_listing_from_empty (nw : Network) (ops : List Spec.SOp) (s' : Schedule)
    (h : runOps nw (Schedule.empty nw) ops = some s') : ListInv s' :=
  C10_listing_reachable nw ops _ s' (empty_listInv nw) h

end RSSched.C10L
