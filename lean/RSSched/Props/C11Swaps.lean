/-
Props/C11Swaps: every local-search swap is a finite composition of public schedule modifications
(C11, for the model, all schedules and all swap arguments). `Swap::apply` of the four swaps
(`AddTripForHitchHiking`, `RemoveSingleNode`, `SpawnVehicleForMaintenance`, `PathExchange`, each
followed by `improve_depot_and_recompute_transitions`) returns, whenever it returns a candidate, a
schedule that `runOps` reaches from the base by an explicit list of public modifications. Hence
every invariant proved "for every history of public modifications" (`…_reachable` theorems of
C02Limits, C10Listing, C10Tours, C09Sched, C09Costs) holds for every candidate of the
neighbourhood, for every schedule the search loop visits and for its result.
-/
import RSSched.Model.Solve
import RSSched.Props.C02Limits
import RSSched.Props.C10Tours
import RSSched.Props.C09Sched
namespace RSSched.C11S
open RSSched Schedule Swaps C02 Spec C15

/-! ### running operation lists -/

theorem runOps_append (nw : Network) : ∀ (a b : List SOp) (s : Schedule),
    runOps nw s (a ++ b) = (runOps nw s a).bind (fun s1 => runOps nw s1 b)
  | [], b, s => by simp [runOps]
  | op :: rest, b, s => by
    simp only [List.cons_append, runOps]
    split
    · exact runOps_append nw rest b _
    · rfl

theorem runOps_trans {nw : Network} {a b : List SOp} {s s1 s2 : Schedule}
    (h1 : runOps nw s a = some s1) (h2 : runOps nw s1 b = some s2) : runOps nw s (a ++ b) = some s2 := by
  rw [runOps_append, h1]; exact h2

theorem runOps_one {nw : Network} {s : Schedule} {op : SOp} {r : OpResult}
    (h : applyOp nw s op = .ok r) : runOps nw s [op] = some r.sched := by
  simp [runOps, h]

/-- "reachable from `s` by public modifications" -/
def Reaches (nw : Network) (s c : Schedule) : Prop := ∃ ops, runOps nw s ops = some c

theorem Reaches.refl (nw : Network) (s : Schedule) : Reaches nw s s := ⟨[], rfl⟩

theorem Reaches.trans {nw : Network} {a b c : Schedule} (h1 : Reaches nw a b) (h2 : Reaches nw b c) :
    Reaches nw a c := by
  obtain ⟨o1, e1⟩ := h1
  obtain ⟨o2, e2⟩ := h2
  exact ⟨o1 ++ o2, runOps_trans e1 e2⟩

theorem Reaches.of_op {nw : Network} {s : Schedule} {op : SOp} {r : OpResult}
    (h : applyOp nw s op = .ok r) : Reaches nw s r.sched := ⟨[op], runOps_one h⟩

/-! ### the public modifications the swaps call, as operations -/

theorem reach_improve {nw : Network} {s s' : Schedule} {vs : Option (List Veh)}
    (h : improveDepots nw s vs = .ok s') : Reaches nw s s' := by
  have : applyOp nw s (.improve vs) = .ok { sched := s' } := by simp [applyOp, h, bind, Except.bind, pure, Except.pure]
  exact Reaches.of_op this

theorem reach_recompute {nw : Network} {s s' : Schedule} {vts : Option (List Nat)}
    (h : recomputeTransitionsFor nw s vts = .ok s') : Reaches nw s s' := by
  have : applyOp nw s (.recompute vts) = .ok { sched := s' } := by simp [applyOp, h, bind, Except.bind, pure, Except.pure]
  exact Reaches.of_op this

theorem reach_rmSeg {nw : Network} {s s' : Schedule} {v : Veh} {a b : Nat}
    (h : removeSegment nw s v a b = .ok s') : Reaches nw s s' := by
  have : applyOp nw s (.rmSeg v a b) = .ok { sched := s' } := by simp [applyOp, h, bind, Except.bind, pure, Except.pure]
  exact Reaches.of_op this

theorem reach_spawn {nw : Network} {s s' : Schedule} {vt : Nat} {path : List Nat} {v : Veh}
    (h : spawnVehicleForPath nw s vt path = .ok (s', v)) : Reaches nw s s' := by
  have : applyOp nw s (.spawn vt path) = .ok { sched := s', retVeh := some v } := by
    simp [applyOp, h, bind, Except.bind, pure, Except.pure]
  exact Reaches.of_op this

theorem reach_dummySpawn {nw : Network} {s s' : Schedule} {d : Veh} {vt : Nat} {v : Veh}
    (h : spawnToReplaceDummy nw s d vt = .ok (s', v)) : Reaches nw s s' := by
  have : applyOp nw s (.dummySpawn d vt) = .ok { sched := s', retVeh := some v } := by
    simp [applyOp, h, bind, Except.bind, pure, Except.pure]
  exact Reaches.of_op this

theorem reach_fit {nw : Network} {s s' : Schedule} {p r : Veh} {a b : Nat}
    (h : fitReassign nw s p r a b = .ok s') : Reaches nw s s' := by
  have : applyOp nw s (.fit p r a b) = .ok { sched := s' } := by simp [applyOp, h, bind, Except.bind, pure, Except.pure]
  exact Reaches.of_op this

theorem reach_override {nw : Network} {s s' : Schedule} {p r : Veh} {a b : Nat} {d : Option Veh}
    (h : overrideReassign nw s p r a b = .ok (s', d)) : Reaches nw s s' := by
  have : applyOp nw s (.override p r a b) = .ok { sched := s', retDummy := d } := by
    simp [applyOp, h, bind, Except.bind, pure, Except.pure]
  exact Reaches.of_op this

/-- `Path::new_from_single_node`: one activity is a path -/
theorem pathNew_single (nw : Network) (n : Nat) (hn : (nw.node n).isDepot = false) :
    Tour.pathNew nw [n] = .ok (some [n]) := by
  simp [Tour.pathNew, pairs, Tour.pathTrusted, hn, pure, Except.pure]

theorem reach_addSingle {nw : Network} {s s' : Schedule} {v : Veh} {n : Nat} {rm : Option (List Nat)}
    (hn : (nw.node n).isDepot = false) (h : addPathToVehicleTour nw s v [n] = .ok (s', rm)) : Reaches nw s s' := by
  have : applyOp nw s (.addPath v [n]) = .ok { sched := s', retPath := rm } := by
    simp [applyOp, pathNew_single nw n hn, h, bind, Except.bind, pure, Except.pure]
  exact Reaches.of_op this

/-! ### the swaps -/

/-- `improve_depot_and_recompute_transitions` = `improve_depots(Some(changed))` then
    `recompute_transitions_for(Some(types))` -/
theorem reach_improveDepotAndRecompute {nw : Network} {s c : Schedule} {changed : List Veh}
    (h : improveDepotAndRecompute nw s changed = .ok c) : Reaches nw s c := by
  unfold improveDepotAndRecompute at h
  obtain ⟨types, _, h⟩ := bind_ok h
  obtain ⟨s1, h1, h⟩ := bind_ok h
  exact (reach_improve h1).trans (reach_recompute h)

/-- chain the executed calls of an inverted `do`-block into a `Reaches` proof -/
syntax "reach_step" : tactic
macro_rules
  | `(tactic| reach_step) => `(tactic|
    first
      | exact Reaches.refl _ _
      | exact reach_improveDepotAndRecompute (by assumption)
      | refine Reaches.trans (reach_rmSeg (by assumption)) ?_
      | refine Reaches.trans (reach_addSingle (by assumption) (by assumption)) ?_
      | refine Reaches.trans (reach_spawn (by assumption)) ?_
      | refine Reaches.trans (reach_dummySpawn (by assumption)) ?_
      | refine Reaches.trans (reach_override (by assumption)) ?_
      | refine Reaches.trans (reach_fit (by assumption)) ?_)

syntax "reach_close " ident : tactic
macro_rules
  | `(tactic| reach_close $h:ident) => `(tactic|
    (inv_do $h
     all_goals (try contradiction)
     all_goals (try (cases $h:ident; done))
     all_goals (simp only [pure, Except.pure, Except.ok.injEq, Bool.not_eq_true] at *)
     all_goals (subst_vars)
     all_goals (repeat reach_step)))

theorem reach_hitchHiking {nw : Network} {s c : Schedule} {node : Nat} {v : Veh}
    (h : hitchHiking nw s node v = .ok c) : Reaches nw s c := by
  unfold hitchHiking at h
  reach_close h

theorem reach_removeSingleNode {nw : Network} {s c : Schedule} {node : Nat} {v : Veh}
    (h : removeSingleNode nw s node v = .ok c) : Reaches nw s c := reach_rmSeg h

theorem reach_spawnForMaintenance {nw : Network} {s c : Schedule} {slot : Nat} {v : Veh}
    (h : spawnForMaintenance nw s slot v = .ok c) : Reaches nw s c := by
  unfold spawnForMaintenance at h
  reach_close h

theorem reach_pathExchange {nw : Network} {s c : Schedule} {a b : Nat} {p r : Veh}
    (h : pathExchange nw s a b p r = .ok c) : Reaches nw s c := by
  unfold pathExchange at h
  reach_close h

/-! ### the neighbourhood -/

theorem mem_mapMR {α β} {f : α → R β} : ∀ {l : List α} {out : List β}, Tour.mapMR f l = .ok out →
    ∀ y ∈ out, ∃ x ∈ l, f x = .ok y
  | [], out, h, y, hy => by
    simp only [Tour.mapMR, pure, Except.pure, Except.ok.injEq] at h; subst h; cases hy
  | x :: xs, out, h, y, hy => by
    unfold Tour.mapMR at h
    obtain ⟨y0, hy0, h⟩ := bind_ok h
    obtain ⟨ys, hys, h⟩ := bind_ok h
    simp only [pure, Except.pure, Except.ok.injEq] at h
    subst h
    rcases List.mem_cons.mp hy with e | hm
    · subst e; exact ⟨x, by simp, hy0⟩
    · obtain ⟨x', hx', e⟩ := mem_mapMR hys y hm
      exact ⟨x', by simp [hx'], e⟩

theorem okOnly_mem {r : R Schedule} {text : String} {info : SwapInfo} {cs : List Candidate} {c : Candidate}
    (h : okOnly r text info = .ok cs) (hc : c ∈ cs) : r = .ok c.sched := by
  unfold okOnly at h
  split at h
  · simp only [pure, Except.pure, Except.ok.injEq] at h
    subst h
    simp only [List.mem_singleton] at hc
    subst hc; rfl
  · simp only [pure, Except.pure, Except.ok.injEq] at h; subst h; cases hc
  · cases h

/-- **C11 (composition)**: every candidate the neighbourhood enumerates — whatever the base
    schedule, the segment limits and the previous swap — is reached from the base by a finite
    sequence of public modifications -/
theorem neighbors_reach {nw : Network} {limit threshold : Option Nat} {s : Schedule} {last : SwapInfo}
    {cands : List Candidate} (h : neighborsOf nw limit threshold s last = .ok cands) :
    ∀ c ∈ cands, Reaches nw s c.sched := by
  unfold neighborsOf at h
  dsimp only at h
  obtain ⟨c1, h1, h⟩ := bind_ok h
  obtain ⟨c2, h2, h⟩ := bind_ok h
  obtain ⟨c3, h3, h⟩ := bind_ok h
  obtain ⟨c4, h4, h⟩ := bind_ok h
  simp only [pure, Except.pure, Except.ok.injEq] at h
  subst h
  intro c hc
  simp only [List.mem_append, List.mem_flatten] at hc
  rcases hc with ((hc | hc) | hc) | hc
  · obtain ⟨l1, ⟨l0, hl0, hl1⟩, hc⟩ := hc
    obtain ⟨m, _, e0⟩ := mem_mapMR h1 l0 hl0
    obtain ⟨v, _, e1⟩ := mem_mapMR e0 l1 hl1
    exact reach_spawnForMaintenance (okOnly_mem e1 hc)
  · obtain ⟨l2, ⟨l1, ⟨l0, hl0, hl1⟩, hl2⟩, hc⟩ := hc
    obtain ⟨p, _, e0⟩ := mem_mapMR h2 l0 hl0
    obtain ⟨segs, _, e0⟩ := bind_ok e0
    obtain ⟨⟨a, b⟩, _, e1⟩ := mem_mapMR e0 l1 hl1
    obtain ⟨r, _, e2⟩ := mem_mapMR e1 l2 hl2
    exact reach_pathExchange (okOnly_mem e2 hc)
  · obtain ⟨l1, ⟨l0, hl0, hl1⟩, hc⟩ := hc
    obtain ⟨v, _, e0⟩ := mem_mapMR h3 l0 hl0
    obtain ⟨vt, _, e0⟩ := bind_ok e0
    obtain ⟨n, _, e1⟩ := mem_mapMR e0 l1 hl1
    exact reach_hitchHiking (okOnly_mem e1 hc)
  · obtain ⟨l1, ⟨l0, hl0, hl1⟩, hc⟩ := hc
    obtain ⟨v, _, e0⟩ := mem_mapMR h4 l0 hl0
    obtain ⟨t, _, e0⟩ := bind_ok e0
    obtain ⟨n, _, e1⟩ := mem_mapMR e0 l1 hl1
    exact reach_removeSingleNode (okOnly_mem e1 hc)

/-! ### the search loop -/

theorem nbrs_reach {nw : Network} {limit threshold : Option Nat} {s c : Schedule}
    (hc : c ∈ Solve.nbrs nw limit threshold s) : Reaches nw s c := by
  unfold Solve.nbrs at hc
  split at hc
  · rename_i cs hcs
    obtain ⟨cand, hm, e⟩ := List.mem_map.mp hc
    rw [← e]; exact neighbors_reach hcs cand hm
  · cases hc

theorem foldl_mem {σ} (p : σ → σ → Bool) : ∀ (cs : List σ) (c : σ),
    cs.foldl (fun b x => if p x b then x else b) c ∈ c :: cs
  | [], c => by simp
  | x :: xs, c => by
    simp only [List.foldl_cons]
    have := foldl_mem p xs (if p x c then x else c)
    rcases List.mem_cons.mp this with e | hm
    · rw [e]; split <;> simp
    · simp [hm]

theorem improve_mem {σ} (obj : σ → Obj) (nb : σ → List σ) (s s' : σ) (h : improve obj nb s = some s') :
    s' ∈ nb s := by
  unfold improve at h
  split at h
  · cases h
  · rename_i c cs hnb
    dsimp only at h
    split at h
    · simp only [Option.some.injEq] at h
      rw [← h, hnb]
      have := foldl_mem (fun x b => decide (Obj.lt (obj x) (obj b))) cs c
      simpa using this
    · cases h

/-- **C11 / C08 (every visited schedule)**: whatever the fuel, the schedule the local search
    returns — and every schedule it accepts on the way — is reached from the start schedule by a
    finite sequence of public modifications -/
theorem search_reach (nw : Network) (limit threshold : Option Nat) :
    ∀ (fuel : Nat) (s : Schedule),
    Reaches nw s (searchFuel Schedule.objective (Solve.nbrs nw limit threshold) fuel s).1
  | 0, s => Reaches.refl nw s
  | fuel + 1, s => by
    unfold searchFuel
    split
    · exact Reaches.refl nw s
    · rename_i s' hs'
      exact (nbrs_reach (improve_mem _ _ s s' hs')).trans (search_reach nw limit threshold fuel s')

/-! ### consequences: the invariants of "every history" hold for candidates and search results -/

theorem limits_of_reaches {nw : Network} {s c : Schedule} (hl : FormLimits nw s.formations)
    (h : Reaches nw s c) : FormLimits nw c.formations := by
  obtain ⟨ops, e⟩ := h
  exact C02_limits_reachable nw ops s c hl e

theorem tinv_of_reaches {nw : Network} (hdt : C17.DepotTimes nw) (hw : NodesWF' nw) {s c : Schedule}
    (hi : C10S.TInv nw s) (h : Reaches nw s c) : C10S.TInv nw c := by
  obtain ⟨ops, e⟩ := h
  exact C10S.C10_tours_reachable nw hdt hw ops s c hi e

theorem viol_of_reaches {nw : Network} {s c : Schedule} (hv : C09S.ViolExact s.transitions s.violation)
    (h : Reaches nw s c) : C09S.ViolExact c.transitions c.violation := by
  obtain ⟨ops, e⟩ := h
  exact C09S.C09_violation_reachable nw ops s c hv e

/-- **C11 (candidates valid), C02/C10/C01 at search level**: start the local search from any
    schedule the public modifications can build from the empty schedule (the start solution is one:
    `from_tours` spawns, `improve_depots`); then every candidate of every neighbourhood the search
    evaluates, and the search result for every fuel, has all formations within
    min(type limit, segment limit) / track counts, the listing invariant, dummy tours keyed by dummy
    ids, every real tour a connectable depot-to-depot chain, and the cached maintenance violation
    equal to the sum of the per-type totals -/
theorem C11_candidates_valid (nw : Network) (hdt : C17.DepotTimes nw) (hw : NodesWF' nw)
    (limit threshold : Option Nat) (ops : List SOp) (start : Schedule)
    (hstart : runOps nw (Schedule.empty nw) ops = some start) (fuel : Nat) :
    let result := (searchFuel Schedule.objective (Solve.nbrs nw limit threshold) fuel start).1
    (FormLimits nw result.formations ∧ C10S.TInv nw result ∧ C09S.ViolExact result.transitions result.violation) ∧
    ∀ c ∈ Solve.nbrs nw limit threshold result,
      FormLimits nw c.formations ∧ C10S.TInv nw c ∧ C09S.ViolExact c.transitions c.violation := by
  intro result
  have hr : Reaches nw (Schedule.empty nw) result := Reaches.trans ⟨ops, hstart⟩ (search_reach nw limit threshold fuel start)
  have all : ∀ c, Reaches nw (Schedule.empty nw) c →
      FormLimits nw c.formations ∧ C10S.TInv nw c ∧ C09S.ViolExact c.transitions c.violation := by
    intro c ⟨o, e⟩
    exact ⟨C02_limits_from_empty nw o c e, C10S.C10_tours_from_empty nw hdt hw o c e,
      C09S.C09_violation_from_empty nw o c e⟩
  exact ⟨all result hr, fun c hc => all c (hr.trans (nbrs_reach hc))⟩

end RSSched.C11S
