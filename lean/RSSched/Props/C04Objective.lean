/-
Props/C04Objective: the objective value a schedule reports equals the value computed from nothing but
its tours, formations and cycle membership — for every schedule the model reaches by public
modifications, every candidate of the search and every stage of the pipeline with the modelled
transition optimiser. Combines the exact unserved figure (Props/C09Unserved), the exact costs
(Props/C09CostsAll) with exact per-tour caches (Props/C09TourCaches) and the exact maintenance
violation (Props/C10Cycles, Props/C15Optimise).
-/
import RSSched.Props.C15Optimise
import RSSched.Props.C09TourCaches
namespace RSSched.C04O
open RSSched Schedule Network Spec C15 C15N C10Cyc C10F C15Opt C09C

/-- all invariants of Props/C10Cycles plus "every real tour has exact caches" -/
structure InvO (nw : Network) (s : Schedule) : Prop where
  base : InvC nw s
  tours : C09T.TInv nw s

theorem stepInv0_obj {nw : Network} (hn : NetHyp nw) (hovf : C10Lim.OvfNode nw) : C11A.StepInv0 nw (InvO nw) where
  step := fun s op r hinv hargs h =>
    ⟨(stepInv0_cycles hn hovf).step s op r hinv.base hargs h, C09T.C10_tours_step nw hn.dt hn.wf s op r hinv.tours h⟩
  fresh := fun s p pt hinv hpt => (stepInv0_cycles hn hovf).fresh s p pt hinv.base hpt
  empty := ⟨(stepInv0_cycles hn hovf).empty,
    ⟨C10L.empty_listInv nw, by intro d hd; simp [Schedule.empty, assocGet?_nil] at hd,
     by intro v t hv; simp [Schedule.empty, assocGet?_nil] at hv⟩⟩

/-- the costs computed from the node lists of the tours -/
def trueCosts (nw : Network) (s : Schedule) : Nat :=
  sumNat (s.tours.map (fun p => nw.costsOf p.2.nodes)) + nw.numberOfServiceNodes * nw.cStaff

theorem sumNat_congr {α : Type} (l : List α) (f g : α → Nat) (h : ∀ x ∈ l, f x = g x) :
    sumNat (l.map f) = sumNat (l.map g) := by
  induction l with
  | nil => rfl
  | cons a as ih =>
    simp only [List.map_cons, sumNat, List.foldr_cons] at ih ⊢
    rw [h a (by simp), ih (fun x hx => h x (by simp [hx]))]

/-- **C04 / C09 (reported objective = true value)**: under the invariants, on networks satisfying the
    decidable hypotheses of the cache theorems, each level of the objective is the from-scratch value:
    unserved passengers = Σ shortfalls of the formations, maintenance violation = Σ positive parts of
    the from-scratch cycle counters, costs = Σ from-scratch tour costs + staff term -/
theorem objective_true {nw : Network} (h9 : C09T.Net9 nw) {s : Schedule} (hinv : InvO nw s) :
    s.unserved = C09U.sumU nw s.typeOf? s.formations ∧
    s.violation = trueViolation nw s ∧
    s.costs = trueCosts nw s := by
  refine ⟨hinv.base.base.base.all.fu.uexact, violation_true hinv.base, ?_⟩
  have hcost : s.costs = sumCost s.tours + staffTerm nw := hinv.base.base.base.all.cost
  rw [hcost]
  unfold trueCosts sumCost staffTerm
  congr 1
  refine sumNat_congr _ _ _ (fun p hp => ?_)
  have hkeys : (s.tours.map (·.1)).Nodup := hinv.tours.listing.tourKeys
  have hg : assocGet? s.tours p.1 = some p.2 := assocGet?_of_mem hkeys (by simpa using hp)
  exact ((hinv.tours.tours p.1 p.2 hg).caches h9).co

/-- … at every stage of the pipeline with the modelled transition optimiser -/
theorem C04_pipeline_objective (nw : Network) (hn : NetHyp nw) (hovf : C10Lim.OvfNode nw)
    (o : Solve.Oracle) (p : Pick) (fuel : Nat) (ho : o.optimise = optimise nw p fuel) (tr : Solve.Trace)
    (h : Solve.solve nw o = .ok tr) :
    InvO nw tr.start ∧ InvO nw tr.afterSearch ∧ InvO nw tr.final := by
  refine C11A.solve_inv0 (stepInv0_obj hn hovf) o (fun s hs => ?_) tr h
  rw [ho]
  refine ⟨⟨(C10Lim.stepInv_limits hn hovf).setT s _ ?_ hs.base.base, optimise_cyc p fuel hs.base.cycles⟩,
    ⟨hs.tours.listing, hs.tours.dummies, hs.tours.tours⟩⟩
  rw [optimise_keys]
  exact hs.base.base.base.all.viol.1

/-- the returned schedule reports its true objective -/
theorem C04_final_objective (nw : Network) (hn : NetHyp nw) (hovf : C10Lim.OvfNode nw) (h9 : C09T.Net9 nw)
    (o : Solve.Oracle) (p : Pick) (fuel : Nat) (ho : o.optimise = optimise nw p fuel) (tr : Solve.Trace)
    (h : Solve.solve nw o = .ok tr) :
    tr.final.unserved = C09U.sumU nw tr.final.typeOf? tr.final.formations ∧
    tr.final.violation = trueViolation nw tr.final ∧ tr.final.costs = trueCosts nw tr.final :=
  objective_true h9 (C04_pipeline_objective nw hn hovf o p fuel ho tr h).2.2

/-- … and so does every candidate the local search evaluates -/
theorem C11_candidates_objective (nw : Network) (hn : NetHyp nw) (hovf : C10Lim.OvfNode nw) (h9 : C09T.Net9 nw)
    {limit threshold : Option Nat} {s : Schedule} {last : SwapInfo} {cands : List Swaps.Candidate}
    (hinv : InvO nw s) (h : Swaps.neighborsOf nw limit threshold s last = .ok cands) :
    ∀ c ∈ cands, c.sched.unserved = C09U.sumU nw c.sched.typeOf? c.sched.formations ∧
      c.sched.violation = trueViolation nw c.sched ∧ c.sched.costs = trueCosts nw c.sched :=
  fun c hc => objective_true h9 (C11A.neighbors_invF (stepInv0_obj hn hovf) hinv h c hc)

/-- every schedule reachable by public modifications -/
theorem C09_objective_from_empty (nw : Network) (hn : NetHyp nw) (hovf : C10Lim.OvfNode nw) :
    ∀ (ops : List SOp) (s s' : Schedule), InvO nw s → (∀ op ∈ ops, ArgsOKF op) → C02.runOps nw s ops = some s' →
      InvO nw s'
  | [], s, s', hinv, _, h => by simp only [C02.runOps, Option.some.injEq] at h; rw [← h]; exact hinv
  | op :: rest, s, s', hinv, hargs, h => by
    unfold C02.runOps at h
    split at h
    · rename_i r hr
      exact C09_objective_from_empty nw hn hovf rest r.sched s'
        ((stepInv0_obj hn hovf).step s op r hinv (hargs op (by simp)) hr) (fun o ho => hargs o (by simp [ho])) h
    · cases h

end RSSched.C04O
