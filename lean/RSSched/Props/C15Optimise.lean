/-
Props/C15Optimise: the transition optimiser of the pipeline as a model function — a local search over
the modelled transition neighbourhood (`TransSearch.neighbors`: move one or two vehicles between two
rotation cycles, re-optimise both cycles by 3-opt) with ANY rule for choosing among the neighbours —
keeps every transition consistent over the same vehicles. With it the hypothesis of
`C05_pipeline_cycles` is discharged: the pipeline with the modelled optimiser satisfies every clause
of C10 at every stage, so in the returned schedule every real vehicle is in exactly one rotation
cycle of its type.
-/
import RSSched.Props.C15Search
import RSSched.Props.C10Cycles
namespace RSSched.C15Opt
open RSSched Schedule Network Spec C15 C15N C10Cyc C10F

/-- a rule that picks the next transition among the neighbours of the current one (the real code
    takes a best one among those that improve; which one, the theorems do not need to know) -/
structure Pick where
  pick : List Transition → Transition → Option Transition
  mem : ∀ l tr t, pick l tr = some t → t ∈ l

/-- the local search over the transition neighbourhood, with fuel -/
def tsearch (nw : Network) (tours : Tours) (p : Pick) : Nat → Transition → Transition
  | 0, tr => tr
  | fuel + 1, tr =>
    match TransSearch.neighbors nw tours tr with
    | .ok l =>
      match p.pick l tr with
      | some t => tsearch nw tours p fuel t
      | none => tr
    | .error _ => tr

theorem tsearch_consistent (nw : Network) (tours : Tours) (p : Pick) : ∀ (fuel : Nat) (tr : Transition),
    Consistent nw (overlay [] tours) tr →
    Consistent nw (overlay [] tours) (tsearch nw tours p fuel tr) ∧
      ∀ w, w ∈ members (tsearch nw tours p fuel tr) ↔ w ∈ members tr
  | 0, tr, hc => ⟨hc, fun _ => Iff.rfl⟩
  | fuel + 1, tr, hc => by
    unfold tsearch
    split
    · rename_i l hl
      split
      · rename_i t ht
        obtain ⟨hc1, hm1, _⟩ := C15.neighbors_consistent nw tours tr l hc hl t (p.mem l tr t ht)
        obtain ⟨hc2, hm2⟩ := tsearch_consistent nw tours p fuel t hc1
        exact ⟨hc2, fun w => (hm2 w).trans (hm1 w)⟩
      · exact ⟨hc, fun _ => Iff.rfl⟩
    · exact ⟨hc, fun _ => Iff.rfl⟩

/-- the modelled optimiser: every type's transition is searched with the schedule's tours -/
def optimise (nw : Network) (p : Pick) (fuel : Nat) (s : Schedule) : List (Nat × Transition) :=
  s.transitions.map (fun q => (q.1, tsearch nw s.tours p fuel q.2))

theorem optimise_keys (nw : Network) (p : Pick) (fuel : Nat) (s : Schedule) :
    (optimise nw p fuel s).map (·.1) = s.transitions.map (·.1) := by
  unfold optimise
  rw [List.map_map]
  rfl

theorem assocGet?_map_snd {κ ν : Type} [DecidableEq κ] (f : ν → ν) : ∀ (l : List (κ × ν)) (k : κ),
    assocGet? (l.map (fun q => (q.1, f q.2))) k = (assocGet? l k).map f
  | [], k => by simp [assocGet?_nil]
  | q :: qs, k => by
    rw [List.map_cons, assocGet?_cons, assocGet?_cons]
    by_cases e : q.1 = k
    · simp [e]
    · simp only [e, ↓reduceIte]
      exact assocGet?_map_snd f qs k

theorem optimise_cyc {nw : Network} (p : Pick) (fuel : Nat) {s : Schedule} (hcyc : CycInv nw s) :
    CycInv nw (Schedule.setNextDayTransitions s (optimise nw p fuel s)) := by
  intro vt tr' hg
  have hg' : assocGet? (optimise nw p fuel s) vt = some tr' := hg
  unfold optimise at hg'
  rw [assocGet?_map_snd] at hg'
  cases hold : assocGet? s.transitions vt with
  | none => rw [hold] at hg'; cases hg'
  | some tr =>
    rw [hold] at hg'
    simp only [Option.map_some, Option.some.injEq] at hg'
    obtain ⟨hc, hm⟩ := hcyc vt tr hold
    have hc0 : Consistent nw (overlay [] s.tours) tr :=
      consistent_congr hc (fun w _ => by unfold overlay TM; simp [assocGet?_nil])
    obtain ⟨hc1, hm1⟩ := tsearch_consistent nw s.tours p fuel tr hc0
    rw [← hg']
    refine ⟨consistent_congr hc1 (fun w _ => ?_), fun w => ?_⟩
    · show TM s.tours w = overlay [] s.tours w
      unfold overlay TM; simp [assocGet?_nil]
    · rw [hm1 w]; exact hm w

/-- **C05 / C10 / C15 at pipeline level, with the modelled transition optimiser**: for every network
    with the decidable hypotheses, every decoded flow, every number of local-search steps, every rule
    for choosing among the neighbours of the transition search and every fuel — if the modelled
    `solve_instance` returns, then the start schedule, the local-search result and the returned
    schedule satisfy every clause of C10 (`InvC`): valid tours, formation membership, exact caches,
    exact depot bookkeeping within the depot limits, and for every vehicle type rotation cycles with
    exact bookkeeping that hold exactly the real vehicles of the type -/
theorem C05_pipeline_cycles_modelled (nw : Network) (hn : NetHyp nw) (hovf : C10Lim.OvfNode nw) (o : Solve.Oracle)
    (p : Pick) (fuel : Nat) (ho : o.optimise = optimise nw p fuel) (tr : Solve.Trace)
    (h : Solve.solve nw o = .ok tr) :
    InvC nw tr.start ∧ InvC nw tr.afterSearch ∧ InvC nw tr.final := by
  refine C11A.solve_inv0 (stepInv0_cycles hn hovf) o (fun s hs => ?_) tr h
  rw [ho]
  refine ⟨(C10Lim.stepInv_limits hn hovf).setT s _ ?_ hs.base, optimise_cyc p fuel hs.cycles⟩
  rw [optimise_keys]
  exact hs.base.base.all.viol.1

/-- in the returned schedule every real vehicle is in exactly one rotation cycle of its type -/
theorem C05_final_partition (nw : Network) (hn : NetHyp nw) (hovf : C10Lim.OvfNode nw) (o : Solve.Oracle)
    (p : Pick) (fuel : Nat) (ho : o.optimise = optimise nw p fuel) (tr : Solve.Trace)
    (h : Solve.solve nw o = .ok tr) {vt : Nat} {t : Transition}
    (ht : assocGet? tr.final.transitions vt = some t) (v : Veh) :
    (assocGet? tr.final.vehicles v = some vt ↔ ∃ i, assocGet? t.lookup v = some i) :=
  (one_cycle (C05_pipeline_cycles_modelled nw hn hovf o p fuel ho tr h).2.2.cycles ht v).1

/-! ### the cached maintenance violation is the true one -/

/-- the maintenance violation of a schedule computed from nothing but tours and cycle membership:
    per type and cycle, the positive part of Σ maintenance counters + Σ cyclic depot links -/
def trueViolation (nw : Network) (s : Schedule) : Int :=
  sumInt (s.transitions.map (fun q =>
    sumInt (q.2.cycles.map (fun c => posMax0 (counterSpec nw (TM s.tours) c.vehicles)))))

theorem sumInt_congr {α : Type} (l : List α) (f g : α → Int) (h : ∀ x ∈ l, f x = g x) :
    sumInt (l.map f) = sumInt (l.map g) := by
  induction l with
  | nil => rfl
  | cons a as ih =>
    simp only [List.map_cons, sumInt, List.foldr_cons] at ih ⊢
    rw [h a (by simp), ih (fun x hx => h x (by simp [hx]))]

/-- **C04 / C09 (maintenance violation)**: in every schedule satisfying the invariants (`InvC`: every
    reachable schedule, every candidate, every stage of the pipeline with the modelled optimiser) the
    cached maintenance violation equals the from-scratch value -/
theorem violation_true {nw : Network} {s : Schedule} (hinv : InvC nw s) : s.violation = trueViolation nw s := by
  obtain ⟨hkeys, hviol⟩ := hinv.base.base.all.viol
  rw [hviol]
  unfold C09S.sumVal trueViolation
  refine sumInt_congr _ _ _ (fun q hq => ?_)
  have hg : assocGet? s.transitions q.1 = some q.2 := assocGet?_of_mem hkeys (by simpa using hq)
  obtain ⟨hc, _⟩ := hinv.cycles q.1 q.2 hg
  show q.2.totalViolation = _
  rw [hc.totV]
  unfold sumViolations
  refine sumInt_congr _ _ _ (fun c hcm => ?_)
  obtain ⟨i, hi, hget⟩ := List.getElem_of_mem hcm
  rw [hc.counter i c (by rw [List.getElem?_eq_getElem hi, hget])]

end RSSched.C15Opt
