/-
Props/C13Effects: the schedule-level half of C13 for the model. (1) Every public modification touches
the vehicle and tour entries of a short list of vehicles only (`touched`): everybody else keeps type
and tour — "all other vehicles' tours stay untouched". (2) The exact effect of `override_reassign`,
`remove_segment` and `add_path_to_vehicle_tour` on the entries they do touch, in terms of the tour
functions whose node-level reference semantics is Props/C12 (`C12_remove_ok`, `C12_insert`): the
provider's new tour is `Tour.remove` of its old one, the receiver's is `Tour.insert_path` of the removed
path into its old one, a provider left without activities disappears from vehicles and tours.
-/
import RSSched.Props.C10Cycles
namespace RSSched.C13E
open RSSched Schedule Network Tour Spec C15 C02 C13 C10T C10L C09C C10S C10F C10D C10Fit C10U C10Cyc

/-- the vehicles whose entries a modification may change -/
def touched (nw : Network) (s : Schedule) : SOp → List Veh
  | .spawn _ _ => [Veh.real s.counter]
  | .dummySpawn _ _ => [Veh.real s.counter]
  | .delete v => [v]
  | .addPath v _ => [v]
  | .rmSeg v _ _ => [v]
  | .fit p r _ _ => [p, r]
  | .override p r _ _ => [p, r]
  | .improve (some ids) => ids
  | .improve none => s.vehiclesAll nw
  | .endGreedy => s.vehiclesAll nw
  | .endConsistent => s.vehiclesAll nw
  | .recompute _ => []
  | .setTrans _ _ _ => []
  | .init => []

/-- entries of `w` unchanged -/
def Same (s s' : Schedule) (w : Veh) : Prop :=
  assocGet? s'.tours w = assocGet? s.tours w ∧ assocGet? s'.vehicles w = assocGet? s.vehicles w

theorem spawn_others {nw : Network} {s s' : Schedule} {vt : Nat} {path : List Nat} {v : Veh}
    (h : spawnVehicleForPath nw s vt path = .ok (s', v)) : ∀ w, w ≠ Veh.real s.counter → Same s s' w := by
  unfold spawnVehicleForPath at h
  inv_do h
  all_goals (try contradiction)
  all_goals (try (cases h))
  all_goals (try (simp only [pure, Except.pure, Except.ok.injEq] at *))
  all_goals (try subst_vars)
  all_goals (intro w hw; exact ⟨get_set_ne _ _ _ _ hw, get_set_ne _ _ _ _ hw⟩)

theorem delete_others {nw : Network} {s s' : Schedule} {v : Veh}
    (h : replaceVehicleByDummy nw s v = .ok s') : ∀ w, w ≠ v → Same s s' w := by
  unfold replaceVehicleByDummy at h
  inv_do h
  all_goals (try contradiction)
  all_goals (try (cases h))
  all_goals (try (simp only [pure, Except.pure, Except.ok.injEq] at *))
  all_goals (try subst_vars)
  all_goals (intro w hw; exact ⟨get_erase_ne _ _ _ hw, get_erase_ne _ _ _ hw⟩)

theorem reassign_others {nw : Network} {s : Schedule} {w' : Work} {p r : Veh} {newProv : Option Tour}
    {newRecv : Tour} {moved : List Nat}
    (hut : updateTours nw s (Work.ofSchedule s) (some p) newProv r newRecv moved = .ok w') :
    ∀ w, w ≠ p → w ≠ r → assocGet? w'.tours w = assocGet? s.tours w ∧
      assocGet? w'.vehicles w = assocGet? s.vehicles w := by
  have hT := (updateTours_spec hut).1
  have hV := C10Lim.updateTours_vehicles hut
  intro w h1 h2
  constructor
  · rw [hT]
    split
    · exact C10Lim.provTours_ne s p newProv w h1
    · rw [get_set_ne _ _ _ _ h2]; exact C10Lim.provTours_ne s p newProv w h1
  · rw [hV]; exact C10Lim.provVehicles_ne s p newProv w h1

/-- **C13 (others untouched)**: a vehicle outside `touched` keeps its type and its tour -/
theorem C13_others_untouched (nw : Network) (s : Schedule) (op : SOp) (r : OpResult) (hi : ListInv s)
    (hd : DummyInv s) (hop : op ≠ .init) (h : applyOp nw s op = .ok r) :
    ∀ w, w ∉ touched nw s op → Same s r.sched w := by
  unfold applyOp at h
  cases op with
  | init => exact absurd rfl hop
  | spawn vt path =>
    obtain ⟨⟨s', v⟩, hs, h⟩ := bind_ok h
    simp only [pure, Except.pure, Except.ok.injEq] at h
    subst h
    intro w hw
    exact spawn_others hs w (by simpa [touched] using hw)
  | dummySpawn d vt =>
    obtain ⟨⟨s', v⟩, hs, h⟩ := bind_ok h
    simp only [pure, Except.pure, Except.ok.injEq] at h
    subst h
    intro w hw
    unfold spawnToReplaceDummy at hs
    inv_do hs
    all_goals (try contradiction)
    all_goals (try (cases hs; done))
    all_goals (
      rename_i s1 hdel
      have hcore := deleteDummy_core hdel
      have hV : s1.vehicles = s.vehicles := congrArg Core.vehicles hcore
      have hT : s1.tours = s.tours := congrArg Core.tours hcore
      have hC : s1.counter = s.counter := congrArg Core.counter hcore
      have := spawn_others hs w (by rw [hC]; simpa [touched] using hw)
      unfold Same at this ⊢
      rw [hV, hT] at this
      exact this)
  | delete v =>
    obtain ⟨s', hs, h⟩ := bind_ok h
    simp only [pure, Except.pure, Except.ok.injEq] at h
    subst h
    intro w hw
    exact delete_others hs w (by simpa [touched] using hw)
  | addPath v path =>
    dsimp only at h
    split at h
    · obtain ⟨⟨s', rm⟩, hs, h⟩ := bind_ok h
      simp only [pure, Except.pure, Except.ok.injEq] at h
      subst h
      intro w hw
      have hwv : w ≠ v := by simpa [touched] using hw
      obtain ⟨old, newTour, removed, hV, hT, _, _⟩ := C10Lim.addPath_frame hs
      exact ⟨by rw [hT]; exact get_set_ne _ _ _ _ hwv, by rw [hV]⟩
    · cases h
  | rmSeg v a b =>
    obtain ⟨s', hs, h⟩ := bind_ok h
    simp only [pure, Except.pure, Except.ok.injEq] at h
    subst h
    intro w hw
    have hwv : w ≠ v := by simpa [touched] using hw
    unfold removeSegment at hs
    inv_do hs
    all_goals (try contradiction)
    all_goals (try (cases hs))
    all_goals (first
      | exact delete_others (by assumption) w hwv
      | (simp only [pure, Except.pure, Except.ok.injEq] at *
         subst_vars
         have hv' : s.isVehicle v = true := by simpa using (by assumption : ¬ (!s.isVehicle v) = true)
         have hnd := vehicle_not_dummy hi hd hv'
         have hutc := utc_tours (by assumption : updateTourAndCosts s s.tours _ _ v _ = .ok _)
         simp only [hnd, Bool.false_eq_true, ↓reduceIte] at hutc
         refine ⟨?_, rfl⟩
         show assocGet? _ w = assocGet? s.tours w
         rw [hutc]; exact get_set_ne _ _ _ _ hwv))
  | fit p q a b =>
    obtain ⟨s', hs, h⟩ := bind_ok h
    simp only [pure, Except.pure, Except.ok.injEq] at h
    subst h
    intro w hw
    have hw' : w ≠ p ∧ w ≠ q := by simpa [touched] using hw
    unfold fitReassign at hs
    inv_do hs
    all_goals (try contradiction)
    all_goals (try (cases hs))
    all_goals (try (simp only [pure, Except.pure, Except.ok.injEq] at *))
    all_goals (try subst_vars)
    all_goals exact reassign_others (by assumption) w hw'.1 hw'.2
  | override p q a b =>
    obtain ⟨⟨s', d⟩, hs, h⟩ := bind_ok h
    simp only [pure, Except.pure, Except.ok.injEq] at h
    subst h
    intro w hw
    have hw' : w ≠ p ∧ w ≠ q := by simpa [touched] using hw
    unfold overrideReassign at hs
    inv_do hs
    all_goals (try contradiction)
    all_goals (try (cases hs))
    all_goals (try (simp only [pure, Except.pure, Except.ok.injEq] at *))
    all_goals (try subst_vars)
    all_goals (
      try dsimp only [Same]
      exact reassign_others (by assumption) w hw'.1 hw'.2)
  | improve vs =>
    obtain ⟨s', hs, h⟩ := bind_ok h
    simp only [pure, Except.pure, Except.ok.injEq] at h
    subst h
    intro w hw
    have hsameV : s'.vehicles = s.vehicles := (C09U.improve_same hs).2.2
    refine ⟨?_, by rw [hsameV]⟩
    have hw' : w ∉ vs.getD (s.vehiclesAll nw) := by
      cases vs with
      | none => simpa [touched] using hw
      | some ids => simpa [touched] using hw
    unfold improveDepots at hs
    dsimp only at hs
    obtain ⟨usage0, h0, hs⟩ := bind_ok hs
    obtain ⟨⟨tours, usage, costs⟩, hfold, hs⟩ := bind_ok hs
    have hfold' : (vs.getD (s.vehiclesAll nw)).foldlM (improveStep nw s) (s.tours, usage0, s.costs)
        = .ok (tours, usage, costs) := hfold
    have hfr := fold_frame (improveStep nw s) (fun acc v acc' hst => by
      obtain ⟨nt, _, _, hset, _⟩ := improveStep_ok hst
      exact ⟨nt, hset⟩) _ _ _ hfold' w hw'
    have htours : s'.tours = tours := by
      inv_do hs
      all_goals (try contradiction)
      all_goals (try (cases hs))
      all_goals (try (simp only [pure, Except.pure, Except.ok.injEq] at *))
      all_goals (try subst_vars)
      all_goals rfl
    rw [htours]; exact hfr
  | endGreedy =>
    obtain ⟨s', hs, h⟩ := bind_ok h
    simp only [pure, Except.pure, Except.ok.injEq] at h
    subst h
    intro w hw
    have hw' : w ∉ s.vehiclesAll nw := by simpa [touched] using hw
    have hunf : reassignEndDepotsGreedily nw s = (do
        let (tours, usage, cst) ← (s.vehiclesAll nw).foldlM (greedyStep nw s) (s.tours, s.depotUsage, s.costs)
        let (trans, viol) ← recomputeTransitions nw s.idsByType tours nw.typeIdxs s.transitions s.violation
        pure { s with tours, transitions := trans, depotUsage := usage, violation := viol, costs := cst }) := rfl
    rw [hunf] at hs
    obtain ⟨⟨tours, usage, cst⟩, hfold, hs⟩ := bind_ok hs
    dsimp only at hs
    obtain ⟨⟨trans, viol⟩, _, hs⟩ := bind_ok hs
    simp only [pure, Except.pure, Except.ok.injEq] at hs
    subst hs
    have hfr := fold_frame (greedyStep nw s) (fun acc v acc' hst => by
      obtain ⟨nt, _, hset, _, _⟩ := greedyStep_ok hst
      exact ⟨nt, hset⟩) _ _ _ hfold w hw'
    exact ⟨hfr, rfl⟩
  | recompute vts =>
    obtain ⟨s', hs, h⟩ := bind_ok h
    simp only [pure, Except.pure, Except.ok.injEq] at h
    subst h
    intro w _
    unfold recomputeTransitionsFor at hs
    obtain ⟨⟨trans, viol⟩, _, hs⟩ := bind_ok hs
    simp only [pure, Except.pure, Except.ok.injEq] at hs
    rw [← hs]; exact ⟨rfl, rfl⟩
  | endConsistent =>
    obtain ⟨s', hs, h⟩ := bind_ok h
    simp only [pure, Except.pure, Except.ok.injEq] at h
    subst h
    intro w hw
    have hw' : w ∉ s.vehiclesAll nw := by simpa [touched] using hw
    have hc := C05.C05_reassign nw s s' hs
    exact ⟨hc.2.1 w hw', by rw [hc.2.2.1]⟩
  | setTrans vt v ci =>
    obtain ⟨tr, _, h⟩ := bind_ok h
    obtain ⟨moved, _, h⟩ := bind_ok h
    simp only [pure, Except.pure, Except.ok.injEq] at h
    subst h
    intro w _; exact ⟨rfl, rfl⟩

/-! ### the exact effect on the touched entries -/

/-- **C13 (`override_reassign`)**: with a real provider `p ≠ r` and a real receiver, the provider's new
    tour is `Tour.remove` of its old one (the vehicle disappears when nothing is left), the receiver's
    new tour is `Tour.insert_path` of exactly the removed path into its old one -/
theorem C13_override_effect {nw : Network} {s s' : Schedule} {p r : Veh} {a b : Nat} {d : Option Veh}
    (hi : ListInv s) (hd : DummyInv s) (hne : p ≠ r) (hp : s.isVehicle p = true) (hr : s.isVehicle r = true)
    (h : overrideReassign nw s p r a b = .ok (s', d)) :
    ∃ pt rt shrunk path newRecv replaced,
      assocGet? s.tours p = some pt ∧ assocGet? s.tours r = some rt ∧
      Tour.remove nw pt a b = .ok (shrunk, path) ∧
      Tour.insertPath nw true rt path = .ok (newRecv, replaced) ∧
      assocGet? s'.tours r = some newRecv ∧ assocGet? s'.tours p = shrunk ∧
      (shrunk = none → assocGet? s'.vehicles p = none) ∧
      (∀ t, shrunk = some t → assocGet? s'.vehicles p = assocGet? s.vehicles p) ∧
      assocGet? s'.vehicles r = assocGet? s.vehicles r := by
  have hpd := vehicle_not_dummy hi hd hp
  have hrd := vehicle_not_dummy hi hd hr
  have hrp : r ≠ p := fun e => hne e.symm
  have key : ∀ {w : Work} {pt rt : Tour} {shrunk : Option Tour} {path : List Nat} {ins : Tour × Option (List Nat)}
      {site1 site2 : String},
      unwrapO (s.tourOf? p) site1 = .ok pt → unwrapO (s.tourOf? r) site2 = .ok rt →
      Tour.remove nw pt a b = .ok (shrunk, path) → Tour.insertPath nw true rt path = .ok ins →
      updateTours nw s (Work.ofSchedule s) (some p) shrunk r ins.1 path = .ok w →
      ∃ pt rt shrunk path newRecv replaced,
        assocGet? s.tours p = some pt ∧ assocGet? s.tours r = some rt ∧
        Tour.remove nw pt a b = .ok (shrunk, path) ∧
        Tour.insertPath nw true rt path = .ok (newRecv, replaced) ∧
        assocGet? w.tours r = some newRecv ∧ assocGet? w.tours p = shrunk ∧
        (shrunk = none → assocGet? w.vehicles p = none) ∧
        (∀ t, shrunk = some t → assocGet? w.vehicles p = assocGet? s.vehicles p) ∧
        assocGet? w.vehicles r = assocGet? s.vehicles r := by
    intro w pt rt shrunk path ins site1 site2 hpt' hrt' hrem hins hut
    have hpt := tourOf_not_dummy (unwrapO_ok hpt') hpd
    have hrt := tourOf_not_dummy (unwrapO_ok hrt') hrd
    have hT := (updateTours_spec hut).1
    have hV := C10Lim.updateTours_vehicles hut
    refine ⟨pt, rt, shrunk, path, ins.1, ins.2, hpt, hrt, hrem, hins, ?_, ?_, ?_, ?_, ?_⟩
    · rw [hT]; simp only [hrd, Bool.false_eq_true, ↓reduceIte]; rw [assocGet?_assocSet]; simp
    · rw [hT]; simp only [hrd, Bool.false_eq_true, ↓reduceIte]
      rw [get_set_ne _ _ _ _ hne]
      unfold provTours
      simp only [hpd, Bool.false_eq_true, ↓reduceIte]
      cases shrunk with
      | some t => dsimp only; rw [assocGet?_assocSet]; simp
      | none => dsimp only; simp only [hp, ↓reduceIte]; rw [assocGet?_assocErase]; simp
    · intro e; subst e
      rw [hV]; unfold C10Lim.provVehicles
      simp only [hpd, hp, Bool.false_eq_true, ↓reduceIte]
      rw [assocGet?_assocErase]; simp
    · intro t e; subst e
      rw [hV]; rfl
    · rw [hV]; exact C10Lim.provVehicles_ne s p shrunk r hrp
  unfold overrideReassign at h
  inv_do h
  all_goals (try contradiction)
  all_goals (try (cases h))
  all_goals (try (simp only [pure, Except.pure, Except.ok.injEq] at *))
  all_goals (try subst_vars)
  all_goals (
    try dsimp only
    exact key (by assumption) (by assumption) (by assumption) (by assumption) (by assumption))

/-- **C13 (`add_path_to_vehicle_tour`)**: the vehicle's new tour is `Tour.insert_path` of the given path
    into its old one, the displaced nodes are what the call returns; its type is unchanged -/
theorem C13_addPath_effect {nw : Network} {s s' : Schedule} {v : Veh} {path : List Nat} {rm : Option (List Nat)}
    (h : addPathToVehicleTour nw s v path = .ok (s', rm)) :
    ∃ old newTour, assocGet? s.tours v = some old ∧ Tour.insertPath nw true old path = .ok (newTour, rm) ∧
      assocGet? s'.tours v = some newTour ∧ s'.vehicles = s.vehicles := by
  unfold addPathToVehicleTour at h
  inv_do h
  all_goals (try contradiction)
  all_goals (try (cases h))
  all_goals (try (simp only [pure, Except.pure, Except.ok.injEq] at *))
  all_goals (try subst_vars)
  all_goals (first
    | exact ⟨_, _, unwrapO_ok (by assumption), by assumption,
        (by show assocGet? (assocSet _ _ _) _ = _; rw [assocGet?_assocSet]; simp), rfl⟩
    | exact ⟨_, _, unwrapO_ok (by assumption), by assumption,
        (by show assocGet? (assocSet _ _ _) _ = _; rw [assocGet?_assocSet]; simp), trivial⟩)

theorem delete_effect {nw : Network} {s s' : Schedule} {v : Veh}
    (h : replaceVehicleByDummy nw s v = .ok s') :
    assocGet? s'.tours v = none ∧ assocGet? s'.vehicles v = none := by
  unfold replaceVehicleByDummy at h
  inv_do h
  all_goals (try contradiction)
  all_goals (try (cases h))
  all_goals (try (simp only [pure, Except.pure, Except.ok.injEq] at *))
  all_goals (try subst_vars)
  all_goals (
    constructor
    · show assocGet? (assocErase _ _) _ = none; rw [assocGet?_assocErase]; simp
    · show assocGet? (assocErase _ _) _ = none; rw [assocGet?_assocErase]; simp)

/-- **C13 (`remove_segment`)**: the vehicle's new tour is `Tour.remove` of its old one; a vehicle left
    without activities is replaced by a dummy (it disappears from vehicles and tours) -/
theorem C13_rmSeg_effect {nw : Network} {s s' : Schedule} {v : Veh} {a b : Nat}
    (hi : ListInv s) (hd : DummyInv s) (h : removeSegment nw s v a b = .ok s') :
    ∃ old shrunk removed, assocGet? s.tours v = some old ∧ Tour.remove nw old a b = .ok (shrunk, removed) ∧
      assocGet? s'.tours v = shrunk ∧
      (∀ t, shrunk = some t → s'.vehicles = s.vehicles) ∧ (shrunk = none → assocGet? s'.vehicles v = none) := by
  unfold removeSegment at h
  inv_do h
  all_goals (try contradiction)
  all_goals (try (cases h))
  all_goals (
    have hv' : s.isVehicle v = true := by simpa using (by assumption : ¬ (!s.isVehicle v) = true)
    have htour := unwrapO_ok (by assumption : unwrapO (s.tourOf? v) _ = .ok _)
    rw [(tourOf_vehicle hi hv').1] at htour
    first
    | (-- nothing left: the vehicle is replaced by a dummy
       obtain ⟨hT, hV⟩ := delete_effect (by assumption : replaceVehicleByDummy nw s v = .ok s')
       exact ⟨_, none, _, htour, (by assumption), hT, (fun t e => by cases e), fun _ => hV⟩)
    | (simp only [pure, Except.pure, Except.ok.injEq] at *
       subst_vars
       have hnd := vehicle_not_dummy hi hd hv'
       have hutc := utc_tours (by assumption : updateTourAndCosts s s.tours _ _ v _ = .ok _)
       simp only [hnd, Bool.false_eq_true, ↓reduceIte] at hutc
       refine ⟨_, some _, _, htour, (by assumption), ?_, (fun _ _ => (by first | rfl | trivial)), (fun e => by cases e)⟩
       show assocGet? _ v = _
       rw [hutc, assocGet?_assocSet]; simp))

/-- **C13 (`fit_reassign`)**: with a real provider `p ≠ r` and a real receiver — counted over activities,
    the provider loses exactly the moved nodes, the receiver gains exactly them and loses none of its
    own; both stay valid tours; a provider left without activities disappears -/
theorem C13_fit_effect {nw : Network} (hn : NetHyp nw) {s s' : Schedule} {p r : Veh} {a b : Nat}
    (hi : ListInv s) (hd : DummyInv s) (ho : ToursOK nw s.tours) (hdo : DummiesOK nw s.dummyTours)
    (hne : p ≠ r) (hp : s.isVehicle p = true) (hr : s.isVehicle r = true)
    (h : fitReassign nw s p r a b = .ok s') :
    ∃ pt rt newProv newRecv moved,
      assocGet? s.tours p = some pt ∧ assocGet? s.tours r = some rt ∧
      assocGet? s'.tours r = some newRecv ∧ assocGet? s'.tours p = newProv ∧
      (∀ n, shrunkOcc nw newProv n + occ nw moved n = occ nw pt.nodes n) ∧
      (∀ n, occ nw newRecv.nodes n = occ nw rt.nodes n + occ nw moved n) ∧
      TourOK nw newRecv ∧ (∀ t, newProv = some t → TourOK nw t) ∧
      (newProv = none → assocGet? s'.vehicles p = none) := by
  have hpd := vehicle_not_dummy hi hd hp
  have hrd := vehicle_not_dummy hi hd hr
  have key : ∀ {w : Work} {pt rt : Tour} {path : List Nat} {res : Option Tour × Tour × List Nat}
      {site1 site2 : String},
      unwrapO (s.tourOf? p) site1 = .ok pt → unwrapO (s.tourOf? r) site2 = .ok rt →
      Tour.subPath nw pt a b = .ok path →
      fitLoop nw (s.isDummy p && s.isVehicle r) (path.length + 1) (some pt) rt (some path) [] = .ok res →
      updateTours nw s (Work.ofSchedule s) (some p) res.1 r res.2.1 res.2.2 = .ok w →
      ∃ pt rt newProv newRecv moved,
        assocGet? s.tours p = some pt ∧ assocGet? s.tours r = some rt ∧
        assocGet? w.tours r = some newRecv ∧ assocGet? w.tours p = newProv ∧
        (∀ n, shrunkOcc nw newProv n + occ nw moved n = occ nw pt.nodes n) ∧
        (∀ n, occ nw newRecv.nodes n = occ nw rt.nodes n + occ nw moved n) ∧
        TourOK nw newRecv ∧ (∀ t, newProv = some t → TourOK nw t) ∧
        (newProv = none → assocGet? w.vehicles p = none) := by
    intro w pt rt path res site1 site2 hpt' hrt' hsub hloop hut
    have hpt0 := unwrapO_ok hpt'
    have hrt0 := unwrapO_ok hrt'
    have hpt := tourOf_not_dummy hpt0 hpd
    have hrt := tourOf_not_dummy hrt0 hrd
    obtain ⟨f1, f2, f3, f4, _, _⟩ := fit_loop_facts (newProv := res.1) (newRecv := res.2.1) (moved := res.2.2)
      hn hi hd ho hdo hpt0 hrt0 hsub hloop
    have hT := (updateTours_spec hut).1
    have hV := C10Lim.updateTours_vehicles hut
    refine ⟨pt, rt, res.1, res.2.1, res.2.2, hpt, hrt, ?_, ?_, f1 hpd, ?_, f4 hr, f3 hpd, ?_⟩
    · rw [hT]; simp only [hrd, Bool.false_eq_true, ↓reduceIte]; rw [assocGet?_assocSet]; simp
    · rw [hT]; simp only [hrd, Bool.false_eq_true, ↓reduceIte]
      rw [get_set_ne _ _ _ _ hne]
      unfold provTours
      simp only [hpd, Bool.false_eq_true, ↓reduceIte]
      cases res.1 with
      | some t => dsimp only; rw [assocGet?_assocSet]; simp
      | none => dsimp only; simp only [hp, ↓reduceIte]; rw [assocGet?_assocErase]; simp
    · intro n
      have := f2 hr n
      simp only [occ_nil, Nat.add_zero] at this
      exact this
    · intro e
      rw [hV, e]; unfold C10Lim.provVehicles
      simp only [hpd, hp, Bool.false_eq_true, ↓reduceIte]
      rw [assocGet?_assocErase]; simp
  unfold fitReassign at h
  inv_do h
  all_goals (try contradiction)
  all_goals (try (cases h))
  all_goals (try (simp only [pure, Except.pure, Except.ok.injEq] at *))
  all_goals (try subst_vars)
  all_goals (
    try dsimp only
    exact key (by assumption) (by assumption) (by assumption) (by assumption) (by assumption))

end RSSched.C13E
