/-
Props/C12Remove: whenever the model of `Tour::remove` returns on a valid tour, its result is the one of
the reference semantics `removeRef` (no positions, no deltas): the removed path is the slice between
the two nodes, the remaining tour is the node list without that slice (or no tour at all when nothing
but depots would be left), and the reference does not refuse — in particular the slice's neighbours
are connectable and no depot is stranded. Contrapositive: what the reference refuses, the model never
performs.
-/
import RSSched.Props.C01Chain
namespace RSSched.C12
open RSSched Network Tour Spec

theorem positionOf_ok {t : Tour} {x p : Nat} (h : t.positionOf x = .ok p) : posOf t.nodes x = some p := by
  unfold Tour.positionOf at h
  unfold posOf
  cases hf : t.nodes.findIdx? (fun y => y == x) with
  | none => simp [hf] at h
  | some q => simp only [hf, pure, Except.pure, Except.ok.injEq] at h; rw [h]

/-- what `check_if_sequence_is_removable` excludes for real tours -/
theorem checkSeqRemovable_real {nw : Network} {t : Tour} {s e : Nat} (h : checkSeqRemovable nw t s e = .ok ())
    (hreal : t.isDummy = false) :
    3 ≤ t.nodes.length ∧ ¬ (s = 0 ∧ e ≤ t.nodes.length - 3) ∧ ¬ (e = t.nodes.length - 1 ∧ 2 ≤ s) := by
  unfold checkSeqRemovable at h
  dsimp only at h
  simp only [hreal, Bool.not_false, Bool.true_and] at h
  split at h
  · cases h
  · rename_i h1
    split at h
    · cases h
    · rename_i h2
      split at h
      · cases h
      · rename_i h3
        simp only [decide_eq_true_eq, Nat.not_lt, Bool.and_eq_true, beq_iff_eq, not_and, Nat.not_le, ge_iff_le] at h1 h2 h3
        exact ⟨h1, fun hc => by have := h2 hc.1; omega, fun hc => by have := h3 hc.1; omega⟩

theorem hasNonDepot_false_of_all_depots (nw : Network) (l : List Nat) (h : ∀ x ∈ l, (nw.node x).isDepot = true) :
    hasNonDepot nw l = false := by
  unfold hasNonDepot
  rw [List.any_eq_false]
  intro x hx; simp [h x hx]

/-- **C12 (remove)**: the model's result is the reference's -/
theorem C12_remove_ok (nw : Network) (t : Tour) (a b : Nat) (ot : Option Tour) (path : List Nat)
    (hv : tourValidB nw t = true) (h : Tour.remove nw t a b = .ok (ot, path)) :
    ∃ rest, removeRef nw t.isDummy t.nodes a b = .ok rest path ∧
      (match ot with
       | some t' => t'.nodes = rest ∧ t'.isDummy = t.isDummy
       | none => rest = [] ∨ (t.isDummy = false ∧ rest.length ≤ 2)) := by
  unfold Tour.remove at h
  obtain ⟨s, hs, h⟩ := C09.bindR_inv h
  obtain ⟨e, he, h⟩ := C09.bindR_inv h
  obtain ⟨u, hchk, h⟩ := C09.bindR_inv h
  obtain ⟨removed, hrem, h⟩ := C09.bindR_inv h
  obtain ⟨ud, _, h⟩ := C09.bindR_inv h
  obtain ⟨sd, _, h⟩ := C09.bindR_inv h
  obtain ⟨seg, _, h⟩ := C09.bindR_inv h
  obtain ⟨dh0, _, h⟩ := C09.bindR_inv h
  obtain ⟨gapD, _, h⟩ := C09.bindR_inv h
  obtain ⟨cseg, _, h⟩ := C09.bindR_inv h
  obtain ⟨c0, _, h⟩ := C09.bindR_inv h
  obtain ⟨gapC, _, h⟩ := C09.bindR_inv h
  have hchk' : checkSeqRemovable nw t s e = .ok () := by cases u; exact hchk
  have hse := C09.checkSeqRemovable_le hchk'
  obtain ⟨h1, h2, hremeq⟩ := C09.slice_inv hrem
  refine ⟨t.nodes.take s ++ t.nodes.drop (e + 1), ?_, ?_⟩
  · -- the reference accepts and returns the same path
    unfold removeRef
    rw [positionOf_ok hs, positionOf_ok he]
    simp only [show ¬ s > e by omega, ↓reduceIte]
    have hgap : (decide (s > 0) && decide (e < t.nodes.length - 1) &&
        !nw.canReach (t.nodes.getD (s - 1) 0) (t.nodes.getD (e + 1) 0)) = false := by
      by_cases hs0 : 0 < s
      · by_cases he1 : e < t.nodes.length - 1
        · rw [C01.checkSeqRemovable_gap hchk' hs0 he1]; simp
        · simp [he1]
      · simp [hs0]
    have hstr : (!t.isDummy && hasNonDepot nw (t.nodes.take s ++ t.nodes.drop (e + 1)) &&
        (s == 0 || e == t.nodes.length - 1)) = false := by
      cases hdum : t.isDummy with
      | true => simp
      | false =>
        obtain ⟨hlen, hn1, hn2⟩ := checkSeqRemovable_real hchk' hdum
        unfold tourValidB at hv
        simp only [hdum, Bool.false_eq_true, ↓reduceIte, Bool.and_eq_true, decide_eq_true_eq] at hv
        obtain ⟨⟨⟨⟨⟨_, hfirst⟩, hlast⟩, _⟩, _⟩, _⟩ := hv
        by_cases hs0 : s = 0
        · -- everything up to at least the last activity goes: at most the end depot stays
          have he2 : t.nodes.length - 2 ≤ e := by
            by_cases hc : e ≤ t.nodes.length - 3
            · exact absurd ⟨hs0, hc⟩ hn1
            · omega
          have hall : ∀ x ∈ t.nodes.take s ++ t.nodes.drop (e + 1), (nw.node x).isDepot = true := by
            intro x hx
            rw [hs0] at hx
            simp only [List.take_zero, List.nil_append] at hx
            obtain ⟨i, hi, hxi⟩ := List.getElem_of_mem hx
            simp only [List.length_drop] at hi
            have hidx : e + 1 + i = t.nodes.length - 1 := by omega
            have : x = t.nodes.getLastD 0 := by
              rw [← hxi, List.getElem_drop]
              rw [List.getLastD_eq_getLast?, List.getLast?_eq_getElem?, List.getElem?_eq_getElem (by omega)]
              simp [hidx]
            rw [this]
            show ((nw.node (t.nodes.getLastD 0)).isStartDepot || (nw.node (t.nodes.getLastD 0)).isEndDepot) = true
            rw [hlast]; simp
          simp [hasNonDepot_false_of_all_depots nw _ hall]
        · by_cases he1 : e = t.nodes.length - 1
          · have hs1 : s ≤ 1 := by
              by_cases hc : 2 ≤ s
              · exact absurd ⟨he1, hc⟩ hn2
              · omega
            have hall : ∀ x ∈ t.nodes.take s ++ t.nodes.drop (e + 1), (nw.node x).isDepot = true := by
              intro x hx
              have hd : t.nodes.drop (e + 1) = [] := List.drop_eq_nil_of_le (by omega)
              rw [hd, List.append_nil] at hx
              have hs1' : s = 1 := by omega
              rw [hs1'] at hx
              have : x = t.nodes.headD 0 := by
                cases hn : t.nodes with
                | nil => rw [hn] at hlen; simp at hlen
                | cons y ys => rw [hn] at hx; simpa using hx
              rw [this]
              show ((nw.node (t.nodes.headD 0)).isStartDepot || (nw.node (t.nodes.headD 0)).isEndDepot) = true
              rw [hfirst]; simp
            simp [hasNonDepot_false_of_all_depots nw _ hall]
          · simp [hs0, he1]
    simp only [hstr, hgap, Bool.or_self, Bool.false_eq_true, ↓reduceIte]
    -- the returned path is the slice
    dsimp only at h
    split at h
    · rename_i p hp
      have hpr : p = removed := pathTrusted_some nw _ _ hp
      have hpath : path = removed := by
        split at h
        · simp only [pure, Except.pure, Except.ok.injEq, Prod.mk.injEq] at h; rw [← h.2, hpr]
        · simp only [pure, Except.pure, Except.ok.injEq, Prod.mk.injEq] at h; rw [← h.2, hpr]
      rw [hpath, hremeq]
    · cases h
  · dsimp only at h
    split at h
    · split at h
      · rename_i hcond
        simp only [pure, Except.pure, Except.ok.injEq, Prod.mk.injEq] at h
        obtain ⟨hot, _⟩ := h
        subst hot
        simp only [Bool.or_eq_true, List.isEmpty_iff, Bool.and_eq_true, Bool.not_eq_eq_eq_not, Bool.not_true,
          decide_eq_true_eq] at hcond
        rcases hcond with hc | hc
        · exact Or.inl hc
        · exact Or.inr hc
      · simp only [pure, Except.pure, Except.ok.injEq, Prod.mk.injEq] at h
        obtain ⟨hot, _⟩ := h
        subst hot
        exact ⟨rfl, rfl⟩
    · cases h

end RSSched.C12
