/-
Props/C09CostsAll: the cost cache without an argument condition, and through search and pipeline.
`improve_depots(Some(list))` first takes every listed vehicle out of its depots and unwraps the
removal, so it cannot return for a list with a duplicate: the condition "duplicate-free list" of
`C09_cost_step` (Props/C09Costs) is implied by the success of the call. Hence the cached costs equal
Σ tour costs + staff term in every reachable schedule, for every candidate of the search and at every
stage of the modelled pipeline.
-/
import RSSched.Props.C09Unserved
namespace RSSched.C09A
open RSSched Schedule Network Tour Spec C15 C02 C13 C10T C10L C09C C10S C10F C10D C10Fit

/-- the first loop of `improve_depots`, one vehicle -/
def takeOut (nw : Network) (s : Schedule) (u : DepotUsage) (v : Veh) : R DepotUsage := do
  let vt ← unwrapO (s.typeOf? v) "vehicle_type_of(vehicle_id).unwrap()"
  let t ← unwrapO (s.tourOf? v) "tour_of(vehicle_id).unwrap()"
  let sd ← Transition.startDepotU nw t
  let ed ← Transition.endDepotU nw t
  let d1 := nw.depotIdxOf sd
  let e1 ← unwrapO (assocGet? u (d1, vt)) "depot_usage.get_mut(..).unwrap()"
  if !(e1.1.contains v) then .error (.panic "depot_usage: remove(vehicle_id).unwrap()") else
  let u1 := assocSet u (d1, vt) (e1.1.filter (· != v), e1.2)
  let d2 := nw.depotIdxOf ed
  let e2 ← unwrapO (assocGet? u1 (d2, vt)) "depot_usage.get_mut(..).unwrap()"
  if !(e2.2.contains v) then .error (.panic "depot_usage: remove(vehicle_id).unwrap()") else
  pure (assocSet u1 (d2, vt) (e2.1, e2.2.filter (· != v)))

/-- `v` is not in the start set stored under key `k` -/
def GoneAt (u : DepotUsage) (k : Nat × Nat) (v : Veh) : Prop :=
  ∀ e, assocGet? u k = some e → e.1.contains v = false

theorem contains_filter_ne (l : List Veh) (v w : Veh) (h : l.contains v = false) :
    (l.filter (· != w)).contains v = false := by
  cases hc : (l.filter (· != w)).contains v with
  | false => rfl
  | true =>
    have hm : v ∈ l.filter (· != w) := by simpa using hc
    have : v ∈ l := (List.mem_filter.mp hm).1
    have : l.contains v = true := by simpa using this
    rw [h] at this; cases this

theorem contains_filter_self (l : List Veh) (v : Veh) : (l.filter (· != v)).contains v = false := by
  cases hc : (l.filter (· != v)).contains v with
  | false => rfl
  | true =>
    have hm : v ∈ l.filter (· != v) := by simpa using hc
    have := (List.mem_filter.mp hm).2
    simp at this

/-- taking a vehicle out of its depots only shrinks the start sets -/
theorem takeOut_mono {nw : Network} {s : Schedule} {u u' : DepotUsage} {w : Veh} (h : takeOut nw s u w = .ok u')
    (k : Nat × Nat) (v : Veh) (hg : GoneAt u k v) : GoneAt u' k v := by
  unfold takeOut at h
  obtain ⟨vt, _, h⟩ := bind_ok h
  obtain ⟨t, _, h⟩ := bind_ok h
  obtain ⟨sd, _, h⟩ := bind_ok h
  obtain ⟨ed, _, h⟩ := bind_ok h
  dsimp only at h
  obtain ⟨e1, he1, h⟩ := bind_ok h
  split at h
  · cases h
  · obtain ⟨e2, he2, h⟩ := bind_ok h
    split at h
    · cases h
    · simp only [pure, Except.pure, Except.ok.injEq] at h
      subst h
      have he1' := unwrapO_ok he1
      have he2' := unwrapO_ok he2
      have hmid : GoneAt (assocSet u (nw.depotIdxOf sd, vt) (e1.1.filter (· != w), e1.2)) k v := by
        intro e he
        rw [assocGet?_assocSet] at he
        by_cases ek : k = (nw.depotIdxOf sd, vt)
        · simp only [ek, ↓reduceIte, Option.some.injEq] at he
          rw [← he]
          exact contains_filter_ne _ _ _ (hg e1 (by rw [ek]; exact he1'))
        · simp only [ek, ↓reduceIte] at he; exact hg e he
      intro e he
      rw [assocGet?_assocSet] at he
      by_cases ek : k = (nw.depotIdxOf ed, vt)
      · simp only [ek, ↓reduceIte, Option.some.injEq] at he
        rw [← he]
        exact hmid e2 (by rw [ek]; exact he2')
      · simp only [ek, ↓reduceIte] at he; exact hmid e he

/-- after taking `v` out, it is gone from its own start set -/
theorem takeOut_gone {nw : Network} {s : Schedule} {u u' : DepotUsage} {v : Veh} (h : takeOut nw s u v = .ok u') :
    ∃ vt t sd, s.typeOf? v = some vt ∧ s.tourOf? v = some t ∧ Transition.startDepotU nw t = .ok sd ∧
      GoneAt u' (nw.depotIdxOf sd, vt) v := by
  unfold takeOut at h
  obtain ⟨vt, hvt, h⟩ := bind_ok h
  obtain ⟨t, ht, h⟩ := bind_ok h
  obtain ⟨sd, hsd, h⟩ := bind_ok h
  obtain ⟨ed, _, h⟩ := bind_ok h
  dsimp only at h
  obtain ⟨e1, he1, h⟩ := bind_ok h
  split at h
  · cases h
  · obtain ⟨e2, he2, h⟩ := bind_ok h
    split at h
    · cases h
    · simp only [pure, Except.pure, Except.ok.injEq] at h
      subst h
      refine ⟨vt, t, sd, unwrapO_ok hvt, unwrapO_ok ht, hsd, ?_⟩
      have he2' := unwrapO_ok he2
      have hmid : GoneAt (assocSet u (nw.depotIdxOf sd, vt) (e1.1.filter (· != v), e1.2)) (nw.depotIdxOf sd, vt) v := by
        intro e he
        rw [assocGet?_assocSet] at he
        simp only [↓reduceIte, Option.some.injEq] at he
        rw [← he]; exact contains_filter_self _ _
      intro e he
      rw [assocGet?_assocSet] at he
      by_cases ek : (nw.depotIdxOf sd, vt) = (nw.depotIdxOf ed, vt)
      · rw [if_pos ek] at he
        simp only [Option.some.injEq] at he
        rw [← he]
        exact hmid e2 (by rw [ek] at he2' ⊢; exact he2')
      · simp only [ek, ↓reduceIte] at he; exact hmid e he

theorem takeOut_fails {nw : Network} {s : Schedule} {u u' : DepotUsage} {v : Veh} {vt sd : Nat} {t : Tour}
    (hvt : s.typeOf? v = some vt) (ht : s.tourOf? v = some t) (hsd : Transition.startDepotU nw t = .ok sd)
    (hg : GoneAt u (nw.depotIdxOf sd, vt) v) (h : takeOut nw s u v = .ok u') : False := by
  unfold takeOut at h
  rw [hvt, ht] at h
  simp only [unwrapO, bind, Except.bind, hsd] at h
  obtain ⟨ed, _, h⟩ := bind_ok h
  obtain ⟨e1, he1, h⟩ := bind_ok h
  have := hg e1 (unwrapO_ok he1)
  rw [this] at h
  simp at h

/-- the first loop of `improve_depots` returns only for a duplicate-free list -/
theorem takeOutAll_nodup {nw : Network} {s : Schedule} : ∀ (L : List Veh) (u u' : DepotUsage),
    L.foldlM (takeOut nw s) u = .ok u' → L.Nodup
  | [], _, _, _ => List.nodup_nil
  | v :: rest, u, u', h => by
    rw [List.foldlM_cons] at h
    obtain ⟨u1, h1, h⟩ := bind_ok h
    refine List.nodup_cons.mpr ⟨?_, takeOutAll_nodup rest u1 u' h⟩
    intro hm
    obtain ⟨vt, t, sd, hvt, ht, hsd, hg⟩ := takeOut_gone h1
    -- `v` stays gone while the loop runs, so its second removal cannot succeed
    have key : ∀ (L : List Veh) (w w' : DepotUsage), GoneAt w (nw.depotIdxOf sd, vt) v →
        L.foldlM (takeOut nw s) w = .ok w' → v ∉ L := by
      intro L
      induction L with
      | nil => intro _ _ _ _ hx; cases hx
      | cons x xs ih =>
        intro w w' hgw hf hx
        rw [List.foldlM_cons] at hf
        obtain ⟨w1, hw1, hf⟩ := bind_ok hf
        rcases List.mem_cons.mp hx with e | hxs
        · subst e; exact takeOut_fails hvt ht hsd hgw hw1
        · exact ih w1 w' (takeOut_mono hw1 _ _ hgw) hf hxs
    exact key rest u1 u' hg h hm

theorem improve_nodup {nw : Network} {s s' : Schedule} {vs : List Veh}
    (h : improveDepots nw s (some vs) = .ok s') : vs.Nodup := by
  unfold improveDepots at h
  dsimp only at h
  obtain ⟨usage0, h0, _⟩ := bind_ok h
  exact takeOutAll_nodup vs _ usage0 h0

/-- the argument condition of the cost theorem is implied by the success of the modification -/
theorem argsOK_of_success {nw : Network} {s : Schedule} {op : SOp} {r : OpResult}
    (h : applyOp nw s op = .ok r) : C09C.ArgsOK op := by
  cases op with
  | improve vs =>
    cases vs with
    | none => trivial
    | some l =>
      unfold applyOp at h
      obtain ⟨s', hs, _⟩ := bind_ok h
      exact improve_nodup hs
  | _ => trivial

/-- **C09 / C04 (cost cache), one step, no argument condition** -/
theorem C09_cost_step_all (nw : Network) (s : Schedule) (op : SOp) (r : OpResult)
    (hinv : C09C.Inv nw s) (h : applyOp nw s op = .ok r) : C09C.Inv nw r.sched :=
  C09_cost_step nw s op r hinv (argsOK_of_success h) h

theorem C09_cost_reachable_all (nw : Network) : ∀ (ops : List SOp) (s s' : Schedule),
    C09C.Inv nw s → runOps nw s ops = some s' → C09C.Inv nw s'
  | [], s, s', hinv, h => by simp only [runOps, Option.some.injEq] at h; rw [← h]; exact hinv
  | op :: rest, s, s', hinv, h => by
    unfold runOps at h
    split at h
    · rename_i r hr
      exact C09_cost_reachable_all nw rest r.sched s' (C09_cost_step_all nw s op r hinv hr) h
    · cases h

/-- **C09 / C04 (cost cache), every history, unconditional**: in every schedule the model reaches
    from the empty schedule by public modifications with ANY arguments, the cached costs are
    Σ tour costs + staff term -/
theorem C09_cost_from_empty_all (nw : Network) (ops : List SOp) (s' : Schedule)
    (h : runOps nw (Schedule.empty nw) ops = some s') : s'.costs = sumCost s'.tours + staffTerm nw :=
  (C09_cost_reachable_all nw ops _ s'
    ⟨empty_listInv nw, by intro d hd; simp [Schedule.empty, assocGet?_nil] at hd, empty_cost nw⟩ h).cost

/-! ### through search and pipeline: formation membership, unserved cache, cost cache, violation cache -/

structure InvAll (nw : Network) (s : Schedule) : Prop where
  fu : C09U.InvFU nw s
  cost : CostEq nw s
  viol : C09S.ViolExact s.transitions s.violation

theorem stepInv_all {nw : Network} (hn : NetHyp nw) : C11A.StepInv nw (InvAll nw) where
  step := fun s op r hinv hargs h =>
    ⟨(C09U.stepInv_invFU hn).step s op r hinv.fu hargs h,
     (C09_cost_step_all nw s op r ⟨hinv.fu.invF.inv.tinv.listing, hinv.fu.invF.inv.tinv.dummies, hinv.cost⟩ h).cost,
     C09S.C09_violation_step nw s op r hinv.viol h⟩
  fresh := fun _ _ _ hinv hpt => C11A.tour_ne_fresh hinv.fu.invF hpt
  setT := fun s trans hnd h => ⟨(C09U.stepInv_invFU hn).setT s trans hnd h.fu, h.cost, ⟨hnd, rfl⟩⟩
  empty := ⟨(C09U.stepInv_invFU hn).empty, empty_cost nw, C09S.empty_viol nw⟩

/-- **C04 / C09 / C03 / C10 at pipeline level, all caches**: for every network with the decidable
    hypotheses, every decoded flow, every number of local-search steps and every transition optimiser
    (distinct type keys) — if the modelled `solve_instance` returns, then the start schedule, the
    local-search result and the returned schedule satisfy: formation membership, valid real and dummy
    tours, exact unserved-passengers cache, cached costs = Σ tour costs + staff term, cached
    maintenance violation = Σ per-type totals -/
theorem C04_pipeline_caches (nw : Network) (hn : NetHyp nw) (o : Solve.Oracle)
    (hopt : ∀ s, ((o.optimise s).map (·.1)).Nodup) (tr : Solve.Trace) (h : Solve.solve nw o = .ok tr) :
    InvAll nw tr.start ∧ InvAll nw tr.afterSearch ∧ InvAll nw tr.final :=
  C11A.solve_inv (stepInv_all hn) o hopt tr h

/-- … and for every candidate the search evaluates -/
theorem C11_candidates_caches (nw : Network) (hn : NetHyp nw) {limit threshold : Option Nat} {s : Schedule}
    {last : SwapInfo} {cands : List Swaps.Candidate} (hinv : InvAll nw s)
    (h : Swaps.neighborsOf nw limit threshold s last = .ok cands) : ∀ c ∈ cands, InvAll nw c.sched :=
  C11A.neighbors_invF (stepInv_all hn).toStepInv0 hinv h

end RSSched.C09A
