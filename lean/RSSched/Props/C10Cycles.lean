/-
Props/C10Cycles: the rotation-cycle clause of C10 (and the partition half of C05), for the model,
every history: for every vehicle type the stored transition is consistent with the stored tours
(`C15.Consistent`: duplicate-free cycles, exact lookup, exact list of reusable empty cycles, exact
maintenance counters, exact totals) and its cycles hold exactly the real vehicles of that type — so
every real vehicle belongs to exactly one rotation cycle of its type. The per-operation theorems of
Props/C15Ops (stated relative to the "updated tours first, then old tours" overlay) and
`newFast_consistent` are lifted through `update_transitions_and_violation_fast`,
`recompute_transitions_and_violation_fast` and every public modification.
-/
import RSSched.Props.C15NewFast
import RSSched.Props.C10Limits
namespace RSSched.C10Cyc
open RSSched Schedule Network Tour Spec C15 C02 C13 C10T C10L C09C C10S C10F C10D C10Fit C10U C15N

/-- per type: the transition is consistent with the tour map and holds exactly the vehicles of the type -/
def TypeOK (nw : Network) (T : TourMap) (typeOf : Veh → Option Nat) (vt : Nat) (tr : Transition) : Prop :=
  Consistent nw T tr ∧ ∀ w, w ∈ members tr ↔ typeOf w = some vt

/-- **the rotation-cycle clause** -/
def CycInv (nw : Network) (s : Schedule) : Prop :=
  ∀ vt tr, assocGet? s.transitions vt = some tr →
    TypeOK nw (TM s.tours) (fun w => assocGet? s.vehicles w) vt tr

theorem consistent_congr {nw : Network} {T T' : TourMap} {tr : Transition} (hc : Consistent nw T tr)
    (hT : ∀ w ∈ members tr, T' w = T w) : Consistent nw T' tr := by
  have hmem : ∀ (i : Nat) (c : Cycle), tr.cycles[i]? = some c → ∀ w ∈ c.vehicles, w ∈ members tr := by
    intro i c hi w hw
    exact List.mem_flatMap.mpr ⟨c, List.mem_of_getElem? hi, hw⟩
  exact ⟨hc.cycNodup, fun i c hi w hw => toured_congr (hT w (hmem i c hi w hw)) (hc.toured i c hi w hw),
    hc.keys, hc.lookup, hc.emptyNodup, hc.empty,
    fun i c hi => by
      rw [hc.counter i c hi]
      exact (counterSpec_congr nw T T' c.vehicles (fun w hw => hT w (hmem i c hi w hw))).symm,
    hc.totV, hc.totC⟩

theorem overlay_set (updated old : Tours) (v : Veh) (t : Tour) (w : Veh) :
    overlay (assocSet updated v t) old w = overlay ((v, t) :: updated) old w := by
  rw [overlay_cons]
  unfold overlay
  rw [assocGet?_assocSet]
  by_cases e : w = v
  · subst e; simp
  · have e' : ¬ v = w := fun h => e h.symm
    simp [e, e']

/-- state of the loop of `update_transitions_and_violation_fast` after the vehicles `done` -/
structure LoopInv (nw : Network) (s : Schedule) (V' : List (Veh × Nat)) (T' : Tours) (done : List Veh)
    (updated : Tours) (trans : List (Nat × Transition)) : Prop where
  types : ∀ vt tr, assocGet? trans vt = some tr →
    Consistent nw (overlay updated s.tours) tr ∧
    ∀ w, w ∈ members tr ↔ (if w ∈ done then assocGet? V' w = some vt else assocGet? s.vehicles w = some vt)
  upd : ∀ w, w ∈ done → (assocGet? V' w).isSome = true → assocGet? updated w = assocGet? T' w ∧ (assocGet? T' w).isSome = true
  keys : ∀ w, (assocGet? updated w).isSome = true → w ∈ done

theorem members_of_vehicles {tr tr' : Transition} (h : tr'.cycles.map (·.vehicles) = tr.cycles.map (·.vehicles)) :
    members tr' = members tr := by
  unfold members
  rw [List.flatMap_def, List.flatMap_def, h]

/-- one vehicle handled: its type's transition replaced, the overlay changed at most at that vehicle -/
theorem loopInv_step {nw : Network} {s : Schedule} {V' : List (Veh × Nat)} {T' : Tours} {done : List Veh}
    {updated updated' : Tours} {trans : List (Nat × Transition)} {v : Veh} {vt : Nat} {new : Transition}
    (hinv : LoopInv nw s V' T' done updated trans) (hvd : v ∉ done)
    (hoff : ∀ w, w ≠ v → assocGet? updated' w = assocGet? updated w)
    (hvt : ∀ vt2, vt2 ≠ vt → assocGet? V' v ≠ some vt2 ∧ assocGet? s.vehicles v ≠ some vt2)
    (hnew : Consistent nw (overlay updated' s.tours) new ∧
      ∀ w, w ∈ members new ↔ (if w ∈ v :: done then assocGet? V' w = some vt else assocGet? s.vehicles w = some vt))
    (hupd : (assocGet? V' v).isSome = true → assocGet? updated' v = assocGet? T' v ∧ (assocGet? T' v).isSome = true) :
    LoopInv nw s V' T' (v :: done) updated' (assocSet trans vt new) := by
  have hov : ∀ w, w ≠ v → overlay updated' s.tours w = overlay updated s.tours w := by
    intro w hw; unfold overlay; rw [hoff w hw]
  refine ⟨fun vt2 tr2 hg => ?_, fun w hw hV => ?_, fun w hw => ?_⟩
  · rw [assocGet?_assocSet] at hg
    by_cases e : vt2 = vt
    · simp only [e, ↓reduceIte, Option.some.injEq] at hg
      subst hg; subst e; exact hnew
    · simp only [e, ↓reduceIte] at hg
      obtain ⟨hc, hm⟩ := hinv.types vt2 tr2 hg
      obtain ⟨h1, h2⟩ := hvt vt2 e
      have hvnot : v ∉ members tr2 := by
        intro hmem
        have := (hm v).mp hmem
        rw [if_neg hvd] at this
        exact h2 this
      refine ⟨consistent_congr hc (fun w hw => hov w (fun e2 => hvnot (e2 ▸ hw))), fun w => ?_⟩
      rw [hm w]
      by_cases ew : w = v
      · subst ew
        rw [if_neg hvd, if_pos (by simp)]
        constructor
        · intro h; exact absurd h h2
        · intro h; exact absurd h h1
      · by_cases hd : w ∈ done
        · rw [if_pos hd, if_pos (by simp [hd])]
        · rw [if_neg hd, if_neg (by simp [hd, ew])]
  · rcases List.mem_cons.mp hw with e | e
    · subst e; exact hupd hV
    · have hne : w ≠ v := fun e2 => hvd (e2 ▸ e)
      rw [hoff w hne]; exact hinv.upd w e hV
  · by_cases e : w = v
    · simp [e]
    · rw [hoff w e] at hw
      exact List.mem_cons_of_mem _ (hinv.keys w hw)

theorem utf_inv {nw : Network} {s : Schedule} {V' : List (Veh × Nat)} {T' : Tours}
    (hsub : ∀ w vt, assocGet? V' w = some vt → s.isVehicle w = true → assocGet? s.vehicles w = some vt)
    (hdum : ∀ w, w.dummy = true → assocGet? V' w = none ∧ assocGet? s.vehicles w = none) :
    ∀ (L : List Veh) (done : List Veh) (updated : Tours) (trans : List (Nat × Transition)) (viol : Int)
      (res : List (Nat × Transition) × Int), L.Nodup → (∀ v ∈ L, v ∉ done) →
      LoopInv nw s V' T' done updated trans →
      updateTransitionsFast nw s V' T' L updated trans viol = .ok res →
      ∃ updated', LoopInv nw s V' T' (L.reverse ++ done) updated' res.1
  | [], done, updated, trans, viol, res, _, _, hinv, h => by
    simp only [updateTransitionsFast, pure, Except.pure, Except.ok.injEq] at h
    subst h
    exact ⟨updated, by simpa using hinv⟩
  | v :: rest, done, updated, trans, viol, res, hnd, hnew, hinv, h => by
    have hvd : v ∉ done := hnew v (by simp)
    have hrestnd := (List.nodup_cons.mp hnd).2
    have hvrest := (List.nodup_cons.mp hnd).1
    have hnew' : ∀ w ∈ rest, w ∉ v :: done := by
      intro w hw hm
      rcases List.mem_cons.mp hm with e | e
      · subst e; exact hvrest hw
      · exact hnew w (by simp [hw]) e
    have finish : ∀ updated' trans' viol', LoopInv nw s V' T' (v :: done) updated' trans' →
        updateTransitionsFast nw s V' T' rest updated' trans' viol' = .ok res →
        ∃ u, LoopInv nw s V' T' ((v :: rest).reverse ++ done) u res.1 := by
      intro updated' trans' viol' hinv' hrec
      obtain ⟨u, hu⟩ := utf_inv hsub hdum rest (v :: done) updated' trans' viol' res hrestnd hnew' hinv' hrec
      refine ⟨u, ?_⟩
      have : (v :: rest).reverse ++ done = rest.reverse ++ (v :: done) := by simp
      rw [this]; exact hu
    unfold updateTransitionsFast at h
    split at h
    · -- a dummy id: nothing happens
      rename_i hdm
      obtain ⟨h1, h2⟩ := hdum v hdm
      refine finish updated trans viol ?_ h
      refine ⟨fun vt tr hg => ?_, fun w hw hV => ?_, fun w hw => List.mem_cons_of_mem _ (hinv.keys w hw)⟩
      · obtain ⟨hc, hm⟩ := hinv.types vt tr hg
        refine ⟨hc, fun w => ?_⟩
        rw [hm w]
        by_cases ew : w = v
        · subst ew
          rw [if_neg hvd, if_pos (by simp), h1, h2]
        · by_cases hd : w ∈ done
          · rw [if_pos hd, if_pos (by simp [hd])]
          · rw [if_neg hd, if_neg (by simp [hd, ew])]
      · rcases List.mem_cons.mp hw with e | e
        · subst e; rw [h1] at hV; cases hV
        · exact hinv.upd w e hV
    · obtain ⟨vt, hvt, h⟩ := bind_ok h
      obtain ⟨old, hold, h⟩ := bind_ok h
      have hvt := unwrapO_ok hvt
      have hold := unwrapO_ok hold
      dsimp only at h
      obtain ⟨hc, hm⟩ := hinv.types vt old hold
      have hfresh : assocGet? updated v = none := by
        cases hg : assocGet? updated v with
        | none => rfl
        | some x => exact absurd (hinv.keys v (by simp [hg])) hvd
      have hmv : v ∈ members old ↔ assocGet? s.vehicles v = some vt := by
        rw [hm v, if_neg hvd]
      split at h
      · -- still a vehicle: update
        rename_i hisv hinNew
        obtain ⟨nt, hnt, h⟩ := bind_ok h
        obtain ⟨tr, htr, h⟩ := bind_ok h
        simp only [pure_bind] at h
        have hnt := unwrapO_ok hnt
        obtain ⟨vt', hV'v⟩ := Option.isSome_iff_exists.mp hinNew
        have hvt' : vt' = vt := by
          unfold typeIn at hvt; rw [hV'v] at hvt; exact Option.some.inj hvt
        subst hvt'
        have hsv := hsub v vt' hV'v hisv
        obtain ⟨hc', hveh, _, _⟩ := update_consistent nw old tr v nt updated s.tours hc hfresh htr
        refine finish _ _ _ ?_ h
        refine loopInv_step hinv hvd (fun w hw => get_set_ne _ _ _ _ hw)
          (fun vt2 hne => ⟨(by rw [hV'v]; intro e; exact hne (Option.some.inj e).symm),
            (by rw [hsv]; intro e; exact hne (Option.some.inj e).symm)⟩)
          ⟨consistent_congr hc' (fun w _ => overlay_set updated s.tours v nt w), fun w => ?_⟩
          (fun _ => ⟨(by rw [assocGet?_assocSet]; simp [hnt]), (by simp [hnt])⟩)
        rw [members_of_vehicles hveh, hm w]
        by_cases ew : w = v
        · subst ew
          rw [if_neg hvd, if_pos (by simp), hsv, hV'v]
        · by_cases hd : w ∈ done
          · rw [if_pos hd, if_pos (by simp [hd])]
          · rw [if_neg hd, if_neg (by simp [hd, ew])]
      · -- a new vehicle: its own cycle
        rename_i hisv hinNew
        obtain ⟨nt, hnt, h⟩ := bind_ok h
        obtain ⟨tr, htr, h⟩ := bind_ok h
        simp only [pure_bind] at h
        have hnt := unwrapO_ok hnt
        obtain ⟨vt', hV'v⟩ := Option.isSome_iff_exists.mp hinNew
        have hvt' : vt' = vt := by
          unfold typeIn at hvt; rw [hV'v] at hvt; exact Option.some.inj hvt
        subst hvt'
        have hsv : assocGet? s.vehicles v = none := by
          unfold Schedule.isVehicle at hisv
          cases hg : assocGet? s.vehicles v with
          | none => rfl
          | some x => rw [hg] at hisv; cases hisv
        have hnotmem : v ∉ members old := by rw [hmv, hsv]; intro e; cases e
        obtain ⟨hc', hmem'⟩ := addOwn_consistent nw old tr v nt updated s.tours hc (not_member_lookup hc hnotmem) htr
        refine finish _ _ _ ?_ h
        refine loopInv_step hinv hvd (fun w hw => get_set_ne _ _ _ _ hw)
          (fun vt2 hne => ⟨(by rw [hV'v]; intro e; exact hne (Option.some.inj e).symm), (by rw [hsv]; intro e; cases e)⟩)
          ⟨consistent_congr hc' (fun w _ => overlay_set updated s.tours v nt w), fun w => ?_⟩
          (fun _ => ⟨(by rw [assocGet?_assocSet]; simp [hnt]), (by simp [hnt])⟩)
        rw [hmem' w, hm w]
        by_cases ew : w = v
        · subst ew
          rw [if_neg hvd, if_pos (by simp), hV'v]; simp
        · by_cases hd : w ∈ done
          · rw [if_pos hd, if_pos (by simp [hd])]; simp [ew]
          · rw [if_neg hd, if_neg (by simp [hd, ew])]; simp [ew]
      · -- no longer a vehicle: removed from its cycle
        rename_i hisv hinNew
        obtain ⟨tr, htr, h⟩ := bind_ok h
        simp only [pure_bind] at h
        have hV'v : assocGet? V' v = none := by
          cases hg : assocGet? V' v with
          | none => rfl
          | some x => rw [hg] at hinNew; cases hinNew
        have hsv : assocGet? s.vehicles v = some vt := by
          unfold typeIn at hvt; rw [hV'v] at hvt; exact hvt
        obtain ⟨hc', hmem', _⟩ := remove_consistent nw old tr v updated s.tours hc hfresh htr
        refine finish _ _ _ ?_ h
        refine loopInv_step hinv hvd (fun w _ => rfl)
          (fun vt2 hne => ⟨(by rw [hV'v]; intro e; cases e), (by rw [hsv]; intro e; exact hne (Option.some.inj e).symm)⟩)
          ⟨hc', fun w => ?_⟩
          (fun hV => by rw [hV'v] at hV; cases hV)
        rw [hmem' w, hm w]
        by_cases ew : w = v
        · subst ew
          rw [if_neg hvd, if_pos (by simp), hV'v]; simp
        · by_cases hd : w ∈ done
          · rw [if_pos hd, if_pos (by simp [hd])]; simp [ew]
          · rw [if_neg hd, if_neg (by simp [hd, ew])]; simp [ew]
      · simp [bind, Except.bind] at h

/-- `update_transitions_and_violation_fast` over a duplicate-free list outside of which vehicles and
    tours are unchanged: the result is consistent with the new tours and holds the new vehicles -/
theorem utf_cyc {nw : Network} {s : Schedule} {V' : List (Veh × Nat)} {T' : Tours} {L : List Veh}
    {res : List (Nat × Transition) × Int} (hcyc : CycInv nw s)
    (hsub : ∀ w vt, assocGet? V' w = some vt → s.isVehicle w = true → assocGet? s.vehicles w = some vt)
    (hdum : ∀ w, w.dummy = true → assocGet? V' w = none ∧ assocGet? s.vehicles w = none)
    (hnd : L.Nodup)
    (hframeV : ∀ w, w ∉ L → assocGet? V' w = assocGet? s.vehicles w)
    (hframeT : ∀ w, w ∉ L → assocGet? T' w = assocGet? s.tours w)
    (h : updateTransitionsFast nw s V' T' L [] s.transitions s.violation = .ok res) :
    ∀ vt tr, assocGet? res.1 vt = some tr → TypeOK nw (TM T') (fun w => assocGet? V' w) vt tr := by
  have h0 : LoopInv nw s V' T' [] [] s.transitions := by
    refine ⟨fun vt tr hg => ?_, fun w hw => (by cases hw), fun w hw => (by simp [assocGet?_nil] at hw)⟩
    obtain ⟨hc, hm⟩ := hcyc vt tr hg
    refine ⟨consistent_congr hc (fun w _ => by unfold overlay TM; simp [assocGet?_nil]), fun w => ?_⟩
    rw [hm w]; simp
  obtain ⟨updated', hfin⟩ := utf_inv hsub hdum L [] [] s.transitions s.violation res hnd (fun _ _ h => by cases h) h0 h
  intro vt tr hg
  obtain ⟨hc, hm⟩ := hfin.types vt tr hg
  have hmem : ∀ w, w ∈ members tr ↔ assocGet? V' w = some vt := by
    intro w
    rw [hm w]
    by_cases hw : w ∈ L
    · rw [if_pos (by simp [hw])]
    · rw [if_neg (by simp [hw]), hframeV w hw]
  refine ⟨consistent_congr hc (fun w hw => ?_), hmem⟩
  unfold overlay TM
  by_cases hwL : w ∈ L
  · have hV := (hmem w).mp hw
    obtain ⟨e1, e2⟩ := hfin.upd w (by simp [hwL]) (by simp [hV])
    obtain ⟨t, ht⟩ := Option.isSome_iff_exists.mp e2
    rw [e1, ht]
  · have : assocGet? updated' w = none := by
      cases hg2 : assocGet? updated' w with
      | none => rfl
      | some x =>
        have := hfin.keys w (by simp [hg2])
        simp at this
        exact absurd this hwL
    rw [this]
    exact hframeT w hwL

/-- `recompute_transitions_and_violation_fast`: the listed types get a transition built from scratch -/
theorem recompute_cyc {nw : Network} {s : Schedule} {T' : Tours} (hi : ListInv s)
    (htoured : ∀ v t, assocGet? T' v = some t → (assocGet? s.vehicles v).isSome = true → Toured nw (TM T') v)
    (hsame : ∀ v, (assocGet? T' v).isSome = (assocGet? s.tours v).isSome) :
    ∀ (vts : List Nat) (trans : List (Nat × Transition)) (viol : Int) (res : List (Nat × Transition) × Int),
      (∀ vt tr, assocGet? trans vt = some tr → vt ∉ vts →
        TypeOK nw (TM T') (fun w => assocGet? s.vehicles w) vt tr) →
      recomputeTransitions nw s.idsByType T' vts trans viol = .ok res →
      ∀ vt tr, assocGet? res.1 vt = some tr → TypeOK nw (TM T') (fun w => assocGet? s.vehicles w) vt tr
  | [], trans, viol, res, hinv, h => by
    simp only [recomputeTransitions, pure, Except.pure, Except.ok.injEq] at h
    subst h
    intro vt tr hg
    exact hinv vt tr hg (by simp)
  | vt0 :: rest, trans, viol, res, hinv, h => by
    unfold recomputeTransitions at h
    obtain ⟨ids, hids, h⟩ := bind_ok h
    obtain ⟨new, hnew, h⟩ := bind_ok h
    obtain ⟨old, hold, h⟩ := bind_ok h
    have hids := unwrapO_ok hids
    have hidsnd : ids.Nodup := hi.idsNodup vt0 ids hids
    have htyped : ∀ v ∈ ids, assocGet? s.vehicles v = some vt0 := hi.typed vt0 ids hids
    have htr : ∀ v ∈ ids, Toured nw (TM T') v := by
      intro v hv
      have hV := htyped v hv
      have hs : (assocGet? s.vehicles v).isSome = (assocGet? s.tours v).isSome := hi.same v
      have h1 : (assocGet? s.tours v).isSome = true := by rw [← hs, hV]; rfl
      rw [← hsame v] at h1
      obtain ⟨t, ht⟩ := Option.isSome_iff_exists.mp h1
      exact htoured v t ht (by rw [hV]; rfl)
    obtain ⟨hc, hm, _⟩ := newFast_consistent nw ids T' new hidsnd htr hnew
    have hnewOK : TypeOK nw (TM T') (fun w => assocGet? s.vehicles w) vt0 new := by
      refine ⟨hc, fun w => ?_⟩
      rw [hm w]
      constructor
      · exact htyped w
      · intro hw
        obtain ⟨l, hl, hwl⟩ := hi.complete w vt0 hw
        have : l = ids := by
          have h2 : assocGet? s.idsByType vt0 = some l := hl
          rw [hids] at h2; exact (Option.some.inj h2).symm
        rw [← this]; exact hwl
    refine recompute_cyc hi htoured hsame rest _ _ res (fun vt tr hg hnot => ?_) h
    rw [assocGet?_assocSet] at hg
    by_cases e : vt = vt0
    · simp only [e, ↓reduceIte, Option.some.injEq] at hg
      subst hg; subst e; exact hnewOK
    · simp only [e, ↓reduceIte] at hg
      exact hinv vt tr hg (by simp [e, hnot])

/-! ### the public modifications -/

theorem dummy_no_vehicle {s : Schedule} (hi : ListInv s) {w : Veh} (hw : w.dummy = true) :
    assocGet? s.vehicles w = none := by
  cases hg : assocGet? s.vehicles w with
  | none => rfl
  | some x =>
    have hs : (assocGet? s.vehicles w).isSome = (assocGet? s.tours w).isSome := hi.same w
    have h2 : (assocGet? s.tours w).isSome = true := by rw [← hs, hg]; rfl
    have := (hi.fresh w h2).1
    rw [hw] at this; cases this

/-- the common leaf: a call of `update_transitions_and_violation_fast` on the vehicles `L` -/
theorem cyc_leaf {nw : Network} {s : Schedule} {V' : List (Veh × Nat)} {T' : Tours} {L : List Veh}
    {res : List (Nat × Transition) × Int} (hi : ListInv s) (hcyc : CycInv nw s)
    (hdumV' : ∀ w, w.dummy = true → assocGet? V' w = none)
    (hnd : L.Nodup)
    (hV : ∀ w, w ∉ L → assocGet? V' w = assocGet? s.vehicles w)
    (hT : ∀ w, w ∉ L → assocGet? T' w = assocGet? s.tours w)
    (htype : ∀ w vt, w ∈ L → assocGet? V' w = some vt → s.isVehicle w = true → assocGet? s.vehicles w = some vt)
    (h : updateTransitionsFast nw s V' T' L [] s.transitions s.violation = .ok res) :
    ∀ vt tr, assocGet? res.1 vt = some tr → TypeOK nw (TM T') (fun w => assocGet? V' w) vt tr := by
  refine utf_cyc hcyc (fun w vt hw hv => ?_) (fun w hw => ⟨hdumV' w hw, dummy_no_vehicle hi hw⟩) hnd hV hT h
  by_cases hL : w ∈ L
  · exact htype w vt hL hw hv
  · rw [← hV w hL]; exact hw

theorem cycInv_of {nw : Network} {s' : Schedule}
    (h : ∀ vt tr, assocGet? s'.transitions vt = some tr →
      TypeOK nw (TM s'.tours) (fun w => assocGet? s'.vehicles w) vt tr) : CycInv nw s' := h

theorem spawn_cyc {nw : Network} {s s' : Schedule} {vt : Nat} {path : List Nat} {v : Veh}
    (hi : ListInv s) (hi' : ListInv s') (hcyc : CycInv nw s)
    (h : spawnVehicleForPath nw s vt path = .ok (s', v)) : CycInv nw s' := by
  have hdumV' : ∀ w, w.dummy = true → assocGet? s'.vehicles w = none := fun w hw => dummy_no_vehicle hi' hw
  unfold spawnVehicleForPath at h
  inv_do h
  all_goals (try contradiction)
  all_goals (try (cases h))
  all_goals (try (simp only [pure, Except.pure, Except.ok.injEq] at *))
  all_goals (try subst_vars)
  all_goals (
    refine cycInv_of (cyc_leaf (L := [Veh.real s.counter]) hi hcyc hdumV' (by simp)
      (fun w hw => get_set_ne _ _ _ _ (by simpa using hw)) (fun w hw => get_set_ne _ _ _ _ (by simpa using hw)) ?_
      (by assumption))
    intro w vt' hw _ hv
    simp only [List.mem_singleton] at hw
    subst hw
    have := C09U.fresh_not_vehicle hi
    unfold Schedule.isVehicle at hv
    rw [hv] at this; cases this)

theorem delete_cyc {nw : Network} {s s' : Schedule} {v : Veh}
    (hi : ListInv s) (hi' : ListInv s') (hcyc : CycInv nw s)
    (h : replaceVehicleByDummy nw s v = .ok s') : CycInv nw s' := by
  have hdumV' : ∀ w, w.dummy = true → assocGet? s'.vehicles w = none := fun w hw => dummy_no_vehicle hi' hw
  unfold replaceVehicleByDummy at h
  inv_do h
  all_goals (try contradiction)
  all_goals (try (cases h))
  all_goals (try (simp only [pure, Except.pure, Except.ok.injEq] at *))
  all_goals (try subst_vars)
  all_goals (
    refine cycInv_of (cyc_leaf (L := [v]) hi hcyc hdumV' (by simp)
      (fun w hw => get_erase_ne _ _ _ (by simpa using hw)) (fun w hw => get_erase_ne _ _ _ (by simpa using hw)) ?_
      (by assumption))
    intro w vt' hw hV' _
    simp only [List.mem_singleton] at hw
    subst hw
    have hV'' : assocGet? (assocErase s.vehicles w) w = some vt' := hV'
    rw [assocGet?_assocErase] at hV''; simp at hV'')

theorem addPath_cyc {nw : Network} {s s' : Schedule} {v : Veh} {path : List Nat} {rm : Option (List Nat)}
    (hi : ListInv s) (hi' : ListInv s') (hcyc : CycInv nw s)
    (h : addPathToVehicleTour nw s v path = .ok (s', rm)) : CycInv nw s' := by
  have hdumV' : ∀ w, w.dummy = true → assocGet? s'.vehicles w = none := fun w hw => dummy_no_vehicle hi' hw
  unfold addPathToVehicleTour at h
  inv_do h
  all_goals (try contradiction)
  all_goals (try (cases h))
  all_goals (try (simp only [pure, Except.pure, Except.ok.injEq] at *))
  all_goals (try subst_vars)
  all_goals (
    exact cycInv_of (cyc_leaf (L := [v]) hi hcyc hdumV' (by simp)
      (fun w _ => rfl) (fun w hw => get_set_ne _ _ _ _ (by simpa using hw)) (fun w vt' _ hV' _ => hV')
      (by assumption)))

theorem rmSeg_cyc {nw : Network} {s s' : Schedule} {v : Veh} {a b : Nat}
    (hi : ListInv s) (hd : DummyInv s) (hi' : ListInv s') (hcyc : CycInv nw s)
    (h : removeSegment nw s v a b = .ok s') : CycInv nw s' := by
  have hdumV' : ∀ w, w.dummy = true → assocGet? s'.vehicles w = none := fun w hw => dummy_no_vehicle hi' hw
  unfold removeSegment at h
  inv_do h
  all_goals (try contradiction)
  all_goals (try (cases h))
  all_goals (first
    | exact delete_cyc hi hi' hcyc (by assumption)
    | (simp only [pure, Except.pure, Except.ok.injEq] at *
       subst_vars
       have hv' : s.isVehicle v = true := by simpa using (by assumption : ¬ (!s.isVehicle v) = true)
       have hnd := vehicle_not_dummy hi hd hv'
       have hutc := utc_tours (by assumption : updateTourAndCosts s s.tours _ _ v _ = .ok _)
       simp only [hnd, Bool.false_eq_true, ↓reduceIte] at hutc
       refine cycInv_of (cyc_leaf (L := [v]) hi hcyc hdumV' (by simp)
         (fun w _ => rfl) ?_ (fun w vt' _ hV' _ => hV') (by assumption))
       intro w hw
       show assocGet? _ w = assocGet? s.tours w
       rw [hutc]; exact get_set_ne _ _ _ _ (by simpa using hw)))

theorem provVehicles_sub (s : Schedule) (p : Veh) (np : Option Tour) (w : Veh) (vt : Nat)
    (h : assocGet? (C10Lim.provVehicles s p np) w = some vt) : assocGet? s.vehicles w = some vt := by
  unfold C10Lim.provVehicles at h
  cases np with
  | some t => exact h
  | none =>
    dsimp only at h
    split at h
    · exact h
    · split at h
      · rw [assocGet?_assocErase] at h
        by_cases e : w = p
        · simp [e] at h
        · simpa [e] using h
      · exact h

/-- the leaf of the two reassignments -/
theorem reassign_cyc_leaf {nw : Network} {s : Schedule} {w' : Work} {p r : Veh} {newProv : Option Tour}
    {newRecv : Tour} {moved : List Nat} {res : List (Nat × Transition) × Int}
    (hi : ListInv s) (hcyc : CycInv nw s) (hne : p ≠ r)
    (hdumV' : ∀ w, w.dummy = true → assocGet? w'.vehicles w = none)
    (hut : updateTours nw s (Work.ofSchedule s) (some p) newProv r newRecv moved = .ok w')
    (h : updateTransitionsFast nw s w'.vehicles w'.tours [p, r] [] s.transitions s.violation = .ok res) :
    ∀ vt tr, assocGet? res.1 vt = some tr → TypeOK nw (TM w'.tours) (fun w => assocGet? w'.vehicles w) vt tr := by
  have hT := (updateTours_spec hut).1
  have hV := C10Lim.updateTours_vehicles hut
  refine cyc_leaf (L := [p, r]) hi hcyc hdumV' (by simp [hne]) (fun w hw => ?_) (fun w hw => ?_)
    (fun w vt _ hV' _ => ?_) h
  · simp only [List.mem_cons, List.not_mem_nil, or_false, not_or] at hw
    rw [hV]; exact C10Lim.provVehicles_ne s p newProv w hw.1
  · simp only [List.mem_cons, List.not_mem_nil, or_false, not_or] at hw
    rw [hT]
    split
    · exact C10Lim.provTours_ne s p newProv w hw.1
    · rw [get_set_ne _ _ _ _ hw.2]; exact C10Lim.provTours_ne s p newProv w hw.1
  · rw [hV] at hV'
    exact provVehicles_sub s p newProv w vt hV'

theorem fit_cyc {nw : Network} {s s' : Schedule} {p r : Veh} {a b : Nat}
    (hi : ListInv s) (hi' : ListInv s') (hcyc : CycInv nw s) (hne : p ≠ r)
    (h : fitReassign nw s p r a b = .ok s') : CycInv nw s' := by
  have hdumV' : ∀ w, w.dummy = true → assocGet? s'.vehicles w = none := fun w hw => dummy_no_vehicle hi' hw
  unfold fitReassign at h
  inv_do h
  all_goals (try contradiction)
  all_goals (try (cases h))
  all_goals (try (simp only [pure, Except.pure, Except.ok.injEq] at *))
  all_goals (try subst_vars)
  all_goals (
    exact cycInv_of (reassign_cyc_leaf hi hcyc hne hdumV' (by assumption) (by assumption)))

theorem override_cyc {nw : Network} {s s' : Schedule} {p r : Veh} {a b : Nat} {d : Option Veh}
    (hi : ListInv s) (hi' : ListInv s') (hcyc : CycInv nw s) (hne : p ≠ r)
    (h : overrideReassign nw s p r a b = .ok (s', d)) : CycInv nw s' := by
  have hdumV' : ∀ w, w.dummy = true → assocGet? s'.vehicles w = none := fun w hw => dummy_no_vehicle hi' hw
  unfold overrideReassign at h
  inv_do h
  all_goals (try contradiction)
  all_goals (try (cases h))
  all_goals (try (simp only [pure, Except.pure, Except.ok.injEq] at *))
  all_goals (try subst_vars)
  all_goals (
    try dsimp only at hdumV' ⊢
    exact cycInv_of (reassign_cyc_leaf hi hcyc hne hdumV' (by assumption) (by assumption)))

theorem dummySpawn_cyc {nw : Network} {s s' : Schedule} {d : Veh} {vt : Nat} {v : Veh}
    (hi : ListInv s) (hi' : ListInv s') (hcyc : CycInv nw s)
    (h : spawnToReplaceDummy nw s d vt = .ok (s', v)) : CycInv nw s' := by
  unfold spawnToReplaceDummy at h
  inv_do h
  all_goals (try contradiction)
  all_goals (try (cases h))
  all_goals (
    rename_i s1 hdel
    have hcore := deleteDummy_core hdel
    have hV : s1.vehicles = s.vehicles := congrArg Core.vehicles hcore
    have hT : s1.tours = s.tours := congrArg Core.tours hcore
    have hTr : s1.transitions = s.transitions := by
      unfold deleteDummy at hdel
      inv_do hdel
      all_goals (try contradiction)
      all_goals (try (cases hdel))
      all_goals rfl
    refine spawn_cyc (deleteDummy_listInv hi hdel) hi' ?_ h
    unfold CycInv; rw [hV, hT, hTr]; exact hcyc)

theorem fold_frame (F : Acc → Veh → R Acc)
    (hF : ∀ acc v acc', F acc v = .ok acc' → ∃ nt, acc'.1 = assocSet acc.1 v nt) :
    ∀ (L : List Veh) (acc acc' : Acc), L.foldlM F acc = .ok acc' →
      ∀ w, w ∉ L → assocGet? acc'.1 w = assocGet? acc.1 w
  | [], acc, acc', h, w, _ => by
    simp only [List.foldlM_nil, pure, Except.pure, Except.ok.injEq] at h
    rw [← h]
  | x :: xs, acc, acc', h, w, hw => by
    rw [List.foldlM_cons] at h
    obtain ⟨a1, h1, h⟩ := bind_ok h
    obtain ⟨nt, hset⟩ := hF acc x a1 h1
    rw [fold_frame F hF xs a1 acc' h w (fun hm => hw (by simp [hm])), hset]
    exact get_set_ne _ _ _ _ (fun e => hw (by simp [e]))

theorem tourOK_toured {nw : Network} {T : Tours} {v : Veh} {t : Tour} (hg : assocGet? T v = some t)
    (ht : TourOK nw t) : Toured nw (TM T) v := by
  obtain ⟨sd, mid, ed, hl, hsd, hed, hmid, _⟩ := ht.shape
  refine ⟨t, sd, ed, hg, ?_, ?_⟩
  · exact unwrapR_ok (C10Lim.startU_iff.mpr ⟨by rw [hl]; rfl, hsd⟩)
  · unfold Tour.endDepot Tour.lastNode
    have : idxAt t.nodes (t.nodes.length - 1) = .ok ed := by
      unfold idxAt
      rw [hl]
      simp
    simp only [this, bind, Except.bind, hed, ↓reduceIte, pure, Except.pure]

/-- types outside the network's range have no vehicles: their (empty) transition fits any tour map -/
theorem typeOK_outside {nw : Network} {s : Schedule} {T' : Tours} (hi : ListInv s) (hK : C10Lim.IdsIn nw s)
    {vt : Nat} {tr : Transition} (hvt : vt ∉ nw.typeIdxs)
    (h : TypeOK nw (TM s.tours) (fun w => assocGet? s.vehicles w) vt tr) :
    TypeOK nw (TM T') (fun w => assocGet? s.vehicles w) vt tr := by
  obtain ⟨hc, hm⟩ := h
  have hnone : ∀ w, w ∉ members tr := by
    intro w hw
    have hV := (hm w).mp hw
    obtain ⟨l, hl, _⟩ := hi.complete w vt hV
    have := hK vt (by show (assocGet? s.idsByType vt).isSome = true; rw [show assocGet? s.idsByType vt = some l from hl]; rfl)
    exact hvt (by unfold Network.typeIdxs; exact List.mem_range.mpr this)
  exact ⟨consistent_congr hc (fun w hw => absurd hw (hnone w)), hm⟩

/-- a schedule whose transitions were recomputed for all types from new tours -/
theorem recomputeAll_cyc {nw : Network} {s : Schedule} {T' : Tours} {res : List (Nat × Transition) × Int}
    (hi : ListInv s) (hK : C10Lim.IdsIn nw s) (hcyc : CycInv nw s) (ho' : ToursOK nw T')
    (hsame : ∀ v, (assocGet? T' v).isSome = (assocGet? s.tours v).isSome)
    (h : recomputeTransitions nw s.idsByType T' nw.typeIdxs s.transitions s.violation = .ok res) :
    ∀ vt tr, assocGet? res.1 vt = some tr → TypeOK nw (TM T') (fun w => assocGet? s.vehicles w) vt tr :=
  recompute_cyc hi (fun v t hg _ => tourOK_toured hg (ho' v t hg)) hsame nw.typeIdxs s.transitions s.violation res
    (fun vt tr hg hnot => typeOK_outside hi hK hnot (hcyc vt tr hg)) h

theorem sameKeys_isSome {s s' : Schedule} (hi : ListInv s) (hi' : ListInv s') (hV : s'.vehicles = s.vehicles) (v : Veh) :
    (assocGet? s'.tours v).isSome = (assocGet? s.tours v).isSome := by
  have h1 : (assocGet? s'.vehicles v).isSome = (assocGet? s'.tours v).isSome := hi'.same v
  have h2 : (assocGet? s.vehicles v).isSome = (assocGet? s.tours v).isSome := hi.same v
  rw [← h1, ← h2, hV]

theorem improve_cyc {nw : Network} {s s' : Schedule} {vs : Option (List Veh)}
    (hi : ListInv s) (hi' : ListInv s') (hK : C10Lim.IdsIn nw s) (ho' : ToursOK nw s'.tours) (hcyc : CycInv nw s)
    (h : improveDepots nw s vs = .ok s') : CycInv nw s' := by
  have hdumV' : ∀ w, w.dummy = true → assocGet? s'.vehicles w = none := fun w hw => dummy_no_vehicle hi' hw
  have hsameV : s'.vehicles = s.vehicles := (C09U.improve_same h).2.2
  have hsame := sameKeys_isSome hi hi' hsameV
  have hnd : ∀ ids, vs = some ids → ids.Nodup := fun ids e => by subst e; exact C09A.improve_nodup h
  unfold improveDepots at h
  dsimp only at h
  obtain ⟨usage0, h0, h⟩ := bind_ok h
  obtain ⟨⟨tours, usage, costs⟩, hfold, h⟩ := bind_ok h
  have hfold' : (vs.getD (s.vehiclesAll nw)).foldlM (improveStep nw s) (s.tours, usage0, s.costs)
      = .ok (tours, usage, costs) := hfold
  have hfr := fold_frame (improveStep nw s) (fun acc v acc' hs => by
    obtain ⟨nt, _, _, hset, _⟩ := improveStep_ok hs
    exact ⟨nt, hset⟩) _ _ _ hfold'
  dsimp only at h
  cases vs with
  | none =>
    simp only [Option.isNone_none, ↓reduceIte] at h
    obtain ⟨⟨trans, viol⟩, hcall, h⟩ := bind_ok h
    simp only [pure, Except.pure, Except.ok.injEq] at h
    subst h
    exact cycInv_of (recomputeAll_cyc hi hK hcyc ho' hsame hcall)
  | some ids =>
    simp only [Option.isNone_some, Bool.false_eq_true, ↓reduceIte, Option.getD_some] at h hfr
    obtain ⟨⟨trans, viol⟩, hcall, h⟩ := bind_ok h
    simp only [pure, Except.pure, Except.ok.injEq] at h
    subst h
    exact cycInv_of (cyc_leaf (L := ids) hi hcyc hdumV' (hnd ids rfl) (fun w _ => rfl) hfr
      (fun w vt' _ hV' _ => hV') hcall)

theorem endGreedy_cyc {nw : Network} {s s' : Schedule}
    (hi : ListInv s) (hi' : ListInv s') (hK : C10Lim.IdsIn nw s) (ho' : ToursOK nw s'.tours) (hcyc : CycInv nw s)
    (h : reassignEndDepotsGreedily nw s = .ok s') : CycInv nw s' := by
  have hsameV : s'.vehicles = s.vehicles := (C09U.endGreedy_same h).2.2
  have hsame := sameKeys_isSome hi hi' hsameV
  have hunf : reassignEndDepotsGreedily nw s = (do
      let (tours, usage, cst) ← (s.vehiclesAll nw).foldlM (greedyStep nw s) (s.tours, s.depotUsage, s.costs)
      let (trans, viol) ← recomputeTransitions nw s.idsByType tours nw.typeIdxs s.transitions s.violation
      pure { s with tours, transitions := trans, depotUsage := usage, violation := viol, costs := cst }) := rfl
  rw [hunf] at h
  obtain ⟨⟨tours, usage, cst⟩, hfold, h⟩ := bind_ok h
  dsimp only at h
  obtain ⟨⟨trans, viol⟩, hcall, h⟩ := bind_ok h
  simp only [pure, Except.pure, Except.ok.injEq] at h
  subst h
  exact cycInv_of (recomputeAll_cyc hi hK hcyc ho' hsame hcall)

theorem endConsistent_cyc {nw : Network} {s s' : Schedule}
    (hi : ListInv s) (hi' : ListInv s') (hcyc : CycInv nw s)
    (h : reassignEndDepotsConsistent nw s = .ok s') : CycInv nw s' := by
  have hdumV' : ∀ w, w.dummy = true → assocGet? s'.vehicles w = none := fun w hw => dummy_no_vehicle hi' hw
  have hunf : reassignEndDepotsConsistent nw s = (do
      let (tours, usage, cst) ← (s.vehiclesAll nw).foldlM (C05.endStep nw s) (s.tours, s.depotUsage, s.costs)
      let (trans, viol) ← updateTransitionsFast nw s s.vehicles tours (s.vehiclesAll nw) [] s.transitions s.violation
      pure { s with tours, transitions := trans, depotUsage := usage, violation := viol, costs := cst }) := rfl
  rw [hunf] at h
  obtain ⟨⟨tours, usage, cst⟩, hfold, h⟩ := bind_ok h
  have hfr := fold_frame (C05.endStep nw s) (fun acc v acc' hs => by
    obtain ⟨nt, _, hset⟩ := C05.endStep_ok hs
    exact ⟨nt, hset⟩) _ _ _ hfold
  dsimp only at h
  obtain ⟨⟨trans, viol⟩, hcall, h⟩ := bind_ok h
  simp only [pure, Except.pure, Except.ok.injEq] at h
  subst h
  exact cycInv_of (cyc_leaf (L := s.vehiclesAll nw) hi hcyc hdumV' (vehiclesAll_nodup hi) (fun w _ => rfl) hfr
    (fun w vt' _ hV' _ => hV') hcall)

theorem recomputeOp_cyc {nw : Network} {s s' : Schedule} {vts : Option (List Nat)}
    (hi : ListInv s) (ho : ToursOK nw s.tours) (hcyc : CycInv nw s)
    (h : recomputeTransitionsFor nw s vts = .ok s') : CycInv nw s' := by
  unfold recomputeTransitionsFor at h
  obtain ⟨⟨trans, viol⟩, hcall, h⟩ := bind_ok h
  simp only [pure, Except.pure, Except.ok.injEq] at h
  subst h
  exact cycInv_of (recompute_cyc hi (fun v t hg _ => tourOK_toured hg (ho v t hg)) (fun _ => rfl) _ _ _ _
    (fun vt tr hg _ => hcyc vt tr hg) hcall)

theorem setTrans_cyc {nw : Network} {s : Schedule} {vt : Nat} {v : Veh} {ci : Nat} {tr moved : Transition}
    (hcyc : CycInv nw s) (htr : assocGet? s.transitions vt = some tr)
    (hmv : Transition.moveVehicle nw false tr v ci s.tours = .ok moved) :
    CycInv nw (Schedule.setNextDayTransitions s (assocSet s.transitions vt moved)) := by
  intro vt' tr' hg
  have hg' : assocGet? (assocSet s.transitions vt moved) vt' = some tr' := hg
  rw [assocGet?_assocSet] at hg'
  by_cases e : vt' = vt
  · simp only [e, ↓reduceIte, Option.some.injEq] at hg'
    subst e
    obtain ⟨hc, hm⟩ := hcyc vt' tr htr
    have hc0 : Consistent nw (overlay [] s.tours) tr :=
      consistent_congr hc (fun w _ => by unfold overlay TM; simp [assocGet?_nil])
    obtain ⟨hc1, hm1, _⟩ := move_consistent nw tr moved v ci s.tours hc0 hmv
    rw [← hg']
    refine ⟨consistent_congr hc1 (fun w _ => ?_), fun w => ?_⟩
    · show TM s.tours w = overlay [] s.tours w
      unfold overlay TM; simp [assocGet?_nil]
    · rw [hm1 w]; exact hm w
  · simp only [e, ↓reduceIte] at hg'
    exact hcyc vt' tr' hg'

theorem empty_cyc (nw : Network) : CycInv nw (Schedule.empty nw) := by
  intro vt tr hg
  have hm := assocGet?_mem hg
  simp only [Schedule.empty, List.mem_map, Prod.mk.injEq] at hm
  obtain ⟨a, _, _, rfl⟩ := hm
  refine ⟨⟨?_, ?_, ?_, ?_, ?_, ?_, ?_, rfl, rfl⟩, fun w => ?_⟩
  · intro i c hi; simp at hi
  · intro i c hi; simp at hi
  · simp
  · intro w i; simp [assocGet?_nil]
  · simp
  · intro i; simp
  · intro i c hi; simp at hi
  · simp [members, Schedule.empty, assocGet?_nil]

/-! ### the step theorem and every history -/

/-- **C10 (rotation cycles), one step**: every public modification keeps, for every vehicle type, a
    transition that is consistent with the tours and holds exactly the vehicles of the type -/
theorem C10_cycles_step (nw : Network) (hn : NetHyp nw) (s : Schedule) (op : SOp) (r : OpResult)
    (hinv : C10Fit.Inv nw s) (hK : C10Lim.IdsIn nw s) (hcyc : CycInv nw s) (hargs : ArgsOKF op)
    (h : applyOp nw s op = .ok r) : CycInv nw r.sched := by
  have hinv' := C10_forms_step nw hn s op r hinv hargs h
  obtain ⟨⟨hi, hd, ho⟩, _, _⟩ := hinv
  obtain ⟨⟨hi', _, ho'⟩, _, _⟩ := hinv'
  unfold applyOp at h
  cases op with
  | init =>
    simp only [pure, Except.pure, Except.ok.injEq] at h
    rw [← h]; exact empty_cyc nw
  | spawn vt path =>
    obtain ⟨⟨s', v⟩, hs, h⟩ := bind_ok h
    simp only [pure, Except.pure, Except.ok.injEq] at h
    subst h; exact spawn_cyc hi hi' hcyc hs
  | dummySpawn d vt =>
    obtain ⟨⟨s', v⟩, hs, h⟩ := bind_ok h
    simp only [pure, Except.pure, Except.ok.injEq] at h
    subst h; exact dummySpawn_cyc hi hi' hcyc hs
  | delete v =>
    obtain ⟨s', hs, h⟩ := bind_ok h
    simp only [pure, Except.pure, Except.ok.injEq] at h
    subst h; exact delete_cyc hi hi' hcyc hs
  | addPath v path =>
    dsimp only at h
    split at h
    · obtain ⟨⟨s', rm⟩, hs, h⟩ := bind_ok h
      simp only [pure, Except.pure, Except.ok.injEq] at h
      subst h; exact addPath_cyc hi hi' hcyc hs
    · cases h
  | rmSeg v a b =>
    obtain ⟨s', hs, h⟩ := bind_ok h
    simp only [pure, Except.pure, Except.ok.injEq] at h
    subst h; exact rmSeg_cyc hi hd hi' hcyc hs
  | fit p q a b =>
    obtain ⟨s', hs, h⟩ := bind_ok h
    simp only [pure, Except.pure, Except.ok.injEq] at h
    subst h; exact fit_cyc hi hi' hcyc hargs hs
  | override p q a b =>
    obtain ⟨⟨s', d⟩, hs, h⟩ := bind_ok h
    simp only [pure, Except.pure, Except.ok.injEq] at h
    subst h; exact override_cyc hi hi' hcyc hargs hs
  | improve vs =>
    obtain ⟨s', hs, h⟩ := bind_ok h
    simp only [pure, Except.pure, Except.ok.injEq] at h
    subst h; exact improve_cyc hi hi' hK ho' hcyc hs
  | endGreedy =>
    obtain ⟨s', hs, h⟩ := bind_ok h
    simp only [pure, Except.pure, Except.ok.injEq] at h
    subst h; exact endGreedy_cyc hi hi' hK ho' hcyc hs
  | recompute vts =>
    obtain ⟨s', hs, h⟩ := bind_ok h
    simp only [pure, Except.pure, Except.ok.injEq] at h
    subst h; exact recomputeOp_cyc hi ho hcyc hs
  | endConsistent =>
    obtain ⟨s', hs, h⟩ := bind_ok h
    simp only [pure, Except.pure, Except.ok.injEq] at h
    subst h; exact endConsistent_cyc hi hi' hcyc hs
  | setTrans vt v ci =>
    obtain ⟨tr, htr, h⟩ := bind_ok h
    obtain ⟨moved, hmv, h⟩ := bind_ok h
    simp only [pure, Except.pure, Except.ok.injEq] at h
    subst h; exact setTrans_cyc hcyc (unwrapO_ok htr) hmv

/-- everything of Props/C10Limits plus the rotation cycles -/
structure InvC (nw : Network) (s : Schedule) : Prop where
  base : C10Lim.InvL nw s
  cycles : CycInv nw s

theorem C10_cycles_reachable (nw : Network) (hn : NetHyp nw) (hovf : C10Lim.OvfNode nw) :
    ∀ (ops : List SOp) (s s' : Schedule),
    InvC nw s → (∀ op ∈ ops, ArgsOKF op) → runOps nw s ops = some s' → InvC nw s'
  | [], s, s', hinv, _, h => by simp only [runOps, Option.some.injEq] at h; rw [← h]; exact hinv
  | op :: rest, s, s', hinv, hargs, h => by
    unfold runOps at h
    split at h
    · rename_i r hr
      have ha := hargs op (by simp)
      exact C10_cycles_reachable nw hn hovf rest r.sched s'
        ⟨(C10Lim.stepInv_limits hn hovf).step s op r hinv.base ha hr,
         C10_cycles_step nw hn s op r hinv.base.base.all.fu.invF.inv hinv.base.keys hinv.cycles ha hr⟩
        (fun o ho => hargs o (by simp [ho])) h
    · cases h

/-- **C10 (rotation cycles), every history**: in every schedule the model reaches from the empty
    schedule by public modifications (provider ≠ receiver in reassignments) — including moves of
    vehicles between rotation cycles — and for every vehicle type: the stored transition satisfies the
    bookkeeping invariant of C15 with respect to the stored tours (duplicate-free cycles, exact lookup
    and list of empty cycles, exact maintenance counters and totals), and a vehicle is in one of its
    cycles exactly if it is a real vehicle of that type. Together with all other clauses (`InvC`). -/
theorem C10_cycles_from_empty (nw : Network) (hn : NetHyp nw) (hovf : C10Lim.OvfNode nw) (ops : List SOp)
    (s' : Schedule) (hargs : ∀ op ∈ ops, ArgsOKF op) (h : runOps nw (Schedule.empty nw) ops = some s') :
    InvC nw s' :=
  C10_cycles_reachable nw hn hovf ops _ s' ⟨(C10Lim.stepInv_limits hn hovf).empty, empty_cyc nw⟩ hargs h

/-- every real vehicle belongs to exactly one rotation cycle of its type, and to none of another -/
theorem one_cycle {nw : Network} {s : Schedule} (hcyc : CycInv nw s) {vt : Nat} {tr : Transition}
    (htr : assocGet? s.transitions vt = some tr) (v : Veh) :
    (assocGet? s.vehicles v = some vt ↔ ∃ i, assocGet? tr.lookup v = some i) ∧
    ∀ (i j : Nat) (ci cj : Cycle), tr.cycles[i]? = some ci → tr.cycles[j]? = some cj →
      v ∈ ci.vehicles → v ∈ cj.vehicles → i = j := by
  obtain ⟨hc, hm⟩ := hcyc vt tr htr
  refine ⟨by rw [← hm v]; exact mem_members_iff hc v, fun i j ci cj hi hj hvi hvj => ?_⟩
  have h1 := (hc.lookup v i).mpr ⟨ci, hi, hvi⟩
  have h2 := (hc.lookup v j).mpr ⟨cj, hj, hvj⟩
  rw [h1] at h2
  exact Option.some.inj h2

/-! ### search and pipeline -/

theorem stepInv0_cycles {nw : Network} (hn : NetHyp nw) (hovf : C10Lim.OvfNode nw) : C11A.StepInv0 nw (InvC nw) where
  step := fun s op r hinv hargs h =>
    ⟨(C10Lim.stepInv_limits hn hovf).step s op r hinv.base hargs h,
     C10_cycles_step nw hn s op r hinv.base.base.all.fu.invF.inv hinv.base.keys hinv.cycles hargs h⟩
  fresh := fun _ _ _ hinv hpt => C11A.tour_ne_fresh hinv.base.base.all.fu.invF hpt
  empty := ⟨(C10Lim.stepInv_limits hn hovf).empty, empty_cyc nw⟩

/-- every candidate the search evaluates satisfies every clause of C10, rotation cycles included -/
theorem C11_candidates_cycles (nw : Network) (hn : NetHyp nw) (hovf : C10Lim.OvfNode nw)
    {limit threshold : Option Nat} {s : Schedule} {last : SwapInfo} {cands : List Swaps.Candidate}
    (hinv : InvC nw s) (h : Swaps.neighborsOf nw limit threshold s last = .ok cands) :
    ∀ c ∈ cands, InvC nw c.sched :=
  C11A.neighbors_invF (stepInv0_cycles hn hovf) hinv h

/-- **C05 / C10 at pipeline level**: if the transition optimiser — an oracle of the modelled pipeline —
    returns, for a schedule that satisfies all invariants, transitions (distinct type keys) that are
    consistent with the schedule's tours over the same vehicles, then the start schedule, the
    local-search result and the returned schedule satisfy all invariants, rotation cycles included:
    in the returned schedule every real vehicle is in exactly one rotation cycle of its type -/
theorem C05_pipeline_cycles (nw : Network) (hn : NetHyp nw) (hovf : C10Lim.OvfNode nw) (o : Solve.Oracle)
    (hopt : ∀ s, ((o.optimise s).map (·.1)).Nodup)
    (hoptC : ∀ s, InvC nw s → CycInv nw (Schedule.setNextDayTransitions s (o.optimise s)))
    (tr : Solve.Trace) (h : Solve.solve nw o = .ok tr) :
    InvC nw tr.start ∧ InvC nw tr.afterSearch ∧ InvC nw tr.final :=
  C11A.solve_inv0 (stepInv0_cycles hn hovf) o
    (fun s hs => ⟨(C10Lim.stepInv_limits hn hovf).setT s _ (hopt s) hs.base, hoptC s hs⟩) tr h

end RSSched.C10Cyc
