/-
Props/C09Sched: schedule-level caches of the model stay exact across every public modification.

Part 1 (this section): the cached maintenance violation of a schedule is the sum of the total
violations of its per-type rotation-cycle records — after any finite sequence of public
modifications (`C09_violation_reachable`). Together with C15 (each record's total = Σ max(0, cycle
counter), each counter = recomputation) this makes the second objective level exact.
-/
import RSSched.Model.Ops
import RSSched.Props.C15Ops
import RSSched.Props.C02Limits
namespace RSSched.C09S
open RSSched Schedule C15 C02

/-! ### sums over association lists -/
def sumVal {κ ν : Type} (f : ν → Int) (l : List (κ × ν)) : Int := sumInt (l.map (fun p => f p.2))

theorem sumVal_cons {κ ν : Type} (f : ν → Int) (p : κ × ν) (l : List (κ × ν)) :
    sumVal f (p :: l) = f p.2 + sumVal f l := rfl

theorem sumVal_append {κ ν : Type} (f : ν → Int) (l1 l2 : List (κ × ν)) :
    sumVal f (l1 ++ l2) = sumVal f l1 + sumVal f l2 := by
  unfold sumVal sumInt
  rw [List.map_append, Cyclic.sumInt_append]

/-- replacing the value of a present key changes the sum by the difference -/
theorem sumVal_assocSet {κ ν : Type} [DecidableEq κ] (f : ν → Int) (l : List (κ × ν)) (k : κ) (old v : ν)
    (hnd : (l.map (·.1)).Nodup) (hget : assocGet? l k = some old) :
    sumVal f (assocSet l k v) = sumVal f l + f v - f old := by
  induction l with
  | nil => simp [assocGet?_nil] at hget
  | cons p ps ih =>
    have hnd' : p.1 ∉ ps.map (·.1) ∧ (ps.map (·.1)).Nodup := by
      rw [List.map_cons] at hnd; exact List.nodup_cons.mp hnd
    rw [assocGet?_cons] at hget
    by_cases e : p.1 = k
    · simp only [e, ↓reduceIte, Option.some.injEq] at hget
      have hany : (p :: ps).any (fun q => decide (q.1 = k)) = true := by simp [e]
      unfold assocSet
      rw [if_pos hany]
      simp only [List.map_cons, e, ↓reduceIte]
      have hps : ps.map (fun q => if q.1 = k then (k, v) else q) = ps := by
        conv => rhs; rw [← List.map_id ps]
        apply List.map_congr_left; intro q hq
        have : ¬ q.1 = k := by
          intro h; apply hnd'.1; rw [e, ← h]; exact List.mem_map.mpr ⟨q, hq, rfl⟩
        simp [this]
      rw [hps, sumVal_cons, sumVal_cons, hget]
      simp only; omega
    · simp only [e, ↓reduceIte] at hget
      have hany : ps.any (fun q => decide (q.1 = k)) = true := by
        have := assocGet?_mem hget
        exact List.any_eq_true.mpr ⟨_, this, by simp⟩
      have hany' : (p :: ps).any (fun q => decide (q.1 = k)) = true := by
        simp only [List.any_cons, Bool.or_eq_true]; exact Or.inr hany
      have ih' := ih hnd'.2 hget
      unfold assocSet at ih' ⊢
      rw [if_pos hany'] 
      rw [if_pos hany] at ih'
      simp only [List.map_cons, e, ↓reduceIte]
      rw [sumVal_cons, sumVal_cons, ih']
      omega

theorem assocSet_keys_present {κ ν : Type} [DecidableEq κ] (l : List (κ × ν)) (k : κ) (old v : ν)
    (hget : assocGet? l k = some old) : (assocSet l k v).map (·.1) = l.map (·.1) := by
  have hany : l.any (fun q => decide (q.1 = k)) = true :=
    List.any_eq_true.mpr ⟨_, assocGet?_mem hget, by simp⟩
  unfold assocSet
  rw [if_pos hany, List.map_map]
  apply List.map_congr_left
  intro q _
  by_cases e : q.1 = k <;> simp [e]

/-! ### the violation cache -/
/-- keys of the per-type records are distinct and the cached violation is their sum -/
def ViolExact (trans : List (Nat × Transition)) (viol : Int) : Prop :=
  (trans.map (·.1)).Nodup ∧ viol = sumVal (·.totalViolation) trans

theorem violExact_set {trans : List (Nat × Transition)} {viol : Int} {vt : Nat} {old new : Transition}
    (h : ViolExact trans viol) (hget : assocGet? trans vt = some old) :
    ViolExact (assocSet trans vt new) ((viol + new.totalViolation) - old.totalViolation) := by
  refine ⟨by rw [assocSet_keys_present _ _ old _ hget]; exact h.1, ?_⟩
  rw [sumVal_assocSet _ _ _ old new h.1 hget, h.2]

theorem updateTransitionsFast_viol (nw : Network) (s : Schedule) (vehicles : List (Veh × Nat)) (tours : Tours) :
    ∀ (L : List Veh) (updated : Tours) (trans trans' : List (Nat × Transition)) (viol viol' : Int),
    ViolExact trans viol →
    updateTransitionsFast nw s vehicles tours L updated trans viol = .ok (trans', viol') → ViolExact trans' viol'
  | [], updated, trans, trans', viol, viol', hv, h => by
    simp only [updateTransitionsFast, pure, Except.pure, Except.ok.injEq, Prod.mk.injEq] at h
    rw [← h.1, ← h.2]; exact hv
  | v :: rest, updated, trans, trans', viol, viol', hv, h => by
    unfold updateTransitionsFast at h
    split at h
    · exact updateTransitionsFast_viol nw s vehicles tours rest updated trans trans' viol viol' hv h
    · obtain ⟨vt0, _, h⟩ := bind_ok h
      obtain ⟨old, hold, h⟩ := bind_ok h
      have hold := unwrapO_ok hold
      dsimp only at h
      split at h
      · obtain ⟨nt, _, h⟩ := bind_ok h
        obtain ⟨tr, _, h⟩ := bind_ok h
        exact updateTransitionsFast_viol nw s vehicles tours rest _ _ trans' _ viol'
          (violExact_set hv hold) h
      · obtain ⟨nt, _, h⟩ := bind_ok h
        obtain ⟨tr, _, h⟩ := bind_ok h
        exact updateTransitionsFast_viol nw s vehicles tours rest _ _ trans' _ viol'
          (violExact_set hv hold) h
      · obtain ⟨tr, _, h⟩ := bind_ok h
        exact updateTransitionsFast_viol nw s vehicles tours rest _ _ trans' _ viol'
          (violExact_set hv hold) h
      · simp [bind, Except.bind] at h

theorem recomputeTransitions_viol (nw : Network) (ids : List (Nat × List Veh)) (tours : Tours) :
    ∀ (L : List Nat) (trans trans' : List (Nat × Transition)) (viol viol' : Int),
    ViolExact trans viol →
    recomputeTransitions nw ids tours L trans viol = .ok (trans', viol') → ViolExact trans' viol'
  | [], trans, trans', viol, viol', hv, h => by
    simp only [recomputeTransitions, pure, Except.pure, Except.ok.injEq, Prod.mk.injEq] at h
    rw [← h.1, ← h.2]; exact hv
  | vt :: rest, trans, trans', viol, viol', hv, h => by
    unfold recomputeTransitions at h
    obtain ⟨l, _, h⟩ := bind_ok h
    obtain ⟨new, _, h⟩ := bind_ok h
    obtain ⟨old, hold, h⟩ := bind_ok h
    exact recomputeTransitions_viol nw ids tours rest _ trans' _ viol' (violExact_set hv (unwrapO_ok hold)) h

syntax "close_viol " ident ident : tactic
macro_rules
  | `(tactic| close_viol $h:ident $hv:ident) => `(tactic|
    (all_goals (try contradiction)
     all_goals (try (cases $h:ident))
     all_goals (try (simp only [pure, Except.pure, Except.ok.injEq] at *))
     all_goals (try subst_vars)
     all_goals (try dsimp only)
     all_goals (first
       | exact $hv
       | exact updateTransitionsFast_viol _ _ _ _ _ _ _ _ _ _ $hv (by assumption)
       | exact recomputeTransitions_viol _ _ _ _ _ _ _ _ $hv (by assumption)
       | skip)))

theorem empty_viol (nw : Network) : ViolExact (Schedule.empty nw).transitions (Schedule.empty nw).violation := by
  unfold ViolExact Schedule.empty
  simp only [List.map_map]
  constructor
  · have : ((fun p : Nat × Transition => p.1) ∘ fun vt => (vt, ({ cycles := [], totalViolation := 0, totalCounter := 0, lookup := [], empty := [] } : Transition))) = id := rfl
    rw [this, List.map_id]; exact List.nodup_range
  · unfold sumVal
    rw [List.map_map]
    have : ∀ l : List Nat, sumInt (l.map ((fun p : Nat × Transition => p.2.totalViolation) ∘ fun vt => (vt, ({ cycles := [], totalViolation := 0, totalCounter := 0, lookup := [], empty := [] } : Transition)))) = 0 := by
      intro l; induction l with
      | nil => rfl
      | cons a as ih => simp only [List.map_cons, sumInt, List.foldr_cons] at ih ⊢; rw [ih]; rfl
    exact (this _).symm

theorem spawn_viol {nw : Network} {s s' : Schedule} {vt : Nat} {path : List Nat} {v : Veh}
    (hv : ViolExact s.transitions s.violation) (h : spawnVehicleForPath nw s vt path = .ok (s', v)) :
    ViolExact s'.transitions s'.violation := by
  unfold spawnVehicleForPath at h
  inv_do h
  close_viol h hv

theorem delete_viol {nw : Network} {s s' : Schedule} {v : Veh}
    (hv : ViolExact s.transitions s.violation) (h : replaceVehicleByDummy nw s v = .ok s') :
    ViolExact s'.transitions s'.violation := by
  unfold replaceVehicleByDummy at h
  inv_do h
  close_viol h hv

theorem deleteDummy_trans {s s1 : Schedule} {d : Veh} (h : deleteDummy s d = .ok s1) :
    s1.transitions = s.transitions ∧ s1.violation = s.violation := by
  unfold deleteDummy at h
  inv_do h
  all_goals (try (cases h))
  all_goals exact ⟨rfl, rfl⟩

theorem dummySpawn_viol {nw : Network} {s s' : Schedule} {d : Veh} {vt : Nat} {v : Veh}
    (hv : ViolExact s.transitions s.violation) (h : spawnToReplaceDummy nw s d vt = .ok (s', v)) :
    ViolExact s'.transitions s'.violation := by
  unfold spawnToReplaceDummy at h
  inv_do h
  all_goals (try contradiction)
  all_goals (try (cases h))
  all_goals (first
    | exact spawn_viol (by
        have := deleteDummy_trans (by assumption)
        rw [this.1, this.2]; exact hv) (by assumption)
    | skip)

theorem addPath_viol {nw : Network} {s s' : Schedule} {v : Veh} {path : List Nat} {rm : Option (List Nat)}
    (hv : ViolExact s.transitions s.violation) (h : addPathToVehicleTour nw s v path = .ok (s', rm)) :
    ViolExact s'.transitions s'.violation := by
  unfold addPathToVehicleTour at h
  inv_do h
  close_viol h hv

theorem rmSeg_viol {nw : Network} {s s' : Schedule} {v : Veh} {a b : Nat}
    (hv : ViolExact s.transitions s.violation) (h : removeSegment nw s v a b = .ok s') :
    ViolExact s'.transitions s'.violation := by
  unfold removeSegment at h
  inv_do h
  all_goals (try contradiction)
  all_goals (try (cases h))
  all_goals (try dsimp only)
  all_goals (first
    | exact delete_viol hv (by assumption)
    | exact updateTransitionsFast_viol _ _ _ _ _ _ _ _ _ _ hv (by assumption)
    | skip)

theorem fit_viol {nw : Network} {s s' : Schedule} {p r : Veh} {a b : Nat}
    (hv : ViolExact s.transitions s.violation) (h : fitReassign nw s p r a b = .ok s') :
    ViolExact s'.transitions s'.violation := by
  unfold fitReassign at h
  inv_do h
  close_viol h hv

theorem override_viol {nw : Network} {s s' : Schedule} {p r : Veh} {a b : Nat} {d : Option Veh}
    (hv : ViolExact s.transitions s.violation) (h : overrideReassign nw s p r a b = .ok (s', d)) :
    ViolExact s'.transitions s'.violation := by
  unfold overrideReassign at h
  inv_do h
  close_viol h hv

theorem improve_viol {nw : Network} {s s' : Schedule} {vs : Option (List Veh)}
    (hv : ViolExact s.transitions s.violation) (h : improveDepots nw s vs = .ok s') :
    ViolExact s'.transitions s'.violation := by
  unfold improveDepots at h
  dsimp only at h
  obtain ⟨_, _, h⟩ := bind_ok h
  obtain ⟨_, _, h⟩ := bind_ok h
  inv_do h
  close_viol h hv

theorem endGreedy_viol {nw : Network} {s s' : Schedule}
    (hv : ViolExact s.transitions s.violation) (h : reassignEndDepotsGreedily nw s = .ok s') :
    ViolExact s'.transitions s'.violation := by
  unfold reassignEndDepotsGreedily at h
  obtain ⟨_, _, h⟩ := bind_ok h
  inv_do h
  close_viol h hv

theorem recompute_viol {nw : Network} {s s' : Schedule} {vts : Option (List Nat)}
    (hv : ViolExact s.transitions s.violation) (h : recomputeTransitionsFor nw s vts = .ok s') :
    ViolExact s'.transitions s'.violation := by
  unfold recomputeTransitionsFor at h
  inv_do h
  close_viol h hv

theorem endConsistent_viol {nw : Network} {s s' : Schedule}
    (hv : ViolExact s.transitions s.violation) (h : reassignEndDepotsConsistent nw s = .ok s') :
    ViolExact s'.transitions s'.violation := by
  unfold reassignEndDepotsConsistent at h
  obtain ⟨_, _, h⟩ := bind_ok h
  inv_do h
  close_viol h hv

/-- **C09 (violation cache), one step** -/
theorem C09_violation_step (nw : Network) (s : Schedule) (op : Spec.SOp) (r : OpResult)
    (hv : ViolExact s.transitions s.violation) (h : applyOp nw s op = .ok r) :
    ViolExact r.sched.transitions r.sched.violation := by
  unfold applyOp at h
  cases op with
  | init =>
    simp only [pure, Except.pure, Except.ok.injEq] at h
    rw [← h]; exact empty_viol nw
  | spawn vt path =>
    obtain ⟨⟨s', v⟩, hs, h⟩ := bind_ok h
    simp only [pure, Except.pure, Except.ok.injEq] at h
    rw [← h]; exact spawn_viol hv hs
  | dummySpawn d vt =>
    obtain ⟨⟨s', v⟩, hs, h⟩ := bind_ok h
    simp only [pure, Except.pure, Except.ok.injEq] at h
    rw [← h]; exact dummySpawn_viol hv hs
  | delete v =>
    obtain ⟨s', hs, h⟩ := bind_ok h
    simp only [pure, Except.pure, Except.ok.injEq] at h
    rw [← h]; exact delete_viol hv hs
  | addPath v path =>
    dsimp only at h
    split at h
    · obtain ⟨⟨s', rm⟩, hs, h⟩ := bind_ok h
      simp only [pure, Except.pure, Except.ok.injEq] at h
      rw [← h]; exact addPath_viol hv hs
    · cases h
  | rmSeg v a b =>
    obtain ⟨s', hs, h⟩ := bind_ok h
    simp only [pure, Except.pure, Except.ok.injEq] at h
    rw [← h]; exact rmSeg_viol hv hs
  | fit p r a b =>
    obtain ⟨s', hs, h⟩ := bind_ok h
    simp only [pure, Except.pure, Except.ok.injEq] at h
    rw [← h]; exact fit_viol hv hs
  | override p r a b =>
    obtain ⟨⟨s', d⟩, hs, h⟩ := bind_ok h
    simp only [pure, Except.pure, Except.ok.injEq] at h
    rw [← h]; exact override_viol hv hs
  | improve vs =>
    obtain ⟨s', hs, h⟩ := bind_ok h
    simp only [pure, Except.pure, Except.ok.injEq] at h
    rw [← h]; exact improve_viol hv hs
  | endGreedy =>
    obtain ⟨s', hs, h⟩ := bind_ok h
    simp only [pure, Except.pure, Except.ok.injEq] at h
    rw [← h]; exact endGreedy_viol hv hs
  | recompute vts =>
    obtain ⟨s', hs, h⟩ := bind_ok h
    simp only [pure, Except.pure, Except.ok.injEq] at h
    rw [← h]; exact recompute_viol hv hs
  | endConsistent =>
    obtain ⟨s', hs, h⟩ := bind_ok h
    simp only [pure, Except.pure, Except.ok.injEq] at h
    rw [← h]; exact endConsistent_viol hv hs
  | setTrans vt v ci =>
    obtain ⟨tr, htr, h⟩ := bind_ok h
    obtain ⟨moved, _, h⟩ := bind_ok h
    simp only [pure, Except.pure, Except.ok.injEq] at h
    rw [← h]
    exact ⟨by
      show ((assocSet s.transitions vt moved).map (·.1)).Nodup
      rw [assocSet_keys_present _ _ tr _ (unwrapO_ok htr)]; exact hv.1, rfl⟩

/-- **C09 (violation cache), every history**: in every schedule the model reaches from the empty
    schedule the cached maintenance violation is the sum of the per-type totals -/
theorem C09_violation_reachable (nw : Network) : ∀ (ops : List Spec.SOp) (s s' : Schedule),
    ViolExact s.transitions s.violation → runOps nw s ops = some s' → ViolExact s'.transitions s'.violation
  | [], s, s', hv, h => by simp only [runOps, Option.some.injEq] at h; rw [← h]; exact hv
  | op :: rest, s, s', hv, h => by
    unfold runOps at h
    split at h
    · rename_i r hr
      exact C09_violation_reachable nw rest r.sched s' (C09_violation_step nw s op r hv hr) h
    · cases h

theorem C09_violation_from_empty (nw : Network) (ops : List Spec.SOp) (s' : Schedule)
    (h : runOps nw (Schedule.empty nw) ops = some s') : ViolExact s'.transitions s'.violation :=
  C09_violation_reachable nw ops _ s' (empty_viol nw) h

end RSSched.C09S
