/-
Props/C10Fit: `fit_reassign` — the loop `fit_path_into_tour` — for the formation-count invariant and
the dummy-tour invariant, and with it the step theorems for every public modification.
-/
import RSSched.Props.C10Dummy
namespace RSSched.C10Fit
open RSSched Schedule Network Tour Spec C15 C02 C13 C10T C10L C09C C10S C10F C10D

/-! ### positions in duplicate-free node lists -/

theorem positionOf_get {t : Tour} {a s : Nat} (h : t.positionOf a = .ok s) : t.nodes[s]? = some a := by
  unfold Tour.positionOf at h
  split at h
  · rename_i p hp
    simp only [pure, Except.pure, Except.ok.injEq] at h
    subst h
    obtain ⟨hlt, hx, _⟩ := List.findIdx?_eq_some_iff_getElem.mp hp
    rw [List.getElem?_eq_getElem hlt]
    simp at hx; rw [hx]
  · cases h

theorem nodup_idx_inj {l : List Nat} (hn : l.Nodup) {i j a : Nat} (hi : l[i]? = some a) (hj : l[j]? = some a) :
    i = j := by
  obtain ⟨hil, hie⟩ := List.getElem?_eq_some_iff.mp hi
  obtain ⟨hjl, hje⟩ := List.getElem?_eq_some_iff.mp hj
  exact (List.getElem_inj (h₀ := hil) (h₁ := hjl) hn).mp (by rw [hie, hje])

/-- `Tour::remove` with its positions -/
theorem remove_positions {nw : Network} {t : Tour} {a b : Nat} {ot : Option Tour} {path : List Nat}
    (h : Tour.remove nw t a b = .ok (ot, path)) :
    ∃ s e, t.positionOf a = .ok s ∧ t.positionOf b = .ok e ∧ s ≤ e ∧ e + 1 ≤ t.nodes.length ∧
      path = (t.nodes.drop s).take (e + 1 - s) ∧
      (∀ t', ot = some t' → t'.nodes = t.nodes.take s ++ t.nodes.drop (e + 1)) := by
  have h0 := h
  unfold Tour.remove at h
  obtain ⟨s, hs, h⟩ := C09.bindR_inv h
  obtain ⟨e, he, h⟩ := C09.bindR_inv h
  obtain ⟨u, hchk, h⟩ := C09.bindR_inv h
  obtain ⟨removed, hrem, h⟩ := C09.bindR_inv h
  have hchk' : checkSeqRemovable nw t s e = .ok () := by cases u; exact hchk
  obtain ⟨h1, h2, hremeq⟩ := C09.slice_inv hrem
  obtain ⟨s', e', _, _, _, hsome, _⟩ := remove_split h0
  -- remove_split chose the same positions (the model is deterministic): redo its conclusion here
  obtain ⟨ud, _, h⟩ := C09.bindR_inv h
  obtain ⟨sd', _, h⟩ := C09.bindR_inv h
  obtain ⟨seg, _, h⟩ := C09.bindR_inv h
  obtain ⟨dh0, _, h⟩ := C09.bindR_inv h
  obtain ⟨gapD, _, h⟩ := C09.bindR_inv h
  obtain ⟨cseg, _, h⟩ := C09.bindR_inv h
  obtain ⟨c0, _, h⟩ := C09.bindR_inv h
  obtain ⟨gapC, _, h⟩ := C09.bindR_inv h
  dsimp only at h
  refine ⟨s, e, hs, he, C09.checkSeqRemovable_le hchk', h2, ?_, ?_⟩
  · split at h
    · rename_i path' hpt
      have hpath : path' = removed := by
        unfold pathTrusted at hpt
        split at hpt
        · cases hpt
        · simpa using hpt.symm
      subst hpath
      split at h
      · simp only [pure, Except.pure, Except.ok.injEq, Prod.mk.injEq] at h
        rw [← h.2]; exact hremeq
      · simp only [pure, Except.pure, Except.ok.injEq, Prod.mk.injEq] at h
        rw [← h.2]; exact hremeq
    · cases h
  · intro t' ht'
    split at h
    · split at h
      · simp only [pure, Except.pure, Except.ok.injEq, Prod.mk.injEq] at h
        rw [ht'] at h; cases h.1
      · simp only [pure, Except.pure, Except.ok.injEq, Prod.mk.injEq] at h
        rw [ht'] at h
        have := h.1
        simp only [Option.some.injEq] at this
        rw [← this]
    · cases h

/-- removing a front piece of a contiguous part of a duplicate-free tour: what is removed is that
    front piece, and the rest of the part stays contiguous -/
theorem remove_contig {nw : Network} {pc : Tour} {A path B : List Nat} {endPos start segEnd : Nat}
    {ot : Option Tour} {pathIns : List Nat}
    (hnd : pc.nodes.Nodup) (hc : pc.nodes = A ++ path ++ B) (hstart : path[0]? = some start)
    (hend : path[endPos]? = some segEnd) (h : Tour.remove nw pc start segEnd = .ok (ot, pathIns)) :
    pathIns = path.take (endPos + 1) ∧ ∀ t', ot = some t' → t'.nodes = A ++ path.drop (endPos + 1) ++ B := by
  obtain ⟨s, e, hs, he, hse, hel, hpath, hsome⟩ := remove_positions h
  have hep : endPos < path.length := (List.getElem?_eq_some_iff.mp hend).1
  have h1 : pc.nodes[A.length]? = some start := by
    rw [hc, List.append_assoc, List.getElem?_append_right (Nat.le_refl _)]
    simp only [Nat.sub_self]
    rw [List.getElem?_append_left (by omega)]; exact hstart
  have h2 : pc.nodes[A.length + endPos]? = some segEnd := by
    rw [hc, List.append_assoc, List.getElem?_append_right (by omega)]
    rw [show A.length + endPos - A.length = endPos by omega]
    rw [List.getElem?_append_left hep]; exact hend
  have es : s = A.length := nodup_idx_inj hnd (positionOf_get hs) h1
  have ee : e = A.length + endPos := nodup_idx_inj hnd (positionOf_get he) h2
  subst es; subst ee
  constructor
  · rw [hpath, hc, List.append_assoc, List.drop_left']
    · rw [show A.length + endPos + 1 - A.length = endPos + 1 by omega]
      exact List.take_append_of_le_length (by omega)
    · rfl
  · intro t' ht'
    rw [hsome t' ht', hc]
    have e1 : (A ++ path ++ B).take A.length = A := by
      rw [List.append_assoc]; exact List.take_left' rfl
    have e2 : (A ++ path ++ B).drop (A.length + endPos + 1) = path.drop (endPos + 1) ++ B := by
      rw [List.append_assoc, show A.length + endPos + 1 = A.length + (endPos + 1) by omega, ← List.drop_drop,
        List.drop_left' rfl, List.drop_append_of_le_length (by omega)]
    rw [e1, e2, List.append_assoc]

/-! ### no conflict, nothing displaced -/

theorem idxAt_of_get {l : List Nat} {i x : Nat} (h : l[i]? = some x) : idxAt l i = .ok x := by
  unfold idxAt; rw [h]

/-- inserting a path between whose ends the receiver has no conflicting activity displaces nothing -/
theorem insert_no_conflict {nw : Network} {recv recv' : Tour} {start segEnd : Nat} {pathIns : List Nat}
    {rm : Option (List Nat)} (hreal : recv.isDummy = false)
    (hhead : pathIns[0]? = some start) (hlast : pathIns[pathIns.length - 1]? = some segEnd)
    (hconf : Tour.conflict nw true recv start segEnd = .ok none)
    (hins : insertPath nw true recv pathIns = .ok (recv', rm)) : rm = none := by
  unfold Tour.conflict at hconf
  obtain ⟨⟨s, e⟩, hpos, hconf⟩ := bind_ok hconf
  dsimp only at hconf
  obtain ⟨sl, hsl, hconf⟩ := bind_ok hconf
  simp only [pure, Except.pure, Except.ok.injEq] at hconf
  unfold insertPath at hins
  obtain ⟨pl, hpl, hins⟩ := bind_ok hins
  obtain ⟨c, _, hins⟩ := bind_ok hins
  simp only [pure, Except.pure, Except.ok.injEq, Prod.mk.injEq] at hins
  rw [← hins.2]
  unfold insertPlan at hpl
  simp only [stripFirst, stripLast, hreal, Bool.false_eq_true, ↓reduceIte] at hpl
  obtain ⟨p1, hp1, hpl⟩ := bind_ok hpl
  simp only [Except.ok.injEq] at hp1
  subst hp1
  obtain ⟨p2, hp2, hpl⟩ := bind_ok hpl
  simp only [Except.ok.injEq] at hp2
  subst hp2
  rw [idxAt_of_get hhead] at hpl
  obtain ⟨first, hf, hpl⟩ := bind_ok hpl
  simp only [Except.ok.injEq] at hf
  subst hf
  rw [idxAt_of_get hlast] at hpl
  obtain ⟨last, hl, hpl⟩ := bind_ok hpl
  simp only [Except.ok.injEq] at hl
  subst hl
  rw [hpos] at hpl
  obtain ⟨se, hse, hpl⟩ := bind_ok hpl
  simp only [Except.ok.injEq] at hse
  subst hse
  dsimp only at hpl
  rw [hsl] at hpl
  obtain ⟨old, hold, hpl⟩ := bind_ok hpl
  simp only [Except.ok.injEq] at hold
  subst hold
  simp only [pure, Except.pure, Except.ok.injEq] at hpl
  rw [← hpl]
  exact hconf

/-! ### one round of the loop of `fit_path_into_tour` -/

theorem idxAt_ok {l : List Nat} {i x : Nat} (h : idxAt l i = .ok x) : l[i]? = some x := by
  unfold idxAt at h
  split at h
  · rename_i y hy; simp only [Except.ok.injEq] at h; rw [hy, h]
  · cases h

theorem mem_zip_range {l : List Nat} {i n : Nat} (h : (i, n) ∈ (List.range l.length).zip l) : l[i]? = some n := by
  obtain ⟨k, hk, e⟩ := List.mem_iff_getElem.mp h
  rw [List.getElem_zip] at e
  simp only [List.getElem_range, Prod.mk.injEq] at e
  obtain ⟨e1, e2⟩ := e
  subst e1
  have hk' : k < l.length := by simp at hk; omega
  rw [List.getElem?_eq_getElem hk', e2]

theorem sel_last {path : List Nat} {start : Nat} (h0 : path[0]? = some start) (sel : List (Nat × Nat))
    (hsub : sel.Sublist ((List.range path.length).zip path)) :
    path[(sel.getLast?.getD (0, start)).1]? = some (sel.getLast?.getD (0, start)).2 := by
  cases hl : sel.getLast? with
  | none => simpa using h0
  | some x =>
    simp only [Option.getD_some]
    have hm : x ∈ sel := List.mem_of_getLast? hl
    exact mem_zip_range (hsub.subset hm)

theorem endA {path : List Nat} {l : Nat} {w : Nat × Nat} (hl : idxAt path (path.length - 1) = .ok l)
    (hw : (pure (path.length - 1, l) : R (Nat × Nat)) = Except.ok w) : path[w.1]? = some w.2 := by
  simp only [pure, Except.pure, Except.ok.injEq] at hw
  rw [← hw]; exact idxAt_ok hl

theorem endB {path : List Nat} {start : Nat} {w : Nat × Nat} {sel : List (Nat × Nat)} (h0 : path[0]? = some start)
    (hw : (pure (sel.getLast?.getD (0, start)) : R (Nat × Nat)) = Except.ok w)
    (hsub : sel.Sublist ((List.range path.length).zip path)) : path[w.1]? = some w.2 := by
  simp only [pure, Except.pure, Except.ok.injEq] at hw
  rw [← hw]; exact sel_last h0 sel hsub

/-- what one successful round of the loop does: it fixes a front piece `path[0..endPos]` of the
    remaining path; either nothing moves and the loop goes on with the rest, or exactly that piece
    is cut out of the provider (between its first and last node) and inserted, without conflict,
    into the receiver -/
theorem fitLoop_round {nw : Network} {chk : Bool} {fuel : Nat} {prov : Option Tour} {recv : Tour}
    {path moved : List Nat} {res : Option Tour × Tour × List Nat}
    (h : fitLoop nw chk (fuel + 1) prov recv (some path) moved = .ok res) :
    ∃ start endPos segEnd pc, path[0]? = some start ∧ path[endPos]? = some segEnd ∧ prov = some pc ∧
      (fitLoop nw chk fuel prov recv (pathTrusted nw (path.drop (endPos + 1))) moved = .ok res ∨
       ∃ provCand pathIns recv' rm, Tour.remove nw pc start segEnd = .ok (provCand, pathIns) ∧
         ¬(chk && !(Tour.isChain nw pathIns)) = true ∧
         Tour.conflict nw true recv start segEnd = .ok none ∧
         insertPath nw true recv pathIns = .ok (recv', rm) ∧
         fitLoop nw chk fuel provCand recv' (pathTrusted nw (path.drop (endPos + 1)))
           (moved ++ path.take (endPos + 1)) = .ok res) := by
  unfold fitLoop at h
  inv_do h
  all_goals (try contradiction)
  all_goals (try (cases h; done))
  all_goals (
    have hstart := idxAt_ok (by assumption : idxAt path 0 = .ok _)
    have hpc := unwrapO_ok (by assumption : unwrapO prov _ = .ok _)
    have hend := by
      first
      | exact endA (by assumption) (by assumption)
      | exact endB hstart (by assumption) ((List.filter_sublist).trans (List.takeWhile_sublist _))
    refine ⟨_, _, _, _, hstart, hend, hpc, ?_⟩
    first
    | exact Or.inl h
    | exact Or.inr ⟨_, _, _, _, by assumption, by assumption, by assumption, by assumption, h⟩)

/-! ### the loop invariant -/

/-- what the loop needs to know about a piece cut out of the provider -/
structure PathFacts (nw : Network) (real : Bool) (path : List Nat) : Prop where
  act : hasNonDepot nw path = true
  chain : real = true → chainB nw path = true
  pw : PW nw path
  inner : InnerAct nw path

/-- a class of provider tours closed under `remove` -/
structure ProvPred (nw : Network) (real : Bool) (P : Tour → Prop) : Prop where
  nodup : ∀ t, P t → t.nodes.Nodup
  rem : ∀ t a b t' path, P t → Tour.remove nw t a b = .ok (some t', path) → P t'
  facts : ∀ t a b ot path, P t → Tour.remove nw t a b = .ok (ot, path) → PathFacts nw real path
  noneOcc : ∀ t a b path, P t → Tour.remove nw t a b = .ok (none, path) → ∀ n, occ nw t.nodes n = occ nw path n

/-- the remaining path is a contiguous part of the provider's tour -/
def Contig (prov : Option Tour) (rem : Option (List Nat)) : Prop :=
  ∀ path pc, rem = some path → prov = some pc → ∃ A B, pc.nodes = A ++ path ++ B

theorem pathTrusted_some {nw : Network} {l p : List Nat} (h : pathTrusted nw l = some p) : p = l := by
  unfold pathTrusted at h
  split at h
  · cases h
  · simpa using h.symm

theorem fitLoop_inv (nw : Network) (chk real : Bool) (P : Tour → Prop) (Q : Tour → List Nat → Prop)
    (hP : ProvPred nw real P)
    (hQ : ∀ r mv start segEnd pathIns r' rm, Q r mv → PathFacts nw real pathIns →
      ¬(chk && !(Tour.isChain nw pathIns)) = true →
      pathIns[0]? = some start → pathIns[pathIns.length - 1]? = some segEnd →
      Tour.conflict nw true r start segEnd = .ok none → insertPath nw true r pathIns = .ok (r', rm) →
      Q r' (mv ++ pathIns)) :
    ∀ (fuel : Nat) (prov : Option Tour) (recv : Tour) (rem : Option (List Nat)) (moved : List Nat)
      (np : Option Tour) (nr : Tour) (mv : List Nat),
      fitLoop nw chk fuel prov recv rem moved = .ok (np, nr, mv) →
      (∀ pc, prov = some pc → P pc) → Contig prov rem → Q recv moved →
      (∀ pc, np = some pc → P pc) ∧ Q nr mv ∧
        ∀ n, shrunkOcc nw np n + occ nw mv n = shrunkOcc nw prov n + occ nw moved n
  | 0, prov, recv, rem, moved, np, nr, mv, h, hp, _, hq => by
    unfold fitLoop at h
    simp only [pure, Except.pure, Except.ok.injEq, Prod.mk.injEq] at h
    obtain ⟨h1, h2, h3⟩ := h
    subst h1; subst h2; subst h3
    exact ⟨hp, hq, fun _ => rfl⟩
  | fuel + 1, prov, recv, none, moved, np, nr, mv, h, hp, _, hq => by
    unfold fitLoop at h
    simp only [pure, Except.pure, Except.ok.injEq, Prod.mk.injEq] at h
    obtain ⟨h1, h2, h3⟩ := h
    subst h1; subst h2; subst h3
    exact ⟨hp, hq, fun _ => rfl⟩
  | fuel + 1, prov, recv, some path, moved, np, nr, mv, h, hp, hc, hq => by
    have ih := fitLoop_inv nw chk real P Q hP hQ fuel
    obtain ⟨start, endPos, segEnd, pc, hstart, hend, hpc, hcases⟩ := fitLoop_round h
    obtain ⟨A, B, hAB⟩ := hc path pc rfl hpc
    have hep : endPos < path.length := (List.getElem?_eq_some_iff.mp hend).1
    have hsplit : path = path.take (endPos + 1) ++ path.drop (endPos + 1) := (List.take_append_drop _ _).symm
    rcases hcases with hskip | ⟨provCand, pathIns, recv', rm, hrem, hchk, hconf, hins, hrec⟩
    · -- nothing moved in this round
      refine ih prov recv _ moved np nr mv hskip hp ?_ hq
      intro p' pc' hp' hpc'
      rw [hpc] at hpc'; cases hpc'
      have := pathTrusted_some hp'
      subst this
      refine ⟨A ++ path.take (endPos + 1), B, ?_⟩
      rw [hAB]
      conv => lhs; rw [hsplit]
      simp only [List.append_assoc]
    · -- the front piece moved
      have hPpc := hp pc hpc
      obtain ⟨hpi, hcand⟩ := remove_contig (hP.nodup pc hPpc) hAB hstart hend hrem
      have hfacts := hP.facts pc start segEnd provCand pathIns hPpc hrem
      have hhead : pathIns[0]? = some start := by
        rw [hpi, List.getElem?_take_of_lt (by omega)]; exact hstart
      have hlen : pathIns.length = endPos + 1 := by rw [hpi, List.length_take]; omega
      have hlast : pathIns[pathIns.length - 1]? = some segEnd := by
        rw [hlen, hpi, show endPos + 1 - 1 = endPos by omega, List.getElem?_take_of_lt (by omega)]; exact hend
      have hq' := hQ recv moved start segEnd pathIns recv' rm hq hfacts hchk hhead hlast hconf hins
      rw [← hpi] at hrec
      have hp' : ∀ t', provCand = some t' → P t' := by
        intro t' ht'; subst ht'; exact hP.rem pc start segEnd t' pathIns hPpc hrem
      have hc' : Contig provCand (pathTrusted nw (path.drop (endPos + 1))) := by
        intro p' t' hp'' ht'
        have := pathTrusted_some hp''
        subst this
        exact ⟨A, B, hcand t' ht'⟩
      obtain ⟨r1, r2, r3⟩ := ih provCand recv' _ (moved ++ pathIns) np nr mv hrec hp' hc' hq'
      refine ⟨r1, r2, fun n => ?_⟩
      have h3 := r3 n
      rw [occ_append] at h3
      have hocc : shrunkOcc nw provCand n + occ nw pathIns n = shrunkOcc nw prov n := by
        rw [hpc]
        cases provCand with
        | some t' => simp only [shrunkOcc]; have := remove_some_occ hrem n; omega
        | none => simp only [shrunkOcc]; have := hP.noneOcc pc start segEnd pathIns hPpc hrem n; omega
      omega

/-! ### the two kinds of provider, the two kinds of receiver -/

theorem provPred_real {nw : Network} (hn : NetHyp nw) : ProvPred nw true (TourOK nw) where
  nodup := fun _ ht => tourOK_nodup hn.dt hn.wf hn.ap ht
  rem := fun t a b t' path ht h => remove_tourOK nw t t' a b path ht h
  facts := fun t a b ot path ht h => by
    obtain ⟨s, e, _, _, hsp, _, _⟩ := remove_split h
    exact ⟨(removed_facts h).1, fun _ => (removed_facts h).2 ht.chain, removed_pw (tourOK_pw hn.dt hn.wf ht) h,
      innerAct_of_contig hn.dt hn.wf hn.ap ht hsp⟩
  noneOcc := fun t a b path ht h n => remove_none_occ ht h n

theorem provPred_dummy {nw : Network} (hn : NetHyp nw) : ProvPred nw false (DummyOK nw) where
  nodup := fun _ ht => nodup_of_pw hn.ap ht.acts ht.pw
  rem := fun t a b t' path ht h => remove_dummyOK ht h
  facts := fun t a b ot path ht h => by
    obtain ⟨s, e, _, _, hsp, _, _⟩ := remove_split h
    refine ⟨(removed_facts h).1, fun hf => (by cases hf), removed_pw ht.pw h, innerAct_of_acts ?_⟩
    intro x hx
    exact ht.acts x (by rw [hsp]; simp [hx])
  noneOcc := fun t a b path ht h n => by
    obtain ⟨s, e, _, _, hsp, _, hnone⟩ := remove_split h
    rcases hnone rfl with he | ⟨hreal, _⟩
    · conv => lhs; rw [hsp]
      rw [occ_append, occ_append]
      have h1 : occ nw (t.nodes.take s) n = 0 := by
        have : t.nodes.take s = [] := (List.append_eq_nil_iff.mp he).1
        rw [this]; rfl
      have h2 : occ nw (t.nodes.drop (e + 1)) n = 0 := by
        have : t.nodes.drop (e + 1) = [] := (List.append_eq_nil_iff.mp he).2
        rw [this]; rfl
      omega
    · rw [ht.dummy] at hreal; cases hreal

/-- the path facts give a path `Path::new` accepts, for a real provider, or for a dummy provider
    whose piece passed the check of finding F18 -/
theorem pathOK_of_facts {nw : Network} {chk real : Bool} {path : List Nat} (hf : PathFacts nw real path)
    (hchk : ¬(chk && !(Tour.isChain nw path)) = true) (hor : real = true ∨ chk = true) : PathOK nw path := by
  rcases hor with hr | hc
  · exact ⟨hf.chain hr, hf.act⟩
  · subst hc
    exact ⟨chain_of_neg hchk, hf.act⟩

/-- receiver predicate for a real receiver: valid tour, and it has gained exactly what moved -/
def QReal (nw : Network) (recv0 : Tour) (moved0 : List Nat) (r : Tour) (mv : List Nat) : Prop :=
  TourOK nw r ∧ ∀ n, occ nw r.nodes n + occ nw moved0 n = occ nw recv0.nodes n + occ nw mv n

theorem qReal_step {nw : Network} (hn : NetHyp nw) {chk real : Bool} (hor : real = true ∨ chk = true)
    (recv0 : Tour) (moved0 : List Nat) :
    ∀ r mv start segEnd pathIns r' rm, QReal nw recv0 moved0 r mv → PathFacts nw real pathIns →
      ¬(chk && !(Tour.isChain nw pathIns)) = true →
      pathIns[0]? = some start → pathIns[pathIns.length - 1]? = some segEnd →
      Tour.conflict nw true r start segEnd = .ok none → insertPath nw true r pathIns = .ok (r', rm) →
      QReal nw recv0 moved0 r' (mv ++ pathIns) := by
  intro r mv start segEnd pathIns r' rm hq hf hchk hhead hlast hconf hins
  have hpath := pathOK_of_facts hf hchk hor
  have hrm := insert_no_conflict hq.1.real hhead hlast hconf hins
  subst hrm
  refine ⟨insert_tourOK nw hn.dt hn.wf r r' pathIns none hq.1 hpath hins, fun n => ?_⟩
  have h1 := insert_occ nw hn.dt hn.wf hn.ap r r' pathIns none hq.1 hpath hins n
  have h2 := hq.2 n
  simp only [Option.getD_none, occ_nil] at h1
  rw [occ_append]
  omega

/-- receiver predicate for a dummy receiver: it stays a valid dummy tour -/
def QDummy (nw : Network) (r : Tour) (_mv : List Nat) : Prop := DummyOK nw r

theorem qDummy_step {nw : Network} (hn : NetHyp nw) {chk real : Bool} :
    ∀ r mv start segEnd pathIns r' rm, QDummy nw r mv → PathFacts nw real pathIns →
      ¬(chk && !(Tour.isChain nw pathIns)) = true →
      pathIns[0]? = some start → pathIns[pathIns.length - 1]? = some segEnd →
      Tour.conflict nw true r start segEnd = .ok none → insertPath nw true r pathIns = .ok (r', rm) →
      QDummy nw r' (mv ++ pathIns) := by
  intro r mv start segEnd pathIns r' rm hq hf _ _ _ _ hins
  exact insert_dummyOK nw hn.dt hn.wf hn.ap r r' pathIns rm hq hf.pw (strip_nodepot hf.inner) hins

/-! ### `fit_reassign` -/

theorem bool_contra {b : Bool} {C : Prop} (h1 : b = true) (h2 : b = false) : C := by
  rw [h1] at h2; cases h2

/-- every dummy tour of the schedule is a valid dummy tour -/
def DummiesOK (nw : Network) (T : Tours) : Prop := ∀ d t, assocGet? T d = some t → DummyOK nw t

theorem tourOf_dummy {s : Schedule} (hi : ListInv s) (hd : DummyInv s) {v : Veh} {t : Tour}
    (h : s.tourOf? v = some t) (hdm : s.isDummy v = true) : assocGet? s.dummyTours v = some t := by
  unfold Schedule.tourOf? at h
  split at h
  · rename_i t' ht'
    have hv : s.isVehicle v = true := isVehicle_of_tour hi ht'
    have := dummy_not_vehicle hi hd hdm
    rw [hv] at this; cases this
  · exact h

/-- the loop of `fit_reassign`, seen from outside: the provider loses (counted over activities)
    exactly the moved nodes, a real receiver gains exactly them and stays a valid tour, dummy tours
    stay valid dummy tours -/
theorem fit_loop_facts {nw : Network} (hn : NetHyp nw) {s : Schedule} {p r : Veh} {a b : Nat} {pt rt : Tour}
    {path moved : List Nat} {newProv : Option Tour} {newRecv : Tour}
    (hi : ListInv s) (hd : DummyInv s) (ho : ToursOK nw s.tours) (hdo : DummiesOK nw s.dummyTours)
    (hpt : s.tourOf? p = some pt) (hrt : s.tourOf? r = some rt)
    (hsub : Tour.subPath nw pt a b = .ok path)
    (hloop : fitLoop nw (s.isDummy p && s.isVehicle r) (path.length + 1) (some pt) rt (some path) []
      = .ok (newProv, newRecv, moved)) :
    (s.isDummy p = false → ∀ n, shrunkOcc nw newProv n + occ nw moved n = occ nw pt.nodes n) ∧
    (s.isVehicle r = true → ∀ n, occ nw newRecv.nodes n + occ nw [] n = occ nw rt.nodes n + occ nw moved n) ∧
    (s.isDummy p = false → ∀ t, newProv = some t → TourOK nw t) ∧
    (s.isVehicle r = true → TourOK nw newRecv) ∧
    (s.isDummy p = true → ∀ t, newProv = some t → DummyOK nw t) ∧
    (s.isDummy r = true → DummyOK nw newRecv) := by
  -- the path is a contiguous part of the provider's tour
  obtain ⟨s0, e0, h1, h2, hpath, _, _⟩ := subPath_sublist hsub
  have hcontig : Contig (some pt) (some path) := by
    intro path' pc' e1 e2
    cases e1; cases e2
    exact ⟨pt.nodes.take s0, pt.nodes.drop (e0 + 1), by rw [hpath]; exact take_drop_split pt.nodes s0 (e0 + 1) h1⟩
  -- kinds of provider and receiver
  by_cases hpd : s.isDummy p = true
  · have hptd := hdo p pt (tourOf_dummy hi hd hpt hpd)
    by_cases hrv : s.isVehicle r = true
    · -- dummy provider, real receiver: the path check is on
      have hrnd := vehicle_not_dummy hi hd hrv
      have hrtok := ho r rt (tourOf_not_dummy hrt hrnd)
      have hchk : (s.isDummy p && s.isVehicle r) = true := by simp [hpd, hrv]
      rw [hchk] at hloop
      obtain ⟨r1, r2, r3⟩ := fitLoop_inv nw true false (DummyOK nw) (QReal nw rt []) (provPred_dummy hn)
        (qReal_step hn (Or.inr rfl) rt []) _ _ _ _ _ _ _ _ hloop
        (fun pc e => by cases e; exact hptd) hcontig ⟨hrtok, fun _ => rfl⟩
      refine ⟨fun h => bool_contra hpd h, fun _ n => ?_, fun h => bool_contra hpd h,
        fun _ => r2.1, fun _ => r1, fun h => bool_contra h hrnd⟩
      have := r2.2 n
      simp only [occ_nil] at this ⊢
      omega
    · -- dummy provider, dummy receiver
      have hrd : s.isDummy r = true := by
        cases hrd : s.isDummy r with
        | true => rfl
        | false => exact absurd (isVehicle_of_tour hi (tourOf_not_dummy hrt hrd)) hrv
      have hrtd := hdo r rt (tourOf_dummy hi hd hrt hrd)
      obtain ⟨r1, r2, r3⟩ := fitLoop_inv nw _ false (DummyOK nw) (QDummy nw) (provPred_dummy hn)
        (qDummy_step hn) _ _ _ _ _ _ _ _ hloop
        (fun pc e => by cases e; exact hptd) hcontig hrtd
      exact ⟨fun h => bool_contra hpd h, fun h => absurd h hrv, fun h => bool_contra hpd h,
        fun h => absurd h hrv, fun _ => r1, fun _ => r2⟩
  · have hpd' : s.isDummy p = false := by simpa using hpd
    have hptok := ho p pt (tourOf_not_dummy hpt hpd')
    have hprovEq : ∀ (np : Option Tour) (mv : List Nat),
        (∀ n, shrunkOcc nw np n + occ nw mv n = shrunkOcc nw (some pt) n + occ nw [] n) →
        ∀ n, shrunkOcc nw np n + occ nw mv n = occ nw pt.nodes n := by
      intro np mv h n
      have := h n
      simp only [shrunkOcc, occ_nil] at this ⊢
      omega
    by_cases hrv : s.isVehicle r = true
    · have hrnd := vehicle_not_dummy hi hd hrv
      have hrtok := ho r rt (tourOf_not_dummy hrt hrnd)
      obtain ⟨r1, r2, r3⟩ := fitLoop_inv nw _ true (TourOK nw) (QReal nw rt []) (provPred_real hn)
        (qReal_step hn (Or.inl rfl) rt []) _ _ _ _ _ _ _ _ hloop
        (fun pc e => by cases e; exact hptok) hcontig ⟨hrtok, fun _ => rfl⟩
      refine ⟨fun _ => hprovEq _ _ r3, fun _ n => ?_, fun _ => r1, fun _ => r2.1,
        fun h => bool_contra h hpd', fun h => bool_contra h hrnd⟩
      have := r2.2 n
      simp only [occ_nil] at this ⊢
      omega
    · have hrd : s.isDummy r = true := by
        cases hrd : s.isDummy r with
        | true => rfl
        | false => exact absurd (isVehicle_of_tour hi (tourOf_not_dummy hrt hrd)) hrv
      have hrtd := hdo r rt (tourOf_dummy hi hd hrt hrd)
      obtain ⟨r1, r2, r3⟩ := fitLoop_inv nw _ true (TourOK nw) (QDummy nw) (provPred_real hn)
        (qDummy_step hn) _ _ _ _ _ _ _ _ hloop
        (fun pc e => by cases e; exact hptok) hcontig hrtd
      exact ⟨fun _ => hprovEq _ _ r3, fun h => absurd h hrv, fun _ => r1, fun h => absurd h hrv,
        fun h => bool_contra h hpd', fun _ => r2⟩

theorem fit_leaf {nw : Network} (hn : NetHyp nw) {s : Schedule} {p r : Veh} {a b : Nat} {pt rt : Tour}
    {path : List Nat} {res : Option Tour × Tour × List Nat} {w : Work} {site1 site2 : String}
    (hi : ListInv s) (hd : DummyInv s) (ho : ToursOK nw s.tours) (hdo : DummiesOK nw s.dummyTours)
    (hf : FormCount nw s.tours s.formations) (hne : p ≠ r)
    (hpt' : unwrapO (s.tourOf? p) site1 = .ok pt) (hrt' : unwrapO (s.tourOf? r) site2 = .ok rt)
    (hsub : Tour.subPath nw pt a b = .ok path)
    (hloop : fitLoop nw (s.isDummy p && s.isVehicle r) (path.length + 1) (some pt) rt (some path) [] = .ok res)
    (hut : updateTours nw s (Work.ofSchedule s) (some p) res.1 r res.2.1 res.2.2 = .ok w) :
    FormCount nw w.tours w.forms := by
  have hpt := unwrapO_ok hpt'
  have hrt := unwrapO_ok hrt'
  obtain ⟨f1, f2, _, _, _, _⟩ := fit_loop_facts (newProv := res.1) (newRecv := res.2.1) (moved := res.2.2)
    hn hi hd ho hdo hpt hrt hsub hloop
  intro n x
  have := reassign_core (dropped := []) hi hd hf hne hpt hrt f1 f2 hut n x
  simpa [occ_nil] using this

theorem fit_forms {nw : Network} (hn : NetHyp nw) {s s' : Schedule} {p r : Veh} {a b : Nat}
    (hi : ListInv s) (hd : DummyInv s) (ho : ToursOK nw s.tours) (hdo : DummiesOK nw s.dummyTours)
    (hf : FormCount nw s.tours s.formations) (hne : p ≠ r)
    (h : fitReassign nw s p r a b = .ok s') : FormCount nw s'.tours s'.formations := by
  unfold fitReassign at h
  inv_do h
  all_goals (try contradiction)
  all_goals (try (cases h))
  all_goals (try (simp only [pure, Except.pure, Except.ok.injEq] at *))
  all_goals (try subst_vars)
  all_goals (
    exact fit_leaf hn hi hd ho hdo hf hne (by assumption) (by assumption) (by assumption) (by assumption)
      (by assumption))

/-! ### dummy tours stay valid under every public modification -/

theorem dok_set {nw : Network} {T : Tours} {k : Veh} {t : Tour} (h : DummiesOK nw T) (ht : DummyOK nw t) :
    DummiesOK nw (assocSet T k t) := by
  intro d t' hget
  rw [assocGet?_assocSet] at hget
  by_cases e : d = k
  · simp only [e, ↓reduceIte, Option.some.injEq] at hget; rw [← hget]; exact ht
  · simp only [e, ↓reduceIte] at hget; exact h d t' hget

theorem dok_erase {nw : Network} {T : Tours} {k : Veh} (h : DummiesOK nw T) : DummiesOK nw (assocErase T k) := by
  intro d t' hget
  rw [assocGet?_assocErase] at hget
  by_cases e : d = k
  · simp [e] at hget
  · simp only [e, ↓reduceIte] at hget; exact h d t' hget

theorem dok_addDummy {nw : Network} {T : Tours} {ids : List Veh} {d : Veh} {dt : Tour} (h : DummiesOK nw T)
    (hdt : DummyOK nw dt) : DummiesOK nw (addDummyTour T ids d dt).1 := dok_set h hdt

theorem dok_of_addDummy_eq {nw : Network} {T a : Tours} {ids b : List Veh} {d : Veh} {dt : Tour}
    (h : DummiesOK nw T) (hdt : DummyOK nw dt) (e : addDummyTour T ids d dt = (a, b)) : DummiesOK nw a := by
  have := dok_addDummy (ids := ids) (d := d) h hdt
  rw [e] at this; exact this

theorem utc_dok {nw : Network} {s : Schedule} {tours dummyTours : Tours} {costs : Nat} {v : Veh} {t : Tour}
    {r : Tours × Tours × Nat} (hd : DummiesOK nw dummyTours) (ht : s.isDummy v = true → DummyOK nw t)
    (h : updateTourAndCosts s tours dummyTours costs v t = .ok r) : DummiesOK nw r.2.1 := by
  unfold updateTourAndCosts at h
  split at h
  · rename_i hdum
    simp only [pure, Except.pure, Except.ok.injEq] at h; rw [← h]
    exact dok_set hd (ht hdum)
  · obtain ⟨old, _, h⟩ := bind_ok h
    obtain ⟨c', _, h⟩ := bind_ok h
    simp only [pure, Except.pure, Except.ok.injEq] at h; rw [← h]; exact hd

theorem updateTours_dok {nw : Network} {s : Schedule} {w' : Work} {p r : Veh} {newProv : Option Tour}
    {newRecv : Tour} {moved : List Nat} (hdo : DummiesOK nw s.dummyTours)
    (hp : s.isDummy p = true → ∀ t, newProv = some t → DummyOK nw t)
    (hr : s.isDummy r = true → DummyOK nw newRecv)
    (h : updateTours nw s (Work.ofSchedule s) (some p) newProv r newRecv moved = .ok w') :
    DummiesOK nw w'.dummyTours := by
  unfold updateTours at h
  dsimp only at h
  inv_do h
  all_goals (try contradiction)
  all_goals (try (cases h))
  all_goals (try (simp only [pure, Except.pure, Except.ok.injEq] at *))
  all_goals (try subst_vars)
  all_goals (try dsimp only)
  all_goals (first
    | exact utc_dok (utc_dok hdo (fun hdm => hp hdm _ rfl) (by assumption)) hr (by assumption)
    | exact utc_dok (dok_erase hdo) hr (by assumption)
    | exact utc_dok hdo hr (by assumption)
    | trace_state)

/-- what `insert_path` displaces is a piece of the old tour -/
theorem insert_rm_sublist (nw : Network) (hd : C17.DepotTimes nw) (hw : NodesWF' nw) (t t' : Tour)
    (path np : List Nat) (hc : TimeChain nw t.nodes) (hne : 0 < t.nodes.length)
    (h : insertPath nw true t path = .ok (t', some np)) : np.Sublist t.nodes := by
  unfold insertPath at h
  obtain ⟨pl, hpl, h⟩ := C12.bind_ok h
  obtain ⟨c, _, h⟩ := C12.bind_ok h
  simp only [pure, Except.pure, Except.ok.injEq, Prod.mk.injEq] at h
  obtain ⟨_, hrm⟩ := h
  obtain ⟨_, _, h3⟩ := C12.plan_inv nw hd hw t path hc hne pl hpl
  have : np = pl.old := pathTrusted_some hrm
  rw [this, h3]
  unfold insertRef
  exact slice_sublist _ _ _

theorem tour_pw {nw : Network} (hn : NetHyp nw) {s : Schedule} (hi : ListInv s) (hd : DummyInv s)
    (ho : ToursOK nw s.tours) (hdo : DummiesOK nw s.dummyTours) {v : Veh} {t : Tour} (h : s.tourOf? v = some t) :
    PW nw t.nodes ∧ 0 < t.nodes.length := by
  by_cases hdm : s.isDummy v = true
  · have := hdo v t (tourOf_dummy hi hd h hdm)
    exact ⟨this.pw, List.length_pos_iff.mpr this.ne⟩
  · have hok := ho v t (tourOf_not_dummy h (by simpa using hdm))
    exact ⟨tourOK_pw hn.dt hn.wf hok, by have := shape_len hok.shape; omega⟩

theorem subPath_pw {nw : Network} {t : Tour} {a b : Nat} {path : List Nat} (hp : PW nw t.nodes)
    (h : Tour.subPath nw t a b = .ok path) : PW nw path := by
  obtain ⟨s, e, _, _, hpath, _, _⟩ := subPath_sublist h
  rw [hpath]; exact pw_sublist (slice_sublist _ _ _) hp

theorem delete_dok {nw : Network} (hn : NetHyp nw) {s s' : Schedule} {v : Veh}
    (ho : ToursOK nw s.tours) (hdo : DummiesOK nw s.dummyTours)
    (h : replaceVehicleByDummy nw s v = .ok s') : DummiesOK nw s'.dummyTours := by
  unfold replaceVehicleByDummy at h
  inv_do h
  all_goals (try contradiction)
  all_goals (try (cases h))
  all_goals (try (simp only [pure, Except.pure, Except.ok.injEq] at *))
  all_goals (try subst_vars)
  all_goals (
    have hold := unwrapO_ok (by assumption : unwrapO (assocGet? s.tours v) _ = .ok _)
    have hpw := subPath_pw (tourOK_pw hn.dt hn.wf (ho v _ hold)) (by assumption)
    try dsimp only
    first
    | exact hdo
    | exact dok_of_addDummy_eq hdo (newDummy_ok hpw (by assumption)) (by assumption)
    | trace_state)

syntax "same_dummies " ident : tactic
macro_rules
  | `(tactic| same_dummies $h:ident) => `(tactic|
    (inv_do $h
     all_goals (try contradiction)
     all_goals (try (cases $h:ident))
     all_goals rfl))

theorem spawn_dummyTours {nw : Network} {s s' : Schedule} {vt : Nat} {path : List Nat} {v : Veh}
    (h : spawnVehicleForPath nw s vt path = .ok (s', v)) : s'.dummyTours = s.dummyTours := by
  unfold spawnVehicleForPath at h
  same_dummies h

theorem addPath_dummyTours {nw : Network} {s s' : Schedule} {v : Veh} {path : List Nat} {rm : Option (List Nat)}
    (h : addPathToVehicleTour nw s v path = .ok (s', rm)) : s'.dummyTours = s.dummyTours := by
  unfold addPathToVehicleTour at h
  same_dummies h

theorem improve_dummyTours {nw : Network} {s s' : Schedule} {vs : Option (List Veh)}
    (h : improveDepots nw s vs = .ok s') : s'.dummyTours = s.dummyTours := by
  unfold improveDepots at h
  dsimp only at h
  obtain ⟨_, _, h⟩ := bind_ok h
  obtain ⟨_, _, h⟩ := bind_ok h
  same_dummies h

theorem endGreedy_dummyTours {nw : Network} {s s' : Schedule}
    (h : reassignEndDepotsGreedily nw s = .ok s') : s'.dummyTours = s.dummyTours := by
  unfold reassignEndDepotsGreedily at h
  obtain ⟨_, _, h⟩ := bind_ok h
  same_dummies h

theorem recompute_dummyTours {nw : Network} {s s' : Schedule} {vts : Option (List Nat)}
    (h : recomputeTransitionsFor nw s vts = .ok s') : s'.dummyTours = s.dummyTours := by
  unfold recomputeTransitionsFor at h
  same_dummies h

theorem deleteDummy_dok {nw : Network} {s s1 : Schedule} {d : Veh} (hdo : DummiesOK nw s.dummyTours)
    (h : deleteDummy s d = .ok s1) : DummiesOK nw s1.dummyTours := by
  unfold deleteDummy at h
  inv_do h
  all_goals (try contradiction)
  all_goals (try (cases h))
  all_goals exact dok_erase hdo

theorem dummySpawn_dok {nw : Network} {s s' : Schedule} {d : Veh} {vt : Nat} {v : Veh}
    (hdo : DummiesOK nw s.dummyTours) (h : spawnToReplaceDummy nw s d vt = .ok (s', v)) :
    DummiesOK nw s'.dummyTours := by
  unfold spawnToReplaceDummy at h
  inv_do h
  all_goals (try contradiction)
  all_goals (try (cases h))
  all_goals (
    rename_i s1 hdel
    rw [spawn_dummyTours h]
    exact deleteDummy_dok hdo hdel)

theorem rmSeg_dok {nw : Network} (hn : NetHyp nw) {s s' : Schedule} {v : Veh} {a b : Nat}
    (hi : ListInv s) (hd : DummyInv s) (ho : ToursOK nw s.tours) (hdo : DummiesOK nw s.dummyTours)
    (h : removeSegment nw s v a b = .ok s') : DummiesOK nw s'.dummyTours := by
  unfold removeSegment at h
  inv_do h
  all_goals (try contradiction)
  all_goals (try (cases h))
  all_goals (try (simp only [pure, Except.pure, Except.ok.injEq] at *))
  all_goals (try subst_vars)
  all_goals (first
    | exact delete_dok hn ho hdo (by assumption)
    | (have hv' : s.isVehicle v = true := by simpa using (by assumption : ¬ (!s.isVehicle v) = true)
       have htour := unwrapO_ok (by assumption : unwrapO (s.tourOf? v) _ = .ok _)
       rw [(tourOf_vehicle hi hv').1] at htour
       have hnd := vehicle_not_dummy hi hd hv'
       have hpw := removed_pw (tourOK_pw hn.dt hn.wf (ho v _ htour)) (by assumption)
       have hu := utc_dok (nw := nw) hdo (fun hdm => bool_contra hdm hnd) (by assumption)
       try dsimp only
       first
       | exact hu
       | exact dok_of_addDummy_eq hu (newDummy_ok hpw (by assumption)) (by assumption)
       | trace_state))

theorem fit_dok {nw : Network} (hn : NetHyp nw) {s s' : Schedule} {p r : Veh} {a b : Nat}
    (hi : ListInv s) (hd : DummyInv s) (ho : ToursOK nw s.tours) (hdo : DummiesOK nw s.dummyTours)
    (h : fitReassign nw s p r a b = .ok s') : DummiesOK nw s'.dummyTours := by
  unfold fitReassign at h
  inv_do h
  all_goals (try contradiction)
  all_goals (try (cases h))
  all_goals (try (simp only [pure, Except.pure, Except.ok.injEq] at *))
  all_goals (try subst_vars)
  all_goals (
    have hpt := unwrapO_ok (by assumption : unwrapO (s.tourOf? p) _ = .ok _)
    have hrt := unwrapO_ok (by assumption : unwrapO (s.tourOf? r) _ = .ok _)
    obtain ⟨_, _, _, _, f5, f6⟩ := fit_loop_facts (p := p) (r := r) hn hi hd ho hdo hpt hrt (by assumption) (by assumption)
    exact updateTours_dok hdo f5 f6 (by assumption))

theorem override_parts {nw : Network} (hn : NetHyp nw) {s : Schedule} {p r : Veh} {a b : Nat} {pt rt : Tour}
    {shrunk : Option Tour} {path : List Nat} {ins : Tour × Option (List Nat)} {w : Work} {site1 site2 : String}
    (hi : ListInv s) (hd : DummyInv s) (ho : ToursOK nw s.tours) (hdo : DummiesOK nw s.dummyTours)
    (hpt' : unwrapO (s.tourOf? p) site1 = .ok pt) (hrt' : unwrapO (s.tourOf? r) site2 = .ok rt)
    (hrem : Tour.remove nw pt a b = .ok (shrunk, path))
    (hins : insertPath nw true rt path = .ok ins)
    (hut : updateTours nw s (Work.ofSchedule s) (some p) shrunk r ins.1 path = .ok w) :
    DummiesOK nw w.dummyTours ∧ ∀ np, ins.2 = some np → PW nw np := by
  have hpt := unwrapO_ok hpt'
  have hrt := unwrapO_ok hrt'
  obtain ⟨hptpw, _⟩ := tour_pw hn hi hd ho hdo hpt
  obtain ⟨hrtpw, hrtne⟩ := tour_pw hn hi hd ho hdo hrt
  have hpathpw := removed_pw hptpw hrem
  constructor
  · apply updateTours_dok hdo ?_ ?_ hut
    · intro hdm t ht
      subst ht
      exact remove_dummyOK (hdo p pt (tourOf_dummy hi hd hpt hdm)) hrem
    · intro hdm
      have hrtd := hdo r rt (tourOf_dummy hi hd hrt hdm)
      have hinner : InnerAct nw path := by
        obtain ⟨s0, e0, _, _, hsp, _, _⟩ := remove_split hrem
        by_cases hpd : s.isDummy p = true
        · have hptd := hdo p pt (tourOf_dummy hi hd hpt hpd)
          exact innerAct_of_acts (fun x hx => hptd.acts x (by rw [hsp]; simp [hx]))
        · exact innerAct_of_contig hn.dt hn.wf hn.ap (ho p pt (tourOf_not_dummy hpt (by simpa using hpd))) hsp
      exact insert_dummyOK nw hn.dt hn.wf hn.ap rt ins.1 path ins.2 hrtd hpathpw (strip_nodepot hinner) hins
  · intro np hnp
    have hsub := insert_rm_sublist nw hn.dt hn.wf rt ins.1 path np (timeChain_of_pw nw rt.nodes hrtpw) hrtne
      (by rw [← hnp]; exact hins)
    exact pw_sublist hsub hrtpw

theorem override_dok {nw : Network} (hn : NetHyp nw) {s s' : Schedule} {p r : Veh} {a b : Nat} {d : Option Veh}
    (hi : ListInv s) (hd : DummyInv s) (ho : ToursOK nw s.tours) (hdo : DummiesOK nw s.dummyTours)
    (h : overrideReassign nw s p r a b = .ok (s', d)) : DummiesOK nw s'.dummyTours := by
  unfold overrideReassign at h
  inv_do h
  all_goals (try contradiction)
  all_goals (try (cases h))
  all_goals (try (simp only [pure, Except.pure, Except.ok.injEq] at *))
  all_goals (try subst_vars)
  all_goals (
    obtain ⟨hw, hnp⟩ := override_parts (p := p) (r := r) hn hi hd ho hdo (by assumption) (by assumption) (by assumption)
      (by assumption) (by assumption)
    try dsimp only
    first
    | exact hw
    | exact dok_set hw (newDummy_ok (hnp _ (by assumption)) (by assumption))
    | exact dok_addDummy hw (newDummy_ok (hnp _ (by assumption)) (by assumption))
    | exact dok_of_addDummy_eq hw (newDummy_ok (hnp _ (by assumption)) (by assumption)) (by assumption)
    | trace_state)

/-! ### every public modification, every history -/

/-- the invariant: vehicle listing, dummy keys, valid real tours, valid dummy tours, and the
    formation counts -/
structure Inv (nw : Network) (s : Schedule) : Prop where
  tinv : TInv nw s
  dok : DummiesOK nw s.dummyTours
  forms : FormCount nw s.tours s.formations

theorem dok_step (nw : Network) (hn : NetHyp nw) (s : Schedule) (op : SOp) (r : OpResult)
    (hinv : Inv nw s) (h : applyOp nw s op = .ok r) : DummiesOK nw r.sched.dummyTours := by
  obtain ⟨⟨hi, hd, ho⟩, hdo, _⟩ := hinv
  unfold applyOp at h
  cases op with
  | init =>
    simp only [pure, Except.pure, Except.ok.injEq] at h
    rw [← h]; intro d t hget; simp [Schedule.empty, assocGet?_nil] at hget
  | spawn vt path =>
    obtain ⟨⟨s', v⟩, hs, h⟩ := bind_ok h
    simp only [pure, Except.pure, Except.ok.injEq] at h
    rw [← h]; show DummiesOK nw s'.dummyTours; rw [spawn_dummyTours hs]; exact hdo
  | dummySpawn d vt =>
    obtain ⟨⟨s', v⟩, hs, h⟩ := bind_ok h
    simp only [pure, Except.pure, Except.ok.injEq] at h
    rw [← h]; exact dummySpawn_dok hdo hs
  | delete v =>
    obtain ⟨s', hs, h⟩ := bind_ok h
    simp only [pure, Except.pure, Except.ok.injEq] at h
    rw [← h]; exact delete_dok hn ho hdo hs
  | addPath v path =>
    dsimp only at h
    split at h
    · obtain ⟨⟨s', rm⟩, hs, h⟩ := bind_ok h
      simp only [pure, Except.pure, Except.ok.injEq] at h
      rw [← h]; show DummiesOK nw s'.dummyTours; rw [addPath_dummyTours hs]; exact hdo
    · cases h
  | rmSeg v a b =>
    obtain ⟨s', hs, h⟩ := bind_ok h
    simp only [pure, Except.pure, Except.ok.injEq] at h
    rw [← h]; exact rmSeg_dok hn hi hd ho hdo hs
  | fit p q a b =>
    obtain ⟨s', hs, h⟩ := bind_ok h
    simp only [pure, Except.pure, Except.ok.injEq] at h
    rw [← h]; exact fit_dok hn hi hd ho hdo hs
  | override p q a b =>
    obtain ⟨⟨s', d⟩, hs, h⟩ := bind_ok h
    simp only [pure, Except.pure, Except.ok.injEq] at h
    rw [← h]; exact override_dok hn hi hd ho hdo hs
  | improve vs =>
    obtain ⟨s', hs, h⟩ := bind_ok h
    simp only [pure, Except.pure, Except.ok.injEq] at h
    rw [← h]; show DummiesOK nw s'.dummyTours; rw [improve_dummyTours hs]; exact hdo
  | endGreedy =>
    obtain ⟨s', hs, h⟩ := bind_ok h
    simp only [pure, Except.pure, Except.ok.injEq] at h
    rw [← h]; show DummiesOK nw s'.dummyTours; rw [endGreedy_dummyTours hs]; exact hdo
  | recompute vts =>
    obtain ⟨s', hs, h⟩ := bind_ok h
    simp only [pure, Except.pure, Except.ok.injEq] at h
    rw [← h]; show DummiesOK nw s'.dummyTours; rw [recompute_dummyTours hs]; exact hdo
  | endConsistent =>
    obtain ⟨s', hs, h⟩ := bind_ok h
    simp only [pure, Except.pure, Except.ok.injEq] at h
    rw [← h]; show DummiesOK nw s'.dummyTours
    rw [(C05.C05_reassign nw s s' hs).2.2.2.2.1]; exact hdo
  | setTrans vt v ci =>
    obtain ⟨tr, _, h⟩ := bind_ok h
    obtain ⟨moved, _, h⟩ := bind_ok h
    simp only [pure, Except.pure, Except.ok.injEq] at h
    rw [← h]; exact hdo

/-- **C10 (formation membership, dummy tours), one step**: every public modification of the model —
    with provider ≠ receiver for reassignments — preserves the invariant -/
theorem C10_forms_step (nw : Network) (hn : NetHyp nw) (s : Schedule) (op : SOp) (r : OpResult)
    (hinv : Inv nw s) (hargs : ArgsOKF op) (h : applyOp nw s op = .ok r) : Inv nw r.sched := by
  have ht := C10_tours_step nw hn.dt hn.wf s op r hinv.tinv h
  have hd := dok_step nw hn s op r hinv h
  refine ⟨ht, hd, ?_⟩
  by_cases hfit : ∃ p q a b, op = .fit p q a b
  · obtain ⟨p, q, a, b, rfl⟩ := hfit
    unfold applyOp at h
    obtain ⟨s', hs, h⟩ := bind_ok h
    simp only [pure, Except.pure, Except.ok.injEq] at h
    rw [← h]
    exact fit_forms hn hinv.tinv.listing hinv.tinv.dummies hinv.tinv.tours hinv.dok hinv.forms hargs hs
  · exact forms_step_noFit nw hn s op r ⟨hinv.tinv, hinv.forms⟩ hargs
      (fun p q a b e => hfit ⟨p, q, a, b, e⟩) h

theorem empty_inv (nw : Network) : Inv nw (Schedule.empty nw) := by
  refine ⟨⟨empty_listInv nw, by intro d hd; simp [Schedule.empty, assocGet?_nil] at hd,
    by intro v t hv; simp [Schedule.empty, assocGet?_nil] at hv⟩,
    by intro d t hget; simp [Schedule.empty, assocGet?_nil] at hget, ?_⟩
  intro n v
  show (formOf (Schedule.empty nw).formations n).count v = tourOcc nw [] v n
  have : ∀ f, assocGet? (Schedule.empty nw).formations n = some f → f = [] := by
    intro f hf'
    have hm := assocGet?_mem hf'
    simp only [Schedule.empty, List.mem_map, Prod.mk.injEq] at hm
    obtain ⟨_, _, _, rfl⟩ := hm; rfl
  unfold formOf tourOcc
  cases hg : assocGet? (Schedule.empty nw).formations n with
  | none => simp [assocGet?_nil]
  | some f => rw [this f hg]; simp [assocGet?_nil]

theorem C10_forms_reachable (nw : Network) (hn : NetHyp nw) : ∀ (ops : List SOp) (s s' : Schedule),
    Inv nw s → (∀ op ∈ ops, ArgsOKF op) → runOps nw s ops = some s' → Inv nw s'
  | [], s, s', hinv, _, h => by simp only [runOps, Option.some.injEq] at h; rw [← h]; exact hinv
  | op :: rest, s, s', hinv, hargs, h => by
    unfold runOps at h
    split at h
    · rename_i r hr
      exact C10_forms_reachable nw hn rest r.sched s'
        (C10_forms_step nw hn s op r hinv (hargs op (by simp)) hr) (fun o ho => hargs o (by simp [ho])) h
    · cases h

/-- **C10 / C03 (formation membership and dummy tours), every history**: in every schedule the
    model reaches from the empty schedule by public modifications (provider ≠ receiver in
    reassignments), for every node and every vehicle the number of times the vehicle is listed in the
    node's formation equals the number of times the node occurs among the activities of the vehicle's
    tour; every dummy tour is a non-empty, time-ordered list of activities -/
theorem C10_forms_from_empty (nw : Network) (hn : NetHyp nw) (ops : List SOp) (s' : Schedule)
    (hargs : ∀ op ∈ ops, ArgsOKF op) (h : runOps nw (Schedule.empty nw) ops = some s') : Inv nw s' :=
  C10_forms_reachable nw hn ops _ s' (empty_inv nw) hargs h

/-! ### what the counts mean -/

theorem occ_le_one {nw : Network} {l : List Nat} (hn : l.Nodup) (n : Nat) : occ nw l n ≤ 1 := by
  unfold occ
  have : (l.filter (fun x => !(nw.node x).isDepot)).Nodup := List.Nodup.sublist List.filter_sublist hn
  exact List.nodup_iff_count.mp this n

theorem occ_pos_iff {nw : Network} {l : List Nat} (n : Nat) :
    0 < occ nw l n ↔ n ∈ l ∧ (nw.node n).isDepot = false := by
  unfold occ
  rw [List.count_pos_iff, List.mem_filter]
  simp

/-- **formation membership**: a vehicle is listed at most once in every formation, and it is listed
    in the formation of `n` iff `n` is an activity on its own tour -/
theorem C10_formation_membership {nw : Network} (hn : NetHyp nw) {s : Schedule} (hinv : Inv nw s) (n : Nat) :
    (formOf s.formations n).Nodup ∧
    ∀ v, v ∈ formOf s.formations n ↔ ∃ t, assocGet? s.tours v = some t ∧ n ∈ t.nodes ∧ (nw.node n).isDepot = false := by
  have hle : ∀ v, tourOcc nw s.tours v n ≤ 1 := by
    intro v
    unfold tourOcc
    cases hg : assocGet? s.tours v with
    | none => simp
    | some t => exact occ_le_one (tourOK_nodup hn.dt hn.wf hn.ap (hinv.tinv.tours v t hg)) n
  constructor
  · rw [List.nodup_iff_count]
    intro v; rw [hinv.forms n v]; exact hle v
  · intro v
    rw [← List.count_pos_iff, hinv.forms n v]
    unfold tourOcc
    cases hg : assocGet? s.tours v with
    | none => simp
    | some t =>
      simp only [Option.some.injEq, exists_eq_left']
      exact occ_pos_iff n

/-- the network hypotheses are decidable on a loaded network: the drivers evaluate `formHypsB` on
    every network of a run (STAT `c10.formhyps`) -/
theorem formHyps_sound (nw : Network) (h : formHypsB nw = true) : NetHyp nw := by
  unfold formHypsB at h
  simp only [Bool.and_eq_true] at h
  obtain ⟨h1, h2⟩ := h
  obtain ⟨hdt, hwf⟩ := tourHyps_sound nw h1
  refine ⟨hdt, hwf, ?_⟩
  unfold actPosB at h2
  simp only [Bool.and_eq_true, Bool.not_eq_true'] at h2
  obtain ⟨hall, hdef⟩ := h2
  have hall := List.all_eq_true.mp hall
  intro i hact
  by_cases hi : i < nw.nodes.size
  · have := hall i (by simp [Network.allIdx, hi])
    simp only [hact, Bool.not_true, Bool.false_or] at this
    exact this
  · have hdn : nw.node i = default := by unfold Network.node; simp [Array.getD, hi]
    rw [hdn, hdef] at hact; cases hact

end RSSched.C10Fit
