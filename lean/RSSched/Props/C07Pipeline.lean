/-
Props/C07Pipeline: "no later optimisation stage ever gives up covered demand", for the modelled
pipeline: the unserved-passenger figure of the returned schedule — the exact sum, over all service
trips, of the passenger and seat shortfall of the trip's formation (Props/C09Unserved) — is at most
that of the start solution: the local search never accepts a step that raises the first level of the
objective, and storing the optimised transitions and aligning the end depots do not touch formations.
-/
import RSSched.Props.C08
import RSSched.Props.C09Unserved
import RSSched.Props.C05Reassign
namespace RSSched.C07P
open RSSched Schedule Network Spec C10F C09U

theorem le_unserved {a b : Obj} (h : Obj.le a b) : a.unserved ≤ b.unserved := by
  rcases h with h | h
  · unfold Obj.lt at h
    rcases h with h | ⟨h, _⟩
    · exact Nat.le_of_lt h
    · exact Nat.le_of_eq h
  · rw [h]; exact Nat.le_refl _

/-- the stages after the start solution, on the cached figure -/
theorem stages_unserved (nw : Network) (o : Solve.Oracle) (tr : Solve.Trace) (h : Solve.solve nw o = .ok tr) :
    tr.afterSearch.unserved.1 + tr.afterSearch.unserved.2 ≤ tr.start.unserved.1 + tr.start.unserved.2 ∧
    tr.final.unserved = tr.afterSearch.unserved := by
  unfold Solve.solve at h
  obtain ⟨flow, hf, h⟩ := C15.bind_ok h
  obtain ⟨start, hs, h⟩ := C15.bind_ok h
  dsimp only at h
  obtain ⟨final, hfin, h⟩ := C15.bind_ok h
  simp only [pure, Except.pure, Except.ok.injEq] at h
  subst h
  dsimp only
  constructor
  · split
    · exact Nat.le_refl _
    · have := le_unserved (C08.C08_result Schedule.objective (Solve.nbrs nw o.limit o.threshold) o.fuel start)
      exact this
  · have hc := C05.C05_reassign nw _ final hfin
    exact hc.2.2.2.2.2.2.2.1

/-- **C07 (no stage gives up covered demand), modelled pipeline**: with the exact unserved figures of
    `C09_unserved_pipeline`, the returned schedule's total shortfall over all service trips is at
    most the start solution's, and equal to the local-search result's -/
theorem C07_no_stage_gives_up (nw : Network) (hn : NetHyp nw) (o : Solve.Oracle)
    (hopt : ∀ s, ((o.optimise s).map (·.1)).Nodup) (tr : Solve.Trace) (h : Solve.solve nw o = .ok tr) :
    let total := fun (s : Schedule) => (sumU nw s.typeOf? s.formations).1 + (sumU nw s.typeOf? s.formations).2
    total tr.final ≤ total tr.start ∧ total tr.final = total tr.afterSearch := by
  obtain ⟨u1, u2, u3⟩ := C09_unserved_pipeline nw hn o hopt tr h
  obtain ⟨s1, s2⟩ := stages_unserved nw o tr h
  unfold UExact at u1 u2 u3
  dsimp only
  rw [← u1, ← u2, ← u3, s2]
  exact ⟨s1, rfl⟩

end RSSched.C07P
