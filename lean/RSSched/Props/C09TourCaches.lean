/-
Props/C09TourCaches: the tour-cache clause of C09 at schedule level, for the model, every history:
in every schedule reachable by public modifications every real vehicle's tour has exact caches
(useful duration, service distance, dead-head distance, costs, visits-maintenance flag equal their
recomputation from the node list) — on networks with finite node durations and distance-free depot
nodes (`netHypsB`). The tour-level theorems (`C09_insertPath`, `C09_remove`, `C09_replaceStartDepot`,
`C09_replaceEndDepot`, `C09_computing_exact`) are lifted through every public modification by
re-running the proof of Props/C10Tours with the strengthened tour predicate "valid tour whose caches
are exact" (same statements, same proof scripts: the predicate extends `C10T.TourOK`, and the five
closure lemmas are re-proved for it).
-/
import RSSched.Props.C10Tours
import RSSched.Props.C09Insert
namespace RSSched.C09T
open RSSched Schedule Network Tour Spec C15 C02 C10L C09C
open RSSched.C10T hiding TourOK insert_tourOK remove_tourOK new_tourOK replaceStartDepot_tourOK replaceEndDepot_tourOK

/-- the two network hypotheses of the tour-cache theorems -/
def Net9 (nw : Network) : Prop := C09.DurFinite nw ∧ C09.DepotDistZero nw

/-- a valid real tour whose caches are exact (on networks satisfying `Net9`) -/
structure TourOK (nw : Network) (t : Tour) : Prop extends C10T.TourOK nw t where
  caches : Net9 nw → C09.Exact nw t

theorem insert_tourOK (nw : Network) (hd : C17.DepotTimes nw) (hw : NodesWF' nw) (t t' : Tour) (path : List Nat)
    (rm : Option (List Nat)) (ht : TourOK nw t) (hp : PathOK nw path)
    (h : insertPath nw true t path = .ok (t', rm)) : TourOK nw t' :=
  { toTourOK := C10T.insert_tourOK nw hd hw t t' path rm ht.toTourOK hp h
    caches := fun h9 => C09.C09_insertPath nw h9.1 true t t' path rm (ht.caches h9) h }

theorem remove_tourOK (nw : Network) (t t' : Tour) (a b : Nat) (path : List Nat) (ht : TourOK nw t)
    (h : Tour.remove nw t a b = .ok (some t', path)) : TourOK nw t' :=
  { toTourOK := C10T.remove_tourOK nw t t' a b path ht.toTourOK h
    caches := fun h9 => C09.C09_remove nw h9.1 t t' a b path (ht.caches h9) h }

theorem head_isStart {nw : Network} {t : Tour} (ht : C10T.TourOK nw t) :
    (nw.node (t.nodes.headD 0)).isStartDepot = true := by
  obtain ⟨sd, mid, ed, hl, hsd, _, _, _⟩ := ht.shape
  rw [hl]; exact hsd

theorem last_isEnd {nw : Network} {t : Tour} (ht : C10T.TourOK nw t) :
    (nw.node (t.nodes.getLastD 0)).isEndDepot = true := by
  obtain ⟨sd, mid, ed, hl, _, hed, _, _⟩ := ht.shape
  rw [hl]
  have : (sd :: (mid ++ [ed])).getLastD 0 = ed := by
    rw [show sd :: (mid ++ [ed]) = (sd :: mid) ++ [ed] by simp, List.getLastD_eq_getLast?, List.getLast?_append]
    simp
  rw [this]; exact hed

theorem replaceStartDepot_tourOK (nw : Network) (t t' : Tour) (d : Nat) (ht : TourOK nw t)
    (h : t.replaceStartDepot nw d = .ok t') : TourOK nw t' :=
  { toTourOK := C10T.replaceStartDepot_tourOK nw t t' d ht.toTourOK h
    caches := fun h9 => C09.C09_replaceStartDepot nw h9.2 t t' d (ht.caches h9) (head_isStart ht.toTourOK) h }

theorem replaceEndDepot_tourOK (nw : Network) (t t' : Tour) (d : Nat) (ht : TourOK nw t)
    (h : t.replaceEndDepot nw d = .ok t') : TourOK nw t' :=
  { toTourOK := C10T.replaceEndDepot_tourOK nw t t' d ht.toTourOK h
    caches := fun h9 => C09.C09_replaceEndDepot nw h9.2 t t' d (ht.caches h9) (last_isEnd ht.toTourOK) h }

theorem new_tourOK (nw : Network) (nodes : List Nat) (t : Tour) (h : Tour.new nw nodes = .ok t) : TourOK nw t :=
  { toTourOK := C10T.new_tourOK nw nodes t h
    caches := fun _ => by
      unfold Tour.new at h
      obtain ⟨errs, _, h⟩ := C12.bind_ok h
      split at h
      · cases h
      · simp only [pure, Except.pure, Except.ok.injEq] at h
        rw [← h]
        exact (C09.exact_iff nw _).mp (C09.C09_computing_exact nw nodes false) }

def ToursOK (nw : Network) (T : Tours) : Prop := ∀ v t, assocGet? T v = some t → TourOK nw t

theorem toursOK_set {nw : Network} {T : Tours} {v : Veh} {t : Tour} (h : ToursOK nw T) (ht : TourOK nw t) :
    ToursOK nw (assocSet T v t) := by
  intro w t' hw
  rw [assocGet?_assocSet] at hw
  by_cases e : w = v
  · simp only [e, ↓reduceIte, Option.some.injEq] at hw; rw [← hw]; exact ht
  · simp only [e, ↓reduceIte] at hw; exact h w t' hw

theorem toursOK_erase {nw : Network} {T : Tours} {v : Veh} (h : ToursOK nw T) : ToursOK nw (assocErase T v) := by
  intro w t' hw
  rw [assocGet?_assocErase] at hw
  by_cases e : w = v
  · simp [e] at hw
  · simp only [e, ↓reduceIte] at hw; exact h w t' hw

/-- the removed part of a tour contains an activity, and is a chain if the tour is one -/
theorem removed_facts {nw : Network} {t : Tour} {a b : Nat} {ot : Option Tour} {path : List Nat}
    (h : Tour.remove nw t a b = .ok (ot, path)) :
    hasNonDepot nw path = true ∧ (chainB nw t.nodes = true → chainB nw path = true) := by
  unfold Tour.remove at h
  obtain ⟨s, _, h⟩ := C09.bindR_inv h
  obtain ⟨e, _, h⟩ := C09.bindR_inv h
  obtain ⟨u, _, h⟩ := C09.bindR_inv h
  obtain ⟨removed, hrem, h⟩ := C09.bindR_inv h
  obtain ⟨ud, _, h⟩ := C09.bindR_inv h
  obtain ⟨sd', _, h⟩ := C09.bindR_inv h
  obtain ⟨seg, _, h⟩ := C09.bindR_inv h
  obtain ⟨dh0, _, h⟩ := C09.bindR_inv h
  obtain ⟨gapD, _, h⟩ := C09.bindR_inv h
  obtain ⟨cseg, _, h⟩ := C09.bindR_inv h
  obtain ⟨c0, _, h⟩ := C09.bindR_inv h
  obtain ⟨gapC, _, h⟩ := C09.bindR_inv h
  obtain ⟨_, _, hremeq⟩ := C09.slice_inv hrem
  dsimp only at h
  split at h
  · rename_i p hp
    have hpr : p = removed := C12.pathTrusted_some nw _ _ hp
    have hpath : path = removed := by
      split at h
      · simp only [pure, Except.pure, Except.ok.injEq, Prod.mk.injEq] at h; rw [← h.2, hpr]
      · simp only [pure, Except.pure, Except.ok.injEq, Prod.mk.injEq] at h; rw [← h.2, hpr]
    refine ⟨?_, ?_⟩
    · rw [hpath]
      unfold pathTrusted at hp
      split at hp
      · cases hp
      · rename_i hall
        unfold hasNonDepot
        rw [List.any_eq_true]
        apply Classical.byContradiction
        intro hne
        apply hall
        rw [List.all_eq_true]
        intro x hx
        cases hd : (nw.node x).isDepot
        · exact absurd ⟨x, hx, by simp [hd]⟩ hne
        · rfl
    · intro hc
      rw [hpath, hremeq]
      exact C01.chainB_take nw _ _ (C01.chainB_drop nw _ _ hc)
  · cases h

/-- the removed part of a valid real tour is a valid path -/
theorem removed_pathOK {nw : Network} {t : Tour} {a b : Nat} {ot : Option Tour} {path : List Nat}
    (ht : TourOK nw t) (h : Tour.remove nw t a b = .ok (ot, path)) : PathOK nw path :=
  ⟨(removed_facts h).2 ht.chain, (removed_facts h).1⟩

theorem pathNew_ok {nw : Network} {nodes p : List Nat} (h : pathNew nw nodes = .ok (some p)) : PathOK nw p := by
  unfold pathNew at h
  split at h
  · cases h
  · rename_i hany
    simp only [pure, Except.pure, Except.ok.injEq] at h
    have hp : p = nodes := C12.pathTrusted_some nw _ _ h
    subst hp
    refine ⟨?_, ?_⟩
    · unfold chainB
      rw [List.all_eq_true]
      intro x hx
      cases hc : nw.canReach x.1 x.2
      · exact absurd (List.any_eq_true.mpr ⟨x, hx, by simp [hc]⟩) hany
      · rfl
    · unfold pathTrusted at h
      split at h
      · cases h
      · rename_i hall
        unfold hasNonDepot
        rw [List.any_eq_true]
        apply Classical.byContradiction
        intro hne
        apply hall
        rw [List.all_eq_true]
        intro x hx
        cases hd : (nw.node x).isDepot
        · exact absurd ⟨x, hx, by simp [hd]⟩ hne
        · rfl

theorem tourOf_cases {s : Schedule} {v : Veh} {t : Tour} (h : s.tourOf? v = some t) :
    assocGet? s.tours v = some t ∨ s.isDummy v = true := by
  unfold Schedule.tourOf? at h
  split at h
  · left; rename_i t' ht; rw [ht, ← h]
  · right; unfold Schedule.isDummy; rw [h]; rfl

theorem tourOf_ok {nw : Network} {s : Schedule} {v : Veh} {t : Tour} {site : String} (ho : ToursOK nw s.tours)
    (h : unwrapO (s.tourOf? v) site = .ok t) (hnd : s.isDummy v = false) : TourOK nw t := by
  rcases tourOf_cases (unwrapO_ok h) with h1 | h1
  · exact ho v t h1
  · rw [hnd] at h1; cases h1

theorem utc_toursOK {nw : Network} {s : Schedule} {tours dummyTours : Tours} {costs : Nat} {v : Veh} {t : Tour}
    {r : Tours × Tours × Nat} (ho : ToursOK nw tours) (ht : s.isDummy v = false → TourOK nw t)
    (h : updateTourAndCosts s tours dummyTours costs v t = .ok r) : ToursOK nw r.1 := by
  unfold updateTourAndCosts at h
  split at h
  · simp only [pure, Except.pure, Except.ok.injEq] at h; rw [← h]; exact ho
  · rename_i hnd
    obtain ⟨old, _, h⟩ := bind_ok h
    obtain ⟨c', _, h⟩ := bind_ok h
    simp only [pure, Except.pure, Except.ok.injEq] at h; rw [← h]
    exact toursOK_set ho (ht (by simpa using hnd))

theorem updateTours_toursOK {nw : Network} {s : Schedule} {w w' : Work} {p : Veh} {newProv : Option Tour}
    {receiver : Veh} {newRecv : Tour} {moved : List Nat} (ho : ToursOK nw w.tours)
    (hp : ∀ t, newProv = some t → s.isDummy p = false → TourOK nw t)
    (hr : s.isDummy receiver = false → TourOK nw newRecv)
    (h : updateTours nw s w (some p) newProv receiver newRecv moved = .ok w') : ToursOK nw w'.tours := by
  cases newProv with
  | some t =>
    have hp' := hp t rfl
    unfold updateTours at h
    inv_do h
    all_goals (try contradiction)
    all_goals (try (cases h))
    all_goals (try (simp only [pure, Except.pure, Except.ok.injEq] at *))
    all_goals (try subst_vars)
    all_goals (try dsimp only)
    all_goals (first
      | exact utc_toursOK (utc_toursOK ho hp' (by assumption)) hr (by assumption)
      | trace_state)
  | none =>
    unfold updateTours at h
    inv_do h
    all_goals (try contradiction)
    all_goals (try (cases h))
    all_goals (try (simp only [pure, Except.pure, Except.ok.injEq] at *))
    all_goals (try subst_vars)
    all_goals (try dsimp only)
    all_goals (first
      | exact utc_toursOK ho hr (by assumption)
      | exact utc_toursOK (toursOK_erase ho) hr (by assumption)
      | trace_state)


theorem fitLoop_tourOK (nw : Network) (hd : C17.DepotTimes nw) (hw : NodesWF' nw) (chk : Bool) :
    ∀ (fuel : Nat) (prov : Option Tour) (recv : Tour) (rem : Option (List Nat)) (moved : List Nat)
      (np : Option Tour) (nr : Tour) (mv : List Nat),
      (∀ t, prov = some t → TourOK nw t) → fitLoop nw chk fuel prov recv rem moved = .ok (np, nr, mv) →
      (∀ t, np = some t → TourOK nw t) ∧ (TourOK nw recv → TourOK nw nr)
  | 0, prov, recv, rem, moved, np, nr, mv, hprov, h => by
    unfold fitLoop at h
    simp only [pure, Except.pure, Except.ok.injEq, Prod.mk.injEq] at h
    obtain ⟨h1, h2, _⟩ := h
    subst h1; subst h2
    exact ⟨hprov, id⟩
  | fuel + 1, prov, recv, rem, moved, np, nr, mv, hprov, h => by
    have ih := fitLoop_tourOK nw hd hw chk fuel
    unfold fitLoop at h
    inv_do h
    all_goals (try contradiction)
    all_goals (try (cases h))
    all_goals (first
      | exact ih _ _ _ _ _ _ _ hprov h
      | exact ⟨hprov, id⟩
      | (have hp := hprov _ (unwrapO_ok (by assumption))
         have h1 := ih _ _ _ _ _ _ _ (fun t e => by subst e; exact remove_tourOK nw _ _ _ _ _ hp (by assumption)) h
         exact ⟨h1.1, fun hr => h1.2 (insert_tourOK nw hd hw _ _ _ _ hr (removed_pathOK hp (by assumption)) (by assumption))⟩)
      | trace_state)

theorem chain_of_neg {nw : Network} {l : List Nat} (h : ¬(true && !isChain nw l) = true) : chainB nw l = true := by
  cases hc : isChain nw l
  · simp [hc] at h
  · exact hc

/-- with the path check on (dummy provider, real receiver) the receiver stays valid whatever the
    provider's tour looks like -/
theorem fitLoop_recvOK (nw : Network) (hd : C17.DepotTimes nw) (hw : NodesWF' nw) :
    ∀ (fuel : Nat) (prov : Option Tour) (recv : Tour) (rem : Option (List Nat)) (moved : List Nat)
      (np : Option Tour) (nr : Tour) (mv : List Nat),
      fitLoop nw true fuel prov recv rem moved = .ok (np, nr, mv) → TourOK nw recv → TourOK nw nr
  | 0, prov, recv, rem, moved, np, nr, mv, h, hr => by
    unfold fitLoop at h
    simp only [pure, Except.pure, Except.ok.injEq, Prod.mk.injEq] at h
    obtain ⟨h1, h2, _⟩ := h
    subst h2
    exact hr
  | fuel + 1, prov, recv, rem, moved, np, nr, mv, h, hr => by
    have ih := fitLoop_recvOK nw hd hw fuel
    unfold fitLoop at h
    inv_do h
    all_goals (try contradiction)
    all_goals (try (cases h))
    all_goals (first
      | exact ih _ _ _ _ _ _ _ h hr
      | exact hr
      | skip)
    all_goals (
      have hneg := ‹¬(true && !isChain nw _) = true›
      exact ih _ _ _ _ _ _ _ h (insert_tourOK nw hd hw _ _ _ _ hr
        ⟨chain_of_neg hneg, (removed_facts (by assumption)).1⟩ (by assumption)))

syntax "prep_goals9 " ident : tactic
macro_rules
  | `(tactic| prep_goals9 $h:ident) => `(tactic|
    (all_goals (try contradiction)
     all_goals (try (cases $h:ident))
     all_goals (try (simp only [pure, Except.pure, Except.ok.injEq] at *))
     all_goals (try subst_vars)
     all_goals (try dsimp only)))

theorem spawn_toursOK {nw : Network} {s s' : Schedule} {vt : Nat} {path : List Nat} {v : Veh}
    (ho : ToursOK nw s.tours) (h : spawnVehicleForPath nw s vt path = .ok (s', v)) : ToursOK nw s'.tours := by
  unfold spawnVehicleForPath at h
  inv_do h
  prep_goals9 h
  all_goals (first
    | exact toursOK_set ho (new_tourOK nw _ _ (by assumption))
    | trace_state)

theorem delete_toursOK {nw : Network} {s s' : Schedule} {v : Veh}
    (ho : ToursOK nw s.tours) (h : replaceVehicleByDummy nw s v = .ok s') : ToursOK nw s'.tours := by
  unfold replaceVehicleByDummy at h
  inv_do h
  prep_goals9 h
  all_goals (first
    | exact toursOK_erase ho
    | trace_state)

theorem dummySpawn_toursOK {nw : Network} {s s' : Schedule} {d : Veh} {vt : Nat} {v : Veh}
    (ho : ToursOK nw s.tours) (h : spawnToReplaceDummy nw s d vt = .ok (s', v)) : ToursOK nw s'.tours := by
  unfold spawnToReplaceDummy at h
  inv_do h
  all_goals (try contradiction)
  all_goals (try (cases h))
  all_goals (
    have hc := deleteDummy_core (by assumption)
    have ht := congrArg Core.tours hc
    refine spawn_toursOK ?_ h
    change ToursOK nw (coreOf _).tours
    rw [ht]; exact ho)

theorem addPath_toursOK {nw : Network} (hd : C17.DepotTimes nw) (hw : NodesWF' nw) {s s' : Schedule} {v : Veh}
    {path : List Nat} {rm : Option (List Nat)} (ho : ToursOK nw s.tours) (hp : PathOK nw path)
    (h : addPathToVehicleTour nw s v path = .ok (s', rm)) : ToursOK nw s'.tours := by
  unfold addPathToVehicleTour at h
  inv_do h
  prep_goals9 h
  all_goals (first
    | exact toursOK_set ho (insert_tourOK nw hd hw _ _ _ _ (ho _ _ (unwrapO_ok (by assumption))) hp (by assumption))
    | trace_state)

theorem tourOf_veh_ok {nw : Network} {s : Schedule} {v : Veh} {t : Tour} {site : String} (hi : ListInv s)
    (ho : ToursOK nw s.tours) (hv : ¬ (!s.isVehicle v) = true) (h : unwrapO (s.tourOf? v) site = .ok t) : TourOK nw t := by
  have hv' : s.isVehicle v = true := by simpa using hv
  have := unwrapO_ok h
  rw [(tourOf_vehicle hi hv').1] at this
  exact ho v t this

theorem rmSeg_toursOK {nw : Network} {s s' : Schedule} {v : Veh} {a b : Nat}
    (hi : ListInv s) (ho : ToursOK nw s.tours) (h : removeSegment nw s v a b = .ok s') : ToursOK nw s'.tours := by
  unfold removeSegment at h
  inv_do h
  all_goals (try contradiction)
  all_goals (try (cases h))
  all_goals (first
    | exact delete_toursOK ho (by assumption)
    | (have ht := tourOf_veh_ok hi ho (by assumption) (by assumption)
       subst_vars
       exact utc_toursOK ho (fun _ => remove_tourOK nw _ _ _ _ _ ht (by assumption)) (by assumption))
    | trace_state)


/-- a vehicle with a tour in `tours` is a real vehicle (listing invariant) -/
theorem isVehicle_of_tour {s : Schedule} (hi : ListInv s) {r : Veh} {t : Tour} (h : assocGet? s.tours r = some t) :
    s.isVehicle r = true := by
  have hs : (assocGet? s.vehicles r).isSome = (assocGet? s.tours r).isSome := hi.same r
  unfold Schedule.isVehicle; rw [hs, h]; rfl

theorem recv_cases {s : Schedule} (hi : ListInv s) {r : Veh} {rt : Tour} {site : String}
    (hrt : unwrapO (s.tourOf? r) site = .ok rt) (hr : s.isDummy r = false) :
    assocGet? s.tours r = some rt ∧ s.isVehicle r = true := by
  rcases tourOf_cases (unwrapO_ok hrt) with h1 | h1
  · exact ⟨h1, isVehicle_of_tour hi h1⟩
  · rw [hr] at h1; cases h1

theorem fit_toursOK {nw : Network} (hd : C17.DepotTimes nw) (hw : NodesWF' nw) {s s' : Schedule} {p r : Veh} {a b : Nat}
    (hi : ListInv s) (ho : ToursOK nw s.tours)
    (h : fitReassign nw s p r a b = .ok s') : ToursOK nw s'.tours := by
  unfold fitReassign at h
  obtain ⟨c, _, h⟩ := bind_ok h
  split at h
  · cases h
  obtain ⟨pt, hpt, h⟩ := bind_ok h
  obtain ⟨rt, hrt, h⟩ := bind_ok h
  obtain ⟨path, _, h⟩ := bind_ok h
  obtain ⟨⟨np, nr, mv⟩, hfl, h⟩ := bind_ok h
  dsimp only at h
  obtain ⟨w, hwk, h⟩ := bind_ok h
  obtain ⟨⟨trans, viol⟩, _, h⟩ := bind_ok h
  simp only [pure, Except.pure, Except.ok.injEq] at h
  rw [← h]
  cases hpd : s.isDummy p with
  | false =>
    have hptok := tourOf_ok ho hpt hpd
    have hf := fitLoop_tourOK nw hd hw _ _ _ _ _ _ _ _ _ (fun t e => by cases e; exact hptok) hfl
    exact updateTours_toursOK (w := Work.ofSchedule s) ho (fun t e _ => hf.1 t e)
      (fun hr => hf.2 (tourOf_ok ho hrt hr)) hwk
  | true =>
    refine updateTours_toursOK (w := Work.ofSchedule s) ho (fun t _ hnd => by rw [hpd] at hnd; cases hnd) ?_ hwk
    intro hr
    obtain ⟨hrt', hvr⟩ := recv_cases hi hrt hr
    rw [hpd, hvr] at hfl
    exact fitLoop_recvOK nw hd hw _ _ _ _ _ _ _ _ hfl (ho r rt hrt')

theorem override_toursOK {nw : Network} (hd : C17.DepotTimes nw) (hw : NodesWF' nw) {s s' : Schedule} {p r : Veh}
    {a b : Nat} {d : Option Veh} (hi : ListInv s) (ho : ToursOK nw s.tours)
    (h : overrideReassign nw s p r a b = .ok (s', d)) : ToursOK nw s'.tours := by
  unfold overrideReassign at h
  obtain ⟨c, _, h⟩ := bind_ok h
  split at h
  · cases h
  obtain ⟨pt, hpt, h⟩ := bind_ok h
  obtain ⟨rt, hrt, h⟩ := bind_ok h
  obtain ⟨⟨shrunk, path⟩, hrem, h⟩ := bind_ok h
  dsimp only at h
  split at h
  · cases h
  rename_i hneg
  obtain ⟨⟨newRecv, replaced⟩, hins, h⟩ := bind_ok h
  dsimp only at h
  obtain ⟨w, hwk, h⟩ := bind_ok h
  have hw' : ToursOK nw w.tours := by
    refine updateTours_toursOK (w := Work.ofSchedule s) ho ?_ ?_ hwk
    · intro t e hnd
      subst e
      exact remove_tourOK nw _ _ _ _ _ (tourOf_ok ho hpt hnd) hrem
    · intro hr
      obtain ⟨hrt', hvr⟩ := recv_cases hi hrt hr
      have hchain : chainB nw path = true := by
        cases hpd : s.isDummy p with
        | false => exact (removed_facts hrem).2 (tourOf_ok ho hpt hpd).chain
        | true =>
          rw [hpd, hvr] at hneg
          cases hc : isChain nw path
          · simp [hc] at hneg
          · exact hc
      exact insert_tourOK nw hd hw _ _ _ _ (ho r rt hrt') ⟨hchain, (removed_facts hrem).1⟩ hins
  inv_do h
  all_goals (try contradiction)
  all_goals (try (cases h))
  all_goals (try (simp only [pure, Except.pure, Except.ok.injEq] at *))
  all_goals (try subst_vars)
  all_goals (first | exact hw' | trace_state)

/-! ### the three folds that re-choose depots -/
theorem fold_toursOK (nw : Network) (F : Acc → Veh → R Acc) (L0 : List Veh)
    (hF : ∀ acc v acc', v ∈ L0 → F acc v = .ok acc' → ∃ nt, acc'.1 = assocSet acc.1 v nt ∧ TourOK nw nt) :
    ∀ (L : List Veh) (acc acc' : Acc), (∀ v ∈ L, v ∈ L0) → ToursOK nw acc.1 → L.foldlM F acc = .ok acc' →
      ToursOK nw acc'.1
  | [], acc, acc', _, ho, h => by
    simp only [List.foldlM_nil, pure, Except.pure, Except.ok.injEq] at h
    rw [← h]; exact ho
  | x :: xs, acc, acc', hL, ho, h => by
    rw [List.foldlM_cons] at h
    obtain ⟨a1, h1, h⟩ := bind_ok h
    obtain ⟨nt, hset, hnt⟩ := hF acc x a1 (hL x (by simp)) h1
    refine fold_toursOK nw F L0 hF xs a1 acc' (fun v hv => hL v (by simp [hv])) ?_ h
    rw [hset]; exact toursOK_set ho hnt

theorem vehTour_ok {nw : Network} {s : Schedule} {v : Veh} {t : Tour} (hi : ListInv s) (ho : ToursOK nw s.tours)
    (hv : s.isVehicle v = true) (h : s.tourOf? v = some t) : TourOK nw t := by
  rw [(tourOf_vehicle hi hv).1] at h
  exact ho v t h

theorem improveDepotsOfTour_tourOK {nw : Network} {t nt : Tour} {vt : Nat} {u : DepotUsage} (ht : TourOK nw t)
    (h : improveDepotsOfTour nw t vt u = .ok nt) : TourOK nw nt := by
  unfold improveDepotsOfTour at h
  obtain ⟨fnd, _, h⟩ := bind_ok h
  obtain ⟨ns, _, h⟩ := bind_ok h
  obtain ⟨cur, _, h⟩ := bind_ok h
  dsimp only at h
  have tail : ∀ t1, TourOK nw t1 → (do
      let lnd ← unwrapO (lastNonDepot nw t1) "last_non_depot().unwrap()"
      let ne ← unwrapR (findBestEndDepot nw lnd) "find_best_end_depot_for_despawning(..).unwrap()"
      let curE ← Transition.endDepotU nw t1
      if (ne != curE) = true then unwrapR (replaceEndDepot nw t1 ne) "replace_end_depot(..).unwrap()" else pure t1) = .ok nt →
      TourOK nw nt := by
    intro t1 h1 h
    obtain ⟨lnd, _, h⟩ := bind_ok h
    obtain ⟨ne, _, h⟩ := bind_ok h
    obtain ⟨curE, _, h⟩ := bind_ok h
    split at h
    · exact replaceEndDepot_tourOK nw _ _ _ h1 (unwrapR_ok h)
    · simp only [pure, Except.pure, Except.ok.injEq] at h; rw [← h]; exact h1
  split at h
  · obtain ⟨t1, ht1, h⟩ := bind_ok h
    exact tail t1 (replaceStartDepot_tourOK nw _ _ _ ht (unwrapR_ok ht1)) h
  · obtain ⟨t1, ht1, h⟩ := bind_ok h
    simp only [pure, Except.pure, Except.ok.injEq] at ht1
    subst ht1
    exact tail _ ht h

theorem improveStep_tok {nw : Network} {s : Schedule} {acc acc' : Acc} {v : Veh} (hi : ListInv s)
    (ho : ToursOK nw s.tours) (h : improveStep nw s acc v = .ok acc') :
    ∃ nt, acc'.1 = assocSet acc.1 v nt ∧ TourOK nw nt := by
  obtain ⟨tours, u, costs⟩ := acc
  unfold improveStep at h
  dsimp only at h
  obtain ⟨t, ht, h⟩ := bind_ok h
  obtain ⟨vt, hvt, h⟩ := bind_ok h
  obtain ⟨nt, hnt, h⟩ := bind_ok h
  obtain ⟨c, hc, h⟩ := bind_ok h
  obtain ⟨sd, _, h⟩ := bind_ok h
  obtain ⟨ed, _, h⟩ := bind_ok h
  simp only [pure, Except.pure, Except.ok.injEq] at h
  subst h
  exact ⟨nt, rfl, improveDepotsOfTour_tourOK (vehTour_ok hi ho (typed_isVehicle (unwrapO_ok hvt)) (unwrapO_ok ht)) hnt⟩

theorem greedyStep_tok {nw : Network} {s : Schedule} {acc acc' : Acc} {v : Veh} (hi : ListInv s)
    (ho : ToursOK nw s.tours) (hv : s.isVehicle v = true) (h : greedyStep nw s acc v = .ok acc') :
    ∃ nt, acc'.1 = assocSet acc.1 v nt ∧ TourOK nw nt := by
  obtain ⟨tours, u, costs⟩ := acc
  unfold greedyStep at h
  dsimp only at h
  obtain ⟨t, ht, h⟩ := bind_ok h
  obtain ⟨lnd, _, h⟩ := bind_ok h
  split at h
  · obtain ⟨ne, _, h⟩ := bind_ok h
    obtain ⟨nt, hnt, h⟩ := bind_ok h
    obtain ⟨c, hc, h⟩ := bind_ok h
    obtain ⟨u', _, h⟩ := bind_ok h
    simp only [pure, Except.pure, Except.ok.injEq] at h
    subst h
    exact ⟨nt, rfl, replaceEndDepot_tourOK nw _ _ _ (vehTour_ok hi ho hv (unwrapO_ok ht)) (unwrapR_ok hnt)⟩
  · simp [bind, Except.bind] at h

theorem endStep_tok {nw : Network} {s : Schedule} {acc acc' : Acc} {v : Veh} (hi : ListInv s)
    (ho : ToursOK nw s.tours) (h : C05.endStep nw s acc v = .ok acc') :
    ∃ nt, acc'.1 = assocSet acc.1 v nt ∧ TourOK nw nt := by
  obtain ⟨tours, u, costs⟩ := acc
  unfold C05.endStep at h
  dsimp only at h
  obtain ⟨t, ht, h⟩ := bind_ok h
  obtain ⟨vt, hvt, h⟩ := bind_ok h
  obtain ⟨tr, htr, h⟩ := bind_ok h
  obtain ⟨next, hnext, h⟩ := bind_ok h
  obtain ⟨ntour, hntour, h⟩ := bind_ok h
  obtain ⟨sd, hsd, h⟩ := bind_ok h
  obtain ⟨nt, hnt, h⟩ := bind_ok h
  obtain ⟨c, _, h⟩ := bind_ok h
  obtain ⟨u', _, h⟩ := bind_ok h
  simp only [pure, Except.pure, Except.ok.injEq] at h
  subst h
  exact ⟨nt, rfl, replaceEndDepot_tourOK nw _ _ _ (vehTour_ok hi ho (typed_isVehicle (unwrapO_ok hvt)) (unwrapO_ok ht)) (unwrapR_ok hnt)⟩

theorem endConsistent_toursOK {nw : Network} {s s' : Schedule} (hi : ListInv s) (ho : ToursOK nw s.tours)
    (h : reassignEndDepotsConsistent nw s = .ok s') : ToursOK nw s'.tours := by
  have hunf : reassignEndDepotsConsistent nw s = (do
      let (tours, usage, cst) ← (s.vehiclesAll nw).foldlM (C05.endStep nw s) (s.tours, s.depotUsage, s.costs)
      let (trans, viol) ← updateTransitionsFast nw s s.vehicles tours (s.vehiclesAll nw) [] s.transitions s.violation
      pure { s with tours, transitions := trans, depotUsage := usage, violation := viol, costs := cst }) := rfl
  rw [hunf] at h
  obtain ⟨⟨tours, usage, cst⟩, hfold, h⟩ := bind_ok h
  dsimp only at h
  obtain ⟨⟨trans, viol⟩, _, h⟩ := bind_ok h
  simp only [pure, Except.pure, Except.ok.injEq] at h
  rw [← h]
  exact fold_toursOK nw (C05.endStep nw s) (s.vehiclesAll nw)
    (fun acc v acc' _ hstep => endStep_tok hi ho hstep)
    (s.vehiclesAll nw) (s.tours, s.depotUsage, s.costs) (tours, usage, cst) (fun _ h => h) ho hfold

theorem endGreedy_toursOK {nw : Network} {s s' : Schedule} (hi : ListInv s) (ho : ToursOK nw s.tours)
    (h : reassignEndDepotsGreedily nw s = .ok s') : ToursOK nw s'.tours := by
  have hunf : reassignEndDepotsGreedily nw s = (do
      let (tours, usage, cst) ← (s.vehiclesAll nw).foldlM (greedyStep nw s) (s.tours, s.depotUsage, s.costs)
      let (trans, viol) ← recomputeTransitions nw s.idsByType tours nw.typeIdxs s.transitions s.violation
      pure { s with tours, transitions := trans, depotUsage := usage, violation := viol, costs := cst }) := rfl
  rw [hunf] at h
  obtain ⟨⟨tours, usage, cst⟩, hfold, h⟩ := bind_ok h
  dsimp only at h
  obtain ⟨⟨trans, viol⟩, _, h⟩ := bind_ok h
  simp only [pure, Except.pure, Except.ok.injEq] at h
  rw [← h]
  exact fold_toursOK nw (greedyStep nw s) (s.vehiclesAll nw)
    (fun acc v acc' hv hstep => greedyStep_tok hi ho (listed_isVehicle hi hv) hstep)
    (s.vehiclesAll nw) (s.tours, s.depotUsage, s.costs) (tours, usage, cst) (fun _ h => h) ho hfold

theorem improve_toursOK {nw : Network} {s s' : Schedule} {vs : Option (List Veh)} (hi : ListInv s)
    (ho : ToursOK nw s.tours) (h : improveDepots nw s vs = .ok s') : ToursOK nw s'.tours := by
  unfold improveDepots at h
  dsimp only at h
  obtain ⟨usage0, _, h⟩ := bind_ok h
  have hstep : ∀ (u0 : DepotUsage) (r : Acc),
      (vs.getD (s.vehiclesAll nw)).foldlM (improveStep nw s) (s.tours, u0, s.costs) = .ok r → ToursOK nw r.1 := by
    intro u0 r hfold
    exact fold_toursOK nw (improveStep nw s) (vs.getD (s.vehiclesAll nw))
      (fun acc v acc' _ hst => improveStep_tok hi ho hst)
      _ (s.tours, u0, s.costs) r (fun _ h => h) ho hfold
  obtain ⟨⟨tours, usage, cst⟩, hfold, h⟩ := bind_ok h
  have hc := hstep usage0 (tours, usage, cst) hfold
  inv_do h
  all_goals (try contradiction)
  all_goals (try (cases h))
  all_goals exact hc

theorem recompute_toursOK {nw : Network} {s s' : Schedule} {vts : Option (List Nat)} (ho : ToursOK nw s.tours)
    (h : recomputeTransitionsFor nw s vts = .ok s') : ToursOK nw s'.tours := by
  unfold recomputeTransitionsFor at h
  inv_do h
  all_goals (try contradiction)
  all_goals (try (cases h))
  all_goals exact ho


/-! ### every history -/
structure TInv (nw : Network) (s : Schedule) : Prop where
  listing : ListInv s
  dummies : DummyInv s
  tours : ToursOK nw s.tours

theorem dk_step (nw : Network) (s : Schedule) (op : Spec.SOp) (r : OpResult)
    (hd : DummyInv s) (h : applyOp nw s op = .ok r) : DummyInv r.sched := by
  unfold applyOp at h
  cases op with
  | init =>
    simp only [pure, Except.pure, Except.ok.injEq] at h
    rw [← h]; intro d hd'; simp [Schedule.empty, assocGet?_nil] at hd'
  | spawn vt path =>
    obtain ⟨⟨s', v⟩, hs, h⟩ := bind_ok h
    simp only [pure, Except.pure, Except.ok.injEq] at h
    rw [← h]; exact spawn_dk hd hs
  | dummySpawn d vt =>
    obtain ⟨⟨s', v⟩, hs, h⟩ := bind_ok h
    simp only [pure, Except.pure, Except.ok.injEq] at h
    rw [← h]; exact dummySpawn_dk hd hs
  | delete v =>
    obtain ⟨s', hs, h⟩ := bind_ok h
    simp only [pure, Except.pure, Except.ok.injEq] at h
    rw [← h]; exact delete_dk hd hs
  | addPath v path =>
    dsimp only at h
    split at h
    · obtain ⟨⟨s', rm⟩, hs, h⟩ := bind_ok h
      simp only [pure, Except.pure, Except.ok.injEq] at h
      rw [← h]; exact addPath_dk hd hs
    · cases h
  | rmSeg v a b =>
    obtain ⟨s', hs, h⟩ := bind_ok h
    simp only [pure, Except.pure, Except.ok.injEq] at h
    rw [← h]; exact rmSeg_dk hd hs
  | fit p r a b =>
    obtain ⟨s', hs, h⟩ := bind_ok h
    simp only [pure, Except.pure, Except.ok.injEq] at h
    rw [← h]; exact fit_dk hd hs
  | override p r a b =>
    obtain ⟨⟨s', d⟩, hs, h⟩ := bind_ok h
    simp only [pure, Except.pure, Except.ok.injEq] at h
    rw [← h]; exact override_dk hd hs
  | improve vs =>
    obtain ⟨s', hs, h⟩ := bind_ok h
    simp only [pure, Except.pure, Except.ok.injEq] at h
    rw [← h]; exact improve_dk hd hs
  | endGreedy =>
    obtain ⟨s', hs, h⟩ := bind_ok h
    simp only [pure, Except.pure, Except.ok.injEq] at h
    rw [← h]; exact endGreedy_dk hd hs
  | recompute vts =>
    obtain ⟨s', hs, h⟩ := bind_ok h
    simp only [pure, Except.pure, Except.ok.injEq] at h
    rw [← h]; exact recompute_dk hd hs
  | endConsistent =>
    obtain ⟨s', hs, h⟩ := bind_ok h
    simp only [pure, Except.pure, Except.ok.injEq] at h
    rw [← h]; exact endConsistent_dk hd hs
  | setTrans vt v ci =>
    obtain ⟨tr, _, h⟩ := bind_ok h
    obtain ⟨moved, _, h⟩ := bind_ok h
    simp only [pure, Except.pure, Except.ok.injEq] at h
    rw [← h]; exact hd

theorem C10_tours_step (nw : Network) (hdt : C17.DepotTimes nw) (hw : NodesWF' nw) (s : Schedule) (op : Spec.SOp)
    (r : OpResult) (hinv : TInv nw s) (h : applyOp nw s op = .ok r) : TInv nw r.sched := by
  obtain ⟨hi, hd, ho⟩ := hinv
  refine ⟨C10_listing_step nw s op r hi h, dk_step nw s op r hd h, ?_⟩
  unfold applyOp at h
  cases op with
  | init =>
    simp only [pure, Except.pure, Except.ok.injEq] at h
    rw [← h]; intro v t hv; simp [Schedule.empty, assocGet?_nil] at hv
  | spawn vt path =>
    obtain ⟨⟨s', v⟩, hs, h⟩ := bind_ok h
    simp only [pure, Except.pure, Except.ok.injEq] at h
    rw [← h]; exact spawn_toursOK ho hs
  | dummySpawn d vt =>
    obtain ⟨⟨s', v⟩, hs, h⟩ := bind_ok h
    simp only [pure, Except.pure, Except.ok.injEq] at h
    rw [← h]; exact dummySpawn_toursOK ho hs
  | delete v =>
    obtain ⟨s', hs, h⟩ := bind_ok h
    simp only [pure, Except.pure, Except.ok.injEq] at h
    rw [← h]; exact delete_toursOK ho hs
  | addPath v path =>
    dsimp only at h
    split at h
    · rename_i p hp
      obtain ⟨⟨s', rm⟩, hs, h⟩ := bind_ok h
      simp only [pure, Except.pure, Except.ok.injEq] at h
      rw [← h]; exact addPath_toursOK hdt hw ho (pathNew_ok hp) hs
    · cases h
  | rmSeg v a b =>
    obtain ⟨s', hs, h⟩ := bind_ok h
    simp only [pure, Except.pure, Except.ok.injEq] at h
    rw [← h]; exact rmSeg_toursOK hi ho hs
  | fit p r a b =>
    obtain ⟨s', hs, h⟩ := bind_ok h
    simp only [pure, Except.pure, Except.ok.injEq] at h
    rw [← h]; exact fit_toursOK hdt hw hi ho hs
  | override p r a b =>
    obtain ⟨⟨s', d⟩, hs, h⟩ := bind_ok h
    simp only [pure, Except.pure, Except.ok.injEq] at h
    rw [← h]; exact override_toursOK hdt hw hi ho hs
  | improve vs =>
    obtain ⟨s', hs, h⟩ := bind_ok h
    simp only [pure, Except.pure, Except.ok.injEq] at h
    rw [← h]; exact improve_toursOK hi ho hs
  | endGreedy =>
    obtain ⟨s', hs, h⟩ := bind_ok h
    simp only [pure, Except.pure, Except.ok.injEq] at h
    rw [← h]; exact endGreedy_toursOK hi ho hs
  | recompute vts =>
    obtain ⟨s', hs, h⟩ := bind_ok h
    simp only [pure, Except.pure, Except.ok.injEq] at h
    rw [← h]; exact recompute_toursOK ho hs
  | endConsistent =>
    obtain ⟨s', hs, h⟩ := bind_ok h
    simp only [pure, Except.pure, Except.ok.injEq] at h
    rw [← h]; exact endConsistent_toursOK hi ho hs
  | setTrans vt v ci =>
    obtain ⟨tr, _, h⟩ := bind_ok h
    obtain ⟨moved, _, h⟩ := bind_ok h
    simp only [pure, Except.pure, Except.ok.injEq] at h
    rw [← h]; exact ho

/-- **C10 / C01 (tour clause), every history**: in every schedule the model reaches from the empty
    schedule by public modifications, every real vehicle's tour is start depot, activities, end
    depot with all consecutive nodes connectable -/
theorem C10_tours_reachable (nw : Network) (hdt : C17.DepotTimes nw) (hw : NodesWF' nw) :
    ∀ (ops : List Spec.SOp) (s s' : Schedule),
    TInv nw s → runOps nw s ops = some s' → TInv nw s'
  | [], s, s', hinv, h => by simp only [runOps, Option.some.injEq] at h; rw [← h]; exact hinv
  | op :: rest, s, s', hinv, h => by
    unfold runOps at h
    split at h
    · rename_i r hr
      exact C10_tours_reachable nw hdt hw rest r.sched s' (C10_tours_step nw hdt hw s op r hinv hr) h
    · cases h

theorem C10_tours_from_empty (nw : Network) (hdt : C17.DepotTimes nw) (hw : NodesWF' nw) (ops : List Spec.SOp)
    (s' : Schedule) (h : runOps nw (Schedule.empty nw) ops = some s') :
    TInv nw s' :=
  C10_tours_reachable nw hdt hw ops _ s'
    ⟨empty_listInv nw, by intro d hd; simp [Schedule.empty, assocGet?_nil] at hd,
     by intro v t hv; simp [Schedule.empty, assocGet?_nil] at hv⟩ h


/-- **C09 (tour caches), every history**: in every schedule the model reaches from the empty
    schedule by public modifications, every real vehicle's tour is a valid tour whose five cached
    figures equal their recomputation from the node list (on networks with `netHypsB`) -/
theorem C09_tourcaches_from_empty (nw : Network) (hdt : C17.DepotTimes nw) (hw : NodesWF' nw)
    (h9 : Net9 nw) (ops : List Spec.SOp) (s' : Schedule) (h : runOps nw (Schedule.empty nw) ops = some s') :
    ∀ v t, assocGet? s'.tours v = some t → tourCachesExactB nw t = true := by
  intro v t hv
  have := (C10_tours_from_empty nw hdt hw ops s' h).tours v t hv
  exact (C09.exact_iff nw t).mpr (this.caches h9)

theorem net9_of_netHyps (nw : Network) (h : netHypsB nw = true) : Net9 nw := by
  have := C09.netHyps_sound nw h
  exact ⟨this.2, this.1⟩

end RSSched.C09T
