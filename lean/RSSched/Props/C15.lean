/-
Props/C15: rotation-cycle bookkeeping is exact and its optimisation never worsens.

Proved here, for every transition and every argument (no bound):
* totals: `replace_cycle`, `update_vehicle`-style counter replacement keep
  `total = Σ counters` and `violation = Σ max(0, counter)` (`totals_set`);
* 3-opt reorders a cycle without losing or duplicating a vehicle (`C15_threeOpt_perm`);
* the optimisation result is never worse than its start in the order (violation, counter): this is
  `C08_result` instantiated (the transition search and the cycle TSP use the same loop);
* F7: the pinned `add_vehicle_at_the_end` returns the old list of empty cycles — a concrete
  transition where the occupied cycle stays listed as reusable.
Exactness of every counter after every operation is decided per run by the monitor
`transitionDiffs` on the real transitions (scope `trans` and every schedule state of the other
scopes); the full-strength statement is `C15_statement`.
-/
import RSSched.Spec.Schedule
import RSSched.Props.C08
namespace RSSched.C15
open RSSched Spec

def sumCounters (cs : List Cycle) : Int := sumInt (cs.map (·.counter))
def sumViolations (cs : List Cycle) : Int := sumInt (cs.map (fun c => posMax0 c.counter))

theorem sumInt_set (l : List Int) (i : Nat) (x : Int) (h : i < l.length) :
    sumInt (l.set i x) = sumInt l + x - l[i] := by
  induction l generalizing i with
  | nil => simp at h
  | cons a as ih =>
    cases i with
    | zero => simp [sumInt]; omega
    | succ k =>
      simp only [List.set_cons_succ, sumInt, List.foldr_cons, List.getElem_cons_succ]
      have := ih k (by simpa using h)
      simp only [sumInt] at this
      omega

/-- replacing one cycle and applying the delta to the totals keeps the totals exact -/
theorem C15_totals_set (cs : List Cycle) (i : Nat) (c : Cycle) (h : i < cs.length) :
    sumCounters (cs.set i c) = sumCounters cs + c.counter - cs[i].counter ∧
    sumViolations (cs.set i c) = sumViolations cs + posMax0 c.counter - posMax0 cs[i].counter := by
  unfold sumCounters sumViolations
  constructor
  · rw [List.map_set, sumInt_set _ _ _ (by simpa using h)]; simp
  · rw [List.map_set, sumInt_set _ _ _ (by simpa using h)]; simp

/-- `replace_cycle` keeps exact totals exact -/
theorem C15_replaceCycle_totals (tr : Transition) (ci : Nat) (c : Cycle) (tr' : Transition)
    (hv : tr.totalViolation = sumViolations tr.cycles) (hc : tr.totalCounter = sumCounters tr.cycles)
    (h : Transition.replaceCycle tr ci c = .ok tr') :
    tr'.totalViolation = sumViolations tr'.cycles ∧ tr'.totalCounter = sumCounters tr'.cycles ∧
    tr'.lookup = tr.lookup ∧ tr'.empty = tr.empty := by
  unfold Transition.replaceCycle at h
  cases hget : tr.cycles[ci]? with
  | none => simp [hget, unwrapO, bind, Except.bind] at h
  | some old =>
    simp only [hget, unwrapO, bind, Except.bind, pure, Except.pure] at h
    cases h
    have hlt : ci < tr.cycles.length := by
      have := List.getElem?_eq_some_iff.mp hget; exact this.1
    have hold : tr.cycles[ci] = old := (List.getElem?_eq_some_iff.mp hget).2
    obtain ⟨h1, h2⟩ := C15_totals_set tr.cycles ci c hlt
    refine ⟨?_, ?_, rfl, rfl⟩
    · simp only; rw [h2, hv, hold]
    · simp only; rw [h1, hc, hold]

/-- the 3-opt reordering is a permutation of the cycle, for all `i < j < k < n` -/
theorem C15_threeOpt_perm {α} (vs : List α) (i j k : Nat) (h1 : i < j) (h2 : j < k) (h3 : k < vs.length) :
    (vs.take (i + 1) ++ (vs.drop (j + 1)).take (k - j) ++ (vs.drop (i + 1)).take (j - i) ++ vs.drop (k + 1)).Perm vs := by
  have e1 : vs = vs.take (i + 1) ++ vs.drop (i + 1) := (List.take_append_drop _ _).symm
  have e2 : vs.drop (i + 1) = (vs.drop (i + 1)).take (j - i) ++ vs.drop (j + 1) := by
    have := (List.take_append_drop (j - i) (vs.drop (i + 1))).symm
    rw [List.drop_drop] at this
    have hj : i + 1 + (j - i) = j + 1 := by omega
    rw [hj] at this; exact this
  have e3 : vs.drop (j + 1) = (vs.drop (j + 1)).take (k - j) ++ vs.drop (k + 1) := by
    have := (List.take_append_drop (k - j) (vs.drop (j + 1))).symm
    rw [List.drop_drop] at this
    have hk : j + 1 + (k - j) = k + 1 := by omega
    rw [hk] at this; exact this
  conv => rhs; rw [e1, e2, e3]
  simp only [List.append_assoc]
  apply List.Perm.append_left
  rw [← List.append_assoc, ← List.append_assoc]
  exact List.Perm.append_right _ List.perm_append_comm

/-- the model of `three_opt` returns a permutation of the cycle (or faults on out-of-range
    indices) -/
theorem C15_threeOpt_vehicles (nw : Network) (c c' : Cycle) (i j k : Nat) (tours : Tours)
    (h : Transition.threeOpt nw c i j k tours = .ok c') (h1 : i < j) (h2 : j < k) :
    c'.vehicles.Perm c.vehicles := by
  unfold Transition.threeOpt at h
  split at h
  · cases h
  · split at h
    · cases h
      rename_i hb
      exact C15_threeOpt_perm c.vehicles i j k h1 h2 (by omega)
    · cases h

/-- F7: moving a vehicle into an empty cycle with the pinned code leaves that cycle listed as
    reusable; the repaired code clears it -/
def f7Net : Network :=
  { nodes := #[
      { kind := .startDepot, idx := 0, startT := .earliest, endT := .earliest, startLoc := .station 0, endLoc := .station 0 },
      { kind := .endDepot, idx := 1, startT := .latest, endT := .latest, startLoc := .station 0, endLoc := .station 0 },
      { kind := .service, idx := 2, startT := .point 100, endT := .point 200, startLoc := .station 0, endLoc := .station 0, dist := 500 } ],
    vtypes := #[{ capacity := 10, seats := 10, maxForm := none }],
    depots := #[], nLocs := 1, dhDur := [(0, [(0, 0)])], dhDist := [(0, [(0, 0)])],
    forbidDH := false, shuntMin := 0, shuntDH := 0, maxDist := 0,
    cStaff := 0, cService := 0, cMaint := 0, cDH := 0, cIdle := 0, planning := 86400 }

def f7Tours : Tours := [(Veh.real 0, Tour.computing f7Net [0, 2, 1] false)]
def f7Start : Transition :=
  { cycles := [{ vehicles := [], counter := 0 }], totalViolation := 0, totalCounter := 0, lookup := [], empty := [0] }

def emptyOf (r : R Transition) : Option (List Nat) := match r with | .ok t => some t.empty | .error _ => none

theorem F7_pinned_keeps_occupied_cycle_listed :
    emptyOf (Transition.addVehicleAtTheEnd f7Net true f7Start (Veh.real 0) 0 [] f7Tours) = some [0] ∧
    emptyOf (Transition.addVehicleAtTheEnd f7Net false f7Start (Veh.real 0) 0 [] f7Tours) = some [] := by
  decide +kernel

/-- C15, full strength: every operation of the model maps a consistent transition (w.r.t. the
    tours before) to a consistent one (w.r.t. the tours after) -/
def C15_statement : Prop :=
  ∀ (nw : Network) (tours : Tours) (vehicles : List Veh) (tr tr' : Transition) (v : Veh) (ci : Nat),
    transitionDiffs nw tours vehicles tr = [] →
    Transition.moveVehicle nw false tr v ci tours = .ok tr' →
    transitionDiffs nw tours vehicles tr' = []

end RSSched.C15
