/-
Props/C02Limits: formation and track limits hold in every schedule the model can reach (C02 / the
limits clause of C10, full strength for the model): all writes to the train formations go through
`update_train_formation`, which adds a vehicle to a node only through the limit check of
`vehicle_replacement_in_train_formation` (replace keeps the length, remove shortens) — so if every
formation respects `min(type limit, segment limit)` / the track count before a public modification,
it does afterwards, for every modification and all arguments.
-/
import RSSched.Model.Ops
import RSSched.Props.C15Ops
import RSSched.Props.C05Reassign
namespace RSSched.C02
open RSSched Schedule C15

/-- a formation respects the limit of its node -/
def Within (nw : Network) (node : Nat) (f : List Veh) : Prop :=
  ((nw.node node).isMaint = true → f.length ≤ (nw.node node).tracks) ∧
  ((nw.node node).isService = true → ∀ l, nw.maxFormationFor node = some l → f.length ≤ l)

def FormLimits (nw : Network) (forms : List (Nat × List Veh)) : Prop :=
  ∀ n f, assocGet? forms n = some f → Within nw n f

theorem replace_length {f f' : List Veh} {old new : Veh} (h : Formation.replace f old new = .ok f') :
    f'.length = f.length := by
  unfold Formation.replace at h
  split at h
  · cases h
  · simp only [Except.ok.injEq] at h; subst h; simp

theorem remove_length {f f' : List Veh} {v : Veh} (h : Formation.remove f v = .ok f') : f'.length ≤ f.length := by
  unfold Formation.remove at h
  split at h
  · cases h
  · simp only [Except.ok.injEq] at h; subst h; rw [List.length_eraseIdx]; split <;> omega

theorem within_of_le {nw : Network} {node : Nat} {f f' : List Veh} (h : Within nw node f) (hl : f'.length ≤ f.length) :
    Within nw node f' :=
  ⟨fun hm => Nat.le_trans hl (h.1 hm), fun hs l hlim => Nat.le_trans hl (h.2 hs l hlim)⟩

theorem addChecked_within {nw : Network} {node : Nat} {old f' : List Veh} {r : Veh}
    (h : vehicleReplacement.addChecked nw node old r = .ok f') : Within nw node f' := by
  unfold vehicleReplacement.addChecked at h
  by_cases h1 : ((nw.node node).isMaint && decide (old.length ≥ (nw.node node).tracks)) = true
  · rw [if_pos h1] at h; cases h
  · rw [if_neg h1] at h
    cases hmf : nw.maxFormationFor node with
    | none =>
      simp only [hmf, Bool.and_false, Bool.false_eq_true, ↓reduceIte, pure, Except.pure, Except.ok.injEq] at h
      subst h
      unfold Within
      simp only [Formation.addAtTail, List.length_append, List.length_cons, List.length_nil]
      constructor
      · intro hm
        simp only [hm, Bool.true_and, decide_eq_true_eq, ge_iff_le, Nat.not_le] at h1
        omega
      · intro hs l hl; rw [hmf] at hl; cases hl
    | some lim =>
      simp only [hmf] at h
      split at h
      · cases h
      · rename_i h2
        simp only [pure, Except.pure, Except.ok.injEq] at h
        subst h
        unfold Within
        simp only [Formation.addAtTail, List.length_append, List.length_cons, List.length_nil]
        constructor
        · intro hm
          simp only [hm, Bool.true_and, decide_eq_true_eq, ge_iff_le, Nat.not_le] at h1
          omega
        · intro hs l hl
          rw [hmf] at hl; cases hl
          simp only [hs, Bool.true_and, decide_eq_true_eq, ge_iff_le, Nat.not_le] at h2
          omega

theorem removeOnly_within {nw : Network} {s : Schedule} {node : Nat} {old f' : List Veh} {provider : Option Veh}
    (hw : Within nw node old) (h : vehicleReplacement.removeOnly s provider old = .ok f') : Within nw node f' := by
  unfold vehicleReplacement.removeOnly at h
  split at h
  · split at h
    · exact within_of_le hw (remove_length h)
    · simp only [pure, Except.pure, Except.ok.injEq] at h; subst h; exact hw
  · simp only [pure, Except.pure, Except.ok.injEq] at h; subst h; exact hw

/-- the only place a vehicle enters a formation checks the limit -/
theorem vehicleReplacement_within {nw : Network} {s : Schedule} {forms : List (Nat × List Veh)}
    {provider receiver : Option Veh} {node : Nat} {f' : List Veh} (hl : FormLimits nw forms)
    (h : vehicleReplacement nw s forms provider receiver node = .ok f') : Within nw node f' := by
  unfold vehicleReplacement at h
  obtain ⟨old, hold, h⟩ := bind_ok h
  have hw := hl node old (unwrapO_ok hold)
  split at h
  · split at h
    · split at h
      · split at h
        · exact within_of_le hw (Nat.le_of_eq (replace_length h))
        · exact addChecked_within h
      · exact addChecked_within h
    · exact removeOnly_within hw h
  · exact removeOnly_within hw h

theorem formLimits_set {nw : Network} {forms : List (Nat × List Veh)} {node : Nat} {f' : List Veh}
    (hl : FormLimits nw forms) (hw : Within nw node f') : FormLimits nw (assocSet forms node f') := by
  intro n f hget
  rw [assocGet?_assocSet] at hget
  by_cases e : n = node
  · subst e; simp only [↓reduceIte, Option.some.injEq] at hget; subst hget; exact hw
  · simp only [e, ↓reduceIte] at hget; exact hl n f hget

/-- `update_train_formation` keeps all formations within their limits -/
theorem updateTrainFormation_limits (nw : Network) (s : Schedule) (typeOf : Veh → Option Nat)
    (provider receiver : Option Veh) : ∀ (nodes : List Nat) (forms forms' : List (Nat × List Veh)) (u u' : Nat × Nat),
    FormLimits nw forms → updateTrainFormation nw s typeOf forms u provider receiver nodes = .ok (forms', u') →
    FormLimits nw forms'
  | [], forms, forms', u, u', hl, h => by
    simp only [updateTrainFormation, pure, Except.pure, Except.ok.injEq, Prod.mk.injEq] at h
    rw [← h.1]; exact hl
  | node :: rest, forms, forms', u, u', hl, h => by
    unfold updateTrainFormation at h
    split at h
    · exact updateTrainFormation_limits nw s typeOf provider receiver rest forms forms' u u' hl h
    · dsimp only at h
      split at h
      · obtain ⟨old, _, h⟩ := bind_ok h
        obtain ⟨a, _, h⟩ := bind_ok h
        obtain ⟨c, _, h⟩ := bind_ok h
        obtain ⟨u1, _, h⟩ := bind_ok h
        obtain ⟨f', hf', h⟩ := bind_ok h
        exact updateTrainFormation_limits nw s typeOf provider receiver rest _ forms' _ u'
          (formLimits_set hl (vehicleReplacement_within hl hf')) h
      · obtain ⟨u1, _, h⟩ := bind_ok h
        obtain ⟨f', hf', h⟩ := bind_ok h
        exact updateTrainFormation_limits nw s typeOf provider receiver rest _ forms' _ u'
          (formLimits_set hl (vehicleReplacement_within hl hf')) h

theorem empty_limits (nw : Network) : FormLimits nw (Schedule.empty nw).formations := by
  intro n f hget
  have hm := assocGet?_mem hget
  simp only [Schedule.empty, List.mem_map, Prod.mk.injEq] at hm
  obtain ⟨_, _, _, rfl⟩ := hm
  exact ⟨fun _ => Nat.zero_le _, fun _ _ _ => Nat.zero_le _⟩

theorem spawn_limits {nw : Network} {s s' : Schedule} {vt : Nat} {path : List Nat} {v : Veh}
    (hl : FormLimits nw s.formations) (h : spawnVehicleForPath nw s vt path = .ok (s', v)) :
    FormLimits nw s'.formations := by
  unfold spawnVehicleForPath at h
  split at h
  · cases h
  · obtain ⟨nodes, _, h⟩ := bind_ok h
    dsimp only at h
    obtain ⟨tour, _, h⟩ := bind_ok h
    obtain ⟨ids, _, h⟩ := bind_ok h
    obtain ⟨⟨forms, unserved⟩, hutf, h⟩ := bind_ok h
    dsimp only at h
    obtain ⟨usage, _, h⟩ := bind_ok h
    obtain ⟨⟨trans, viol⟩, _, h⟩ := bind_ok h
    simp only [pure, Except.pure, Except.ok.injEq, Prod.mk.injEq] at h
    rw [← h.1]
    exact updateTrainFormation_limits nw s _ _ _ _ _ _ _ _ hl hutf

/-- invert a successful run of a `do`-block: binds, join points, pattern matches -/
syntax "inv_do " ident : tactic
macro_rules
  | `(tactic| inv_do $h:ident) => `(tactic|
    repeat' (first
      | (obtain ⟨_, _, $h:ident⟩ := bind_ok $h)
      | (split at $h:ident)
      | (dsimp only at $h:ident)))

syntax "close_limits " ident ident : tactic
macro_rules
  | `(tactic| close_limits $h:ident $hl:ident) => `(tactic|
    (all_goals (try contradiction)
     all_goals (try (cases $h:ident))
     all_goals (try (simp only [pure, Except.pure, Except.ok.injEq] at *))
     all_goals (try subst_vars)
     all_goals (first
       | exact $hl
       | exact updateTrainFormation_limits _ _ _ _ _ _ _ _ _ _ $hl (by assumption)
       | exact updateTrainFormation_limits _ _ _ _ _ _ _ _ _ _
           (updateTrainFormation_limits _ _ _ _ _ _ _ _ _ _ $hl (by assumption)) (by assumption)
       | skip)))

theorem delete_limits {nw : Network} {s s' : Schedule} {v : Veh}
    (hl : FormLimits nw s.formations) (h : replaceVehicleByDummy nw s v = .ok s') :
    FormLimits nw s'.formations := by
  unfold replaceVehicleByDummy at h
  inv_do h
  close_limits h hl

theorem deleteDummy_forms {s s1 : Schedule} {d : Veh} (h : deleteDummy s d = .ok s1) : s1.formations = s.formations := by
  unfold deleteDummy at h
  inv_do h
  all_goals (try (cases h))
  all_goals rfl

theorem dummySpawn_limits {nw : Network} {s s' : Schedule} {d : Veh} {vt : Nat} {v : Veh}
    (hl : FormLimits nw s.formations) (h : spawnToReplaceDummy nw s d vt = .ok (s', v)) :
    FormLimits nw s'.formations := by
  unfold spawnToReplaceDummy at h
  inv_do h
  all_goals (try (cases h))
  all_goals (first
    | exact spawn_limits (by rw [deleteDummy_forms (by assumption)]; exact hl) (by assumption)
    | skip)

theorem addPath_limits {nw : Network} {s s' : Schedule} {v : Veh} {path : List Nat} {rm : Option (List Nat)}
    (hl : FormLimits nw s.formations) (h : addPathToVehicleTour nw s v path = .ok (s', rm)) :
    FormLimits nw s'.formations := by
  unfold addPathToVehicleTour at h
  inv_do h
  close_limits h hl

theorem rmSeg_limits {nw : Network} {s s' : Schedule} {v : Veh} {a b : Nat}
    (hl : FormLimits nw s.formations) (h : removeSegment nw s v a b = .ok s') :
    FormLimits nw s'.formations := by
  unfold removeSegment at h
  inv_do h
  all_goals (try (cases h))
  all_goals (first
    | exact delete_limits hl (by assumption)
    | exact updateTrainFormation_limits _ _ _ _ _ _ _ _ _ _ hl (by assumption)
    | skip)

theorem updateTourAndCosts_any {s : Schedule} {tours dummyTours : Tours} {costs : Nat} {v : Veh} {t : Tour}
    {r : Tours × Tours × Nat} (_h : updateTourAndCosts s tours dummyTours costs v t = .ok r) : True := trivial

/-- `update_tours`: the formations of the work record come from one `update_train_formation` -/
theorem updateTours_limits {nw : Network} {s : Schedule} {w w' : Work} {provider : Option Veh} {newProv : Option Tour}
    {receiver : Veh} {newRecv : Tour} {moved : List Nat}
    (hl : FormLimits nw w.forms) (h : updateTours nw s w provider newProv receiver newRecv moved = .ok w') :
    FormLimits nw w'.forms := by
  unfold updateTours at h
  inv_do h
  close_limits h hl

theorem fit_limits {nw : Network} {s s' : Schedule} {p r : Veh} {a b : Nat}
    (hl : FormLimits nw s.formations) (h : fitReassign nw s p r a b = .ok s') :
    FormLimits nw s'.formations := by
  unfold fitReassign at h
  inv_do h
  all_goals (try contradiction)
  all_goals (try (cases h))
  all_goals (first
    | exact updateTours_limits (w := Work.ofSchedule s) hl (by assumption)
    | skip)

theorem override_limits {nw : Network} {s s' : Schedule} {p r : Veh} {a b : Nat} {d : Option Veh}
    (hl : FormLimits nw s.formations) (h : overrideReassign nw s p r a b = .ok (s', d)) :
    FormLimits nw s'.formations := by
  unfold overrideReassign at h
  inv_do h
  all_goals (try contradiction)
  all_goals (try (cases h))
  all_goals (try (simp only [pure, Except.pure, Except.ok.injEq] at *))
  all_goals (try subst_vars)
  all_goals (try dsimp only)
  all_goals (first
    | exact updateTours_limits (w := Work.ofSchedule s) hl (by assumption)
    | exact updateTrainFormation_limits _ _ _ _ _ _ _ _ _ _
        (updateTours_limits (w := Work.ofSchedule s) hl (by assumption)) (by assumption)
    | skip)

theorem improve_forms {nw : Network} {s s' : Schedule} {vs : Option (List Veh)}
    (h : improveDepots nw s vs = .ok s') : s'.formations = s.formations := by
  unfold improveDepots at h
  dsimp only at h
  obtain ⟨_, _, h⟩ := bind_ok h
  obtain ⟨_, _, h⟩ := bind_ok h
  inv_do h
  all_goals (try contradiction)
  all_goals (try (cases h))
  all_goals rfl

theorem endGreedy_forms {nw : Network} {s s' : Schedule}
    (h : reassignEndDepotsGreedily nw s = .ok s') : s'.formations = s.formations := by
  unfold reassignEndDepotsGreedily at h
  obtain ⟨_, _, h⟩ := bind_ok h
  inv_do h
  all_goals (try contradiction)
  all_goals (try (cases h))
  all_goals rfl

theorem recompute_forms {nw : Network} {s s' : Schedule} {vts : Option (List Nat)}
    (h : recomputeTransitionsFor nw s vts = .ok s') : s'.formations = s.formations := by
  unfold recomputeTransitionsFor at h
  inv_do h
  all_goals (try contradiction)
  all_goals (try (cases h))
  all_goals rfl

/-- **C02 / C10 (limits clause), one step**: every public modification of the model keeps all
    train formations within `min(type limit, segment limit)` and all slots within their tracks -/
theorem C02_limits_step (nw : Network) (s : Schedule) (op : Spec.SOp) (r : OpResult)
    (hl : FormLimits nw s.formations) (h : applyOp nw s op = .ok r) : FormLimits nw r.sched.formations := by
  unfold applyOp at h
  cases op with
  | init =>
    simp only [pure, Except.pure, Except.ok.injEq] at h
    rw [← h]; exact empty_limits nw
  | spawn vt path =>
    obtain ⟨⟨s', v⟩, hs, h⟩ := bind_ok h
    simp only [pure, Except.pure, Except.ok.injEq] at h
    rw [← h]; exact spawn_limits hl hs
  | dummySpawn d vt =>
    obtain ⟨⟨s', v⟩, hs, h⟩ := bind_ok h
    simp only [pure, Except.pure, Except.ok.injEq] at h
    rw [← h]; exact dummySpawn_limits hl hs
  | delete v =>
    obtain ⟨s', hs, h⟩ := bind_ok h
    simp only [pure, Except.pure, Except.ok.injEq] at h
    rw [← h]; exact delete_limits hl hs
  | addPath v path =>
    dsimp only at h
    split at h
    · obtain ⟨⟨s', rm⟩, hs, h⟩ := bind_ok h
      simp only [pure, Except.pure, Except.ok.injEq] at h
      rw [← h]; exact addPath_limits hl hs
    · cases h
  | rmSeg v a b =>
    obtain ⟨s', hs, h⟩ := bind_ok h
    simp only [pure, Except.pure, Except.ok.injEq] at h
    rw [← h]; exact rmSeg_limits hl hs
  | fit p r a b =>
    obtain ⟨s', hs, h⟩ := bind_ok h
    simp only [pure, Except.pure, Except.ok.injEq] at h
    rw [← h]; exact fit_limits hl hs
  | override p r a b =>
    obtain ⟨⟨s', d⟩, hs, h⟩ := bind_ok h
    simp only [pure, Except.pure, Except.ok.injEq] at h
    rw [← h]; exact override_limits hl hs
  | improve vs =>
    obtain ⟨s', hs, h⟩ := bind_ok h
    simp only [pure, Except.pure, Except.ok.injEq] at h
    rw [← h]; show FormLimits nw s'.formations; rw [improve_forms hs]; exact hl
  | endGreedy =>
    obtain ⟨s', hs, h⟩ := bind_ok h
    simp only [pure, Except.pure, Except.ok.injEq] at h
    rw [← h]; show FormLimits nw s'.formations; rw [endGreedy_forms hs]; exact hl
  | recompute vts =>
    obtain ⟨s', hs, h⟩ := bind_ok h
    simp only [pure, Except.pure, Except.ok.injEq] at h
    rw [← h]; show FormLimits nw s'.formations; rw [recompute_forms hs]; exact hl
  | endConsistent =>
    obtain ⟨s', hs, h⟩ := bind_ok h
    simp only [pure, Except.pure, Except.ok.injEq] at h
    rw [← h]; show FormLimits nw s'.formations
    rw [(C05.C05_reassign nw s s' hs).2.2.2.1]; exact hl
  | setTrans vt v ci =>
    obtain ⟨tr, _, h⟩ := bind_ok h
    obtain ⟨moved, _, h⟩ := bind_ok h
    simp only [pure, Except.pure, Except.ok.injEq] at h
    rw [← h]; exact hl

/-- run a list of public modifications, stopping at the first refused / faulting one -/
def runOps (nw : Network) : Schedule → List Spec.SOp → Option Schedule
  | s, [] => some s
  | s, op :: rest =>
    match applyOp nw s op with
    | .ok r => runOps nw r.sched rest
    | .error _ => none

/-- **C02 / C10 (limits clause), every history**: in every schedule reachable from the empty
    schedule by any finite sequence of public modifications with any arguments, every departure
    segment is served by at most `min(type limit, segment limit)` vehicles and every maintenance
    slot by at most as many vehicles as it has tracks -/
theorem C02_limits_reachable (nw : Network) : ∀ (ops : List Spec.SOp) (s s' : Schedule),
    FormLimits nw s.formations → runOps nw s ops = some s' → FormLimits nw s'.formations
  | [], s, s', hl, h => by simp only [runOps, Option.some.injEq] at h; rw [← h]; exact hl
  | op :: rest, s, s', hl, h => by
    unfold runOps at h
    split at h
    · rename_i r hr
      exact C02_limits_reachable nw rest r.sched s' (C02_limits_step nw s op r hl hr) h
    · cases h

theorem C02_limits_from_empty (nw : Network) (ops : List Spec.SOp) (s' : Schedule)
    (h : runOps nw (Schedule.empty nw) ops = some s') : FormLimits nw s'.formations :=
  C02_limits_reachable nw ops _ s' (empty_limits nw) h

end RSSched.C02
