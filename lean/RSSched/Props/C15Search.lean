/-
Props/C15Search: the rotation-cycle optimisation only ever evaluates transitions whose bookkeeping
is exact. Every 3-opt candidate of the cycle TSP is a reordering of the cycle with an exact counter
(so the TSP result is, for any fuel, a permutation with exact counter and a counter not larger than
the start), and every neighbour of the transition local search (exchange / move between two
cycles, then re-optimisation of both) is `Consistent` with the same vehicles and the same number
of cycles.
-/
import RSSched.Props.C15Ops
import RSSched.Model.TransitionSearch
namespace RSSched.C15
open RSSched Spec Cyclic

theorem mapMR_mem {α β} (f : α → R β) : ∀ (l : List α) (r : List β), Tour.mapMR f l = .ok r →
    ∀ y ∈ r, ∃ x ∈ l, f x = .ok y
  | [], r, h, y, hy => by simp [Tour.mapMR, pure, Except.pure] at h; subst h; cases hy
  | a :: as, r, h, y, hy => by
    unfold Tour.mapMR at h
    obtain ⟨b, hb, h⟩ := bind_ok h
    obtain ⟨bs, hbs, h⟩ := bind_ok h
    simp only [pure, Except.pure, Except.ok.injEq] at h
    subst h
    cases hy with
    | head => exact ⟨a, by simp, hb⟩
    | tail _ hm =>
      obtain ⟨x, hx, hfx⟩ := mapMR_mem f as bs hbs y hm
      exact ⟨x, by simp [hx], hfx⟩

theorem foldl_pick_mem {α} (p : α → α → Bool) : ∀ (xs : List α) (x : α),
    xs.foldl (fun b y => if p y b then y else b) x ∈ x :: xs
  | [], x => by simp
  | y :: ys, x => by
    simp only [List.foldl_cons]
    have := foldl_pick_mem p ys (if p y x then y else x)
    by_cases h : p y x = true
    · simp only [h, ↓reduceIte] at this ⊢
      exact List.mem_cons_of_mem _ this
    · simp only [h, Bool.false_eq_true, ↓reduceIte] at this ⊢
      rcases List.mem_cons.mp this with e | hm
      · rw [e]; simp
      · exact List.mem_cons_of_mem _ (List.mem_cons_of_mem _ hm)

theorem threeOptTriples_lt (n i j k : Nat) (h : (i, j, k) ∈ threeOptTriples n) : i < j ∧ j < k ∧ k < n := by
  unfold threeOptTriples at h
  split at h
  · cases h
  · simp only [List.mem_flatMap, List.mem_range, List.mem_filter, decide_eq_true_eq, List.mem_map,
      Prod.mk.injEq] at h
    obtain ⟨i', _, j', ⟨_, hij⟩, k', ⟨hk, hjk⟩, rfl, rfl, rfl⟩ := h
    omega

/-- a cycle whose cached counter equals the recomputation -/
def CycleOK (nw : Network) (T : TourMap) (c : Cycle) : Prop := c.counter = counterSpec nw T c.vehicles

/-- one accepted step of the cycle TSP -/
theorem tspImprove_ok (nw : Network) (tours : Tours) (c c' : Cycle) (hc : CycleOK nw (overlay [] tours) c)
    (h : TransSearch.tspImprove nw tours c = .ok (some c')) :
    c'.vehicles.Perm c.vehicles ∧ CycleOK nw (overlay [] tours) c' ∧ c'.counter < c.counter := by
  unfold TransSearch.tspImprove at h
  obtain ⟨cands, hcands, h⟩ := bind_ok h
  cases cands with
  | nil => simp [pure, Except.pure] at h
  | cons x xs =>
    simp only [pure, Except.pure, Except.ok.injEq] at h
    split at h
    · rename_i hlt
      simp only [Option.some.injEq] at h
      have hmem := foldl_pick_mem (fun y b => decide (y.counter < b.counter)) xs x
      simp only [decide_eq_true_eq] at hmem
      rw [h] at hmem hlt
      obtain ⟨⟨i, j, k⟩, htri, hres⟩ := mapMR_mem _ _ _ hcands c' hmem
      obtain ⟨h1, h2, h3⟩ := threeOptTriples_lt _ i j k htri
      obtain ⟨hv, hcnt⟩ := threeOpt_exact nw c c' i j k tours hc h1 h2 hres
      refine ⟨?_, hcnt, hlt⟩
      rw [hv]; exact C15_threeOpt_perm c.vehicles i j k h1 h2 h3
    · cases h

/-- the cycle TSP, for any fuel: a reordering with exact counter, never worse -/
theorem tspSolve_ok (nw : Network) (tours : Tours) : ∀ (fuel : Nat) (c c' : Cycle),
    CycleOK nw (overlay [] tours) c → TransSearch.tspSolve nw tours fuel c = .ok c' →
    c'.vehicles.Perm c.vehicles ∧ CycleOK nw (overlay [] tours) c' ∧ c'.counter ≤ c.counter
  | 0, c, c', hc, h => by
    simp only [TransSearch.tspSolve, pure, Except.pure, Except.ok.injEq] at h
    subst h; exact ⟨List.Perm.refl _, hc, Int.le_refl _⟩
  | fuel + 1, c, c', hc, h => by
    unfold TransSearch.tspSolve at h
    obtain ⟨o, ho, h⟩ := bind_ok h
    cases o with
    | none =>
      simp only [pure, Except.pure, Except.ok.injEq] at h
      subst h; exact ⟨List.Perm.refl _, hc, Int.le_refl _⟩
    | some c1 =>
      obtain ⟨p1, ok1, lt1⟩ := tspImprove_ok nw tours c c1 hc ho
      obtain ⟨p2, ok2, le2⟩ := tspSolve_ok nw tours fuel c1 c' ok1 h
      exact ⟨p2.trans p1, ok2, by omega⟩

/-- re-optimising two cycles of a consistent transition -/
theorem reoptimise_consistent (nw : Network) (tours : Tours) (tr tr' : Transition) (i j : Nat)
    (hc : Consistent nw (overlay [] tours) tr) (h : TransSearch.reoptimise nw tours tr i j = .ok tr') :
    Consistent nw (overlay [] tours) tr' ∧ (∀ w, w ∈ members tr' ↔ w ∈ members tr) ∧
    tr'.cycles.length = tr.cycles.length := by
  unfold TransSearch.reoptimise at h
  obtain ⟨ci, hci, h⟩ := bind_ok h
  obtain ⟨ci', hci', h⟩ := bind_ok h
  obtain ⟨t1, ht1, h⟩ := bind_ok h
  obtain ⟨cj, hcj, h⟩ := bind_ok h
  obtain ⟨cj', hcj', h⟩ := bind_ok h
  have hci := unwrapO_ok hci
  have hcj := unwrapO_ok hcj
  obtain ⟨p1, ok1, _⟩ := tspSolve_ok nw tours 200 ci ci' (hc.counter i ci hci) hci'
  obtain ⟨hc1, hm1, hl1⟩ := replace_consistent nw _ tr t1 i ci ci' hc hci p1 ok1 ht1
  obtain ⟨p2, ok2, _⟩ := tspSolve_ok nw tours 200 cj cj' (hc1.counter j cj hcj) hcj'
  obtain ⟨hc2, hm2, hl2⟩ := replace_consistent nw _ t1 tr' j cj cj' hc1 hcj p2 ok2 h
  exact ⟨hc2, fun w => (hm2 w).trans (hm1 w), by omega⟩

/-- every neighbour of the transition local search has exact bookkeeping, the same vehicles and
    the same number of cycles -/
theorem neighbors_consistent (nw : Network) (tours : Tours) (tr : Transition) (l : List Transition)
    (hc : Consistent nw (overlay [] tours) tr) (h : TransSearch.neighbors nw tours tr = .ok l) :
    ∀ t ∈ l, Consistent nw (overlay [] tours) t ∧ (∀ w, w ∈ members t ↔ w ∈ members tr) ∧
      t.cycles.length = tr.cycles.length := by
  unfold TransSearch.neighbors at h
  dsimp only at h
  obtain ⟨cands, hcands, h⟩ := bind_ok h
  simp only [pure, Except.pure, Except.ok.injEq] at h
  subst h
  intro t ht
  obtain ⟨inner, hinner, htin⟩ := List.mem_flatten.mp ht
  obtain ⟨⟨i, j⟩, _, hij⟩ := mapMR_mem _ _ _ hcands inner hinner
  dsimp only at hij
  obtain ⟨⟨a, b⟩, _, hab⟩ := mapMR_mem _ _ _ hij t htin
  have key : ∃ moved, (Consistent nw (overlay [] tours) moved ∧ (∀ w, w ∈ members moved ↔ w ∈ members tr) ∧
      moved.cycles.length = tr.cycles.length) ∧ TransSearch.reoptimise nw tours moved i j = .ok t := by
    cases a with
    | none =>
      cases b with
      | none =>
        obtain ⟨moved, hmoved, hre⟩ := bind_ok hab
        simp only [pure, Except.pure, Except.ok.injEq] at hmoved
        subst hmoved; exact ⟨_, ⟨hc, fun _ => Iff.rfl, rfl⟩, hre⟩
      | some b =>
        obtain ⟨moved, hmoved, hre⟩ := bind_ok hab
        exact ⟨_, move_consistent nw tr moved b i tours hc hmoved, hre⟩
    | some a =>
      cases b with
      | none =>
        obtain ⟨moved, hmoved, hre⟩ := bind_ok hab
        exact ⟨_, move_consistent nw tr moved a j tours hc hmoved, hre⟩
      | some b =>
        obtain ⟨t1, ht1, hab⟩ := bind_ok hab
        obtain ⟨moved, hmoved, hre⟩ := bind_ok hab
        obtain ⟨c1, m1, l1⟩ := move_consistent nw tr t1 a j tours hc ht1
        obtain ⟨c2, m2, l2⟩ := move_consistent nw t1 moved b i tours c1 hmoved
        exact ⟨_, ⟨c2, fun w => (m2 w).trans (m1 w), by omega⟩, hre⟩
  obtain ⟨moved, hmv, hre⟩ := key
  obtain ⟨c3, m3, l3⟩ := reoptimise_consistent nw tours moved t i j hmv.1 hre
  exact ⟨c3, fun w => (m3 w).trans (hmv.2.1 w), by omega⟩

end RSSched.C15
