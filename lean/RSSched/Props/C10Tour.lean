/-
Props/C10Tour: the tour clause of C10 for the model — validity of real tours is preserved by the
tour modifications. `TourOK`: a real tour is `start depot :: activities ++ [end depot]` with at least
one activity, no depot among the activities, and every consecutive pair connectable. Inserting a
valid path (connectable, with an activity), removing a segment (when a tour remains) and replacing a
depot by a depot of the same kind all return a `TourOK` tour.
-/
import RSSched.Props.C01Chain
import RSSched.Props.C12Remove
import RSSched.Props.C05Reassign
namespace RSSched.C10T
open RSSched Network Tour Spec C01

/-- `start depot :: activities ++ [end depot]` -/
def Shape (nw : Network) (l : List Nat) : Prop :=
  ∃ sd mid ed, l = sd :: (mid ++ [ed]) ∧ (nw.node sd).isStartDepot = true ∧ (nw.node ed).isEndDepot = true ∧
    mid ≠ [] ∧ ∀ x ∈ mid, (nw.node x).isDepot = false

structure TourOK (nw : Network) (t : Tour) : Prop where
  real : t.isDummy = false
  shape : Shape nw t.nodes
  chain : chainB nw t.nodes = true

/-- a path as `Path::new` accepts it: connectable and with at least one activity -/
structure PathOK (nw : Network) (p : List Nat) : Prop where
  chain : chainB nw p = true
  act : hasNonDepot nw p = true

theorem reach_facts {nw : Network} {a b : Nat} (h : nw.canReach a b = true) :
    (nw.node b).isStartDepot = false ∧ (nw.node a).isEndDepot = false := by
  unfold canReach canReachNodes at h
  split at h
  · cases h
  · rename_i hc
    simp only [Bool.or_eq_true, not_or, Bool.not_eq_true] at hc
    exact hc

theorem start_reaches {nw : Network} {a b : Nat} (ha : (nw.node a).isStartDepot = true)
    (hb : (nw.node b).isStartDepot = false) : nw.canReach a b = true := by
  unfold canReach canReachNodes
  have hae : (nw.node a).isEndDepot = false := by
    simp only [Node.isStartDepot, beq_iff_eq] at ha
    simp [Node.isEndDepot, ha]
  simp [ha, hb, hae]

theorem reaches_end {nw : Network} {a b : Nat} (hb : (nw.node b).isEndDepot = true)
    (ha : (nw.node a).isEndDepot = false) : nw.canReach a b = true := by
  unfold canReach canReachNodes
  have hbs : (nw.node b).isStartDepot = false := by
    simp only [Node.isEndDepot, beq_iff_eq] at hb
    simp [Node.isStartDepot, hb]
  simp [ha, hb, hbs]

theorem end_reaches_nothing {nw : Network} {a b : Nat} (ha : (nw.node a).isEndDepot = true) :
    nw.canReach a b = false := by
  unfold canReach canReachNodes; simp [ha]

theorem nothing_reaches_start {nw : Network} {a b : Nat} (hb : (nw.node b).isStartDepot = true) :
    nw.canReach a b = false := by
  unfold canReach canReachNodes; simp [hb]

theorem depot_cases {nw : Network} {x : Nat} (h : (nw.node x).isDepot = true) :
    (nw.node x).isStartDepot = true ∨ (nw.node x).isEndDepot = true := by
  simpa [Node.isDepot] using h

theorem not_depot {nw : Network} {x : Nat} (h : (nw.node x).isDepot = false) :
    (nw.node x).isStartDepot = false ∧ (nw.node x).isEndDepot = false := by
  simpa [Node.isDepot] using h

theorem chainB_cons2 (nw : Network) (x y : Nat) (r : List Nat) :
    chainB nw (x :: y :: r) = (nw.canReach x y && chainB nw (y :: r)) := by
  simp [chainB, pairs]

/-- in a connectable list only the first node can be a start depot and only the last an end depot -/
theorem chain_depots (nw : Network) : ∀ (p : List Nat), chainB nw p = true →
    (∀ x ∈ p.tail, (nw.node x).isStartDepot = false) ∧ (∀ x ∈ p.dropLast, (nw.node x).isEndDepot = false)
  | [], _ => by simp
  | [_], _ => by simp
  | x :: y :: r, h => by
    rw [chainB_cons2] at h
    simp only [Bool.and_eq_true] at h
    obtain ⟨ih1, ih2⟩ := chain_depots nw (y :: r) h.2
    obtain ⟨f1, f2⟩ := reach_facts h.1
    constructor
    · intro z hz
      simp only [List.tail_cons, List.mem_cons] at hz
      rcases hz with hz | hz
      · subst hz; exact f1
      · exact ih1 z (by simpa using hz)
    · intro z hz
      simp only [List.dropLast_cons₂, List.mem_cons] at hz
      rcases hz with hz | hz
      · subst hz; exact f2
      · exact ih2 z hz

theorem lastTrueLen_pos (p : Nat → Bool) (n : Nat) (hn : 0 < n) (h0 : p 0 = true) : 0 < lastTrueLen p n := by
  by_cases h : 0 < lastTrueLen p n
  · exact h
  · have := lastTrueLen_false_after p n 0 (by omega) hn
    rw [h0] at this; cases this

theorem lastTrueLen_lt (p : Nat → Bool) (n : Nat) (hn : 0 < n) (hl : p (n - 1) = false) : lastTrueLen p n < n := by
  have hle := lastTrueLen_le p n
  by_cases h : lastTrueLen p n = n
  · have := lastTrueLen_true p n (by omega)
    rw [h, hl] at this; cases this
  · omega

theorem firstTrueFrom_pos (p : Nat → Bool) (n : Nat) (hn : 0 < n) (h0 : p 0 = false) : 0 < firstTrueFrom p n 0 := by
  by_cases h : 0 < firstTrueFrom p n 0
  · exact h
  · have h' : firstTrueFrom p n 0 = 0 := by omega
    have := firstTrueFrom_true p n 0 (by omega)
    rw [h', h0] at this; cases this

theorem firstTrueFrom_lt (p : Nat → Bool) (n : Nat) (hn : 0 < n) (hl : p (n - 1) = true) : firstTrueFrom p n 0 < n := by
  have hle := (firstTrueFrom_ge p n 0).2
  by_cases h : firstTrueFrom p n 0 = n
  · have := firstTrueFrom_false_before p n 0 (n - 1) (by omega) (by omega)
    rw [hl] at this; cases this
  · omega

/-- position facts of the reference insertion into a well-shaped tour -/
theorem keepPrefix_bounds (nw : Network) (sd ed : Nat) (mid : List Nat) (x : Nat)
    (hsd : (nw.node sd).isStartDepot = true) (hed : (nw.node ed).isEndDepot = true)
    (hx : (nw.node x).isDepot = false) :
    1 ≤ keepPrefixLen nw (sd :: (mid ++ [ed])) x ∧ keepPrefixLen nw (sd :: (mid ++ [ed])) x ≤ mid.length + 1 := by
  unfold keepPrefixLen
  have hn : (sd :: (mid ++ [ed])).length = mid.length + 2 := by simp
  rw [hn]
  constructor
  · apply lastTrueLen_pos _ _ (by omega)
    simp only [reachesAt, List.getD_cons_zero]
    exact start_reaches hsd (not_depot hx).1
  · have := lastTrueLen_lt (reachesAt nw (sd :: (mid ++ [ed])) x) (mid.length + 2) (by omega) (by
      simp only [reachesAt]
      have : (sd :: (mid ++ [ed])).getD (mid.length + 2 - 1) 0 = ed := by
        simp [List.getD_eq_getElem?_getD, List.getElem?_append_right]
      rw [this]; exact end_reaches_nothing hed)
    omega

theorem keepSuffix_bounds (nw : Network) (sd ed : Nat) (mid : List Nat) (x : Nat)
    (hsd : (nw.node sd).isStartDepot = true) (hed : (nw.node ed).isEndDepot = true)
    (hx : (nw.node x).isDepot = false) :
    1 ≤ keepSuffixStart nw (sd :: (mid ++ [ed])) x ∧ keepSuffixStart nw (sd :: (mid ++ [ed])) x ≤ mid.length + 1 := by
  unfold keepSuffixStart
  have hn : (sd :: (mid ++ [ed])).length = mid.length + 2 := by simp
  rw [hn]
  constructor
  · apply firstTrueFrom_pos _ _ (by omega)
    simp only [reachedAt, List.getD_cons_zero]
    exact nothing_reaches_start hsd
  · have := firstTrueFrom_lt (reachedAt nw (sd :: (mid ++ [ed])) x) (mid.length + 2) (by omega) (by
      simp only [reachedAt]
      have : (sd :: (mid ++ [ed])).getD (mid.length + 2 - 1) 0 = ed := by
        simp [List.getD_eq_getElem?_getD, List.getElem?_append_right]
      rw [this]; exact reaches_end hed (not_depot hx).2)
    omega

theorem take_shape (sd ed : Nat) (mid : List Nat) (k : Nat) (h1 : 1 ≤ k) (h2 : k ≤ mid.length + 1) :
    (sd :: (mid ++ [ed])).take k = sd :: mid.take (k - 1) := by
  cases k with
  | zero => omega
  | succ j =>
    simp only [List.take_succ_cons, Nat.add_sub_cancel]
    rw [List.take_append_of_le_length (by omega)]

theorem drop_shape (sd ed : Nat) (mid : List Nat) (m : Nat) (h1 : 1 ≤ m) (h2 : m ≤ mid.length + 1) :
    (sd :: (mid ++ [ed])).drop m = mid.drop (m - 1) ++ [ed] := by
  cases m with
  | zero => omega
  | succ j =>
    simp only [List.drop_succ_cons, Nat.add_sub_cancel]
    rw [List.drop_append_of_le_length (by omega)]

theorem hasNonDepot_iff (nw : Network) (l : List Nat) :
    hasNonDepot nw l = true ↔ ∃ x ∈ l, (nw.node x).isDepot = false := by
  unfold hasNonDepot
  rw [List.any_eq_true]
  constructor
  · rintro ⟨x, hx, h⟩; exact ⟨x, hx, by simpa using h⟩
  · rintro ⟨x, hx, h⟩; exact ⟨x, hx, by simp [h]⟩

/-- the elements of a valid path other than a leading start depot / trailing end depot are activities -/
theorem path_elems (nw : Network) (p : List Nat) (hp : PathOK nw p) :
    (∀ x ∈ p.tail, (nw.node x).isStartDepot = false) ∧ (∀ x ∈ p.dropLast, (nw.node x).isEndDepot = false) :=
  chain_depots nw p hp.chain

/-- **shape of the reference insertion** -/
theorem shape_insert (nw : Network) (l p : List Nat) (hl : Shape nw l) (hp : PathOK nw p) :
    Shape nw ((insertRef nw false l p).1) := by
  obtain ⟨sd, mid, ed, rfl, hsd, hed, hmid, hmidnd⟩ := hl
  obtain ⟨htail, hinit⟩ := path_elems nw p hp
  obtain ⟨w, hwp, hwnd⟩ := (hasNonDepot_iff nw p).mp hp.act
  have hpne : p ≠ [] := by intro e; subst e; cases hwp
  unfold insertRef
  simp only [stripForDummy, Bool.not_false, ↓reduceIte]
  -- decompositions of p
  obtain ⟨a, r, hpar⟩ : ∃ a r, p = a :: r := by
    cases p with
    | nil => exact absurd rfl hpne
    | cons a r => exact ⟨a, r, rfl⟩
  obtain ⟨q, z, hpqz⟩ : ∃ q z, p = q ++ [z] := by
    rcases List.eq_nil_or_concat p with h | ⟨q, z, h⟩
    · exact absurd h hpne
    · exact ⟨q, z, by simpa using h⟩
  have hhead : p.headD 0 = a := by rw [hpar]; rfl
  have hlast : p.getLastD 0 = z := by rw [hpqz]; simp [List.getLastD_eq_getLast?]
  have htail' : ∀ x ∈ r, (nw.node x).isStartDepot = false := by
    intro x hx; exact htail x (by rw [hpar]; simpa using hx)
  have hinit' : ∀ x ∈ q, (nw.node x).isEndDepot = false := by
    intro x hx; exact hinit x (by rw [hpqz]; simpa using hx)
  rw [hhead, hlast]
  have hlen : (sd :: (mid ++ [ed])).length = mid.length + 2 := by simp
  -- every element of p except a depot head / a depot last is an activity
  have hmem_r : ∀ x ∈ r, x ∈ q ∨ x = z := by
    intro x hx
    have : x ∈ q ++ [z] := by rw [← hpqz, hpar]; simp [hx]
    simpa using this
  have hmem_q : ∀ x ∈ q, x = a ∨ x ∈ r := by
    intro x hx
    have : x ∈ a :: r := by rw [← hpar, hpqz]; simp [hx]
    simpa using this
  by_cases hda : (nw.node a).isDepot = true
  · -- the path brings its own start depot
    have hsa : (nw.node a).isStartDepot = true := by
      rcases depot_cases hda with h | h
      · exact h
      · -- an end depot at the head: then p = [a], all depots
        exfalso
        cases q with
        | nil =>
          have : p = [z] := by rw [hpqz]; rfl
          rw [hpar] at this; cases this
          rw [hpar] at hwp; simp at hwp; subst hwp; rw [hda] at hwnd; cases hwnd
        | cons q0 qs =>
          have : a = q0 := by
            have h1 : p = q0 :: (qs ++ [z]) := by rw [hpqz]; rfl
            rw [hpar] at h1; cases h1; rfl
          rw [this] at h
          have := hinit' q0 (by simp)
          rw [h] at this; cases this
    have hr_ne : r ≠ [] := by
      intro e; subst e
      rw [hpar] at hwp; simp at hwp; subst hwp; rw [hda] at hwnd; cases hwnd
    by_cases hdz : (nw.node z).isDepot = true
    · -- and its own end depot
      have hez : (nw.node z).isEndDepot = true := by
        rcases depot_cases hdz with h | h
        · exfalso
          -- z is in the tail (r ≠ []), so it cannot be a start depot
          have hz_r : z ∈ r := by
            have : z ∈ a :: r := by rw [← hpar, hpqz]; simp
            rcases List.mem_cons.mp this with e | e
            · -- z = a: then r ⊆ q ++ [z] … but p = a :: r = q ++ [a]; last of r is a
              subst e
              have hrl : r.getLast? = some z := by
                have : (z :: r).getLast? = some z := by rw [← hpar, hpqz]; simp
                cases r with
                | nil => exact absurd rfl hr_ne
                | cons r0 rs => simpa [List.getLast?_cons_cons] using this
              exact List.mem_of_getLast? hrl
            · exact e
          have := htail' z hz_r
          rw [h] at this; cases this
        · exact h
      simp only [hda, hdz, ↓reduceIte, List.take_zero, List.nil_append, hlen]
      rw [List.drop_eq_nil_of_le (by simp), List.append_nil]
      -- p = a :: (q' ++ [z])
      obtain ⟨q', hq'⟩ : ∃ q', r = q' ++ [z] := by
        rcases List.eq_nil_or_concat r with h | ⟨q', z', h⟩
        · exact absurd h hr_ne
        · have h' : r = q' ++ [z'] := by simpa using h
          have : (a :: r).getLast? = some z := by rw [← hpar, hpqz]; simp
          rw [h'] at this
          have hz' : z' = z := by simpa [List.getLast?_cons, List.getLast?_append] using this
          exact ⟨q', by rw [h', hz']⟩
      refine ⟨a, q', z, by rw [hpar, hq'], hsa, hez, ?_, ?_⟩
      · intro e; subst e
        -- p = [a, z]: no activity
        rw [hpar, hq'] at hwp
        simp at hwp
        rcases hwp with e | e
        · subst e; rw [hda] at hwnd; cases hwnd
        · subst e; rw [hdz] at hwnd; cases hwnd
      · intro x hx
        have hxr : x ∈ r := by rw [hq']; simp [hx]
        have h1 := htail' x hxr
        have hxq : x ∈ q := by
          have : a :: r = q ++ [z] := by rw [← hpar, hpqz]
          rw [hq'] at this
          have hq : q = a :: q' := by
            have e : (a :: q') ++ [z] = q ++ [z] := by simpa using this
            exact (List.append_cancel_right e).symm
          rw [hq]; simp [hx]
        have h2 := hinit' x hxq
        simp [Node.isDepot, h1, h2]
    · -- end of the path is an activity: the old suffix is kept from m on
      have hdz' : (nw.node z).isDepot = false := by simpa using hdz
      obtain ⟨hm1, hm2⟩ := keepSuffix_bounds nw sd ed mid z hsd hed hdz'
      simp only [hda, hdz', Bool.false_eq_true, ↓reduceIte, List.take_zero, List.nil_append]
      rw [drop_shape sd ed mid _ hm1 hm2]
      refine ⟨a, r ++ mid.drop (keepSuffixStart nw (sd :: (mid ++ [ed])) z - 1), ed,
        by rw [hpar]; simp, hsa, hed, by simp [hr_ne], ?_⟩
      intro x hx
      rcases List.mem_append.mp hx with hx | hx
      · have h1 := htail' x hx
        have h2 : (nw.node x).isEndDepot = false := by
          rcases hmem_r x hx with h | h
          · exact hinit' x h
          · rw [h]; exact (not_depot hdz').2
        simp [Node.isDepot, h1, h2]
      · exact hmidnd x (List.mem_of_mem_drop hx)
  · have hda' : (nw.node a).isDepot = false := by simpa using hda
    obtain ⟨hk1, hk2⟩ := keepPrefix_bounds nw sd ed mid a hsd hed hda'
    by_cases hdz : (nw.node z).isDepot = true
    · have hez : (nw.node z).isEndDepot = true := by
        rcases depot_cases hdz with h | h
        · exfalso
          -- z ≠ a (a is an activity), so z ∈ r
          have hz_r : z ∈ r := by
            have : z ∈ a :: r := by rw [← hpar, hpqz]; simp
            rcases List.mem_cons.mp this with e | e
            · subst e; rw [hdz] at hda'; cases hda'
            · exact e
          have := htail' z hz_r
          rw [h] at this; cases this
        · exact h
      have hq_ne : q ≠ [] := by
        intro e; subst e
        have : p = [z] := by rw [hpqz]; rfl
        rw [hpar] at this; cases this
        rw [hdz] at hda'; cases hda'
      simp only [hda', hdz, Bool.false_eq_true, ↓reduceIte, hlen]
      rw [List.drop_eq_nil_of_le (by simp), List.append_nil, take_shape sd ed mid _ hk1 hk2]
      refine ⟨sd, mid.take (keepPrefixLen nw (sd :: (mid ++ [ed])) a - 1) ++ q, z,
        by rw [hpqz]; simp, hsd, hez, by simp [hq_ne], ?_⟩
      intro x hx
      rcases List.mem_append.mp hx with hx | hx
      · exact hmidnd x (List.mem_of_mem_take hx)
      · have h2 := hinit' x hx
        have h1 : (nw.node x).isStartDepot = false := by
          rcases hmem_q x hx with h | h
          · rw [h]; exact (not_depot hda').1
          · exact htail' x h
        simp [Node.isDepot, h1, h2]
    · have hdz' : (nw.node z).isDepot = false := by simpa using hdz
      obtain ⟨hm1, hm2⟩ := keepSuffix_bounds nw sd ed mid z hsd hed hdz'
      simp only [hda', hdz', Bool.false_eq_true, ↓reduceIte]
      rw [drop_shape sd ed mid _ hm1 hm2, take_shape sd ed mid _ hk1 hk2]
      refine ⟨sd, mid.take (keepPrefixLen nw (sd :: (mid ++ [ed])) a - 1) ++ p ++
          mid.drop (keepSuffixStart nw (sd :: (mid ++ [ed])) z - 1), ed,
        by simp, hsd, hed, by simp [hpne], ?_⟩
      intro x hx
      rcases List.mem_append.mp hx with hx | hx
      · rcases List.mem_append.mp hx with hx | hx
        · exact hmidnd x (List.mem_of_mem_take hx)
        · have h1 : (nw.node x).isStartDepot = false := by
            have : x ∈ a :: r := by rw [← hpar]; exact hx
            rcases List.mem_cons.mp this with e | e
            · rw [e]; exact (not_depot hda').1
            · exact htail' x e
          have h2 : (nw.node x).isEndDepot = false := by
            have : x ∈ q ++ [z] := by rw [← hpqz]; exact hx
            rcases List.mem_append.mp this with e | e
            · exact hinit' x e
            · simp at e; rw [e]; exact (not_depot hdz').2
          simp [Node.isDepot, h1, h2]
      · exact hmidnd x (List.mem_of_mem_drop hx)

theorem shape_len {nw : Network} {l : List Nat} (h : Shape nw l) : 3 ≤ l.length := by
  obtain ⟨sd, mid, ed, rfl, _, _, hmid, _⟩ := h
  have := List.length_pos_iff.mpr hmid
  simp; omega

/-- **C10 (tour clause) for `insert_path`**: inserting a valid path into a valid real tour gives a
    valid real tour -/
theorem insert_tourOK (nw : Network) (hd : C17.DepotTimes nw) (hw : NodesWF' nw) (t t' : Tour) (path : List Nat)
    (rm : Option (List Nat)) (ht : TourOK nw t) (hp : PathOK nw path)
    (h : insertPath nw true t path = .ok (t', rm)) : TourOK nw t' := by
  have hc := C12.timeChain_of_chainB nw hd t.nodes ht.chain
  have hne : 0 < t.nodes.length := by have := shape_len ht.shape; omega
  unfold insertPath at h
  obtain ⟨pl, hpl, h⟩ := C12.bind_ok h
  obtain ⟨c, _, h⟩ := C12.bind_ok h
  simp only [pure, Except.pure, Except.ok.injEq, Prod.mk.injEq] at h
  obtain ⟨ht', _⟩ := h
  obtain ⟨_, h2, _⟩ := C12.plan_inv nw hd hw t path hc hne pl hpl
  have hnodes : t'.nodes = (insertRef nw false t.nodes path).1 := by
    rw [← ht', ← ht.real]; exact h2
  have hpne : path ≠ [] := by
    obtain ⟨w, hwp, _⟩ := (hasNonDepot_iff nw path).mp hp.act
    intro e; subst e; cases hwp
  refine ⟨by rw [← ht']; exact ht.real, by rw [hnodes]; exact shape_insert nw t.nodes path ht.shape hp, ?_⟩
  rw [hnodes]
  have := chain_insertRef nw t.nodes path hpne ht.chain hp.chain
  unfold insertRef
  simpa [stripForDummy] using this

/-- **C10 (tour clause) for `remove`**: what remains of a valid real tour is a valid real tour -/
theorem remove_tourOK (nw : Network) (t t' : Tour) (a b : Nat) (path : List Nat) (ht : TourOK nw t)
    (h : Tour.remove nw t a b = .ok (some t', path)) : TourOK nw t' := by
  have hchain := C01_remove_chain nw t t' a b path ht.chain h
  unfold Tour.remove at h
  obtain ⟨s, hs, h⟩ := C09.bindR_inv h
  obtain ⟨e, he, h⟩ := C09.bindR_inv h
  obtain ⟨u, hchk, h⟩ := C09.bindR_inv h
  obtain ⟨removed, hrem, h⟩ := C09.bindR_inv h
  obtain ⟨ud, _, h⟩ := C09.bindR_inv h
  obtain ⟨sd', _, h⟩ := C09.bindR_inv h
  obtain ⟨seg, _, h⟩ := C09.bindR_inv h
  obtain ⟨dh0, _, h⟩ := C09.bindR_inv h
  obtain ⟨gapD, _, h⟩ := C09.bindR_inv h
  obtain ⟨cseg, _, h⟩ := C09.bindR_inv h
  obtain ⟨c0, _, h⟩ := C09.bindR_inv h
  obtain ⟨gapC, _, h⟩ := C09.bindR_inv h
  have hchk' : checkSeqRemovable nw t s e = .ok () := by cases u; exact hchk
  have hse := C09.checkSeqRemovable_le hchk'
  obtain ⟨h1, h2, _⟩ := C09.slice_inv hrem
  obtain ⟨hlen, hn1, hn2⟩ := C12.checkSeqRemovable_real hchk' ht.real
  have key : t'.nodes = t.nodes.take s ++ t.nodes.drop (e + 1) ∧ t'.isDummy = t.isDummy ∧
      3 ≤ (t.nodes.take s ++ t.nodes.drop (e + 1)).length := by
    dsimp only at h
    split at h
    · split at h
      · simp [pure, Except.pure] at h
      · rename_i hcond
        simp only [pure, Except.pure, Except.ok.injEq, Prod.mk.injEq, Option.some.injEq] at h
        refine ⟨by rw [← h.1], by rw [← h.1], ?_⟩
        simp only [ht.real, Bool.not_false, Bool.true_and, Bool.or_eq_true, List.isEmpty_iff,
          decide_eq_true_eq, not_or, Nat.not_le] at hcond
        omega
    · cases h
  obtain ⟨hnodes, hdum, hlen'⟩ := key
  obtain ⟨sd, mid, ed, hl, hsd, hed, hmid, hmidnd⟩ := ht.shape
  have hn : t.nodes.length = mid.length + 2 := by rw [hl]; simp
  have hs1 : 1 ≤ s := by
    by_cases hs0 : s = 0
    · exfalso
      have : t.nodes.length - 2 ≤ e := by
        by_cases hc : e ≤ t.nodes.length - 3
        · exact absurd ⟨hs0, hc⟩ hn1
        · omega
      simp only [List.length_append, List.length_take, List.length_drop] at hlen'
      omega
    · omega
  have he1 : e + 1 ≤ mid.length + 1 := by
    by_cases hc : e = t.nodes.length - 1
    · exfalso
      have : s ≤ 1 := by
        by_cases hc2 : 2 ≤ s
        · exact absurd ⟨hc, hc2⟩ hn2
        · omega
      simp only [List.length_append, List.length_take, List.length_drop] at hlen'
      omega
    · omega
  refine ⟨by rw [hdum]; exact ht.real, ?_, hchain⟩
  rw [hnodes, hl, take_shape sd ed mid s hs1 (by omega), drop_shape sd ed mid (e + 1) (by omega) he1]
  refine ⟨sd, mid.take (s - 1) ++ mid.drop (e + 1 - 1), ed, by simp, hsd, hed, ?_, ?_⟩
  · intro e0
    rw [hl, take_shape sd ed mid s hs1 (by omega), drop_shape sd ed mid (e + 1) (by omega) he1] at hlen'
    have : (mid.take (s - 1) ++ mid.drop (e + 1 - 1)).length = 0 := by rw [e0]; rfl
    simp only [List.cons_append, List.length_cons, List.length_append, List.length_nil] at hlen' this
    omega
  · intro x hx
    rcases List.mem_append.mp hx with hx | hx
    · exact hmidnd x (List.mem_of_mem_take hx)
    · exact hmidnd x (List.mem_of_mem_drop hx)

theorem replaceStartDepot_tourOK (nw : Network) (t t' : Tour) (d : Nat) (ht : TourOK nw t)
    (h : replaceStartDepot nw t d = .ok t') : TourOK nw t' := by
  unfold replaceStartDepot at h
  split at h
  · cases h
  · split at h
    · cases h
    · rename_i hdum hd
      have hd' : (nw.node d).isStartDepot = true := by simpa using hd
      obtain ⟨old, _, h⟩ := C12.bind_ok h
      dsimp only at h
      obtain ⟨fnd, _, h⟩ := C12.bind_ok h
      have hkey : t'.nodes = t.nodes.set 0 d ∧ t'.isDummy = t.isDummy := by
        split at h
        · obtain ⟨dh, _, h⟩ := C12.bind_ok h
          obtain ⟨c, _, h⟩ := C12.bind_ok h
          simp only [pure, Except.pure, Except.ok.injEq] at h
          rw [← h]; exact ⟨rfl, rfl⟩
        · obtain ⟨x, _, h⟩ := C12.bind_ok h
          obtain ⟨dh, _, h⟩ := C12.bind_ok h
          obtain ⟨c, _, h⟩ := C12.bind_ok h
          simp only [pure, Except.pure, Except.ok.injEq] at h
          rw [← h]; exact ⟨rfl, rfl⟩
      obtain ⟨sd, mid, ed, hl, hsd, hed, hmid, hmidnd⟩ := ht.shape
      have hnodes : t'.nodes = d :: (mid ++ [ed]) := by rw [hkey.1, hl]; rfl
      refine ⟨by rw [hkey.2]; exact ht.real, ⟨d, mid, ed, hnodes, hd', hed, hmid, hmidnd⟩, ?_⟩
      rw [hnodes]
      have hc := ht.chain
      rw [hl] at hc
      cases mid with
      | nil => exact absurd rfl hmid
      | cons m ms =>
        simp only [List.cons_append] at hc ⊢
        rw [chainB_cons2] at hc ⊢
        simp only [Bool.and_eq_true] at hc ⊢
        exact ⟨start_reaches hd' (not_depot (hmidnd m (by simp))).1, hc.2⟩

theorem replaceEndDepot_tourOK (nw : Network) (t t' : Tour) (d : Nat) (ht : TourOK nw t)
    (h : replaceEndDepot nw t d = .ok t') : TourOK nw t' := by
  obtain ⟨hn, _, hd⟩ := C05.replaceEndDepot_nodes h
  obtain ⟨sd, mid, ed, hl, hsd, hed, hmid, hmidnd⟩ := ht.shape
  have hnodes : t'.nodes = sd :: (mid ++ [d]) := by
    rw [hn, hl]
    have : (sd :: (mid ++ [ed])).length - 1 = mid.length + 1 := by simp
    rw [this, List.set_cons_succ, List.set_append_right _ _ (by omega)]
    simp
  have hdum : t'.isDummy = false := by
    unfold replaceEndDepot at h
    split at h
    · cases h
    · split at h
      · cases h
      · split at h
        · cases h
        · obtain ⟨old, _, h⟩ := C12.bind_ok h
          dsimp only at h
          split at h
          · cases h
          · obtain ⟨lnd, _, h⟩ := C12.bind_ok h
            split at h
            · obtain ⟨dh, _, h⟩ := C12.bind_ok h
              obtain ⟨c, _, h⟩ := C12.bind_ok h
              simp only [pure, Except.pure, Except.ok.injEq] at h
              rw [← h]; exact ht.real
            · obtain ⟨x, _, h⟩ := C12.bind_ok h
              obtain ⟨dh, _, h⟩ := C12.bind_ok h
              obtain ⟨c, _, h⟩ := C12.bind_ok h
              simp only [pure, Except.pure, Except.ok.injEq] at h
              rw [← h]; exact ht.real
  refine ⟨hdum, ⟨sd, mid, d, hnodes, hsd, hd, hmid, hmidnd⟩, ?_⟩
  rw [hnodes]
  have hc := ht.chain
  rw [hl] at hc
  -- chain of sd :: mid survives; the last link goes into an end depot
  have e1 : sd :: (mid ++ [ed]) = (sd :: mid) ++ [ed] := by simp
  have e2 : sd :: (mid ++ [d]) = (sd :: mid) ++ [d] := by simp
  rw [e1, chainB_append] at hc
  rw [e2, chainB_append]
  simp only [Bool.and_eq_true] at hc ⊢
  refine ⟨⟨hc.1.1, ?_⟩, by simp [chainB, pairs]⟩
  obtain ⟨z, hz⟩ : ∃ z, (sd :: mid).getLast? = some z := by
    cases hh : (sd :: mid).getLast? with
    | none => simp at hh
    | some z => exact ⟨z, rfl⟩
  rw [hz]
  simp only [List.head?_cons, linkOK]
  have hzmem : z ∈ mid := by
    have := List.mem_of_getLast? hz
    rcases List.mem_cons.mp this with e | e
    · -- z = sd only if mid = []
      exfalso
      subst e
      cases mid with
      | nil => exact hmid rfl
      | cons m ms =>
        rw [List.getLast?_cons_cons] at hz
        have := List.mem_of_getLast? hz
        have hnd := hmidnd z this
        simp [Node.isDepot, hsd] at hnd
    · exact e
  exact reaches_end hd (not_depot (hmidnd z hzmem)).2

/-- `Tour::new` only builds valid real tours -/
theorem new_tourOK (nw : Network) (nodes : List Nat) (t : Tour) (h : Tour.new nw nodes = .ok t) : TourOK nw t := by
  unfold Tour.new at h
  obtain ⟨errs, herr, h⟩ := C12.bind_ok h
  split at h
  · cases h
  · rename_i hne
    simp only [pure, Except.pure, Except.ok.injEq] at h
    unfold Tour.newErrors at herr
    obtain ⟨f, hf, herr⟩ := C12.bind_ok herr
    obtain ⟨l, hl, herr⟩ := C12.bind_ok herr
    simp only [pure, Except.pure, Except.ok.injEq] at herr
    rw [← herr] at hne
    simp only [Bool.or_eq_true, not_or, Bool.not_eq_true, Bool.not_eq_false', decide_eq_false_iff_not,
      Nat.not_lt] at hne
    obtain ⟨⟨⟨⟨h1, h2⟩, h3⟩, h4⟩, h5⟩ := hne
    have hf' := C09.idxAt_inv hf
    have hl' := C09.idxAt_inv hl
    have hnodes : t.nodes = nodes := by rw [← h]; rfl
    refine ⟨by rw [← h]; rfl, ?_, ?_⟩
    · rw [hnodes]
      -- nodes = f :: inner ++ [l]
      obtain ⟨x, rest, hx⟩ : ∃ x rest, nodes = x :: rest := by
        cases nodes with
        | nil => simp at h3
        | cons x rest => exact ⟨x, rest, rfl⟩
      obtain ⟨mid, y, hy⟩ : ∃ mid y, rest = mid ++ [y] := by
        rcases List.eq_nil_or_concat rest with e | ⟨mid, y, e⟩
        · subst e; rw [hx] at h3; simp at h3
        · exact ⟨mid, y, by simpa using e⟩
      have hxf : x = f := by rw [hx] at hf'; simpa using hf'
      have hyl : y = l := by
        rw [hx, hy] at hl'
        have : (x :: (mid ++ [y])).length - 1 = mid.length + 1 := by simp
        rw [this] at hl'
        simpa [List.getElem?_append_right] using hl'
      refine ⟨x, mid, y, by rw [hx, hy], by rw [hxf]; simpa using h1, by rw [hyl]; simpa using h2, ?_, ?_⟩
      · intro e; subst e; rw [hx, hy] at h3; simp at h3
      · intro z hz
        have : z ∈ (nodes.take (nodes.length - 1)).drop 1 := by
          rw [hx, hy]
          have : (x :: (mid ++ [y])).length - 1 = mid.length + 1 := by simp
          rw [this]
          simp [List.take_append_of_le_length, hz]
        have hall := List.any_eq_false.mp h4 z this
        simpa using hall
    · rw [hnodes]
      unfold chainB
      rw [List.all_eq_true]
      intro pr hpr
      have := List.any_eq_false.mp h5 pr hpr
      simpa using this

end RSSched.C10T
