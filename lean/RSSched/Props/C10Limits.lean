/-
Props/C10Limits: the depot-limits clause of C10 / C02, for the model, every history: for every real
depot (the artificial overflow depot is exempt) the number of vehicles of a type that start there
stays within the per-type capacity, and the number of all vehicles that start there within the
total capacity. Built on the exact depot bookkeeping of Props/C10Usage: the start set of a
(depot, type) key is the set of vehicles of the type whose tour starts in the depot, so the counts
change only when a vehicle's start depot changes — and every such change is guarded by
`can_depot_spawn_vehicle`, goes to the overflow depot, or takes over the place of a vehicle that
disappears in the same modification.
-/
import RSSched.Props.C10Usage
namespace RSSched.C10Lim
open RSSched Schedule Network Tour Spec C15 C02 C13 C10T C10L C09C C10S C10F C10D C10Fit C10U

/-! ### counting -/

theorem length_le_of_subset {α : Type} [DecidableEq α] : ∀ (l l' : List α), l.Nodup → (∀ x ∈ l, x ∈ l') →
    l.length ≤ l'.length
  | [], _, _, _ => by simp
  | a :: t, l', hnd, hsub => by
    have ha : a ∈ l' := hsub a (by simp)
    have hat : a ∉ t := (List.nodup_cons.mp hnd).1
    have ih := length_le_of_subset t (l'.erase a) (List.nodup_cons.mp hnd).2 (fun x hx => by
      have hne : x ≠ a := fun e => hat (e ▸ hx)
      exact (List.mem_erase_of_ne hne).mpr (hsub x (by simp [hx])))
    rw [List.length_erase_of_mem ha] at ih
    have : 0 < l'.length := List.length_pos_of_mem ha
    simp only [List.length_cons]
    omega

/-- one newcomer -/
theorem length_grow {α : Type} [DecidableEq α] (S S' : List α) (arr : α) (hnd : S'.Nodup)
    (h : ∀ x ∈ S', x ∈ S ∨ x = arr) : S'.length ≤ S.length + 1 := by
  have := length_le_of_subset S' (arr :: S) hnd (fun x hx => by
    rcases h x hx with h | h
    · simp [h]
    · simp [h])
  simpa using this

/-- one newcomer takes the place of one that left -/
theorem length_takeover {α : Type} [DecidableEq α] (S S' : List α) (arr dep : α) (hnd : S'.Nodup)
    (hdep : dep ∈ S) (hgone : dep ∉ S') (h : ∀ x ∈ S', x ∈ S ∨ x = arr) : S'.length ≤ S.length := by
  have := length_le_of_subset S' (arr :: S.erase dep) hnd (fun x hx => by
    rcases h x hx with h | h
    · have hne : x ≠ dep := fun e => hgone (e ▸ hx)
      simp [(List.mem_erase_of_ne hne).mpr h]
    · simp [h])
  rw [List.length_cons, List.length_erase_of_mem hdep] at this
  have : 0 < S.length := List.length_pos_of_mem hdep
  omega

/-- one left, nobody came -/
theorem length_left {α : Type} [DecidableEq α] (S S' : List α) (dep : α) (hnd : S'.Nodup)
    (hdep : dep ∈ S) (hgone : dep ∉ S') (h : ∀ x ∈ S', x ∈ S) : S'.length + 1 ≤ S.length := by
  have := length_le_of_subset S' (S.erase dep) hnd (fun x hx => by
    have hne : x ≠ dep := fun e => hgone (e ▸ hx)
    exact (List.mem_erase_of_ne hne).mpr (h x hx))
  rw [List.length_erase_of_mem hdep] at this
  have : 0 < S.length := List.length_pos_of_mem hdep
  omega

theorem sum_le_sum (l : List Nat) (f f' a b : Nat → Nat) (h : ∀ x ∈ l, f' x + a x ≤ f x + b x) :
    sumNat (l.map f') + sumNat (l.map a) ≤ sumNat (l.map f) + sumNat (l.map b) := by
  induction l with
  | nil => simp [sumNat]
  | cons x xs ih =>
    have h1 := h x (by simp)
    have h2 := ih (fun y hy => h y (by simp [hy]))
    simp only [List.map_cons, sumNat, List.foldr_cons] at h2 ⊢
    omega

theorem sum_mono (l : List Nat) (f f' : Nat → Nat) (h : ∀ x ∈ l, f' x ≤ f x) :
    sumNat (l.map f') ≤ sumNat (l.map f) := by
  induction l with
  | nil => simp [sumNat]
  | cons x xs ih =>
    have h1 := h x (by simp)
    have h2 := ih (fun y hy => h y (by simp [hy]))
    simp only [List.map_cons, sumNat, List.foldr_cons] at h2 ⊢
    omega

theorem sum_indicator (l : List Nat) (A : Nat) : sumNat (l.map (fun x => if x = A then 1 else 0)) = l.count A := by
  induction l with
  | nil => simp [sumNat]
  | cons x xs ih =>
    simp only [List.map_cons, sumNat, List.foldr_cons] at ih ⊢
    rw [ih, List.count_cons]
    by_cases e : x = A
    · simp [e]; omega
    · simp [e]

theorem count_range_le (n A : Nat) : (List.range n).count A ≤ 1 :=
  List.nodup_iff_count.mp List.nodup_range A

theorem count_range_mem (n A : Nat) (h : A < n) : (List.range n).count A = 1 := by
  have h1 := count_range_le n A
  have h2 : 0 < (List.range n).count A := List.count_pos_iff.mpr (List.mem_range.mpr h)
  omega

/-! ### the limits -/

/-- number of vehicles of type `vt` starting in depot `d` -/
def cnt (u : DepotUsage) (d vt : Nat) : Nat := (side true (getK u (d, vt))).length

theorem cnt_eq (u : DepotUsage) (d vt : Nat) : spawnedCount u d vt = cnt u d vt := rfl

/-- **the depot-limits clause**: every depot but the overflow depot respects its per-type and its
    total capacity -/
def Limits (nw : Network) (u : DepotUsage) : Prop :=
  ∀ d, d ≠ nw.overflowDepot →
    (∀ vt, cnt u d vt ≤ nw.capacityOf d vt) ∧
    sumNat (nw.typeIdxs.map (fun vt => cnt u d vt)) ≤ nw.totalCapacityOf d

theorem canSpawn_facts {nw : Network} {u : DepotUsage} {dn vt : Nat} (h : canDepotSpawn nw u dn vt = true) :
    cnt u (nw.depotIdxOf dn) vt < nw.capacityOf (nw.depotIdxOf dn) vt ∧
    sumNat (nw.typeIdxs.map (fun vt => cnt u (nw.depotIdxOf dn) vt)) < nw.totalCapacityOf (nw.depotIdxOf dn) := by
  unfold canDepotSpawn at h
  dsimp only at h
  split at h
  · cases h
  · split at h
    · cases h
    · split at h
      · cases h
      · rename_i _ h2 h3
        unfold spawnedTotal at h3
        simp only [cnt_eq] at h2 h3
        constructor <;> omega

/-- the start sets of two usage maps, compared key by key: `arr` may have arrived at `ka` -/
def GrowAt (u u' : DepotUsage) (arr : Veh) (ka : Nat × Nat) : Prop :=
  ∀ k w, w ∈ side true (getK u' k) → w ∈ side true (getK u k) ∨ (w = arr ∧ k = ka)

/-- nobody arrived anywhere -/
def Shrinks (u u' : DepotUsage) : Prop :=
  ∀ k w, w ∈ side true (getK u' k) → w ∈ side true (getK u k)

theorem limits_shrink {nw : Network} {u u' : DepotUsage} (hl : Limits nw u) (hnd : ∀ k, (side true (getK u' k)).Nodup)
    (h : Shrinks u u') : Limits nw u' := by
  have hle : ∀ d vt, cnt u' d vt ≤ cnt u d vt := fun d vt =>
    length_le_of_subset _ _ (hnd (d, vt)) (fun x hx => h (d, vt) x hx)
  intro d hd
  obtain ⟨h1, h2⟩ := hl d hd
  refine ⟨fun vt => Nat.le_trans (hle d vt) (h1 vt), ?_⟩
  exact Nat.le_trans (sum_mono nw.typeIdxs (fun vt => cnt u d vt) (fun vt => cnt u' d vt) (fun vt _ => hle d vt)) h2

/-- key by key: `|S'| ≤ |S| + [arr arrived here]` -/
theorem cnt_grow {u u' : DepotUsage} {arr : Veh} {d0 vt0 : Nat} (hnd : ∀ k, (side true (getK u' k)).Nodup)
    (h : GrowAt u u' arr (d0, vt0)) (d vt : Nat) :
    cnt u' d vt ≤ cnt u d vt + (if d = d0 ∧ vt = vt0 then 1 else 0) := by
  unfold cnt
  by_cases e : d = d0 ∧ vt = vt0
  · rw [if_pos e]
    obtain ⟨e1, e2⟩ := e
    subst e1; subst e2
    exact length_grow _ _ arr (hnd _) (fun x hx => by
      rcases h _ x hx with h | h
      · exact Or.inl h
      · exact Or.inr h.1)
  · rw [if_neg e, Nat.add_zero]
    exact length_le_of_subset _ _ (hnd _) (fun x hx => by
      rcases h _ x hx with h | h
      · exact h
      · exact absurd (by simpa using h.2) e)

/-- arrival at a key whose depot is the overflow depot, or guarded by `can_depot_spawn_vehicle` -/
theorem limits_guarded {nw : Network} {u u' : DepotUsage} {arr : Veh} {dn vt : Nat} (hl : Limits nw u)
    (hnd : ∀ k, (side true (getK u' k)).Nodup)
    (h : GrowAt u u' arr (nw.depotIdxOf dn, vt))
    (hg : nw.depotIdxOf dn = nw.overflowDepot ∨ canDepotSpawn nw u dn vt = true) : Limits nw u' := by
  have hle := cnt_grow hnd h
  intro d hd
  obtain ⟨h1, h2⟩ := hl d hd
  by_cases ed : d = nw.depotIdxOf dn
  · rcases hg with hg | hg
    · exact absurd (ed.trans hg) hd
    · obtain ⟨g1, g2⟩ := canSpawn_facts hg
      rw [← ed] at g1 g2
      constructor
      · intro vt'
        have := hle d vt'
        by_cases e : vt' = vt
        · subst e; simp only [ed, and_self, ↓reduceIte] at this; rw [← ed] at this; omega
        · simp only [e, and_false, ↓reduceIte, Nat.add_zero] at this
          exact Nat.le_trans this (h1 vt')
      · have := sum_le_sum nw.typeIdxs (fun vt' => cnt u d vt') (fun vt' => cnt u' d vt')
          (fun _ => 0) (fun x => if x = vt then 1 else 0) (fun vt' _ => by
            have := hle d vt'
            simp only [ed, true_and] at this
            rw [← ed] at this
            simp only [Nat.add_zero]
            exact this)
        rw [sum_indicator] at this
        have hc := count_range_le nw.vtypes.size vt
        unfold Network.typeIdxs at this g2 ⊢
        simp only [List.map_const', sumNat] at this
        have hz : List.foldr (fun x1 x2 => x1 + x2) 0 (List.replicate (List.range nw.vtypes.size).length 0) = 0 := by
          generalize (List.range nw.vtypes.size).length = n
          induction n with
          | zero => rfl
          | succ n ih => simp [List.replicate_succ, ih]
        unfold sumNat at g2 ⊢
        omega
  · have hsame : ∀ vt', cnt u' d vt' ≤ cnt u d vt' := by
      intro vt'
      have := hle d vt'
      simpa only [ed, false_and, ↓reduceIte, Nat.add_zero] using this
    refine ⟨fun vt' => Nat.le_trans (hsame vt') (h1 vt'), ?_⟩
    exact Nat.le_trans (sum_mono nw.typeIdxs (fun vt => cnt u d vt) (fun vt => cnt u' d vt) (fun vt _ => hsame vt)) h2

/-- key by key: `|S'| + [dep left here] ≤ |S| + [arr arrived here]` -/
theorem cnt_takeover {u u' : DepotUsage} {arr dep : Veh} {d0 vta vtd : Nat}
    (hnd : ∀ k, (side true (getK u' k)).Nodup) (h : GrowAt u u' arr (d0, vta))
    (hdep : dep ∈ side true (getK u (d0, vtd))) (hgone : ∀ k, dep ∉ side true (getK u' k)) (d vt : Nat) :
    cnt u' d vt + (if d = d0 ∧ vt = vtd then 1 else 0) ≤ cnt u d vt + (if d = d0 ∧ vt = vta then 1 else 0) := by
  unfold cnt
  by_cases e1 : d = d0 ∧ vt = vtd <;> by_cases e2 : d = d0 ∧ vt = vta
  · rw [if_pos e1, if_pos e2, Nat.add_le_add_iff_right]
    obtain ⟨a1, a2⟩ := e1
    subst a1; subst a2
    exact length_takeover _ _ arr dep (hnd _) hdep (hgone _) (fun x hx => by
      rcases h _ x hx with h | h
      · exact Or.inl h
      · exact Or.inr h.1)
  · rw [if_pos e1, if_neg e2, Nat.add_zero]
    obtain ⟨a1, a2⟩ := e1
    subst a1; subst a2
    exact length_left _ _ dep (hnd _) hdep (hgone _) (fun x hx => by
      rcases h _ x hx with h | h
      · exact h
      · exact absurd (by simpa using h.2) e2)
  · rw [if_neg e1, if_pos e2, Nat.add_zero]
    obtain ⟨a1, a2⟩ := e2
    subst a1; subst a2
    exact length_grow _ _ arr (hnd _) (fun x hx => by
      rcases h _ x hx with h | h
      · exact Or.inl h
      · exact Or.inr h.1)
  · rw [if_neg e1, if_neg e2, Nat.add_zero, Nat.add_zero]
    exact length_le_of_subset _ _ (hnd _) (fun x hx => by
      rcases h _ x hx with h | h
      · exact h
      · exact absurd (by simpa using h.2) e2)

/-- arrival at a key of a depot another vehicle leaves in the same step (its start set lost `dep`):
    the same type — or another type whose per-type capacity has room -/
theorem limits_takeover {nw : Network} {u u' : DepotUsage} {arr dep : Veh} {d0 vta vtd : Nat} (hl : Limits nw u)
    (hnd : ∀ k, (side true (getK u' k)).Nodup)
    (h : GrowAt u u' arr (d0, vta))
    (hdep : dep ∈ side true (getK u (d0, vtd))) (hgone : ∀ k, dep ∉ side true (getK u' k))
    (hvtd : vtd < nw.vtypes.size)
    (hg : vtd = vta ∨ cnt u d0 vta < nw.capacityOf d0 vta) : Limits nw u' := by
  have hle := cnt_takeover hnd h hdep hgone
  intro d hd
  obtain ⟨h1, h2⟩ := hl d hd
  constructor
  · intro vt'
    have := hle d vt'
    have hh := h1 vt'
    by_cases e2 : d = d0 ∧ vt' = vta
    · simp only [e2, and_self, ↓reduceIte] at this
      obtain ⟨a1, a2⟩ := e2
      subst a1; subst a2
      rcases hg with hg | hg
      · subst hg
        simp only [and_self, ↓reduceIte] at this
        omega
      · split at this <;> omega
    · simp only [e2, ↓reduceIte, Nat.add_zero] at this
      split at this <;> omega
  · by_cases ed : d = d0
    · have := sum_le_sum nw.typeIdxs (fun vt => cnt u d vt) (fun vt => cnt u' d vt)
        (fun x => if x = vtd then 1 else 0) (fun x => if x = vta then 1 else 0) (fun vt' _ => by
          have := hle d vt'
          simp only [ed, true_and] at this
          rw [← ed] at this
          exact this)
      rw [sum_indicator, sum_indicator] at this
      have hc1 := count_range_mem nw.vtypes.size vtd hvtd
      have hc2 := count_range_le nw.vtypes.size vta
      unfold Network.typeIdxs at this h2 ⊢
      omega
    · refine Nat.le_trans (sum_mono nw.typeIdxs (fun vt => cnt u d vt) (fun vt => cnt u' d vt) (fun vt' _ => ?_)) h2
      have := hle d vt'
      simpa only [ed, false_and, ↓reduceIte, Nat.add_zero] using this

/-! ### where a tour starts -/

theorem startU_iff {nw : Network} {t : Tour} {sd : Nat} :
    Transition.startDepotU nw t = .ok sd ↔ (t.nodes.head? = some sd ∧ (nw.node sd).isStartDepot = true) := by
  unfold Transition.startDepotU Tour.startDepot Tour.firstNode
  constructor
  · intro h
    have h := unwrapR_ok h
    obtain ⟨f, hf, h⟩ := bind_ok h
    have hf' := C10Fit.idxAt_ok hf
    by_cases hs : (nw.node f).isStartDepot = true
    · simp only [hs, ↓reduceIte, pure, Except.pure, Except.ok.injEq] at h
      subst h
      exact ⟨by rw [List.head?_eq_getElem?]; exact hf', hs⟩
    · simp only [hs, Bool.false_eq_true, ↓reduceIte] at h
      cases h
  · intro ⟨h1, h2⟩
    have : idxAt t.nodes 0 = .ok sd := by
      unfold idxAt
      rw [List.head?_eq_getElem?] at h1
      rw [h1]
    simp only [this, bind, Except.bind, h2, ↓reduceIte, pure, Except.pure]
    rfl

theorem startU_congr {nw : Network} {t t' : Tour} (h : t'.nodes.head? = t.nodes.head?) :
    Transition.startDepotU nw t' = .ok sd ↔ Transition.startDepotU nw t = .ok sd := by
  rw [startU_iff, startU_iff, h]

/-- a vehicle whose entry changed only in ways that keep type and first node starts where it did -/
theorem home_head {nw : Network} {V V' : List (Veh × Nat)} {T T' : Tours} {w : Veh} {t t' : Tour}
    (hV : assocGet? V' w = assocGet? V w) (ht : assocGet? T w = some t) (ht' : assocGet? T' w = some t')
    (hh : t'.nodes.head? = t.nodes.head?) (k : Nat × Nat) :
    Home nw V' T' true w k → Home nw V T true w k := by
  intro ⟨t1, vt, dn, h1, h2, h3, h4⟩
  rw [ht'] at h1; cases h1
  refine ⟨t, vt, dn, ht, by rw [← hV]; exact h2, ?_, h4⟩
  unfold depotU at h3 ⊢
  simp only [↓reduceIte] at h3 ⊢
  exact (startU_congr hh).mp h3

theorem home_key {nw : Network} {V : List (Veh × Nat)} {T : Tours} {w : Veh} {t : Tour} {vt : Nat} {k : Nat × Nat}
    (ht : assocGet? T w = some t) (hv : assocGet? V w = some vt) (h : Home nw V T true w k) :
    ∃ sd, t.nodes.head? = some sd ∧ (nw.node sd).isStartDepot = true ∧ k = (nw.depotIdxOf sd, vt) := by
  obtain ⟨t1, vt1, dn, h1, h2, h3, h4⟩ := h
  rw [ht] at h1; cases h1
  rw [hv] at h2; cases h2
  unfold depotU at h3
  simp only [↓reduceIte] at h3
  obtain ⟨g1, g2⟩ := startU_iff.mp h3
  exact ⟨dn, g1, g2, h4⟩

/-- one vehicle changed: its new start is its old one, the overflow depot, or a depot with room -/
theorem single_limits {nw : Network} {V V' : List (Veh × Nat)} {T T' : Tours} {u u' : DepotUsage} {v : Veh}
    (hok : UsageOK nw V T u) (hok' : UsageOK nw V' T' u') (hl : Limits nw u)
    (hV : ∀ w, w ≠ v → assocGet? V' w = assocGet? V w) (hT : ∀ w, w ≠ v → assocGet? T' w = assocGet? T w)
    (hv : ∀ k, Home nw V' T' true v k → Home nw V T true v k ∨
      ∃ dn vt, k = (nw.depotIdxOf dn, vt) ∧ (nw.depotIdxOf dn = nw.overflowDepot ∨ canDepotSpawn nw u dn vt = true)) :
    Limits nw u' := by
  have hothers : ∀ k w, w ≠ v → w ∈ side true (getK u' k) → w ∈ side true (getK u k) := by
    intro k w hw hm
    rw [hok.mem]
    exact (home_congr (hV w hw) (hT w hw) true k).mp ((hok'.mem true k w).mp hm)
  by_cases hex : ∃ k, Home nw V' T' true v k ∧ ¬ Home nw V T true v k
  · obtain ⟨k0, hk0, hnot⟩ := hex
    rcases hv k0 hk0 with h | ⟨dn, vt, hk, hg⟩
    · exact absurd h hnot
    · subst hk
      refine limits_guarded (arr := v) hl (hok'.nodup true) ?_ hg
      intro k w hm
      by_cases e : w = v
      · subst e
        exact Or.inr ⟨rfl, home_unique ((hok'.mem true k w).mp hm) hk0⟩
      · exact Or.inl (hothers k w e hm)
  · refine limits_shrink hl (hok'.nodup true) ?_
    intro k w hm
    by_cases e : w = v
    · subst e
      rw [hok.mem]
      have := (hok'.mem true k w).mp hm
      exact Classical.byContradiction (fun hn => hex ⟨k, this, hn⟩)
    · exact hothers k w e hm

/-- two vehicles changed (a reassignment): the provider starts where it did if it still exists; the
    receiver starts where it did, or where the provider did when the provider is gone — with the
    provider's type, or with another type that has room there -/
theorem pair_limits {nw : Network} {V V' : List (Veh × Nat)} {T T' : Tours} {u u' : DepotUsage} {p r : Veh}
    (hok : UsageOK nw V T u) (hok' : UsageOK nw V' T' u') (hl : Limits nw u) (hne : p ≠ r)
    (hV : ∀ w, w ≠ p → w ≠ r → assocGet? V' w = assocGet? V w)
    (hT : ∀ w, w ≠ p → w ≠ r → assocGet? T' w = assocGet? T w)
    (hp : ∀ k, Home nw V' T' true p k → Home nw V T true p k)
    (hr : ∀ k, Home nw V' T' true r k → Home nw V T true r k ∨
      ((∀ k', ¬ Home nw V' T' true p k') ∧ ∃ d0 vtd vta, k = (d0, vta) ∧ Home nw V T true p (d0, vtd) ∧
        vtd < nw.vtypes.size ∧ (vtd = vta ∨ cnt u d0 vta < nw.capacityOf d0 vta))) :
    Limits nw u' := by
  have hothers : ∀ k w, w ≠ r → w ∈ side true (getK u' k) → w ∈ side true (getK u k) := by
    intro k w hw hm
    rw [hok.mem]
    by_cases e : w = p
    · subst e; exact hp k ((hok'.mem true k w).mp hm)
    · exact (home_congr (hV w e hw) (hT w e hw) true k).mp ((hok'.mem true k w).mp hm)
  by_cases hex : ∃ k, Home nw V' T' true r k ∧ ¬ Home nw V T true r k
  · obtain ⟨k0, hk0, hnot⟩ := hex
    rcases hr k0 hk0 with h | ⟨hgone, d0, vtd, vta, hk, hdep, hvtd, hg⟩
    · exact absurd h hnot
    · subst hk
      refine limits_takeover (arr := r) (dep := p) hl (hok'.nodup true) ?_ ((hok.mem true _ p).mpr hdep)
        (fun k hm => hgone k ((hok'.mem true k p).mp hm)) hvtd hg
      intro k w hm
      by_cases e : w = r
      · subst e
        exact Or.inr ⟨rfl, home_unique ((hok'.mem true k w).mp hm) hk0⟩
      · exact Or.inl (hothers k w e hm)
  · refine limits_shrink hl (hok'.nodup true) ?_
    intro k w hm
    by_cases e : w = r
    · subst e
      rw [hok.mem]
      have := (hok'.mem true k w).mp hm
      exact Classical.byContradiction (fun hn => hex ⟨k, this, hn⟩)
    · exact hothers k w e hm

/-! ### the public modifications, one by one -/

theorem findBestStart_spec {nw : Network} {u : DepotUsage} {vt n d : Nat} (h : findBestStartDepot nw u vt n = .ok d) :
    canDepotSpawn nw u d vt = true := by
  unfold findBestStartDepot at h
  split at h
  · rename_i d' hf
    simp only [pure, Except.pure, Except.ok.injEq] at h
    subst h
    have := List.find?_some hf
    exact this
  · cases h

/-- `add_suitable_start_and_end_depot_to_path`: the first node of a result long enough to be a tour
    is the overflow depot's start node or a start depot with room -/
theorem addDepots_head {nw : Network} {s : Schedule} {vt : Nat} {path nodes : List Nat}
    (h : addSuitableDepots nw s vt path = .ok nodes) (hlen : 3 ≤ nodes.length) :
    ∃ dn, nodes[0]? = some dn ∧
      (dn = nw.startDepotNodeOf nw.overflowDepot ∨ canDepotSpawn nw s.depotUsage dn vt = true) := by
  unfold addSuitableDepots at h
  obtain ⟨first, hfirst, h⟩ := bind_ok h
  obtain ⟨last, hlast, h⟩ := bind_ok h
  have hfirst := unwrapO_ok hfirst
  have hp0 : path[0]? = some first := by rw [← List.head?_eq_getElem?]; exact hfirst
  have hpos : 0 < path.length := by
    cases path with
    | nil => simp at hfirst
    | cons a as => simp
  split at h
  · -- overflow fallback
    refine ⟨nw.startDepotNodeOf nw.overflowDepot, ?_, Or.inl rfl⟩
    dsimp only at h
    split at h
    · simp only [pure, Except.pure, Except.ok.injEq] at h
      subst h
      simp only [List.length_set] at hlen ⊢
      rw [List.getElem?_set_ne (by omega), List.getElem?_set_self (by omega)]
    · simp only [pure, Except.pure, Except.ok.injEq] at h
      subst h
      rw [List.getElem?_append_left (by simp; omega), List.getElem?_set_self (by omega)]
  · rename_i hc
    by_cases hdep : (nw.node first).isDepot = true
    · -- the given start depot has room
      have hcs : canDepotSpawn nw s.depotUsage first vt = true := by
        simp only [hdep, Bool.true_and, Bool.not_eq_true', Bool.not_eq_false] at hc
        cases hcs : canDepotSpawn nw s.depotUsage first vt with
        | true => rfl
        | false => simp [hcs] at hc
      simp only [hdep, Bool.not_true, Bool.false_eq_true, ↓reduceIte, pure, Except.pure, bind, Except.bind] at h
      refine ⟨first, ?_, Or.inr hcs⟩
      split at h
      · obtain ⟨d, _, h⟩ := bind_ok h
        simp only [pure, Except.pure, Except.ok.injEq] at h
        subst h
        rw [List.getElem?_append_left hpos]; exact hp0
      · simp only [Except.ok.injEq] at h
        subst h; exact hp0
    · simp only [hdep, Bool.not_false, ↓reduceIte, bind, Except.bind] at h
      cases hfb : findBestStartDepot nw s.depotUsage vt first with
      | error e => simp only [hfb] at h; cases h
      | ok d =>
        simp only [hfb, pure, Except.pure] at h
        refine ⟨d, ?_, Or.inr (findBestStart_spec hfb)⟩
        split at h
        · obtain ⟨e, _, h⟩ := bind_ok h
          simp only [pure, Except.pure, Except.ok.injEq] at h
          subst h; simp
        · simp only [Except.ok.injEq] at h
          subst h; simp

theorem new_nodes {nw : Network} {nodes : List Nat} {t : Tour} (h : Tour.new nw nodes = .ok t) :
    t.nodes = nodes ∧ 3 ≤ nodes.length := by
  unfold Tour.new at h
  obtain ⟨b, hb, h⟩ := bind_ok h
  split at h
  · cases h
  · simp only [pure, Except.pure, Except.ok.injEq] at h
    subst h
    refine ⟨rfl, ?_⟩
    unfold newErrors at hb
    obtain ⟨f, _, hb⟩ := bind_ok hb
    obtain ⟨l, _, hb⟩ := bind_ok hb
    simp only [pure, Except.pure, Except.ok.injEq] at hb
    subst hb
    rename_i hne
    simp only [Bool.or_eq_true, decide_eq_true_eq, not_or, Nat.not_lt] at hne
    omega

/-- network hypothesis: the start node of the overflow depot belongs to the overflow depot
    (decidable; evaluated on every network of a run) -/
def OvfNode (nw : Network) : Prop := nw.depotIdxOf (nw.startDepotNodeOf nw.overflowDepot) = nw.overflowDepot

theorem spawn_home {nw : Network} (hovf : OvfNode nw) {s : Schedule} {vt : Nat} {path nodes : List Nat} {tour : Tour}
    {v : Veh} {V' : List (Veh × Nat)} {T' : Tours}
    (hd : addSuitableDepots nw s vt path = .ok nodes) (hn : Tour.new nw nodes = .ok tour)
    (hV : assocGet? V' v = some vt) (hT : assocGet? T' v = some tour) (k : Nat × Nat)
    (h : Home nw V' T' true v k) :
    ∃ dn vt', k = (nw.depotIdxOf dn, vt') ∧
      (nw.depotIdxOf dn = nw.overflowDepot ∨ canDepotSpawn nw s.depotUsage dn vt' = true) := by
  obtain ⟨sd, h1, _, h3⟩ := home_key hT hV h
  obtain ⟨hnodes, hlen⟩ := new_nodes hn
  obtain ⟨dn, g1, g2⟩ := addDepots_head hd hlen
  rw [hnodes, List.head?_eq_getElem?, g1] at h1
  have e : dn = sd := Option.some.inj h1
  subst e
  refine ⟨dn, vt, h3, ?_⟩
  rcases g2 with g | g
  · left; rw [g]; exact hovf
  · right; exact g

theorem spawn_limits {nw : Network} (hovf : OvfNode nw) {s s' : Schedule} {vt : Nat} {path : List Nat} {v : Veh}
    (hu : UsageInv nw s) (hu' : UsageInv nw s') (hl : Limits nw s.depotUsage)
    (h : spawnVehicleForPath nw s vt path = .ok (s', v)) : Limits nw s'.depotUsage := by
  unfold spawnVehicleForPath at h
  inv_do h
  all_goals (try contradiction)
  all_goals (try (cases h))
  all_goals (try (simp only [pure, Except.pure, Except.ok.injEq] at *))
  all_goals (try subst_vars)
  all_goals (
    refine single_limits (v := Veh.real s.counter) hu hu' hl (fun w hw => get_set_ne _ _ _ _ hw)
      (fun w hw => get_set_ne _ _ _ _ hw) (fun k hk => Or.inr ?_)
    exact spawn_home hovf (by assumption) (by assumption)
      (by show assocGet? (assocSet _ _ _) _ = _; rw [assocGet?_assocSet]; simp)
      (by show assocGet? (assocSet _ _ _) _ = _; rw [assocGet?_assocSet]; simp) k hk)

/-! ### first nodes under `remove` and `insert_path` -/

/-- a tour `remove` leaves behind for a real vehicle has at least three nodes -/
theorem remove_some_len {nw : Network} {t t' : Tour} {a b : Nat} {path : List Nat}
    (h : Tour.remove nw t a b = .ok (some t', path)) (hreal : t.isDummy = false) : 3 ≤ t'.nodes.length := by
  unfold Tour.remove at h
  obtain ⟨s, hs, h⟩ := C09.bindR_inv h
  obtain ⟨e, he, h⟩ := C09.bindR_inv h
  obtain ⟨u, hchk, h⟩ := C09.bindR_inv h
  obtain ⟨removed, hrem, h⟩ := C09.bindR_inv h
  obtain ⟨ud, _, h⟩ := C09.bindR_inv h
  obtain ⟨sd', _, h⟩ := C09.bindR_inv h
  obtain ⟨seg, _, h⟩ := C09.bindR_inv h
  obtain ⟨dh0, _, h⟩ := C09.bindR_inv h
  obtain ⟨gapD, _, h⟩ := C09.bindR_inv h
  obtain ⟨cseg, _, h⟩ := C09.bindR_inv h
  obtain ⟨c0, _, h⟩ := C09.bindR_inv h
  obtain ⟨gapC, _, h⟩ := C09.bindR_inv h
  dsimp only at h
  split at h
  · split at h
    · simp only [pure, Except.pure, Except.ok.injEq, Prod.mk.injEq] at h
      cases h.1
    · rename_i hcond
      simp only [pure, Except.pure, Except.ok.injEq, Prod.mk.injEq] at h
      obtain ⟨h3, _⟩ := h
      cases h3
      simp only [hreal, Bool.not_false, Bool.true_and, Bool.or_eq_true, List.isEmpty_iff, decide_eq_true_eq,
        not_or, Nat.not_le] at hcond
      exact hcond.2
  · cases h

/-- removal from a valid real tour: what is left starts where the tour started; and what is taken
    out starts with a start depot only when nothing is left — then it starts with the tour's -/
theorem remove_heads {nw : Network} {t : Tour} {a b : Nat} {ot : Option Tour} {path : List Nat}
    (ht : TourOK nw t) (h : Tour.remove nw t a b = .ok (ot, path)) :
    (∀ t', ot = some t' → t'.nodes.head? = t.nodes.head?) ∧
    (∀ x, path.head? = some x → (nw.node x).isStartDepot = true → ot = none ∧ path.head? = t.nodes.head?) := by
  obtain ⟨s, e, hchk, he, hsp, hsome, _⟩ := remove_split h
  obtain ⟨hlen3, hn1, hn2⟩ := C12.checkSeqRemovable_real hchk ht.real
  obtain ⟨sd, mid, ed, hl, hsd, hed, hmid, hmidnd⟩ := ht.shape
  have hse : s ≤ e := by
    unfold checkSeqRemovable at hchk
    dsimp only at hchk
    repeat (split at hchk; (try cases hchk))
    all_goals omega
  have hpathne : path ≠ [] := by
    intro hp
    have := congrArg List.length hsp
    rw [hp] at this
    simp only [List.length_append, List.length_take, List.length_drop, List.length_nil] at this
    omega
  constructor
  · intro t' ht'
    subst ht'
    have hl3 := remove_some_len h ht.real
    have hn := hsome _ rfl
    rw [hn] at hl3 ⊢
    simp only [List.length_append, List.length_take, List.length_drop] at hl3
    have hs1 : 1 ≤ s := by
      by_cases h0 : s = 0
      · subst h0; omega
      · omega
    rw [List.head?_append]
    have : (List.take s t.nodes).head? = t.nodes.head? := by
      rw [List.head?_take]; simp; omega
    rw [this]
    cases hh : t.nodes.head? with
    | none => rw [hl] at hh; simp at hh
    | some x => rfl
  · intro x hx hxs
    by_cases h0 : s = 0
    · subst h0
      constructor
      · cases ot with
        | none => rfl
        | some t' =>
          have hl3 := remove_some_len h ht.real
          rw [hsome _ rfl] at hl3
          simp only [List.length_append, List.length_take, List.length_drop] at hl3
          omega
      · conv => rhs; rw [hsp]
        simp only [List.take_zero, List.nil_append]
        rw [List.head?_append]
        cases hh : path.head? with
        | none => rw [hh] at hx; cases hx
        | some y => rfl
    · -- the piece lies behind the start depot: no start depot in it
      exfalso
      have hxin : x ∈ path := List.mem_of_mem_head? hx
      have hxt : x ∈ (t.nodes.drop s) := by
        have : t.nodes.drop s = path ++ t.nodes.drop (e + 1) := by
          have h1 : t.nodes = t.nodes.take s ++ (path ++ t.nodes.drop (e + 1)) := by
            rw [← List.append_assoc]; exact hsp
          have h2 := List.take_append_drop s t.nodes
          have := List.append_cancel_left (as := t.nodes.take s) (bs := t.nodes.drop s)
            (cs := path ++ t.nodes.drop (e + 1)) (by rw [h2]; exact h1)
          exact this
        rw [this]; simp [hxin]
      have hxtail : x ∈ mid ++ [ed] := by
        have : t.nodes.drop s = (mid ++ [ed]).drop (s - 1) := by
          rw [hl]
          cases s with
          | zero => exact absurd rfl h0
          | succ k => simp
        rw [this] at hxt
        exact List.mem_of_mem_drop hxt
      rcases List.mem_append.mp hxtail with hm | hm
      · have := hmidnd x hm
        unfold Node.isDepot at this
        simp only [Bool.or_eq_false_iff] at this
        rw [this.1] at hxs; cases hxs
      · simp only [List.mem_singleton] at hm
        subst hm
        unfold Node.isStartDepot at hxs
        unfold Node.isEndDepot at hed
        cases hk : (nw.node x).kind <;> simp [hk] at hxs hed

/-- `insert_path` into a valid real tour: the result starts where the tour started, or with the
    first node of the path -/
theorem insert_head (nw : Network) (hd : C17.DepotTimes nw) (hw : NodesWF' nw) (t t' : Tour) (path : List Nat)
    (rm : Option (List Nat)) (ht : TourOK nw t) (hpne : path ≠ [])
    (h : insertPath nw true t path = .ok (t', rm)) :
    t'.nodes.head? = t.nodes.head? ∨ t'.nodes.head? = path.head? := by
  have hc := C12.timeChain_of_chainB nw hd t.nodes ht.chain
  have hne : 0 < t.nodes.length := by have := shape_len ht.shape; omega
  unfold insertPath at h
  obtain ⟨pl, hpl, h⟩ := C12.bind_ok h
  obtain ⟨c, _, h⟩ := C12.bind_ok h
  simp only [pure, Except.pure, Except.ok.injEq, Prod.mk.injEq] at h
  obtain ⟨ht', hrm⟩ := h
  obtain ⟨_, h2, h3⟩ := C12.plan_inv nw hd hw t path hc hne pl hpl
  rw [ht.real] at h2 h3
  have hnodes : t'.nodes = (insertRef nw false t.nodes path).1 := by rw [← ht']; exact h2
  rw [hnodes]
  unfold insertRef stripForDummy
  simp only [Bool.not_false, ↓reduceIte]
  generalize (if (nw.node (path.headD 0)).isDepot = true then 0 else keepPrefixLen nw t.nodes (path.headD 0)) = k
  generalize (if (nw.node (path.getLastD 0)).isDepot = true then t.nodes.length
    else keepSuffixStart nw t.nodes (path.getLastD 0)) = m
  rw [List.append_assoc, List.head?_append]
  by_cases hk : k = 0
  · subst hk
    right
    simp only [List.take_zero, List.head?_nil, Option.none_or]
    rw [List.head?_append]
    cases hh : path.head? with
    | none => cases path with
      | nil => exact absurd rfl hpne
      | cons a as => simp at hh
    | some y => rfl
  · left
    have : (List.take k t.nodes).head? = t.nodes.head? := by
      rw [List.head?_take]; simp [hk]
    rw [this]
    cases hh : t.nodes.head? with
    | none => cases hl : t.nodes with
      | nil => rw [hl] at hne; simp at hne
      | cons a as => rw [hl] at hh; simp at hh
    | some y => rfl

theorem remove_head_some {nw : Network} {t t' : Tour} {a b : Nat} {path : List Nat}
    (ht : TourOK nw t) (h : Tour.remove nw t a b = .ok (some t', path)) : t'.nodes.head? = t.nodes.head? :=
  (remove_heads ht h).1 _ rfl

theorem delete_limits {nw : Network} {s s' : Schedule} {v : Veh}
    (hu : UsageInv nw s) (hu' : UsageInv nw s') (hl : Limits nw s.depotUsage)
    (h : replaceVehicleByDummy nw s v = .ok s') : Limits nw s'.depotUsage := by
  unfold replaceVehicleByDummy at h
  inv_do h
  all_goals (try contradiction)
  all_goals (try (cases h))
  all_goals (try (simp only [pure, Except.pure, Except.ok.injEq] at *))
  all_goals (try subst_vars)
  all_goals (
    refine single_limits (v := v) hu hu' hl (fun w hw => get_erase_ne _ _ _ hw)
      (fun w hw => get_erase_ne _ _ _ hw) (fun k hk => ?_)
    obtain ⟨_, vt, _, _, h2, _⟩ := hk
    have h2' : assocGet? (assocErase s.vehicles v) v = some vt := h2
    rw [assocGet?_assocErase] at h2'; simp at h2')

theorem rmSeg_limits {nw : Network} {s s' : Schedule} {v : Veh} {a b : Nat}
    (hi : ListInv s) (hd : DummyInv s) (ho : ToursOK nw s.tours)
    (hu : UsageInv nw s) (hu' : UsageInv nw s') (hl : Limits nw s.depotUsage)
    (h : removeSegment nw s v a b = .ok s') : Limits nw s'.depotUsage := by
  unfold removeSegment at h
  inv_do h
  all_goals (try contradiction)
  all_goals (try (cases h))
  all_goals (first
    | exact delete_limits hu hu' hl (by assumption)
    | (simp only [pure, Except.pure, Except.ok.injEq] at *
       subst_vars
       have hv' : s.isVehicle v = true := by simpa using (by assumption : ¬ (!s.isVehicle v) = true)
       have hnd := vehicle_not_dummy hi hd hv'
       have hutc := utc_tours (by assumption : updateTourAndCosts s s.tours _ _ v _ = .ok _)
       simp only [hnd, Bool.false_eq_true, ↓reduceIte] at hutc
       have htour := unwrapO_ok (by assumption : unwrapO (s.tourOf? v) _ = .ok _)
       rw [(tourOf_vehicle hi hv').1] at htour
       have hhead := remove_head_some (ho v _ htour) (by assumption)
       refine single_limits (v := v) hu hu' hl (fun w _ => rfl) ?_ (fun k hk => Or.inl ?_)
       · intro w hw
         show assocGet? _ w = assocGet? s.tours w
         rw [hutc]; exact get_set_ne _ _ _ _ hw
       · refine home_head (V' := s.vehicles) (T' := _) rfl htour ?_ hhead k hk
         show assocGet? _ v = _
         rw [hutc, assocGet?_assocSet]; simp))

/-- the capacity guard of `add_path_to_vehicle_tour` -/
theorem addPath_guard {nw : Network} {s s' : Schedule} {v : Veh} {path : List Nat} {rm : Option (List Nat)}
    (h : addPathToVehicleTour nw s v path = .ok (s', rm)) :
    ∃ first, path[0]? = some first ∧ ((nw.node first).isDepot = true →
      ∃ t oldStart, s.tourOf? v = some t ∧ Transition.startDepotU nw t = .ok oldStart ∧
        (first = oldStart ∨ ∃ vt, s.typeOf? v = some vt ∧ canDepotSpawn nw s.depotUsage first vt = true)) := by
  unfold addPathToVehicleTour at h
  inv_do h
  all_goals (try contradiction)
  all_goals (try (cases h; done))
  all_goals (
    refine ⟨_, C10Fit.idxAt_ok (by assumption), fun hdep => ?_⟩
    first
    | contradiction
    | exact ⟨_, _, unwrapO_ok (by assumption), by assumption,
        Or.inl (by simpa using (by assumption : ¬ ((_ : Nat) != _) = true))⟩
    | exact ⟨_, _, unwrapO_ok (by assumption), by assumption,
        Or.inr ⟨_, unwrapO_ok (by assumption), by simpa using (by assumption : ¬ (!canDepotSpawn _ _ _ _) = true)⟩⟩)

theorem addPath_frame {nw : Network} {s s' : Schedule} {v : Veh} {path : List Nat} {rm : Option (List Nat)}
    (h : addPathToVehicleTour nw s v path = .ok (s', rm)) :
    ∃ old newTour removed, s'.vehicles = s.vehicles ∧ s'.tours = assocSet s.tours v newTour ∧
      assocGet? s.tours v = some old ∧ Tour.insertPath nw true old path = .ok (newTour, removed) := by
  unfold addPathToVehicleTour at h
  inv_do h
  all_goals (try contradiction)
  all_goals (try (cases h))
  all_goals (try (simp only [pure, Except.pure, Except.ok.injEq] at *))
  all_goals (try subst_vars)
  all_goals (first
    | exact ⟨_, _, _, rfl, rfl, unwrapO_ok (by assumption), by assumption⟩
    | exact ⟨_, _, _, trivial, rfl, unwrapO_ok (by assumption), by assumption⟩)

theorem addPath_limits {nw : Network} (hn : NetHyp nw) {s s' : Schedule} {v : Veh} {path : List Nat}
    {rm : Option (List Nat)} (ho : ToursOK nw s.tours)
    (hu : UsageInv nw s) (hu' : UsageInv nw s') (hl : Limits nw s.depotUsage)
    (h : addPathToVehicleTour nw s v path = .ok (s', rm)) : Limits nw s'.depotUsage := by
  obtain ⟨first, hfirst, hguard⟩ := addPath_guard h
  obtain ⟨old, newTour, removed, hV, hT, hold, hins⟩ := addPath_frame h
  have hpne : path ≠ [] := by intro e; rw [e] at hfirst; simp at hfirst
  unfold UsageInv at hu'
  rw [hV, hT] at hu'
  refine single_limits (v := v) hu hu' hl (fun w _ => rfl) (fun w hw => get_set_ne _ _ _ _ hw) (fun k hk => ?_)
  have hnew : assocGet? (assocSet s.tours v newTour) v = some newTour := by rw [assocGet?_assocSet]; simp
  have hk' : Home nw s.vehicles (assocSet s.tours v newTour) true v k := hk
  obtain ⟨vt, hvt⟩ : ∃ vt, assocGet? s.vehicles v = some vt := by
    obtain ⟨_, vt, _, _, hvt, _, _⟩ := hk
    exact ⟨vt, hvt⟩
  obtain ⟨sd, h1, h2, h3⟩ := home_key hnew hvt hk'
  rcases insert_head nw hn.dt hn.wf old newTour path removed (ho v old hold) hpne hins with hh | hh
  · exact Or.inl (home_head rfl hold hnew hh k hk')
  · -- the path starts with a start depot
    have hph : path.head? = some first := by rw [List.head?_eq_getElem?]; exact hfirst
    rw [hph] at hh
    rw [hh] at h1
    have e : first = sd := Option.some.inj h1
    subst e
    have hdep : (nw.node first).isDepot = true := by unfold Node.isDepot; simp [h2]
    obtain ⟨t, oldStart, ht, hos, hor⟩ := hguard hdep
    have ht' : t = old := by
      unfold Schedule.tourOf? at ht
      rw [hold] at ht
      simpa using ht.symm
    subst ht'
    rcases hor with e | ⟨vt', hvt', hc⟩
    · left
      subst e
      have := (startU_iff.mp hos).1
      exact home_head rfl hold hnew (by rw [hh, this]) k hk'
    · right
      have : vt' = vt := by
        have h4 : assocGet? s.vehicles v = some vt' := hvt'
        rw [hvt] at h4; exact (Option.some.inj h4).symm
      subst this
      exact ⟨first, vt', h3, Or.inr hc⟩

theorem dummySpawn_limits {nw : Network} (hovf : OvfNode nw) {s s' : Schedule} {d : Veh} {vt : Nat} {v : Veh}
    (hu : UsageInv nw s) (hu' : UsageInv nw s') (hl : Limits nw s.depotUsage)
    (h : spawnToReplaceDummy nw s d vt = .ok (s', v)) : Limits nw s'.depotUsage := by
  unfold spawnToReplaceDummy at h
  inv_do h
  all_goals (try contradiction)
  all_goals (try (cases h))
  all_goals (
    rename_i s1 hdel
    have hcore := deleteDummy_core hdel
    have hV : s1.vehicles = s.vehicles := congrArg Core.vehicles hcore
    have hT : s1.tours = s.tours := congrArg Core.tours hcore
    have hU := deleteDummy_usage_same hdel
    refine spawn_limits hovf ?_ hu' ?_ h
    · unfold UsageInv; rw [hV, hT, hU]; exact hu
    · rw [hU]; exact hl)

/-! ### reassignments: where provider and receiver start afterwards -/

theorem remove_path_head {nw : Network} {t : Tour} {a b : Nat} {ot : Option Tour} {path : List Nat}
    (h : Tour.remove nw t a b = .ok (ot, path)) : path.head? = some a := by
  obtain ⟨s, e, hs, _, hse, hel, hpath, _⟩ := remove_positions h
  have hget := positionOf_get hs
  obtain ⟨hlt, hx⟩ := List.getElem?_eq_some_iff.mp hget
  rw [hpath, List.head?_take, if_neg (by omega), List.head?_drop]
  exact hget

theorem tourOK_head {nw : Network} {t : Tour} (ht : TourOK nw t) :
    ∃ sd, t.nodes.head? = some sd ∧ (nw.node sd).isStartDepot = true := by
  obtain ⟨sd, mid, ed, hl, hsd, _⟩ := ht.shape
  exact ⟨sd, by rw [hl]; rfl, hsd⟩

/-- one hand-over from a valid real tour to a valid real tour -/
theorem step_heads_real {nw : Network} (hn : NetHyp nw) {pc r r' : Tour} {provCand : Option Tour}
    {pathIns : List Nat} {rm : Option (List Nat)} {start segEnd : Nat}
    (hpc : TourOK nw pc) (hr : TourOK nw r) (hr' : TourOK nw r')
    (hrem : Tour.remove nw pc start segEnd = .ok (provCand, pathIns))
    (hins : insertPath nw true r pathIns = .ok (r', rm)) :
    (∀ t', provCand = some t' → t'.nodes.head? = pc.nodes.head?) ∧
    (r'.nodes.head? = r.nodes.head? ∨
      (provCand = none ∧ r'.nodes.head? = pc.nodes.head? ∧ pc.nodes.head? = some start)) := by
  obtain ⟨g1, g2⟩ := remove_heads hpc hrem
  refine ⟨g1, ?_⟩
  have hph := remove_path_head hrem
  have hpne : pathIns ≠ [] := by intro e; rw [e] at hph; cases hph
  rcases insert_head nw hn.dt hn.wf r r' pathIns rm hr hpne hins with h | h
  · exact Or.inl h
  · right
    obtain ⟨sd, hsd, hsdD⟩ := tourOK_head hr'
    rw [h, hph] at hsd
    have e : start = sd := Option.some.inj hsd
    subst e
    obtain ⟨k1, k2⟩ := g2 start hph hsdD
    exact ⟨k1, by rw [h, k2], by rw [← k2]; exact hph⟩

/-- one hand-over from a valid dummy tour to a valid real tour -/
theorem step_heads_dummy {nw : Network} (hn : NetHyp nw) {pc r r' : Tour} {provCand : Option Tour}
    {pathIns : List Nat} {rm : Option (List Nat)} {start segEnd : Nat}
    (hpc : DummyOK nw pc) (hr : TourOK nw r) (hr' : TourOK nw r')
    (hrem : Tour.remove nw pc start segEnd = .ok (provCand, pathIns))
    (hins : insertPath nw true r pathIns = .ok (r', rm)) :
    r'.nodes.head? = r.nodes.head? := by
  have hph := remove_path_head hrem
  have hpne : pathIns ≠ [] := by intro e; rw [e] at hph; cases hph
  rcases insert_head nw hn.dt hn.wf r r' pathIns rm hr hpne hins with h | h
  · exact h
  · exfalso
    obtain ⟨sd, hsd, hsdD⟩ := tourOK_head hr'
    rw [h, hph] at hsd
    have e : start = sd := Option.some.inj hsd
    subst e
    obtain ⟨s0, e0, _, _, hsp, _, _⟩ := remove_split hrem
    have hin : start ∈ pc.nodes := by
      rw [hsp]; simp [List.mem_of_mem_head? hph]
    have := hpc.acts start hin
    unfold Node.isDepot at this
    simp only [Bool.or_eq_false_iff] at this
    rw [this.1] at hsdD; cases hsdD

/-- the loop of `fit_path_into_tour`, as an invariant rule over (provider, receiver, remaining path) -/
theorem fitLoop_rule (nw : Network) (chk : Bool) (I : Option Tour → Tour → Option (List Nat) → Prop)
    (hskip : ∀ prov recv path k, I prov recv (some path) → I prov recv (pathTrusted nw (path.drop (k + 1))))
    (hstep : ∀ pc r path endPos start segEnd provCand pathIns r' rm, I (some pc) r (some path) →
      path[0]? = some start → path[endPos]? = some segEnd →
      Tour.remove nw pc start segEnd = .ok (provCand, pathIns) →
      ¬(chk && !(Tour.isChain nw pathIns)) = true →
      Tour.conflict nw true r start segEnd = .ok none → insertPath nw true r pathIns = .ok (r', rm) →
      I provCand r' (pathTrusted nw (path.drop (endPos + 1)))) :
    ∀ (fuel : Nat) (prov : Option Tour) (recv : Tour) (rem : Option (List Nat)) (moved : List Nat)
      (np : Option Tour) (nr : Tour) (mv : List Nat),
      fitLoop nw chk fuel prov recv rem moved = .ok (np, nr, mv) → I prov recv rem → ∃ rem', I np nr rem'
  | 0, prov, recv, rem, moved, np, nr, mv, h, hI => by
    unfold fitLoop at h
    simp only [pure, Except.pure, Except.ok.injEq, Prod.mk.injEq] at h
    obtain ⟨h1, h2, _⟩ := h
    subst h1; subst h2
    exact ⟨rem, hI⟩
  | fuel + 1, prov, recv, none, moved, np, nr, mv, h, hI => by
    unfold fitLoop at h
    simp only [pure, Except.pure, Except.ok.injEq, Prod.mk.injEq] at h
    obtain ⟨h1, h2, _⟩ := h
    subst h1; subst h2
    exact ⟨none, hI⟩
  | fuel + 1, prov, recv, some path, moved, np, nr, mv, h, hI => by
    have ih := fitLoop_rule nw chk I hskip hstep fuel
    obtain ⟨start, endPos, segEnd, pc, hstart, hend, hpc, hcases⟩ := fitLoop_round h
    rcases hcases with hsk | ⟨provCand, pathIns, recv', rm, hrem, hchk, hconf, hins, hrec⟩
    · exact ih prov recv _ moved np nr mv hsk (hskip prov recv path endPos hI)
    · subst hpc
      exact ih provCand recv' _ _ np nr mv hrec
        (hstep pc recv path endPos start segEnd provCand pathIns recv' rm hI hstart hend hrem hchk hconf hins)

theorem slice_head {l : List Nat} (hnd : l.Nodup) {s n x : Nat} (hx : l.head? = some x)
    (hin : x ∈ (l.drop s).take n) : ((l.drop s).take n).head? = some x := by
  obtain ⟨i, hi⟩ := List.mem_iff_getElem?.mp hin
  rw [List.getElem?_take] at hi
  split at hi
  · rename_i hlt
    rw [List.getElem?_drop] at hi
    have h0 : l[0]? = some x := by rw [← List.head?_eq_getElem?]; exact hx
    have := nodup_idx_inj hnd h0 hi
    have hs : s = 0 := by omega
    subst hs
    rw [List.head?_take, if_neg (by omega)]
    simpa using hx
  · cases hi

theorem drop_of_trusted {nw : Network} {path0 path p' : List Nat} {k0 k : Nat} (hp : path = path0.drop k0)
    (h : pathTrusted nw (path.drop (k + 1)) = some p') : ∃ k', p' = path0.drop k' := by
  have := pathTrusted_some h
  subst this
  exact ⟨k0 + (k + 1), by rw [hp, List.drop_drop]⟩

/-- provider and receiver of `fit_reassign` afterwards: a real provider that still exists starts where
    it did; a real receiver starts where it did — or, when the provider's whole tour with its start
    depot went over, where the provider started (the moved path then begins with that depot) -/
theorem fit_heads {nw : Network} (hn : NetHyp nw) {s : Schedule} {p r : Veh} {a b : Nat} {pt rt : Tour}
    {path moved : List Nat} {newProv : Option Tour} {newRecv : Tour}
    (hi : ListInv s) (hd : DummyInv s) (ho : ToursOK nw s.tours) (hdo : DummiesOK nw s.dummyTours)
    (hpt : s.tourOf? p = some pt) (hrt : s.tourOf? r = some rt)
    (hsub : Tour.subPath nw pt a b = .ok path)
    (hloop : fitLoop nw (s.isDummy p && s.isVehicle r) (path.length + 1) (some pt) rt (some path) []
      = .ok (newProv, newRecv, moved)) :
    (s.isDummy p = false → ∀ t, newProv = some t → t.nodes.head? = pt.nodes.head?) ∧
    (s.isVehicle r = true → newRecv.nodes.head? = rt.nodes.head? ∨
      (newProv = none ∧ s.isDummy p = false ∧ newRecv.nodes.head? = pt.nodes.head? ∧
        path.head? = pt.nodes.head?)) := by
  obtain ⟨s0, e0, h1, h2, hpath, _, _⟩ := subPath_sublist hsub
  by_cases hpd : s.isDummy p = true
  · refine ⟨fun h => bool_contra hpd h, fun hrv => ?_⟩
    have hptd := hdo p pt (tourOf_dummy hi hd hpt hpd)
    have hrnd := vehicle_not_dummy hi hd hrv
    have hrtok := ho r rt (tourOf_not_dummy hrt hrnd)
    have hchk : (s.isDummy p && s.isVehicle r) = true := by simp [hpd, hrv]
    rw [hchk] at hloop
    obtain ⟨_, _, g2, g3⟩ := fitLoop_rule nw true
      (fun prov recv _ => (∀ pc, prov = some pc → DummyOK nw pc) ∧ TourOK nw recv ∧ recv.nodes.head? = rt.nodes.head?)
      (fun _ _ _ _ hI => hI)
      (fun pc r0 path' endPos start segEnd provCand pathIns r' rm hI _ _ hrem hck _ hins => by
        obtain ⟨i1, i2, i3⟩ := hI
        have hpcd := i1 pc rfl
        have hfacts := (provPred_dummy hn).facts pc start segEnd provCand pathIns hpcd hrem
        have hpok := pathOK_of_facts hfacts hck (Or.inr rfl)
        have hr' := insert_tourOK nw hn.dt hn.wf r0 r' pathIns rm i2 hpok hins
        refine ⟨fun t' ht' => ?_, hr', ?_⟩
        · subst ht'; exact (provPred_dummy hn).rem pc start segEnd t' pathIns hpcd hrem
        · rw [step_heads_dummy hn hpcd i2 hr' hrem hins]; exact i3)
      _ _ _ _ _ _ _ _ hloop ⟨fun pc e => by cases e; exact hptd, hrtok, rfl⟩
    exact Or.inl g3
  · have hpd' : s.isDummy p = false := by simpa using hpd
    have hptok := ho p pt (tourOf_not_dummy hpt hpd')
    have hnd := tourOK_nodup hn.dt hn.wf hn.ap hptok
    by_cases hrv : s.isVehicle r = true
    · have hrnd := vehicle_not_dummy hi hd hrv
      have hrtok := ho r rt (tourOf_not_dummy hrt hrnd)
      have hchk : (s.isDummy p && s.isVehicle r) = false := by simp [hpd']
      rw [hchk] at hloop
      obtain ⟨_, g1, g2, _, g4⟩ := fitLoop_rule nw false
        (fun prov recv rem => (∀ pc, prov = some pc → TourOK nw pc ∧ pc.nodes.head? = pt.nodes.head?) ∧
          TourOK nw recv ∧ (∀ pa, rem = some pa → ∃ k, pa = path.drop k) ∧
          (recv.nodes.head? = rt.nodes.head? ∨
            (prov = none ∧ recv.nodes.head? = pt.nodes.head? ∧ ∃ x, pt.nodes.head? = some x ∧ x ∈ path)))
        (fun prov recv path' k hI => by
          obtain ⟨i1, i2, i3, i4⟩ := hI
          refine ⟨i1, i2, fun pa hpa => ?_, i4⟩
          obtain ⟨k0, hk0⟩ := i3 path' rfl
          exact drop_of_trusted hk0 hpa)
        (fun pc r0 path' endPos start segEnd provCand pathIns r' rm hI hstart _ hrem hck _ hins => by
          obtain ⟨i1, i2, i3, i4⟩ := hI
          obtain ⟨hpcok, hpch⟩ := i1 pc rfl
          have hfacts := (provPred_real hn).facts pc start segEnd provCand pathIns hpcok hrem
          have hpok := pathOK_of_facts hfacts hck (Or.inl rfl)
          have hr' := insert_tourOK nw hn.dt hn.wf r0 r' pathIns rm i2 hpok hins
          obtain ⟨s1, s2⟩ := step_heads_real hn hpcok i2 hr' hrem hins
          refine ⟨fun t' ht' => ?_, hr', fun pa hpa => ?_, ?_⟩
          · subst ht'
            exact ⟨remove_tourOK nw pc t' start segEnd pathIns hpcok hrem, by rw [s1 t' rfl, hpch]⟩
          · obtain ⟨k0, hk0⟩ := i3 path' rfl
            exact drop_of_trusted hk0 hpa
          · rcases s2 with e | ⟨e1, e2, e3⟩
            · rcases i4 with i | ⟨i, _⟩
              · exact Or.inl (by rw [e, i])
              · cases i
            · right
              refine ⟨e1, by rw [e2, hpch], start, by rw [← hpch]; exact e3, ?_⟩
              obtain ⟨k0, hk0⟩ := i3 path' rfl
              have : start ∈ path' := List.mem_of_getElem? hstart
              rw [hk0] at this
              exact List.mem_of_mem_drop this)
        _ _ _ _ _ _ _ _ hloop ⟨fun pc e => by cases e; exact ⟨hptok, rfl⟩, hrtok, fun pa e => by cases e; exact ⟨0, rfl⟩, Or.inl rfl⟩
      refine ⟨fun _ t ht => (g1 t ht).2, fun _ => ?_⟩
      rcases g4 with g | ⟨e1, e2, x, hx, hxin⟩
      · exact Or.inl g
      · right
        refine ⟨e1, hpd', e2, ?_⟩
        rw [hpath] at hxin ⊢
        rw [slice_head hnd hx hxin, hx]
    · -- dummy receiver: only the provider matters
      have hrd : s.isDummy r = true := by
        cases hrd : s.isDummy r with
        | true => rfl
        | false => exact absurd (isVehicle_of_tour hi (tourOf_not_dummy hrt hrd)) hrv
      have hrtd := hdo r rt (tourOf_dummy hi hd hrt hrd)
      have hP : ProvPred nw true (fun t => TourOK nw t ∧ t.nodes.head? = pt.nodes.head?) :=
        { nodup := fun t ht => (provPred_real hn).nodup t ht.1
          rem := fun t a b t' path ht h =>
            ⟨(provPred_real hn).rem t a b t' path ht.1 h, by rw [remove_head_some ht.1 h]; exact ht.2⟩
          facts := fun t a b ot path ht h => (provPred_real hn).facts t a b ot path ht.1 h
          noneOcc := fun t a b path ht h => (provPred_real hn).noneOcc t a b path ht.1 h }
      have hcontig : Contig (some pt) (some path) := by
        intro path' pc' e1 e2
        cases e1; cases e2
        exact ⟨pt.nodes.take s0, pt.nodes.drop (e0 + 1), by rw [hpath]; exact take_drop_split pt.nodes s0 (e0 + 1) h1⟩
      obtain ⟨r1, _, _⟩ := fitLoop_inv nw _ true _ (QDummy nw) hP
        (qDummy_step hn) _ _ _ _ _ _ _ _ hloop
        (fun pc e => by cases e; exact ⟨hptok, rfl⟩) hcontig hrtd
      exact ⟨fun _ t ht => (r1 t ht).2, fun h => absurd h hrv⟩

/-- the guard of finding F10 in `check_receiver_type_compatibility`: between different types a path that
    begins with a start depot other than the receiver's is accepted only if the receiver's type has room there -/
theorem compat_guard {nw : Network} {s : Schedule} {p r : Veh} {a b : Nat}
    (h : checkReceiverTypeCompat nw s p r a b = .ok true) {rvt pvt : Nat}
    (hr : s.typeOf? r = some rvt) (hp : s.typeOf? p = some pvt) (hne : pvt ≠ rvt)
    {pt rt : Tour} (hpt : s.tourOf? p = some pt) (hrt : s.tourOf? r = some rt) :
    ∃ path0, Tour.subPath nw pt a b = .ok path0 ∧ ∀ first, path0.head? = some first →
      (nw.node first).isStartDepot = true → rt.nodes.head? ≠ some first →
      cnt s.depotUsage (nw.depotIdxOf first) rvt < nw.capacityOf (nw.depotIdxOf first) rvt := by
  unfold checkReceiverTypeCompat at h
  rw [hr] at h
  dsimp only at h
  have hf : (s.typeOf? p == some rvt) = false := by rw [hp]; simp [hne]
  rw [hf] at h
  simp only [Bool.false_eq_true, ↓reduceIte] at h
  obtain ⟨pt', hpt', h⟩ := bind_ok h
  have := unwrapO_ok hpt'
  rw [hpt] at this; cases this
  cases hsub : Tour.subPath nw pt a b with
  | error e =>
    rw [hsub] at h
    cases e <;> simp [bind, Except.bind] at h
  | ok path0 =>
  rw [hsub] at h
  simp only [pure_bind] at h
  refine ⟨path0, rfl, fun first hfirst hsd hneq => ?_⟩
  split at h
  · simp only [pure, Except.pure, Except.ok.injEq] at h; cases h
  · obtain ⟨f, hf0, h⟩ := bind_ok h
    have hf1 := C10Fit.idxAt_ok hf0
    rw [← List.head?_eq_getElem?, hfirst] at hf1
    have e : first = f := Option.some.inj hf1
    subst e
    simp only [hsd, ↓reduceIte] at h
    obtain ⟨rt', hrt', h⟩ := bind_ok h
    have := unwrapO_ok hrt'
    rw [hrt] at this; cases this
    have hfin : (if spawnedCount s.depotUsage (nw.depotIdxOf first) rvt ≥ nw.capacityOf (nw.depotIdxOf first) rvt
        then (pure false : R Bool) else pure true) = .ok true →
        cnt s.depotUsage (nw.depotIdxOf first) rvt < nw.capacityOf (nw.depotIdxOf first) rvt := by
      intro hh
      by_cases hc : spawnedCount s.depotUsage (nw.depotIdxOf first) rvt ≥ nw.capacityOf (nw.depotIdxOf first) rvt
      · rw [if_pos hc] at hh
        simp only [pure, Except.pure, Except.ok.injEq] at hh
        cases hh
      · rw [cnt_eq] at hc
        omega
    cases hd : Tour.startDepot nw rt with
    | error e =>
      rw [hd] at h
      simp only [Bool.not_false, ↓reduceIte] at h
      exact hfin h
    | ok d =>
      rw [hd] at h
      simp only at h
      by_cases e : d = first
      · exfalso
        apply hneq
        subst e
        have := startU_iff.mp (show Transition.startDepotU nw rt = .ok d by
          unfold Transition.startDepotU; rw [hd]; rfl)
        exact this.1
      · have : (d == first) = false := by simpa using e
        simp only [this, Bool.not_false, ↓reduceIte] at h
        exact hfin h

/-- provider and receiver of `override_reassign` afterwards (same statement as `fit_heads`) -/
theorem override_heads {nw : Network} (hn : NetHyp nw) {s : Schedule} {p r : Veh} {a b : Nat} {pt rt : Tour}
    {shrunk : Option Tour} {path : List Nat} {ins : Tour × Option (List Nat)}
    (hi : ListInv s) (hd : DummyInv s) (ho : ToursOK nw s.tours) (hdo : DummiesOK nw s.dummyTours)
    (hpt : s.tourOf? p = some pt) (hrt : s.tourOf? r = some rt)
    (hrem : Tour.remove nw pt a b = .ok (shrunk, path))
    (hchk : ¬(s.isDummy p && s.isVehicle r && !(Tour.isChain nw path)) = true)
    (hins : insertPath nw true rt path = .ok ins) :
    (s.isDummy p = false → ∀ t, shrunk = some t → t.nodes.head? = pt.nodes.head?) ∧
    (s.isVehicle r = true → ins.1.nodes.head? = rt.nodes.head? ∨
      (shrunk = none ∧ s.isDummy p = false ∧ ins.1.nodes.head? = pt.nodes.head? ∧
        path.head? = pt.nodes.head?)) := by
  obtain ⟨newRecv, replaced⟩ := ins
  by_cases hpd : s.isDummy p = true
  · refine ⟨fun h => bool_contra hpd h, fun hrv => ?_⟩
    have hptd := hdo p pt (tourOf_dummy hi hd hpt hpd)
    have hrnd := vehicle_not_dummy hi hd hrv
    have hrtok := ho r rt (tourOf_not_dummy hrt hrnd)
    have hfacts := (provPred_dummy hn).facts pt a b shrunk path hptd hrem
    have hck : ¬(true && !(Tour.isChain nw path)) = true := by simpa [hpd, hrv] using hchk
    have hpok := pathOK_of_facts hfacts hck (Or.inr rfl)
    have hr' := insert_tourOK nw hn.dt hn.wf rt newRecv path replaced hrtok hpok hins
    exact Or.inl (step_heads_dummy hn hptd hrtok hr' hrem hins)
  · have hpd' : s.isDummy p = false := by simpa using hpd
    have hptok := ho p pt (tourOf_not_dummy hpt hpd')
    refine ⟨fun _ t ht => by subst ht; exact remove_head_some hptok hrem, fun hrv => ?_⟩
    have hrnd := vehicle_not_dummy hi hd hrv
    have hrtok := ho r rt (tourOf_not_dummy hrt hrnd)
    have hfacts := (provPred_real hn).facts pt a b shrunk path hptok hrem
    have hck : ¬(false && !(Tour.isChain nw path)) = true := by simp
    have hpok := pathOK_of_facts hfacts hck (Or.inl rfl)
    have hr' := insert_tourOK nw hn.dt hn.wf rt newRecv path replaced hrtok hpok hins
    obtain ⟨_, s2⟩ := step_heads_real hn hptok hrtok hr' hrem hins
    rcases s2 with e | ⟨e1, e2, e3⟩
    · exact Or.inl e
    · exact Or.inr ⟨e1, hpd', e2, by rw [remove_path_head hrem, e3]⟩

/-! ### `update_tours`: the vehicle and tour maps afterwards -/

/-- the vehicle map after the provider's part of `update_tours` -/
def provVehicles (s : Schedule) (p : Veh) (newProv : Option Tour) : List (Veh × Nat) :=
  match newProv with
  | some _ => s.vehicles
  | none => if s.isDummy p then s.vehicles else if s.isVehicle p then assocErase s.vehicles p else s.vehicles

theorem updateTours_vehicles {nw : Network} {s : Schedule} {w' : Work} {p r : Veh} {newProv : Option Tour}
    {newRecv : Tour} {moved : List Nat}
    (h : updateTours nw s (Work.ofSchedule s) (some p) newProv r newRecv moved = .ok w') :
    w'.vehicles = provVehicles s p newProv := by
  unfold updateTours at h
  dsimp only at h
  inv_do h
  all_goals (try contradiction)
  all_goals (try (cases h))
  all_goals (try (simp only [pure, Except.pure, Except.ok.injEq] at *))
  all_goals (try subst_vars)
  all_goals (simp_all [provVehicles, Work.ofSchedule])

theorem provVehicles_ne (s : Schedule) (p : Veh) (np : Option Tour) (w : Veh) (hw : w ≠ p) :
    assocGet? (provVehicles s p np) w = assocGet? s.vehicles w := by
  unfold provVehicles
  cases np with
  | some t => rfl
  | none =>
    dsimp only
    split
    · rfl
    · split
      · exact get_erase_ne _ _ _ hw
      · rfl

theorem provTours_ne (s : Schedule) (p : Veh) (np : Option Tour) (w : Veh) (hw : w ≠ p) :
    assocGet? (provTours s p np) w = assocGet? s.tours w := by
  unfold provTours
  split
  · rfl
  · cases np with
    | some t => exact get_set_ne _ _ _ _ hw
    | none =>
      dsimp only
      split
      · exact get_erase_ne _ _ _ hw
      · rfl

/-- the type keys of the per-type id lists are vehicle types of the network -/
def IdsIn (nw : Network) (s : Schedule) : Prop :=
  ∀ vt, (assocGet? s.idsByType vt).isSome = true → vt < nw.vtypes.size

/-- a reassignment keeps the depot limits, given where provider and receiver start afterwards -/
theorem reassign_limits {nw : Network} {s : Schedule} {w' : Work} {p r : Veh} {newProv : Option Tour}
    {newRecv : Tour} {moved path0 : List Nat} {pt rt : Tour}
    (hi : ListInv s) (hd : DummyInv s) (ho : ToursOK nw s.tours) (hK : IdsIn nw s)
    (hu : UsageInv nw s) (hu' : UsageOK nw w'.vehicles w'.tours w'.usage) (hl : Limits nw s.depotUsage) (hne : p ≠ r)
    (hpt : s.tourOf? p = some pt) (hrt : s.tourOf? r = some rt)
    (hA : s.isDummy p = false → ∀ t, newProv = some t → t.nodes.head? = pt.nodes.head?)
    (hB : s.isVehicle r = true → newRecv.nodes.head? = rt.nodes.head? ∨
      (newProv = none ∧ s.isDummy p = false ∧ newRecv.nodes.head? = pt.nodes.head? ∧ path0.head? = pt.nodes.head?))
    (hC : ∀ rvt pvt, s.typeOf? r = some rvt → s.typeOf? p = some pvt → pvt ≠ rvt →
      ∀ first, path0.head? = some first → (nw.node first).isStartDepot = true → rt.nodes.head? ≠ some first →
      cnt s.depotUsage (nw.depotIdxOf first) rvt < nw.capacityOf (nw.depotIdxOf first) rvt)
    (hut : updateTours nw s (Work.ofSchedule s) (some p) newProv r newRecv moved = .ok w') :
    Limits nw w'.usage := by
  have hT := (updateTours_spec hut).1
  have hV := updateTours_vehicles hut
  have hrp : r ≠ p := fun e => hne e.symm
  rw [hV, hT] at hu'
  have hTget : ∀ w, w ≠ r → assocGet? (if s.isDummy r then provTours s p newProv
      else assocSet (provTours s p newProv) r newRecv) w = assocGet? (provTours s p newProv) w := by
    intro w hw
    split
    · rfl
    · exact get_set_ne _ _ _ _ hw
  refine pair_limits (p := p) (r := r) hu hu' hl hne (fun w h1 _ => provVehicles_ne s p newProv w h1)
    (fun w h1 h2 => by rw [hTget w h2]; exact provTours_ne s p newProv w h1) ?_ ?_
  · -- the provider
    intro k hk
    obtain ⟨t', vt', dn', g1, g2, g3, g4⟩ := hk
    rw [hTget p hne] at g1
    by_cases hpd : s.isDummy p = true
    · exfalso
      have hnv := dummy_not_vehicle hi hd hpd
      unfold provVehicles at g2
      cases newProv with
      | some t =>
        dsimp only at g2
        unfold Schedule.isVehicle at hnv; rw [g2] at hnv; cases hnv
      | none =>
        simp only [hpd, ↓reduceIte] at g2
        unfold Schedule.isVehicle at hnv; rw [g2] at hnv; cases hnv
    · have hpd' : s.isDummy p = false := by simpa using hpd
      have hptget := tourOf_not_dummy hpt hpd'
      have hpv := isVehicle_of_tour hi hptget
      cases newProv with
      | some t =>
        have g1' : assocGet? (provTours s p (some t)) p = some t := by
          unfold provTours; simp only [hpd', Bool.false_eq_true, ↓reduceIte]; rw [assocGet?_assocSet]; simp
        rw [g1'] at g1; cases g1
        refine home_head (V' := s.vehicles) (T' := assocSet s.tours p t') rfl hptget (by rw [assocGet?_assocSet]; simp)
          (hA hpd' t' rfl) k ⟨t', vt', dn', by rw [assocGet?_assocSet]; simp, g2, g3, g4⟩
      | none =>
        exfalso
        unfold provVehicles at g2
        simp only [hpd', hpv, Bool.false_eq_true, ↓reduceIte] at g2
        rw [assocGet?_assocErase] at g2; simp at g2
  · -- the receiver
    intro k hk
    have hk0 := hk
    obtain ⟨t', vt', dn', g1, g2, g3, g4⟩ := hk
    rw [provVehicles_ne s p newProv r hrp] at g2
    by_cases hrd : s.isDummy r = true
    · exfalso
      have hnv := dummy_not_vehicle hi hd hrd
      unfold Schedule.isVehicle at hnv; rw [g2] at hnv; cases hnv
    · have hrd' : s.isDummy r = false := by simpa using hrd
      have hrtget := tourOf_not_dummy hrt hrd'
      have hrv := isVehicle_of_tour hi hrtget
      simp only [hrd', Bool.false_eq_true, ↓reduceIte] at g1 hk0
      rw [assocGet?_assocSet] at g1
      simp only [↓reduceIte, Option.some.injEq] at g1
      subst g1
      have hnewget : assocGet? (assocSet (provTours s p newProv) r newRecv) r = some newRecv := by
        rw [assocGet?_assocSet]; simp
      have hVr : assocGet? (provVehicles s p newProv) r = assocGet? s.vehicles r := provVehicles_ne s p newProv r hrp
      have hleft : newRecv.nodes.head? = rt.nodes.head? → Home nw s.vehicles s.tours true r k :=
        fun hh => home_head hVr hrtget hnewget hh k hk0
      rcases hB hrv with hh | ⟨e1, e2, e3, e4⟩
      · exact Or.inl (hleft hh)
      · by_cases hsame : rt.nodes.head? = pt.nodes.head?
        · exact Or.inl (hleft (by rw [e3, hsame]))
        · right
          subst e1
          have hptget := tourOf_not_dummy hpt e2
          have hpv := isVehicle_of_tour hi hptget
          have hptok := ho p pt hptget
          obtain ⟨sd, hsd, hsdD⟩ := tourOK_head hptok
          obtain ⟨pvt, hpvt⟩ : ∃ pvt, assocGet? s.vehicles p = some pvt := by
            unfold Schedule.isVehicle at hpv
            exact Option.isSome_iff_exists.mp hpv
          constructor
          · intro k' hk'
            obtain ⟨_, _, _, _, q2, _⟩ := hk'
            unfold provVehicles at q2
            simp only [e2, hpv, Bool.false_eq_true, ↓reduceIte] at q2
            rw [assocGet?_assocErase] at q2; simp at q2
          · obtain ⟨sd', q1, _, q3⟩ := home_key hnewget (by rw [hVr]; exact g2) hk0
            rw [e3, hsd] at q1
            have e : sd = sd' := Option.some.inj q1
            subst e
            refine ⟨nw.depotIdxOf sd, pvt, vt', q3, ⟨pt, pvt, sd, hptget, hpvt, ?_, rfl⟩, ?_, ?_⟩
            · unfold depotU; simp only [↓reduceIte]; exact startU_iff.mpr ⟨hsd, hsdD⟩
            · obtain ⟨l, hl, _⟩ := hi.complete p pvt hpvt
              exact hK pvt (by show (assocGet? s.idsByType pvt).isSome = true; rw [show assocGet? s.idsByType pvt = some l from hl]; rfl)
            · by_cases ety : pvt = vt'
              · exact Or.inl ety
              · right
                exact hC vt' pvt g2 hpvt ety sd (by rw [e4, hsd]) hsdD (by rw [← hsd]; exact hsame)

theorem compat_hC {nw : Network} {s : Schedule} {p r : Veh} {a b : Nat} {c : Bool} {pt rt : Tour} {path : List Nat}
    (hcompat : checkReceiverTypeCompat nw s p r a b = .ok c) (hc : ¬ (!c) = true)
    (hpt : s.tourOf? p = some pt) (hrt : s.tourOf? r = some rt)
    (hpath : ∀ path0, Tour.subPath nw pt a b = .ok path0 → path0.head? = path.head?) :
    ∀ rvt pvt, s.typeOf? r = some rvt → s.typeOf? p = some pvt → pvt ≠ rvt →
      ∀ first, path.head? = some first → (nw.node first).isStartDepot = true → rt.nodes.head? ≠ some first →
      cnt s.depotUsage (nw.depotIdxOf first) rvt < nw.capacityOf (nw.depotIdxOf first) rvt := by
  intro rvt pvt hr hp hne first hfirst hsd hneq
  have hct : c = true := by simpa using hc
  subst hct
  obtain ⟨path0, hsub, g⟩ := compat_guard hcompat hr hp hne hpt hrt
  exact g first (by rw [hpath path0 hsub]; exact hfirst) hsd hneq

theorem fit_limits_leaf {nw : Network} (hn : NetHyp nw) {s : Schedule} {p r : Veh} {a b : Nat} {pt rt : Tour}
    {path : List Nat} {res : Option Tour × Tour × List Nat} {w : Work} {site1 site2 : String} {c : Bool}
    (hi : ListInv s) (hd : DummyInv s) (ho : ToursOK nw s.tours) (hdo : DummiesOK nw s.dummyTours)
    (hK : IdsIn nw s) (hu : UsageInv nw s) (hl : Limits nw s.depotUsage) (hne : p ≠ r)
    (hcompat : checkReceiverTypeCompat nw s p r a b = .ok c) (hc : ¬ (!c) = true)
    (hpt' : unwrapO (s.tourOf? p) site1 = .ok pt) (hrt' : unwrapO (s.tourOf? r) site2 = .ok rt)
    (hsub : Tour.subPath nw pt a b = .ok path)
    (hloop : fitLoop nw (s.isDummy p && s.isVehicle r) (path.length + 1) (some pt) rt (some path) [] = .ok res)
    (hut : updateTours nw s (Work.ofSchedule s) (some p) res.1 r res.2.1 res.2.2 = .ok w)
    (hu' : UsageOK nw w.vehicles w.tours w.usage) : Limits nw w.usage := by
  have hpt := unwrapO_ok hpt'
  have hrt := unwrapO_ok hrt'
  obtain ⟨hA, hB⟩ := fit_heads (newProv := res.1) (newRecv := res.2.1) (moved := res.2.2) hn hi hd ho hdo hpt hrt hsub hloop
  exact reassign_limits (path0 := path) hi hd ho hK hu hu' hl hne hpt hrt hA hB
    (compat_hC hcompat hc hpt hrt (fun path0 h0 => by rw [hsub] at h0; cases h0; rfl)) hut

theorem subPath_head {nw : Network} {t : Tour} {a b : Nat} {path : List Nat}
    (h : Tour.subPath nw t a b = .ok path) (hne : path ≠ []) : path.head? = some a := by
  obtain ⟨s0, e0, h1, h2, hpath, hs, _⟩ := subPath_sublist h
  have hget := positionOf_get hs
  have hlen : 0 < e0 + 1 - s0 := by
    rcases Nat.eq_zero_or_pos (e0 + 1 - s0) with h0 | h0
    · rw [h0] at hpath; simp at hpath; exact absurd hpath hne
    · exact h0
  rw [hpath, List.head?_take, if_neg (by omega), List.head?_drop]
  exact hget

theorem override_limits_leaf {nw : Network} (hn : NetHyp nw) {s : Schedule} {p r : Veh} {a b : Nat} {pt rt : Tour}
    {shrunk : Option Tour} {path : List Nat} {ins : Tour × Option (List Nat)} {w : Work} {site1 site2 : String}
    {c : Bool}
    (hi : ListInv s) (hd : DummyInv s) (ho : ToursOK nw s.tours) (hdo : DummiesOK nw s.dummyTours)
    (hK : IdsIn nw s) (hu : UsageInv nw s) (hl : Limits nw s.depotUsage) (hne : p ≠ r)
    (hcompat : checkReceiverTypeCompat nw s p r a b = .ok c) (hc : ¬ (!c) = true)
    (hpt' : unwrapO (s.tourOf? p) site1 = .ok pt) (hrt' : unwrapO (s.tourOf? r) site2 = .ok rt)
    (hrem : Tour.remove nw pt a b = .ok (shrunk, path))
    (hchk : ¬ (s.isDummy p && s.isVehicle r && !(Tour.isChain nw path)) = true)
    (hins : insertPath nw true rt path = .ok ins)
    (hut : updateTours nw s (Work.ofSchedule s) (some p) shrunk r ins.1 path = .ok w)
    (hu' : UsageOK nw w.vehicles w.tours w.usage) : Limits nw w.usage := by
  have hpt := unwrapO_ok hpt'
  have hrt := unwrapO_ok hrt'
  obtain ⟨hA, hB⟩ := override_heads hn hi hd ho hdo hpt hrt hrem hchk hins
  refine reassign_limits (path0 := path) hi hd ho hK hu hu' hl hne hpt hrt hA hB
    (compat_hC hcompat hc hpt hrt (fun path0 h0 => ?_)) hut
  rw [remove_path_head hrem]
  refine subPath_head h0 ?_
  intro e
  subst e
  -- the compatibility check reads the first node of the sub-path, or the types agree (then `hC` is not used);
  -- an empty sub-path is impossible: `Path::new_trusted` returns none for it
  obtain ⟨s0, e0, _, _, _, _, _⟩ := subPath_sublist h0
  unfold Tour.subPath at h0
  inv_do h0
  all_goals (try contradiction)
  all_goals (try (cases h0))
  all_goals (
    have hp := (by assumption : pathTrusted nw _ = some [])
    have := pathTrusted_some hp
    unfold pathTrusted at hp
    rw [← this] at hp
    simp at hp)

theorem fit_limits {nw : Network} (hn : NetHyp nw) {s s' : Schedule} {p r : Veh} {a b : Nat}
    (hi : ListInv s) (hd : DummyInv s) (ho : ToursOK nw s.tours) (hdo : DummiesOK nw s.dummyTours)
    (hK : IdsIn nw s) (hu : UsageInv nw s) (hu' : UsageInv nw s') (hl : Limits nw s.depotUsage) (hne : p ≠ r)
    (h : fitReassign nw s p r a b = .ok s') : Limits nw s'.depotUsage := by
  unfold fitReassign at h
  inv_do h
  all_goals (try contradiction)
  all_goals (try (cases h))
  all_goals (try (simp only [pure, Except.pure, Except.ok.injEq] at *))
  all_goals (try subst_vars)
  all_goals (
    exact fit_limits_leaf hn hi hd ho hdo hK hu hl hne (by assumption) (by assumption) (by assumption)
      (by assumption) (by assumption) (by assumption) (by assumption) hu')

theorem override_limits {nw : Network} (hn : NetHyp nw) {s s' : Schedule} {p r : Veh} {a b : Nat} {d : Option Veh}
    (hi : ListInv s) (hd : DummyInv s) (ho : ToursOK nw s.tours) (hdo : DummiesOK nw s.dummyTours)
    (hK : IdsIn nw s) (hu : UsageInv nw s) (hu' : UsageInv nw s') (hl : Limits nw s.depotUsage) (hne : p ≠ r)
    (h : overrideReassign nw s p r a b = .ok (s', d)) : Limits nw s'.depotUsage := by
  unfold overrideReassign at h
  inv_do h
  all_goals (try contradiction)
  all_goals (try (cases h))
  all_goals (try (simp only [pure, Except.pure, Except.ok.injEq] at *))
  all_goals (try subst_vars)
  all_goals (
    try dsimp only [UsageInv] at hu' ⊢
    exact override_limits_leaf hn hi hd ho hdo hK hu hl hne (by assumption) (by assumption) (by assumption)
      (by assumption) (by assumption) (by assumption) (by assumption) (by assumption) hu')

/-! ### the folds over all vehicles -/

theorem replaceEndDepot_head {nw : Network} {t nt : Tour} {d : Nat} (h : t.replaceEndDepot nw d = .ok nt) :
    nt.nodes.head? = t.nodes.head? := by
  unfold Tour.replaceEndDepot at h
  inv_do h
  all_goals (try contradiction)
  all_goals (try (cases h))
  all_goals (try (simp only [pure, Except.pure, Except.ok.injEq] at *))
  all_goals (try subst_vars)
  all_goals (
    have hne : ¬ (t.nodes.length - 1 == 0) = true := by assumption
    have hne' : t.nodes.length - 1 ≠ 0 := by simpa using hne
    show (t.nodes.set (t.nodes.length - 1) d).head? = t.nodes.head?
    rw [List.head?_eq_getElem?, List.head?_eq_getElem?, List.getElem?_set_ne hne'])

/-- heads of the tour map agree with those of the schedule's -/
def HeadsSame (T0 T : Tours) : Prop :=
  ∀ w, (assocGet? T w).map (fun t => t.nodes.head?) = (assocGet? T0 w).map (fun t => t.nodes.head?)

theorem fold_heads (s : Schedule) (F : Acc → Veh → R Acc)
    (hF : ∀ acc v acc', F acc v = .ok acc' →
      ∃ nt t, acc'.1 = assocSet acc.1 v nt ∧ s.tourOf? v = some t ∧ nt.nodes.head? = t.nodes.head?) :
    ∀ (L : List Veh) (acc acc' : Acc), (∀ v ∈ L, (assocGet? s.tours v).isSome = true) →
      HeadsSame s.tours acc.1 → L.foldlM F acc = .ok acc' → HeadsSame s.tours acc'.1
  | [], acc, acc', _, hH, h => by
    simp only [List.foldlM_nil, pure, Except.pure, Except.ok.injEq] at h
    rw [← h]; exact hH
  | x :: xs, acc, acc', hL, hH, h => by
    rw [List.foldlM_cons] at h
    obtain ⟨a1, h1, h⟩ := bind_ok h
    obtain ⟨nt, t, hset, ht, hh⟩ := hF acc x a1 h1
    refine fold_heads s F hF xs a1 acc' (fun v hv => hL v (by simp [hv])) ?_ h
    obtain ⟨t0, ht0⟩ := Option.isSome_iff_exists.mp (hL x (by simp))
    have : t = t0 := by
      unfold Schedule.tourOf? at ht
      rw [ht0] at ht
      simpa using ht.symm
    subst this
    intro w
    rw [hset, assocGet?_assocSet]
    by_cases e : w = x
    · subst e; simp only [↓reduceIte, Option.map_some, ht0, hh]
    · simp only [e, ↓reduceIte]; exact hH w

theorem heads_shrink {nw : Network} {V : List (Veh × Nat)} {T T' : Tours} {u u' : DepotUsage}
    (hok : UsageOK nw V T u) (hok' : UsageOK nw V T' u') (hH : HeadsSame T T') : Shrinks u u' := by
  intro k w hm
  rw [hok.mem]
  have hk := (hok'.mem true k w).mp hm
  obtain ⟨t', vt, dn, g1, g2, g3, g4⟩ := hk
  have := hH w
  rw [g1] at this
  cases hg : assocGet? T w with
  | none => rw [hg] at this; simp at this
  | some t =>
    rw [hg] at this
    simp only [Option.map_some, Option.some.injEq] at this
    exact home_head rfl hg g1 this k ⟨t', vt, dn, g1, g2, g3, g4⟩

theorem greedyStep_head {nw : Network} {s : Schedule} {acc acc' : Acc} {v : Veh}
    (h : greedyStep nw s acc v = .ok acc') :
    ∃ nt t, acc'.1 = assocSet acc.1 v nt ∧ s.tourOf? v = some t ∧ nt.nodes.head? = t.nodes.head? := by
  obtain ⟨tours, u, costs⟩ := acc
  unfold greedyStep at h
  dsimp only at h
  obtain ⟨t, ht, h⟩ := bind_ok h
  obtain ⟨lnd, _, h⟩ := bind_ok h
  split at h
  · obtain ⟨ne, _, h⟩ := bind_ok h
    obtain ⟨nt, hnt, h⟩ := bind_ok h
    obtain ⟨c, hc, h⟩ := bind_ok h
    obtain ⟨u', hu', h⟩ := bind_ok h
    simp only [pure, Except.pure, Except.ok.injEq] at h
    subst h
    exact ⟨nt, t, rfl, unwrapO_ok ht, replaceEndDepot_head (unwrapR_ok hnt)⟩
  · simp [bind, Except.bind] at h

theorem endStep_head {nw : Network} {s : Schedule} {acc acc' : Acc} {v : Veh}
    (h : C05.endStep nw s acc v = .ok acc') :
    ∃ nt t, acc'.1 = assocSet acc.1 v nt ∧ s.tourOf? v = some t ∧ nt.nodes.head? = t.nodes.head? := by
  obtain ⟨tours, u, costs⟩ := acc
  unfold C05.endStep at h
  dsimp only at h
  obtain ⟨t, ht, h⟩ := bind_ok h
  obtain ⟨vt, hvt, h⟩ := bind_ok h
  obtain ⟨tr, htr, h⟩ := bind_ok h
  obtain ⟨next, hnext, h⟩ := bind_ok h
  obtain ⟨ntour, hntour, h⟩ := bind_ok h
  obtain ⟨sd, hsd, h⟩ := bind_ok h
  obtain ⟨nt, hnt, h⟩ := bind_ok h
  obtain ⟨c, _, h⟩ := bind_ok h
  obtain ⟨u', hu', h⟩ := bind_ok h
  simp only [pure, Except.pure, Except.ok.injEq] at h
  subst h
  exact ⟨nt, t, rfl, unwrapO_ok ht, replaceEndDepot_head (unwrapR_ok hnt)⟩

theorem endGreedy_limits {nw : Network} {s s' : Schedule} (hi : ListInv s)
    (hu : UsageInv nw s) (hu' : UsageInv nw s') (hl : Limits nw s.depotUsage)
    (h : reassignEndDepotsGreedily nw s = .ok s') : Limits nw s'.depotUsage := by
  have hunf : reassignEndDepotsGreedily nw s = (do
      let (tours, usage, cst) ← (s.vehiclesAll nw).foldlM (greedyStep nw s) (s.tours, s.depotUsage, s.costs)
      let (trans, viol) ← recomputeTransitions nw s.idsByType tours nw.typeIdxs s.transitions s.violation
      pure { s with tours, transitions := trans, depotUsage := usage, violation := viol, costs := cst }) := rfl
  rw [hunf] at h
  obtain ⟨⟨tours, usage, cst⟩, hfold, h⟩ := bind_ok h
  dsimp only at h
  obtain ⟨⟨trans, viol⟩, _, h⟩ := bind_ok h
  simp only [pure, Except.pure, Except.ok.injEq] at h
  subst h
  have hH := fold_heads s (greedyStep nw s) (fun acc v acc' hs => greedyStep_head hs) (s.vehiclesAll nw)
    (s.tours, s.depotUsage, s.costs) (tours, usage, cst) (fun v hv => listed_hasTour hi hv) (fun _ => rfl) hfold
  exact limits_shrink hl (hu'.nodup true) (heads_shrink hu hu' hH)

theorem endConsistent_limits {nw : Network} {s s' : Schedule} (hi : ListInv s)
    (hu : UsageInv nw s) (hu' : UsageInv nw s') (hl : Limits nw s.depotUsage)
    (h : reassignEndDepotsConsistent nw s = .ok s') : Limits nw s'.depotUsage := by
  have hunf : reassignEndDepotsConsistent nw s = (do
      let (tours, usage, cst) ← (s.vehiclesAll nw).foldlM (C05.endStep nw s) (s.tours, s.depotUsage, s.costs)
      let (trans, viol) ← updateTransitionsFast nw s s.vehicles tours (s.vehiclesAll nw) [] s.transitions s.violation
      pure { s with tours, transitions := trans, depotUsage := usage, violation := viol, costs := cst }) := rfl
  rw [hunf] at h
  obtain ⟨⟨tours, usage, cst⟩, hfold, h⟩ := bind_ok h
  dsimp only at h
  obtain ⟨⟨trans, viol⟩, _, h⟩ := bind_ok h
  simp only [pure, Except.pure, Except.ok.injEq] at h
  subst h
  have hH := fold_heads s (C05.endStep nw s) (fun acc v acc' hs => endStep_head hs) (s.vehiclesAll nw)
    (s.tours, s.depotUsage, s.costs) (tours, usage, cst) (fun v hv => listed_hasTour hi hv) (fun _ => rfl) hfold
  exact limits_shrink hl (hu'.nodup true) (heads_shrink hu hu' hH)

/-! ### `improve_depots`: every vehicle is put into a depot `can_depot_spawn_vehicle` accepts -/

theorem replaceStartDepot_head {nw : Network} {t nt : Tour} {d : Nat} (h : t.replaceStartDepot nw d = .ok nt) :
    nt.nodes.head? = some d := by
  unfold Tour.replaceStartDepot at h
  inv_do h
  all_goals (try contradiction)
  all_goals (try (cases h))
  all_goals (try (simp only [pure, Except.pure, Except.ok.injEq] at *))
  all_goals (try subst_vars)
  all_goals (
    have h0 := C10Fit.idxAt_ok (by assumption : idxAt t.nodes 0 = .ok _)
    obtain ⟨hlt, _⟩ := List.getElem?_eq_some_iff.mp h0
    show (t.nodes.set 0 d).head? = some d
    rw [List.head?_eq_getElem?, List.getElem?_set_self hlt])

theorem same_start {nw : Network} {t : Tour} {ns cur : Nat} (hcur : Transition.startDepotU nw t = .ok cur)
    (hne : ¬ (ns != cur) = true) : t.nodes.head? = some ns := by
  have : ns = cur := by simpa using hne
  subst this
  exact (startU_iff.mp hcur).1

theorem improveTour_start {nw : Network} {t nt : Tour} {vt : Nat} {u : DepotUsage}
    (h : improveDepotsOfTour nw t vt u = .ok nt) :
    ∃ ns, canDepotSpawn nw u ns vt = true ∧ nt.nodes.head? = some ns := by
  unfold improveDepotsOfTour at h
  inv_do h
  all_goals (try contradiction)
  all_goals (try (cases h))
  all_goals (try (simp only [pure, Except.pure, Except.ok.injEq] at *))
  all_goals (try subst_vars)
  all_goals (
    refine ⟨_, findBestStart_spec (by assumption), ?_⟩
    first
    | (rw [replaceEndDepot_head (unwrapR_ok (by assumption))]
       exact replaceStartDepot_head (unwrapR_ok (by assumption)))
    | exact replaceStartDepot_head (unwrapR_ok (by assumption))
    | (rw [replaceEndDepot_head (unwrapR_ok (by assumption))]
       exact same_start (by assumption) (by assumption))
    | exact same_start (by assumption) (by assumption))

theorem improveStep_lim {nw : Network} {s : Schedule} {acc acc' : Acc} {v : Veh}
    (h : improveStep nw s acc v = .ok acc')
    (hJ : Limits nw acc.2.1 ∧ ∀ k, (side true (getK acc.2.1 k)).Nodup) :
    Limits nw acc'.2.1 ∧ ∀ k, (side true (getK acc'.2.1 k)).Nodup := by
  obtain ⟨tours, u, costs⟩ := acc
  unfold improveStep at h
  dsimp only at h
  obtain ⟨t, ht, h⟩ := bind_ok h
  obtain ⟨vt, hvt, h⟩ := bind_ok h
  obtain ⟨nt, hnt, h⟩ := bind_ok h
  obtain ⟨c, hc, h⟩ := bind_ok h
  obtain ⟨sd, hsd, h⟩ := bind_ok h
  obtain ⟨ed, hed, h⟩ := bind_ok h
  simp only [pure, Except.pure, Except.ok.injEq] at h
  subst h
  show Limits nw (usageModify (usageModify u (nw.depotIdxOf sd) vt (ins true v)) (nw.depotIdxOf ed) vt (ins false v)) ∧
    ∀ k, (side true (getK (usageModify (usageModify u (nw.depotIdxOf sd) vt (ins true v))
      (nw.depotIdxOf ed) vt (ins false v)) k)).Nodup
  obtain ⟨hl, hnd⟩ := hJ
  obtain ⟨ns, hcan, hhead⟩ := improveTour_start hnt
  have : sd = ns := by
    have := (startU_iff.mp hsd).1
    rw [hhead] at this
    exact (Option.some.inj this).symm
  subst this
  have hstart : ∀ k, side true (getK (usageModify (usageModify u (nw.depotIdxOf sd) vt (ins true v))
      (nw.depotIdxOf ed) vt (ins false v)) k) = side true (getK (usageModify u (nw.depotIdxOf sd) vt (ins true v)) k) := by
    intro k
    have e2 := other_modify_ins (usageModify u (nw.depotIdxOf sd) vt (ins true v)) (nw.depotIdxOf ed) vt false v k
    simpa only [Bool.not_false] using e2
  have hnd' : ∀ k, (side true (getK (usageModify (usageModify u (nw.depotIdxOf sd) vt (ins true v))
      (nw.depotIdxOf ed) vt (ins false v)) k)).Nodup := by
    intro k
    rw [hstart]
    exact nodup_modify_ins _ _ _ _ _ _ (hnd k)
  refine ⟨limits_guarded (arr := v) (dn := sd) (vt := vt) hl hnd' ?_ (Or.inr hcan), hnd'⟩
  intro k w hm
  rw [hstart, mem_modify_ins] at hm
  rcases hm with hm | ⟨e1, e2⟩
  · exact Or.inl hm
  · exact Or.inr ⟨e2, e1⟩

theorem improveFold_lim {nw : Network} {s : Schedule} : ∀ (L : List Veh) (acc acc' : Acc),
    L.foldlM (improveStep nw s) acc = .ok acc' →
    (Limits nw acc.2.1 ∧ ∀ k, (side true (getK acc.2.1 k)).Nodup) →
    (Limits nw acc'.2.1 ∧ ∀ k, (side true (getK acc'.2.1 k)).Nodup)
  | [], acc, acc', h, hJ => by
    simp only [List.foldlM_nil, pure, Except.pure, Except.ok.injEq] at h
    rw [← h]; exact hJ
  | x :: xs, acc, acc', h, hJ => by
    rw [List.foldlM_cons] at h
    obtain ⟨a1, h1, h⟩ := bind_ok h
    exact improveFold_lim xs a1 acc' h (improveStep_lim h1 hJ)

theorem improve_limits {nw : Network} {s s' : Schedule} {vs : Option (List Veh)} (hi : ListInv s)
    (hu : UsageInv nw s) (hl : Limits nw s.depotUsage)
    (h : improveDepots nw s vs = .ok s') : Limits nw s'.depotUsage := by
  unfold improveDepots at h
  dsimp only at h
  obtain ⟨usage0, h0, h⟩ := bind_ok h
  have hstep : ∀ (r : Acc),
      (vs.getD (s.vehiclesAll nw)).foldlM (improveStep nw s) (s.tours, usage0, s.costs) = .ok r →
      Limits nw r.2.1 := by
    intro r hfold
    obtain ⟨r1, r2⟩ := takeOutAll_spec hi (vs.getD (s.vehiclesAll nw)) [] s.depotUsage usage0
      (fun b k w => by rw [hu.mem]; simp) hu.nodup h0
    have hl0 : Limits nw usage0 := limits_shrink hl (r2 true) (fun k w hm => by
      rw [hu.mem]; exact ((r1 true k w).mp hm).1)
    exact (improveFold_lim _ (s.tours, usage0, s.costs) r hfold ⟨hl0, r2 true⟩).1
  obtain ⟨⟨tours, usage, costs⟩, hfold, h⟩ := bind_ok h
  have hc := hstep (tours, usage, costs) hfold
  inv_do h
  all_goals (try contradiction)
  all_goals (try (cases h))
  all_goals (try (simp only [pure, Except.pure, Except.ok.injEq] at *))
  all_goals (try subst_vars)
  all_goals exact hc

/-! ### the type keys of the id lists never change -/

def IdsKeep (ids ids' : List (Nat × List Veh)) : Prop :=
  ∀ vt, (assocGet? ids' vt).isSome = (assocGet? ids vt).isSome

theorem idsKeep_refl (ids : List (Nat × List Veh)) : IdsKeep ids ids := fun _ => rfl

theorem idsKeep_set {ids : List (Nat × List Veh)} {vt : Nat} {l x : List Veh} (h : assocGet? ids vt = some l) :
    IdsKeep ids (assocSet ids vt x) := by
  intro vt'
  rw [isSome_assocSet]
  by_cases e : vt' = vt
  · subst e; simp [h]
  · simp [e]

theorem idsKeep_insert {ids ids' : List (Nat × List Veh)} {vt : Nat} {v : Veh} (h : idsInsert ids vt v = .ok ids') :
    IdsKeep ids ids' := by
  obtain ⟨l, hl, rfl⟩ := idsInsert_ok h
  exact idsKeep_set hl

theorem idsKeep_remove {ids ids' : List (Nat × List Veh)} {vt : Nat} {v : Veh} (h : idsRemove ids vt v = .ok ids') :
    IdsKeep ids ids' := by
  obtain ⟨l, hl, rfl⟩ := idsRemove_ok h
  exact idsKeep_set hl

theorem spawn_idsKeep {nw : Network} {s s' : Schedule} {vt : Nat} {path : List Nat} {v : Veh}
    (h : spawnVehicleForPath nw s vt path = .ok (s', v)) : IdsKeep s.idsByType s'.idsByType := by
  unfold spawnVehicleForPath at h
  inv_do h
  all_goals (try contradiction)
  all_goals (try (cases h))
  all_goals (try (simp only [pure, Except.pure, Except.ok.injEq] at *))
  all_goals (try subst_vars)
  all_goals exact idsKeep_insert (by assumption)

theorem delete_idsKeep {nw : Network} {s s' : Schedule} {v : Veh}
    (h : replaceVehicleByDummy nw s v = .ok s') : IdsKeep s.idsByType s'.idsByType := by
  unfold replaceVehicleByDummy at h
  inv_do h
  all_goals (try contradiction)
  all_goals (try (cases h))
  all_goals (try (simp only [pure, Except.pure, Except.ok.injEq] at *))
  all_goals (try subst_vars)
  all_goals exact idsKeep_remove (by assumption)

theorem updateTours_idsKeep {nw : Network} {s : Schedule} {w' : Work} {p r : Veh} {newProv : Option Tour}
    {newRecv : Tour} {moved : List Nat}
    (h : updateTours nw s (Work.ofSchedule s) (some p) newProv r newRecv moved = .ok w') :
    IdsKeep s.idsByType w'.ids := by
  unfold updateTours at h
  dsimp only at h
  inv_do h
  all_goals (try contradiction)
  all_goals (try (cases h))
  all_goals (try (simp only [pure, Except.pure, Except.ok.injEq] at *))
  all_goals (try subst_vars)
  all_goals (first
    | exact idsKeep_refl _
    | exact idsKeep_remove (ids := s.idsByType) (by assumption))

/-- **type keys**: every public modification keeps the set of type keys of the per-type id lists -/
theorem idsIn_step (nw : Network) (s : Schedule) (op : SOp) (r : OpResult) (hK : IdsIn nw s)
    (h : applyOp nw s op = .ok r) : IdsIn nw r.sched := by
  have keep : ∀ {s' : Schedule}, IdsKeep s.idsByType s'.idsByType → IdsIn nw s' :=
    fun hk vt hvt => hK vt (by rw [← hk vt]; exact hvt)
  unfold applyOp at h
  cases op with
  | init =>
    simp only [pure, Except.pure, Except.ok.injEq] at h
    rw [← h]
    intro vt hvt
    obtain ⟨l, hl⟩ := Option.isSome_iff_exists.mp hvt
    have hm := assocGet?_mem hl
    simp only [Schedule.empty, List.mem_map, Prod.mk.injEq] at hm
    obtain ⟨a, ha, rfl, _⟩ := hm
    unfold Network.typeIdxs at ha
    exact List.mem_range.mp ha
  | spawn vt path =>
    obtain ⟨⟨s', v⟩, hs, h⟩ := bind_ok h
    simp only [pure, Except.pure, Except.ok.injEq] at h
    subst h; exact keep (spawn_idsKeep hs)
  | dummySpawn d vt =>
    obtain ⟨⟨s', v⟩, hs, h⟩ := bind_ok h
    simp only [pure, Except.pure, Except.ok.injEq] at h
    subst h
    unfold spawnToReplaceDummy at hs
    inv_do hs
    all_goals (try contradiction)
    all_goals (try (cases hs; done))
    all_goals (
      rename_i s1 hdel
      have hcore := deleteDummy_core hdel
      have hI : s1.idsByType = s.idsByType := congrArg Core.ids hcore
      refine keep ?_
      rw [← hI]; exact spawn_idsKeep hs)
  | delete v =>
    obtain ⟨s', hs, h⟩ := bind_ok h
    simp only [pure, Except.pure, Except.ok.injEq] at h
    subst h; exact keep (delete_idsKeep hs)
  | addPath v path =>
    dsimp only at h
    split at h
    · obtain ⟨⟨s', rm⟩, hs, h⟩ := bind_ok h
      simp only [pure, Except.pure, Except.ok.injEq] at h
      subst h
      refine keep ?_
      unfold addPathToVehicleTour at hs
      inv_do hs
      all_goals (try contradiction)
      all_goals (try (cases hs))
      all_goals (try (simp only [pure, Except.pure, Except.ok.injEq] at *))
      all_goals (try subst_vars)
      all_goals exact idsKeep_refl _
    · cases h
  | rmSeg v a b =>
    obtain ⟨s', hs, h⟩ := bind_ok h
    simp only [pure, Except.pure, Except.ok.injEq] at h
    subst h
    refine keep ?_
    unfold removeSegment at hs
    inv_do hs
    all_goals (try contradiction)
    all_goals (try (cases hs))
    all_goals (first
      | exact delete_idsKeep (by assumption)
      | (simp only [pure, Except.pure, Except.ok.injEq] at *
         subst_vars
         exact idsKeep_refl _))
  | fit p q a b =>
    obtain ⟨s', hs, h⟩ := bind_ok h
    simp only [pure, Except.pure, Except.ok.injEq] at h
    subst h
    refine keep ?_
    unfold fitReassign at hs
    inv_do hs
    all_goals (try contradiction)
    all_goals (try (cases hs))
    all_goals (try (simp only [pure, Except.pure, Except.ok.injEq] at *))
    all_goals (try subst_vars)
    all_goals exact updateTours_idsKeep (by assumption)
  | override p q a b =>
    obtain ⟨⟨s', d⟩, hs, h⟩ := bind_ok h
    simp only [pure, Except.pure, Except.ok.injEq] at h
    subst h
    refine keep ?_
    unfold overrideReassign at hs
    inv_do hs
    all_goals (try contradiction)
    all_goals (try (cases hs))
    all_goals (try (simp only [pure, Except.pure, Except.ok.injEq] at *))
    all_goals (try subst_vars)
    all_goals (
      try dsimp only
      exact updateTours_idsKeep (by assumption))
  | improve vs =>
    obtain ⟨s', hs, h⟩ := bind_ok h
    simp only [pure, Except.pure, Except.ok.injEq] at h
    subst h
    have : s'.idsByType = s.idsByType := congrArg Core.ids (show coreOf s' = { coreOf s with tours := s'.tours } from by
      unfold improveDepots at hs
      dsimp only at hs
      obtain ⟨_, _, hs⟩ := bind_ok hs
      obtain ⟨_, _, hs⟩ := bind_ok hs
      inv_do hs
      all_goals (try contradiction)
      all_goals (try (cases hs))
      all_goals (try (simp only [pure, Except.pure, Except.ok.injEq] at *))
      all_goals (try subst_vars)
      all_goals rfl)
    exact keep (by rw [this]; exact idsKeep_refl _)
  | endGreedy =>
    obtain ⟨s', hs, h⟩ := bind_ok h
    simp only [pure, Except.pure, Except.ok.injEq] at h
    subst h
    have : s'.idsByType = s.idsByType := by
      unfold reassignEndDepotsGreedily at hs
      obtain ⟨_, _, hs⟩ := bind_ok hs
      inv_do hs
      all_goals (try contradiction)
      all_goals (try (cases hs))
      all_goals (try (simp only [pure, Except.pure, Except.ok.injEq] at *))
      all_goals (try subst_vars)
      all_goals rfl
    exact keep (by rw [this]; exact idsKeep_refl _)
  | recompute vts =>
    obtain ⟨s', hs, h⟩ := bind_ok h
    simp only [pure, Except.pure, Except.ok.injEq] at h
    subst h
    have : s'.idsByType = s.idsByType := by
      unfold recomputeTransitionsFor at hs
      obtain ⟨⟨trans, viol⟩, _, hs⟩ := bind_ok hs
      simp only [pure, Except.pure, Except.ok.injEq] at hs
      rw [← hs]
    exact keep (by rw [this]; exact idsKeep_refl _)
  | endConsistent =>
    obtain ⟨s', hs, h⟩ := bind_ok h
    simp only [pure, Except.pure, Except.ok.injEq] at h
    subst h
    have hc := C05.C05_reassign nw s s' hs
    have : s'.idsByType = s.idsByType := hc.2.2.2.2.2.1
    exact keep (by rw [this]; exact idsKeep_refl _)
  | setTrans vt v ci =>
    obtain ⟨tr, _, h⟩ := bind_ok h
    obtain ⟨moved, _, h⟩ := bind_ok h
    simp only [pure, Except.pure, Except.ok.injEq] at h
    subst h; exact hK

/-! ### the step theorem, every history, search and pipeline -/

/-- **C10 / C02 (depot limits), one step** -/
theorem C10_limits_step (nw : Network) (hn : NetHyp nw) (hovf : OvfNode nw) (s : Schedule) (op : SOp) (r : OpResult)
    (hinv : C10U.InvU nw s) (hK : IdsIn nw s) (hl : Limits nw s.depotUsage) (hargs : ArgsOKF op)
    (h : applyOp nw s op = .ok r) : Limits nw r.sched.depotUsage := by
  have hu' := ((C10U.stepInv_usage hn).step s op r hinv hargs h).usage
  have hu := hinv.usage
  obtain ⟨⟨hi, hd, ho⟩, hdo, _⟩ := hinv.all.fu.invF.inv
  unfold applyOp at h
  cases op with
  | init =>
    simp only [pure, Except.pure, Except.ok.injEq] at h
    rw [← h]
    intro d _
    have hz : ∀ vt, cnt (Schedule.empty nw).depotUsage d vt = 0 := by
      intro vt
      unfold cnt getK
      simp [Schedule.empty, assocGet?_nil, side]
    refine ⟨fun vt => by rw [hz]; exact Nat.zero_le _, ?_⟩
    have : sumNat (nw.typeIdxs.map (fun vt => cnt (Schedule.empty nw).depotUsage d vt)) = 0 := by
      have := sum_mono nw.typeIdxs (fun _ => 0) (fun vt => cnt (Schedule.empty nw).depotUsage d vt)
        (fun vt _ => by rw [hz]; exact Nat.le_refl _)
      have h0 : sumNat (nw.typeIdxs.map (fun _ => 0)) = 0 := by
        induction nw.typeIdxs with
        | nil => rfl
        | cons a as ih => simp only [List.map_cons, sumNat, List.foldr_cons] at ih ⊢; omega
      omega
    rw [this]; exact Nat.zero_le _
  | spawn vt path =>
    obtain ⟨⟨s', v⟩, hs, h⟩ := bind_ok h
    simp only [pure, Except.pure, Except.ok.injEq] at h
    subst h; exact spawn_limits hovf hu hu' hl hs
  | dummySpawn d vt =>
    obtain ⟨⟨s', v⟩, hs, h⟩ := bind_ok h
    simp only [pure, Except.pure, Except.ok.injEq] at h
    subst h; exact dummySpawn_limits hovf hu hu' hl hs
  | delete v =>
    obtain ⟨s', hs, h⟩ := bind_ok h
    simp only [pure, Except.pure, Except.ok.injEq] at h
    subst h; exact delete_limits hu hu' hl hs
  | addPath v path =>
    dsimp only at h
    split at h
    · obtain ⟨⟨s', rm⟩, hs, h⟩ := bind_ok h
      simp only [pure, Except.pure, Except.ok.injEq] at h
      subst h; exact addPath_limits hn ho hu hu' hl hs
    · cases h
  | rmSeg v a b =>
    obtain ⟨s', hs, h⟩ := bind_ok h
    simp only [pure, Except.pure, Except.ok.injEq] at h
    subst h; exact rmSeg_limits hi hd ho hu hu' hl hs
  | fit p q a b =>
    obtain ⟨s', hs, h⟩ := bind_ok h
    simp only [pure, Except.pure, Except.ok.injEq] at h
    subst h; exact fit_limits hn hi hd ho hdo hK hu hu' hl hargs hs
  | override p q a b =>
    obtain ⟨⟨s', d⟩, hs, h⟩ := bind_ok h
    simp only [pure, Except.pure, Except.ok.injEq] at h
    subst h; exact override_limits hn hi hd ho hdo hK hu hu' hl hargs hs
  | improve vs =>
    obtain ⟨s', hs, h⟩ := bind_ok h
    simp only [pure, Except.pure, Except.ok.injEq] at h
    subst h; exact improve_limits hi hu hl hs
  | endGreedy =>
    obtain ⟨s', hs, h⟩ := bind_ok h
    simp only [pure, Except.pure, Except.ok.injEq] at h
    subst h; exact endGreedy_limits hi hu hu' hl hs
  | recompute vts =>
    obtain ⟨s', hs, h⟩ := bind_ok h
    simp only [pure, Except.pure, Except.ok.injEq] at h
    subst h
    unfold recomputeTransitionsFor at hs
    obtain ⟨⟨trans, viol⟩, _, hs⟩ := bind_ok hs
    simp only [pure, Except.pure, Except.ok.injEq] at hs
    rw [← hs]; exact hl
  | endConsistent =>
    obtain ⟨s', hs, h⟩ := bind_ok h
    simp only [pure, Except.pure, Except.ok.injEq] at h
    subst h; exact endConsistent_limits hi hu hu' hl hs
  | setTrans vt v ci =>
    obtain ⟨tr, _, h⟩ := bind_ok h
    obtain ⟨moved, _, h⟩ := bind_ok h
    simp only [pure, Except.pure, Except.ok.injEq] at h
    subst h; exact hl

/-- everything of Props/C10Usage plus the depot limits -/
structure InvL (nw : Network) (s : Schedule) : Prop where
  base : C10U.InvU nw s
  keys : IdsIn nw s
  limits : Limits nw s.depotUsage

theorem empty_limits (nw : Network) : Limits nw (Schedule.empty nw).depotUsage := by
  intro d _
  have hz : ∀ vt, cnt (Schedule.empty nw).depotUsage d vt = 0 := by
    intro vt
    unfold cnt getK
    simp [Schedule.empty, assocGet?_nil, side]
  refine ⟨fun vt => by rw [hz]; exact Nat.zero_le _, ?_⟩
  have h0 : sumNat (nw.typeIdxs.map (fun _ => 0)) = 0 := by
    induction nw.typeIdxs with
    | nil => rfl
    | cons a as ih => simp only [List.map_cons, sumNat, List.foldr_cons] at ih ⊢; omega
  have := sum_mono nw.typeIdxs (fun _ => 0) (fun vt => cnt (Schedule.empty nw).depotUsage d vt)
    (fun vt _ => by rw [hz]; exact Nat.le_refl _)
  omega

theorem empty_idsIn (nw : Network) : IdsIn nw (Schedule.empty nw) := by
  intro vt hvt
  obtain ⟨l, hl⟩ := Option.isSome_iff_exists.mp hvt
  have hm := assocGet?_mem hl
  simp only [Schedule.empty, List.mem_map, Prod.mk.injEq] at hm
  obtain ⟨a, ha, rfl, _⟩ := hm
  unfold Network.typeIdxs at ha
  exact List.mem_range.mp ha

theorem stepInv_limits {nw : Network} (hn : NetHyp nw) (hovf : OvfNode nw) : C11A.StepInv nw (InvL nw) where
  step := fun s op r hinv hargs h =>
    ⟨(C10U.stepInv_usage hn).step s op r hinv.base hargs h, idsIn_step nw s op r hinv.keys h,
     C10_limits_step nw hn hovf s op r hinv.base hinv.keys hinv.limits hargs h⟩
  fresh := fun _ _ _ hinv hpt => C11A.tour_ne_fresh hinv.base.all.fu.invF hpt
  setT := fun s trans hnd h => ⟨(C10U.stepInv_usage hn).setT s trans hnd h.base, h.keys, h.limits⟩
  empty := ⟨(C10U.stepInv_usage hn).empty, empty_idsIn nw, empty_limits nw⟩

theorem C10_limits_reachable (nw : Network) (hn : NetHyp nw) (hovf : OvfNode nw) : ∀ (ops : List SOp) (s s' : Schedule),
    InvL nw s → (∀ op ∈ ops, ArgsOKF op) → runOps nw s ops = some s' → InvL nw s'
  | [], s, s', hinv, _, h => by simp only [runOps, Option.some.injEq] at h; rw [← h]; exact hinv
  | op :: rest, s, s', hinv, hargs, h => by
    unfold runOps at h
    split at h
    · rename_i r hr
      exact C10_limits_reachable nw hn hovf rest r.sched s'
        ((stepInv_limits hn hovf).step s op r hinv (hargs op (by simp)) hr) (fun o ho => hargs o (by simp [ho])) h
    · cases h

/-- **C10 / C02 (depot limits), every history**: in every schedule the model reaches from the empty
    schedule by public modifications (provider ≠ receiver in reassignments), every depot except the
    overflow depot holds, per vehicle type, at most as many starting vehicles as its per-type
    capacity, and in total at most its total capacity -/
theorem C10_limits_from_empty (nw : Network) (hn : NetHyp nw) (hovf : OvfNode nw) (ops : List SOp) (s' : Schedule)
    (hargs : ∀ op ∈ ops, ArgsOKF op) (h : runOps nw (Schedule.empty nw) ops = some s') :
    Limits nw s'.depotUsage :=
  (C10_limits_reachable nw hn hovf ops _ s' (stepInv_limits hn hovf).empty hargs h).limits

/-- **C02 at pipeline level**: the start schedule, the local-search result and the returned schedule
    of the modelled pipeline respect the depot limits (with all invariants of `C10_usage_pipeline`) -/
theorem C02_pipeline_limits (nw : Network) (hn : NetHyp nw) (hovf : OvfNode nw) (o : Solve.Oracle)
    (hopt : ∀ s, ((o.optimise s).map (·.1)).Nodup) (tr : Solve.Trace) (h : Solve.solve nw o = .ok tr) :
    InvL nw tr.start ∧ InvL nw tr.afterSearch ∧ InvL nw tr.final :=
  C11A.solve_inv (stepInv_limits hn hovf) o hopt tr h

/-- … and every candidate the search evaluates -/
theorem C11_candidates_limits (nw : Network) (hn : NetHyp nw) (hovf : OvfNode nw) {limit threshold : Option Nat}
    {s : Schedule} {last : SwapInfo} {cands : List Swaps.Candidate} (hinv : InvL nw s)
    (h : Swaps.neighborsOf nw limit threshold s last = .ok cands) : ∀ c ∈ cands, InvL nw c.sched :=
  C11A.neighbors_invF (stepInv_limits hn hovf).toStepInv0 hinv h

/-- the limits in the vocabulary of the depot check: `spawnedCount` / `spawnedTotal` -/
theorem limits_counts {nw : Network} {u : DepotUsage} (hl : Limits nw u) (d : Nat) (hd : d ≠ nw.overflowDepot) :
    (∀ vt, spawnedCount u d vt ≤ nw.capacityOf d vt) ∧ spawnedTotal nw u d ≤ nw.totalCapacityOf d := hl d hd

theorem ovfNode_sound (nw : Network) (h : Spec.ovfNodeB nw = true) : OvfNode nw := by
  unfold Spec.ovfNodeB at h
  exact beq_iff_eq.mp h

end RSSched.C10Lim
