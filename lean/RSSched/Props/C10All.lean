/-
Props/C10All: every clause of C10 in one invariant (`InvAll`) and its three quantifications: every
history of public modifications from the empty schedule, every candidate of the local search, every
stage of the pipeline with the modelled transition optimiser. Clauses: vehicle and dummy listings,
valid real and dummy tours (chronological, connectable, start depot … end depot), only service trips
of the vehicle's type, formation membership, formation / track / depot limits, exact depot
bookkeeping, exact caches (tours, unserved passengers, costs, maintenance violation), and rotation
cycles with exact bookkeeping that hold exactly the real vehicles of each type.
-/
import RSSched.Props.C04Objective
import RSSched.Props.C10Types
namespace RSSched.C10A
open RSSched Schedule Network Spec C10F C15Opt C10Cyc

structure InvAll (nw : Network) (s : Schedule) : Prop where
  obj : C04O.InvO nw s
  types : C10Ty.TypeInv nw s
  formLimits : C02.FormLimits nw s.formations

theorem stepInv0_all {nw : Network} (hn : NetHyp nw) (hovf : C10Lim.OvfNode nw) : C11A.StepInv0 nw (InvAll nw) where
  step := fun s op r hinv hargs h =>
    ⟨(C04O.stepInv0_obj hn hovf).step s op r hinv.obj hargs h,
     C10Ty.C10_types_step nw hn s op r hinv.obj.base.base.base.all.fu.invF.inv hinv.types hargs h,
     C02.C02_limits_step nw s op r hinv.formLimits h⟩
  fresh := fun s p pt hinv hpt => (C04O.stepInv0_obj hn hovf).fresh s p pt hinv.obj hpt
  empty := ⟨(C04O.stepInv0_obj hn hovf).empty, (by intro v t vt ht; simp [Schedule.empty, assocGet?_nil] at ht),
    C02.empty_limits nw⟩

theorem C10_all_reachable (nw : Network) (hn : NetHyp nw) (hovf : C10Lim.OvfNode nw) :
    ∀ (ops : List SOp) (s s' : Schedule), InvAll nw s → (∀ op ∈ ops, ArgsOKF op) → C02.runOps nw s ops = some s' →
      InvAll nw s'
  | [], s, s', hinv, _, h => by simp only [C02.runOps, Option.some.injEq] at h; rw [← h]; exact hinv
  | op :: rest, s, s', hinv, hargs, h => by
    unfold C02.runOps at h
    split at h
    · rename_i r hr
      exact C10_all_reachable nw hn hovf rest r.sched s'
        ((stepInv0_all hn hovf).step s op r hinv (hargs op (by simp)) hr) (fun o ho => hargs o (by simp [ho])) h
    · cases h

/-- **C10, every history, all clauses** -/
theorem C10_all_from_empty (nw : Network) (hn : NetHyp nw) (hovf : C10Lim.OvfNode nw) (ops : List SOp)
    (s' : Schedule) (hargs : ∀ op ∈ ops, ArgsOKF op) (h : C02.runOps nw (Schedule.empty nw) ops = some s') :
    InvAll nw s' :=
  C10_all_reachable nw hn hovf ops _ s' (stepInv0_all hn hovf).empty hargs h

/-- **C11: every candidate of the local search satisfies all clauses** -/
theorem C11_candidates_all (nw : Network) (hn : NetHyp nw) (hovf : C10Lim.OvfNode nw)
    {limit threshold : Option Nat} {s : Schedule} {last : SwapInfo} {cands : List Swaps.Candidate}
    (hinv : InvAll nw s) (h : Swaps.neighborsOf nw limit threshold s last = .ok cands) :
    ∀ c ∈ cands, InvAll nw c.sched :=
  C11A.neighbors_invF (stepInv0_all hn hovf) hinv h

/-- **C01–C05, C09, C10 at pipeline level**: every stage of the pipeline with the modelled transition
    optimiser satisfies all clauses -/
theorem pipeline_all (nw : Network) (hn : NetHyp nw) (hovf : C10Lim.OvfNode nw) (o : Solve.Oracle)
    (p : Pick) (fuel : Nat) (ho : o.optimise = optimise nw p fuel) (tr : Solve.Trace)
    (h : Solve.solve nw o = .ok tr) :
    InvAll nw tr.start ∧ InvAll nw tr.afterSearch ∧ InvAll nw tr.final := by
  refine C11A.solve_inv0 (stepInv0_all hn hovf) o (fun s hs => ?_) tr h
  rw [ho]
  refine ⟨⟨⟨(C10Lim.stepInv_limits hn hovf).setT s _ ?_ hs.obj.base.base, optimise_cyc p fuel hs.obj.base.cycles⟩,
    ⟨hs.obj.tours.listing, hs.obj.tours.dummies, hs.obj.tours.tours⟩⟩, hs.types, hs.formLimits⟩
  rw [optimise_keys]
  exact hs.obj.base.base.base.all.viol.1

/-- in the returned schedule every tour of a real vehicle is a chain of connectable nodes from a start
    depot to an end depot that holds only service trips of the vehicle's type (C01) -/
theorem C01_final_tours (nw : Network) (hn : NetHyp nw) (hovf : C10Lim.OvfNode nw) (o : Solve.Oracle)
    (p : Pick) (fuel : Nat) (ho : o.optimise = optimise nw p fuel) (tr : Solve.Trace)
    (h : Solve.solve nw o = .ok tr) (v : Veh) (t : Tour) (vt : Nat)
    (ht : assocGet? tr.final.tours v = some t) (hvt : assocGet? tr.final.vehicles v = some vt) :
    C10T.TourOK nw t ∧ ∀ n ∈ t.nodes, nw.compatibleWithType n vt = true := by
  obtain ⟨_, _, h3⟩ := pipeline_all nw hn hovf o p fuel ho tr h
  exact ⟨(h3.obj.tours.tours v t ht).toTourOK, h3.types v t vt ht hvt⟩

end RSSched.C10A
