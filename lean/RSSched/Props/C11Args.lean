/-
Props/C11Args: the argument conditions of the every-history theorems hold for the modifications the
local-search swaps perform, so formation membership and valid dummy tours (Props/C10Fit) hold for
every candidate of the neighbourhood, for the search result and for every stage of the modelled
pipeline. Needed on the way: dummy ids are always below the id counter (so the dummy a
`PathExchange` creates is never its own provider).
-/
import RSSched.Props.C10Fit
import RSSched.Props.C16Pipeline
namespace RSSched.C11A
open RSSched Schedule Network Tour Spec C15 C02 C13 C10T C10L C09C C10S C10F C10D C10Fit C11S Swaps

/-! ### dummy ids are below the id counter -/

def KeysLt (T : Tours) (c : Nat) : Prop := ∀ d, (assocGet? T d).isSome = true → d.idx < c

def DFresh (s : Schedule) : Prop := KeysLt s.dummyTours s.counter

theorem klt_mono {T : Tours} {c c' : Nat} (h : KeysLt T c) (hc : c ≤ c') : KeysLt T c' :=
  fun d hd => Nat.lt_of_lt_of_le (h d hd) hc

theorem klt_set {T : Tours} {c : Nat} {k : Veh} {t : Tour} (h : KeysLt T c) (hk : k.idx < c) :
    KeysLt (assocSet T k t) c := by
  intro d hd
  rw [isSome_assocSet] at hd
  by_cases e : d = k
  · rw [e]; exact hk
  · simp only [e, ↓reduceIte] at hd; exact h d hd

theorem klt_erase {T : Tours} {c : Nat} {k : Veh} (h : KeysLt T c) : KeysLt (assocErase T k) c := by
  intro d hd
  rw [isSome_assocErase] at hd
  by_cases e : d = k
  · simp [e] at hd
  · simp only [e, ↓reduceIte] at hd; exact h d hd

theorem klt_addDummy {T : Tours} {ids : List Veh} {c : Nat} {dt : Tour} (h : KeysLt T c) :
    KeysLt (addDummyTour T ids (Veh.dum c) dt).1 (c + 1) :=
  klt_set (klt_mono h (Nat.le_succ c)) (by simp [Veh.dum])

theorem klt_of_addDummy_eq {T a : Tours} {ids b : List Veh} {c : Nat} {dt : Tour} (h : KeysLt T c)
    (e : addDummyTour T ids (Veh.dum c) dt = (a, b)) : KeysLt a (c + 1) := by
  have := klt_addDummy (ids := ids) (dt := dt) h
  rw [e] at this; exact this

theorem utc_klt {s : Schedule} {tours dummyTours : Tours} {costs : Nat} {v : Veh} {t : Tour}
    {r : Tours × Tours × Nat} {c : Nat} (hs : KeysLt s.dummyTours c) (hd : KeysLt dummyTours c)
    (h : updateTourAndCosts s tours dummyTours costs v t = .ok r) : KeysLt r.2.1 c := by
  unfold updateTourAndCosts at h
  split at h
  · rename_i hdum
    simp only [pure, Except.pure, Except.ok.injEq] at h; rw [← h]
    exact klt_set hd (hs v hdum)
  · obtain ⟨old, _, h⟩ := bind_ok h
    obtain ⟨c', _, h⟩ := bind_ok h
    simp only [pure, Except.pure, Except.ok.injEq] at h; rw [← h]; exact hd

theorem updateTours_klt {nw : Network} {s : Schedule} {w' : Work} {provider : Option Veh} {newProv : Option Tour}
    {receiver : Veh} {newRecv : Tour} {moved : List Nat} (hd : DFresh s)
    (h : updateTours nw s (Work.ofSchedule s) provider newProv receiver newRecv moved = .ok w') :
    KeysLt w'.dummyTours s.counter := by
  unfold updateTours at h
  inv_do h
  all_goals (try contradiction)
  all_goals (try (cases h))
  all_goals (try (simp only [pure, Except.pure, Except.ok.injEq] at *))
  all_goals (try subst_vars)
  all_goals (try dsimp only)
  all_goals (first
    | exact utc_klt hd hd (by assumption)
    | exact utc_klt hd (utc_klt hd hd (by assumption)) (by assumption)
    | exact utc_klt hd (klt_erase hd) (by assumption)
    | trace_state)

syntax "close_klt " ident ident : tactic
macro_rules
  | `(tactic| close_klt $h:ident $hd:ident) => `(tactic|
    (all_goals (try contradiction)
     all_goals (try (cases $h:ident))
     all_goals (try (simp only [pure, Except.pure, Except.ok.injEq] at *))
     all_goals (try subst_vars)
     all_goals (try unfold DFresh)
     all_goals (try dsimp only)
     all_goals (first
       | exact $hd
       | exact klt_mono $hd (Nat.le_succ _)
       | exact klt_addDummy $hd
       | exact klt_erase $hd
       | exact klt_of_addDummy_eq $hd (by assumption)
       | (split <;> first | exact $hd | exact klt_addDummy $hd)
       | skip)))

theorem spawn_fresh {nw : Network} {s s' : Schedule} {vt : Nat} {path : List Nat} {v : Veh}
    (hd : DFresh s) (h : spawnVehicleForPath nw s vt path = .ok (s', v)) : DFresh s' := by
  unfold spawnVehicleForPath at h
  inv_do h
  close_klt h hd

theorem delete_fresh {nw : Network} {s s' : Schedule} {v : Veh}
    (hd : DFresh s) (h : replaceVehicleByDummy nw s v = .ok s') : DFresh s' := by
  unfold replaceVehicleByDummy at h
  inv_do h
  close_klt h hd

theorem deleteDummy_fresh {s s1 : Schedule} {d : Veh} (hd : DFresh s) (h : deleteDummy s d = .ok s1) : DFresh s1 := by
  unfold deleteDummy at h
  inv_do h
  close_klt h hd

theorem dummySpawn_fresh {nw : Network} {s s' : Schedule} {d : Veh} {vt : Nat} {v : Veh}
    (hd : DFresh s) (h : spawnToReplaceDummy nw s d vt = .ok (s', v)) : DFresh s' := by
  unfold spawnToReplaceDummy at h
  inv_do h
  all_goals (try contradiction)
  all_goals (try (cases h))
  all_goals (first
    | exact spawn_fresh (deleteDummy_fresh hd (by assumption)) (by assumption)
    | skip)

theorem addPath_fresh {nw : Network} {s s' : Schedule} {v : Veh} {path : List Nat} {rm : Option (List Nat)}
    (hd : DFresh s) (h : addPathToVehicleTour nw s v path = .ok (s', rm)) : DFresh s' := by
  unfold addPathToVehicleTour at h
  inv_do h
  close_klt h hd

theorem rmSeg_fresh {nw : Network} {s s' : Schedule} {v : Veh} {a b : Nat}
    (hd : DFresh s) (h : removeSegment nw s v a b = .ok s') : DFresh s' := by
  unfold removeSegment at h
  inv_do h
  all_goals (try contradiction)
  all_goals (try (cases h))
  all_goals (try (simp only [pure, Except.pure, Except.ok.injEq] at *))
  all_goals (try subst_vars)
  all_goals (first
    | exact delete_fresh hd (by assumption)
    | (have hu := utc_klt hd hd (by assumption)
       unfold DFresh
       dsimp only
       first | exact hu | exact klt_addDummy hu | exact klt_of_addDummy_eq hu (by assumption)
             | (split <;> first | exact hu | exact klt_addDummy hu))
    | skip)

theorem fit_fresh {nw : Network} {s s' : Schedule} {p r : Veh} {a b : Nat}
    (hd : DFresh s) (h : fitReassign nw s p r a b = .ok s') : DFresh s' := by
  unfold fitReassign at h
  inv_do h
  all_goals (try contradiction)
  all_goals (try (cases h))
  all_goals (try (simp only [pure, Except.pure, Except.ok.injEq] at *))
  all_goals (try subst_vars)
  all_goals (
    unfold DFresh
    dsimp only
    exact updateTours_klt hd (by assumption))

theorem override_fresh {nw : Network} {s s' : Schedule} {p r : Veh} {a b : Nat} {d : Option Veh}
    (hd : DFresh s) (h : overrideReassign nw s p r a b = .ok (s', d)) : DFresh s' := by
  unfold overrideReassign at h
  inv_do h
  all_goals (try contradiction)
  all_goals (try (cases h))
  all_goals (try (simp only [pure, Except.pure, Except.ok.injEq] at *))
  all_goals (try subst_vars)
  all_goals (
    have hw := updateTours_klt hd (by assumption)
    unfold DFresh
    dsimp only
    first | exact hw | exact klt_set (klt_mono hw (Nat.le_succ _)) (by simp [Veh.dum]) | exact klt_addDummy hw | trace_state)

theorem improve_fresh {nw : Network} {s s' : Schedule} {vs : Option (List Veh)}
    (hd : DFresh s) (h : improveDepots nw s vs = .ok s') : DFresh s' := by
  unfold improveDepots at h
  dsimp only at h
  obtain ⟨_, _, h⟩ := bind_ok h
  obtain ⟨_, _, h⟩ := bind_ok h
  inv_do h
  close_klt h hd

theorem endGreedy_fresh {nw : Network} {s s' : Schedule}
    (hd : DFresh s) (h : reassignEndDepotsGreedily nw s = .ok s') : DFresh s' := by
  unfold reassignEndDepotsGreedily at h
  obtain ⟨_, _, h⟩ := bind_ok h
  inv_do h
  close_klt h hd

theorem recompute_fresh {nw : Network} {s s' : Schedule} {vts : Option (List Nat)}
    (hd : DFresh s) (h : recomputeTransitionsFor nw s vts = .ok s') : DFresh s' := by
  unfold recomputeTransitionsFor at h
  inv_do h
  close_klt h hd

theorem endConsistent_fresh {nw : Network} {s s' : Schedule}
    (hd : DFresh s) (h : reassignEndDepotsConsistent nw s = .ok s') : DFresh s' := by
  unfold reassignEndDepotsConsistent at h
  obtain ⟨_, _, h⟩ := bind_ok h
  inv_do h
  close_klt h hd

theorem fresh_step (nw : Network) (s : Schedule) (op : SOp) (r : OpResult)
    (hd : DFresh s) (h : applyOp nw s op = .ok r) : DFresh r.sched := by
  unfold applyOp at h
  cases op with
  | init =>
    simp only [pure, Except.pure, Except.ok.injEq] at h
    rw [← h]; intro d hd'; simp [Schedule.empty, assocGet?_nil] at hd'
  | spawn vt path =>
    obtain ⟨⟨s', v⟩, hs, h⟩ := bind_ok h
    simp only [pure, Except.pure, Except.ok.injEq] at h
    rw [← h]; exact spawn_fresh hd hs
  | dummySpawn d vt =>
    obtain ⟨⟨s', v⟩, hs, h⟩ := bind_ok h
    simp only [pure, Except.pure, Except.ok.injEq] at h
    rw [← h]; exact dummySpawn_fresh hd hs
  | delete v =>
    obtain ⟨s', hs, h⟩ := bind_ok h
    simp only [pure, Except.pure, Except.ok.injEq] at h
    rw [← h]; exact delete_fresh hd hs
  | addPath v path =>
    dsimp only at h
    split at h
    · obtain ⟨⟨s', rm⟩, hs, h⟩ := bind_ok h
      simp only [pure, Except.pure, Except.ok.injEq] at h
      rw [← h]; exact addPath_fresh hd hs
    · cases h
  | rmSeg v a b =>
    obtain ⟨s', hs, h⟩ := bind_ok h
    simp only [pure, Except.pure, Except.ok.injEq] at h
    rw [← h]; exact rmSeg_fresh hd hs
  | fit p q a b =>
    obtain ⟨s', hs, h⟩ := bind_ok h
    simp only [pure, Except.pure, Except.ok.injEq] at h
    rw [← h]; exact fit_fresh hd hs
  | override p q a b =>
    obtain ⟨⟨s', d⟩, hs, h⟩ := bind_ok h
    simp only [pure, Except.pure, Except.ok.injEq] at h
    rw [← h]; exact override_fresh hd hs
  | improve vs =>
    obtain ⟨s', hs, h⟩ := bind_ok h
    simp only [pure, Except.pure, Except.ok.injEq] at h
    rw [← h]; exact improve_fresh hd hs
  | endGreedy =>
    obtain ⟨s', hs, h⟩ := bind_ok h
    simp only [pure, Except.pure, Except.ok.injEq] at h
    rw [← h]; exact endGreedy_fresh hd hs
  | recompute vts =>
    obtain ⟨s', hs, h⟩ := bind_ok h
    simp only [pure, Except.pure, Except.ok.injEq] at h
    rw [← h]; exact recompute_fresh hd hs
  | endConsistent =>
    obtain ⟨s', hs, h⟩ := bind_ok h
    simp only [pure, Except.pure, Except.ok.injEq] at h
    rw [← h]; exact endConsistent_fresh hd hs
  | setTrans vt v ci =>
    obtain ⟨tr, _, h⟩ := bind_ok h
    obtain ⟨moved, _, h⟩ := bind_ok h
    simp only [pure, Except.pure, Except.ok.injEq] at h
    rw [← h]; exact hd

/-! ### the invariant carried through the search -/

structure InvF (nw : Network) (s : Schedule) : Prop where
  inv : C10Fit.Inv nw s
  fresh : DFresh s

theorem invF_step (nw : Network) (hn : NetHyp nw) (s : Schedule) (op : SOp) (r : OpResult)
    (hinv : InvF nw s) (hargs : ArgsOKF op) (h : applyOp nw s op = .ok r) : InvF nw r.sched :=
  ⟨C10_forms_step nw hn s op r hinv.inv hargs h, fresh_step nw s op r hinv.fresh h⟩

theorem tour_ne_fresh {nw : Network} {s : Schedule} (hinv : InvF nw s) {p : Veh} {pt : Tour}
    (h : s.tourOf? p = some pt) : p ≠ Veh.dum s.counter := by
  intro e
  by_cases hdm : s.isDummy p = true
  · have := hinv.fresh p (by unfold Schedule.isDummy at hdm; exact hdm)
    rw [e] at this; simp [Veh.dum] at this
  · have hget := tourOf_not_dummy h (by simpa using hdm)
    have := (hinv.inv.tinv.listing.fresh p (by show (assocGet? s.tours p).isSome = true; simp [hget])).1
    rw [e] at this; simp [Veh.dum] at this

/-- an invariant of schedules that every public modification preserves (under the argument
    conditions), that knows the providers of reassignments are not the next dummy id, and that does
    not depend on the rotation cycles -/
structure StepInv0 (nw : Network) (J : Schedule → Prop) : Prop where
  step : ∀ s op r, J s → ArgsOKF op → applyOp nw s op = .ok r → J r.sched
  fresh : ∀ s p pt, J s → s.tourOf? p = some pt → p ≠ Veh.dum s.counter
  empty : J (Schedule.empty nw)

/-- … and independent of the rotation cycles: any transitions (distinct type keys) may be stored -/
structure StepInv (nw : Network) (J : Schedule → Prop) : Prop extends StepInv0 nw J where
  setT : ∀ s trans, (trans.map (·.1)).Nodup → J s → J (setNextDayTransitions s trans)

theorem invF_improve {nw : Network} {J : Schedule → Prop} (hJ : StepInv0 nw J) {s s' : Schedule} {vs : Option (List Veh)}
    (hinv : J s) (h : improveDepots nw s vs = .ok s') : J s' := by
  have : applyOp nw s (.improve vs) = .ok { sched := s' } := by simp [applyOp, h, bind, Except.bind, pure, Except.pure]
  exact hJ.step s (.improve vs) _ hinv trivial this

theorem invF_recompute {nw : Network} {J : Schedule → Prop} (hJ : StepInv0 nw J) {s s' : Schedule} {vts : Option (List Nat)}
    (hinv : J s) (h : recomputeTransitionsFor nw s vts = .ok s') : J s' := by
  have : applyOp nw s (.recompute vts) = .ok { sched := s' } := by simp [applyOp, h, bind, Except.bind, pure, Except.pure]
  exact hJ.step s (.recompute vts) _ hinv trivial this

theorem invF_rmSeg {nw : Network} {J : Schedule → Prop} (hJ : StepInv0 nw J) {s s' : Schedule} {v : Veh} {a b : Nat}
    (hinv : J s) (h : removeSegment nw s v a b = .ok s') : J s' := by
  have : applyOp nw s (.rmSeg v a b) = .ok { sched := s' } := by simp [applyOp, h, bind, Except.bind, pure, Except.pure]
  exact hJ.step s (.rmSeg v a b) _ hinv trivial this

theorem invF_spawn {nw : Network} {J : Schedule → Prop} (hJ : StepInv0 nw J) {s s' : Schedule} {vt : Nat} {path : List Nat} {v : Veh}
    (hinv : J s) (h : spawnVehicleForPath nw s vt path = .ok (s', v)) : J s' := by
  have : applyOp nw s (.spawn vt path) = .ok { sched := s', retVeh := some v } := by
    simp [applyOp, h, bind, Except.bind, pure, Except.pure]
  exact hJ.step s (.spawn vt path) _ hinv trivial this

theorem invF_dummySpawn {nw : Network} {J : Schedule → Prop} (hJ : StepInv0 nw J) {s s' : Schedule} {d : Veh} {vt : Nat} {v : Veh}
    (hinv : J s) (h : spawnToReplaceDummy nw s d vt = .ok (s', v)) : J s' := by
  have : applyOp nw s (.dummySpawn d vt) = .ok { sched := s', retVeh := some v } := by
    simp [applyOp, h, bind, Except.bind, pure, Except.pure]
  exact hJ.step s (.dummySpawn d vt) _ hinv trivial this

theorem invF_addSingle {nw : Network} {J : Schedule → Prop} (hJ : StepInv0 nw J) {s s' : Schedule} {v : Veh} {n : Nat} {rm : Option (List Nat)}
    (hinv : J s) (hnd : (nw.node n).isDepot = false) (h : addPathToVehicleTour nw s v [n] = .ok (s', rm)) :
    J s' := by
  have : applyOp nw s (.addPath v [n]) = .ok { sched := s', retPath := rm } := by
    simp [applyOp, pathNew_single nw n hnd, h, bind, Except.bind, pure, Except.pure]
  exact hJ.step s (.addPath v [n]) _ hinv trivial this

theorem invF_fit {nw : Network} {J : Schedule → Prop} (hJ : StepInv0 nw J) {s s' : Schedule} {p r : Veh} {a b : Nat}
    (hinv : J s) (hne : p ≠ r) (h : fitReassign nw s p r a b = .ok s') : J s' := by
  have : applyOp nw s (.fit p r a b) = .ok { sched := s' } := by simp [applyOp, h, bind, Except.bind, pure, Except.pure]
  exact hJ.step s (.fit p r a b) _ hinv hne this

theorem invF_override {nw : Network} {J : Schedule → Prop} (hJ : StepInv0 nw J) {s : Schedule} {p r : Veh} {a b : Nat}
    {x : Schedule × Option Veh} (hinv : J s) (hne : p ≠ r) (h : overrideReassign nw s p r a b = .ok x) :
    J x.1 := by
  have : applyOp nw s (.override p r a b) = .ok { sched := x.1, retDummy := x.2 } := by
    simp [applyOp, h, bind, Except.bind, pure, Except.pure]
  exact hJ.step s (.override p r a b) _ hinv hne this

theorem invF_endConsistent {nw : Network} {J : Schedule → Prop} (hJ : StepInv0 nw J) {s s' : Schedule}
    (hinv : J s) (h : reassignEndDepotsConsistent nw s = .ok s') : J s' := by
  have : applyOp nw s .endConsistent = .ok { sched := s' } := by simp [applyOp, h, bind, Except.bind, pure, Except.pure]
  exact hJ.step s .endConsistent _ hinv trivial this

theorem invF_idr {nw : Network} {J : Schedule → Prop} (hJ : StepInv0 nw J) {s c : Schedule} {changed : List Veh}
    (hinv : J s) (h : improveDepotAndRecompute nw s changed = .ok c) : J c := by
  unfold improveDepotAndRecompute at h
  obtain ⟨types, _, h⟩ := bind_ok h
  obtain ⟨s1, h1, h⟩ := bind_ok h
  exact invF_recompute hJ (invF_improve hJ hinv h1) h

/-! ### the swaps preserve the invariant -/

syntax "invF_chain " ident ident : tactic
macro_rules
  | `(tactic| invF_chain $hJ:ident $hinv:ident) => `(tactic|
    first
      | exact $hinv
      | exact invF_idr $hJ $hinv (by assumption)
      | exact invF_idr $hJ (invF_addSingle $hJ $hinv (by assumption) (by assumption)) (by assumption)
      | exact invF_idr $hJ (invF_spawn $hJ (invF_addSingle $hJ $hinv (by assumption) (by assumption)) (by assumption)) (by assumption)
      | exact invF_idr $hJ (invF_addSingle $hJ (invF_rmSeg $hJ $hinv (by assumption)) (by assumption) (by assumption)) (by assumption)
      | exact invF_idr $hJ (invF_spawn $hJ (invF_addSingle $hJ (invF_rmSeg $hJ $hinv (by assumption)) (by assumption) (by assumption)) (by assumption)) (by assumption))

theorem invF_hitchHiking {nw : Network} {J : Schedule → Prop} (hJ : StepInv0 nw J) {s c : Schedule} {node : Nat} {v : Veh}
    (hinv : J s) (h : hitchHiking nw s node v = .ok c) : J c := by
  unfold hitchHiking at h
  inv_do h
  all_goals (try contradiction)
  all_goals (try (cases h; done))
  all_goals (simp only [pure, Except.pure, Except.ok.injEq, Bool.not_eq_true] at *)
  all_goals (subst_vars)
  all_goals (invF_chain hJ hinv)

theorem invF_removeSingleNode {nw : Network} {J : Schedule → Prop} (hJ : StepInv0 nw J) {s c : Schedule} {node : Nat} {v : Veh}
    (hinv : J s) (h : removeSingleNode nw s node v = .ok c) : J c := invF_rmSeg hJ hinv h

theorem invF_spawnForMaintenance {nw : Network} {J : Schedule → Prop} (hJ : StepInv0 nw J) {s c : Schedule} {slot : Nat} {v : Veh}
    (hinv : J s) (h : spawnForMaintenance nw s slot v = .ok c) : J c := by
  unfold spawnForMaintenance at h
  inv_do h
  all_goals (try contradiction)
  all_goals (try (cases h; done))
  all_goals (simp only [pure, Except.pure, Except.ok.injEq, Bool.not_eq_true] at *)
  all_goals (subst_vars)
  all_goals (invF_chain hJ hinv)

/-- the dummy `override_reassign` creates is `dummy(counter)` -/
theorem override_newDummy {nw : Network} {s : Schedule} {p r : Veh} {a b : Nat} {x : Schedule × Option Veh} {d : Veh}
    (h : overrideReassign nw s p r a b = .ok x) (hx : x.2 = some d) : d = Veh.dum s.counter := by
  unfold overrideReassign at h
  inv_do h
  all_goals (try contradiction)
  all_goals (try (cases h))
  all_goals (try (simp only [pure, Except.pure, Except.ok.injEq] at *))
  all_goals (try subst_vars)
  all_goals (first
    | (simp only [Option.some.injEq] at hx; exact hx.symm)
    | (simp at hx))

theorem override_prov_tour {nw : Network} {s : Schedule} {p r : Veh} {a b : Nat} {x : Schedule × Option Veh}
    (h : overrideReassign nw s p r a b = .ok x) : ∃ pt, s.tourOf? p = some pt := by
  unfold overrideReassign at h
  inv_do h
  all_goals (try contradiction)
  all_goals (try (cases h; done))
  all_goals exact ⟨_, unwrapO_ok (by assumption : unwrapO (s.tourOf? p) _ = .ok _)⟩

theorem invF_pathExchange {nw : Network} {J : Schedule → Prop} (hJ : StepInv0 nw J) {s c : Schedule} {a b : Nat} {p r : Veh}
    (hinv : J s) (hne : p ≠ r) (h : pathExchange nw s a b p r = .ok c) : J c := by
  unfold pathExchange at h
  inv_do h
  all_goals (try contradiction)
  all_goals (try (cases h; done))
  all_goals (simp only [pure, Except.pure, Except.ok.injEq, Bool.not_eq_true] at *)
  all_goals (subst_vars)
  all_goals (
    have i1 := invF_override (p := p) (r := r) hJ hinv hne (by assumption)
    first
    | exact invF_idr hJ i1 (by assumption)
    | exact invF_idr hJ (invF_dummySpawn hJ i1 (by assumption)) (by assumption)
    | (obtain ⟨pt, hpt⟩ := override_prov_tour (p := p) (r := r) (by assumption)
       have hdp := override_newDummy (p := p) (r := r) (by assumption) rfl
       have hpne := hJ.fresh _ _ _ hinv hpt
       have hne2 : ∀ d : Veh, d = Veh.dum s.counter → d ≠ p := fun d e => by rw [e]; exact fun e' => hpne e'.symm
       exact invF_idr hJ (invF_fit hJ i1 (hne2 _ hdp) (by assumption)) (by assumption)))

/-! ### neighbourhood, search, pipeline -/

theorem neighbors_invF {nw : Network} {J : Schedule → Prop} (hJ : StepInv0 nw J) {limit threshold : Option Nat} {s : Schedule} {last : SwapInfo}
    {cands : List Candidate} (hinv : J s) (h : neighborsOf nw limit threshold s last = .ok cands) :
    ∀ c ∈ cands, J c.sched := by
  unfold neighborsOf at h
  dsimp only at h
  obtain ⟨c1, h1, h⟩ := bind_ok h
  obtain ⟨c2, h2, h⟩ := bind_ok h
  obtain ⟨c3, h3, h⟩ := bind_ok h
  obtain ⟨c4, h4, h⟩ := bind_ok h
  simp only [pure, Except.pure, Except.ok.injEq] at h
  subst h
  intro c hc
  simp only [List.mem_append, List.mem_flatten] at hc
  rcases hc with ((hc | hc) | hc) | hc
  · obtain ⟨l1, ⟨l0, hl0, hl1⟩, hc⟩ := hc
    obtain ⟨m, _, e0⟩ := mem_mapMR h1 l0 hl0
    obtain ⟨v, _, e1⟩ := mem_mapMR e0 l1 hl1
    exact invF_spawnForMaintenance hJ hinv (okOnly_mem e1 hc)
  · obtain ⟨l2, ⟨l1, ⟨l0, hl0, hl1⟩, hl2⟩, hc⟩ := hc
    obtain ⟨p, _, e0⟩ := mem_mapMR h2 l0 hl0
    obtain ⟨segs, _, e0⟩ := bind_ok e0
    obtain ⟨⟨a, b⟩, _, e1⟩ := mem_mapMR e0 l1 hl1
    obtain ⟨r, hr, e2⟩ := mem_mapMR e1 l2 hl2
    have hne : p ≠ r := by
      have := (List.mem_filter.mp hr).2
      intro e; subst e; simp at this
    exact invF_pathExchange hJ hinv hne (okOnly_mem e2 hc)
  · obtain ⟨l1, ⟨l0, hl0, hl1⟩, hc⟩ := hc
    obtain ⟨v, _, e0⟩ := mem_mapMR h3 l0 hl0
    obtain ⟨vt, _, e0⟩ := bind_ok e0
    obtain ⟨n, _, e1⟩ := mem_mapMR e0 l1 hl1
    exact invF_hitchHiking hJ hinv (okOnly_mem e1 hc)
  · obtain ⟨l1, ⟨l0, hl0, hl1⟩, hc⟩ := hc
    obtain ⟨v, _, e0⟩ := mem_mapMR h4 l0 hl0
    obtain ⟨t, _, e0⟩ := bind_ok e0
    obtain ⟨n, _, e1⟩ := mem_mapMR e0 l1 hl1
    exact invF_removeSingleNode hJ hinv (okOnly_mem e1 hc)

theorem nbrs_invF {nw : Network} {J : Schedule → Prop} (hJ : StepInv0 nw J) {limit threshold : Option Nat} {s c : Schedule}
    (hinv : J s) (hc : c ∈ Solve.nbrs nw limit threshold s) : J c := by
  unfold Solve.nbrs at hc
  split at hc
  · rename_i cs hcs
    obtain ⟨cand, hm, e⟩ := List.mem_map.mp hc
    rw [← e]; exact neighbors_invF hJ hinv hcs cand hm
  · cases hc

/-- **C11 / C03 / C10 at search level**: formation membership, valid real and dummy tours and the
    listing hold for every schedule the local search accepts and for its result, whatever the fuel -/
theorem search_invF (nw : Network) {J : Schedule → Prop} (hJ : StepInv0 nw J) (limit threshold : Option Nat) :
    ∀ (fuel : Nat) (s : Schedule), J s →
    J (searchFuel Schedule.objective (Solve.nbrs nw limit threshold) fuel s).1
  | 0, s, h => h
  | fuel + 1, s, h => by
    unfold searchFuel
    split
    · exact h
    · rename_i s' hs'
      exact search_invF nw hJ limit threshold fuel s' (nbrs_invF hJ h (improve_mem _ _ s s' hs'))

theorem spawnFold_invF {nw : Network} {J : Schedule → Prop} (hJ : StepInv0 nw J) (vt : Nat) : ∀ (tours : List (List Nat)) (s c : Schedule),
    J s → tours.foldlM (fun (sc : Schedule) tour => do
      let (s', _) ← spawnVehicleForPath nw sc vt tour
      pure s') s = .ok c → J c
  | [], s, c, hi, h => by
    simp only [List.foldlM_nil, pure, Except.pure, Except.ok.injEq] at h; rw [← h]; exact hi
  | t :: rest, s, c, hi, h => by
    rw [List.foldlM_cons] at h
    obtain ⟨s1, h1, h⟩ := bind_ok h
    obtain ⟨⟨s', v⟩, hs, h1⟩ := bind_ok h1
    simp only [pure, Except.pure, Except.ok.injEq] at h1
    subst h1
    exact spawnFold_invF hJ vt rest _ c (invF_spawn hJ hi hs) h

theorem fromToursFold_invF {nw : Network} {J : Schedule → Prop} (hJ : StepInv0 nw J) : ∀ (byType : List (Nat × List (List Nat))) (s c : Schedule),
    J s → byType.foldlM (fun (sch : Schedule) (p : Nat × List (List Nat)) =>
      p.2.foldlM (fun (sc : Schedule) tour => do
        let (s', _) ← spawnVehicleForPath nw sc p.1 tour
        pure s') sch) s = .ok c → J c
  | [], s, c, hi, h => by
    simp only [List.foldlM_nil, pure, Except.pure, Except.ok.injEq] at h; rw [← h]; exact hi
  | p :: rest, s, c, hi, h => by
    rw [List.foldlM_cons] at h
    obtain ⟨s1, h1, h⟩ := bind_ok h
    exact fromToursFold_invF hJ rest s1 c (spawnFold_invF hJ p.1 p.2 s s1 hi h1) h

/-- every stage of the modelled pipeline satisfies the invariant -/
theorem solve_inv0 {nw : Network} {J : Schedule → Prop} (hJ : StepInv0 nw J) (o : Solve.Oracle)
    (hoptJ : ∀ s, J s → J (setNextDayTransitions s (o.optimise s))) (tr : Solve.Trace)
    (h : Solve.solve nw o = .ok tr) : J tr.start ∧ J tr.afterSearch ∧ J tr.final := by
  unfold Solve.solve at h
  obtain ⟨flow, hf, h⟩ := bind_ok h
  obtain ⟨start, hs, h⟩ := bind_ok h
  dsimp only at h
  obtain ⟨final, hfin, h⟩ := bind_ok h
  simp only [pure, Except.pure, Except.ok.injEq] at h
  subst h
  dsimp only
  have i1 : J flow := fromToursFold_invF hJ o.tours _ flow hJ.empty hf
  have i2 : J start := invF_improve hJ i1 hs
  have i3 : J (if nw.maintNodes.isEmpty then start
      else (searchFuel Schedule.objective (Solve.nbrs nw o.limit o.threshold) o.fuel start).1) := by
    split
    · exact i2
    · exact search_invF nw hJ o.limit o.threshold o.fuel start i2
  have i4 := hoptJ _ i3
  exact ⟨i2, i3, invF_endConsistent hJ i4 hfin⟩

theorem solve_inv {nw : Network} {J : Schedule → Prop} (hJ : StepInv nw J) (o : Solve.Oracle)
    (hopt : ∀ s, ((o.optimise s).map (·.1)).Nodup) (tr : Solve.Trace) (h : Solve.solve nw o = .ok tr) : J tr.start ∧ J tr.afterSearch ∧ J tr.final :=
  solve_inv0 hJ.toStepInv0 o (fun s hs => hJ.setT s _ (hopt s) hs) tr h

/-! ### the instance: formation membership, valid tours, dummy ids -/

theorem stepInv_invF {nw : Network} (hn : NetHyp nw) : StepInv nw (InvF nw) where
  step := fun s op r hinv hargs h => invF_step nw hn s op r hinv hargs h
  fresh := fun _ _ _ hinv hpt => tour_ne_fresh hinv hpt
  setT := fun _ _ _ h => ⟨⟨⟨h.inv.tinv.listing, h.inv.tinv.dummies, h.inv.tinv.tours⟩, h.inv.dok, h.inv.forms⟩, h.fresh⟩
  empty := ⟨empty_inv nw, by intro d hd; simp [Schedule.empty, assocGet?_nil] at hd⟩

/-- **C03 / C10 at pipeline level**: for every network satisfying the decidable hypotheses, every
    decoded flow, every number of local-search steps and every transition optimiser — if the modelled
    `solve_instance` returns, then in the start schedule, the local-search result and the returned
    schedule every vehicle is listed at most once per formation and exactly on the activities of its
    own tour, every real tour is a connectable depot-to-depot chain, every dummy tour a non-empty
    time-ordered list of activities -/
theorem C03_pipeline_membership (nw : Network) (hn : NetHyp nw) (o : Solve.Oracle)
    (hopt : ∀ s, ((o.optimise s).map (·.1)).Nodup) (tr : Solve.Trace) (h : Solve.solve nw o = .ok tr) :
    InvF nw tr.start ∧ InvF nw tr.afterSearch ∧ InvF nw tr.final ∧
    ∀ n, (formOf tr.final.formations n).Nodup ∧
      ∀ v, v ∈ formOf tr.final.formations n ↔
        ∃ t, assocGet? tr.final.tours v = some t ∧ n ∈ t.nodes ∧ (nw.node n).isDepot = false := by
  obtain ⟨i2, i3, i5⟩ := solve_inv (stepInv_invF hn) o hopt tr h
  exact ⟨i2, i3, i5, fun n => C10_formation_membership hn i5.inv n⟩

/-- every candidate of every neighbourhood satisfies the invariant (C11) -/
theorem C11_candidates_membership (nw : Network) (hn : NetHyp nw) {limit threshold : Option Nat} {s : Schedule}
    {last : SwapInfo} {cands : List Candidate} (hinv : InvF nw s)
    (h : neighborsOf nw limit threshold s last = .ok cands) : ∀ c ∈ cands, InvF nw c.sched :=
  neighbors_invF (stepInv_invF hn).toStepInv0 hinv h

end RSSched.C11A
