/-
Props/C10Tours: the tour clause of C10 / C01 at schedule level, for the model: every real vehicle's
tour is `start depot :: activities ++ [end depot]` with all consecutive nodes connectable (`TourOK`),
in every schedule reachable by public modifications.

History: the first version of this file proved the clause only under the hypothesis that the provider
of a reassignment is a real vehicle. With a dummy provider the moved path is a slice of a dummy tour,
and dummy tours are not chains (`Tour::new_dummy` keeps only the service trips of a path, so two kept
trips may have been connected only through a dropped maintenance slot). The hypothesis the proof
forced was a real defect of the code (finding F18: `override u1 v2 a b` after `spawn [a, m, b]`,
`delete` put the non-connectable pair a, b into a real tour); it was repaired in /repo ("fix:
reassigning from a dummy tour must hand only connectable paths to a real vehicle"), the model follows
the repaired code and the theorem below has no such hypothesis any more.
-/
import RSSched.Props.C10Tour
import RSSched.Props.C09Costs
namespace RSSched.C10S
open RSSched Schedule Network Tour Spec C15 C02 C10T C10L C09C

def ToursOK (nw : Network) (T : Tours) : Prop := ∀ v t, assocGet? T v = some t → TourOK nw t

theorem toursOK_set {nw : Network} {T : Tours} {v : Veh} {t : Tour} (h : ToursOK nw T) (ht : TourOK nw t) :
    ToursOK nw (assocSet T v t) := by
  intro w t' hw
  rw [assocGet?_assocSet] at hw
  by_cases e : w = v
  · simp only [e, ↓reduceIte, Option.some.injEq] at hw; rw [← hw]; exact ht
  · simp only [e, ↓reduceIte] at hw; exact h w t' hw

theorem toursOK_erase {nw : Network} {T : Tours} {v : Veh} (h : ToursOK nw T) : ToursOK nw (assocErase T v) := by
  intro w t' hw
  rw [assocGet?_assocErase] at hw
  by_cases e : w = v
  · simp [e] at hw
  · simp only [e, ↓reduceIte] at hw; exact h w t' hw

/-- the removed part of a tour contains an activity, and is a chain if the tour is one -/
theorem removed_facts {nw : Network} {t : Tour} {a b : Nat} {ot : Option Tour} {path : List Nat}
    (h : Tour.remove nw t a b = .ok (ot, path)) :
    hasNonDepot nw path = true ∧ (chainB nw t.nodes = true → chainB nw path = true) := by
  unfold Tour.remove at h
  obtain ⟨s, _, h⟩ := C09.bindR_inv h
  obtain ⟨e, _, h⟩ := C09.bindR_inv h
  obtain ⟨u, _, h⟩ := C09.bindR_inv h
  obtain ⟨removed, hrem, h⟩ := C09.bindR_inv h
  obtain ⟨ud, _, h⟩ := C09.bindR_inv h
  obtain ⟨sd', _, h⟩ := C09.bindR_inv h
  obtain ⟨seg, _, h⟩ := C09.bindR_inv h
  obtain ⟨dh0, _, h⟩ := C09.bindR_inv h
  obtain ⟨gapD, _, h⟩ := C09.bindR_inv h
  obtain ⟨cseg, _, h⟩ := C09.bindR_inv h
  obtain ⟨c0, _, h⟩ := C09.bindR_inv h
  obtain ⟨gapC, _, h⟩ := C09.bindR_inv h
  obtain ⟨_, _, hremeq⟩ := C09.slice_inv hrem
  dsimp only at h
  split at h
  · rename_i p hp
    have hpr : p = removed := C12.pathTrusted_some nw _ _ hp
    have hpath : path = removed := by
      split at h
      · simp only [pure, Except.pure, Except.ok.injEq, Prod.mk.injEq] at h; rw [← h.2, hpr]
      · simp only [pure, Except.pure, Except.ok.injEq, Prod.mk.injEq] at h; rw [← h.2, hpr]
    refine ⟨?_, ?_⟩
    · rw [hpath]
      unfold pathTrusted at hp
      split at hp
      · cases hp
      · rename_i hall
        unfold hasNonDepot
        rw [List.any_eq_true]
        apply Classical.byContradiction
        intro hne
        apply hall
        rw [List.all_eq_true]
        intro x hx
        cases hd : (nw.node x).isDepot
        · exact absurd ⟨x, hx, by simp [hd]⟩ hne
        · rfl
    · intro hc
      rw [hpath, hremeq]
      exact C01.chainB_take nw _ _ (C01.chainB_drop nw _ _ hc)
  · cases h

/-- the removed part of a valid real tour is a valid path -/
theorem removed_pathOK {nw : Network} {t : Tour} {a b : Nat} {ot : Option Tour} {path : List Nat}
    (ht : TourOK nw t) (h : Tour.remove nw t a b = .ok (ot, path)) : PathOK nw path :=
  ⟨(removed_facts h).2 ht.chain, (removed_facts h).1⟩

theorem pathNew_ok {nw : Network} {nodes p : List Nat} (h : pathNew nw nodes = .ok (some p)) : PathOK nw p := by
  unfold pathNew at h
  split at h
  · cases h
  · rename_i hany
    simp only [pure, Except.pure, Except.ok.injEq] at h
    have hp : p = nodes := C12.pathTrusted_some nw _ _ h
    subst hp
    refine ⟨?_, ?_⟩
    · unfold chainB
      rw [List.all_eq_true]
      intro x hx
      cases hc : nw.canReach x.1 x.2
      · exact absurd (List.any_eq_true.mpr ⟨x, hx, by simp [hc]⟩) hany
      · rfl
    · unfold pathTrusted at h
      split at h
      · cases h
      · rename_i hall
        unfold hasNonDepot
        rw [List.any_eq_true]
        apply Classical.byContradiction
        intro hne
        apply hall
        rw [List.all_eq_true]
        intro x hx
        cases hd : (nw.node x).isDepot
        · exact absurd ⟨x, hx, by simp [hd]⟩ hne
        · rfl

theorem tourOf_cases {s : Schedule} {v : Veh} {t : Tour} (h : s.tourOf? v = some t) :
    assocGet? s.tours v = some t ∨ s.isDummy v = true := by
  unfold Schedule.tourOf? at h
  split at h
  · left; rename_i t' ht; rw [ht, ← h]
  · right; unfold Schedule.isDummy; rw [h]; rfl

theorem tourOf_ok {nw : Network} {s : Schedule} {v : Veh} {t : Tour} {site : String} (ho : ToursOK nw s.tours)
    (h : unwrapO (s.tourOf? v) site = .ok t) (hnd : s.isDummy v = false) : TourOK nw t := by
  rcases tourOf_cases (unwrapO_ok h) with h1 | h1
  · exact ho v t h1
  · rw [hnd] at h1; cases h1

theorem utc_toursOK {nw : Network} {s : Schedule} {tours dummyTours : Tours} {costs : Nat} {v : Veh} {t : Tour}
    {r : Tours × Tours × Nat} (ho : ToursOK nw tours) (ht : s.isDummy v = false → TourOK nw t)
    (h : updateTourAndCosts s tours dummyTours costs v t = .ok r) : ToursOK nw r.1 := by
  unfold updateTourAndCosts at h
  split at h
  · simp only [pure, Except.pure, Except.ok.injEq] at h; rw [← h]; exact ho
  · rename_i hnd
    obtain ⟨old, _, h⟩ := bind_ok h
    obtain ⟨c', _, h⟩ := bind_ok h
    simp only [pure, Except.pure, Except.ok.injEq] at h; rw [← h]
    exact toursOK_set ho (ht (by simpa using hnd))

theorem updateTours_toursOK {nw : Network} {s : Schedule} {w w' : Work} {p : Veh} {newProv : Option Tour}
    {receiver : Veh} {newRecv : Tour} {moved : List Nat} (ho : ToursOK nw w.tours)
    (hp : ∀ t, newProv = some t → s.isDummy p = false → TourOK nw t)
    (hr : s.isDummy receiver = false → TourOK nw newRecv)
    (h : updateTours nw s w (some p) newProv receiver newRecv moved = .ok w') : ToursOK nw w'.tours := by
  cases newProv with
  | some t =>
    have hp' := hp t rfl
    unfold updateTours at h
    inv_do h
    all_goals (try contradiction)
    all_goals (try (cases h))
    all_goals (try (simp only [pure, Except.pure, Except.ok.injEq] at *))
    all_goals (try subst_vars)
    all_goals (try dsimp only)
    all_goals (first
      | exact utc_toursOK (utc_toursOK ho hp' (by assumption)) hr (by assumption)
      | trace_state)
  | none =>
    unfold updateTours at h
    inv_do h
    all_goals (try contradiction)
    all_goals (try (cases h))
    all_goals (try (simp only [pure, Except.pure, Except.ok.injEq] at *))
    all_goals (try subst_vars)
    all_goals (try dsimp only)
    all_goals (first
      | exact utc_toursOK ho hr (by assumption)
      | exact utc_toursOK (toursOK_erase ho) hr (by assumption)
      | trace_state)


theorem fitLoop_tourOK (nw : Network) (hd : C17.DepotTimes nw) (hw : NodesWF' nw) (chk : Bool) :
    ∀ (fuel : Nat) (prov : Option Tour) (recv : Tour) (rem : Option (List Nat)) (moved : List Nat)
      (np : Option Tour) (nr : Tour) (mv : List Nat),
      (∀ t, prov = some t → TourOK nw t) → fitLoop nw chk fuel prov recv rem moved = .ok (np, nr, mv) →
      (∀ t, np = some t → TourOK nw t) ∧ (TourOK nw recv → TourOK nw nr)
  | 0, prov, recv, rem, moved, np, nr, mv, hprov, h => by
    unfold fitLoop at h
    simp only [pure, Except.pure, Except.ok.injEq, Prod.mk.injEq] at h
    obtain ⟨h1, h2, _⟩ := h
    subst h1; subst h2
    exact ⟨hprov, id⟩
  | fuel + 1, prov, recv, rem, moved, np, nr, mv, hprov, h => by
    have ih := fitLoop_tourOK nw hd hw chk fuel
    unfold fitLoop at h
    inv_do h
    all_goals (try contradiction)
    all_goals (try (cases h))
    all_goals (first
      | exact ih _ _ _ _ _ _ _ hprov h
      | exact ⟨hprov, id⟩
      | (have hp := hprov _ (unwrapO_ok (by assumption))
         have h1 := ih _ _ _ _ _ _ _ (fun t e => by subst e; exact remove_tourOK nw _ _ _ _ _ hp (by assumption)) h
         exact ⟨h1.1, fun hr => h1.2 (insert_tourOK nw hd hw _ _ _ _ hr (removed_pathOK hp (by assumption)) (by assumption))⟩)
      | trace_state)

theorem chain_of_neg {nw : Network} {l : List Nat} (h : ¬(true && !isChain nw l) = true) : chainB nw l = true := by
  cases hc : isChain nw l
  · simp [hc] at h
  · exact hc

/-- with the path check on (dummy provider, real receiver) the receiver stays valid whatever the
    provider's tour looks like -/
theorem fitLoop_recvOK (nw : Network) (hd : C17.DepotTimes nw) (hw : NodesWF' nw) :
    ∀ (fuel : Nat) (prov : Option Tour) (recv : Tour) (rem : Option (List Nat)) (moved : List Nat)
      (np : Option Tour) (nr : Tour) (mv : List Nat),
      fitLoop nw true fuel prov recv rem moved = .ok (np, nr, mv) → TourOK nw recv → TourOK nw nr
  | 0, prov, recv, rem, moved, np, nr, mv, h, hr => by
    unfold fitLoop at h
    simp only [pure, Except.pure, Except.ok.injEq, Prod.mk.injEq] at h
    obtain ⟨h1, h2, _⟩ := h
    subst h2
    exact hr
  | fuel + 1, prov, recv, rem, moved, np, nr, mv, h, hr => by
    have ih := fitLoop_recvOK nw hd hw fuel
    unfold fitLoop at h
    inv_do h
    all_goals (try contradiction)
    all_goals (try (cases h))
    all_goals (first
      | exact ih _ _ _ _ _ _ _ h hr
      | exact hr
      | skip)
    all_goals (
      have hneg := ‹¬(true && !isChain nw _) = true›
      exact ih _ _ _ _ _ _ _ h (insert_tourOK nw hd hw _ _ _ _ hr
        ⟨chain_of_neg hneg, (removed_facts (by assumption)).1⟩ (by assumption)))

syntax "prep_goals " ident : tactic
macro_rules
  | `(tactic| prep_goals $h:ident) => `(tactic|
    (all_goals (try contradiction)
     all_goals (try (cases $h:ident))
     all_goals (try (simp only [pure, Except.pure, Except.ok.injEq] at *))
     all_goals (try subst_vars)
     all_goals (try dsimp only)))

theorem spawn_toursOK {nw : Network} {s s' : Schedule} {vt : Nat} {path : List Nat} {v : Veh}
    (ho : ToursOK nw s.tours) (h : spawnVehicleForPath nw s vt path = .ok (s', v)) : ToursOK nw s'.tours := by
  unfold spawnVehicleForPath at h
  inv_do h
  prep_goals h
  all_goals (first
    | exact toursOK_set ho (new_tourOK nw _ _ (by assumption))
    | trace_state)

theorem delete_toursOK {nw : Network} {s s' : Schedule} {v : Veh}
    (ho : ToursOK nw s.tours) (h : replaceVehicleByDummy nw s v = .ok s') : ToursOK nw s'.tours := by
  unfold replaceVehicleByDummy at h
  inv_do h
  prep_goals h
  all_goals (first
    | exact toursOK_erase ho
    | trace_state)

theorem dummySpawn_toursOK {nw : Network} {s s' : Schedule} {d : Veh} {vt : Nat} {v : Veh}
    (ho : ToursOK nw s.tours) (h : spawnToReplaceDummy nw s d vt = .ok (s', v)) : ToursOK nw s'.tours := by
  unfold spawnToReplaceDummy at h
  inv_do h
  all_goals (try contradiction)
  all_goals (try (cases h))
  all_goals (
    have hc := deleteDummy_core (by assumption)
    have ht := congrArg Core.tours hc
    refine spawn_toursOK ?_ h
    change ToursOK nw (coreOf _).tours
    rw [ht]; exact ho)

theorem addPath_toursOK {nw : Network} (hd : C17.DepotTimes nw) (hw : NodesWF' nw) {s s' : Schedule} {v : Veh}
    {path : List Nat} {rm : Option (List Nat)} (ho : ToursOK nw s.tours) (hp : PathOK nw path)
    (h : addPathToVehicleTour nw s v path = .ok (s', rm)) : ToursOK nw s'.tours := by
  unfold addPathToVehicleTour at h
  inv_do h
  prep_goals h
  all_goals (first
    | exact toursOK_set ho (insert_tourOK nw hd hw _ _ _ _ (ho _ _ (unwrapO_ok (by assumption))) hp (by assumption))
    | trace_state)

theorem tourOf_veh_ok {nw : Network} {s : Schedule} {v : Veh} {t : Tour} {site : String} (hi : ListInv s)
    (ho : ToursOK nw s.tours) (hv : ¬ (!s.isVehicle v) = true) (h : unwrapO (s.tourOf? v) site = .ok t) : TourOK nw t := by
  have hv' : s.isVehicle v = true := by simpa using hv
  have := unwrapO_ok h
  rw [(tourOf_vehicle hi hv').1] at this
  exact ho v t this

theorem rmSeg_toursOK {nw : Network} {s s' : Schedule} {v : Veh} {a b : Nat}
    (hi : ListInv s) (ho : ToursOK nw s.tours) (h : removeSegment nw s v a b = .ok s') : ToursOK nw s'.tours := by
  unfold removeSegment at h
  inv_do h
  all_goals (try contradiction)
  all_goals (try (cases h))
  all_goals (first
    | exact delete_toursOK ho (by assumption)
    | (have ht := tourOf_veh_ok hi ho (by assumption) (by assumption)
       subst_vars
       exact utc_toursOK ho (fun _ => remove_tourOK nw _ _ _ _ _ ht (by assumption)) (by assumption))
    | trace_state)


/-- a vehicle with a tour in `tours` is a real vehicle (listing invariant) -/
theorem isVehicle_of_tour {s : Schedule} (hi : ListInv s) {r : Veh} {t : Tour} (h : assocGet? s.tours r = some t) :
    s.isVehicle r = true := by
  have hs : (assocGet? s.vehicles r).isSome = (assocGet? s.tours r).isSome := hi.same r
  unfold Schedule.isVehicle; rw [hs, h]; rfl

theorem recv_cases {s : Schedule} (hi : ListInv s) {r : Veh} {rt : Tour} {site : String}
    (hrt : unwrapO (s.tourOf? r) site = .ok rt) (hr : s.isDummy r = false) :
    assocGet? s.tours r = some rt ∧ s.isVehicle r = true := by
  rcases tourOf_cases (unwrapO_ok hrt) with h1 | h1
  · exact ⟨h1, isVehicle_of_tour hi h1⟩
  · rw [hr] at h1; cases h1

theorem fit_toursOK {nw : Network} (hd : C17.DepotTimes nw) (hw : NodesWF' nw) {s s' : Schedule} {p r : Veh} {a b : Nat}
    (hi : ListInv s) (ho : ToursOK nw s.tours)
    (h : fitReassign nw s p r a b = .ok s') : ToursOK nw s'.tours := by
  unfold fitReassign at h
  obtain ⟨c, _, h⟩ := bind_ok h
  split at h
  · cases h
  obtain ⟨pt, hpt, h⟩ := bind_ok h
  obtain ⟨rt, hrt, h⟩ := bind_ok h
  obtain ⟨path, _, h⟩ := bind_ok h
  obtain ⟨⟨np, nr, mv⟩, hfl, h⟩ := bind_ok h
  dsimp only at h
  obtain ⟨w, hwk, h⟩ := bind_ok h
  obtain ⟨⟨trans, viol⟩, _, h⟩ := bind_ok h
  simp only [pure, Except.pure, Except.ok.injEq] at h
  rw [← h]
  cases hpd : s.isDummy p with
  | false =>
    have hptok := tourOf_ok ho hpt hpd
    have hf := fitLoop_tourOK nw hd hw _ _ _ _ _ _ _ _ _ (fun t e => by cases e; exact hptok) hfl
    exact updateTours_toursOK (w := Work.ofSchedule s) ho (fun t e _ => hf.1 t e)
      (fun hr => hf.2 (tourOf_ok ho hrt hr)) hwk
  | true =>
    refine updateTours_toursOK (w := Work.ofSchedule s) ho (fun t _ hnd => by rw [hpd] at hnd; cases hnd) ?_ hwk
    intro hr
    obtain ⟨hrt', hvr⟩ := recv_cases hi hrt hr
    rw [hpd, hvr] at hfl
    exact fitLoop_recvOK nw hd hw _ _ _ _ _ _ _ _ hfl (ho r rt hrt')

theorem override_toursOK {nw : Network} (hd : C17.DepotTimes nw) (hw : NodesWF' nw) {s s' : Schedule} {p r : Veh}
    {a b : Nat} {d : Option Veh} (hi : ListInv s) (ho : ToursOK nw s.tours)
    (h : overrideReassign nw s p r a b = .ok (s', d)) : ToursOK nw s'.tours := by
  unfold overrideReassign at h
  obtain ⟨c, _, h⟩ := bind_ok h
  split at h
  · cases h
  obtain ⟨pt, hpt, h⟩ := bind_ok h
  obtain ⟨rt, hrt, h⟩ := bind_ok h
  obtain ⟨⟨shrunk, path⟩, hrem, h⟩ := bind_ok h
  dsimp only at h
  split at h
  · cases h
  rename_i hneg
  obtain ⟨⟨newRecv, replaced⟩, hins, h⟩ := bind_ok h
  dsimp only at h
  obtain ⟨w, hwk, h⟩ := bind_ok h
  have hw' : ToursOK nw w.tours := by
    refine updateTours_toursOK (w := Work.ofSchedule s) ho ?_ ?_ hwk
    · intro t e hnd
      subst e
      exact remove_tourOK nw _ _ _ _ _ (tourOf_ok ho hpt hnd) hrem
    · intro hr
      obtain ⟨hrt', hvr⟩ := recv_cases hi hrt hr
      have hchain : chainB nw path = true := by
        cases hpd : s.isDummy p with
        | false => exact (removed_facts hrem).2 (tourOf_ok ho hpt hpd).chain
        | true =>
          rw [hpd, hvr] at hneg
          cases hc : isChain nw path
          · simp [hc] at hneg
          · exact hc
      exact insert_tourOK nw hd hw _ _ _ _ (ho r rt hrt') ⟨hchain, (removed_facts hrem).1⟩ hins
  inv_do h
  all_goals (try contradiction)
  all_goals (try (cases h))
  all_goals (try (simp only [pure, Except.pure, Except.ok.injEq] at *))
  all_goals (try subst_vars)
  all_goals (first | exact hw' | trace_state)

/-! ### the three folds that re-choose depots -/
theorem fold_toursOK (nw : Network) (F : Acc → Veh → R Acc) (L0 : List Veh)
    (hF : ∀ acc v acc', v ∈ L0 → F acc v = .ok acc' → ∃ nt, acc'.1 = assocSet acc.1 v nt ∧ TourOK nw nt) :
    ∀ (L : List Veh) (acc acc' : Acc), (∀ v ∈ L, v ∈ L0) → ToursOK nw acc.1 → L.foldlM F acc = .ok acc' →
      ToursOK nw acc'.1
  | [], acc, acc', _, ho, h => by
    simp only [List.foldlM_nil, pure, Except.pure, Except.ok.injEq] at h
    rw [← h]; exact ho
  | x :: xs, acc, acc', hL, ho, h => by
    rw [List.foldlM_cons] at h
    obtain ⟨a1, h1, h⟩ := bind_ok h
    obtain ⟨nt, hset, hnt⟩ := hF acc x a1 (hL x (by simp)) h1
    refine fold_toursOK nw F L0 hF xs a1 acc' (fun v hv => hL v (by simp [hv])) ?_ h
    rw [hset]; exact toursOK_set ho hnt

theorem vehTour_ok {nw : Network} {s : Schedule} {v : Veh} {t : Tour} (hi : ListInv s) (ho : ToursOK nw s.tours)
    (hv : s.isVehicle v = true) (h : s.tourOf? v = some t) : TourOK nw t := by
  rw [(tourOf_vehicle hi hv).1] at h
  exact ho v t h

theorem improveDepotsOfTour_tourOK {nw : Network} {t nt : Tour} {vt : Nat} {u : DepotUsage} (ht : TourOK nw t)
    (h : improveDepotsOfTour nw t vt u = .ok nt) : TourOK nw nt := by
  unfold improveDepotsOfTour at h
  obtain ⟨fnd, _, h⟩ := bind_ok h
  obtain ⟨ns, _, h⟩ := bind_ok h
  obtain ⟨cur, _, h⟩ := bind_ok h
  dsimp only at h
  have tail : ∀ t1, TourOK nw t1 → (do
      let lnd ← unwrapO (lastNonDepot nw t1) "last_non_depot().unwrap()"
      let ne ← unwrapR (findBestEndDepot nw lnd) "find_best_end_depot_for_despawning(..).unwrap()"
      let curE ← Transition.endDepotU nw t1
      if (ne != curE) = true then unwrapR (replaceEndDepot nw t1 ne) "replace_end_depot(..).unwrap()" else pure t1) = .ok nt →
      TourOK nw nt := by
    intro t1 h1 h
    obtain ⟨lnd, _, h⟩ := bind_ok h
    obtain ⟨ne, _, h⟩ := bind_ok h
    obtain ⟨curE, _, h⟩ := bind_ok h
    split at h
    · exact replaceEndDepot_tourOK nw _ _ _ h1 (unwrapR_ok h)
    · simp only [pure, Except.pure, Except.ok.injEq] at h; rw [← h]; exact h1
  split at h
  · obtain ⟨t1, ht1, h⟩ := bind_ok h
    exact tail t1 (replaceStartDepot_tourOK nw _ _ _ ht (unwrapR_ok ht1)) h
  · obtain ⟨t1, ht1, h⟩ := bind_ok h
    simp only [pure, Except.pure, Except.ok.injEq] at ht1
    subst ht1
    exact tail _ ht h

theorem improveStep_tok {nw : Network} {s : Schedule} {acc acc' : Acc} {v : Veh} (hi : ListInv s)
    (ho : ToursOK nw s.tours) (h : improveStep nw s acc v = .ok acc') :
    ∃ nt, acc'.1 = assocSet acc.1 v nt ∧ TourOK nw nt := by
  obtain ⟨tours, u, costs⟩ := acc
  unfold improveStep at h
  dsimp only at h
  obtain ⟨t, ht, h⟩ := bind_ok h
  obtain ⟨vt, hvt, h⟩ := bind_ok h
  obtain ⟨nt, hnt, h⟩ := bind_ok h
  obtain ⟨c, hc, h⟩ := bind_ok h
  obtain ⟨sd, _, h⟩ := bind_ok h
  obtain ⟨ed, _, h⟩ := bind_ok h
  simp only [pure, Except.pure, Except.ok.injEq] at h
  subst h
  exact ⟨nt, rfl, improveDepotsOfTour_tourOK (vehTour_ok hi ho (typed_isVehicle (unwrapO_ok hvt)) (unwrapO_ok ht)) hnt⟩

theorem greedyStep_tok {nw : Network} {s : Schedule} {acc acc' : Acc} {v : Veh} (hi : ListInv s)
    (ho : ToursOK nw s.tours) (hv : s.isVehicle v = true) (h : greedyStep nw s acc v = .ok acc') :
    ∃ nt, acc'.1 = assocSet acc.1 v nt ∧ TourOK nw nt := by
  obtain ⟨tours, u, costs⟩ := acc
  unfold greedyStep at h
  dsimp only at h
  obtain ⟨t, ht, h⟩ := bind_ok h
  obtain ⟨lnd, _, h⟩ := bind_ok h
  split at h
  · obtain ⟨ne, _, h⟩ := bind_ok h
    obtain ⟨nt, hnt, h⟩ := bind_ok h
    obtain ⟨c, hc, h⟩ := bind_ok h
    obtain ⟨u', _, h⟩ := bind_ok h
    simp only [pure, Except.pure, Except.ok.injEq] at h
    subst h
    exact ⟨nt, rfl, replaceEndDepot_tourOK nw _ _ _ (vehTour_ok hi ho hv (unwrapO_ok ht)) (unwrapR_ok hnt)⟩
  · simp [bind, Except.bind] at h

theorem endStep_tok {nw : Network} {s : Schedule} {acc acc' : Acc} {v : Veh} (hi : ListInv s)
    (ho : ToursOK nw s.tours) (h : C05.endStep nw s acc v = .ok acc') :
    ∃ nt, acc'.1 = assocSet acc.1 v nt ∧ TourOK nw nt := by
  obtain ⟨tours, u, costs⟩ := acc
  unfold C05.endStep at h
  dsimp only at h
  obtain ⟨t, ht, h⟩ := bind_ok h
  obtain ⟨vt, hvt, h⟩ := bind_ok h
  obtain ⟨tr, htr, h⟩ := bind_ok h
  obtain ⟨next, hnext, h⟩ := bind_ok h
  obtain ⟨ntour, hntour, h⟩ := bind_ok h
  obtain ⟨sd, hsd, h⟩ := bind_ok h
  obtain ⟨nt, hnt, h⟩ := bind_ok h
  obtain ⟨c, _, h⟩ := bind_ok h
  obtain ⟨u', _, h⟩ := bind_ok h
  simp only [pure, Except.pure, Except.ok.injEq] at h
  subst h
  exact ⟨nt, rfl, replaceEndDepot_tourOK nw _ _ _ (vehTour_ok hi ho (typed_isVehicle (unwrapO_ok hvt)) (unwrapO_ok ht)) (unwrapR_ok hnt)⟩

theorem endConsistent_toursOK {nw : Network} {s s' : Schedule} (hi : ListInv s) (ho : ToursOK nw s.tours)
    (h : reassignEndDepotsConsistent nw s = .ok s') : ToursOK nw s'.tours := by
  have hunf : reassignEndDepotsConsistent nw s = (do
      let (tours, usage, cst) ← (s.vehiclesAll nw).foldlM (C05.endStep nw s) (s.tours, s.depotUsage, s.costs)
      let (trans, viol) ← updateTransitionsFast nw s s.vehicles tours (s.vehiclesAll nw) [] s.transitions s.violation
      pure { s with tours, transitions := trans, depotUsage := usage, violation := viol, costs := cst }) := rfl
  rw [hunf] at h
  obtain ⟨⟨tours, usage, cst⟩, hfold, h⟩ := bind_ok h
  dsimp only at h
  obtain ⟨⟨trans, viol⟩, _, h⟩ := bind_ok h
  simp only [pure, Except.pure, Except.ok.injEq] at h
  rw [← h]
  exact fold_toursOK nw (C05.endStep nw s) (s.vehiclesAll nw)
    (fun acc v acc' _ hstep => endStep_tok hi ho hstep)
    (s.vehiclesAll nw) (s.tours, s.depotUsage, s.costs) (tours, usage, cst) (fun _ h => h) ho hfold

theorem endGreedy_toursOK {nw : Network} {s s' : Schedule} (hi : ListInv s) (ho : ToursOK nw s.tours)
    (h : reassignEndDepotsGreedily nw s = .ok s') : ToursOK nw s'.tours := by
  have hunf : reassignEndDepotsGreedily nw s = (do
      let (tours, usage, cst) ← (s.vehiclesAll nw).foldlM (greedyStep nw s) (s.tours, s.depotUsage, s.costs)
      let (trans, viol) ← recomputeTransitions nw s.idsByType tours nw.typeIdxs s.transitions s.violation
      pure { s with tours, transitions := trans, depotUsage := usage, violation := viol, costs := cst }) := rfl
  rw [hunf] at h
  obtain ⟨⟨tours, usage, cst⟩, hfold, h⟩ := bind_ok h
  dsimp only at h
  obtain ⟨⟨trans, viol⟩, _, h⟩ := bind_ok h
  simp only [pure, Except.pure, Except.ok.injEq] at h
  rw [← h]
  exact fold_toursOK nw (greedyStep nw s) (s.vehiclesAll nw)
    (fun acc v acc' hv hstep => greedyStep_tok hi ho (listed_isVehicle hi hv) hstep)
    (s.vehiclesAll nw) (s.tours, s.depotUsage, s.costs) (tours, usage, cst) (fun _ h => h) ho hfold

theorem improve_toursOK {nw : Network} {s s' : Schedule} {vs : Option (List Veh)} (hi : ListInv s)
    (ho : ToursOK nw s.tours) (h : improveDepots nw s vs = .ok s') : ToursOK nw s'.tours := by
  unfold improveDepots at h
  dsimp only at h
  obtain ⟨usage0, _, h⟩ := bind_ok h
  have hstep : ∀ (u0 : DepotUsage) (r : Acc),
      (vs.getD (s.vehiclesAll nw)).foldlM (improveStep nw s) (s.tours, u0, s.costs) = .ok r → ToursOK nw r.1 := by
    intro u0 r hfold
    exact fold_toursOK nw (improveStep nw s) (vs.getD (s.vehiclesAll nw))
      (fun acc v acc' _ hst => improveStep_tok hi ho hst)
      _ (s.tours, u0, s.costs) r (fun _ h => h) ho hfold
  obtain ⟨⟨tours, usage, cst⟩, hfold, h⟩ := bind_ok h
  have hc := hstep usage0 (tours, usage, cst) hfold
  inv_do h
  all_goals (try contradiction)
  all_goals (try (cases h))
  all_goals exact hc

theorem recompute_toursOK {nw : Network} {s s' : Schedule} {vts : Option (List Nat)} (ho : ToursOK nw s.tours)
    (h : recomputeTransitionsFor nw s vts = .ok s') : ToursOK nw s'.tours := by
  unfold recomputeTransitionsFor at h
  inv_do h
  all_goals (try contradiction)
  all_goals (try (cases h))
  all_goals exact ho


/-! ### every history -/
structure TInv (nw : Network) (s : Schedule) : Prop where
  listing : ListInv s
  dummies : DummyInv s
  tours : ToursOK nw s.tours

theorem dk_step (nw : Network) (s : Schedule) (op : Spec.SOp) (r : OpResult)
    (hd : DummyInv s) (h : applyOp nw s op = .ok r) : DummyInv r.sched := by
  unfold applyOp at h
  cases op with
  | init =>
    simp only [pure, Except.pure, Except.ok.injEq] at h
    rw [← h]; intro d hd'; simp [Schedule.empty, assocGet?_nil] at hd'
  | spawn vt path =>
    obtain ⟨⟨s', v⟩, hs, h⟩ := bind_ok h
    simp only [pure, Except.pure, Except.ok.injEq] at h
    rw [← h]; exact spawn_dk hd hs
  | dummySpawn d vt =>
    obtain ⟨⟨s', v⟩, hs, h⟩ := bind_ok h
    simp only [pure, Except.pure, Except.ok.injEq] at h
    rw [← h]; exact dummySpawn_dk hd hs
  | delete v =>
    obtain ⟨s', hs, h⟩ := bind_ok h
    simp only [pure, Except.pure, Except.ok.injEq] at h
    rw [← h]; exact delete_dk hd hs
  | addPath v path =>
    dsimp only at h
    split at h
    · obtain ⟨⟨s', rm⟩, hs, h⟩ := bind_ok h
      simp only [pure, Except.pure, Except.ok.injEq] at h
      rw [← h]; exact addPath_dk hd hs
    · cases h
  | rmSeg v a b =>
    obtain ⟨s', hs, h⟩ := bind_ok h
    simp only [pure, Except.pure, Except.ok.injEq] at h
    rw [← h]; exact rmSeg_dk hd hs
  | fit p r a b =>
    obtain ⟨s', hs, h⟩ := bind_ok h
    simp only [pure, Except.pure, Except.ok.injEq] at h
    rw [← h]; exact fit_dk hd hs
  | override p r a b =>
    obtain ⟨⟨s', d⟩, hs, h⟩ := bind_ok h
    simp only [pure, Except.pure, Except.ok.injEq] at h
    rw [← h]; exact override_dk hd hs
  | improve vs =>
    obtain ⟨s', hs, h⟩ := bind_ok h
    simp only [pure, Except.pure, Except.ok.injEq] at h
    rw [← h]; exact improve_dk hd hs
  | endGreedy =>
    obtain ⟨s', hs, h⟩ := bind_ok h
    simp only [pure, Except.pure, Except.ok.injEq] at h
    rw [← h]; exact endGreedy_dk hd hs
  | recompute vts =>
    obtain ⟨s', hs, h⟩ := bind_ok h
    simp only [pure, Except.pure, Except.ok.injEq] at h
    rw [← h]; exact recompute_dk hd hs
  | endConsistent =>
    obtain ⟨s', hs, h⟩ := bind_ok h
    simp only [pure, Except.pure, Except.ok.injEq] at h
    rw [← h]; exact endConsistent_dk hd hs
  | setTrans vt v ci =>
    obtain ⟨tr, _, h⟩ := bind_ok h
    obtain ⟨moved, _, h⟩ := bind_ok h
    simp only [pure, Except.pure, Except.ok.injEq] at h
    rw [← h]; exact hd

theorem C10_tours_step (nw : Network) (hdt : C17.DepotTimes nw) (hw : NodesWF' nw) (s : Schedule) (op : Spec.SOp)
    (r : OpResult) (hinv : TInv nw s) (h : applyOp nw s op = .ok r) : TInv nw r.sched := by
  obtain ⟨hi, hd, ho⟩ := hinv
  refine ⟨C10_listing_step nw s op r hi h, dk_step nw s op r hd h, ?_⟩
  unfold applyOp at h
  cases op with
  | init =>
    simp only [pure, Except.pure, Except.ok.injEq] at h
    rw [← h]; intro v t hv; simp [Schedule.empty, assocGet?_nil] at hv
  | spawn vt path =>
    obtain ⟨⟨s', v⟩, hs, h⟩ := bind_ok h
    simp only [pure, Except.pure, Except.ok.injEq] at h
    rw [← h]; exact spawn_toursOK ho hs
  | dummySpawn d vt =>
    obtain ⟨⟨s', v⟩, hs, h⟩ := bind_ok h
    simp only [pure, Except.pure, Except.ok.injEq] at h
    rw [← h]; exact dummySpawn_toursOK ho hs
  | delete v =>
    obtain ⟨s', hs, h⟩ := bind_ok h
    simp only [pure, Except.pure, Except.ok.injEq] at h
    rw [← h]; exact delete_toursOK ho hs
  | addPath v path =>
    dsimp only at h
    split at h
    · rename_i p hp
      obtain ⟨⟨s', rm⟩, hs, h⟩ := bind_ok h
      simp only [pure, Except.pure, Except.ok.injEq] at h
      rw [← h]; exact addPath_toursOK hdt hw ho (pathNew_ok hp) hs
    · cases h
  | rmSeg v a b =>
    obtain ⟨s', hs, h⟩ := bind_ok h
    simp only [pure, Except.pure, Except.ok.injEq] at h
    rw [← h]; exact rmSeg_toursOK hi ho hs
  | fit p r a b =>
    obtain ⟨s', hs, h⟩ := bind_ok h
    simp only [pure, Except.pure, Except.ok.injEq] at h
    rw [← h]; exact fit_toursOK hdt hw hi ho hs
  | override p r a b =>
    obtain ⟨⟨s', d⟩, hs, h⟩ := bind_ok h
    simp only [pure, Except.pure, Except.ok.injEq] at h
    rw [← h]; exact override_toursOK hdt hw hi ho hs
  | improve vs =>
    obtain ⟨s', hs, h⟩ := bind_ok h
    simp only [pure, Except.pure, Except.ok.injEq] at h
    rw [← h]; exact improve_toursOK hi ho hs
  | endGreedy =>
    obtain ⟨s', hs, h⟩ := bind_ok h
    simp only [pure, Except.pure, Except.ok.injEq] at h
    rw [← h]; exact endGreedy_toursOK hi ho hs
  | recompute vts =>
    obtain ⟨s', hs, h⟩ := bind_ok h
    simp only [pure, Except.pure, Except.ok.injEq] at h
    rw [← h]; exact recompute_toursOK ho hs
  | endConsistent =>
    obtain ⟨s', hs, h⟩ := bind_ok h
    simp only [pure, Except.pure, Except.ok.injEq] at h
    rw [← h]; exact endConsistent_toursOK hi ho hs
  | setTrans vt v ci =>
    obtain ⟨tr, _, h⟩ := bind_ok h
    obtain ⟨moved, _, h⟩ := bind_ok h
    simp only [pure, Except.pure, Except.ok.injEq] at h
    rw [← h]; exact ho

/-- **C10 / C01 (tour clause), every history**: in every schedule the model reaches from the empty
    schedule by public modifications, every real vehicle's tour is start depot, activities, end
    depot with all consecutive nodes connectable -/
theorem C10_tours_reachable (nw : Network) (hdt : C17.DepotTimes nw) (hw : NodesWF' nw) :
    ∀ (ops : List Spec.SOp) (s s' : Schedule),
    TInv nw s → runOps nw s ops = some s' → TInv nw s'
  | [], s, s', hinv, h => by simp only [runOps, Option.some.injEq] at h; rw [← h]; exact hinv
  | op :: rest, s, s', hinv, h => by
    unfold runOps at h
    split at h
    · rename_i r hr
      exact C10_tours_reachable nw hdt hw rest r.sched s' (C10_tours_step nw hdt hw s op r hinv hr) h
    · cases h

theorem C10_tours_from_empty (nw : Network) (hdt : C17.DepotTimes nw) (hw : NodesWF' nw) (ops : List Spec.SOp)
    (s' : Schedule) (h : runOps nw (Schedule.empty nw) ops = some s') :
    TInv nw s' :=
  C10_tours_reachable nw hdt hw ops _ s'
    ⟨empty_listInv nw, by intro d hd; simp [Schedule.empty, assocGet?_nil] at hd,
     by intro v t hv; simp [Schedule.empty, assocGet?_nil] at hv⟩ h

/-- the network hypotheses of the theorems above are decidable on a loaded network: the drivers
    evaluate `tourHypsB` on every network of a run (STAT `c10.tourhyps`) -/
theorem tourHyps_sound (nw : Network) (h : tourHypsB nw = true) : C17.DepotTimes nw ∧ NodesWF' nw := by
  unfold tourHypsB at h
  have hall := List.all_eq_true.mp h
  have hnode : ∀ i, i < nw.nodes.size ∨ nw.node i = default := by
    intro i
    by_cases hi : i < nw.nodes.size
    · exact Or.inl hi
    · right; unfold Network.node; simp [Array.getD, hi]
  refine ⟨⟨?_, ?_⟩, ?_⟩
  · intro i hk
    rcases hnode i with hi | hi
    · have := hall i (by simp [Network.allIdx, hi])
      simp only [Bool.and_eq_true, Bool.or_eq_true, bne_iff_ne, ne_eq, beq_iff_eq] at this
      rcases this.1.1 with h0 | h0
      · exact absurd hk h0
      · exact h0
    · rw [hi]; rfl
  · intro i hk
    rcases hnode i with hi | hi
    · have := hall i (by simp [Network.allIdx, hi])
      simp only [Bool.and_eq_true, Bool.or_eq_true, bne_iff_ne, ne_eq, beq_iff_eq] at this
      rcases this.1.2 with h0 | h0
      · exact absurd hk h0
      · exact h0
    · rw [hi] at hk; cases hk
  · intro i
    rcases hnode i with hi | hi
    · have := hall i (by simp [Network.allIdx, hi])
      simp only [Bool.and_eq_true] at this
      exact this.2
    · rw [hi]; decide

end RSSched.C10S
