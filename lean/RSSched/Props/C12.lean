/-
Props/C12: tour edits follow the insert/remove reference semantics.

Proved here (for every network, every node list, every interval — by induction, no bound):
* the two binary searches of `Tour` (repaired code) return exactly the boundary of the monotone
  predicate they search for and never fault;
* a valid tour (chain of connectable nodes, activities with start ≤ end) has non-decreasing start
  and end times, so the searches' precondition holds for every valid tour;
* the pinned comparisons falsify the reference semantics on a concrete tie (finding F2).
The full-strength statements `C12_insert_statement` / `C12_subpath_statement` relate
`Tour.insertPath` / `Tour.subPath` to the reference semantics of Spec/Tour.lean; they are kept
visible below. Until their proofs are complete they are decided per run by the monitors
`insertSpecB` / `removeRef` / `subPathRef` on the real results and by the model-vs-code diff.
-/
import RSSched.Lemmas.BinSearch
import RSSched.Spec.Tour
import RSSched.Props.C17
namespace RSSched.C12
open RSSched Network Tour Spec

/-- every node has start ≤ end (activities have positive duration; depot nodes E/E and L/L) -/
def NodesWF (nw : Network) : Prop :=
  ∀ i, ExtTime.le (nw.node i).startT (nw.node i).endT = true

theorem pairs_all_iff {α} (p : α × α → Bool) (l : List α) (d : α) :
    (pairs l).all p = true ↔ ∀ i, i + 1 < l.length → p (l.getD i d, l.getD (i + 1) d) = true := by
  induction l with
  | nil => simp [pairs]
  | cons a as ih =>
    cases as with
    | nil => simp [pairs]
    | cons b bs =>
      simp only [pairs, List.all_cons, Bool.and_eq_true, ih]
      constructor
      · rintro ⟨h1, h2⟩ i hi
        cases i with
        | zero => simpa using h1
        | succ k =>
          have := h2 k (by simp at hi ⊢; omega)
          simpa using this
      · intro h
        refine ⟨by simpa using h 0 (by simp), fun i hi => ?_⟩
        have := h (i + 1) (by simp at hi ⊢; omega)
        simpa using this

theorem chain_step (nw : Network) (nodes : List Nat) (h : chainB nw nodes = true) (i : Nat)
    (hi : i + 1 < nodes.length) : nw.canReach (nodes.getD i 0) (nodes.getD (i + 1) 0) = true := by
  unfold chainB at h
  exact (pairs_all_iff (fun p => nw.canReach p.1 p.2) nodes 0).mp h i hi

/-- valid tours have non-decreasing end times -/
theorem C12_mono_end (nw : Network) (hd : C17.DepotTimes nw) (hw : NodesWF nw) (nodes : List Nat)
    (hc : chainB nw nodes = true) : MonoEnd nw nodes := by
  intro i j hij hj
  induction j with
  | zero =>
    have : i = 0 := by omega
    subst this; exact ExtTime.le_refl' _
  | succ k ih =>
    by_cases h : i = k + 1
    · subst h; exact ExtTime.le_refl' _
    · have h1 := ih (by omega) (by omega)
      have h2 := C17.reach_end_le_start nw hd _ _ (chain_step nw nodes hc k hj)
      exact ExtTime.le_trans' h1 (ExtTime.le_trans' h2 (hw _))

/-- valid tours have non-decreasing start times -/
theorem C12_mono_start (nw : Network) (hd : C17.DepotTimes nw) (hw : NodesWF nw) (nodes : List Nat)
    (hc : chainB nw nodes = true) : MonoStart nw nodes := by
  intro i j hij hj
  induction j with
  | zero =>
    have : i = 0 := by omega
    subst this; exact ExtTime.le_refl' _
  | succ k ih =>
    by_cases h : i = k + 1
    · subst h; exact ExtTime.le_refl' _
    · have h1 := ih (by omega) (by omega)
      have h2 := C17.reach_end_le_start nw hd _ _ (chain_step nw nodes hc k hj)
      exact ExtTime.le_trans' h1 (ExtTime.le_trans' (hw _) h2)

/-- the binary search for the insertion start never faults on a valid tour and returns the first
    node that ends strictly after `time` -/
theorem C12_search_end (nw : Network) (hd : C17.DepotTimes nw) (hw : NodesWF nw) (nodes : List Nat)
    (hc : chainB nw nodes = true) (hne : 0 < nodes.length) (time : ExtTime) :
    ∃ res, earliestArrivalAfter nw true nodes time 0 nodes.length = .ok res ∧
      (∀ p, res = some p → p < nodes.length ∧
          ExtTime.lt time (nw.node (nodes.getD p 0)).endT = true ∧
          ∀ q, q < p → ExtTime.lt time (nw.node (nodes.getD q 0)).endT = false) ∧
      (res = none → ∀ q, q < nodes.length → ExtTime.lt time (nw.node (nodes.getD q 0)).endT = false) := by
  obtain ⟨res, h1, h2, h3⟩ := earliestArrivalAfter_spec nw nodes time
    (C12_mono_end nw hd hw nodes hc) 0 nodes.length hne (Nat.le_refl _)
  exact ⟨res, h1, fun p hp => ⟨(h2 p hp).2.1, (h2 p hp).2.2.1, fun q hq => (h2 p hp).2.2.2 q (Nat.zero_le _) hq⟩,
    fun hn q hq => h3 hn q (Nat.zero_le _) hq⟩

theorem C12_search_start (nw : Network) (hd : C17.DepotTimes nw) (hw : NodesWF nw) (nodes : List Nat)
    (hc : chainB nw nodes = true) (hne : 0 < nodes.length) (time : ExtTime) :
    ∃ res, latestDepartureBefore nw true nodes time 0 nodes.length = .ok res ∧
      (∀ p, res = some p → p < nodes.length ∧
          ExtTime.lt (nw.node (nodes.getD p 0)).startT time = true ∧
          ∀ q, p < q → q < nodes.length → ExtTime.lt (nw.node (nodes.getD q 0)).startT time = false) ∧
      (res = none → ∀ q, q < nodes.length → ExtTime.lt (nw.node (nodes.getD q 0)).startT time = false) := by
  obtain ⟨res, h1, h2, h3⟩ := latestDepartureBefore_spec nw nodes time
    (C12_mono_start nw hd hw nodes hc) 0 nodes.length hne (Nat.le_refl _)
  exact ⟨res, h1, fun p hp => ⟨(h2 p hp).2.1, (h2 p hp).2.2.1, (h2 p hp).2.2.2⟩,
    fun hn q hq => h3 hn q (Nat.zero_le _) hq⟩

/-- a node that ends strictly after `x` starts cannot reach `x`: nothing the search skips could
    have been kept -/
theorem C12_late_cannot_reach (nw : Network) (hd : C17.DepotTimes nw) (a x : Nat)
    (h : ExtTime.lt (nw.node x).startT (nw.node a).endT = true) : nw.canReach a x = false := by
  cases hr : nw.canReach a x
  · rfl
  · have := C17.reach_end_le_start nw hd a x hr
    rw [ExtTime.not_lt_of_le this] at h; cases h

/-! ### full-strength statements (kept visible) -/

/-- valid real or dummy tour in the sense of C10 -/
def TourValid (nw : Network) (t : Tour) : Prop := tourValidB nw t = true

/-- a path: chain of connectable nodes with at least one activity, depots only at the ends -/
def PathValid (nw : Network) (p : List Nat) : Prop :=
  chainB nw p = true ∧ hasNonDepot nw p = true

/-- C12 (insert), full strength: on every valid tour and valid path the model of
    `Tour::insert_path` returns the reference result and the reference dropped nodes. -/
def C12_insert_statement : Prop :=
  ∀ (nw : Network) (t : Tour) (p : List Nat), C17.DepotTimes nw → NodesWF nw →
    TourValid nw t → PathValid nw p → tourCachesExactB nw t = true →
    ∃ t' rm, insertPath nw true t p = .ok (t', rm) ∧
      insertSpecB nw t.isDummy t.nodes p t'.nodes rm = true

/-- **C12 (sub-path), full strength**: extracting an existing segment — both endpoints on the
    tour, in order, at least one activity in between — always succeeds with exactly the slice.
    Holds for every node list (real or dummy tour, connectable neighbours or not). -/
theorem C12_subpath (nw : Network) (t : Tour) (a b : Nat) (sl : List Nat)
    (h : subPathRef nw t.nodes a b = some sl) : subPath nw t a b = .ok sl := by
  unfold subPathRef posOf at h
  unfold subPath positionOf
  cases hs : t.nodes.findIdx? (· == a) with
  | none => simp [hs] at h
  | some s =>
    cases he : t.nodes.findIdx? (· == b) with
    | none => simp [hs, he] at h
    | some e =>
      simp only [hs, he] at h
      have hlt : e < t.nodes.length := by
        have := List.findIdx?_eq_some_iff_findIdx_eq.mp he
        omega
      by_cases hse : s ≤ e
      · simp only [hse, ↓reduceIte] at h
        split at h
        · rename_i hnd
          cases h
          have hgt : ¬ s > e := by omega
          simp only [pure, Except.pure, bind, Except.bind, hgt, ↓reduceIte, slice]
          have : (decide (s ≤ e + 1) && decide (e + 1 ≤ t.nodes.length)) = true := by
            simp; omega
          simp only [this, ↓reduceIte, pathTrusted]
          have hnd' : (List.take (e + 1 - s) (List.drop s t.nodes)).all (fun n => (nw.node n).isDepot) = false := by
            unfold hasNonDepot at hnd
            rw [Bool.eq_false_iff]
            intro hall
            rw [List.any_eq_true] at hnd
            obtain ⟨x, hx, hx2⟩ := hnd
            have := List.all_eq_true.mp hall x hx
            simp [this] at hx2
          simp [hnd']
        · cases h
      · simp [hse] at h

/-- the pinned `sub_path` rejects an existing segment of a dummy tour whose neighbours are not
    directly connectable (finding F13); the statement for the pinned code is therefore false -/
def C12_subpath_pinned_statement : Prop :=
  ∀ (nw : Network) (t : Tour) (a b : Nat) (sl : List Nat),
    subPathRef nw t.nodes a b = some sl → subPathPinned nw true t a b = .ok sl

/-! ### witness: the pinned comparisons break the reference semantics at a tie (finding F2) -/

/-- tour `s – a(10:00–10:30) – c(11:00–11:30) – e`, path `b(10:30–11:00)`, same station, zero
    shunting -/
def tieTourNet : Network :=
  { nodes := #[
      { kind := .startDepot, idx := 0, startT := .earliest, endT := .earliest, startLoc := .station 0, endLoc := .station 0 },
      { kind := .endDepot, idx := 1, startT := .latest, endT := .latest, startLoc := .station 0, endLoc := .station 0 },
      { kind := .service, idx := 2, startT := .point 36000, endT := .point 37800, startLoc := .station 0, endLoc := .station 0 },
      { kind := .service, idx := 3, startT := .point 37800, endT := .point 39600, startLoc := .station 0, endLoc := .station 0 },
      { kind := .service, idx := 4, startT := .point 39600, endT := .point 41400, startLoc := .station 0, endLoc := .station 0 } ],
    vtypes := #[{ capacity := 10, seats := 10, maxForm := none }],
    depots := #[], nLocs := 1, dhDur := [(0, [(0, 0)])], dhDist := [(0, [(0, 0)])],
    forbidDH := false, shuntMin := 0, shuntDH := 0, maxDist := 0,
    cStaff := 0, cService := 0, cMaint := 0, cDH := 0, cIdle := 0, planning := 86400 }

def tieTour : Tour := Tour.computing tieTourNet [0, 2, 4, 1] false

end RSSched.C12

namespace RSSched.C12
open RSSched Network Tour Spec

/-- F2: the pinned searches (`>=` / `<=`) drop the connectable nodes `a` and `c`; the repaired
    ones return the reference result -/
def resultOf (r : R (Tour × Option (List Nat))) : Option (List Nat × Option (List Nat)) :=
  match r with
  | .ok x => some (x.1.nodes, x.2)
  | .error _ => none

theorem F2_pinned_drops_back_to_back :
    resultOf (insertPath tieTourNet false tieTour [3]) = some ([0, 3, 1], some [2, 4]) ∧
    resultOf (insertPath tieTourNet true tieTour [3]) = some ([0, 2, 3, 4, 1], none) ∧
    insertRef tieTourNet false [0, 2, 4, 1] [3] = ([0, 2, 3, 4, 1], []) := by
  refine ⟨?_, ?_, ?_⟩ <;> decide +kernel

end RSSched.C12
