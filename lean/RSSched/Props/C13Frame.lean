/-
Props/C13Frame: frame of the depot-only modifications of the model (C13 "change exactly what they
document", C07 "no later stage gives up demand"): `improve_depots`, `reassign_end_depots_greedily`,
`reassign_end_depots_consistent_with_transitions`, `recompute_transitions_for` and
`set_next_day_transitions` leave the vehicle map, all train formations, the dummy tours, both
listings, the id counter and the unserved-passenger figures untouched, for every schedule and
argument. (For the end-depot alignment `C05_reassign` additionally pins down the tours.)
-/
import RSSched.Props.C02Limits
namespace RSSched.C13
open RSSched Schedule C15 C02

/-- the part of a schedule that depot-only modifications must not touch -/
def frameOf (s : Schedule) : List (Veh × Nat) × List (Nat × List Veh) × Tours × List (Nat × List Veh) × List Veh × Nat × (Nat × Nat) :=
  (s.vehicles, s.formations, s.dummyTours, s.idsByType, s.dummyIds, s.counter, s.unserved)

theorem improve_frame {nw : Network} {s s' : Schedule} {vs : Option (List Veh)}
    (h : improveDepots nw s vs = .ok s') : frameOf s' = frameOf s := by
  unfold improveDepots at h
  dsimp only at h
  obtain ⟨_, _, h⟩ := bind_ok h
  obtain ⟨_, _, h⟩ := bind_ok h
  inv_do h
  all_goals (try contradiction)
  all_goals (try (cases h))
  all_goals rfl

theorem endGreedy_frame {nw : Network} {s s' : Schedule}
    (h : reassignEndDepotsGreedily nw s = .ok s') : frameOf s' = frameOf s := by
  unfold reassignEndDepotsGreedily at h
  obtain ⟨_, _, h⟩ := bind_ok h
  inv_do h
  all_goals (try contradiction)
  all_goals (try (cases h))
  all_goals rfl

theorem endConsistent_frame {nw : Network} {s s' : Schedule}
    (h : reassignEndDepotsConsistent nw s = .ok s') : frameOf s' = frameOf s := by
  unfold reassignEndDepotsConsistent at h
  obtain ⟨_, _, h⟩ := bind_ok h
  inv_do h
  all_goals (try contradiction)
  all_goals (try (cases h))
  all_goals rfl

theorem recompute_frame {nw : Network} {s s' : Schedule} {vts : Option (List Nat)}
    (h : recomputeTransitionsFor nw s vts = .ok s') : frameOf s' = frameOf s ∧ s'.tours = s.tours ∧
      s'.depotUsage = s.depotUsage ∧ s'.costs = s.costs := by
  unfold recomputeTransitionsFor at h
  inv_do h
  all_goals (try contradiction)
  all_goals (try (cases h))
  all_goals exact ⟨rfl, rfl, rfl, rfl⟩

/-- **C13 (depot-only frame)** for the operation type of the differential runs -/
theorem C13_depot_only (nw : Network) (s : Schedule) (op : Spec.SOp) (r : OpResult)
    (hop : match op with
      | .improve _ | .endGreedy | .endConsistent | .recompute _ | .setTrans _ _ _ => True
      | _ => False)
    (h : applyOp nw s op = .ok r) : frameOf r.sched = frameOf s := by
  unfold applyOp at h
  cases op with
  | improve vs =>
    obtain ⟨s', hs, h⟩ := bind_ok h
    simp only [pure, Except.pure, Except.ok.injEq] at h
    rw [← h]; exact improve_frame hs
  | endGreedy =>
    obtain ⟨s', hs, h⟩ := bind_ok h
    simp only [pure, Except.pure, Except.ok.injEq] at h
    rw [← h]; exact endGreedy_frame hs
  | recompute vts =>
    obtain ⟨s', hs, h⟩ := bind_ok h
    simp only [pure, Except.pure, Except.ok.injEq] at h
    rw [← h]; exact (recompute_frame hs).1
  | endConsistent =>
    obtain ⟨s', hs, h⟩ := bind_ok h
    simp only [pure, Except.pure, Except.ok.injEq] at h
    rw [← h]; exact endConsistent_frame hs
  | setTrans vt v ci =>
    obtain ⟨tr, _, h⟩ := bind_ok h
    obtain ⟨moved, _, h⟩ := bind_ok h
    simp only [pure, Except.pure, Except.ok.injEq] at h
    rw [← h]; rfl
  | init => exact absurd hop id
  | spawn _ _ => exact absurd hop id
  | dummySpawn _ _ => exact absurd hop id
  | delete _ => exact absurd hop id
  | addPath _ _ => exact absurd hop id
  | rmSeg _ _ _ => exact absurd hop id
  | fit _ _ _ _ => exact absurd hop id
  | override _ _ _ _ => exact absurd hop id

end RSSched.C13
