/-
Props/C13: schedule modifications change exactly what they document.

Proved here (for all formations, no bound): the three formation primitives every modification is
built from — a replacing vehicle takes the replaced one's position and all other positions are
kept; additions go to the tail; removals keep the relative order of the others.
The frame-and-effect statements of the public modifications are the monitor `frameDiffs`
(Spec/Frame.lean), evaluated on the pre- and post-state of every real modification call.
-/
import RSSched.Model.Formation
import RSSched.Spec.Frame
namespace RSSched.C13
open RSSched Formation

/-- replace: same length, `new` at the index of `old`, every other position unchanged -/
theorem C13_replace (f : List Veh) (old new : Veh) (f' : List Veh) (h : replace f old new = .ok f') :
    ∃ pos, f.findIdx? (· == old) = some pos ∧ f' = f.set pos new := by
  unfold replace at h
  cases hp : f.findIdx? (· == old) with
  | none => simp [hp] at h
  | some pos =>
    simp only [hp] at h
    cases h
    refine ⟨pos, rfl, ?_⟩
    have hlt : pos < f.length := by
      have := List.findIdx?_eq_some_iff_findIdx_eq.mp hp; omega
    rw [List.set_append_left _ _ hlt, List.dropLast_concat]

theorem C13_replace_positions (f : List Veh) (old new : Veh) (f' : List Veh) (h : replace f old new = .ok f') :
    f'.length = f.length ∧ ∀ i : Nat, f[i]? ≠ some old → f'[i]? = f[i]? := by
  obtain ⟨pos, hp, rfl⟩ := C13_replace f old new f' h
  refine ⟨by simp, ?_⟩
  intro i hi
  have hpos := List.findIdx?_eq_some_iff_getElem.mp hp
  obtain ⟨hlt, hold, _⟩ := hpos
  by_cases hip : pos = i
  · subst hip
    have : f[pos]? = some old := by
      rw [List.getElem?_eq_getElem hlt]; simp at hold; rw [hold]
    exact absurd this hi
  · simp [List.getElem?_set, hip]

/-- additions go to the tail -/
theorem C13_add_at_tail (f : List Veh) (v : Veh) : addAtTail f v = f ++ [v] := rfl

/-- removals keep the relative order: the result is the formation without the first occurrence -/
theorem C13_remove (f : List Veh) (v : Veh) (f' : List Veh) (h : remove f v = .ok f') : f' = f.erase v := by
  unfold remove at h
  cases hp : f.findIdx? (· == v) with
  | none => simp [hp] at h
  | some pos =>
    simp only [hp] at h
    cases h
    rw [List.erase_eq_eraseP', List.eraseP_eq_eraseIdx, hp]

theorem C13_remove_sublist (f : List Veh) (v : Veh) (f' : List Veh) (h : remove f v = .ok f') : f'.Sublist f := by
  rw [C13_remove f v f' h]; exact List.erase_sublist

example : ∃ f', replace [Veh.real 1, Veh.real 2, Veh.real 3] (Veh.real 2) (Veh.real 9) = .ok f' ∧
    f' = [Veh.real 1, Veh.real 9, Veh.real 3] := ⟨_, rfl, by decide⟩

end RSSched.C13
