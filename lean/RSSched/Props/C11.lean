/-
Props/C11: every local-search candidate is a valid schedule with truthful objective.

"Valid" is `scheduleValidDiffs = []` (Props/C10 states what that means), "truthful objective" is
`scheduleCacheDiffs = []`: proved here to mean that the cached figures the objective reads equal
their from-scratch values, hence two candidates are compared on true values.
Both predicates are evaluated on every dumped candidate of the real neighbourhood along arbitrary
(not only improving) walks; enumeration must not panic and must leave the base unchanged.
-/
import RSSched.Model.Objective
import RSSched.Props.C10
namespace RSSched.C11
open RSSched Spec Network

/-- from-scratch objective of a schedule: nothing is read from a cache -/
def objectiveRef (nw : Network) (s : Schedule) : Obj :=
  let un := nw.allServiceNodes.map (fun n => Schedule.unservedAt nw n ((s.formationOf n).filterMap s.typeOf?))
  { unserved := sumNat (un.map (·.1)) + sumNat (un.map (·.2))
    violation := (sumInt (nw.typeIdxs.map (fun vt => sumInt ((s.transitionOf vt).cycles.map (fun c =>
      posMax0 ((cycleCounterRef nw s.tours c.vehicles).getD 0)))))).toNat
    vehicles := s.vehicles.length
    costs := sumNat (s.tours.map (fun p => p.2.costs)) + nw.numberOfServiceNodes * nw.cStaff }

/-- if the cache monitor is quiet, the objective the search reads is the from-scratch objective -/
theorem C11_objective_truthful (nw : Network) (s : Schedule) (h : scheduleCacheDiffs nw s = []) :
    s.objective = objectiveRef nw s := by
  unfold scheduleCacheDiffs at h
  simp only [List.append_eq_nil_iff] at h
  obtain ⟨⟨⟨_, h1⟩, h2⟩, h3⟩ := h
  have e1 := (C10.ite_nil_iff (by simp)).mp h1
  have e2 := (C10.ite_nil_iff (by simp)).mp h2
  have e3 := (C10.ite_nil_iff (by simp)).mp h3
  simp only [beq_iff_eq] at e1 e2 e3
  unfold Schedule.objective objectiveRef
  simp only [e1, e3]
  rw [e2]

/-- … and every tour's own caches are exact -/
theorem C11_tours_truthful (nw : Network) (s : Schedule) (h : scheduleCacheDiffs nw s = []) :
    ∀ v t, (v, t) ∈ s.tours ++ s.dummyTours → tourCachesExactB nw t = true := by
  unfold scheduleCacheDiffs at h
  simp only [List.append_eq_nil_iff] at h
  obtain ⟨⟨⟨h0, _⟩, _⟩, _⟩ := h
  intro v t hvt
  have := List.flatMap_eq_nil_iff.mp h0 (v, t) hvt
  simp only [List.map_eq_nil_iff] at this
  simp [tourCachesExactB, this]

/-- comparing two candidates by their cached objectives is comparing their true objectives -/
theorem C11_compared_on_true_values (nw : Network) (a b : Schedule)
    (ha : scheduleCacheDiffs nw a = []) (hb : scheduleCacheDiffs nw b = []) :
    Obj.lt a.objective b.objective ↔ Obj.lt (objectiveRef nw a) (objectiveRef nw b) := by
  rw [C11_objective_truthful nw a ha, C11_objective_truthful nw b hb]

end RSSched.C11
