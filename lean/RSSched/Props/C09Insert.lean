/-
Props/C09Insert: `Tour::insert_path` and `Tour::remove` keep the five cached figures exact
(C09, tour level, full strength for the model): if the caches of a tour equal the recomputation
from its node list, so do the caches of the tour after the modification — including the dead-head
distance with the overflow depot (`Infinity` ⇒ recomputed, finding F8) and the visits-maintenance
flag. No fault of the delta arithmetic (`Dur`/`Dist`/`Nat` subtraction) is possible on exact caches.
-/
import RSSched.Lemmas.SegIndex
import RSSched.Props.C09Tour
namespace RSSched.C09
open RSSched Network Tour Spec

theorem bindR_inv {α β} {x : R α} {f : α → R β} {b : β} (h : (x >>= f) = .ok b) :
    ∃ a, x = .ok a ∧ f a = .ok b := by
  cases x with
  | error e => simp [bind, Except.bind] at h
  | ok a => exact ⟨a, rfl, h⟩

/-- node durations are finite (holds for every loaded network: start ≤ end are points in time) -/
def DurFinite (nw : Network) : Prop := ∀ i, ∃ n, nw.nodeDur i = Dur.len n

theorem usefulDurOf_len (nw : Network) (hf : DurFinite nw) (l : List Nat) : ∃ n, nw.usefulDurOf l = Dur.len n := by
  induction l with
  | nil => exact ⟨0, rfl⟩
  | cons x xs ih =>
    obtain ⟨n, hn⟩ := ih
    obtain ⟨m, hm⟩ := hf x
    refine ⟨m + n, ?_⟩
    rw [usefulDurOf_cons, hn, hm]; rfl

theorem serviceDistOf_d (nw : Network) (l : List Nat) : ∃ n, nw.serviceDistOf l = Dist.d n := by
  induction l with
  | nil => exact ⟨0, rfl⟩
  | cons x xs ih =>
    obtain ⟨n, hn⟩ := ih
    refine ⟨(nw.node x).dist + n, ?_⟩
    rw [serviceDistOf_cons, hn]; rfl

theorem dur_sub_mid (a b c : Nat) :
    Dur.sub (Dur.add (Dur.add (Dur.len a) (Dur.len b)) (Dur.len c)) (Dur.len b) = .ok (Dur.len (a + c)) := by
  simp only [Dur.add, Dur.sub, Dur.le]
  have : (!decide (b ≤ a + b + c)) = false := by simp; omega
  simp only [this, Bool.false_eq_true, ↓reduceIte]
  congr 2; omega

theorem dist_sub_mid (a b c : Nat) :
    Dist.sub (Dist.add (Dist.add (Dist.d a) (Dist.d b)) (Dist.d c)) (Dist.d b) = .ok (Dist.d (a + c)) := by
  simp only [Dist.add, Dist.sub]
  rw [if_pos (by omega)]
  congr 2; omega

/-- the boolean identity behind the visits-maintenance flag -/
theorem vm_identity (p o s n : Bool) :
    (n || ((p || o || s) && (!o || (p || n || s)))) = (p || n || s) := by
  cases p <;> cases o <;> cases s <;> cases n <;> rfl

/-- exactness of all delta formulas of `insert_path` for a plan that replaces `old` between `pre`
    and `suf` by a non-empty `newNodes` -/
theorem C09_insertCaches (nw : Network) (hf : DurFinite nw) (t : Tour) (hE : Exact nw t)
    (pre old suf newNodes : List Nat) (ht : t.nodes = pre ++ old ++ suf) (hn : newNodes ≠ [])
    (s e : Nat) (tn : List Nat) (hs : s = pre.length) (he : e = pre.length + old.length)
    (htn : tn = pre ++ newNodes ++ suf)
    (vm : Bool) (ud : Dur) (sd dh : Dist) (c : Nat)
    (h : insertCaches nw t { newNodes, s, e, old, tourNodes := tn } = .ok (vm, ud, sd, dh, c)) :
    vm = nw.visitsMaintOf (pre ++ newNodes ++ suf) ∧ ud = nw.usefulDurOf (pre ++ newNodes ++ suf) ∧
    sd = nw.serviceDistOf (pre ++ newNodes ++ suf) ∧ dh = nw.dhDistOf (pre ++ newNodes ++ suf) ∧
    c = nw.costsOf (pre ++ newNodes ++ suf) := by
  subst hs he htn
  unfold insertCaches at h
  dsimp only at h
  obtain ⟨ud0, hud0, h⟩ := bindR_inv h
  obtain ⟨sd0, hsd0, h⟩ := bindR_inv h
  obtain ⟨segD', hsegD, h⟩ := bindR_inv h
  obtain ⟨dh0, hdh0, h⟩ := bindR_inv h
  obtain ⟨newD, hnewD, h⟩ := bindR_inv h
  obtain ⟨segC', hsegC, h⟩ := bindR_inv h
  obtain ⟨c0, hc0, h⟩ := bindR_inv h
  obtain ⟨newC, hnewC, h⟩ := bindR_inv h
  simp only [pure, Except.pure, Except.ok.injEq, Prod.mk.injEq] at h
  obtain ⟨hvm, hud, hsd, hdh, hc⟩ := h
  rw [dhDistOfSegment_eq nw t pre old suf ht] at hsegD
  rw [dhDistOfNewNodes_eq nw t pre old suf newNodes ht hn] at hnewD
  rw [costsOfSegment_eq nw t pre old suf ht] at hsegC
  rw [costsOfNewNodes_eq nw t pre old suf newNodes ht hn] at hnewC
  cases hsegD; cases hnewD; cases hsegC; cases hnewC
  refine ⟨?_, ?_, ?_, ?_, ?_⟩
  · -- visits maintenance
    rw [← hvm, hE.vm, ht]
    simp only [visitsMaintOf, List.any_append]
    exact vm_identity _ _ _ _
  · -- useful duration
    obtain ⟨a, ha⟩ := usefulDurOf_len nw hf pre
    obtain ⟨b, hb⟩ := usefulDurOf_len nw hf old
    obtain ⟨c', hc'⟩ := usefulDurOf_len nw hf suf
    obtain ⟨d, hd⟩ := usefulDurOf_len nw hf newNodes
    rw [hE.ud, ht, usefulDurOf_append, usefulDurOf_append, ha, hb, hc', dur_sub_mid] at hud0
    cases hud0
    rw [← hud, usefulDurOf_append, usefulDurOf_append, ha, hc', hd]
    simp only [Dur.add, Dur.len.injEq]; omega
  · obtain ⟨a, ha⟩ := serviceDistOf_d nw pre
    obtain ⟨b, hb⟩ := serviceDistOf_d nw old
    obtain ⟨c', hc'⟩ := serviceDistOf_d nw suf
    obtain ⟨d, hd⟩ := serviceDistOf_d nw newNodes
    rw [hE.sd, ht, serviceDistOf_append, serviceDistOf_append, ha, hb, hc', dist_sub_mid] at hsd0
    cases hsd0
    rw [← hsd, serviceDistOf_append, serviceDistOf_append, ha, hc', hd]
    simp only [Dist.add, Dist.d.injEq]; omega
  · -- dead-head distance
    rw [← hdh]
    by_cases hinf : t.dhDist = Dist.inf
    · simp [hinf]
    · have hne : (t.dhDist == Dist.inf) = false := by simpa using hinf
      simp only [hne, Bool.false_eq_true, ↓reduceIte]
      have hspl := dhDistOf_splice nw pre old suf
      rw [← ht, ← hE.dh] at hspl
      cases htd : t.dhDist with
      | inf => exact absurd htd hinf
      | d n =>
        rw [htd] at hspl hdh0
        obtain ⟨x, c', hx, hc', _⟩ := Dist.add_eq_d hspl.symm
        obtain ⟨a, b, ha, hb, hab⟩ := Dist.add_eq_d hx
        rw [hb] at hdh0
        have : n = a + b + c' := by omega
        subst this
        have hs := dist_sub_mid a b c'
        simp only [Dist.add] at hs
        rw [hs] at hdh0
        cases hdh0
        rw [dhDistOf_splice, ha, hc']
        cases nw.segD pre newNodes suf with
        | inf => rfl
        | d y => simp only [Dist.add, Dist.d.injEq]; omega
  · -- costs
    obtain ⟨hle, hc0'⟩ := subNat_inv hc0
    rw [← hc, hc0', hE.co, ht, costsOf_splice, costsOf_splice]
    omega

theorem slice_inv {l : List Nat} {s e : Nat} {r : List Nat} (h : slice l s e = .ok r) :
    s ≤ e ∧ e ≤ l.length ∧ r = (l.drop s).take (e - s) := by
  unfold slice at h
  split at h
  · rename_i hc
    simp only [Bool.and_eq_true, decide_eq_true_eq] at hc
    simp only [pure, Except.pure, Except.ok.injEq] at h
    exact ⟨hc.1, hc.2, h.symm⟩
  · cases h

theorem three_parts (l : List Nat) (s e : Nat) (h1 : s ≤ e) (h2 : e ≤ l.length) :
    l = l.take s ++ (l.drop s).take (e - s) ++ l.drop e ∧ (l.take s).length = s ∧
    ((l.drop s).take (e - s)).length = e - s := by
  refine ⟨?_, by simp; omega, by simp; omega⟩
  have e1 : l = l.take s ++ l.drop s := (List.take_append_drop _ _).symm
  have e2 : l.drop s = (l.drop s).take (e - s) ++ l.drop e := by
    have := (List.take_append_drop (e - s) (l.drop s)).symm
    rw [List.drop_drop] at this
    have hh : s + (e - s) = e := by omega
    rw [hh] at this; exact this
  conv => lhs; rw [e1, e2]
  simp only [List.append_assoc]

theorem idxAt_inv {l : List Nat} {i x : Nat} (h : idxAt l i = .ok x) : l[i]? = some x := by
  unfold idxAt at h
  cases hl : l[i]? with
  | none => simp [hl] at h
  | some y => simp [hl] at h; simp [h]

/-- C09 for `Tour::insert_path`: exact caches stay exact, for every tour, path and comparison mode -/
theorem C09_insertPath (nw : Network) (hf : DurFinite nw) (strict : Bool) (t t' : Tour) (path : List Nat)
    (removed : Option (List Nat)) (hE : Exact nw t)
    (h : insertPath nw strict t path = .ok (t', removed)) : Exact nw t' := by
  unfold insertPath at h
  obtain ⟨pl, hpl, h⟩ := bindR_inv h
  obtain ⟨c, hc, h⟩ := bindR_inv h
  simp only [pure, Except.pure, Except.ok.injEq, Prod.mk.injEq] at h
  obtain ⟨ht', _⟩ := h
  unfold insertPlan at hpl
  obtain ⟨p1, _, hpl⟩ := bindR_inv hpl
  obtain ⟨p2, _, hpl⟩ := bindR_inv hpl
  obtain ⟨first, hfirst, hpl⟩ := bindR_inv hpl
  obtain ⟨last, _, hpl⟩ := bindR_inv hpl
  obtain ⟨se, _, hpl⟩ := bindR_inv hpl
  obtain ⟨old, hold, hpl⟩ := bindR_inv hpl
  simp only [pure, Except.pure, Except.ok.injEq] at hpl
  obtain ⟨h1, h2, hold'⟩ := slice_inv hold
  obtain ⟨hparts, hl1, hl2⟩ := three_parts t.nodes se.1 se.2 h1 h2
  have hn : p2 ≠ [] := by
    intro e; subst e
    have := idxAt_inv hfirst; simp at this
  rw [← hold'] at hparts hl2
  subst hpl
  obtain ⟨vm, ud, sd, dh, co⟩ := c
  obtain ⟨e1, e2, e3, e4, e5⟩ := C09_insertCaches nw hf t hE _ old _ p2 hparts hn se.1 se.2 _
    hl1.symm (by omega) rfl vm ud sd dh co hc
  subst ht'
  exact ⟨e1, e2, e3, e4, e5⟩

theorem checkSeqRemovable_le {nw : Network} {t : Tour} {s e : Nat} (h : checkSeqRemovable nw t s e = .ok ()) :
    s ≤ e := by
  unfold checkSeqRemovable at h
  dsimp only at h
  split at h
  · cases h
  · split at h
    · cases h
    · split at h
      · cases h
      · split at h
        · cases h
        · rename_i hse; simpa using hse

theorem vm_identity_remove (p m s : Bool) : ((p || m || s) && (!m || (p || s))) = (p || s) := by
  cases p <;> cases m <;> cases s <;> rfl

/-- C09 for `Tour::remove`: the shrunk tour's caches are exact -/
theorem C09_remove (nw : Network) (hf : DurFinite nw) (t t' : Tour) (a b : Nat) (path : List Nat)
    (hE : Exact nw t) (h : Tour.remove nw t a b = .ok (some t', path)) : Exact nw t' := by
  unfold Tour.remove at h
  obtain ⟨s, _, h⟩ := bindR_inv h
  obtain ⟨e, _, h⟩ := bindR_inv h
  obtain ⟨u, hchk, h⟩ := bindR_inv h
  obtain ⟨removed, hrem, h⟩ := bindR_inv h
  obtain ⟨ud, hud, h⟩ := bindR_inv h
  obtain ⟨sd, hsd, h⟩ := bindR_inv h
  obtain ⟨seg, hseg, h⟩ := bindR_inv h
  obtain ⟨dh0, hdh0, h⟩ := bindR_inv h
  obtain ⟨gapD, hgapD, h⟩ := bindR_inv h
  obtain ⟨cseg, hcseg, h⟩ := bindR_inv h
  obtain ⟨c0, hc0, h⟩ := bindR_inv h
  obtain ⟨gapC, hgapC, h⟩ := bindR_inv h
  have hse := checkSeqRemovable_le hchk
  obtain ⟨h1, h2, hrem'⟩ := slice_inv hrem
  obtain ⟨hparts, hl1, hl2⟩ := three_parts t.nodes s (e + 1) h1 h2
  rw [← hrem'] at hparts hl2
  generalize hpre : t.nodes.take s = pre at *
  generalize hsuf : t.nodes.drop (e + 1) = suf at *
  have hs : s = pre.length := hl1.symm
  have he1 : e + 1 = pre.length + removed.length := by omega
  have hmne : removed ≠ [] := by
    intro e0; subst e0; simp at hl2; omega
  have hee : e = pre.length + removed.length - 1 := by omega
  rw [hs, he1, dhDistOfSegment_eq nw t pre removed suf hparts] at hseg
  rw [hs, he1, costsOfSegment_eq nw t pre removed suf hparts] at hcseg
  rw [hparts, hs, hee, gapDist_eq nw pre removed suf hmne] at hgapD
  rw [hparts, hs, hee, gapCost_eq nw pre removed suf hmne] at hgapC
  cases hseg; cases hcseg; cases hgapD; cases hgapC
  dsimp only at h
  split at h
  · rename_i p hp
    split at h
    · simp [pure, Except.pure] at h
    · simp only [pure, Except.pure, Except.ok.injEq, Prod.mk.injEq, Option.some.injEq] at h
      obtain ⟨ht', _⟩ := h
      subst ht'
      refine ⟨?_, ?_, ?_, ?_, ?_⟩
      · simp only
        rw [hE.vm, hparts]
        simp only [visitsMaintOf, List.any_append]
        exact vm_identity_remove _ _ _
      · obtain ⟨x, hx⟩ := usefulDurOf_len nw hf pre
        obtain ⟨y, hy⟩ := usefulDurOf_len nw hf removed
        obtain ⟨z, hz⟩ := usefulDurOf_len nw hf suf
        rw [hE.ud, hparts, usefulDurOf_append, usefulDurOf_append, hx, hy, hz, dur_sub_mid] at hud
        cases hud
        simp only
        rw [usefulDurOf_append, hx, hz]; rfl
      · obtain ⟨x, hx⟩ := serviceDistOf_d nw pre
        obtain ⟨y, hy⟩ := serviceDistOf_d nw removed
        obtain ⟨z, hz⟩ := serviceDistOf_d nw suf
        rw [hE.sd, hparts, serviceDistOf_append, serviceDistOf_append, hx, hy, hz, dist_sub_mid] at hsd
        cases hsd
        simp only
        rw [serviceDistOf_append, hx, hz]; rfl
      · simp only
        by_cases hinf : t.dhDist = Dist.inf
        · simp [hinf]
        · have hne : (t.dhDist == Dist.inf) = false := by simpa using hinf
          simp only [hne, Bool.false_eq_true, ↓reduceIte]
          have hspl := dhDistOf_splice nw pre removed suf
          rw [← hparts, ← hE.dh] at hspl
          cases htd : t.dhDist with
          | inf => exact absurd htd hinf
          | d n =>
            rw [htd] at hspl hdh0
            obtain ⟨x, z, hx, hz, _⟩ := Dist.add_eq_d hspl.symm
            obtain ⟨p', q, hp', hq, hpq⟩ := Dist.add_eq_d hx
            rw [hq] at hdh0
            have : n = p' + q + z := by omega
            subst this
            have hs' := dist_sub_mid p' q z
            simp only [Dist.add] at hs'
            rw [hs'] at hdh0
            cases hdh0
            rw [dhDistOf_append, hp', hz]
            cases nw.connD pre.getLast? suf.head? with
            | inf => rfl
            | d y => simp only [Dist.add, Dist.d.injEq]; omega
      · simp only
        obtain ⟨hle, hc0'⟩ := subNat_inv hc0
        have hsp := costsOf_splice nw pre [] suf
        simp only [List.append_nil, segC] at hsp
        rw [hc0', hE.co, hparts, costsOf_splice, hsp]
        omega
  · cases h

/-- C09, tour half, full strength (the former `C09_tour_statement`): on a valid tour with exact
    caches every modification of tour/modifications.rs returns a tour with exact caches -/
theorem C09_tour (nw : Network) (hf : DurFinite nw) (hz : DepotDistZero nw) (t : Tour)
    (hv : tourValidB nw t = true) (hE : tourCachesExactB nw t = true) :
    (∀ d t', replaceStartDepot nw t d = .ok t' → tourCachesExactB nw t' = true) ∧
    (∀ d t', replaceEndDepot nw t d = .ok t' → tourCachesExactB nw t' = true) ∧
    (∀ a b t' rm, Tour.remove nw t a b = .ok (some t', rm) → tourCachesExactB nw t' = true) ∧
    (∀ strict p t' rm, insertPath nw strict t p = .ok (t', rm) → tourCachesExactB nw t' = true) := by
  have hx := (exact_iff nw t).mp hE
  refine ⟨?_, ?_, ?_, ?_⟩
  · intro d t' h
    by_cases hdum : t.isDummy = true
    · unfold replaceStartDepot at h; simp [hdum] at h
    · unfold tourValidB at hv
      simp only [hdum, Bool.false_eq_true, ↓reduceIte, Bool.and_eq_true] at hv
      exact (exact_iff nw t').mpr (C09_replaceStartDepot nw hz t t' d hx hv.1.1.1.1.2 h)
  · intro d t' h
    by_cases hdum : t.isDummy = true
    · unfold replaceEndDepot at h; simp [hdum] at h
    · unfold tourValidB at hv
      simp only [hdum, Bool.false_eq_true, ↓reduceIte, Bool.and_eq_true] at hv
      exact (exact_iff nw t').mpr (C09_replaceEndDepot nw hz t t' d hx hv.1.1.1.2 h)
  · intro a b t' rm h
    exact (exact_iff nw t').mpr (C09_remove nw hf t t' a b rm hx h)
  · intro strict p t' rm h
    exact (exact_iff nw t').mpr (C09_insertPath nw hf strict t t' p rm hx h)

/-- the hypotheses of `C09_tour` are decidable on a loaded network: the driver evaluates `netHypsB`
    on every network of a run (STAT `c09.nethyps`) -/
theorem netHyps_sound (nw : Network) (h : netHypsB nw = true) : DepotDistZero nw ∧ DurFinite nw := by
  unfold netHypsB at h
  have hall := List.all_eq_true.mp h
  have hdef_depot : (default : Node).isDepot = true := by decide
  have hdef_dist : (default : Node).dist = 0 := rfl
  have hnode : ∀ i, i < nw.nodes.size ∨ nw.node i = default := by
    intro i
    by_cases hi : i < nw.nodes.size
    · exact Or.inl hi
    · right; unfold Network.node; simp [Array.getD, hi]
  constructor
  · intro i hd
    rcases hnode i with hi | hi
    · have := hall i (by simp [Network.allIdx, hi])
      simp only [Bool.and_eq_true, Bool.or_eq_true, Bool.not_eq_eq_eq_not, Bool.not_true, beq_iff_eq] at this
      rcases this.1 with h0 | h0
      · rw [hd] at h0; cases h0
      · exact h0
    · rw [hi]; exact hdef_dist
  · intro i
    rcases hnode i with hi | hi
    · have := hall i (by simp [Network.allIdx, hi])
      simp only [Bool.and_eq_true] at this
      cases hd : nw.nodeDur i with
      | len n => exact ⟨n, rfl⟩
      | inf => rw [hd] at this; simp at this
    · refine ⟨0, ?_⟩
      unfold Network.nodeDur Node.duration
      rw [hi]; simp [hdef_depot, Dur.zero]

end RSSched.C09
