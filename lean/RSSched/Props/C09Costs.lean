/-
Props/C09Costs: the cached cost of a schedule equals Σ tour costs + staff term after every history
of public modifications (C09 / C04, fourth objective level, for the model). Needs the listing
invariant (C10Listing) and that dummy tours are keyed by dummy ids only (`DummyInv`, proved here for
every history as well).
-/
import RSSched.Props.C10Listing
namespace RSSched.C09C
open RSSched Schedule C15 C02 C10L

/-! ### dummy tours are keyed by dummy ids -/
def DK (T : Tours) : Prop := ∀ d, (assocGet? T d).isSome = true → d.dummy = true
def DummyInv (s : Schedule) : Prop := DK s.dummyTours

theorem DK_set {T : Tours} {k : Veh} {t : Tour} (h : DK T) (hk : k.dummy = true) : DK (assocSet T k t) := by
  intro d hd
  rw [isSome_assocSet] at hd
  by_cases e : d = k
  · subst e; exact hk
  · simp only [e, decide_false, Bool.false_or] at hd; exact h d hd

theorem DK_erase {T : Tours} {k : Veh} (h : DK T) : DK (assocErase T k) := by
  intro d hd
  rw [isSome_assocErase] at hd
  simp only [Bool.and_eq_true] at hd
  exact h d hd.2

theorem DK_addDummy {T : Tours} {ids : List Veh} {c : Nat} {dt : Tour} (h : DK T) :
    DK (addDummyTour T ids (Veh.dum c) dt).1 := DK_set h rfl

theorem DK_of_addDummy_eq {T a : Tours} {ids b : List Veh} {c : Nat} {dt : Tour} (h : DK T)
    (e : addDummyTour T ids (Veh.dum c) dt = (a, b)) : DK a := by
  have := DK_addDummy (ids := ids) (c := c) (dt := dt) h
  rw [e] at this; exact this

theorem updateTourAndCosts_DK {s : Schedule} {tours dummyTours : Tours} {costs : Nat} {v : Veh} {t : Tour}
    {r : Tours × Tours × Nat} (hs : DK s.dummyTours) (hd : DK dummyTours)
    (h : updateTourAndCosts s tours dummyTours costs v t = .ok r) : DK r.2.1 := by
  unfold updateTourAndCosts at h
  split at h
  · rename_i hdum
    simp only [pure, Except.pure, Except.ok.injEq] at h; rw [← h]
    exact DK_set hd (hs v hdum)
  · obtain ⟨old, _, h⟩ := bind_ok h
    obtain ⟨c', _, h⟩ := bind_ok h
    simp only [pure, Except.pure, Except.ok.injEq] at h; rw [← h]; exact hd

syntax "close_dk " ident ident : tactic
macro_rules
  | `(tactic| close_dk $h:ident $hd:ident) => `(tactic|
    (all_goals (try contradiction)
     all_goals (try (cases $h:ident))
     all_goals (try (simp only [pure, Except.pure, Except.ok.injEq] at *))
     all_goals (try subst_vars)
     all_goals (try unfold DummyInv)
     all_goals (try dsimp only)
     all_goals (first
       | exact $hd
       | exact DK_addDummy $hd
       | exact DK_erase $hd
       | exact DK_of_addDummy_eq $hd (by assumption)
       | (split <;> first | exact $hd | exact DK_addDummy $hd)
       | skip)))

theorem spawn_dk {nw : Network} {s s' : Schedule} {vt : Nat} {path : List Nat} {v : Veh}
    (hd : DummyInv s) (h : spawnVehicleForPath nw s vt path = .ok (s', v)) : DummyInv s' := by
  unfold spawnVehicleForPath at h
  inv_do h
  close_dk h hd

theorem delete_dk {nw : Network} {s s' : Schedule} {v : Veh}
    (hd : DummyInv s) (h : replaceVehicleByDummy nw s v = .ok s') : DummyInv s' := by
  unfold replaceVehicleByDummy at h
  inv_do h
  close_dk h hd

theorem deleteDummy_dk {s s1 : Schedule} {d : Veh} (hd : DummyInv s) (h : deleteDummy s d = .ok s1) : DummyInv s1 := by
  unfold deleteDummy at h
  inv_do h
  close_dk h hd

theorem dummySpawn_dk {nw : Network} {s s' : Schedule} {d : Veh} {vt : Nat} {v : Veh}
    (hd : DummyInv s) (h : spawnToReplaceDummy nw s d vt = .ok (s', v)) : DummyInv s' := by
  unfold spawnToReplaceDummy at h
  inv_do h
  all_goals (try contradiction)
  all_goals (try (cases h))
  all_goals (first
    | exact spawn_dk (deleteDummy_dk hd (by assumption)) (by assumption)
    | skip)

theorem addPath_dk {nw : Network} {s s' : Schedule} {v : Veh} {path : List Nat} {rm : Option (List Nat)}
    (hd : DummyInv s) (h : addPathToVehicleTour nw s v path = .ok (s', rm)) : DummyInv s' := by
  unfold addPathToVehicleTour at h
  inv_do h
  close_dk h hd

theorem rmSeg_dk {nw : Network} {s s' : Schedule} {v : Veh} {a b : Nat}
    (hd : DummyInv s) (h : removeSegment nw s v a b = .ok s') : DummyInv s' := by
  unfold removeSegment at h
  inv_do h
  all_goals (try contradiction)
  all_goals (try (cases h))
  all_goals (try (simp only [pure, Except.pure, Except.ok.injEq] at *))
  all_goals (try subst_vars)
  all_goals (first
    | exact delete_dk hd (by assumption)
    | (have hu := updateTourAndCosts_DK hd hd (by assumption)
       unfold DummyInv
       dsimp only
       first | exact hu | exact DK_addDummy hu | exact DK_of_addDummy_eq hu (by assumption) | (split <;> first | exact hu | exact DK_addDummy hu))
    | skip)

theorem updateTours_dk {nw : Network} {s : Schedule} {w' : Work} {provider : Option Veh} {newProv : Option Tour}
    {receiver : Veh} {newRecv : Tour} {moved : List Nat} (hd : DummyInv s)
    (h : updateTours nw s (Work.ofSchedule s) provider newProv receiver newRecv moved = .ok w') :
    DK w'.dummyTours := by
  unfold updateTours at h
  inv_do h
  all_goals (try contradiction)
  all_goals (try (cases h))
  all_goals (try (simp only [pure, Except.pure, Except.ok.injEq] at *))
  all_goals (try subst_vars)
  all_goals (try dsimp only)
  all_goals (first
    | exact updateTourAndCosts_DK hd hd (by assumption)
    | exact updateTourAndCosts_DK hd (updateTourAndCosts_DK hd hd (by assumption)) (by assumption)
    | exact updateTourAndCosts_DK hd (DK_erase hd) (by assumption)
    | trace_state)

theorem fit_dk {nw : Network} {s s' : Schedule} {p r : Veh} {a b : Nat}
    (hd : DummyInv s) (h : fitReassign nw s p r a b = .ok s') : DummyInv s' := by
  unfold fitReassign at h
  inv_do h
  all_goals (try contradiction)
  all_goals (try (cases h))
  all_goals (first
    | exact updateTours_dk hd (by assumption)
    | trace_state)

theorem override_dk {nw : Network} {s s' : Schedule} {p r : Veh} {a b : Nat} {d : Option Veh}
    (hd : DummyInv s) (h : overrideReassign nw s p r a b = .ok (s', d)) : DummyInv s' := by
  unfold overrideReassign at h
  inv_do h
  all_goals (try contradiction)
  all_goals (try (cases h))
  all_goals (try (simp only [pure, Except.pure, Except.ok.injEq] at *))
  all_goals (try subst_vars)
  all_goals (
    have hw := updateTours_dk hd (by assumption)
    unfold DummyInv
    dsimp only
    first | exact hw | exact DK_set hw rfl | exact DK_addDummy hw | trace_state)

theorem improve_dk {nw : Network} {s s' : Schedule} {vs : Option (List Veh)}
    (hd : DummyInv s) (h : improveDepots nw s vs = .ok s') : DummyInv s' := by
  unfold improveDepots at h
  dsimp only at h
  obtain ⟨_, _, h⟩ := bind_ok h
  obtain ⟨_, _, h⟩ := bind_ok h
  inv_do h
  close_dk h hd

theorem endGreedy_dk {nw : Network} {s s' : Schedule}
    (hd : DummyInv s) (h : reassignEndDepotsGreedily nw s = .ok s') : DummyInv s' := by
  unfold reassignEndDepotsGreedily at h
  obtain ⟨_, _, h⟩ := bind_ok h
  inv_do h
  close_dk h hd

theorem recompute_dk {nw : Network} {s s' : Schedule} {vts : Option (List Nat)}
    (hd : DummyInv s) (h : recomputeTransitionsFor nw s vts = .ok s') : DummyInv s' := by
  unfold recomputeTransitionsFor at h
  inv_do h
  close_dk h hd

theorem endConsistent_dk {nw : Network} {s s' : Schedule}
    (hd : DummyInv s) (h : reassignEndDepotsConsistent nw s = .ok s') : DummyInv s' := by
  unfold DummyInv
  rw [(C05.C05_reassign nw s s' h).2.2.2.2.1]; exact hd

/-! ### the cost cache -/
def sumCost (T : Tours) : Nat := sumNat (T.map (fun p => p.2.costs))
def staffTerm (nw : Network) : Nat := nw.numberOfServiceNodes * nw.cStaff
def CostEq (nw : Network) (s : Schedule) : Prop := s.costs = sumCost s.tours + staffTerm nw

theorem sumCost_cons (p : Veh × Tour) (T : Tours) : sumCost (p :: T) = p.2.costs + sumCost T := rfl

theorem sumNat_append' (l1 l2 : List Nat) : sumNat (l1 ++ l2) = sumNat l1 + sumNat l2 := by
  induction l1 with
  | nil => simp [sumNat]
  | cons x xs ih => simp only [List.cons_append, sumNat, List.foldr_cons] at ih ⊢; omega

theorem sumCost_append (T1 T2 : Tours) : sumCost (T1 ++ T2) = sumCost T1 + sumCost T2 := by
  unfold sumCost; rw [List.map_append, sumNat_append']

theorem sumCost_set_absent (T : Tours) (v : Veh) (t : Tour) (h : assocGet? T v = none) :
    sumCost (assocSet T v t) = sumCost T + t.costs := by
  have hany : ¬ (T.any (fun q => decide (q.1 = v)) = true) := by
    intro ha
    obtain ⟨q, hq, hk⟩ := List.any_eq_true.mp ha
    exact (assocGet?_eq_none_iff T v).mp h (List.mem_map.mpr ⟨q, hq, by simpa using hk⟩)
  unfold assocSet
  rw [if_neg hany, sumCost_append]
  simp [sumCost, sumNat]

theorem sumCost_set_present (T : Tours) (v : Veh) (old t : Tour) (hnd : (T.map (·.1)).Nodup)
    (h : assocGet? T v = some old) : sumCost (assocSet T v t) + old.costs = sumCost T + t.costs := by
  induction T with
  | nil => simp [assocGet?_nil] at h
  | cons p ps ih =>
    have hnd' : p.1 ∉ ps.map (·.1) ∧ (ps.map (·.1)).Nodup := by
      rw [List.map_cons] at hnd; exact List.nodup_cons.mp hnd
    rw [assocGet?_cons] at h
    by_cases e : p.1 = v
    · simp only [e, ↓reduceIte, Option.some.injEq] at h
      have hany : (p :: ps).any (fun q => decide (q.1 = v)) = true := by simp [e]
      unfold assocSet
      rw [if_pos hany]
      simp only [List.map_cons, e, ↓reduceIte]
      have hps : ps.map (fun q => if q.1 = v then (v, t) else q) = ps := by
        conv => rhs; rw [← List.map_id ps]
        apply List.map_congr_left; intro q hq
        have : ¬ q.1 = v := by
          intro hh; apply hnd'.1; rw [e, ← hh]; exact List.mem_map.mpr ⟨q, hq, rfl⟩
        simp [this]
      rw [hps, sumCost_cons, sumCost_cons, h]
      simp only; omega
    · simp only [e, ↓reduceIte] at h
      have hany : ps.any (fun q => decide (q.1 = v)) = true :=
        List.any_eq_true.mpr ⟨_, assocGet?_mem h, by simp⟩
      have hany' : (p :: ps).any (fun q => decide (q.1 = v)) = true := by
        simp only [List.any_cons, Bool.or_eq_true]; exact Or.inr hany
      have ih' := ih hnd'.2 h
      unfold assocSet at ih' ⊢
      rw [if_pos hany']
      rw [if_pos hany] at ih'
      simp only [List.map_cons, e, ↓reduceIte]
      rw [sumCost_cons, sumCost_cons]
      omega

theorem sumCost_erase (T : Tours) (v : Veh) (old : Tour) (hnd : (T.map (·.1)).Nodup)
    (h : assocGet? T v = some old) : sumCost (assocErase T v) + old.costs = sumCost T := by
  induction T with
  | nil => simp [assocGet?_nil] at h
  | cons p ps ih =>
    have hnd' : p.1 ∉ ps.map (·.1) ∧ (ps.map (·.1)).Nodup := by
      rw [List.map_cons] at hnd; exact List.nodup_cons.mp hnd
    rw [assocGet?_cons] at h
    unfold assocErase at ih ⊢
    by_cases e : p.1 = v
    · simp only [e, ↓reduceIte, Option.some.injEq] at h
      simp only [List.filter_cons, e, decide_true, Bool.not_true, Bool.false_eq_true, ↓reduceIte]
      have hps : ps.filter (fun q => !decide (q.1 = v)) = ps := by
        rw [List.filter_eq_self]; intro q hq
        have : ¬ q.1 = v := by
          intro hh; apply hnd'.1; rw [e, ← hh]; exact List.mem_map.mpr ⟨q, hq, rfl⟩
        simp [this]
      rw [hps, sumCost_cons, h]; omega
    · simp only [e, ↓reduceIte] at h
      simp only [List.filter_cons, e, decide_false, Bool.not_false, ↓reduceIte]
      rw [sumCost_cons, sumCost_cons]
      have := ih hnd'.2 h
      omega

theorem empty_cost (nw : Network) : CostEq nw (Schedule.empty nw) := by
  unfold CostEq Schedule.empty staffTerm sumCost
  simp [sumNat]

theorem vehicle_not_dummy {s : Schedule} (hi : ListInv s) (hd : DummyInv s) {v : Veh}
    (hv : s.isVehicle v = true) : s.isDummy v = false := by
  cases hdm : s.isDummy v with
  | false => rfl
  | true =>
    have h1 := hd v hdm
    have hs : (assocGet? s.vehicles v).isSome = (assocGet? s.tours v).isSome := hi.same v
    have h2 := (hi.fresh v (by show (assocGet? s.tours v).isSome = true; rw [← hs]; exact hv)).1
    rw [h1] at h2; cases h2

theorem spawn_cost {nw : Network} {s s' : Schedule} {vt : Nat} {path : List Nat} {v : Veh}
    (hi : ListInv s) (hc : CostEq nw s) (h : spawnVehicleForPath nw s vt path = .ok (s', v)) : CostEq nw s' := by
  unfold spawnVehicleForPath at h
  split at h
  · cases h
  · obtain ⟨nodes, _, h⟩ := bind_ok h
    dsimp only at h
    obtain ⟨tour, _, h⟩ := bind_ok h
    obtain ⟨ids, _, h⟩ := bind_ok h
    obtain ⟨⟨forms, unserved⟩, _, h⟩ := bind_ok h
    dsimp only at h
    obtain ⟨usage, _, h⟩ := bind_ok h
    obtain ⟨⟨trans, viol⟩, _, h⟩ := bind_ok h
    simp only [pure, Except.pure, Except.ok.injEq, Prod.mk.injEq] at h
    rw [← h.1]
    have hTn : assocGet? s.tours (Veh.real s.counter) = none := by
      cases hg : assocGet? s.tours (Veh.real s.counter) with
      | none => rfl
      | some x =>
        have := (hi.fresh (Veh.real s.counter) (by show (assocGet? s.tours _).isSome = true; simp [hg])).2
        simp [Veh.real, coreOf] at this
    unfold CostEq
    show s.costs + tour.costs = sumCost (assocSet s.tours (Veh.real s.counter) tour) + staffTerm nw
    rw [sumCost_set_absent _ _ _ hTn, hc]; omega

theorem delete_cost {nw : Network} {s s' : Schedule} {v : Veh}
    (hi : ListInv s) (hc : CostEq nw s) (h : replaceVehicleByDummy nw s v = .ok s') : CostEq nw s' := by
  unfold replaceVehicleByDummy at h
  inv_do h
  all_goals (try contradiction)
  all_goals (try (cases h))
  all_goals (try (simp only [pure, Except.pure, Except.ok.injEq] at *))
  all_goals (try subst_vars)
  all_goals (
    have hold := unwrapO_ok (by assumption : unwrapO (assocGet? s.tours v) _ = .ok _)
    obtain ⟨hle, hceq⟩ := subNat_ok (by assumption)
    unfold CostEq
    dsimp only
    have := sumCost_erase s.tours v _ hi.tourKeys hold
    rw [hceq, hc]
    omega)

theorem addPath_cost {nw : Network} {s s' : Schedule} {v : Veh} {path : List Nat} {rm : Option (List Nat)}
    (hi : ListInv s) (hc : CostEq nw s) (h : addPathToVehicleTour nw s v path = .ok (s', rm)) : CostEq nw s' := by
  unfold addPathToVehicleTour at h
  inv_do h
  all_goals (try contradiction)
  all_goals (try (cases h))
  all_goals (try (simp only [pure, Except.pure, Except.ok.injEq] at *))
  all_goals (try subst_vars)
  all_goals (
    have hold := unwrapO_ok (by assumption : unwrapO (assocGet? s.tours v) _ = .ok _)
    obtain ⟨hle, hceq⟩ := subNat_ok (by assumption)
    unfold CostEq
    dsimp only
    have := sumCost_set_present s.tours v _ (by assumption) hi.tourKeys hold
    rw [hceq, hc]
    omega)

theorem utc_cost {s : Schedule} {tours dummyTours : Tours} {costs K : Nat} {v : Veh} {t : Tour}
    {r : Tours × Tours × Nat} (hnd : (tours.map (·.1)).Nodup) (hc : costs = sumCost tours + K)
    (h : updateTourAndCosts s tours dummyTours costs v t = .ok r) : r.2.2 = sumCost r.1 + K := by
  unfold updateTourAndCosts at h
  split at h
  · simp only [pure, Except.pure, Except.ok.injEq] at h; rw [← h]; exact hc
  · obtain ⟨old, hold, h⟩ := bind_ok h
    obtain ⟨c', hc', h⟩ := bind_ok h
    simp only [pure, Except.pure, Except.ok.injEq] at h; rw [← h]
    obtain ⟨hle, hceq⟩ := subNat_ok hc'
    have := sumCost_set_present tours v old t hnd (unwrapO_ok hold)
    simp only
    rw [hceq, hc]; omega

theorem rmSeg_cost {nw : Network} {s s' : Schedule} {v : Veh} {a b : Nat}
    (hi : ListInv s) (hc : CostEq nw s) (h : removeSegment nw s v a b = .ok s') : CostEq nw s' := by
  unfold removeSegment at h
  inv_do h
  all_goals (try contradiction)
  all_goals (try (cases h))
  all_goals (try (simp only [pure, Except.pure, Except.ok.injEq] at *))
  all_goals (try subst_vars)
  all_goals (first
    | exact delete_cost hi hc (by assumption)
    | exact utc_cost hi.tourKeys hc (by assumption))

theorem tourOf_vehicle {s : Schedule} (hi : ListInv s) {p : Veh} (hv : s.isVehicle p = true) :
    s.tourOf? p = assocGet? s.tours p ∧ (assocGet? s.tours p).isSome = true := by
  have hs : (assocGet? s.vehicles p).isSome = (assocGet? s.tours p).isSome := hi.same p
  have h2 : (assocGet? s.tours p).isSome = true := by rw [← hs]; exact hv
  obtain ⟨t, ht⟩ := Option.isSome_iff_exists.mp h2
  exact ⟨by simp [Schedule.tourOf?, ht], h2⟩

theorem erase_cost_eq {nw : Network} {s : Schedule} (hi : ListInv s) (hc : CostEq nw s) {p : Veh} {t : Tour} {c : Nat}
    {site1 site2 : String} (hv : s.isVehicle p = true) (ht : unwrapO (s.tourOf? p) site1 = .ok t)
    (hsub : Tour.subNat s.costs t.costs site2 = .ok c) : c = sumCost (assocErase s.tours p) + staffTerm nw := by
  have ht' := unwrapO_ok ht
  rw [(tourOf_vehicle hi hv).1] at ht'
  obtain ⟨hle, hceq⟩ := subNat_ok hsub
  have := sumCost_erase s.tours p t hi.tourKeys ht'
  rw [hceq, hc]; omega

/-- `update_tours` keeps `costs = Σ tour costs + staff` in the work record -/
theorem updateTours_cost {nw : Network} {s : Schedule} {w' : Work} {provider : Option Veh} {newProv : Option Tour}
    {receiver : Veh} {newRecv : Tour} {moved : List Nat} (hi : ListInv s) (hd : DummyInv s) (hc : CostEq nw s)
    (h : updateTours nw s (Work.ofSchedule s) provider newProv receiver newRecv moved = .ok w') :
    w'.costs = sumCost w'.tours + staffTerm nw := by
  unfold updateTours at h
  inv_do h
  all_goals (try contradiction)
  all_goals (try (cases h))
  all_goals (try (simp only [pure, Except.pure, Except.ok.injEq] at *))
  all_goals (try subst_vars)
  all_goals (try dsimp only)
  all_goals (first
    | exact utc_cost hi.tourKeys hc (by assumption)
    | exact utc_cost (updateTourAndCosts_core (c := coreOf s) hi (by assumption)).tourKeys
        (utc_cost hi.tourKeys hc (by assumption)) (by assumption)
    | exact utc_cost (assocErase_keys_nodup _ _ hi.tourKeys)
        (erase_cost_eq hi hc (by assumption) (by assumption) (by assumption)) (by assumption)
    | (exfalso
       have hnd := vehicle_not_dummy hi hd (by assumption)
       simp_all)
    | trace_state)

theorem fit_cost {nw : Network} {s s' : Schedule} {p r : Veh} {a b : Nat}
    (hi : ListInv s) (hd : DummyInv s) (hc : CostEq nw s) (h : fitReassign nw s p r a b = .ok s') : CostEq nw s' := by
  unfold fitReassign at h
  inv_do h
  all_goals (try contradiction)
  all_goals (try (cases h))
  all_goals (first
    | exact updateTours_cost hi hd hc (by assumption)
    | trace_state)

theorem override_cost {nw : Network} {s s' : Schedule} {p r : Veh} {a b : Nat} {d : Option Veh}
    (hi : ListInv s) (hd : DummyInv s) (hc : CostEq nw s) (h : overrideReassign nw s p r a b = .ok (s', d)) :
    CostEq nw s' := by
  unfold overrideReassign at h
  inv_do h
  all_goals (try contradiction)
  all_goals (try (cases h))
  all_goals (try (simp only [pure, Except.pure, Except.ok.injEq] at *))
  all_goals (try subst_vars)
  all_goals (
    have hw := updateTours_cost hi hd hc (by assumption)
    exact hw)

/-- the three depot-choosing folds: each step replaces one not yet replaced tour and moves the
    running cost by the difference -/
theorem fold_cost (s : Schedule) (K : Nat) (F : Acc → Veh → R Acc) (L0 : List Veh)
    (hF : ∀ acc v acc', v ∈ L0 → F acc v = .ok acc' →
      ∃ nt t, acc'.1 = assocSet acc.1 v nt ∧ assocGet? s.tours v = some t ∧ acc'.2.2 + t.costs = acc.2.2 + nt.costs) :
    ∀ (L : List Veh) (acc acc' : Acc), (∀ v ∈ L, v ∈ L0) → L.Nodup → (acc.1.map (·.1)).Nodup →
      (∀ v ∈ L, assocGet? acc.1 v = assocGet? s.tours v) → acc.2.2 = sumCost acc.1 + K →
      L.foldlM F acc = .ok acc' → acc'.2.2 = sumCost acc'.1 + K
  | [], acc, acc', _, _, _, _, hc, h => by
    simp only [List.foldlM_nil, pure, Except.pure, Except.ok.injEq] at h
    rw [← h]; exact hc
  | x :: xs, acc, acc', hL, hnd, hk, hag, hc, h => by
    rw [List.foldlM_cons] at h
    obtain ⟨a1, h1, h⟩ := bind_ok h
    obtain ⟨nt, t, hset, hst, hcost⟩ := hF acc x a1 (hL x (by simp)) h1
    have hnd' := List.nodup_cons.mp hnd
    have hold : assocGet? acc.1 x = some t := by rw [hag x (by simp)]; exact hst
    have hsum := sumCost_set_present acc.1 x t nt hk hold
    refine fold_cost s K F L0 hF xs a1 acc' (fun v hv => hL v (by simp [hv])) hnd'.2 ?_ ?_ ?_ h
    · rw [hset, C09S.assocSet_keys_present _ _ t _ hold]; exact hk
    · intro w hw
      have hne : w ≠ x := fun e => hnd'.1 (e ▸ hw)
      rw [hset, assocGet?_assocSet]; simp only [hne, ↓reduceIte]
      exact hag w (by simp [hw])
    · rw [hset]; omega

theorem nodup_flatMap_of {α β} [DecidableEq β] (f : α → List β) : ∀ (l : List α), l.Nodup →
    (∀ x ∈ l, (f x).Nodup) → (∀ a ∈ l, ∀ b ∈ l, a ≠ b → ∀ y ∈ f a, y ∉ f b) → (l.flatMap f).Nodup
  | [], _, _, _ => by simp
  | a :: as, hnd, h1, h2 => by
    have hnd' := List.nodup_cons.mp hnd
    rw [List.flatMap_cons, List.nodup_append]
    refine ⟨h1 a (by simp), nodup_flatMap_of f as hnd'.2 (fun x hx => h1 x (by simp [hx]))
      (fun x hx y hy => h2 x (by simp [hx]) y (by simp [hy])), ?_⟩
    intro y hy z hz e; subst e
    obtain ⟨b, hb, hyb⟩ := List.mem_flatMap.mp hz
    have hne : a ≠ b := fun e => hnd'.1 (e ▸ hb)
    exact h2 a (by simp) b (by simp [hb]) hne y hy hyb

theorem vehiclesAll_nodup {nw : Network} {s : Schedule} (hi : ListInv s) : (s.vehiclesAll nw).Nodup := by
  unfold Schedule.vehiclesAll Network.typeIdxs
  apply nodup_flatMap_of _ _ List.nodup_range
  · intro vt _
    unfold Schedule.vehiclesOfType
    cases hg : assocGet? s.idsByType vt with
    | none => simp
    | some l => exact hi.idsNodup vt l hg
  · intro a _ b _ hab y hya hyb
    unfold Schedule.vehiclesOfType at hya hyb
    cases hga : assocGet? s.idsByType a with
    | none => rw [hga] at hya; cases hya
    | some la =>
      cases hgb : assocGet? s.idsByType b with
      | none => rw [hgb] at hyb; cases hyb
      | some lb =>
        rw [hga] at hya; rw [hgb] at hyb
        have h1 := hi.typed a la hga y hya
        have h2 := hi.typed b lb hgb y hyb
        rw [h1] at h2; cases h2; exact hab rfl

theorem listed_isVehicle {nw : Network} {s : Schedule} (hi : ListInv s) {v : Veh} (hv : v ∈ s.vehiclesAll nw) :
    s.isVehicle v = true := by
  have := listed_hasTour hi hv
  have hs : (assocGet? s.vehicles v).isSome = (assocGet? s.tours v).isSome := hi.same v
  unfold Schedule.isVehicle; rw [hs]; exact this

theorem typed_isVehicle {s : Schedule} {v : Veh} {vt : Nat} (h : s.typeOf? v = some vt) : s.isVehicle v = true := by
  unfold Schedule.isVehicle
  have : assocGet? s.vehicles v = some vt := h
  rw [this]; rfl

theorem endStep_cost_ok {nw : Network} {s : Schedule} {acc acc' : Acc} {v : Veh}
    (h : C05.endStep nw s acc v = .ok acc') :
    ∃ nt t vt, acc'.1 = assocSet acc.1 v nt ∧ s.tourOf? v = some t ∧ s.typeOf? v = some vt ∧
      acc'.2.2 + t.costs = acc.2.2 + nt.costs := by
  obtain ⟨tours, u, costs⟩ := acc
  unfold C05.endStep at h
  dsimp only at h
  obtain ⟨t, ht, h⟩ := bind_ok h
  obtain ⟨vt, hvt, h⟩ := bind_ok h
  obtain ⟨tr, _, h⟩ := bind_ok h
  obtain ⟨next, _, h⟩ := bind_ok h
  obtain ⟨ntour, _, h⟩ := bind_ok h
  obtain ⟨sd, _, h⟩ := bind_ok h
  obtain ⟨nt, _, h⟩ := bind_ok h
  obtain ⟨c, hc, h⟩ := bind_ok h
  obtain ⟨u', _, h⟩ := bind_ok h
  simp only [pure, Except.pure, Except.ok.injEq] at h
  subst h
  obtain ⟨hle, hceq⟩ := subNat_ok hc
  exact ⟨nt, t, vt, rfl, unwrapO_ok ht, unwrapO_ok hvt, by simp only; omega⟩

theorem endConsistent_cost {nw : Network} {s s' : Schedule}
    (hi : ListInv s) (hc : CostEq nw s) (h : reassignEndDepotsConsistent nw s = .ok s') : CostEq nw s' := by
  have hunf : reassignEndDepotsConsistent nw s = (do
      let (tours, usage, costs) ← (s.vehiclesAll nw).foldlM (C05.endStep nw s) (s.tours, s.depotUsage, s.costs)
      let (trans, viol) ← updateTransitionsFast nw s s.vehicles tours (s.vehiclesAll nw) [] s.transitions s.violation
      pure { s with tours, transitions := trans, depotUsage := usage, violation := viol, costs }) := rfl
  rw [hunf] at h
  obtain ⟨⟨tours, usage, costs⟩, hfold, h⟩ := bind_ok h
  dsimp only at h
  obtain ⟨⟨trans, viol⟩, _, h⟩ := bind_ok h
  simp only [pure, Except.pure, Except.ok.injEq] at h
  rw [← h]
  exact fold_cost s (staffTerm nw) (C05.endStep nw s) (s.vehiclesAll nw)
    (fun acc v acc' _ hstep => by
      obtain ⟨nt, t, vt, hset, ht, hvt, hcost⟩ := endStep_cost_ok hstep
      refine ⟨nt, t, hset, ?_, hcost⟩
      rw [← (tourOf_vehicle hi (typed_isVehicle hvt)).1]; exact ht)
    (s.vehiclesAll nw) (s.tours, s.depotUsage, s.costs) (tours, usage, costs) (fun _ h => h)
    (vehiclesAll_nodup hi) hi.tourKeys (fun _ _ => rfl) hc hfold

theorem endGreedy_cost {nw : Network} {s s' : Schedule}
    (hi : ListInv s) (hc : CostEq nw s) (h : reassignEndDepotsGreedily nw s = .ok s') : CostEq nw s' := by
  have hunf : reassignEndDepotsGreedily nw s = (do
      let (tours, usage, costs) ← (s.vehiclesAll nw).foldlM (greedyStep nw s) (s.tours, s.depotUsage, s.costs)
      let (trans, viol) ← recomputeTransitions nw s.idsByType tours nw.typeIdxs s.transitions s.violation
      pure { s with tours, transitions := trans, depotUsage := usage, violation := viol, costs }) := rfl
  rw [hunf] at h
  obtain ⟨⟨tours, usage, costs⟩, hfold, h⟩ := bind_ok h
  dsimp only at h
  obtain ⟨⟨trans, viol⟩, _, h⟩ := bind_ok h
  simp only [pure, Except.pure, Except.ok.injEq] at h
  rw [← h]
  exact fold_cost s (staffTerm nw) (greedyStep nw s) (s.vehiclesAll nw)
    (fun acc v acc' hv hstep => by
      obtain ⟨nt, t, hset, ht, hcost⟩ := greedyStep_ok hstep
      refine ⟨nt, t, hset, ?_, hcost⟩
      rw [← (tourOf_vehicle hi (listed_isVehicle hi hv)).1]; exact ht)
    (s.vehiclesAll nw) (s.tours, s.depotUsage, s.costs) (tours, usage, costs) (fun _ h => h)
    (vehiclesAll_nodup hi) hi.tourKeys (fun _ _ => rfl) hc hfold

theorem improve_cost {nw : Network} {s s' : Schedule} {vs : Option (List Veh)}
    (hi : ListInv s) (hc : CostEq nw s) (hvs : ∀ l, vs = some l → l.Nodup)
    (h : improveDepots nw s vs = .ok s') : CostEq nw s' := by
  unfold improveDepots at h
  dsimp only at h
  obtain ⟨usage0, _, h⟩ := bind_ok h
  have hL : (vs.getD (s.vehiclesAll nw)).Nodup := by
    cases vs with
    | none => exact vehiclesAll_nodup hi
    | some l => exact hvs l rfl
  obtain ⟨⟨tours, usage, costs⟩, hfold, h⟩ := bind_ok h
  have hcst : costs = sumCost tours + staffTerm nw :=
    fold_cost s (staffTerm nw) (improveStep nw s) (vs.getD (s.vehiclesAll nw))
      (fun acc v acc' _ hst => by
        obtain ⟨nt, t, vt, hset, ht, hvt, hcost⟩ := improveStep_ok hst
        refine ⟨nt, t, hset, ?_, hcost⟩
        rw [← (tourOf_vehicle hi (typed_isVehicle hvt)).1]; exact ht)
      _ (s.tours, usage0, s.costs) (tours, usage, costs) (fun _ h => h) hL hi.tourKeys (fun _ _ => rfl) hc hfold
  inv_do h
  all_goals (try contradiction)
  all_goals (try (cases h))
  all_goals exact hcst

theorem recompute_cost {nw : Network} {s s' : Schedule} {vts : Option (List Nat)}
    (hc : CostEq nw s) (h : recomputeTransitionsFor nw s vts = .ok s') : CostEq nw s' := by
  unfold recomputeTransitionsFor at h
  inv_do h
  all_goals (try contradiction)
  all_goals (try (cases h))
  all_goals exact hc

theorem deleteDummy_cost {nw : Network} {s s1 : Schedule} {d : Veh} (hc : CostEq nw s) (h : deleteDummy s d = .ok s1) :
    CostEq nw s1 := by
  unfold deleteDummy at h
  inv_do h
  all_goals (try (cases h))
  all_goals exact hc

theorem deleteDummy_listInv {s s1 : Schedule} {d : Veh} (hi : ListInv s) (h : deleteDummy s d = .ok s1) : ListInv s1 := by
  unfold ListInv; rw [deleteDummy_core h]; exact hi

theorem dummySpawn_cost {nw : Network} {s s' : Schedule} {d : Veh} {vt : Nat} {v : Veh}
    (hi : ListInv s) (hc : CostEq nw s) (h : spawnToReplaceDummy nw s d vt = .ok (s', v)) : CostEq nw s' := by
  unfold spawnToReplaceDummy at h
  inv_do h
  all_goals (try contradiction)
  all_goals (try (cases h))
  all_goals (first
    | exact spawn_cost (deleteDummy_listInv hi (by assumption)) (deleteDummy_cost hc (by assumption)) (by assumption)
    | trace_state)

/-! ### every history -/
structure Inv (nw : Network) (s : Schedule) : Prop where
  listing : ListInv s
  dummies : DummyInv s
  cost : CostEq nw s

/-- the only argument condition: the vehicle list of `improve_depots(Some(..))` has no duplicates
    (with a duplicate the real code, like the model, books the second replacement against the tour
    of the old schedule) -/
def ArgsOK : Spec.SOp → Prop
  | .improve (some vs) => vs.Nodup
  | _ => True

theorem C09_cost_step (nw : Network) (s : Schedule) (op : Spec.SOp) (r : OpResult)
    (hinv : Inv nw s) (hargs : ArgsOK op) (h : applyOp nw s op = .ok r) : Inv nw r.sched := by
  obtain ⟨hi, hd, hc⟩ := hinv
  have hl := C10_listing_step nw s op r hi h
  refine ⟨hl, ?_, ?_⟩
  · -- dummy keys
    unfold applyOp at h
    cases op with
    | init =>
      simp only [pure, Except.pure, Except.ok.injEq] at h
      rw [← h]; intro d hd'; simp [Schedule.empty, assocGet?_nil] at hd'
    | spawn vt path =>
      obtain ⟨⟨s', v⟩, hs, h⟩ := bind_ok h
      simp only [pure, Except.pure, Except.ok.injEq] at h
      rw [← h]; exact spawn_dk hd hs
    | dummySpawn d vt =>
      obtain ⟨⟨s', v⟩, hs, h⟩ := bind_ok h
      simp only [pure, Except.pure, Except.ok.injEq] at h
      rw [← h]; exact dummySpawn_dk hd hs
    | delete v =>
      obtain ⟨s', hs, h⟩ := bind_ok h
      simp only [pure, Except.pure, Except.ok.injEq] at h
      rw [← h]; exact delete_dk hd hs
    | addPath v path =>
      dsimp only at h
      split at h
      · obtain ⟨⟨s', rm⟩, hs, h⟩ := bind_ok h
        simp only [pure, Except.pure, Except.ok.injEq] at h
        rw [← h]; exact addPath_dk hd hs
      · cases h
    | rmSeg v a b =>
      obtain ⟨s', hs, h⟩ := bind_ok h
      simp only [pure, Except.pure, Except.ok.injEq] at h
      rw [← h]; exact rmSeg_dk hd hs
    | fit p r a b =>
      obtain ⟨s', hs, h⟩ := bind_ok h
      simp only [pure, Except.pure, Except.ok.injEq] at h
      rw [← h]; exact fit_dk hd hs
    | override p r a b =>
      obtain ⟨⟨s', d⟩, hs, h⟩ := bind_ok h
      simp only [pure, Except.pure, Except.ok.injEq] at h
      rw [← h]; exact override_dk hd hs
    | improve vs =>
      obtain ⟨s', hs, h⟩ := bind_ok h
      simp only [pure, Except.pure, Except.ok.injEq] at h
      rw [← h]; exact improve_dk hd hs
    | endGreedy =>
      obtain ⟨s', hs, h⟩ := bind_ok h
      simp only [pure, Except.pure, Except.ok.injEq] at h
      rw [← h]; exact endGreedy_dk hd hs
    | recompute vts =>
      obtain ⟨s', hs, h⟩ := bind_ok h
      simp only [pure, Except.pure, Except.ok.injEq] at h
      rw [← h]; exact recompute_dk hd hs
    | endConsistent =>
      obtain ⟨s', hs, h⟩ := bind_ok h
      simp only [pure, Except.pure, Except.ok.injEq] at h
      rw [← h]; exact endConsistent_dk hd hs
    | setTrans vt v ci =>
      obtain ⟨tr, _, h⟩ := bind_ok h
      obtain ⟨moved, _, h⟩ := bind_ok h
      simp only [pure, Except.pure, Except.ok.injEq] at h
      rw [← h]; exact hd
  · -- costs
    unfold applyOp at h
    cases op with
    | init =>
      simp only [pure, Except.pure, Except.ok.injEq] at h
      rw [← h]; exact empty_cost nw
    | spawn vt path =>
      obtain ⟨⟨s', v⟩, hs, h⟩ := bind_ok h
      simp only [pure, Except.pure, Except.ok.injEq] at h
      rw [← h]; exact spawn_cost hi hc hs
    | dummySpawn d vt =>
      obtain ⟨⟨s', v⟩, hs, h⟩ := bind_ok h
      simp only [pure, Except.pure, Except.ok.injEq] at h
      rw [← h]; exact dummySpawn_cost hi hc hs
    | delete v =>
      obtain ⟨s', hs, h⟩ := bind_ok h
      simp only [pure, Except.pure, Except.ok.injEq] at h
      rw [← h]; exact delete_cost hi hc hs
    | addPath v path =>
      dsimp only at h
      split at h
      · obtain ⟨⟨s', rm⟩, hs, h⟩ := bind_ok h
        simp only [pure, Except.pure, Except.ok.injEq] at h
        rw [← h]; exact addPath_cost hi hc hs
      · cases h
    | rmSeg v a b =>
      obtain ⟨s', hs, h⟩ := bind_ok h
      simp only [pure, Except.pure, Except.ok.injEq] at h
      rw [← h]; exact rmSeg_cost hi hc hs
    | fit p r a b =>
      obtain ⟨s', hs, h⟩ := bind_ok h
      simp only [pure, Except.pure, Except.ok.injEq] at h
      rw [← h]; exact fit_cost hi hd hc hs
    | override p r a b =>
      obtain ⟨⟨s', d⟩, hs, h⟩ := bind_ok h
      simp only [pure, Except.pure, Except.ok.injEq] at h
      rw [← h]; exact override_cost hi hd hc hs
    | improve vs =>
      obtain ⟨s', hs, h⟩ := bind_ok h
      simp only [pure, Except.pure, Except.ok.injEq] at h
      rw [← h]
      refine improve_cost hi hc ?_ hs
      intro l hl'; subst hl'; exact hargs
    | endGreedy =>
      obtain ⟨s', hs, h⟩ := bind_ok h
      simp only [pure, Except.pure, Except.ok.injEq] at h
      rw [← h]; exact endGreedy_cost hi hc hs
    | recompute vts =>
      obtain ⟨s', hs, h⟩ := bind_ok h
      simp only [pure, Except.pure, Except.ok.injEq] at h
      rw [← h]; exact recompute_cost hc hs
    | endConsistent =>
      obtain ⟨s', hs, h⟩ := bind_ok h
      simp only [pure, Except.pure, Except.ok.injEq] at h
      rw [← h]; exact endConsistent_cost hi hc hs
    | setTrans vt v ci =>
      obtain ⟨tr, _, h⟩ := bind_ok h
      obtain ⟨moved, _, h⟩ := bind_ok h
      simp only [pure, Except.pure, Except.ok.injEq] at h
      rw [← h]; exact hc

/-- **C09 / C04 (cost cache), every history**: in every schedule the model reaches from the empty
    schedule by public modifications (vehicle lists of `improve_depots` duplicate-free), the cached
    cost is Σ tour costs + staff term, dummy tours are keyed by dummy ids, and the listing
    invariant holds -/
theorem C09_cost_reachable (nw : Network) : ∀ (ops : List Spec.SOp) (s s' : Schedule),
    Inv nw s → (∀ op ∈ ops, ArgsOK op) → runOps nw s ops = some s' → Inv nw s'
  | [], s, s', hinv, _, h => by simp only [runOps, Option.some.injEq] at h; rw [← h]; exact hinv
  | op :: rest, s, s', hinv, hargs, h => by
    unfold runOps at h
    split at h
    · rename_i r hr
      exact C09_cost_reachable nw rest r.sched s'
        (C09_cost_step nw s op r hinv (hargs op (by simp)) hr) (fun o ho => hargs o (by simp [ho])) h
    · cases h

theorem C09_cost_from_empty (nw : Network) (ops : List Spec.SOp) (s' : Schedule)
    (hargs : ∀ op ∈ ops, ArgsOK op) (h : runOps nw (Schedule.empty nw) ops = some s') : Inv nw s' :=
  C09_cost_reachable nw ops _ s'
    ⟨empty_listInv nw, by intro d hd; simp [Schedule.empty, assocGet?_nil] at hd, empty_cost nw⟩ hargs h

end RSSched.C09C
