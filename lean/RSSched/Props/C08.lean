/-
Props/C08: the local search only improves, in the documented priority order, up to a fixpoint.
Theorems are about the search loop of Model/Objective.lean for an ARBITRARY neighbourhood and
state type — so they hold for the schedule search, the transition search and the cycle TSP alike.
-/
import RSSched.Model.Objective
namespace RSSched.C08
open RSSched

/-- the order compares unserved passengers first, then maintenance violation, then vehicle count,
    then costs -/
theorem C08_order (a b : Obj) :
    Obj.lt a b ↔
      (a.unserved, a.violation, a.vehicles, a.costs) ≠ (b.unserved, b.violation, b.vehicles, b.costs) ∧
      (a.unserved < b.unserved ∨ (a.unserved = b.unserved ∧ (a.violation < b.violation ∨
        (a.violation = b.violation ∧ (a.vehicles < b.vehicles ∨ (a.vehicles = b.vehicles ∧ a.costs ≤ b.costs)))))) := by
  unfold Obj.lt
  constructor
  · intro h
    refine ⟨?_, ?_⟩
    · intro he; simp only [Prod.mk.injEq] at he; omega
    · omega
  · rintro ⟨hne, h⟩
    simp only [ne_eq, Prod.mk.injEq] at hne
    omega

theorem lt_irrefl (a : Obj) : ¬ Obj.lt a a := by unfold Obj.lt; omega

theorem lt_trans {a b c : Obj} (h1 : Obj.lt a b) (h2 : Obj.lt b c) : Obj.lt a c := by
  unfold Obj.lt at *; omega

theorem lt_asymm {a b : Obj} (h1 : Obj.lt a b) : ¬ Obj.lt b a := by
  unfold Obj.lt at *; omega

theorem le_trans {a b c : Obj} (h1 : Obj.le a b) (h2 : Obj.le b c) : Obj.le a c := by
  unfold Obj.le at *
  rcases h1 with h1 | h1 <;> rcases h2 with h2 | h2
  · exact Or.inl (lt_trans h1 h2)
  · subst h2; exact Or.inl h1
  · subst h1; exact Or.inl h2
  · subst h1; exact Or.inr h2

theorem foldl_best_mem {σ} (obj : σ → Obj) (cs : List σ) (c : σ) :
    cs.foldl (fun b x => if Obj.lt (obj x) (obj b) then x else b) c ∈ c :: cs := by
  induction cs generalizing c with
  | nil => simp
  | cons x xs ih =>
    simp only [List.foldl_cons]
    have := ih (if Obj.lt (obj x) (obj c) then x else c)
    rcases List.mem_cons.mp this with h | h
    · rw [h]; split <;> simp
    · exact List.mem_cons_of_mem _ (List.mem_cons_of_mem _ h)

theorem not_lt_of_le {a b : Obj} (h : Obj.le a b) : ¬ Obj.lt b a := by
  unfold Obj.le Obj.lt at *
  rcases h with h | h
  · omega
  · subst h; omega

theorem foldl_best_minimal {σ} (obj : σ → Obj) (cs : List σ) (c : σ) :
    ∀ x ∈ c :: cs, ¬ Obj.lt (obj x) (obj (cs.foldl (fun b x => if Obj.lt (obj x) (obj b) then x else b) c)) := by
  induction cs generalizing c with
  | nil => intro x hx; simp at hx; subst hx; exact lt_irrefl _
  | cons y ys ih =>
    intro x hx
    simp only [List.foldl_cons]
    by_cases hy : Obj.lt (obj y) (obj c)
    · simp only [hy, ↓reduceIte]
      have h1 := ih y
      rcases List.mem_cons.mp hx with h | h
      · -- x = c: best ≤ y < c
        subst h
        intro hlt
        have hb := ih y y (by simp)
        -- obj best ≤ … we know ¬ (obj y < obj best); and obj x < obj best, obj y < obj x
        exact hb (lt_trans hy hlt)
      · rcases List.mem_cons.mp h with h | h
        · subst h; exact ih x x (by simp)
        · exact ih y x (by simp [h])
    · simp only [hy, ↓reduceIte]
      rcases List.mem_cons.mp hx with h | h
      · subst h; exact ih x x (by simp)
      · rcases List.mem_cons.mp h with h | h
        · subst h
          intro hlt
          have hb := ih c c (by simp)
          -- obj x < obj best and ¬ obj x < obj c  and ¬ obj c < obj best
          unfold Obj.lt at *; omega
        · exact ih c x (by simp [h])

/-- every accepted step is a neighbour, strictly better, and minimal among the neighbours -/
theorem C08_step {σ} (obj : σ → Obj) (nbrs : σ → List σ) (s c : σ) (h : improve obj nbrs s = some c) :
    c ∈ nbrs s ∧ Obj.lt (obj c) (obj s) ∧ ∀ c' ∈ nbrs s, ¬ Obj.lt (obj c') (obj c) := by
  unfold improve at h
  split at h
  · cases h
  · rename_i x xs heq
    simp only at h
    split at h
    · cases h
      rename_i hlt
      refine ⟨?_, hlt, ?_⟩
      · rw [heq]; exact foldl_best_mem obj xs x
      · rw [heq]; exact foldl_best_minimal obj xs x
    · cases h

/-- the result is never worse than the start, whatever the fuel -/
theorem C08_result {σ} (obj : σ → Obj) (nbrs : σ → List σ) (fuel : Nat) (s : σ) :
    Obj.le (obj (searchFuel obj nbrs fuel s).1) (obj s) := by
  induction fuel generalizing s with
  | zero => exact Or.inr rfl
  | succ n ih =>
    unfold searchFuel
    cases h : improve obj nbrs s with
    | none => exact Or.inr rfl
    | some s' =>
      exact le_trans (ih s') (Or.inl (C08_step obj nbrs s s' h).2.1)

/-- when the loop ends by itself, its result is a fixpoint: no neighbour is strictly better -/
theorem C08_fix {σ} (obj : σ → Obj) (nbrs : σ → List σ) (fuel : Nat) (s : σ)
    (h : (searchFuel obj nbrs fuel s).2 = true) :
    improve obj nbrs (searchFuel obj nbrs fuel s).1 = none := by
  induction fuel generalizing s with
  | zero => simp [searchFuel] at h
  | succ n ih =>
    unfold searchFuel at h ⊢
    cases h2 : improve obj nbrs s with
    | none => simp [h2]
    | some s' => simp only [h2] at h ⊢; exact ih s' h

/-- running the search again on its own result changes nothing -/
theorem C08_idempotent {σ} (obj : σ → Obj) (nbrs : σ → List σ) (fuel fuel' : Nat) (s : σ)
    (h : (searchFuel obj nbrs fuel s).2 = true) :
    searchFuel obj nbrs (fuel' + 1) (searchFuel obj nbrs fuel s).1 = ((searchFuel obj nbrs fuel s).1, true) := by
  have := C08_fix obj nbrs fuel s h
  simp [searchFuel, this]

/-- no neighbour of a fixpoint is strictly better -/
theorem C08_fix_no_better {σ} (obj : σ → Obj) (nbrs : σ → List σ) (s : σ) (h : improve obj nbrs s = none) :
    ∀ c ∈ nbrs s, ¬ Obj.lt (obj c) (obj s) := by
  unfold improve at h
  split at h
  · rename_i heq; intro c hc; rw [heq] at hc; cases hc
  · rename_i x xs heq
    simp only at h
    split at h
    · cases h
    · rename_i hnlt
      intro c hc hlt
      rw [heq] at hc
      have := foldl_best_minimal obj xs x c hc
      have hm := foldl_best_mem obj xs x
      -- best is not better than s, c is better than s, but c is not better than best
      unfold Obj.lt at *; omega

example : Obj.lt ⟨0, 5, 3, 10⟩ ⟨0, 5, 3, 11⟩ ∧ Obj.lt ⟨0, 4, 9, 99⟩ ⟨0, 5, 3, 11⟩ ∧ ¬ Obj.lt ⟨1, 0, 0, 0⟩ ⟨0, 9, 9, 9⟩ := by
  decide

end RSSched.C08
