/-
Props/C18: the HTTP service answers each request with its own solution and isolates failures —
for the stateless model of Model/Server.lean, for EVERY finite interleaving of arrivals and
completions: each answered request got exactly `respond` of its own request, whatever else was in
flight, failed or panicked; a health probe is answered "Healthy" in every state. The theorem is the
specification the real server is compared against (scope `serve`); it would stop to hold as soon as
the model needed a shared mutable cell, which is the kind of change it guards against.
Real sockets, tokio scheduling, rayon's shared pool and a `panic = "abort"` profile are outside any
model: they are exercised by the concurrent client, not proved (level `other`).
-/
import RSSched.Model.Server
namespace RSSched.C18
open RSSched.Server

theorem step_answered {B O} (solve : B → Outcome O) (s : State B O) (e : Event B)
    (h : ∀ x ∈ s.answered, x.2.2 = respond solve x.2.1) :
    ∀ x ∈ (step solve s e).answered, x.2.2 = respond solve x.2.1 := by
  cases e with
  | arrive id r => exact h
  | complete id =>
    unfold step
    cases hf : s.inflight.find? (·.1 == id) with
    | none => simpa [hf] using h
    | some p =>
      obtain ⟨i, r⟩ := p
      intro x hx
      simp only [hf, List.mem_cons] at hx
      rcases hx with hx | hx
      · subst hx; rfl
      · exact h x hx

/-- **isolation**: after any finite interleaving, every answered request carries the answer of its
    own request alone -/
theorem C18_isolation {B O} (solve : B → Outcome O) (evs : List (Event B)) :
    ∀ x ∈ (run solve evs).answered, x.2.2 = respond solve x.2.1 := by
  unfold run
  suffices ∀ (s : State B O), (∀ x ∈ s.answered, x.2.2 = respond solve x.2.1) →
      ∀ x ∈ (evs.foldl (step solve) s).answered, x.2.2 = respond solve x.2.1 by
    exact this {} (by intro x hx; cases hx)
  induction evs with
  | nil => intro s h; simpa using h
  | cons e es ih => intro s h; exact ih _ (step_answered solve s e h)

/-- a health probe is answered "Healthy" whatever the solver does with other requests -/
theorem C18_health {B O} (solve : B → Outcome O) : respond solve (Req.health : Req B) = Resp.ok200 "Healthy" := rfl

/-- a failing request fails alone: its answer is an error or a closed connection, and it does not
    change the answer of any other request -/
theorem C18_failure_is_local {B O} (solve : B → Outcome O) (b : B) (h : ∀ o, solve b ≠ .solved o) :
    respond solve (Req.solve b) = Resp.clientError ∨ respond solve (Req.solve b) = Resp.closed := by
  unfold respond
  cases hs : solve b with
  | malformed => simp [hs]
  | invalid => simp [hs]
  | solved o => exact absurd hs (h o)

end RSSched.C18
