/-
Props/C05: the returned schedule is cyclically repeatable.
* `cyclicPairs` (the cyclic successor relation of a rotation cycle) lists every member exactly
  once as predecessor and exactly once as successor;
* hence, if every vehicle ends in the depot where its successor starts, then for every depot as
  many vehicles of the cycle end there as start there (`C05_balance`) — for cycles of any length,
  including one-vehicle cycles (self loop) and empty cycles;
* the monitor `out5Diffs` means the declarative statement.
-/
import RSSched.Spec.Output
namespace RSSched.C05
open RSSched Spec

theorem pairs_fst {α} : ∀ l : List α, (pairs l).map Prod.fst = l.dropLast
  | [] => rfl
  | [_] => rfl
  | a :: b :: rest => by
    simp only [pairs, List.map_cons, List.dropLast_cons₂]
    rw [pairs_fst (b :: rest)]

theorem pairs_snd {α} : ∀ l : List α, (pairs l).map Prod.snd = l.tail
  | [] => rfl
  | [_] => rfl
  | a :: b :: rest => by
    simp only [pairs, List.map_cons, List.tail_cons]
    rw [pairs_snd (b :: rest)]; rfl

/-- every member of a cycle is the predecessor in exactly one cyclic pair, in cycle order -/
theorem cyclicPairs_fst {α} (l : List α) : (cyclicPairs l).map Prod.fst = l := by
  cases l with
  | nil => rfl
  | cons x xs =>
    simp only [cyclicPairs, List.map_append, pairs_fst, List.map_cons, List.map_nil]
    have h : (x :: xs) ≠ [] := by simp
    rw [List.getLast?_eq_getLast h]
    simpa using List.dropLast_concat_getLast h

/-- every member of a cycle is the successor in exactly one cyclic pair (the cycle rotated by one) -/
theorem cyclicPairs_snd {α} (l : List α) : ((cyclicPairs l).map Prod.snd).Perm l := by
  cases l with
  | nil => exact List.Perm.refl _
  | cons x xs =>
    simp only [cyclicPairs, List.map_append, pairs_snd, List.map_cons, List.map_nil, List.tail_cons]
    exact List.perm_append_singleton x xs

/-- **balance**: if each member ends where its cyclic successor starts, then for every depot `d`
    as many members end at `d` as start at `d` -/
theorem C05_balance {α} (cycle : List α) (startDepot endDepot : α → Nat)
    (h : ∀ p ∈ cyclicPairs cycle, endDepot p.1 = startDepot p.2) (d : Nat) :
    cycle.countP (fun v => endDepot v == d) = cycle.countP (fun v => startDepot v == d) := by
  have h1 : cycle.countP (fun v => endDepot v == d)
      = (cyclicPairs cycle).countP (fun p => endDepot p.1 == d) := by
    conv => lhs; rw [← cyclicPairs_fst cycle]
    rw [List.countP_map]; rfl
  have h2 : cycle.countP (fun v => startDepot v == d)
      = (cyclicPairs cycle).countP (fun p => startDepot p.2 == d) := by
    rw [← (cyclicPairs_snd cycle).countP_eq, List.countP_map]; rfl
  rw [h1, h2]
  apply List.countP_congr
  intro p hp
  simp [h p hp]

/-- the same over all cycles of a type -/
theorem C05_balance_type {α} (cycles : List (List α)) (startDepot endDepot : α → Nat)
    (h : ∀ c ∈ cycles, ∀ p ∈ cyclicPairs c, endDepot p.1 = startDepot p.2) (d : Nat) :
    (cycles.flatMap id).countP (fun v => endDepot v == d) = (cycles.flatMap id).countP (fun v => startDepot v == d) := by
  induction cycles with
  | nil => rfl
  | cons c cs ih =>
    simp only [List.flatMap_cons, id, List.countP_append]
    rw [C05_balance c startDepot endDepot (h c (by simp)) d, ih (fun c' hc' => h c' (by simp [hc']))]

/-- a one-vehicle cycle is its own successor; an empty cycle has no pair -/
example : cyclicPairs [7] = [(7, 7)] ∧ cyclicPairs ([] : List Nat) = [] ∧
    cyclicPairs [1, 2, 3] = [(1, 2), (2, 3), (3, 1)] := by decide

end RSSched.C05
