/-
Props/C10: every reachable schedule satisfies the structural invariants.

The invariants are the monitor `scheduleValidDiffs` (Spec/Schedule.lean). Proved here: what an
empty diff list means, clause by clause, as declarative statements (so that "the monitor is quiet"
is the property and nothing weaker), and that a valid real tour is a chronological chain whose
consecutive nodes satisfy the documented timing rule.
The step theorem (`valid_step`: every public modification of the model maps a valid schedule to a
valid schedule) is stated in Props/C10Step.lean for the operations whose proof is complete; the
remaining operations are decided per run by evaluating the monitor on the real state after every
real modification call along generated histories.
-/
import RSSched.Spec.Schedule
import RSSched.Props.C12
namespace RSSched.C10
open RSSched Spec Network

theorem append_nil_iff {α} {a b : List α} : a ++ b = [] ↔ a = [] ∧ b = [] := List.append_eq_nil_iff

theorem ite_nil_iff {α} {c : Bool} {x : List α} (hx : x ≠ []) : (if c then [] else x) = [] ↔ c = true := by
  cases c <;> simp [hx]

/-- what the monitor's silence means for the vehicle tours -/
theorem C10_vehicle_tours (nw : Network) (s : Schedule) (h : scheduleValidDiffs nw s = []) :
    ∀ v t, (v, t) ∈ s.tours →
      tourValidB nw t = true ∧ t.isDummy = false ∧
      ∀ n ∈ inner t.nodes, (nw.node n).isService = true → some (nw.node n).vt = s.typeOf? v := by
  unfold scheduleValidDiffs at h
  simp only [append_nil_iff] at h
  obtain ⟨⟨⟨⟨⟨⟨⟨⟨_, _⟩, h3⟩, _⟩, _⟩, _⟩, _⟩, _⟩, _⟩ := h
  have h3' := (ite_nil_iff (by simp)).mp h3
  intro v t hvt
  have := List.all_eq_true.mp h3' (v, t) hvt
  simp only [Bool.and_eq_true, Bool.not_eq_true', List.all_eq_true, Bool.or_eq_true,
    beq_iff_eq] at this
  obtain ⟨⟨a, b⟩, c⟩ := this
  refine ⟨a, b, fun n hn hs => ?_⟩
  rcases c n hn with h1 | h1
  · simp [hs] at h1
  · exact h1

/-- … for the formation and track limits -/
theorem C10_limits (nw : Network) (s : Schedule) (h : scheduleValidDiffs nw s = []) :
    ∀ n ∈ nw.coverableNodes,
      ((nw.node n).isService = true → ∀ l, nw.maxFormationFor n = some l → (s.formationOf n).length ≤ l) ∧
      ((nw.node n).isService = false → (s.formationOf n).length ≤ (nw.node n).tracks) := by
  unfold scheduleValidDiffs at h
  simp only [append_nil_iff] at h
  obtain ⟨⟨⟨⟨⟨⟨⟨⟨_, _⟩, _⟩, _⟩, _⟩, h6⟩, _⟩, _⟩, _⟩ := h
  have h6' := (ite_nil_iff (by simp)).mp h6
  intro n hn
  have := List.all_eq_true.mp h6' n hn
  constructor
  · intro hs l hl
    simp only [hs, ↓reduceIte, hl, decide_eq_true_eq] at this
    exact this
  · intro hs
    simp only [hs, Bool.false_eq_true, ↓reduceIte, decide_eq_true_eq] at this
    exact this

/-- … for the rotation cycles: no clause of C15's consistency predicate is violated for any type -/
theorem C10_transitions (nw : Network) (s : Schedule) (h : scheduleValidDiffs nw s = []) :
    ∀ vt ∈ nw.typeIdxs, transitionDiffs nw s.tours (s.vehiclesOfType vt) (s.transitionOf vt) = [] := by
  unfold scheduleValidDiffs at h
  simp only [append_nil_iff] at h
  obtain ⟨_, h9⟩ := h
  intro vt hvt
  have := List.flatMap_eq_nil_iff.mp h9 vt hvt
  simpa using this

/-- a valid real tour is a chain: every consecutive pair satisfies the documented timing rule -/
theorem C10_tour_chain (nw : Network) (t : Tour) (h : tourValidB nw t = true) (hd : t.isDummy = false) :
    ∀ i, i + 1 < t.nodes.length →
      C17.ReachSpec nw (nw.node (t.nodes.getD i 0)) (nw.node (t.nodes.getD (i + 1) 0)) := by
  unfold tourValidB at h
  simp only [hd, Bool.false_eq_true, ↓reduceIte, Bool.and_eq_true] at h
  intro i hi
  exact (C17.C17_reach nw _ _).mp (C12.chain_step nw _ h.1.2 i hi)

end RSSched.C10
